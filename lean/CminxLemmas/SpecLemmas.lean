import CminxProps.TAgg
/-!
# Helper lemmas about the structural specification (`CminxModel/Spec.lean`)

Used by the property files C02, C03, C08, C09, C10, C11.
-/
namespace Cminx

/-! ## `unquote` -/

theorem unquote_quoted (s : Str) : unquote ('"' :: (s ++ ['"'])) = s := by
  have h : ('"' :: (s ++ ['"'])).getLast? = some '"' := by
    have : ('"' :: (s ++ ['"'])) = ('"' :: s) ++ ['"'] := rfl
    rw [this, List.getLast?_append]; rfl
  rw [unquote, if_pos ⟨by simp, by simp, h⟩]
  simp

theorem unquote_of_head_ne (t : Str) (h : t.head? ≠ some '"') : unquote t = t := by
  simp [unquote, h]

theorem unquote_of_last_ne (t : Str) (h : t.getLast? ≠ some '"') : unquote t = t := by
  simp [unquote, h]

/-! ## arguments written as plain tokens -/

theorem singlesOf_toArgs_toks (ts : List (Sep × ArgTok)) :
    singlesOf (toArgs (ts.map (fun p => SArg.tok p.1 p.2))) = ts.map (fun p => p.2.text) := by
  induction ts with
  | nil => simp [toArgs, singlesOf]
  | cons t ts ih => simp [toArgs, SArg.toArg, singlesOf, ih]

theorem argTexts_toArgs_toks (ts : List (Sep × ArgTok)) :
    argTexts (toArgs (ts.map (fun p => SArg.tok p.1 p.2))) = ts.map (fun p => p.2.text) := by
  induction ts with
  | nil => simp [toArgs, argTexts]
  | cons t ts ih => simp [toArgs, SArg.toArg, argTexts, Arg.text, ih]

theorem Call.singles_toks (c : Call) (ts : List (Sep × ArgTok))
    (h : c.args = ts.map (fun p => SArg.tok p.1 p.2)) : c.singles = ts.map (fun p => p.2.text) := by
  simp [Call.singles, Call.toCmd, Cmd.singles, h, singlesOf_toArgs_toks]

/-! ## `Contrib`, `itemsSpec`, `itemsCpaDirect` over lists -/

theorem Contrib.append_assoc (a b c : Contrib) : a ++ b ++ c = a ++ (b ++ c) := by
  apply Contrib.ext' <;> simp

theorem itemsSpec_nil (cfg : Cfg) (ctx : ClsCtx) : itemsSpec cfg ctx [] = {} := by simp [itemsSpec]
theorem itemsSpec_cons (cfg : Cfg) (ctx : ClsCtx) (i : Item) (is : List Item) :
    itemsSpec cfg ctx (i :: is) = i.spec cfg ctx ++ itemsSpec cfg ctx is := by simp [itemsSpec]

theorem itemsSpec_append (cfg : Cfg) (ctx : ClsCtx) (a b : List Item) :
    itemsSpec cfg ctx (a ++ b) = itemsSpec cfg ctx a ++ itemsSpec cfg ctx b := by
  induction a with
  | nil => simp [itemsSpec_nil]
  | cons i is ih => simp [itemsSpec_cons, ih, Contrib.append_assoc]

theorem itemsCpaDirect_append (a b : List Item) :
    itemsCpaDirect (a ++ b) = (itemsCpaDirect a || itemsCpaDirect b) := by
  induction a with
  | nil => simp [itemsCpaDirect]
  | cons i is ih => simp [itemsCpaDirect, ih, Bool.or_assoc]

/-! ## NAME scanning -/

theorem scanName_cons_ne (p : Str) (rest : List Str) (i : Nat) (acc : Str × Option Nat) (hp : p ≠ lit "NAME") :
    scanName (p :: rest) i acc = scanName rest (i + 1) acc := by
  rw [scanName.eq_def]; simp [hp]

theorem scanName_name_cons (nm : Str) (rest : List Str) (i : Nat) (acc : Str × Option Nat) :
    scanName (lit "NAME" :: nm :: rest) i acc = scanName (nm :: rest) (i + 1) (nm, some i) := by
  rw [scanName.eq_def]; simp

theorem scanName_no_name (s : List Str) (i : Nat) (acc : Str × Option Nat) (h : lit "NAME" ∉ s) :
    scanName s i acc = some acc := by
  induction s generalizing i acc with
  | nil => rfl
  | cons p rest ih =>
    have hp : p ≠ lit "NAME" := fun e => h (by simp [e])
    have hr : lit "NAME" ∉ rest := fun e => h (by simp [e])
    rw [scanName_cons_ne _ _ _ _ hp, ih _ _ hr]

theorem scanName_skip (pre rest : List Str) (i : Nat) (acc : Str × Option Nat) (h : lit "NAME" ∉ pre) :
    scanName (pre ++ rest) i acc = scanName rest (i + pre.length) acc := by
  induction pre generalizing i with
  | nil => simp
  | cons p ps ih =>
    have hp : p ≠ lit "NAME" := fun e => h (by simp [e])
    have hr : lit "NAME" ∉ ps := fun e => h (by simp [e])
    rw [List.cons_append, scanName_cons_ne _ _ _ _ hp, ih _ hr]
    congr 1; simp; omega

theorem nameOf_decomp (pre post : List Str) (nm : Str) (h1 : lit "NAME" ∉ pre) (h2 : lit "NAME" ∉ nm :: post) :
    nameOf (pre ++ lit "NAME" :: nm :: post) = (nm, some pre.length) := by
  rw [nameOf, scanName_skip _ _ _ _ h1, scanName_name_cons, scanName_no_name _ _ _ h2]
  simp

theorem dropPairAt_decomp (pre post : List Str) (a b : Str) :
    dropPairAt (pre ++ a :: b :: post) pre.length = pre ++ post := by
  induction pre with
  | nil => simp [dropPairAt]
  | cons p ps ih => simp [dropPairAt, ih]

theorem ctestParams_decomp (pre post : List Str) (nm : Str) (h1 : lit "NAME" ∉ pre) (h2 : lit "NAME" ∉ nm :: post) :
    ctestParams (pre ++ lit "NAME" :: nm :: post) = pre ++ post := by
  simp [ctestParams, nameOf_decomp pre post nm h1 h2, dropPairAt_decomp]

theorem nameOk_decomp (s : List Str) (h : nameOk s = true) :
    ∃ pre nm post, s = pre ++ lit "NAME" :: nm :: post ∧ lit "NAME" ∉ pre ∧ lit "NAME" ∉ nm :: post := by
  simp only [nameOk, Bool.and_eq_true, beq_iff_eq, bne_iff_ne] at h
  obtain ⟨hc, hl⟩ := h
  have hm : lit "NAME" ∈ s := by
    apply List.count_pos_iff.mp; omega
  obtain ⟨pre, rest, hs, hpre⟩ := List.eq_append_cons_of_mem hm
  subst hs
  have hrest : lit "NAME" ∉ rest := by
    intro hr
    have := List.count_pos_iff.mpr hr
    simp [List.count_append, List.count_eq_zero_of_not_mem hpre] at hc
    omega
  cases rest with
  | nil => simp at hl
  | cons nm post => exact ⟨pre, nm, post, rfl, hpre, hrest⟩

/-! ## the specification per command kind (any configuration) -/

theorem spec_decl_test (cfg : Cfg) (ctx : ClsCtx) (doc : Option DocC) (d impl : Call) (body : List Item) (c : Call)
    (hn : d.lname = lit "ct_add_test") (hincl : doc.isSome = true ∨ cfg.inclCtAddTest = true) :
    (Item.decl doc d impl body c).spec cfg ctx =
      { top := [.test false (nameOf d.singles).1 (docTextOf doc) (d.singles.contains (lit "EXPECTFAIL"))
                  (impl.singles.drop 2) (impl.lname = lit "macro")] } ++ itemsSpec cfg ctx body := by
  have hc : (doc.isSome || cfg.inclCtAddTest) = true := by simpa using hincl
  have h1 : lit "ct_add_test" ≠ lit "ct_add_section" := by decide
  simp [Item.spec, hn, h1, hc]

theorem spec_decl_section (cfg : Cfg) (ctx : ClsCtx) (doc : Option DocC) (d impl : Call) (body : List Item) (c : Call)
    (hn : d.lname = lit "ct_add_section") (hincl : doc.isSome = true ∨ cfg.inclCtAddSection = true) :
    (Item.decl doc d impl body c).spec cfg ctx =
      { top := [.test true (nameOf d.singles).1 (docTextOf doc) (d.singles.contains (lit "EXPECTFAIL"))
                  (impl.singles.drop 2) (impl.lname = lit "macro")] } ++ itemsSpec cfg ctx body := by
  have hc : (doc.isSome || cfg.inclCtAddSection) = true := by simpa using hincl
  simp [Item.spec, hn, hc]

theorem spec_cmd_add_test (cfg : Cfg) (ctx : ClsCtx) (doc : Option DocC) (call : Call)
    (hn : call.lname = lit "add_test") (hincl : doc.isSome = true ∨ cfg.inclAddTest = true) :
    (Item.cmd doc call).spec cfg ctx =
      { top := [.ctest (nameOf call.allTexts).1 (docTextOf doc) (ctestParams call.allTexts)] } := by
  have hc : (doc.isSome || cfg.inclAddTest) = true := by simpa using hincl
  have h1 : lit "add_test" ≠ lit "set" := by decide
  have h2 : lit "add_test" ≠ lit "option" := by decide
  simp [Item.spec, hn, h1, h2, hc]

theorem spec_block_function (cfg : Cfg) (ctx : ClsCtx) (doc : Option DocC) (o : Call) (body : List Item) (c : Call)
    (hn : o.lname = lit "function") :
    (Item.block doc o body c).spec cfg ctx =
      (if doc.isSome || cfg.inclFunction then { top := [defEntry cfg false doc o body] } else {}) ++
        itemsSpec cfg ctx body := by
  have h1 : lit "function" ≠ lit "macro" := by decide
  simp [Item.spec, hn, h1]

theorem spec_block_macro (cfg : Cfg) (ctx : ClsCtx) (doc : Option DocC) (o : Call) (body : List Item) (c : Call)
    (hn : o.lname = lit "macro") :
    (Item.block doc o body c).spec cfg ctx =
      (if doc.isSome || cfg.inclMacro then { top := [defEntry cfg true doc o body] } else {}) ++
        itemsSpec cfg ctx body := by
  simp [Item.spec, hn]

theorem spec_block_class_shown (cfg : Cfg) (ctx : ClsCtx) (doc : Option DocC) (o : Call) (body : List Item) (c : Call)
    (hn : o.lname = lit "cpp_class") (hincl : doc.isSome = true ∨ cfg.inclCppClass = true) :
    (Item.block doc o body c).spec cfg ctx =
      { top := .cls (o.singles.headD []) (docTextOf doc) (o.singles.drop 1) (itemsSpec cfg .shown body).inner
                 (itemsSpec cfg .shown body).ctors (itemsSpec cfg .shown body).members
                 (itemsSpec cfg .shown body).attrs :: (itemsSpec cfg .shown body).top,
        inner := if ctx = .shown then [o.singles.headD []] else [] } := by
  have hc : (doc.isSome || cfg.inclCppClass) = true := by simpa using hincl
  have h1 : lit "cpp_class" ≠ lit "function" := by decide
  have h2 : lit "cpp_class" ≠ lit "macro" := by decide
  simp [Item.spec, hn, h1, h2, hc]

theorem spec_block_class_hidden (cfg : Cfg) (ctx : ClsCtx) (o : Call) (body : List Item) (c : Call)
    (hn : o.lname = lit "cpp_class") (hincl : cfg.inclCppClass = false) :
    (Item.block none o body c).spec cfg ctx = { top := (itemsSpec cfg .hidden body).top } := by
  have h1 : lit "cpp_class" ≠ lit "function" := by decide
  have h2 : lit "cpp_class" ≠ lit "macro" := by decide
  simp [Item.spec, hn, h1, h2, hincl]

theorem spec_block_other (cfg : Cfg) (ctx : ClsCtx) (doc : Option DocC) (o : Call) (body : List Item) (c : Call)
    (h1 : o.lname ≠ lit "function") (h2 : o.lname ≠ lit "macro") (h3 : o.lname ≠ lit "cpp_class") :
    (Item.block doc o body c).spec cfg ctx =
      (if doc.isSome then { top := [.generic o.lname (docTextOf doc) (argTexts o.toCmd.args)] } else {}) ++
        itemsSpec cfg ctx body := by
  simp [Item.spec, h1, h2, h3]

/-- the contribution of a member/test implementation whose declaration has no entry: an ordinary undocumented
    definition -/
def asDefinition (cfg : Cfg) (impl : Call) (body : List Item) : Contrib :=
  if (if impl.lname = lit "macro" then cfg.inclMacro else cfg.inclFunction) then
    { top := [defEntry cfg (impl.lname = lit "macro") none impl body] } else {}

theorem spec_cmd_set (cfg : Cfg) (ctx : ClsCtx) (call : Call) (hn : call.lname = lit "set") :
    (Item.cmd none call).spec cfg ctx = {} := by
  simp [Item.spec, hn]

theorem spec_cmd_option (cfg : Cfg) (ctx : ClsCtx) (doc : Option DocC) (call : Call) (hn : call.lname = lit "option") :
    (Item.cmd doc call).spec cfg ctx =
      if doc.isSome || cfg.inclOption then
        { top := [.opt (call.singles.headD []) (docTextOf doc) (call.singles.getD 1 []) call.singles[2]?] } else {} := by
  have h1 : lit "option" ≠ lit "set" := by decide
  simp [Item.spec, hn, h1]

theorem spec_cmd_add_test_if (cfg : Cfg) (ctx : ClsCtx) (doc : Option DocC) (call : Call)
    (hn : call.lname = lit "add_test") :
    (Item.cmd doc call).spec cfg ctx =
      if doc.isSome || cfg.inclAddTest then
        { top := [.ctest (nameOf call.allTexts).1 (docTextOf doc) (ctestParams call.allTexts)] } else {} := by
  have h1 : lit "add_test" ≠ lit "set" := by decide
  have h2 : lit "add_test" ≠ lit "option" := by decide
  simp [Item.spec, hn, h1, h2]

theorem spec_cmd_attr (cfg : Cfg) (ctx : ClsCtx) (doc : Option DocC) (call : Call) (hn : call.lname = lit "cpp_attr") :
    (Item.cmd doc call).spec cfg ctx =
      if ctx = .shown && (doc.isSome || cfg.inclCppAttr) then
        { attrs := [{ name := call.singles.getD 1 [], doc := docTextOf doc, parentClass := call.singles.headD [],
                      dflt := call.singles[2]? }] } else {} := by
  have h1 : lit "cpp_attr" ≠ lit "set" := by decide
  have h2 : lit "cpp_attr" ≠ lit "option" := by decide
  have h3 : lit "cpp_attr" ≠ lit "add_test" := by decide
  simp [Item.spec, hn, h1, h2, h3]

theorem spec_cmd_cpa (cfg : Cfg) (ctx : ClsCtx) (doc : Option DocC) (call : Call)
    (hn : call.lname = lit "cmake_parse_arguments") : (Item.cmd doc call).spec cfg ctx = {} := by
  have h1 : lit "cmake_parse_arguments" ≠ lit "set" := by decide
  have h2 : lit "cmake_parse_arguments" ≠ lit "option" := by decide
  have h3 : lit "cmake_parse_arguments" ≠ lit "add_test" := by decide
  have h4 : lit "cmake_parse_arguments" ≠ lit "cpp_attr" := by decide
  simp [Item.spec, hn, h1, h2, h3, h4]

theorem spec_cmd_generic (cfg : Cfg) (ctx : ClsCtx) (doc : Option DocC) (call : Call)
    (h1 : call.lname ≠ lit "set") (h2 : call.lname ≠ lit "option") (h3 : call.lname ≠ lit "add_test")
    (h4 : call.lname ≠ lit "cpp_attr") (h5 : call.lname ≠ lit "cmake_parse_arguments") :
    (Item.cmd doc call).spec cfg ctx =
      if doc.isSome then { top := [.generic call.lname (docTextOf doc) (argTexts call.toCmd.args)] } else {} := by
  simp [Item.spec, h1, h2, h3, h4, h5]

theorem spec_decl_test_if (cfg : Cfg) (ctx : ClsCtx) (doc : Option DocC) (d impl : Call) (body : List Item) (c : Call)
    (hn : d.lname = lit "ct_add_test") :
    (Item.decl doc d impl body c).spec cfg ctx =
      (if doc.isSome || cfg.inclCtAddTest then
        { top := [.test false (nameOf d.singles).1 (docTextOf doc) (d.singles.contains (lit "EXPECTFAIL"))
                  (impl.singles.drop 2) (impl.lname = lit "macro")] }
       else asDefinition cfg impl body) ++ itemsSpec cfg ctx body := by
  have h1 : lit "ct_add_test" ≠ lit "ct_add_section" := by decide
  simp [Item.spec, hn, h1, asDefinition]

theorem spec_decl_section_if (cfg : Cfg) (ctx : ClsCtx) (doc : Option DocC) (d impl : Call) (body : List Item) (c : Call)
    (hn : d.lname = lit "ct_add_section") :
    (Item.decl doc d impl body c).spec cfg ctx =
      (if doc.isSome || cfg.inclCtAddSection then
        { top := [.test true (nameOf d.singles).1 (docTextOf doc) (d.singles.contains (lit "EXPECTFAIL"))
                  (impl.singles.drop 2) (impl.lname = lit "macro")] }
       else asDefinition cfg impl body) ++ itemsSpec cfg ctx body := by
  simp [Item.spec, hn, asDefinition]

/-- the `Method` a member/constructor declaration and its implementing definition describe -/
def methodOf (cfg : Cfg) (doc : Option DocC) (d impl : Call) (isCtor : Bool) : Method :=
  { name := d.singles.headD [], doc := docTextOf doc, parentClass := d.singles.getD 1 [],
    paramTypes := d.singles.drop 2, params := (impl.singles.map cfg.stripMember).drop 2, isCtor,
    isMacro := impl.lname = lit "macro" }

theorem spec_decl_member_if (cfg : Cfg) (ctx : ClsCtx) (doc : Option DocC) (d impl : Call) (body : List Item) (c : Call)
    (hn : d.lname = lit "cpp_member") :
    (Item.decl doc d impl body c).spec cfg ctx =
      (if ctx = .shown && (doc.isSome || cfg.inclCppMember) then { members := [methodOf cfg doc d impl false] }
       else asDefinition cfg impl body) ++ itemsSpec cfg ctx body := by
  have h1 : lit "cpp_member" ≠ lit "ct_add_section" := by decide
  have h2 : lit "cpp_member" ≠ lit "ct_add_test" := by decide
  have h3 : lit "cpp_member" ≠ lit "cpp_constructor" := by decide
  simp [Item.spec, hn, h1, h2, h3, asDefinition, methodOf]

theorem spec_decl_ctor_if (cfg : Cfg) (ctx : ClsCtx) (doc : Option DocC) (d impl : Call) (body : List Item) (c : Call)
    (hn : d.lname = lit "cpp_constructor") :
    (Item.decl doc d impl body c).spec cfg ctx =
      (if ctx = .shown && (doc.isSome || cfg.inclCppConstructor) then { ctors := [methodOf cfg doc d impl true] }
       else asDefinition cfg impl body) ++ itemsSpec cfg ctx body := by
  have h1 : lit "cpp_constructor" ≠ lit "ct_add_section" := by decide
  have h2 : lit "cpp_constructor" ≠ lit "ct_add_test" := by decide
  simp [Item.spec, hn, h1, h2, asDefinition, methodOf]

theorem spec_dangling (cfg : Cfg) (ctx : ClsCtx) (d : DocC) : (Item.dangling d).spec cfg ctx = {} := by
  simp [Item.spec]

/-! ## `DirectCpa`: the relational reading of `itemsCpaDirect` (C03) -/

namespace C03

/-- "a `cmake_parse_arguments` call occurs in these items outside any nested function or macro definition":
the call is one of the items, or sits (recursively) in the body of an `if`/`foreach`/`while` block or of a
`cpp_class` among them.  Bodies of function/macro definitions and of member/test implementations
(`Item.decl`) are not entered. -/
inductive DirectCpa : List Item → Prop
  | here {pre post : List Item} {doc : Option DocC} {call : Call} :
      call.lname = lit "cmake_parse_arguments" → DirectCpa (pre ++ .cmd doc call :: post)
  | inBlock {pre post : List Item} {doc : Option DocC} {o : Call} {body : List Item} {c : Call} :
      (isLoopName o.lname = true ∨ o.lname = lit "cpp_class") → DirectCpa body →
      DirectCpa (pre ++ .block doc o body c :: post)

end C03

open C03

theorem DirectCpa_append_right {a : List Item} (b : List Item) (h : DirectCpa a) : DirectCpa (a ++ b) := by
  cases h with
  | here hc => rw [List.append_assoc, List.cons_append]; exact .here hc
  | inBlock hn hb => rw [List.append_assoc, List.cons_append]; exact .inBlock hn hb

theorem DirectCpa_append_left (a : List Item) {b : List Item} (h : DirectCpa b) : DirectCpa (a ++ b) := by
  cases h with
  | here hc => rw [← List.append_assoc]; exact .here hc
  | inBlock hn hb => rw [← List.append_assoc]; exact .inBlock hn hb

mutual
theorem Item.cpaDirect_sound : (it : Item) → it.cpaDirect = true → DirectCpa [it]
  | .cmd doc call, h => by
    have : call.lname = lit "cmake_parse_arguments" := by simpa [Item.cpaDirect] using h
    exact DirectCpa.here (pre := []) (post := []) this
  | .block doc o body c, h => by
    simp only [Item.cpaDirect, Bool.and_eq_true, Bool.or_eq_true, decide_eq_true_eq] at h
    exact DirectCpa.inBlock (pre := []) (post := []) h.1 (itemsCpaDirect_sound body h.2)
  | .decl .., h => by simp [Item.cpaDirect] at h
  | .dangling _, h => by simp [Item.cpaDirect] at h
theorem itemsCpaDirect_sound : (is : List Item) → itemsCpaDirect is = true → DirectCpa is
  | [], h => by simp [itemsCpaDirect] at h
  | i :: is, h => by
    simp only [itemsCpaDirect, Bool.or_eq_true] at h
    rcases h with h | h
    · exact DirectCpa_append_right is (Item.cpaDirect_sound i h)
    · exact DirectCpa_append_left [i] (itemsCpaDirect_sound is h)
end


/-! ## trees that differ in letter case of command names and in layout only (C02) -/

/-- the same command with its name spelled `n'` -/
def Call.recase (c : Call) (n' : Str) : Call := { c with name := n' }

/-- `c'` is `c` with the name respelled in another letter case -/
def Call.CaseEq (c c' : Call) : Prop := c' = c.recase c'.name ∧ asciiLower c'.name = asciiLower c.name

/-- same command up to the letter case of the name and up to layout (blanks, line breaks, comments between the
    tokens): the lower-cased names and the parse-tree arguments agree -/
def Call.Sim (c c' : Call) : Prop := asciiLower c.name = asciiLower c'.name ∧ toArgs c.args = toArgs c'.args

/-- same doccomment token (the filler in front of it may differ) -/
def DocSim (d d' : Option DocC) : Prop := d.map DocC.tokenText = d'.map DocC.tokenText

mutual
/-- same tree shape, corresponding commands related by `R`, corresponding doccomments by `D` -/
def Item.Rel (R : Call → Call → Prop) (D : Option DocC → Option DocC → Prop) : Item → Item → Prop
  | .cmd d c, .cmd d' c' => D d d' ∧ R c c'
  | .block d o b c, .block d' o' b' c' => D d d' ∧ R o o' ∧ itemsRel R D b b' ∧ R c c'
  | .decl d dc i b c, .decl d' dc' i' b' c' => D d d' ∧ R dc dc' ∧ R i i' ∧ itemsRel R D b b' ∧ R c c'
  | .dangling d, .dangling d' => D (some d) (some d')
  | _, _ => False
def itemsRel (R : Call → Call → Prop) (D : Option DocC → Option DocC → Prop) : List Item → List Item → Prop
  | [], [] => True
  | i :: is, j :: js => i.Rel R D j ∧ itemsRel R D is js
  | _, _ => False
end

theorem Call.Sim.lname {c c' : Call} (h : c.Sim c') : c.lname = c'.lname := h.1
theorem Call.Sim.args {c c' : Call} (h : c.Sim c') : c.toCmd.args = c'.toCmd.args := h.2
theorem Call.Sim.singles {c c' : Call} (h : c.Sim c') : c.singles = c'.singles := by
  simp [Call.singles, Cmd.singles, h.args]
theorem Call.Sim.allTexts {c c' : Call} (h : c.Sim c') : c.allTexts = c'.allTexts := by
  simp [Call.allTexts, h.args]
theorem DocSim.isSome {d d' : Option DocC} (h : DocSim d d') : d.isSome = d'.isSome := by
  cases d <;> cases d' <;> simp_all [DocSim]
theorem DocSim.docText {d d' : Option DocC} (h : DocSim d d') : docTextOf d = docTextOf d' := by
  cases d <;> cases d' <;> simp_all [DocSim, docTextOf]

mutual
theorem Item.cpaDirect_sim : (a b : Item) → a.Rel Call.Sim DocSim b → a.cpaDirect = b.cpaDirect
  | .cmd d c, .cmd d' c', h => by
    simp only [Item.Rel] at h; simp [Item.cpaDirect, h.2.lname]
  | .block d o bd c, .block d' o' bd' c', h => by
    simp only [Item.Rel] at h
    simp [Item.cpaDirect, h.2.1.lname, itemsCpaDirect_sim bd bd' h.2.2.1]
  | .decl .., .decl .., _ => by simp [Item.cpaDirect]
  | .dangling _, .dangling _, _ => by simp [Item.cpaDirect]
  | .cmd .., .block .., h | .cmd .., .decl .., h | .cmd .., .dangling _, h
  | .block .., .cmd .., h | .block .., .decl .., h | .block .., .dangling _, h
  | .decl .., .cmd .., h | .decl .., .block .., h | .decl .., .dangling _, h
  | .dangling _, .cmd .., h | .dangling _, .block .., h | .dangling _, .decl .., h => by simp [Item.Rel] at h
theorem itemsCpaDirect_sim : (a b : List Item) → itemsRel Call.Sim DocSim a b → itemsCpaDirect a = itemsCpaDirect b
  | [], [], _ => rfl
  | i :: is, j :: js, h => by
    simp only [itemsRel] at h
    simp [itemsCpaDirect, Item.cpaDirect_sim i j h.1, itemsCpaDirect_sim is js h.2]
  | [], _ :: _, h | _ :: _, [], h => by simp [itemsRel] at h
end

theorem defEntry_sim (cfg : Cfg) (isMacro : Bool) {d d' : Option DocC} {c c' : Call} {b b' : List Item}
    (hd : DocSim d d') (hc : c.Sim c') (hb : itemsRel Call.Sim DocSim b b') :
    defEntry cfg isMacro d c b = defEntry cfg isMacro d' c' b' := by
  simp [defEntry, hd.docText, hc.singles, itemsCpaDirect_sim b b' hb]

mutual
theorem Item.spec_sim (cfg : Cfg) (ctx : ClsCtx) :
    (a b : Item) → a.Rel Call.Sim DocSim b → a.spec cfg ctx = b.spec cfg ctx
  | .cmd d c, .cmd d' c', h => by
    simp only [Item.Rel] at h
    simp only [Item.spec, h.2.lname, h.2.singles, h.2.allTexts, h.2.args, h.1.isSome, h.1.docText]
  | .block d o bd c, .block d' o' bd' c', h => by
    simp only [Item.Rel] at h
    simp only [Item.spec, h.2.1.lname, h.2.1.singles, h.2.1.args, h.1.isSome, h.1.docText,
      defEntry_sim cfg _ h.1 h.2.1 h.2.2.1, itemsSpec_sim cfg _ bd bd' h.2.2.1]
  | .decl d dc i bd c, .decl d' dc' i' bd' c', h => by
    simp only [Item.Rel] at h
    have hn : DocSim none none := rfl
    simp only [Item.spec, h.2.1.lname, h.2.1.singles, h.2.2.1.lname, h.2.2.1.singles, h.1.isSome, h.1.docText,
      defEntry_sim cfg _ hn h.2.2.1 h.2.2.2.1, itemsSpec_sim cfg _ bd bd' h.2.2.2.1]
  | .dangling _, .dangling _, _ => by simp [Item.spec]
  | .cmd .., .block .., h | .cmd .., .decl .., h | .cmd .., .dangling _, h
  | .block .., .cmd .., h | .block .., .decl .., h | .block .., .dangling _, h
  | .decl .., .cmd .., h | .decl .., .block .., h | .decl .., .dangling _, h
  | .dangling _, .cmd .., h | .dangling _, .block .., h | .dangling _, .decl .., h => by simp [Item.Rel] at h
theorem itemsSpec_sim (cfg : Cfg) (ctx : ClsCtx) :
    (a b : List Item) → itemsRel Call.Sim DocSim a b → itemsSpec cfg ctx a = itemsSpec cfg ctx b
  | [], [], _ => rfl
  | i :: is, j :: js, h => by
    simp only [itemsRel] at h
    simp only [itemsSpec, Item.spec_sim cfg ctx i j h.1, itemsSpec_sim cfg ctx is js h.2]
  | [], _ :: _, h | _ :: _, [], h => by simp [itemsRel] at h
end

mutual
theorem Item.wf_sim (inClass : Bool) :
    (a b : Item) → a.Rel Call.Sim DocSim b → a.wf inClass = b.wf inClass
  | .cmd d c, .cmd d' c', h => by
    simp only [Item.Rel] at h
    simp only [Item.wf, h.2.lname, h.2.singles, h.2.allTexts]
  | .block d o bd c, .block d' o' bd' c', h => by
    simp only [Item.Rel] at h
    simp only [Item.wf, h.2.1.lname, h.2.1.singles, h.2.2.2.lname, itemsWf_sim _ bd bd' h.2.2.1]
  | .decl d dc i bd c, .decl d' dc' i' bd' c', h => by
    simp only [Item.Rel] at h
    simp only [Item.wf, h.2.1.lname, h.2.1.singles, h.2.2.1.lname, h.2.2.1.singles, h.2.2.2.2.lname,
      itemsWf_sim _ bd bd' h.2.2.2.1]
  | .dangling _, .dangling _, _ => by simp [Item.wf]
  | .cmd .., .block .., h | .cmd .., .decl .., h | .cmd .., .dangling _, h
  | .block .., .cmd .., h | .block .., .decl .., h | .block .., .dangling _, h
  | .decl .., .cmd .., h | .decl .., .block .., h | .decl .., .dangling _, h
  | .dangling _, .cmd .., h | .dangling _, .block .., h | .dangling _, .decl .., h => by simp [Item.Rel] at h
theorem itemsWf_sim (inClass : Bool) :
    (a b : List Item) → itemsRel Call.Sim DocSim a b → itemsWf inClass a = itemsWf inClass b
  | [], [], _ => rfl
  | i :: is, j :: js, h => by
    simp only [itemsRel] at h
    simp only [itemsWf, Item.wf_sim inClass i j h.1, itemsWf_sim inClass is js h.2]
  | [], _ :: _, h | _ :: _, [], h => by simp [itemsRel] at h
end

mutual
theorem Item.hasDocumentedClass_sim :
    (a b : Item) → a.Rel Call.Sim DocSim b → a.hasDocumentedClass = b.hasDocumentedClass
  | .cmd d c, .cmd d' c', h => by simp [Item.hasDocumentedClass]
  | .block d o bd c, .block d' o' bd' c', h => by
    simp only [Item.Rel] at h
    simp only [Item.hasDocumentedClass, h.2.1.lname, h.1.isSome, itemsHaveDocumentedClass_sim bd bd' h.2.2.1]
  | .decl d dc i bd c, .decl d' dc' i' bd' c', h => by
    simp only [Item.Rel] at h
    simp only [Item.hasDocumentedClass, itemsHaveDocumentedClass_sim bd bd' h.2.2.2.1]
  | .dangling _, .dangling _, _ => by simp [Item.hasDocumentedClass]
  | .cmd .., .block .., h | .cmd .., .decl .., h | .cmd .., .dangling _, h
  | .block .., .cmd .., h | .block .., .decl .., h | .block .., .dangling _, h
  | .decl .., .cmd .., h | .decl .., .block .., h | .decl .., .dangling _, h
  | .dangling _, .cmd .., h | .dangling _, .block .., h | .dangling _, .decl .., h => by simp [Item.Rel] at h
theorem itemsHaveDocumentedClass_sim :
    (a b : List Item) → itemsRel Call.Sim DocSim a b → itemsHaveDocumentedClass a = itemsHaveDocumentedClass b
  | [], [], _ => rfl
  | i :: is, j :: js, h => by
    simp only [itemsRel] at h
    simp only [itemsHaveDocumentedClass, Item.hasDocumentedClass_sim i j h.1, itemsHaveDocumentedClass_sim is js h.2]
  | [], _ :: _, h | _ :: _, [], h => by simp [itemsRel] at h
end

mutual
theorem Item.Rel.mono {R R' : Call → Call → Prop} {D D' : Option DocC → Option DocC → Prop}
    (hR : ∀ c c', R c c' → R' c c') (hD : ∀ d d', D d d' → D' d d') :
    (a b : Item) → a.Rel R D b → a.Rel R' D' b
  | .cmd d c, .cmd d' c', h => by
    simp only [Item.Rel] at h ⊢; exact ⟨hD _ _ h.1, hR _ _ h.2⟩
  | .block d o bd c, .block d' o' bd' c', h => by
    simp only [Item.Rel] at h ⊢
    exact ⟨hD _ _ h.1, hR _ _ h.2.1, itemsRel.mono hR hD bd bd' h.2.2.1, hR _ _ h.2.2.2⟩
  | .decl d dc i bd c, .decl d' dc' i' bd' c', h => by
    simp only [Item.Rel] at h ⊢
    exact ⟨hD _ _ h.1, hR _ _ h.2.1, hR _ _ h.2.2.1, itemsRel.mono hR hD bd bd' h.2.2.2.1, hR _ _ h.2.2.2.2⟩
  | .dangling _, .dangling _, h => by simp only [Item.Rel] at h ⊢; exact hD _ _ h
  | .cmd .., .block .., h | .cmd .., .decl .., h | .cmd .., .dangling _, h
  | .block .., .cmd .., h | .block .., .decl .., h | .block .., .dangling _, h
  | .decl .., .cmd .., h | .decl .., .block .., h | .decl .., .dangling _, h
  | .dangling _, .cmd .., h | .dangling _, .block .., h | .dangling _, .decl .., h => by simp [Item.Rel] at h
theorem itemsRel.mono {R R' : Call → Call → Prop} {D D' : Option DocC → Option DocC → Prop}
    (hR : ∀ c c', R c c' → R' c c') (hD : ∀ d d', D d d' → D' d d') :
    (a b : List Item) → itemsRel R D a b → itemsRel R' D' a b
  | [], [], _ => by simp [itemsRel]
  | i :: is, j :: js, h => by
    simp only [itemsRel] at h ⊢
    exact ⟨Item.Rel.mono hR hD i j h.1, itemsRel.mono hR hD is js h.2⟩
  | [], _ :: _, h | _ :: _, [], h => by simp [itemsRel] at h
end

theorem Call.CaseEq.sim {c c' : Call} (h : c.CaseEq c') : c.Sim c' := by
  obtain ⟨h1, h2⟩ := h
  refine ⟨h2.symm, ?_⟩
  rw [h1]; rfl


/-! ## `methodFields` (C09) -/

theorem methodFields_eq (doc : Str) (tys ps : List Str) :
    methodFields doc tys ps =
      (tys.zip ps).flatMap (fun tp =>
        (if isInfix (lit ":param " ++ tp.2 ++ [':']) doc then [] else [Elem.field (lit "param " ++ tp.2) []]) ++
        (if isInfix (lit ":type " ++ tp.2 ++ [':']) doc then [] else [Elem.field (lit "type " ++ tp.2) tp.1])) := by
  induction tys generalizing ps with
  | nil => simp [methodFields]
  | cons ty tys ih =>
    cases ps with
    | nil => simp [methodFields]
    | cons p ps => simp [methodFields, ih]

theorem methodFields_length_le (doc : Str) (tys ps : List Str) :
    (methodFields doc tys ps).length ≤ 2 * min tys.length ps.length := by
  induction tys generalizing ps with
  | nil => simp [methodFields]
  | cons ty tys ih =>
    cases ps with
    | nil => simp [methodFields]
    | cons p ps =>
      have := ih ps
      simp only [methodFields, List.length_append, List.length_cons]
      split <;> split <;> simp <;> omega

theorem methodFields_plain (doc : Str) (tys ps : List Str)
    (h : ∀ p ∈ ps, isInfix (lit ":param " ++ p ++ [':']) doc = false ∧ isInfix (lit ":type " ++ p ++ [':']) doc = false) :
    methodFields doc tys ps =
      (tys.zip ps).flatMap (fun tp => [Elem.field (lit "param " ++ tp.2) [], Elem.field (lit "type " ++ tp.2) tp.1]) := by
  induction tys generalizing ps with
  | nil => simp [methodFields]
  | cons ty tys ih =>
    cases ps with
    | nil => simp [methodFields]
    | cons p ps =>
      have hp := h p (by simp)
      rw [methodFields, if_neg (by rw [hp.1]; simp), if_neg (by rw [hp.2]; simp),
        ih ps (fun q hq => h q (by simp [hq]))]
      simp

/-! ## C08: the embedding order and `Cfg.allOff` -/

/-- all ten `include_undocumented_*` flags off; trigger string and strip patterns unchanged -/
def Cfg.allOff (cfg : Cfg) : Cfg :=
  { cfg with inclFunction := false, inclMacro := false, inclCppClass := false, inclCppAttr := false,
             inclCppConstructor := false, inclCppMember := false, inclCtAddTest := false, inclAddTest := false,
             inclCtAddSection := false, inclOption := false }

/-- all ten flags on (the default settings for these options); trigger string and strip patterns unchanged -/
def Cfg.allOn (cfg : Cfg) : Cfg :=
  { cfg with inclFunction := true, inclMacro := true, inclCppClass := true, inclCppAttr := true,
             inclCppConstructor := true, inclCppMember := true, inclCtAddTest := true, inclAddTest := true,
             inclCtAddSection := true, inclOption := true }

theorem Cfg.allOn_allOff (cfg : Cfg) : cfg.allOn.allOff = cfg.allOff := rfl
theorem Cfg.allOff_allOff (cfg : Cfg) : cfg.allOff.allOff = cfg.allOff := rfl

/-- `e'` is `e`, except that a class entry may list more inner classes, constructors, methods and attributes
    (the ones of `e` in the same relative order) -/
def Entry.embeds : Entry → Entry → Prop
  | .cls n d s i c m a, .cls n' d' s' i' c' m' a' =>
    n = n' ∧ d = d' ∧ s = s' ∧ i.Sublist i' ∧ c.Sublist c' ∧ m.Sublist m' ∧ a.Sublist a'
  | e, e' => e = e'

theorem Entry.embeds_refl (e : Entry) : e.embeds e := by
  cases e <;> simp [Entry.embeds]

/-- the first list is obtained from the second by deleting entries and shrinking class entries (`Entry.embeds`) -/
inductive TopEmbeds : List Entry → List Entry → Prop
  | nil : TopEmbeds [] []
  | skip {l l' : List Entry} (e : Entry) : TopEmbeds l l' → TopEmbeds l (e :: l')
  | keep {l l' : List Entry} {e e' : Entry} : e.embeds e' → TopEmbeds l l' → TopEmbeds (e :: l) (e' :: l')

theorem TopEmbeds.refl : (l : List Entry) → TopEmbeds l l
  | [] => .nil
  | e :: l => .keep e.embeds_refl (TopEmbeds.refl l)

theorem TopEmbeds.nil_left : (l : List Entry) → TopEmbeds [] l
  | [] => .nil
  | e :: l => .skip e (TopEmbeds.nil_left l)

theorem TopEmbeds.append {a a' b b' : List Entry} (h1 : TopEmbeds a a') (h2 : TopEmbeds b b') :
    TopEmbeds (a ++ b) (a' ++ b') := by
  induction h1 with
  | nil => simpa using h2
  | skip e _ ih => exact .skip e ih
  | keep he _ ih => exact .keep he ih

theorem TopEmbeds.length_le {a b : List Entry} (h : TopEmbeds a b) : a.length ≤ b.length := by
  induction h with
  | nil => simp
  | skip e _ ih => simp; omega
  | keep _ _ ih => simp; omega

/-- componentwise embedding of contributions -/
structure ContribEmbeds (a b : Contrib) : Prop where
  top : TopEmbeds a.top b.top
  inner : a.inner.Sublist b.inner
  ctors : a.ctors.Sublist b.ctors
  members : a.members.Sublist b.members
  attrs : a.attrs.Sublist b.attrs

theorem ContribEmbeds.refl (a : Contrib) : ContribEmbeds a a :=
  ⟨TopEmbeds.refl _, List.Sublist.refl _, List.Sublist.refl _, List.Sublist.refl _, List.Sublist.refl _⟩

theorem ContribEmbeds.of_eq {a b : Contrib} (h : a = b) : ContribEmbeds a b := h ▸ ContribEmbeds.refl a

theorem ContribEmbeds.nil_left (b : Contrib) : ContribEmbeds {} b :=
  ⟨TopEmbeds.nil_left _, List.nil_sublist _, List.nil_sublist _, List.nil_sublist _, List.nil_sublist _⟩

theorem ContribEmbeds.append {a a' b b' : Contrib} (h1 : ContribEmbeds a a') (h2 : ContribEmbeds b b') :
    ContribEmbeds (a ++ b) (a' ++ b') :=
  ⟨h1.top.append h2.top, h1.inner.append h2.inner, h1.ctors.append h2.ctors, h1.members.append h2.members,
   h1.attrs.append h2.attrs⟩

/-! ### what `allOff` does -/

theorem defEntry_allOff (cfg : Cfg) (isMacro : Bool) (doc : Option DocC) (c : Call) (body : List Item) :
    defEntry cfg.allOff isMacro doc c body = defEntry cfg isMacro doc c body := rfl

theorem methodOf_allOff (cfg : Cfg) (doc : Option DocC) (d impl : Call) (isCtor : Bool) :
    methodOf cfg.allOff doc d impl isCtor = methodOf cfg doc d impl isCtor := rfl

theorem asDefinition_allOff (cfg : Cfg) (impl : Call) (body : List Item) : asDefinition cfg.allOff impl body = {} := by
  simp [asDefinition, Cfg.allOff]

theorem spec_cmd_none_allOff (cfg : Cfg) (ctx : ClsCtx) (call : Call) :
    (Item.cmd none call).spec cfg.allOff ctx = {} := by
  simp [Item.spec, Cfg.allOff]

theorem spec_cmd_some_allOff (cfg : Cfg) (ctx : ClsCtx) (d : DocC) (call : Call) :
    (Item.cmd (some d) call).spec cfg.allOff ctx = (Item.cmd (some d) call).spec cfg ctx := by
  simp [Item.spec, Cfg.allOff]

/-- the general form of the member-like branch of `Item.spec` (any declaration name other than the test ones) -/
theorem spec_decl_memberlike (cfg : Cfg) (ctx : ClsCtx) (doc : Option DocC) (d impl : Call) (body : List Item) (c : Call)
    (h1 : d.lname ≠ lit "ct_add_test") (h2 : d.lname ≠ lit "ct_add_section") :
    (Item.decl doc d impl body c).spec cfg ctx =
      (if ctx = .shown && (doc.isSome ||
            (if d.lname = lit "cpp_constructor" then cfg.inclCppConstructor else cfg.inclCppMember)) then
         (if d.lname = lit "cpp_constructor" then { ctors := [methodOf cfg doc d impl true] }
          else { members := [methodOf cfg doc d impl false] })
       else asDefinition cfg impl body) ++ itemsSpec cfg ctx body := by
  by_cases hc : d.lname = lit "cpp_constructor"
  · rw [spec_decl_ctor_if cfg ctx doc d impl body c hc]; simp [hc]
  · simp [Item.spec, h1, h2, hc, asDefinition, methodOf]

theorem cmd_embed (cfg : Cfg) (doc : Option DocC) (call : Call) (ctx₁ ctx₂ : ClsCtx)
    (hctx : ctx₁ = .shown → ctx₂ = .shown) :
    ContribEmbeds ((Item.cmd doc call).spec cfg.allOff ctx₁) ((Item.cmd doc call).spec cfg ctx₂) := by
  cases doc with
  | none => rw [spec_cmd_none_allOff]; exact ContribEmbeds.nil_left _
  | some d =>
    rw [spec_cmd_some_allOff]
    by_cases h4 : call.lname = lit "cpp_attr"
    · rw [spec_cmd_attr cfg ctx₁ _ _ h4, spec_cmd_attr cfg ctx₂ _ _ h4]
      by_cases hs : ctx₁ = .shown
      · simp [hs, hctx hs]; exact ContribEmbeds.refl _
      · simp [hs]; exact ContribEmbeds.nil_left _
    · apply ContribEmbeds.of_eq
      simp [Item.spec, h4]

mutual
theorem Item.spec_embed (cfg : Cfg) : (it : Item) → ∀ ctx₁ ctx₂ : ClsCtx, (ctx₁ = .shown → ctx₂ = .shown) →
    ContribEmbeds (it.spec cfg.allOff ctx₁) (it.spec cfg ctx₂)
  | .cmd doc call, ctx₁, ctx₂, hctx => cmd_embed cfg doc call ctx₁ ctx₂ hctx
  | .block doc o body c, ctx₁, ctx₂, hctx => by
    by_cases hf : o.lname = lit "function"
    · rw [spec_block_function _ ctx₁ doc o body c hf, spec_block_function _ ctx₂ doc o body c hf]
      refine ContribEmbeds.append ?_ (itemsSpec_embed cfg body ctx₁ ctx₂ hctx)
      cases doc with
      | none => simp [Cfg.allOff]; exact ContribEmbeds.nil_left _
      | some d => simp [defEntry_allOff]; exact ContribEmbeds.refl _
    by_cases hm : o.lname = lit "macro"
    · rw [spec_block_macro _ ctx₁ doc o body c hm, spec_block_macro _ ctx₂ doc o body c hm]
      refine ContribEmbeds.append ?_ (itemsSpec_embed cfg body ctx₁ ctx₂ hctx)
      cases doc with
      | none => simp [Cfg.allOff]; exact ContribEmbeds.nil_left _
      | some d => simp [defEntry_allOff]; exact ContribEmbeds.refl _
    by_cases hc : o.lname = lit "cpp_class"
    · cases doc with
      | some d =>
        have ih := itemsSpec_embed cfg body .shown .shown (fun h => h)
        rw [spec_block_class_shown _ ctx₁ (some d) o body c hc (Or.inl rfl),
          spec_block_class_shown _ ctx₂ (some d) o body c hc (Or.inl rfl)]
        refine ⟨.keep ⟨rfl, rfl, rfl, ih.inner, ih.ctors, ih.members, ih.attrs⟩ ih.top, ?_,
          List.Sublist.refl _, List.Sublist.refl _, List.Sublist.refl _⟩
        by_cases hs : ctx₁ = .shown
        · simp [hs, hctx hs]
        · simp [hs]
      | none =>
        rw [spec_block_class_hidden _ ctx₁ o body c hc rfl]
        cases hi : cfg.inclCppClass with
        | true =>
          rw [spec_block_class_shown _ ctx₂ none o body c hc (Or.inr hi)]
          have ih := itemsSpec_embed cfg body .hidden .shown (fun h => by cases h)
          exact ⟨.skip _ ih.top, List.nil_sublist _, List.nil_sublist _, List.nil_sublist _, List.nil_sublist _⟩
        | false =>
          rw [spec_block_class_hidden _ ctx₂ o body c hc hi]
          have ih := itemsSpec_embed cfg body .hidden .hidden (fun h => h)
          exact ⟨ih.top, List.nil_sublist _, List.nil_sublist _, List.nil_sublist _, List.nil_sublist _⟩
    · rw [spec_block_other _ ctx₁ doc o body c hf hm hc, spec_block_other _ ctx₂ doc o body c hf hm hc]
      exact ContribEmbeds.append (ContribEmbeds.refl _) (itemsSpec_embed cfg body ctx₁ ctx₂ hctx)
  | .decl doc d impl body c, ctx₁, ctx₂, hctx => by
    have ihb := itemsSpec_embed cfg body ctx₁ ctx₂ hctx
    by_cases ht : d.lname = lit "ct_add_test"
    · rw [spec_decl_test_if _ ctx₁ doc d impl body c ht, spec_decl_test_if _ ctx₂ doc d impl body c ht]
      refine ContribEmbeds.append ?_ ihb
      cases doc with
      | none => simp [Cfg.allOff, asDefinition]; exact ContribEmbeds.nil_left _
      | some d => simp; exact ContribEmbeds.refl _
    by_cases hs : d.lname = lit "ct_add_section"
    · rw [spec_decl_section_if _ ctx₁ doc d impl body c hs, spec_decl_section_if _ ctx₂ doc d impl body c hs]
      refine ContribEmbeds.append ?_ ihb
      cases doc with
      | none => simp [Cfg.allOff, asDefinition]; exact ContribEmbeds.nil_left _
      | some d => simp; exact ContribEmbeds.refl _
    · rw [spec_decl_memberlike _ ctx₁ doc d impl body c ht hs, spec_decl_memberlike _ ctx₂ doc d impl body c ht hs]
      refine ContribEmbeds.append ?_ ihb
      by_cases hc₁ : ctx₁ = .shown ∧ doc.isSome = true
      · have hc₂ := hctx hc₁.1
        simp [hc₁.1, hc₁.2, hc₂, methodOf_allOff]; exact ContribEmbeds.refl _
      · have : (ctx₁ = .shown && (doc.isSome || (if d.lname = lit "cpp_constructor" then cfg.allOff.inclCppConstructor
            else cfg.allOff.inclCppMember))) = false := by
          have e1 : cfg.allOff.inclCppConstructor = false := rfl
          have e2 : cfg.allOff.inclCppMember = false := rfl
          rw [e1, e2]
          by_cases h1 : ctx₁ = .shown <;> cases h2 : doc.isSome <;> simp_all
        rw [this]
        simp only [Bool.false_eq_true, if_false, asDefinition_allOff]
        exact ContribEmbeds.nil_left _
  | .dangling _, _, _, _ => by simp [Item.spec]; exact ContribEmbeds.refl _
theorem itemsSpec_embed (cfg : Cfg) : (items : List Item) → ∀ ctx₁ ctx₂ : ClsCtx, (ctx₁ = .shown → ctx₂ = .shown) →
    ContribEmbeds (itemsSpec cfg.allOff ctx₁ items) (itemsSpec cfg ctx₂ items)
  | [], _, _, _ => by simp [itemsSpec]; exact ContribEmbeds.refl _
  | i :: is, ctx₁, ctx₂, hctx => by
    rw [itemsSpec_cons, itemsSpec_cons]
    exact ContribEmbeds.append (Item.spec_embed cfg i ctx₁ ctx₂ hctx) (itemsSpec_embed cfg is ctx₁ ctx₂ hctx)
end

/-! ## outside a shown class nothing is handed to a class -/

/-- nothing is handed to a class -/
def Contrib.noClassPart (a : Contrib) : Prop := a.inner = [] ∧ a.ctors = [] ∧ a.members = [] ∧ a.attrs = []

theorem Contrib.noClassPart_empty : ({} : Contrib).noClassPart := ⟨rfl, rfl, rfl, rfl⟩
theorem Contrib.noClassPart_top (t : List Entry) : ({ top := t } : Contrib).noClassPart := ⟨rfl, rfl, rfl, rfl⟩
theorem Contrib.noClassPart.append {a b : Contrib} (h1 : a.noClassPart) (h2 : b.noClassPart) : (a ++ b).noClassPart := by
  obtain ⟨a1, a2, a3, a4⟩ := h1
  obtain ⟨b1, b2, b3, b4⟩ := h2
  exact ⟨by simp [a1, b1], by simp [a2, b2], by simp [a3, b3], by simp [a4, b4]⟩

theorem asDefinition_noClassPart (cfg : Cfg) (impl : Call) (body : List Item) : (asDefinition cfg impl body).noClassPart := by
  unfold asDefinition
  repeat' split
  all_goals first | exact Contrib.noClassPart_top _ | exact Contrib.noClassPart_empty

mutual
theorem Item.spec_noClassPart (cfg : Cfg) (ctx : ClsCtx) (hctx : ctx ≠ .shown) : (it : Item) → (it.spec cfg ctx).noClassPart
  | .cmd doc call => by
    by_cases h4 : call.lname = lit "cpp_attr"
    · rw [spec_cmd_attr cfg ctx doc call h4]; simp [hctx]; exact Contrib.noClassPart_empty
    · simp only [Item.spec, h4, if_false]
      repeat' split
      all_goals first | exact Contrib.noClassPart_top _ | exact Contrib.noClassPart_empty
  | .block doc o body c => by
    by_cases hf : o.lname = lit "function"
    · rw [spec_block_function cfg ctx doc o body c hf]
      refine Contrib.noClassPart.append ?_ (itemsSpec_noClassPart cfg ctx hctx body)
      split
      · exact Contrib.noClassPart_top _
      · exact Contrib.noClassPart_empty
    by_cases hm : o.lname = lit "macro"
    · rw [spec_block_macro cfg ctx doc o body c hm]
      refine Contrib.noClassPart.append ?_ (itemsSpec_noClassPart cfg ctx hctx body)
      split
      · exact Contrib.noClassPart_top _
      · exact Contrib.noClassPart_empty
    by_cases hc : o.lname = lit "cpp_class"
    · have h1 : lit "cpp_class" ≠ lit "function" := by decide
      have h2 : lit "cpp_class" ≠ lit "macro" := by decide
      cases hi : (doc.isSome || cfg.inclCppClass) <;> simp [Item.spec, hc, h1, h2, hi, hctx, Contrib.noClassPart]
    · rw [spec_block_other cfg ctx doc o body c hf hm hc]
      refine Contrib.noClassPart.append ?_ (itemsSpec_noClassPart cfg ctx hctx body)
      split
      · exact Contrib.noClassPart_top _
      · exact Contrib.noClassPart_empty
  | .decl doc d impl body c => by
    have ihb := itemsSpec_noClassPart cfg ctx hctx body
    by_cases ht : d.lname = lit "ct_add_test"
    · rw [spec_decl_test_if cfg ctx doc d impl body c ht]
      refine Contrib.noClassPart.append ?_ ihb
      split
      · exact Contrib.noClassPart_top _
      · exact asDefinition_noClassPart _ _ _
    by_cases hs : d.lname = lit "ct_add_section"
    · rw [spec_decl_section_if cfg ctx doc d impl body c hs]
      refine Contrib.noClassPart.append ?_ ihb
      split
      · exact Contrib.noClassPart_top _
      · exact asDefinition_noClassPart _ _ _
    · rw [spec_decl_memberlike cfg ctx doc d impl body c ht hs]
      refine Contrib.noClassPart.append ?_ ihb
      simp [hctx]; exact asDefinition_noClassPart _ _ _
  | .dangling _ => by simp [Item.spec]; exact Contrib.noClassPart_empty
theorem itemsSpec_noClassPart (cfg : Cfg) (ctx : ClsCtx) (hctx : ctx ≠ .shown) :
    (items : List Item) → (itemsSpec cfg ctx items).noClassPart
  | [] => by simp [itemsSpec]; exact Contrib.noClassPart_empty
  | i :: is => by
    rw [itemsSpec_cons]
    exact (Item.spec_noClassPart cfg ctx hctx i).append (itemsSpec_noClassPart cfg ctx hctx is)
end

end Cminx
