import CminxLemmas.AggLemmas
/-!
# Lemmas for T-agg, part 2: what `step` does on one event, by (lower-cased) command name
-/
namespace Cminx

/-- the names `enterCommand_invocation` treats before it looks at `process_*` -/
def specialNames : List Str :=
  [lit "cpp_class", lit "cpp_end_class", lit "cmake_parse_arguments", lit "function", lit "macro",
   lit "endfunction", lit "endmacro"]

theorem Call.lname_toCmd (c : Call) : asciiLower c.toCmd.name = c.lname := rfl
theorem Call.singles_toCmd (c : Call) : c.toCmd.singles = c.singles := rfl

@[simp] theorem procOf_function : procOf (lit "function") = some .function := by decide
@[simp] theorem procOf_macro : procOf (lit "macro") = some .macro := by decide
@[simp] theorem procOf_cmakeParseArguments : procOf (lit "cmake_parse_arguments") = some .cmakeParseArguments := by decide
@[simp] theorem procOf_ctAddTest : procOf (lit "ct_add_test") = some .ctAddTest := by decide
@[simp] theorem procOf_ctAddSection : procOf (lit "ct_add_section") = some .ctAddSection := by decide
@[simp] theorem procOf_set : procOf (lit "set") = some .set := by decide
@[simp] theorem procOf_cppClass : procOf (lit "cpp_class") = some .cppClass := by decide
@[simp] theorem procOf_cppMember : procOf (lit "cpp_member") = some .cppMember := by decide
@[simp] theorem procOf_cppConstructor : procOf (lit "cpp_constructor") = some .cppConstructor := by decide
@[simp] theorem procOf_cppAttr : procOf (lit "cpp_attr") = some .cppAttr := by decide
@[simp] theorem procOf_addTest : procOf (lit "add_test") = some .addTest := by decide
@[simp] theorem procOf_option : procOf (lit "option") = some .option := by decide
@[simp] theorem procOf_if : procOf (lit "if") = none := by decide
@[simp] theorem procOf_foreach : procOf (lit "foreach") = none := by decide
@[simp] theorem procOf_while : procOf (lit "while") = none := by decide
@[simp] theorem procOf_endif : procOf (lit "endif") = none := by decide
@[simp] theorem procOf_endforeach : procOf (lit "endforeach") = none := by decide
@[simp] theorem procOf_endwhile : procOf (lit "endwhile") = none := by decide
@[simp] theorem procOf_endfunction : procOf (lit "endfunction") = none := by decide
@[simp] theorem procOf_endmacro : procOf (lit "endmacro") = none := by decide
@[simp] theorem procOf_cpp_end_class : procOf (lit "cpp_end_class") = none := by decide

/-! ## `enterCommand` -/

theorem enterCommand_plain (cfg : Cfg) (st : AggState) (consumed : Bool) (cmd : Cmd)
    (hs : specialNames.contains (asciiLower cmd.name) = false)
    (h : consumed = true ∨ asciiLower cmd.name = lit "set" ∨ procOf (asciiLower cmd.name) = none) :
    enterCommand cfg st consumed cmd = .ok st := by
  simp [specialNames] at hs
  unfold enterCommand
  simp [hs]
  rcases h with h | h | h <;> simp [h]

theorem enterCommand_proc (cfg : Cfg) (st : AggState) (cmd : Cmd) (p : Proc) (b : Bool)
    (hs : specialNames.contains (asciiLower cmd.name) = false)
    (hset : asciiLower cmd.name ≠ lit "set")
    (hp : procOf (asciiLower cmd.name) = some p) (hb : cfg.include p = some b) :
    enterCommand cfg st false cmd = if b then runProc cfg p st cmd [] else .ok st := by
  simp [specialNames] at hs
  unfold enterCommand
  simp [hs, hset, hp, hb]
  cases b <;> simp

theorem enterCommand_cpa (cfg : Cfg) (st : AggState) (consumed : Bool) (cmd : Cmd)
    (h : asciiLower cmd.name = lit "cmake_parse_arguments") :
    enterCommand cfg st consumed cmd = .ok (processCpa st) := by
  unfold enterCommand
  simp (decide := true) [h]

theorem enterCommand_endClass (cfg : Cfg) (st : AggState) (consumed : Bool) (cmd : Cmd) (x rest)
    (h : asciiLower cmd.name = lit "cpp_end_class") (hc : st.classStack = x :: rest) :
    enterCommand cfg st consumed cmd = .ok { st with classStack := rest } := by
  unfold enterCommand
  simp (decide := true) [h, hc]

theorem enterCommand_endDef (cfg : Cfg) (st : AggState) (consumed : Bool) (cmd : Cmd) (x rest)
    (h : asciiLower cmd.name = lit "endfunction" ∨ asciiLower cmd.name = lit "endmacro")
    (hd : st.defStack = x :: rest) :
    enterCommand cfg st consumed cmd = .ok { st with defStack := rest } := by
  unfold enterCommand
  rcases h with h | h <;> simp (decide := true) [h, hd]

theorem enterCommand_def_consumed (cfg : Cfg) (st : AggState) (cmd : Cmd)
    (h : asciiLower cmd.name = lit "function" ∨ asciiLower cmd.name = lit "macro")
    (ha : st.awaiting = none) :
    enterCommand cfg st true cmd = .ok st := by
  unfold enterCommand
  rcases h with h | h <;> simp (decide := true) [h, ha]

theorem enterCommand_def (cfg : Cfg) (st : AggState) (cmd : Cmd)
    (h : asciiLower cmd.name = lit "function" ∨ asciiLower cmd.name = lit "macro")
    (ha : st.awaiting = none) :
    enterCommand cfg st false cmd =
      if (if asciiLower cmd.name = lit "macro" then cfg.inclMacro else cfg.inclFunction) then
        processDef cfg (asciiLower cmd.name = lit "macro") st cmd []
      else .ok { st with defStack := none :: st.defStack } := by
  unfold enterCommand
  rcases h with h | h
  · simp (decide := true) [h, ha, Cfg.include, runProc]
    cases cfg.inclFunction <;> simp
  · simp (decide := true) [h, ha, Cfg.include, runProc]
    cases cfg.inclMacro <;> simp

theorem enterCommand_claim (cfg : Cfg) (st : AggState) (consumed : Bool) (cmd : Cmd) (ref : AwaitRef)
    (h : asciiLower cmd.name = lit "function" ∨ asciiLower cmd.name = lit "macro")
    (ha : st.awaiting = some ref) (hc : consumed = false := by rfl) :
    enterCommand cfg st consumed cmd =
      .ok (claimDefinition cfg st ref (asciiLower cmd.name = lit "macro") cmd) := by
  subst hc
  unfold enterCommand
  rcases h with h | h <;> simp (decide := true) [h, ha]

theorem enterCommand_class_consumed (cfg : Cfg) (st : AggState) (cmd : Cmd)
    (h : asciiLower cmd.name = lit "cpp_class") (hf : cfg.inclCppClass = true) :
    enterCommand cfg st true cmd = .ok st := by
  unfold enterCommand
  simp (decide := true) [h, hf]

theorem enterCommand_class_shown (cfg : Cfg) (st : AggState) (cmd : Cmd)
    (h : asciiLower cmd.name = lit "cpp_class") (hf : cfg.inclCppClass = true) :
    enterCommand cfg st false cmd = .ok (processCppClass st cmd []) := by
  unfold enterCommand
  simp (decide := true) [h, hf, Cfg.include, runProc]

theorem enterCommand_class_hidden (cfg : Cfg) (st : AggState) (consumed : Bool) (cmd : Cmd)
    (h : asciiLower cmd.name = lit "cpp_class") (hf : cfg.inclCppClass = false) :
    enterCommand cfg st consumed cmd = .ok { st with classStack := none :: st.classStack } := by
  unfold enterCommand
  simp (decide := true) [h, hf]

/-! ## `step` on the event of a possibly documented command -/

theorem step_docEvent (cfg : Cfg) (st : AggState) (doc : Option DocC) (c : Call) :
    step cfg st (docEvent doc c) =
      match doc with
      | some d => enterDocumented cfg st d.tokenText c.toCmd >>= fun st' => enterCommand cfg st' true c.toCmd
      | none => enterCommand cfg st false c.toCmd := by
  cases doc <;> rfl

theorem step_cmd (cfg : Cfg) (st : AggState) (c : Call) :
    step cfg st (.cmd c.toCmd) = enterCommand cfg st false c.toCmd := rfl

/-- a command with a `process_*` method that is neither a definition nor a class opener -/
theorem step_proc (cfg : Cfg) (st : AggState) (doc : Option DocC) (c : Call) (p : Proc) (b : Bool)
    (f : AggState → Str → AggState)
    (hs : specialNames.contains c.lname = false) (hset : c.lname ≠ lit "set")
    (hp : procOf c.lname = some p) (hb : cfg.include p = some b)
    (hf : ∀ st doc, runProc cfg p st c.toCmd doc = .ok (f st doc)) :
    step cfg st (docEvent doc c) = .ok (if doc.isSome || b then f st (docTextOf doc) else st) := by
  rw [step_docEvent]
  cases doc with
  | none =>
    simp only [Option.isSome_none, Bool.false_or, docTextOf]
    rw [enterCommand_proc cfg st c.toCmd p b hs hset hp hb, hf]
    cases b <;> simp
  | some d =>
    have : enterDocumented cfg st d.tokenText c.toCmd = .ok (f st (cleanDoc d.tokenText)) := by
      unfold enterDocumented
      simp only [Call.lname_toCmd, hp, hf]
    simp only [this, except_ok_bind, Option.isSome_some, Bool.true_or, if_true, docTextOf]
    exact enterCommand_plain cfg _ true c.toCmd hs (Or.inl rfl)

theorem step_set (cfg : Cfg) (st : AggState) (doc : Option DocC) (c : Call) (h : c.lname = lit "set") :
    step cfg st (docEvent doc c) =
      .ok (if doc.isSome then processSet st c.toCmd (docTextOf doc) else st) := by
  have hs : specialNames.contains (asciiLower c.toCmd.name) = false := by
    rw [Call.lname_toCmd, h]; decide
  rw [step_docEvent]
  cases doc with
  | none => exact enterCommand_plain cfg st false c.toCmd hs (Or.inr (Or.inl h))
  | some d =>
    have : enterDocumented cfg st d.tokenText c.toCmd = .ok (processSet st c.toCmd (cleanDoc d.tokenText)) := by
      unfold enterDocumented
      simp only [Call.lname_toCmd, h]
      rfl
    simp only [this, except_ok_bind, Option.isSome_some, if_true, docTextOf]
    exact enterCommand_plain cfg _ true c.toCmd hs (Or.inl rfl)

theorem processCpa_eq (st : AggState) :
    processCpa st = { st with documented := markKw st.documented st.defStack true } := by
  obtain ⟨d, cs, aw, ds, er⟩ := st
  rcases ds with _ | ⟨_ | i, ds⟩ <;> simp [processCpa, markKw]

theorem processCpa_idem (st : AggState) : processCpa (processCpa st) = processCpa st := by
  rw [processCpa_eq, processCpa_eq]
  simp [markKw_markKw]

theorem step_cpa (cfg : Cfg) (st : AggState) (doc : Option DocC) (c : Call)
    (h : c.lname = lit "cmake_parse_arguments") :
    step cfg st (docEvent doc c) = .ok (processCpa st) := by
  rw [step_docEvent]
  cases doc with
  | none => exact enterCommand_cpa cfg st false c.toCmd h
  | some d =>
    have : enterDocumented cfg st d.tokenText c.toCmd = .ok (processCpa st) := by
      unfold enterDocumented
      simp only [Call.lname_toCmd, h]
      rfl
    simp only [this, except_ok_bind]
    rw [enterCommand_cpa cfg _ true c.toCmd h, processCpa_idem]

/-- a command without a `process_*` method: a generic entry if documented -/
theorem step_generic (cfg : Cfg) (st : AggState) (doc : Option DocC) (c : Call)
    (hs : specialNames.contains c.lname = false) (hp : procOf c.lname = none) :
    step cfg st (docEvent doc c) =
      .ok (if doc.isSome then st.push (.generic c.lname (docTextOf doc) (argTexts c.toCmd.args)) else st) := by
  rw [step_docEvent]
  cases doc with
  | none => exact enterCommand_plain cfg st false c.toCmd hs (Or.inr (Or.inr hp))
  | some d =>
    have : enterDocumented cfg st d.tokenText c.toCmd =
        .ok (st.push (.generic c.lname (cleanDoc d.tokenText) (argTexts c.toCmd.args))) := by
      unfold enterDocumented
      simp only [Call.lname_toCmd, hp]
      rfl
    simp only [this, except_ok_bind, Option.isSome_some, if_true, docTextOf]
    exact enterCommand_plain cfg _ true c.toCmd hs (Or.inl rfl)

/-- the entry `process_function`/`process_macro` stores (its `**kwargs` flag may still be raised later) -/
def defEntry0 (cfg : Cfg) (isMacro : Bool) (doc : Option DocC) (call : Call) : Entry :=
  .func isMacro (call.singles.headD []) (docTextOf doc)
    ((call.singles.drop 1).map (if isMacro then cfg.stripMacro else cfg.stripFn))
    (isInfix cfg.trigger (docTextOf doc))

theorem processDef_eq (cfg : Cfg) (st : AggState) (doc : Option DocC) (c : Call) (isMacro : Bool)
    (hl : c.singles.length ≥ 1) :
    processDef cfg isMacro st c.toCmd (docTextOf doc) =
      .ok { st with documented := st.documented ++ [defEntry0 cfg isMacro doc c],
                    defStack := some st.documented.length :: st.defStack } := by
  unfold processDef
  rw [Call.singles_toCmd]
  rcases hc : c.singles with _ | ⟨name, ps⟩
  · simp [hc] at hl
  · simp [defEntry0, hc, AggState.push]

/-- the opener of a function/macro definition (documented or not), no entry awaiting a definition -/
theorem step_def (cfg : Cfg) (st : AggState) (doc : Option DocC) (c : Call)
    (h : c.lname = lit "function" ∨ c.lname = lit "macro") (ha : st.awaiting = none)
    (hl : c.singles.length ≥ 1) :
    step cfg st (docEvent doc c) =
      .ok (if doc.isSome || (if c.lname = lit "macro" then cfg.inclMacro else cfg.inclFunction) then
             { st with documented := st.documented ++ [defEntry0 cfg (c.lname = lit "macro") doc c],
                       defStack := some st.documented.length :: st.defStack }
           else { st with defStack := none :: st.defStack }) := by
  rw [step_docEvent]
  cases doc with
  | none =>
    rw [enterCommand_def cfg st c.toCmd h ha, Call.lname_toCmd]
    have := processDef_eq cfg st none c (c.lname = lit "macro") hl
    simp only [docTextOf] at this
    simp only [Option.isSome_none, Bool.false_or]
    split <;> simp only [this] <;> split <;> rfl
  | some d =>
    have : enterDocumented cfg st d.tokenText c.toCmd =
        processDef cfg (c.lname = lit "macro") st c.toCmd (docTextOf (some d)) := by
      unfold enterDocumented
      simp only [Call.lname_toCmd]
      rcases h with h | h <;> simp (decide := true) [h, procOf, runProc, docTextOf]
    simp only [this, processDef_eq cfg st (some d) c _ hl, except_ok_bind, Option.isSome_some, Bool.true_or,
      if_true]
    exact enterCommand_def_consumed cfg _ c.toCmd h ha

theorem step_class_shown (cfg : Cfg) (st : AggState) (doc : Option DocC) (c : Call)
    (h : c.lname = lit "cpp_class") (hf : cfg.inclCppClass = true) :
    step cfg st (docEvent doc c) = .ok (processCppClass st c.toCmd (docTextOf doc)) := by
  rw [step_docEvent]
  cases doc with
  | none => exact enterCommand_class_shown cfg st c.toCmd h hf
  | some d =>
    have : enterDocumented cfg st d.tokenText c.toCmd = .ok (processCppClass st c.toCmd (docTextOf (some d))) := by
      unfold enterDocumented
      simp only [Call.lname_toCmd, h]
      rfl
    simp only [this, except_ok_bind]
    exact enterCommand_class_consumed cfg _ c.toCmd h hf

end Cminx
