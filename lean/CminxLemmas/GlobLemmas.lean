import CminxModel.Glob
/-! Helper lemmas about `CminxModel/Glob.lean` (regular-expression matcher, pattern translation). -/
namespace Cminx
namespace Glob

/-! ### the verdict fold -/

def vstep (s : Str) (acc : Bool) (p : Compiled) : Bool :=
  match p with
  | .skip => acc
  | .pat excl _ _ => if p.hits s then excl else acc

theorem verdict_eq_foldl (cs : List Compiled) (s : Str) : verdict cs s = cs.foldl (vstep s) false := rfl

theorem foldl_vstep_pos (s : Str) (cs : List Compiled) (hpos : ∀ c ∈ cs, ∀ e a re, c = .pat e a re → e = true) (acc : Bool) :
    cs.foldl (vstep s) acc = (acc || cs.any (·.hits s)) := by
  induction cs generalizing acc with
  | nil => simp
  | cons c cs ih =>
    rw [List.foldl_cons, ih (fun c hc => hpos c (List.mem_cons_of_mem _ hc))]
    cases c with
    | skip => simp [vstep, Compiled.hits]
    | pat e a re =>
      have := hpos _ List.mem_cons_self e a re rfl
      subst this
      simp only [vstep, List.any_cons]
      cases acc <;> cases (Compiled.pat true a re).hits s <;> simp

theorem verdict_append (cs ds : List Compiled) (s : Str) :
    verdict (cs ++ ds) s = ds.foldl (vstep s) (verdict cs s) := by
  simp [verdict_eq_foldl, List.foldl_append]

theorem verdict_snoc (cs : List Compiled) (c : Compiled) (s : Str) :
    verdict (cs ++ [c]) s = vstep s (verdict cs s) c := by
  simp [verdict_append]

theorem last_wins_aux (r : List Compiled) (s : Str) :
    verdict r.reverse s = match r.find? (·.hits s) with
      | some (.pat excl _ _) => excl
      | _ => false := by
  induction r with
  | nil => simp [verdict]
  | cons c r ih =>
    rw [List.reverse_cons, verdict_snoc, ih]
    cases c with
    | skip => simp [vstep, Compiled.hits]
    | pat e a re =>
      simp only [vstep, List.find?_cons]
      cases h : (Compiled.pat e a re).hits s <;> simp

theorem compileAll_append (ps qs : List Str) (cs ds : List Compiled) (h1 : compileAll ps = .ok cs)
    (h2 : compileAll qs = .ok ds) : compileAll (ps ++ qs) = .ok (cs ++ ds) := by
  induction ps generalizing cs with
  | nil => simp [compileAll] at h1; subst h1; simpa using h2
  | cons p ps ih =>
    simp only [compileAll, List.cons_append] at h1 ⊢
    cases hc : compile p with
    | error e => simp [hc] at h1
    | ok c =>
      simp only [hc] at h1 ⊢
      cases hps : compileAll ps with
      | error e => simp [hps, Except.map] at h1
      | ok cs' =>
        simp only [hps, Except.map] at h1
        injection h1 with h1
        subst h1
        simp [ih cs' hps, Except.map]


/-! ### the matcher -/

theorem and_any {α} (b : Bool) (l : List α) (f : α → Bool) : (b && l.any f) = l.any (fun x => b && f x) := by
  cases b <;> simp

theorem starK_eq_any (p : CC) (k : Str → Bool) (s : Str) :
    starK p k s = (List.range (s.length + 1)).any (fun i => (s.take i).all p.test && k (s.drop i)) := by
  induction s with
  | nil => simp [starK]
  | cons x xs ih =>
    rw [starK, ih, List.length_cons, List.range_succ_eq_map (n := xs.length + 1)]
    simp [List.any_map, Function.comp_def, Bool.and_assoc, and_any]

theorem starK_of_nil (p : CC) (k : Str → Bool) (c : Str) (h0 : starK p k [] = true) (hc : ∀ x ∈ c, p.test x = true) :
    starK p k c = true := by
  induction c with
  | nil => exact h0
  | cons x c ih =>
    rw [starK, ih (fun y hy => hc y (List.mem_cons_of_mem _ hy)), hc x List.mem_cons_self]; simp

/-- `.*` then `/` then `k` -/
def after (k : Str → Bool) : Str → Bool := starK .dot (Re.m (.chr (.lit '/')) k)

theorem after_nil (k) : after k [] = false := by simp [after, starK, Re.m]

theorem after_cons_slash (k : Str → Bool) (t : Str) : after k ('/' :: t) = (k t || after k t) := by
  simp [after, starK, Re.m, CC.test]

theorem after_cons_other (k : Str → Bool) (x : Char) (t : Str) (h1 : x ≠ '/') (h2 : x ≠ '\n') :
    after k (x :: t) = after k t := by
  have e1 : (x == '/') = false := by simpa using h1
  have e2 : (x != '\n') = true := by simpa using h2
  simp [after, starK, Re.m, CC.test, e1, e2]

theorem after_comp (k : Str → Bool) (c : Str) (hc : ∀ x ∈ c, x ≠ '/' ∧ x ≠ '\n') (t : Str) :
    after k (c ++ t) = after k t := by
  induction c with
  | nil => rfl
  | cons x c ih =>
    have := hc x List.mem_cons_self
    rw [List.cons_append, after_cons_other k x _ this.1 this.2, ih (fun y hy => hc y (List.mem_cons_of_mem _ hy))]

/-- the optional prefix `(?:.+/)?` -/
def optPre : Re := Re.opt (.seq (.plus .dot) (.chr (.lit '/')))

theorem optPre_m (k : Str → Bool) (x : Char) (t : Str) (h1 : x ≠ '/') (h2 : x ≠ '\n') :
    optPre.m k (x :: t) = (k (x :: t) || after k (x :: t)) := by
  have e2 : (x != '\n') = true := by simpa using h2
  rw [after_cons_other k x t h1 h2]
  simp [optPre, Re.opt, Re.m, CC.test, e2, after, Bool.or_comm]

/-- the expressions `segGlob` produces for a segment without `/` -/
inductive SegRe : Re → Prop
  | eps : SegRe .eps
  | chr (p : CC) (G : Re) : p.test '/' = false → SegRe G → SegRe (.seq (.chr p) G)
  | star (G : Re) : SegRe G → SegRe (.seq (.star .notSlash) G)

theorem segGlob_SegRe (g : Str) (hg : ∀ x ∈ g, x ≠ '/') (G : Re) (hG : segGlob g = .ok G) : SegRe G := by
  fun_induction segGlob g generalizing G with
  | case1 => cases hG; exact .eps
  | case2 => cases hG
  | case3 d r' ih =>
    cases h : segGlob r' with
    | error e => simp [h, Except.map] at hG
    | ok G' =>
      simp only [h, Except.map] at hG; cases hG
      refine .chr _ _ ?_ (ih (fun x hx => hg x (by simp [hx])) _ h)
      have := hg d (by simp)
      simpa [CC.test] using this.symm
  | case4 r h1 ih =>
    cases h : segGlob r with
    | error e => simp [h, Except.map] at hG
    | ok G' =>
      simp only [h, Except.map] at hG; cases hG
      exact .star _ (ih (fun x hx => hg x (by simp [hx])) _ h)
  | case5 r h1 h2 ih =>
    cases h : segGlob r with
    | error e => simp [h, Except.map] at hG
    | ok G' =>
      simp only [h, Except.map] at hG; cases hG
      exact .chr _ _ (by simp [CC.test]) (ih (fun x hx => hg x (by simp [hx])) _ h)
  | case6 => cases hG
  | case7 c r h1 h2 h3 h4 ih =>
    cases h : segGlob r with
    | error e => simp [h, Except.map] at hG
    | ok G' =>
      simp only [h, Except.map] at hG; cases hG
      refine .chr _ _ ?_ (ih (fun x hx => hg x (by simp [hx])) _ h)
      have := hg c (by simp)
      simpa [CC.test] using this.symm

theorem seg_m (G : Re) (hG : SegRe G)
    (K : Str → Bool) (hK : ∀ x b, x ≠ '/' → x ≠ '\n' → K (x :: b) = false)
    (t : Str) (ht : ∀ x r, t = x :: r → x = '/')
    (c : Str) (hc : ∀ x ∈ c, x ≠ '/' ∧ x ≠ '\n')  :
    G.m K (c ++ t) = (G.m (·.isEmpty) c && K t) := by
  induction hG generalizing c with
  | eps =>
    cases c with
    | nil => simp [Re.m]
    | cons x c => simp [Re.m, hK x _ (hc x List.mem_cons_self).1 (hc x List.mem_cons_self).2]
  | chr p G hp hG ih =>
    cases c with
    | nil =>
      cases t with
      | nil => simp [Re.m]
      | cons y r => cases ht y r rfl; simp [Re.m, hp]
    | cons x c =>
      simp [Re.m, ih c (fun y hy => hc y (List.mem_cons_of_mem _ hy)), Bool.and_assoc]
  | star G hG ih =>
    simp only [Re.m]
    induction c with
    | nil =>
      have := ih [] (by simp)
      simp only [List.nil_append] at this
      cases t with
      | nil => simpa [starK] using this
      | cons y r => cases ht y r rfl; simpa [starK, CC.test] using this
    | cons x c ihc =>
      have hx := hc x List.mem_cons_self
      have e1 : (x != '/') = true := by simpa using hx.1
      rw [List.cons_append, starK, starK, ihc (fun y hy => hc y (List.mem_cons_of_mem _ hy)), ← List.cons_append, ih _ hc]
      simp only [CC.test, e1, Bool.true_and]
      cases K t <;> simp

/-! ### strings and segments -/

theorem splitSlash_ne_nil (s : Str) : splitSlash s ≠ [] := by
  induction s with
  | nil => simp [splitSlash]
  | cons c r ih =>
    rw [splitSlash]; split
    · simp
    · split <;> simp

theorem splitSlash_noSlash (w : Str) (hw : ∀ x ∈ w, x ≠ '/') : splitSlash w = [w] := by
  induction w with
  | nil => rfl
  | cons c r ih =>
    have hc : c ≠ '/' := hw c List.mem_cons_self
    rw [splitSlash, if_neg hc, ih (fun x hx => hw x (List.mem_cons_of_mem _ hx))]

theorem splitSlash_append_slash (w : Str) (hw : ∀ x ∈ w, x ≠ '/') (r : Str) :
    splitSlash (w ++ '/' :: r) = w :: splitSlash r := by
  induction w with
  | nil => simp [splitSlash]
  | cons c w ih =>
    have hc : c ≠ '/' := hw c List.mem_cons_self
    rw [List.cons_append, splitSlash, if_neg hc, ih (fun x hx => hw x (List.mem_cons_of_mem _ hx))]

theorem joinWith_cons_cons (sep a b : Str) (l : List Str) :
    joinWith sep (a :: b :: l) = a ++ sep ++ joinWith sep (b :: l) := rfl

theorem splitSlash_joinWith (ws : List Str) (hne : ws ≠ []) (hw : ∀ w ∈ ws, ∀ x ∈ w, x ≠ '/') :
    splitSlash (joinWith ['/'] ws) = ws := by
  induction ws with
  | nil => exact absurd rfl hne
  | cons w ws ih =>
    cases ws with
    | nil => simpa [joinWith] using splitSlash_noSlash w (hw w (by simp))
    | cons w' ws =>
      rw [joinWith_cons_cons, List.append_assoc, List.singleton_append,
        splitSlash_append_slash w (hw w (by simp)), ih (by simp) (fun v hv => hw v (List.mem_cons_of_mem _ hv))]

theorem rstripWs_id (p : Str) (h : ∀ c, p.getLast? = some c → pyIsSpace c = false) : rstripWs p = p := by
  unfold rstripWs
  cases hr : p.reverse with
  | nil => simp at hr; subst hr; rfl
  | cons c r =>
    have : p.getLast? = some c := by rw [List.getLast?_eq_head?_reverse, hr]; rfl
    rw [List.dropWhile_cons, h c this]
    simp [← hr]

theorem rstripWs_prefix (p : Str) : rstripWs p <+: p := by
  unfold rstripWs
  have h : (List.dropWhile pyIsSpace p.reverse).reverse <+: p.reverse.reverse :=
    List.reverse_prefix.2 (List.dropWhile_suffix _)
  simpa using h

/-! ### `compile` -/

/-- `compile` after the blank/comment/negation prologue -/
def compileCore (excl : Bool) (p1 : Str) : Except GErr Compiled :=
  let orig := splitSlash p1
  let isDir : Bool := orig.getLast? = some []
  let s1 := normHead orig
  if s1 = [] then .error .invalid
  else
    let s3 := dedupStars (lastToStars s1)
    if s3 = [dstar] then
      .ok (.pat excl false (if isDir then .chr (.lit '/') else .chr .dot))
    else if s3 = [dstar, ['*']] then .ok (.pat excl false (.chr .dot))
    else if s3 = [dstar, ['*'], dstar] then .ok (.pat excl false (.chr (.lit '/')))
    else
      match transSegs isDir s3 true false with
      | .ok re => .ok (.pat excl true re)
      | .error .unsupported => .error .unsupported
      | .error .invalid => .error .invalid

theorem compile_p0 (p : Str) (hl : ∀ c, p.getLast? = some c → pyIsSpace c = false) :
    (if (['\\', ' '] : Str).reverse.isPrefixOf p.reverse then p else rstripWs p) = p := by
  split
  · rfl
  · exact rstripWs_id p hl

theorem compile_clean_pos (p : Str) (h1 : p ≠ []) (hl : ∀ c, p.getLast? = some c → pyIsSpace c = false)
    (hh : p.head? ≠ some '#') (hs : p ≠ ['/']) (hb : p.head? ≠ some '!') :
    compile p = compileCore true p := by
  unfold compile
  simp only [compile_p0 p hl, if_neg h1, if_neg hh, if_neg hs]
  split
  · simp at hb
  · rfl

theorem compile_clean_neg (r : Str) (hl : ∀ c, ('!' :: r).getLast? = some c → pyIsSpace c = false)  :
    compile ('!' :: r) = compileCore false r := by
  unfold compile
  have h1 : ('!' :: r) ≠ [] := by simp
  have h2 : ('!' :: r).head? ≠ some '#' := by simp
  have h3 : ('!' :: r) ≠ ['/'] := by simp
  simp only [compile_p0 _ hl, if_neg h1, if_neg h2, if_neg h3]
  rfl

theorem compileCore_of (excl : Bool) (p1 : Str) (s1 s3 : List Str) (isDir : Bool) (re : Re)
    (hd : isDir = decide ((splitSlash p1).getLast? = some []))
    (h1 : normHead (splitSlash p1) = s1) (hne : s1 ≠ [])
    (h3 : dedupStars (lastToStars s1) = s3)
    (ha : s3 ≠ [dstar]) (hb : s3 ≠ [dstar, ['*']]) (hc : s3 ≠ [dstar, ['*'], dstar])
    (ht : transSegs isDir s3 true false = .ok re) :
    compileCore excl p1 = .ok (.pat excl true re) := by
  unfold compileCore
  simp only [h1, h3, if_neg hne, if_neg ha, if_neg hb, if_neg hc, ← hd, ht]

theorem segGlob_lit (x : Char) (g : Str) (hx : x ≠ '\\' ∧ x ≠ '*' ∧ x ≠ '?' ∧ x ≠ '[') :
    segGlob (x :: g) = (segGlob g).map (Re.seq (.chr (.lit x))) := by
  rw [segGlob.eq_def]; simp only [if_neg hx.1, if_neg hx.2.1, if_neg hx.2.2.1, if_neg hx.2.2.2]

theorem segGlob_star (g : Str) : segGlob ('*' :: g) = (segGlob g).map (Re.seq (.star .notSlash)) := by
  rw [segGlob.eq_def]; simp

theorem joinWith_cons_ne (sep a : Str) (l : List Str) (h : l ≠ []) :
    joinWith sep (a :: l) = a ++ sep ++ joinWith sep l := by
  cases l with
  | nil => exact absurd rfl h
  | cons b l => rfl

theorem joinWith_append (sep : Str) (a b : List Str) (ha : a ≠ []) (hb : b ≠ []) :
    joinWith sep (a ++ b) = joinWith sep a ++ sep ++ joinWith sep b := by
  induction a with
  | nil => exact absurd rfl ha
  | cons x a ih =>
    cases a with
    | nil => simp [joinWith_cons_ne sep x b hb, joinWith]
    | cons y a =>
      have e : joinWith sep (x :: y :: a) = x ++ sep ++ joinWith sep (y :: a) := rfl
      rw [List.cons_append, joinWith_cons_ne _ _ _ (by simp), ih (by simp), e]
      simp

/-! ### the pattern shapes of the theorems -/

/-- the translation of the last segment: `G(?:/|$)` -/
def lastRe (G : Re) : Re := .seq .eps (.seq G (.alt (.chr (.lit '/')) .eol))

theorem dstar_ne_of_noStar (n : Str) (h : ∀ x ∈ n, x ≠ '*') : n ≠ dstar := by
  intro e; subst e; exact h '*' (by simp [dstar]) rfl

theorem transSegs_last (isDir : Bool) (g : Str) (G : Re) (h1 : g ≠ dstar) (h2 : g ≠ ['*'])
    (hG : segGlob g = .ok G) (first : Bool) :
    transSegs isDir [g] first false = .ok (lastRe G) := by
  simp [transSegs, h1, h2, hG, lastRe]

theorem compileCore_oneSeg (excl : Bool) (g : Str) (G : Re) (h0 : g ≠ []) (hs : ∀ x ∈ g, x ≠ '/')
    (h1 : g ≠ dstar) (h2 : g ≠ ['*']) (hG : segGlob g = .ok G) :
    compileCore excl g = .ok (.pat excl true (.seq optPre (lastRe G))) := by
  have hsp := splitSlash_noSlash g hs
  refine compileCore_of excl g [dstar, g] [dstar, g] false _ ?_ ?_ (by simp) ?_ ?_ ?_ ?_ ?_
  · simp [hsp, h0]
  · simp [hsp, normHead, h0, h1]
  · simp [lastToStars, dedupStars, h0, h1]
  · simp
  · simp [h2]
  · simp
  · rw [transSegs]
    simp [transSegs_last false g G h1 h2 hG, Except.map, optPre]

theorem compileCore_dstar_prefix (excl : Bool) (n : Str) (h0 : n ≠ []) (hs : ∀ x ∈ n, x ≠ '/') :
    compileCore excl (dstar ++ '/' :: n) = compileCore excl n := by
  have e1 : splitSlash (dstar ++ '/' :: n) = [dstar, n] := by
    rw [splitSlash_append_slash dstar (by simp [dstar]), splitSlash_noSlash n hs]
  have e2 := splitSlash_noSlash n hs
  unfold compileCore
  simp only [e1, e2]
  by_cases hd : n = ['*', '*']
  · subst hd; simp [normHead, dstar, lastToStars, dedupStars]
  · simp [normHead, h0, hd, dstar, lastToStars, dedupStars]

/-- the translation of `n/`: `G/` -/
def dirRe (G : Re) : Re := .seq .eps (.seq G (.chr (.lit '/')))

theorem compileCore_dir (excl : Bool) (g : Str) (G : Re) (h0 : g ≠ []) (hs : ∀ x ∈ g, x ≠ '/')
    (h1 : g ≠ dstar) (h2 : g ≠ ['*']) (hG : segGlob g = .ok G) :
    compileCore excl (g ++ ['/']) = .ok (.pat excl true (.seq optPre (dirRe G))) := by
  have hsp : splitSlash (g ++ ['/']) = [g, []] := by
    rw [splitSlash_append_slash g hs]; rfl
  refine compileCore_of excl _ [dstar, g, []] [dstar, g, dstar] true _ ?_ ?_ (by simp) ?_ ?_ ?_ ?_ ?_
  · simp [hsp]
  · simp [hsp, normHead, h0, h1]
  · simp [lastToStars, dedupStars, h1]
  · simp
  · simp
  · simp [h2]
  · simp [transSegs, h1, h2, hG, Except.map, optPre, dirRe]

theorem map_ok_inv {ε α β} (f : α → β) (x : Except ε α) (y : β) (h : x.map f = .ok y) : ∃ a, x = .ok a ∧ y = f a := by
  cases x with
  | error e => simp [Except.map] at h
  | ok a => simp [Except.map] at h; exact ⟨a, rfl, h.symm⟩

theorem segGlob_empty (g : Str) (G : Re) (hG : segGlob g = .ok G) (h0 : g ≠ []) (k : Str → Bool)
    (hk : G.m k [] = true) (c : Str) (hc : ∀ x ∈ c, x ≠ '/') : G.m k c = true := by
  cases g with
  | nil => exact absurd rfl h0
  | cons a r =>
    rw [segGlob.eq_def] at hG
    simp only at hG
    split at hG
    · split at hG
      · cases hG
      · obtain ⟨G', -, rfl⟩ := map_ok_inv _ _ _ hG; simp [Re.m] at hk
    · split at hG
      · obtain ⟨G', -, rfl⟩ := map_ok_inv _ _ _ hG
        simp only [Re.m] at hk ⊢
        exact starK_of_nil _ _ c hk (fun x hx => by simpa [CC.test] using hc x hx)
      · split at hG
        · obtain ⟨G', -, rfl⟩ := map_ok_inv _ _ _ hG; simp [Re.m] at hk
        · split at hG
          · cases hG
          · obtain ⟨G', -, rfl⟩ := map_ok_inv _ _ _ hG; simp [Re.m] at hk

/-! ### paths -/


/-- the normalised path string: components joined by `/`, plus the trailing slash of directories -/
def pathStr (cs : List Str) (isDir : Bool) : Str := joinWith ['/'] cs ++ (if isDir then ['/'] else [])

/-- a path component: non-empty, without `/` and line feeds -/
def Comp (c : Str) : Prop := c ≠ [] ∧ ∀ x ∈ c, x ≠ '/' ∧ x ≠ '\n'

theorem pathStr_single (c : Str) (d : Bool) : pathStr [c] d = c ++ (if d then ['/'] else []) := rfl

theorem pathStr_cons2 (c c' : Str) (cs : List Str) (d : Bool) :
    pathStr (c :: c' :: cs) d = c ++ '/' :: pathStr (c' :: cs) d := by
  simp [pathStr, joinWith]

/-- `k` accepts the path from its beginning, or from behind one of its slashes -/
def scan (k : Str → Bool) (cs : List Str) (d : Bool) : Bool := k (pathStr cs d) || after k (pathStr cs d)

theorem scan_single_file (k : Str → Bool) (c : Str) (hc : Comp c) : scan k [c] false = k c := by
  have := after_comp k c hc.2 []
  simp only [List.append_nil] at this
  simp [scan, pathStr_single, this, after_nil]

theorem scan_single_dir (k : Str → Bool) (c : Str) (hc : Comp c) :
    scan k [c] true = (k (c ++ ['/']) || k []) := by
  simp [scan, pathStr_single, after_comp k c hc.2, after_cons_slash, after_nil]

theorem scan_cons2 (k : Str → Bool) (c c' : Str) (cs : List Str) (d : Bool) (hc : Comp c) :
    scan k (c :: c' :: cs) d = (k (c ++ '/' :: pathStr (c' :: cs) d) || scan k (c' :: cs) d) := by
  simp [scan, pathStr_cons2, after_comp k c hc.2, after_cons_slash]

theorem pathStr_head (c : Str) (cs : List Str) (d : Bool) (hc : Comp c) :
    ∃ x t, pathStr (c :: cs) d = x :: t ∧ x ≠ '/' ∧ x ≠ '\n' := by
  obtain ⟨h0, h1⟩ := hc
  cases c with
  | nil => exact absurd rfl h0
  | cons x c' =>
    cases cs with
    | nil => exact ⟨x, _, by rw [pathStr_single]; rfl, h1 x List.mem_cons_self⟩
    | cons c2 cs => exact ⟨x, _, by rw [pathStr_cons2]; rfl, h1 x List.mem_cons_self⟩

theorem optPre_path (k : Str → Bool) (c : Str) (cs : List Str) (d : Bool) (hc : Comp c) :
    optPre.m k (pathStr (c :: cs) d) = scan k (c :: cs) d := by
  obtain ⟨x, t, e, h1, h2⟩ := pathStr_head c cs d hc
  rw [scan, e, optPre_m k x t h1 h2]

/-- what follows a component in a path: nothing, or a slash -/
def Tail (t : Str) : Prop := ∀ x r, t = x :: r → x = '/'

theorem tail_nil : Tail [] := by intro x r h; cases h
theorem tail_slash (r : Str) : Tail ('/' :: r) := by intro x r h; cases h; rfl

theorem endK_false (x : Char) (b : Str) (h1 : x ≠ '/') (h2 : x ≠ '\n') :
    (Re.alt (.chr (.lit '/')) .eol).m (fun _ => true) (x :: b) = false := by
  have e1 : (x == '/') = false := by simpa using h1
  simp [Re.m, CC.test, e1, h2]

theorem endK_tail (t : Str) (ht : Tail t) : (Re.alt (.chr (.lit '/')) .eol).m (fun _ => true) t = true := by
  cases t with
  | nil => simp [Re.m]
  | cons x r => cases ht x r rfl; simp [Re.m, CC.test]

theorem lastRe_m (G : Re) (hG : SegRe G) (c : Str) (hc : ∀ x ∈ c, x ≠ '/' ∧ x ≠ '\n') (t : Str) (ht : Tail t) :
    (lastRe G).m (fun _ => true) (c ++ t) = G.m (·.isEmpty) c := by
  simp only [lastRe, Re.m]
  have := seg_m G hG ((Re.alt (.chr (.lit '/')) .eol).m (fun _ => true)) endK_false t ht c hc
  simp only [Re.m] at this
  rw [this]
  have := endK_tail t ht
  simp only [Re.m] at this
  rw [this, Bool.and_true]

theorem scan_lastRe (G : Re) (hG : SegRe G)
    (hE : G.m (·.isEmpty) [] = true → ∀ c : Str, (∀ x ∈ c, x ≠ '/') → G.m (·.isEmpty) c = true)
    (cs : List Str) (hne : cs ≠ []) (hcs : ∀ c ∈ cs, Comp c) (d : Bool) :
    scan ((lastRe G).m (fun _ => true)) cs d = cs.any (fun c => G.m (·.isEmpty) c) := by
  induction cs with
  | nil => exact absurd rfl hne
  | cons c cs ih =>
    have hc := hcs c List.mem_cons_self
    cases cs with
    | nil =>
      cases d with
      | false =>
        rw [scan_single_file _ c hc]
        have := lastRe_m G hG c hc.2 [] tail_nil
        simp only [List.append_nil] at this
        simp [this]
      | true =>
        rw [scan_single_dir _ c hc, lastRe_m G hG c hc.2 _ (tail_slash _)]
        have := lastRe_m G hG [] (by simp) [] tail_nil
        simp only [List.append_nil] at this
        rw [this]
        simp only [List.any_cons, List.any_nil, Bool.or_false]
        cases h : G.m (·.isEmpty) []
        · simp
        · simp [hE h c (fun x hx => (hc.2 x hx).1)]
    | cons c' cs =>
      rw [scan_cons2 _ c c' cs d hc, lastRe_m G hG c hc.2 _ (tail_slash _),
        ih (by simp) (fun v hv => hcs v (List.mem_cons_of_mem _ hv))]
      simp

theorem dirRe_m (G : Re) (hG : SegRe G) (c : Str) (hc : ∀ x ∈ c, x ≠ '/' ∧ x ≠ '\n') (t : Str) (ht : Tail t) :
    (dirRe G).m (fun _ => true) (c ++ t) = (G.m (·.isEmpty) c && !t.isEmpty) := by
  simp only [dirRe, Re.m]
  have := seg_m G hG ((Re.chr (.lit '/')).m (fun _ => true))
    (by intro x b h1 h2; have e1 : (x == '/') = false := by simpa using h1
        simp [Re.m, CC.test, e1]) t ht c hc
  simp only [Re.m] at this
  rw [this]
  cases t with
  | nil => simp
  | cons x r => cases ht x r rfl; simp [CC.test]

theorem scan_dirRe (G : Re) (hG : SegRe G)
    (cs : List Str) (hne : cs ≠ []) (hcs : ∀ c ∈ cs, Comp c) (d : Bool) :
    scan ((dirRe G).m (fun _ => true)) cs d = (if d then cs else cs.dropLast).any (fun c => G.m (·.isEmpty) c) := by
  have hnil : (dirRe G).m (fun _ => true) [] = false := by
    have := dirRe_m G hG [] (by simp) [] tail_nil
    simpa using this
  induction cs with
  | nil => exact absurd rfl hne
  | cons c cs ih =>
    have hc := hcs c List.mem_cons_self
    cases cs with
    | nil =>
      cases d with
      | false =>
        rw [scan_single_file _ c hc]
        have := dirRe_m G hG c hc.2 [] tail_nil
        simp only [List.append_nil] at this
        simp [this]
      | true =>
        rw [scan_single_dir _ c hc, dirRe_m G hG c hc.2 _ (tail_slash _), hnil]
        simp
    | cons c' cs =>
      rw [scan_cons2 _ c c' cs d hc, dirRe_m G hG c hc.2 _ (tail_slash _),
        ih (by simp) (fun v hv => hcs v (List.mem_cons_of_mem _ hv))]
      cases d <;> simp

/-- the expression for a word of ordinary characters -/
def litRe : Str → Re
  | [] => .eps
  | c :: r => .seq (.chr (.lit c)) (litRe r)

/-- no character that `segGlob` treats specially -/
def NoMeta (n : Str) : Prop := ∀ c ∈ n, c ≠ '\\' ∧ c ≠ '*' ∧ c ≠ '?' ∧ c ≠ '['

theorem segGlob_litRe (n : Str) (hn : NoMeta n) : segGlob n = .ok (litRe n) := by
  induction n with
  | nil => rfl
  | cons c r ih =>
    rw [segGlob_lit c r (hn c List.mem_cons_self), ih (fun x hx => hn x (List.mem_cons_of_mem _ hx))]
    rfl

theorem litRe_m_isEmpty (n c : Str) : (litRe n).m (·.isEmpty) c = (c == n) := by
  induction n generalizing c with
  | nil => cases c <;> simp [litRe, Re.m]
  | cons a n ih => cases c <;> simp [litRe, Re.m, CC.test, ih]

theorem hits_lastRe (e : Bool) (G : Re) (hG : SegRe G)
    (hE : G.m (·.isEmpty) [] = true → ∀ c : Str, (∀ x ∈ c, x ≠ '/') → G.m (·.isEmpty) c = true)
    (cs : List Str) (hne : cs ≠ []) (hcs : ∀ c ∈ cs, Comp c) (d : Bool) :
    (Compiled.pat e true (.seq optPre (lastRe G))).hits (pathStr cs d) = cs.any (fun c => G.m (·.isEmpty) c) := by
  cases cs with
  | nil => exact absurd rfl hne
  | cons c cs =>
    simp only [Compiled.hits, Re.m]
    rw [optPre_path _ c cs d (hcs c List.mem_cons_self)]
    exact scan_lastRe G hG hE _ hne hcs d

theorem hits_dirRe (e : Bool) (G : Re) (hG : SegRe G)
    (cs : List Str) (hne : cs ≠ []) (hcs : ∀ c ∈ cs, Comp c) (d : Bool) :
    (Compiled.pat e true (.seq optPre (dirRe G))).hits (pathStr cs d) =
      (if d then cs else cs.dropLast).any (fun c => G.m (·.isEmpty) c) := by
  cases cs with
  | nil => exact absurd rfl hne
  | cons c cs =>
    simp only [Compiled.hits, Re.m]
    rw [optPre_path _ c cs d (hcs c List.mem_cons_self)]
    exact scan_dirRe G hG _ hne hcs d

/-! ### anchored patterns -/

/-- `(?:/|$)` -/
def endRe : Re := .alt (.chr (.lit '/')) .eol

/-- the translation of the segments `n₁/…/n_k` of ordinary words; `ns`: a slash is due first -/
def anchRe : List Str → Bool → Re
  | [], _ => .eps
  | n :: r, ns =>
    .seq (if ns then .chr (.lit '/') else .eps) (.seq (litRe n) (if r = [] then endRe else anchRe r true))

/-- a pattern word: ordinary characters only -/
def Word (n : Str) : Prop := n ≠ [] ∧ NoMeta n ∧ ∀ x ∈ n, x ≠ '/'

theorem Word.ne_dstar {n : Str} (h : Word n) : n ≠ dstar := by
  intro e; subst e; exact (h.2.1 '*' (by simp [dstar])).2.1 rfl

theorem Word.ne_star {n : Str} (h : Word n) : n ≠ ['*'] := by
  intro e; subst e; exact (h.2.1 '*' (by simp)).2.1 rfl

theorem transSegs_anch (isDir : Bool) (ns : List Str) (hw : ∀ n ∈ ns, Word n) (first needSlash : Bool) :
    transSegs isDir ns first needSlash = .ok (anchRe ns needSlash) := by
  induction ns generalizing first needSlash with
  | nil => rfl
  | cons n r ih =>
    have hn := hw n List.mem_cons_self
    rw [transSegs]
    simp only [if_neg hn.ne_dstar, if_neg hn.ne_star, segGlob_litRe n hn.2.1]
    by_cases hr : r = []
    · subst hr; simp [anchRe, endRe]
    · simp only [if_neg hr, ih (fun v hv => hw v (List.mem_cons_of_mem _ hv)), Except.map, anchRe]

theorem lastToStars_id (ns : List Str) (h : ∀ n ∈ ns, n ≠ []) : lastToStars ns = ns := by
  induction ns with
  | nil => rfl
  | cons a r ih =>
    cases r with
    | nil => simp [lastToStars, h a (by simp)]
    | cons b r => rw [lastToStars, ih (fun v hv => h v (List.mem_cons_of_mem _ hv))]; simp

theorem dedupStars_id (ns : List Str) (h : ∀ n ∈ ns, n ≠ dstar) : dedupStars ns = ns := by
  induction ns with
  | nil => rfl
  | cons a r ih =>
    rw [dedupStars, ih (fun v hv => h v (List.mem_cons_of_mem _ hv))]
    cases r with
    | nil => rfl
    | cons b r => simp [h a (by simp)]

theorem compileCore_anch (excl : Bool) (ns : List Str) (hne : ns ≠ []) (hw : ∀ n ∈ ns, Word n) :
    compileCore excl ('/' :: joinWith ['/'] ns) = .ok (.pat excl true (anchRe ns false)) := by
  have hsp : splitSlash ('/' :: joinWith ['/'] ns) = [] :: ns := by
    rw [splitSlash, if_pos rfl, splitSlash_joinWith ns hne (fun w hw' => (hw w hw').2.2)]
  have hlast : ([] :: ns).getLast? ≠ some [] := by
    rw [List.getLast?_cons_of_ne_nil hne]
    intro h
    exact (hw [] (List.mem_of_getLast? h)).1 rfl
  refine compileCore_of excl _ ns ns false _ ?_ ?_ hne ?_ ?_ ?_ ?_ (transSegs_anch false ns hw true false)
  · simp [hsp, hlast]
  · simp [hsp, normHead]
  · rw [lastToStars_id ns (fun n hn => (hw n hn).1), dedupStars_id ns (fun n hn => (hw n hn).ne_dstar)]
  · intro e; subst e; exact (hw dstar (by simp)).ne_dstar rfl
  · intro e; subst e; exact (hw dstar (by simp)).ne_dstar rfl
  · intro e; subst e; exact (hw dstar (by simp)).ne_dstar rfl

theorem Word.segRe {n : Str} (h : Word n) : SegRe (litRe n) :=
  segGlob_SegRe n h.2.2 _ (segGlob_litRe n h.2.1)

theorem anchRe_true_m (n : Str) (r : List Str) (k : Str → Bool) (s : Str) :
    (anchRe (n :: r) true).m k s = match s with
      | '/' :: t => (anchRe (n :: r) false).m k t
      | _ => false := by
  cases s with
  | nil => simp [anchRe, Re.m]
  | cons x t =>
    by_cases hx : x = '/'
    · subst hx; simp [anchRe, Re.m, CC.test]
    · have e : (x == '/') = false := by simpa using hx
      simp [anchRe, Re.m, CC.test, e]
      split
      · rename_i h; cases h; exact absurd rfl hx
      · rfl

theorem anchRe_false_nil (n : Str) (r : List Str) (hn : n ≠ []) (k : Str → Bool) :
    (anchRe (n :: r) false).m k [] = false := by
  cases n with
  | nil => exact absurd rfl hn
  | cons a n => simp [anchRe, Re.m, litRe]

theorem anchRe_false_m (n : Str) (r : List Str) (k : Str → Bool) (s : Str) :
    (anchRe (n :: r) false).m k s = (litRe n).m ((if r = [] then endRe else anchRe r true).m k) s := rfl

theorem anchRe_path (ns : List Str) (hne : ns ≠ []) (hw : ∀ n ∈ ns, Word n)
    (cs : List Str) (hce : cs ≠ []) (hcs : ∀ c ∈ cs, Comp c) (d : Bool) :
    (anchRe ns false).m (fun _ => true) (pathStr cs d) = decide (ns <+: cs) := by
  induction ns generalizing cs with
  | nil => exact absurd rfl hne
  | cons n r ih =>
    have hn := hw n List.mem_cons_self
    cases cs with
    | nil => exact absurd rfl hce
    | cons c cs' =>
      have hc := hcs c List.mem_cons_self
      -- the shape of the path: the first component and what follows
      have key : ∀ t, Tail t →
          (anchRe (n :: r) false).m (fun _ => true) (c ++ t) =
            ((c == n) && (if r = [] then true else match t with
              | '/' :: t' => (anchRe r false).m (fun _ => true) t'
              | _ => false)) := by
        intro t ht
        rw [anchRe_false_m]
        by_cases hr : r = []
        · subst hr
          simp only [if_true]
          rw [seg_m (litRe n) hn.segRe (endRe.m (fun _ => true)) endK_false t ht c hc.2, litRe_m_isEmpty]
          have := endK_tail t ht
          rw [show endRe.m (fun _ => true) t = true from this]
        · obtain ⟨n', r', rfl⟩ := List.exists_cons_of_ne_nil hr
          simp only [if_neg hr]
          have hK : ∀ x b, x ≠ '/' → x ≠ '\n' → (anchRe (n' :: r') true).m (fun _ => true) (x :: b) = false := by
            intro x b h1 _
            rw [anchRe_true_m]
            split
            · rename_i h; cases h; exact absurd rfl h1
            · rfl
          rw [seg_m (litRe n) hn.segRe ((anchRe (n' :: r') true).m (fun _ => true)) hK t ht c hc.2,
            litRe_m_isEmpty, anchRe_true_m]
      have hdec : decide (n :: r <+: c :: cs') = ((c == n) && decide (r <+: cs')) := by
        by_cases h : c = n
        · subst h; simp [List.cons_prefix_cons]
        · have e1 : (c == n) = false := beq_eq_false_iff_ne.2 h
          have e2 : ¬ n = c := fun h' => h h'.symm
          simp [List.cons_prefix_cons, e1, e2]
      rw [hdec]
      cases cs' with
      | nil =>
        by_cases hr : r = []
        · subst hr
          cases d with
          | false =>
            have := key [] tail_nil
            simp only [List.append_nil] at this
            rw [pathStr_single]; simpa using this
          | true => rw [pathStr_single]; simpa using key ['/'] (tail_slash _)
        · obtain ⟨n', r', rfl⟩ := List.exists_cons_of_ne_nil hr
          have hn' := hw n' (by simp)
          cases d with
          | false =>
            have := key [] tail_nil
            simp only [List.append_nil] at this
            rw [pathStr_single]; simpa using this
          | true =>
            rw [pathStr_single]
            simpa [anchRe_false_nil n' r' hn'.1] using key ['/'] (tail_slash _)
      | cons c' cs'' =>
        rw [pathStr_cons2, key _ (tail_slash _)]
        by_cases hr : r = []
        · subst hr; simp
        · simp only [if_neg hr]
          rw [ih hr (fun v hv => hw v (List.mem_cons_of_mem _ hv)) _ (by simp)
            (fun v hv => hcs v (List.mem_cons_of_mem _ hv))]

theorem joinWith_snoc (sep : Str) (ns : List Str) (l : Str) : ∃ pre, joinWith sep (ns ++ [l]) = pre ++ l := by
  induction ns with
  | nil => exact ⟨[], rfl⟩
  | cons x ns ih =>
    obtain ⟨pre, h⟩ := ih
    refine ⟨x ++ sep ++ pre, ?_⟩
    rw [List.cons_append, joinWith_cons_ne _ _ _ (by simp), h]; simp

theorem joinWith_getLast? (sep : Str) (ns : List Str) (hne : ns ≠ []) (hl : ns.getLast hne ≠ []) :
    (joinWith sep ns).getLast? = (ns.getLast hne).getLast? := by
  obtain ⟨pre, h⟩ := joinWith_snoc sep ns.dropLast (ns.getLast hne)
  rw [List.dropLast_concat_getLast hne] at h
  rw [h, List.getLast?_append]
  cases hx : (ns.getLast hne).getLast? with
  | none => simp at hx; exact absurd hx hl
  | some x => rfl

end Glob
end Cminx
