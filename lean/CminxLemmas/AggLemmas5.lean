import CminxLemmas.AggLemmas4
/-!
# Lemmas for T-agg, part 5: declarations completed by the definition that follows them
-/
namespace Cminx

theorem processCtTest_eq (st : AggState) (c : Call) (doc : Str) (isSection : Bool)
    (hl : 2 ≤ c.singles.length) (hn : nameOk c.singles = true) :
    processCtTest isSection st c.toCmd doc =
      { st with documented := st.documented ++
                  [.test isSection (nameOf c.singles).1 doc (c.singles.contains (lit "EXPECTFAIL")) [] false],
                awaiting := some (.entry st.documented.length) } := by
  unfold processCtTest
  have : ¬ c.singles.length < 2 := by omega
  simp only [Call.singles_toCmd, this, if_false, scanName_of_nameOk _ hn]
  rcases nameOf c.singles with ⟨name, k⟩
  simp [AggState.push]

theorem claim_entry (cfg : Cfg) (st : AggState) (e : Entry) (isMacro : Bool) (impl : Call) :
    claimDefinition cfg { st with documented := st.documented ++ [e],
                                  awaiting := some (.entry st.documented.length) }
        (.entry st.documented.length) isMacro impl.toCmd =
      { st with documented := st.documented ++ [defineEntry isMacro (impl.singles.drop 2) e],
                awaiting := none, defStack := none :: st.defStack } := by
  simp [claimDefinition, modify_append_len, Call.singles_toCmd]

/-- the implementing definition when no declaration entry awaits it: an ordinary undocumented definition -/
theorem decl_asDefinition (cfg : Cfg) (st : AggState) (impl : Call) (body : List Item) (c : Call)
    (ih : ItemsOK cfg body) (hinv : Inv st)
    (him : impl.lname = lit "function" ∨ impl.lname = lit "macro")
    (hcl : c.lname = lit "endfunction" ∨ c.lname = lit "endmacro")
    (hil : impl.singles.length ≥ 1) (hwb : itemsWf false body = true)
    (hk : cfg.inclCppClass = true ∨ itemsHaveDocumentedClass body = false) :
    (Event.cmd impl.toCmd :: (itemsEvents body ++ [.cmd c.toCmd])).foldlM (step cfg) st =
      .ok (post st false
        ((if (if impl.lname = lit "macro" then cfg.inclMacro else cfg.inclFunction) = true then
            { top := [defEntry cfg (decide (impl.lname = lit "macro")) none impl body] }
          else ({} : Contrib)) ++ itemsSpec cfg (ctxOf st.classStack) body)) := by
  have hb := itemOK_block cfg none impl body c ih false st hinv
    (by
      simp only [Item.wf, Bool.and_eq_true]
      refine ⟨⟨?_, ?_⟩, ?_⟩
      · rcases him with h | h <;> rcases hcl with h' | h' <;> rw [h, h'] <;> decide
      · simp [hil]
      · rcases him with h | h <;> simpa (decide := true) [h, isLoopName] using hwb)
    (by simp)
    (by
      rcases hk with hk | hk
      · exact Or.inl hk
      · right; simp [Item.hasDocumentedClass, hk])
  have hcpa : (Item.block none impl body c).cpaDirect = false := by
    rcases him with h | h <;> simp (decide := true) [Item.cpaDirect, h, isLoopName]
  have hspec : (Item.block none impl body c).spec cfg (ctxOf st.classStack) =
      (if (if impl.lname = lit "macro" then cfg.inclMacro else cfg.inclFunction) = true then
          { top := [defEntry cfg (decide (impl.lname = lit "macro")) none impl body] }
        else ({} : Contrib)) ++ itemsSpec cfg (ctxOf st.classStack) body := by
    rcases him with h | h <;> simp (decide := true) [Item.spec, h]
  rw [hcpa, hspec] at hb
  exact hb

/-- the implementing definition claimed by the declaration entry: completes the entry, then an anonymous
    frame on the definition stack -/
theorem decl_claimed (cfg : Cfg) (st s1 : AggState) (ref : AwaitRef) (own : Contrib) (impl : Call)
    (body : List Item) (c : Call) (ih : ItemsOK cfg body) (hinv : Inv st)
    (him : impl.lname = lit "function" ∨ impl.lname = lit "macro")
    (hcl : c.lname = lit "endfunction" ∨ c.lname = lit "endmacro")
    (hwb : itemsWf false body = true)
    (hk : cfg.inclCppClass = true ∨ itemsHaveDocumentedClass body = false)
    (haw : s1.awaiting = some ref)
    (hclaim : claimDefinition cfg s1 ref (decide (impl.lname = lit "macro")) impl.toCmd =
      { post st false own with defStack := none :: st.defStack }) :
    (Event.cmd impl.toCmd :: (itemsEvents body ++ [.cmd c.toCmd])).foldlM (step cfg) s1 =
      .ok (post st false (own ++ itemsSpec cfg (ctxOf st.classStack) body)) := by
  rw [foldlM_block, step_cmd, enterCommand_claim cfg s1 false impl.toCmd ref him haw, Call.lname_toCmd, hclaim,
    except_ok_bind]
  have hinv1 : Inv { post st false own with defStack := none :: st.defStack } := by
    have := (hinv.post false own).pushNone
    exact this
  rw [ih false _ hinv1 hwb (by simp) hk, except_ok_bind, step_cmd,
    enterCommand_endDef cfg _ false c.toCmd _ _ hcl rfl]
  refine congrArg Except.ok ?_
  exact wrapNone st hinv own _ _

theorem processCppMember_eq (st : AggState) (c : Call) (doc : Str) (isCtor : Bool) (ci : Nat) (cs)
    (hl : 2 ≤ c.singles.length) (hc : st.classStack = some ci :: cs) :
    processCppMember isCtor st c.toCmd doc =
      { st with documented := st.documented.modify ci (addMethod isCtor
                  { name := c.singles.headD [], doc := doc, parentClass := c.singles.getD 1 [],
                    paramTypes := c.singles.drop 2, params := [], isCtor := isCtor, isMacro := false }),
                awaiting := some (.method ci isCtor (methodCount isCtor (st.documented.getD ci default))) } := by
  unfold processCppMember
  rw [Call.singles_toCmd]
  rcases hs : c.singles with _ | ⟨a, _ | ⟨b, r⟩⟩
  · simp [hs] at hl
  · simp [hs] at hl
  · simp [hc]

theorem processCppMember_hidden (st : AggState) (c : Call) (doc : Str) (isCtor : Bool) (cs)
    (hl : 2 ≤ c.singles.length) (hc : st.classStack = none :: cs) :
    processCppMember isCtor st c.toCmd doc = st := by
  unfold processCppMember
  rw [Call.singles_toCmd]
  rcases hs : c.singles with _ | ⟨a, _ | ⟨b, r⟩⟩
  · simp [hs] at hl
  · simp [hs] at hl
  · simp [hc]

theorem claim_method (cfg : Cfg) (st : AggState) (md : Method) (isCtor isMacro : Bool) (ci : Nat) (impl : Call) :
    claimDefinition cfg
        { st with documented := st.documented.modify ci (addMethod isCtor md),
                  awaiting := some (.method ci isCtor (methodCount isCtor (st.documented.getD ci default))) }
        (.method ci isCtor (methodCount isCtor (st.documented.getD ci default))) isMacro impl.toCmd =
      { st with documented := st.documented.modify ci
                  (addMethod isCtor (md.define isMacro ((impl.singles.map cfg.stripMember).drop 2))),
                awaiting := none, defStack := none :: st.defStack } := by
  simp only [claimDefinition, Call.singles_toCmd, List.modify_modify_eq, AggState.mk.injEq, and_true]
  apply modify_congr_at
  intro x hx
  have : st.documented.getD ci default = x := by simp [List.getD, hx]
  simp only [Function.comp, this, defineMethodIn_addMethod]

theorem itemOK_decl (cfg : Cfg) (doc : Option DocC) (d impl : Call) (body : List Item) (c : Call)
    (ih : ItemsOK cfg body) : ItemOK cfg (.decl doc d impl body c) := by
  intro inClass st hinv hwf hcls hk
  simp only [Item.wf, Bool.and_eq_true, Bool.or_eq_true, decide_eq_true_eq] at hwf
  obtain ⟨⟨⟨⟨⟨hn, him⟩, hcl⟩, hil⟩, hif⟩, hwb⟩ := hwf
  have hkb : cfg.inclCppClass = true ∨ itemsHaveDocumentedClass body = false := by
    simpa [Item.hasDocumentedClass] using hk
  have hcpa : (Item.decl doc d impl body c).cpaDirect = false := by simp [Item.cpaDirect]
  rw [Item.events, List.foldlM_cons, hcpa]
  simp only [Item.spec]
  by_cases htest : d.lname = lit "ct_add_test" ∨ d.lname = lit "ct_add_section"
  · -- ct_add_test / ct_add_section
    have hfacts : specialNames.contains d.lname = false ∧ d.lname ≠ lit "set" ∧
        ¬ (d.lname = lit "cpp_member" ∨ d.lname = lit "cpp_constructor") := by
      rcases htest with h | h <;> rw [h] <;> decide
    obtain ⟨hs, hset, hnm⟩ := hfacts
    have hd2 : 2 ≤ d.singles.length ∧ nameOk d.singles = true := by simpa [hnm] using hif
    have hstep : step cfg st (docEvent doc d) =
        .ok (if doc.isSome || (if d.lname = lit "ct_add_section" then cfg.inclCtAddSection else cfg.inclCtAddTest)
             then processCtTest (decide (d.lname = lit "ct_add_section")) st d.toCmd (docTextOf doc) else st) := by
      rcases htest with h | h
      · have := step_proc cfg st doc d .ctAddTest cfg.inclCtAddTest
          (fun st doc => processCtTest false st d.toCmd doc) hs hset (by rw [h]; decide) rfl (fun _ _ => rfl)
        simpa (decide := true) [h] using this
      · have := step_proc cfg st doc d .ctAddSection cfg.inclCtAddSection
          (fun st doc => processCtTest true st d.toCmd doc) hs hset (by rw [h]; decide) rfl (fun _ _ => rfl)
        simpa (decide := true) [h] using this
    rw [hstep]
    have htestb : (decide (d.lname = lit "ct_add_test") || decide (d.lname = lit "ct_add_section")) = true := by
      simpa using htest
    simp only [htestb, if_true]
    by_cases hd : (doc.isSome ||
        (if d.lname = lit "ct_add_section" then cfg.inclCtAddSection else cfg.inclCtAddTest)) = true
    · simp only [hd, if_true, except_ok_bind]
      rw [processCtTest_eq st d _ _ hd2.1 hd2.2]
      refine decl_claimed cfg st _ (.entry st.documented.length) _ impl body c ih hinv him hcl hwb hkb rfl ?_
      rw [claim_entry]
      simp [post_top, defineEntry, hinv.aw]
    · have hd' : (doc.isSome ||
          (if d.lname = lit "ct_add_section" then cfg.inclCtAddSection else cfg.inclCtAddTest)) = false := by
        simpa using hd
      simp only [hd', Bool.false_eq_true, if_false, except_ok_bind]
      exact decl_asDefinition cfg st impl body c ih hinv him hcl (by simpa using hil) hwb hkb
  · -- cpp_member / cpp_constructor
    have hmem : d.lname = lit "cpp_member" ∨ d.lname = lit "cpp_constructor" := by
      rcases hn with ((h | h) | h) | h
      · exact Or.inl h
      · exact Or.inr h
      · exact absurd (Or.inl h) htest
      · exact absurd (Or.inr h) htest
    have hfacts : specialNames.contains d.lname = false ∧ d.lname ≠ lit "set" := by
      rcases hmem with h | h <;> rw [h] <;> decide
    obtain ⟨hs, hset⟩ := hfacts
    have hd2 : 2 ≤ d.singles.length ∧ inClass = true := by simpa [hmem] using hif
    have hstep : step cfg st (docEvent doc d) =
        .ok (if doc.isSome || (if d.lname = lit "cpp_constructor" then cfg.inclCppConstructor else cfg.inclCppMember)
             then processCppMember (decide (d.lname = lit "cpp_constructor")) st d.toCmd (docTextOf doc)
             else st) := by
      rcases hmem with h | h
      · have := step_proc cfg st doc d .cppMember cfg.inclCppMember
          (fun st doc => processCppMember false st d.toCmd doc) hs hset (by rw [h]; decide) rfl (fun _ _ => rfl)
        simpa (decide := true) [h] using this
      · have := step_proc cfg st doc d .cppConstructor cfg.inclCppConstructor
          (fun st doc => processCppMember true st d.toCmd doc) hs hset (by rw [h]; decide) rfl (fun _ _ => rfl)
        simpa (decide := true) [h] using this
    rw [hstep]
    have htestb : (decide (d.lname = lit "ct_add_test") || decide (d.lname = lit "ct_add_section")) = false := by
      simpa using htest
    simp only [htestb, Bool.false_eq_true, if_false]
    obtain ⟨x, cs, hcs⟩ : ∃ x cs, st.classStack = x :: cs := by
      cases h : st.classStack with
      | nil => exact absurd h (hcls hd2.2)
      | cons x cs => exact ⟨x, cs, rfl⟩
    by_cases hd : (doc.isSome ||
        (if d.lname = lit "cpp_constructor" then cfg.inclCppConstructor else cfg.inclCppMember)) = true
    · cases x with
      | none =>
        have hctx : ctxOf st.classStack = .hidden := by rw [hcs]; rfl
        simp only [hd, if_true, except_ok_bind, processCppMember_hidden st d _ _ cs hd2.1 hcs]
        simp (decide := true) only [hctx, if_false]
        exact hctx ▸ decl_asDefinition cfg st impl body c ih hinv him hcl (by simpa using hil) hwb hkb
      | some ci =>
        have hctx : ctxOf st.classStack = .shown := by rw [hcs]; rfl
        simp only [hd, if_true, except_ok_bind, processCppMember_eq st d _ _ ci cs hd2.1 hcs]
        simp (decide := true) only [hctx, if_true]
        refine hctx ▸ decl_claimed cfg st _ _ _ impl body c ih hinv him hcl hwb hkb rfl ?_
        rw [claim_method]
        obtain ⟨dd, cls, aw, ds, er⟩ := st
        have haw := hinv.aw
        simp only at hcs haw
        subst hcs haw
        by_cases hct : d.lname = lit "cpp_constructor" <;>
          simp [hct, post, absorb, absorbCls, addMethod_eq, Method.define]
    · have hd' : (doc.isSome ||
          (if d.lname = lit "cpp_constructor" then cfg.inclCppConstructor else cfg.inclCppMember)) = false := by
        simpa using hd
      simp only [hd', Bool.false_eq_true, if_false, except_ok_bind, Bool.and_false]
      exact decl_asDefinition cfg st impl body c ih hinv him hcl (by simpa using hil) hwb hkb

/-! ## the induction -/

theorem itemOK_dangling (cfg : Cfg) (d : DocC) : ItemOK cfg (.dangling d) := by
  intro inClass st _ _ _ _
  rw [Item.events, foldlM_single]
  simp only [Item.cpaDirect, Item.spec, post_empty]
  rfl

theorem itemsOK_nil (cfg : Cfg) : ItemsOK cfg [] := by
  intro inClass st _ _ _ _
  simp only [itemsEvents, itemsCpaDirect, itemsSpec, post_empty]
  rfl

theorem itemsOK_cons (cfg : Cfg) (i : Item) (is : List Item) (h1 : ItemOK cfg i) (h2 : ItemsOK cfg is) :
    ItemsOK cfg (i :: is) := by
  intro inClass st hinv hwf hcls hk
  simp only [itemsWf, Bool.and_eq_true] at hwf
  have hk1 : cfg.inclCppClass = true ∨ i.hasDocumentedClass = false := by
    rcases hk with hk | hk
    · exact Or.inl hk
    · simp only [itemsHaveDocumentedClass, Bool.or_eq_false_iff] at hk; exact Or.inr hk.1
  have hk2 : cfg.inclCppClass = true ∨ itemsHaveDocumentedClass is = false := by
    rcases hk with hk | hk
    · exact Or.inl hk
    · simp only [itemsHaveDocumentedClass, Bool.or_eq_false_iff] at hk; exact Or.inr hk.2
  rw [itemsEvents, List.foldlM_append, h1 inClass st hinv hwf.1 hcls hk1, except_ok_bind,
    h2 inClass _ (hinv.post _ _) hwf.2 hcls hk2, post_post hinv]
  rfl

mutual
theorem itemOK_all (cfg : Cfg) : (it : Item) → ItemOK cfg it
  | .cmd doc call => itemOK_cmd cfg doc call
  | .block doc o body c => itemOK_block cfg doc o body c (itemsOK_all cfg body)
  | .decl doc d i body c => itemOK_decl cfg doc d i body c (itemsOK_all cfg body)
  | .dangling d => itemOK_dangling cfg d
theorem itemsOK_all (cfg : Cfg) : (items : List Item) → ItemsOK cfg items
  | [] => itemsOK_nil cfg
  | i :: is => itemsOK_cons cfg i is (itemOK_all cfg i) (itemsOK_all cfg is)
end

end Cminx
