import CminxModel.Parse
/-!
# Helper lemmas about the parser model (`CminxModel/Parse.lean`)

`parseFold` is a fold, so it is compositional (`parseFold_append`); the nesting depth of the mode moves with
the parentheses (`parseStep_depth`, `parseFold_depth`).
-/
namespace Cminx

/-- number of currently open parentheses -/
def PMode.depth : PMode → Nat
  | .top _ => 0
  | .afterIdent _ _ => 0
  | .inArgs _ _ stack _ => stack.length + 1

theorem parseFold_append (st : PState) (a b : List Tok) :
    parseFold st (a ++ b) = (parseFold st a).bind (parseFold · b) := by
  induction a generalizing st with
  | nil => simp [parseFold]
  | cons t a ih =>
    simp only [List.cons_append, parseFold]
    cases parseStep st t with
    | none => simp
    | some st' => simp [ih]

theorem parseStep_depth {st st' : PState} {t : Tok} (h : parseStep st t = some st') :
    st'.mode.depth + (if t.kind = .rparen then 1 else 0) =
      st.mode.depth + (if t.kind = .lparen then 1 else 0) := by
  obtain ⟨mode, events, atStart⟩ := st
  obtain ⟨kind, text⟩ := t
  cases mode with
  | top p =>
    cases kind <;> simp [parseStep] at h
    · obtain ⟨_, rfl⟩ := h; simp [PMode.depth]
    · subst h; simp [PMode.depth]
    · subst h; simp [PMode.depth]
  | afterIdent p name =>
    cases kind <;> simp [parseStep] at h
    subst h; simp [PMode.depth]
  | inArgs p name stack cur =>
    cases kind <;> simp [parseStep, TokKind.isArg] at h
    all_goals first
      | (subst h; simp [PMode.depth]; done)
      | (cases stack <;> simp at h <;> subst h <;> simp [PMode.depth])

theorem parseFold_depth {st st' : PState} {ts : List Tok} (h : parseFold st ts = some st') :
    st'.mode.depth + ts.countP (·.kind == .rparen) = st.mode.depth + ts.countP (·.kind == .lparen) := by
  induction ts generalizing st with
  | nil => simp [parseFold] at h; subst h; simp
  | cons t ts ih =>
    simp only [parseFold] at h
    cases hs : parseStep st t with
    | none => simp [hs] at h
    | some st₁ =>
      simp only [hs, Option.bind_some] at h
      have h1 := parseStep_depth hs
      have h2 := ih h
      simp only [List.countP_cons, beq_iff_eq]
      omega

/-- more `)` than `(` in some prefix (counting the parentheses already open) is always a syntax error -/
theorem parseFold_extra_rparen (st : PState) (ts : List Tok) (i : Nat)
    (h : st.mode.depth + (ts.take i).countP (·.kind == .lparen) < (ts.take i).countP (·.kind == .rparen)) :
    parseFold st ts = none := by
  rw [← List.take_append_drop i ts, parseFold_append]
  cases hp : parseFold st (ts.take i) with
  | none => rfl
  | some st' =>
    have := parseFold_depth hp
    omega

/-- a successful `parse` ends in mode `top` -/
theorem parse_some {ts : List Tok} {evs : List Event} (h : parse ts = some evs) :
    ∃ pending events atStart, parseFold {} ts = some { mode := .top pending, events := events, atStart := atStart } ∧
      evs = (match pending with | some _ => Event.dangling :: events | none => events).reverse := by
  unfold parse at h
  split at h
  · rename_i pending events atStart hp
    exact ⟨pending, events, atStart, hp, (Option.some.inj h).symm⟩
  · cases h

theorem parse_none_of_fold_none {ts : List Tok} (h : parseFold {} ts = none) : parse ts = none := by
  unfold parse; rw [h]

theorem parse_none_of_mode {ts : List Tok} {st : PState} (h : parseFold {} ts = some st)
    (hm : ∀ p, st.mode ≠ .top p) : parse ts = none := by
  cases hp : parse ts with
  | none => rfl
  | some evs =>
    obtain ⟨p, ev, a, hf, -⟩ := parse_some hp
    rw [h] at hf
    cases hf
    exact absurd rfl (hm p)

end Cminx
