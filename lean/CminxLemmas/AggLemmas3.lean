import CminxLemmas.AggLemmas2
/-!
# Lemmas for T-agg, part 3: single commands
-/
namespace Cminx

/-- the class context the class stack encodes -/
def ctxOf : List (Option Nat) → ClsCtx
  | [] => .none
  | none :: _ => .hidden
  | some _ :: _ => .shown

/-- the refinement statement for a list of items, for every state between two items -/
def ItemsOK (cfg : Cfg) (items : List Item) : Prop :=
  ∀ (inClass : Bool) (st : AggState), Inv st → itemsWf inClass items = true →
    (inClass = true → st.classStack ≠ []) →
    (cfg.inclCppClass = true ∨ itemsHaveDocumentedClass items = false) →
    (itemsEvents items).foldlM (step cfg) st =
      .ok (post st (itemsCpaDirect items) (itemsSpec cfg (ctxOf st.classStack) items))

def ItemOK (cfg : Cfg) (it : Item) : Prop :=
  ∀ (inClass : Bool) (st : AggState), Inv st → it.wf inClass = true →
    (inClass = true → st.classStack ≠ []) →
    (cfg.inclCppClass = true ∨ it.hasDocumentedClass = false) →
    it.events.foldlM (step cfg) st =
      .ok (post st it.cpaDirect (it.spec cfg (ctxOf st.classStack)))

theorem foldlM_single (cfg : Cfg) (st : AggState) (e : Event) :
    [e].foldlM (step cfg) st = step cfg st e := by
  simp only [List.foldlM_cons, List.foldlM_nil]
  cases step cfg st e <;> rfl

theorem post_top (st : AggState) (t : List Entry) :
    post st false { top := t } = { st with documented := st.documented ++ t } := by
  simp [post, absorb, absorbCls_of_empty]

theorem structuralNames_contains (n : Str) : structuralNames.contains n = false ↔
    n ≠ lit "function" ∧ n ≠ lit "macro" ∧ n ≠ lit "endfunction" ∧ n ≠ lit "endmacro" ∧ n ≠ lit "cpp_class" ∧
    n ≠ lit "cpp_end_class" ∧ n ≠ lit "cpp_member" ∧ n ≠ lit "cpp_constructor" ∧ n ≠ lit "ct_add_test" ∧
    n ≠ lit "ct_add_section" ∧ n ≠ lit "if" ∧ n ≠ lit "foreach" ∧ n ≠ lit "while" ∧ n ≠ lit "endif" ∧
    n ≠ lit "endforeach" ∧ n ≠ lit "endwhile" := by
  simp [structuralNames]

theorem scanName_isSome (s : List Str) (i : Nat) (acc : Str × Option Nat)
    (h : s.getLast? ≠ some (lit "NAME")) : ∃ r, scanName s i acc = some r := by
  induction s generalizing i acc with
  | nil => exact ⟨acc, rfl⟩
  | cons p rest ih =>
    unfold scanName
    split
    · rename_i hp
      cases rest with
      | nil => simp [hp] at h
      | cons nm r => exact ih _ _ (by simpa [List.getLast?_cons_cons] using h)
    · cases rest with
      | nil => exact ⟨acc, by simp [scanName]⟩
      | cons nm r => exact ih _ _ (by simpa [List.getLast?_cons_cons] using h)

theorem scanName_of_nameOk (s : List Str) (h : nameOk s = true) :
    scanName s 0 ([], none) = some (nameOf s) := by
  have : s.getLast? ≠ some (lit "NAME") := by
    simp [nameOk] at h; exact h.2
  obtain ⟨r, hr⟩ := scanName_isSome s 0 ([], none) this
  simp [nameOf, hr]

theorem itemOK_cmd (cfg : Cfg) (doc : Option DocC) (call : Call) : ItemOK cfg (.cmd doc call) := by
  intro inClass st hinv hwf hcls _
  rw [Item.events, foldlM_single]
  simp [Item.wf, structuralNames] at hwf
  obtain ⟨⟨⟨⟨⟨hstruct, hgen⟩, hwset⟩, hwopt⟩, hwattr⟩, hwtest⟩ := hwf
  have hspecial : specialNames.contains call.lname = false ∨ call.lname = lit "cmake_parse_arguments" := by
    by_cases h : call.lname = lit "cmake_parse_arguments"
    · exact Or.inr h
    · left; simp [specialNames, hstruct, h]
  by_cases hset : call.lname = lit "set"
  · -- set
    rw [step_set cfg st doc call hset]
    have hl : 1 ≤ call.singles.length := by simpa [hset] using hwset
    simp (decide := true) only [Item.cpaDirect, Item.spec, hset, if_true]
    cases doc with
    | none => simp [post_empty]
    | some d =>
      simp only [Option.isSome_some, if_true, processSet, Call.singles_toCmd, docTextOf]
      rcases hc : call.singles with _ | ⟨a, _ | ⟨b, _ | ⟨c, r⟩⟩⟩ <;> simp [hc, post_top, AggState.push] at hl ⊢
  by_cases hopt : call.lname = lit "option"
  · -- option
    have hs : specialNames.contains call.lname = false := by rw [hopt]; decide
    rw [step_proc cfg st doc call .option cfg.inclOption (fun st doc => processOption st call.toCmd doc) hs hset
      (by rw [hopt]; decide) rfl (fun _ _ => rfl)]
    have hl : 2 ≤ call.singles.length ∧ call.singles.length ≤ 3 := by simpa [hopt] using hwopt
    simp (decide := true) only [Item.cpaDirect, Item.spec, hopt, if_true, if_false]
    by_cases hd : (doc.isSome || cfg.inclOption) = true
    · simp only [hd, if_true, processOption, Call.singles_toCmd]
      rcases hc : call.singles with _ | ⟨a, _ | ⟨b, _ | ⟨c, _ | ⟨e, r⟩⟩⟩⟩ <;>
        simp [hc, AggState.push, post_top] at hl ⊢
    · simp [hd, post_empty]
  by_cases htest : call.lname = lit "add_test"
  · -- add_test
    have hs : specialNames.contains call.lname = false := by rw [htest]; decide
    rw [step_proc cfg st doc call .addTest cfg.inclAddTest (fun st doc => processAddTest st call.toCmd doc) hs hset
      (by rw [htest]; decide) rfl (fun _ _ => rfl)]
    have hl : 2 ≤ (argTexts call.toCmd.args).length ∧ nameOk (argTexts call.toCmd.args) = true := by
      simpa [htest, Call.allTexts] using hwtest
    simp (decide := true) only [Item.cpaDirect, Item.spec, htest, if_true, if_false]
    by_cases hd : (doc.isSome || cfg.inclAddTest) = true
    · simp only [hd, if_true, processAddTest, Call.allTexts, scanName_of_nameOk _ hl.2]
      have : ¬ (argTexts call.toCmd.args).length < 2 := by omega
      simp only [this, if_false, ctestParams]
      rcases nameOf (argTexts call.toCmd.args) with ⟨name, _ | k⟩ <;> simp [AggState.push, post_top]
    · simp [hd, post_empty]
  by_cases hattr : call.lname = lit "cpp_attr"
  · -- cpp_attr
    have hs : specialNames.contains call.lname = false := by rw [hattr]; decide
    rw [step_proc cfg st doc call .cppAttr cfg.inclCppAttr (fun st doc => processCppAttr st call.toCmd doc) hs hset
      (by rw [hattr]; decide) rfl (fun _ _ => rfl)]
    have hl : 2 ≤ call.singles.length ∧ inClass = true := by simpa [hattr] using hwattr
    have hne := hcls hl.2
    simp (decide := true) only [Item.cpaDirect, Item.spec, hattr, if_true, if_false]
    obtain ⟨d, cs, aw, ds, er⟩ := st
    rcases hc : call.singles with _ | ⟨a, _ | ⟨b, r⟩⟩
    · simp [hc] at hl
    · simp [hc] at hl
    rcases cs with _ | ⟨_ | j, cs⟩
    · simp at hne
    · simp [ctxOf, post_empty, processCppAttr, Call.singles_toCmd, hc]
    · by_cases hd : (doc.isSome || cfg.inclCppAttr) = true
      · simp [ctxOf, hd, processCppAttr, Call.singles_toCmd, hc, post, absorb, absorbCls, addAttr_eq, List.head?_eq_getElem?]
      · simp [hd, post_empty]
  by_cases hcpa : call.lname = lit "cmake_parse_arguments"
  · -- cmake_parse_arguments
    rw [step_cpa cfg st doc call hcpa, processCpa_eq]
    simp (decide := true) [Item.cpaDirect, Item.spec, hcpa, post, absorb, absorbCls_of_empty]
  · -- anything else
    have hs : specialNames.contains call.lname = false := by
      rcases hspecial with h | h
      · exact h
      · exact absurd h hcpa
    have hp : procOf call.lname = none := by
      simp [procOf, hstruct, hgen, hset, hopt, htest, hattr, hcpa]
    rw [step_generic cfg st doc call hs hp]
    simp only [Item.cpaDirect, Item.spec, hset, hopt, htest, hattr, hcpa, if_false]
    cases doc <;> simp [post_top, AggState.push]

end Cminx
