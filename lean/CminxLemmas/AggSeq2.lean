import CminxLemmas.AggSeq
/-!
# Lemmas for T-aggS, part 2: blocks, and the declaration written as a single command
-/
namespace Cminx

/-- the refinement statement for a body (bodies start with nothing awaiting a definition) -/
def BodyOKS (cfg : Cfg) (items : List Item) : Prop :=
  ∀ (inClass : Bool) (st : AggState), Inv st → itemsWfS inClass false items = true →
    (inClass = true → st.classStack ≠ []) →
    (cfg.inclCppClass = true ∨ itemsHaveDocumentedClass items = false) →
    (itemsEvents items).foldlM (step cfg) st =
      .ok (post st (itemsCpaDirect items) (itemsSpecS cfg (ctxOf st.classStack) false items))

theorem seq_isDefName_iff (n : Str) : isDefName n = true ↔ n = lit "function" ∨ n = lit "macro" := by
  simp [isDefName]

theorem seq_isDeclName_iff (n : Str) : isDeclName n = true ↔
    n = lit "cpp_member" ∨ n = lit "cpp_constructor" ∨ n = lit "ct_add_test" ∨ n = lit "ct_add_section" := by
  simp [isDeclName, or_assoc]

/-! ## blocks when nothing awaits a definition: `itemOK_block` over the new specification -/

theorem seq_block_ok (cfg : Cfg) (doc : Option DocC) (o : Call) (body : List Item) (c : Call) (impl : Option Call)
    (ih : BodyOKS cfg body) (inClass p : Bool) (st : AggState) (hinv : Inv st)
    (hwf : (Item.block doc o body c).wfS inClass p = true)
    (hcls : inClass = true → st.classStack ≠ [])
    (hk : cfg.inclCppClass = true ∨ (Item.block doc o body c).hasDocumentedClass = false) :
    (Item.block doc o body c).events.foldlM (step cfg) st =
      .ok (post st (Item.block doc o body c).cpaDirect
        ((Item.block doc o body c).specS cfg (ctxOf st.classStack) false impl)) := by
  simp only [Item.wfS, Bool.and_eq_true] at hwf
  obtain ⟨⟨⟨_, hclose⟩, hlen⟩, hwb⟩ := hwf
  have hkb : cfg.inclCppClass = true ∨ itemsHaveDocumentedClass body = false := by
    rcases hk with hk | hk
    · exact Or.inl hk
    · simp only [Item.hasDocumentedClass, Bool.or_eq_false_iff] at hk; exact Or.inr hk.2
  rw [Item.events, foldlM_block]
  rcases closerFor_cases _ _ hclose with ⟨hn, hc⟩ | ⟨hn, hc⟩ | hloop
  · -- function / macro
    have hl : o.singles.length ≥ 1 := by
      rcases hn with hn | hn <;> simpa (decide := true) [hn] using hlen
    have hwb' : itemsWfS false false body = true := by
      rcases hn with hn | hn <;> simpa (decide := true) [hn, isLoopName] using hwb
    have hcpa : (Item.block doc o body c).cpaDirect = false := by
      rcases hn with hn | hn <;> simp (decide := true) [Item.cpaDirect, hn, isLoopName]
    have hspec : (Item.block doc o body c).specS cfg (ctxOf st.classStack) false impl =
        (if doc.isSome || (if o.lname = lit "macro" then cfg.inclMacro else cfg.inclFunction) then
           { top := [defEntry cfg (o.lname = lit "macro") doc o body] } else ({} : Contrib)) ++
          itemsSpecS cfg (ctxOf st.classStack) false body := by
      rcases hn with hn | hn <;> simp (decide := true) [Item.specS, hn]
    rw [step_def cfg st doc o hn hinv.aw hl, hcpa, hspec]
    by_cases hd : (doc.isSome || (if o.lname = lit "macro" then cfg.inclMacro else cfg.inclFunction)) = true
    · simp only [hd, if_true, except_ok_bind]
      rw [ih false _ (hinv.pushDef _) hwb' (by simp) hkb, except_ok_bind, step_cmd,
        enterCommand_endDef cfg _ false c.toCmd _ _ hc rfl]
      refine congrArg Except.ok ?_
      exact (wrapSome st hinv _ _ _).trans (by rw [defEntry_eq])
    · have hd' : (doc.isSome || (if o.lname = lit "macro" then cfg.inclMacro else cfg.inclFunction)) = false := by
        simpa using hd
      simp only [hd', Bool.false_eq_true, if_false, except_ok_bind]
      rw [ih false _ hinv.pushNone hwb' (by simp) hkb, except_ok_bind, step_cmd,
        enterCommand_endDef cfg _ false c.toCmd _ _ hc rfl]
      have := wrapNone st hinv {} (itemsCpaDirect body) (itemsSpecS cfg (ctxOf st.classStack) false body)
      rw [post_empty] at this
      refine congrArg Except.ok ?_
      exact this.trans (by simp)
  · -- cpp_class
    have hl : o.singles.length ≥ 1 := by simpa (decide := true) [hn] using hlen
    have hwb' : itemsWfS true false body = true := by simpa (decide := true) [hn] using hwb
    have hcpa : (Item.block doc o body c).cpaDirect = itemsCpaDirect body := by
      simp (decide := true) [Item.cpaDirect, hn, isLoopName]
    rw [hcpa]
    by_cases hshow : (doc.isSome || cfg.inclCppClass) = true
    · have hflag : cfg.inclCppClass = true := by
        rcases hk with hk | hk
        · exact hk
        · simp only [Item.hasDocumentedClass, Bool.or_eq_false_iff, hn, decide_true, Bool.true_and] at hk
          simpa [hk.1] using hshow
      have hspec : (Item.block doc o body c).specS cfg (ctxOf st.classStack) false impl =
          { top := .cls (o.singles.headD []) (docTextOf doc) (o.singles.drop 1)
                     (itemsSpecS cfg .shown false body).inner (itemsSpecS cfg .shown false body).ctors
                     (itemsSpecS cfg .shown false body).members (itemsSpecS cfg .shown false body).attrs ::
                     (itemsSpecS cfg .shown false body).top,
            inner := if ctxOf st.classStack = .shown then [o.singles.headD []] else [] } := by
        simp (decide := true) [Item.specS, hn, hshow]
      rw [step_class_shown cfg st doc o hn hflag, processCppClass_eq st o _ hl, except_ok_bind,
        ih true _ (hinv.pushCls _ _) hwb' (by simp) hkb, except_ok_bind, step_cmd,
        enterCommand_endClass cfg _ false c.toCmd _ _ hc rfl, hspec]
      refine congrArg Except.ok ?_
      exact wrapCls st hinv _ _ _ _ _
    · have hshow' : doc.isSome = false ∧ cfg.inclCppClass = false := by simpa using hshow
      have hspec : (Item.block doc o body c).specS cfg (ctxOf st.classStack) false impl =
          { top := (itemsSpecS cfg .hidden false body).top } := by
        simp (decide := true) [Item.specS, hn, hshow'.1, hshow'.2]
      have hdoc : doc = none := by
        cases doc
        · rfl
        · simp at hshow'
      subst hdoc
      rw [step_docEvent]
      simp only []
      rw [enterCommand_class_hidden cfg st false o.toCmd hn hshow'.2, except_ok_bind,
        ih true _ hinv.pushClsNone hwb' (by simp) hkb, except_ok_bind, step_cmd,
        enterCommand_endClass cfg _ false c.toCmd _ _ hc rfl, hspec]
      refine congrArg Except.ok ?_
      exact wrapClsHidden st _ _
  · -- if / foreach / while
    have hfacts : isLoopName o.lname = true ∧ specialNames.contains o.lname = false ∧ procOf o.lname = none ∧
        specialNames.contains c.lname = false ∧ procOf c.lname = none ∧ o.lname ≠ lit "function" ∧
        o.lname ≠ lit "macro" ∧ o.lname ≠ lit "cpp_class" := by
      rcases hloop with ⟨h1, h2⟩ | ⟨h1, h2⟩ | ⟨h1, h2⟩ <;> rw [h1, h2] <;> decide
    obtain ⟨hloopn, hs, hp, hsc, hpc, hnf, hnm, hncl⟩ := hfacts
    have hwb' : itemsWfS inClass false body = true := by simpa [hncl, hloopn] using hwb
    have hcpa : (Item.block doc o body c).cpaDirect = itemsCpaDirect body := by
      simp [Item.cpaDirect, hloopn]
    have hspec : (Item.block doc o body c).specS cfg (ctxOf st.classStack) false impl =
        (if doc.isSome then { top := [.generic o.lname (docTextOf doc) (argTexts o.toCmd.args)] }
          else ({} : Contrib)) ++ itemsSpecS cfg (ctxOf st.classStack) false body := by
      simp [Item.specS, hnf, hnm, hncl]
    have h1 : (if doc.isSome then st.push (.generic o.lname (docTextOf doc) (argTexts o.toCmd.args)) else st) =
        post st false (if doc.isSome then { top := [.generic o.lname (docTextOf doc) (argTexts o.toCmd.args)] }
          else ({} : Contrib)) := by
      cases doc <;> simp [post_top, AggState.push]
    rw [step_generic cfg st doc o hs hp, h1, except_ok_bind, ih inClass _ (hinv.post _ _) hwb' hcls hkb,
      except_ok_bind, step_cmd, enterCommand_plain cfg _ false c.toCmd hsc (Or.inr (Or.inr hpc)),
      post_post hinv, hcpa, hspec]
    simp

/-! ## the definition that is claimed by the awaiting declaration -/

/-- the claiming branch for a definition that carries a doccomment of its own: no second stack entry
    (`enterCommand_claim_consumed` of `CminxProps/C03Impl.lean`) -/
theorem seq_enterCommand_claim_consumed (cfg : Cfg) (st : AggState) (cmd : Cmd) (ref : AwaitRef)
    (h : asciiLower cmd.name = lit "function" ∨ asciiLower cmd.name = lit "macro")
    (ha : st.awaiting = some ref) :
    enterCommand cfg st true cmd =
      .ok { claimDefinition cfg st ref (asciiLower cmd.name = lit "macro") cmd with defStack := st.defStack } := by
  unfold enterCommand
  rcases h with h | h <;> simp (decide := true) [h, ha]

/-- a documented definition has stored its entry; the claim then completes the awaiting one underneath -/
theorem seq_claim_pushed (cfg : Cfg) (s : AggState) (ref : AwaitRef) (o : Call) (e : Entry)
    (hr : ref.inRange s.documented.length) (S : AggState) (hS : S = claimed cfg s ref (some o)) :
    { claimDefinition cfg { s with documented := s.documented ++ [e],
                                   defStack := some s.documented.length :: s.defStack }
        ref (decide (o.lname = lit "macro")) o.toCmd with
      defStack := some s.documented.length :: s.defStack } =
    { S with documented := S.documented ++ [e], defStack := some S.documented.length :: S.defStack } := by
  subst hS
  rw [seq_claimDefinition_eq cfg _ ref o _ rfl]
  simp [claimed, seq_claimMod_append cfg ref (some o) s.documented e hr]

theorem seq_block_claimed (cfg : Cfg) (doc : Option DocC) (o : Call) (body : List Item) (c : Call)
    (impl : Option Call) (ih : BodyOKS cfg body) (inClass : Bool) (s : AggState) (ref : AwaitRef)
    (hinv : InvP s ref) (hwf : (Item.block doc o body c).wfS inClass true = true)
    (hk : cfg.inclCppClass = true ∨ (Item.block doc o body c).hasDocumentedClass = false) :
    (Item.block doc o body c).events.foldlM (step cfg) s =
      .ok (post (claimed cfg s ref (some o)) false
        ((Item.block doc o body c).specS cfg (ctxOf s.classStack) true impl)) := by
  simp only [Item.wfS, Bool.and_eq_true, Bool.not_true, Bool.or_false] at hwf
  obtain ⟨⟨⟨hdef, hclose⟩, hlen⟩, hwb⟩ := hwf
  have hn : o.lname = lit "function" ∨ o.lname = lit "macro" := (seq_isDefName_iff _).1 hdef
  have hkb : cfg.inclCppClass = true ∨ itemsHaveDocumentedClass body = false := by
    rcases hk with hk | hk
    · exact Or.inl hk
    · simp only [Item.hasDocumentedClass, Bool.or_eq_false_iff] at hk; exact Or.inr hk.2
  have hc : c.lname = lit "endfunction" ∨ c.lname = lit "endmacro" := by
    rcases closerFor_cases _ _ hclose with ⟨_, hc⟩ | ⟨h1, _⟩ | ⟨h1, _⟩ | ⟨h1, _⟩ | ⟨h1, _⟩
    · exact hc
    all_goals (rcases hn with hn | hn <;> rw [hn] at h1 <;> exact absurd h1 (by decide))
  have hl : o.singles.length ≥ 1 := by
    rcases hn with hn | hn <;> simpa (decide := true) [hn] using hlen
  have hwb' : itemsWfS false false body = true := by
    rcases hn with hn | hn <;> simpa (decide := true) [hn, isLoopName] using hwb
  have hS : Inv (claimed cfg s ref (some o)) := hinv.claimed cfg _
  have hspec : (Item.block doc o body c).specS cfg (ctxOf s.classStack) true impl =
      (if doc.isSome then { top := [defEntry cfg (o.lname = lit "macro") doc o body] } else ({} : Contrib)) ++
        itemsSpecS cfg (ctxOf s.classStack) false body := by
    rcases hn with hn | hn <;> simp (decide := true) [Item.specS, hn]
  rw [Item.events, foldlM_block, hspec, step_docEvent]
  cases doc with
  | none =>
    simp only []
    rw [enterCommand_claim cfg s false o.toCmd ref hn hinv.aw, Call.lname_toCmd,
      seq_claimDefinition_eq cfg s ref o _ rfl, except_ok_bind]
    rw [ih false _ hS.pushNone hwb' (by simp) hkb, except_ok_bind, step_cmd,
      enterCommand_endDef cfg _ false c.toCmd _ _ hc rfl]
    have := wrapNone _ hS {} (itemsCpaDirect body) (itemsSpecS cfg (ctxOf s.classStack) false body)
    rw [post_empty] at this
    refine congrArg Except.ok ?_
    exact this.trans (by simp)
  | some d =>
    have h1 : enterDocumented cfg s d.tokenText o.toCmd =
        processDef cfg (o.lname = lit "macro") s o.toCmd (docTextOf (some d)) := by
      unfold enterDocumented
      simp only [Call.lname_toCmd]
      rcases hn with h | h <;> simp (decide := true) [h, procOf, runProc, docTextOf]
    simp only [h1, processDef_eq cfg s (some d) o _ hl, except_ok_bind]
    rw [seq_enterCommand_claim_consumed cfg
      { s with documented := s.documented ++ [defEntry0 cfg (decide (o.lname = lit "macro")) (some d) o],
               defStack := some s.documented.length :: s.defStack } o.toCmd ref hn hinv.aw, Call.lname_toCmd]
    simp only []
    rw [seq_claim_pushed cfg s ref o _ hinv.rf _ rfl, except_ok_bind]
    rw [ih false _ (hS.pushDef _) hwb' (by simp) hkb, except_ok_bind, step_cmd,
      enterCommand_endDef cfg _ false c.toCmd _ _ hc rfl]
    refine congrArg Except.ok ?_
    simp only [Option.isSome_some, if_true]
    exact (wrapSome _ hS _ _ _).trans (by rw [defEntry_eq]; rfl)

end Cminx
