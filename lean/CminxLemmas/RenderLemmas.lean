import CminxLemmas.RstLemmas
import CminxLemmas.StrLemmasClean
import CminxModel.Walk
/-!
Helper lemmas for the text-level structure theorems (C07, C12, C02 text half):
`splitNl` over concatenations, newline-freeness of template fragments, `indent` arithmetic,
suffix facts behind `dropCMakeExt`, and `titleOf` / `processDocs` bookkeeping.
-/
namespace Cminx

theorem splitNl_append_nl_gen (a b : Str) : splitNl (a ++ '\n' :: b) = splitNl a ++ splitNl b := by
  induction a with
  | nil => simp [splitNl]
  | cons c cs ih =>
    by_cases hc : c = '\n'
    · subst hc; simp [splitNl, ih]
    · have hne := splitNl_ne_nil cs
      cases hs : splitNl cs with
      | nil => exact absurd hs hne
      | cons l ls => simp [splitNl, hc, ih, hs]

theorem joinWith_noNl {sep : Str} (hs : '\n' ∉ sep) : ∀ (xs : List Str), (∀ a ∈ xs, '\n' ∉ a) → '\n' ∉ joinWith sep xs
  | [], _ => by simp [joinWith]
  | [l], h => by simpa [joinWith] using h
  | l :: l' :: ls, h => by
    have ih := joinWith_noNl hs (l' :: ls) (fun a ha => h a (List.mem_cons_of_mem _ ha))
    have hl := h l (by simp)
    simp only [joinWith, List.mem_append, not_or]
    exact ⟨⟨hl, hs⟩, ih⟩

theorem indent_succ (d : Nat) : indent (d + 1) = indent d ++ indent 1 := by
  simp only [indent, List.replicate_append_replicate]; congr 1

theorem indent_succ' (d : Nat) : indent (d + 1) = indent 1 ++ indent d := by
  simp only [indent, List.replicate_append_replicate]; congr 1; omega

theorem indent_zero : indent 0 = [] := rfl

theorem indent_append_one (d : Nat) (l : Str) : indent d ++ (indent 1 ++ l) = indent (d + 1) ++ l := by
  rw [indent_succ d, List.append_assoc]

theorem lit_dots_noNl : '\n' ∉ lit ".. " := by simp only [lit, String.reduceToList]; decide
theorem lit_colons_noNl : '\n' ∉ lit ":: " := by simp only [lit, String.reduceToList]; decide

theorem dirHeadingLine_noNl {d : Nat} {name : Str} {args : List Str} (hn : '\n' ∉ name) (ha : ∀ a ∈ args, '\n' ∉ a) :
    '\n' ∉ indent d ++ lit ".. " ++ name ++ lit ":: " ++ joinWith [','] args := by
  have := indent_noNl d
  have := lit_dots_noNl
  have := lit_colons_noNl
  have := joinWith_noNl (sep := [',']) (by decide) args ha
  simp_all

theorem renderOpts_split (d : Nat) (opts : List (Str × Str)) (h : ∀ nv ∈ opts, '\n' ∉ nv.1 ∧ '\n' ∉ nv.2) (rest : Str) :
    splitNl (renderOpts d opts ++ rest) =
      opts.map (fun nv => indent d ++ ':' :: (nv.1 ++ ':' :: ' ' :: nv.2)) ++ splitNl rest := by
  have e : renderOpts d opts = ((opts.map (fun nv => indent d ++ ':' :: (nv.1 ++ ':' :: ' ' :: nv.2))).map (· ++ ['\n'])).flatten := by
    rw [renderOpts_eq, List.map_map]; rfl
  rw [e, splitNl_flatten_map_nl]
  intro l hl
  obtain ⟨nv, hnv, rfl⟩ := List.mem_map.1 hl
  have := indent_noNl d
  have := h nv hnv
  simp_all

/-! ## newline-freeness of the fixed template texts -/

theorem macroNote_noNl : '\n' ∉ macroNote := by simp only [macroNote, lit, String.reduceToList]; decide
theorem genericWarning_noNl : '\n' ∉ genericWarning := by simp only [genericWarning, lit, String.reduceToList]; decide
theorem ctestWarning_noNl : '\n' ∉ ctestWarning := by simp only [ctestWarning, lit, String.reduceToList]; decide
theorem testWarning_noNl : '\n' ∉ testWarning := by simp only [testWarning, lit, String.reduceToList]; decide
theorem sectionWarning_noNl : '\n' ∉ sectionWarning := by simp only [sectionWarning, lit, String.reduceToList]; decide
theorem methodMacroNote_noNl : '\n' ∉ methodMacroNote := by simp only [methodMacroNote, lit, String.reduceToList]; decide

theorem signature_noNl {name : Str} {params : List Str} (hn : '\n' ∉ name) (hp : ∀ p ∈ params, '\n' ∉ p) :
    '\n' ∉ signature name params := by
  have := joinWith_noNl (sep := [' ']) (by decide) params hp
  simp_all [signature]

/-! ## `.cmake` suffixes and prefixed names (`Walk.lean`) -/

theorem endsWith_iff_suffix (suf s : Str) : endsWith suf s = true ↔ suf <:+ s := by
  simp [endsWith, List.isPrefixOf_iff_prefix, List.reverse_prefix]

theorem asciiLower_length (s : Str) : (asciiLower s).length = s.length := by simp [asciiLower]

theorem asciiLower_append (a b : Str) : asciiLower (a ++ b) = asciiLower a ++ asciiLower b := by simp [asciiLower]

theorem lit_cmake_length : (lit ".cmake").length = 6 := by simp only [lit, String.reduceToList]; rfl

theorem isCMakeName_iff (s : Str) :
    isCMakeName s = true ↔ 6 ≤ s.length ∧ asciiLower (s.drop (s.length - 6)) = lit ".cmake" := by
  rw [isCMakeName, endsWith_iff_suffix, List.suffix_iff_eq_drop, asciiLower_length, lit_cmake_length]
  constructor
  · intro h
    have hl := congrArg List.length h
    rw [lit_cmake_length, List.length_drop, asciiLower_length] at hl
    refine ⟨by omega, ?_⟩
    rw [h]; simp [asciiLower, List.map_drop]
  · rintro ⟨_, h⟩
    rw [← h]; simp [asciiLower, List.map_drop]

theorem isCMakeName_length {s : Str} (h : isCMakeName s = true) : 6 ≤ s.length := ((isCMakeName_iff s).1 h).1

theorem isCMakeName_append (a s : Str) (h : 6 ≤ s.length) : isCMakeName (a ++ s) = isCMakeName s := by
  rw [Bool.eq_iff_iff, isCMakeName_iff, isCMakeName_iff]
  have : (a ++ s).drop ((a ++ s).length - 6) = s.drop (s.length - 6) := by
    rw [List.length_append, List.drop_append]
    have : a.length + s.length - 6 - a.length = s.length - 6 := by omega
    rw [this, List.drop_eq_nil_of_le (by omega)]; simp
  rw [this]; simp; omega

theorem dropCMakeExt_append (a s : Str) (h : 6 ≤ s.length) : dropCMakeExt (a ++ s) = a ++ dropCMakeExt s := by
  unfold dropCMakeExt
  rw [isCMakeName_append a s h]
  split
  · rw [List.length_append, List.take_append]
    have : a.length + s.length - 6 - a.length = s.length - 6 := by omega
    rw [this, List.take_of_length_le (by omega)]
  · rfl

theorem withPrefix_injective (pfx : Option Str) (sep : Str) {r₁ r₂ : Str}
    (h : withPrefix pfx sep r₁ = withPrefix pfx sep r₂) : r₁ = r₂ := by
  cases pfx with
  | none => simpa [withPrefix] using h
  | some p =>
    simp only [withPrefix] at h
    simpa using h

/-- a CMake-named path is its stem followed by its last six characters, which spell `.cmake` in some letter case -/
theorem dropCMakeExt_append_ext {s : Str} (h : isCMakeName s = true) :
    dropCMakeExt s ++ s.drop (s.length - 6) = s := by
  simp [dropCMakeExt, h, List.take_append_drop]

theorem dropCMakeExt_of_not {s : Str} (h : isCMakeName s = false) : dropCMakeExt s = s := by
  simp [dropCMakeExt, h]

/-- two CMake-named paths with the same stem and the same spelling of the extension are equal -/
theorem eq_of_dropCMakeExt_eq {r₁ r₂ : Str} (h₁ : isCMakeName r₁ = true) (h₂ : isCMakeName r₂ = true)
    (hd : dropCMakeExt r₁ = dropCMakeExt r₂) (he : r₁.drop (r₁.length - 6) = r₂.drop (r₂.length - 6)) : r₁ = r₂ := by
  rw [← dropCMakeExt_append_ext h₁, ← dropCMakeExt_append_ext h₂, hd, he]

theorem isLowerCMakeName_iff (s : Str) :
    isLowerCMakeName s = true ↔ 6 ≤ s.length ∧ s.drop (s.length - 6) = lit ".cmake" := by
  rw [isLowerCMakeName, endsWith_iff_suffix, List.suffix_iff_eq_drop, lit_cmake_length]
  constructor
  · intro h
    have hl := congrArg List.length h
    rw [lit_cmake_length, List.length_drop] at hl
    exact ⟨by omega, h.symm⟩
  · rintro ⟨_, h⟩; exact h.symm

theorem asciiLower_lit_cmake : asciiLower (lit ".cmake") = lit ".cmake" := by
  simp only [lit, String.reduceToList]; decide

theorem isCMakeName_of_lower {s : Str} (h : isLowerCMakeName s = true) : isCMakeName s = true := by
  obtain ⟨hl, he⟩ := (isLowerCMakeName_iff s).1 h
  exact (isCMakeName_iff s).2 ⟨hl, by rw [he, asciiLower_lit_cmake]⟩

end Cminx
