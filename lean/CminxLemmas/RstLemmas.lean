import CminxModel.Rst
import CminxLemmas.StrLemmas2
/-!
Helper lemmas about L2 (`Rst.lean`), used by the C20 proofs.

The central device is `Elem.sub e p`: the element reached from `e` by following the child indices `p`
(`[]` is `e` itself).  A document is embedded as a pseudo-directive (`Doc.asElem`) so that every fact about
paths, updates and rendering is proved once, for elements.
-/
namespace Cminx

/-! ## indent -/

theorem indent_length (d : Nat) : (indent d).length = 3 * d := by simp [indent]

theorem indent_spaces (d : Nat) : ∀ c ∈ indent d, c = ' ' := by
  intro c hc
  simp only [indent, List.mem_replicate] at hc
  exact hc.2

theorem indent_noNl (d : Nat) : '\n' ∉ indent d := by
  intro h
  have := indent_spaces d _ h
  exact absurd this (by decide)

/-! ## rendering -/

theorem renderPara_lines (d : Nat) (t : Str) :
    splitNl (renderPara d t) = (splitNl t).map (indent d ++ ·) := by
  unfold renderPara
  apply splitNl_joinNl_of_noNl
  · simpa using splitNl_ne_nil t
  · intro l hl
    simp only [List.mem_map] at hl
    obtain ⟨x, hx, rfl⟩ := hl
    simp only [List.mem_append, not_or]
    exact ⟨indent_noNl d, splitNl_lines_noNl t x hx⟩

theorem renderItems_eq (d : Nat) (en : Bool) (i : Nat) (items : List Str) :
    renderItems d en i items =
      (items.mapIdx fun k it =>
        indent d ++ (if en then natStr (i + k + 1) ++ ['.', ' '] else ['*', ' ']) ++ it ++ ['\n']).flatten := by
  induction items generalizing i with
  | nil => simp [renderItems]
  | cons it its ih =>
    simp only [renderItems, ih, List.mapIdx_cons, List.flatten_cons, Nat.add_zero]
    simp [Nat.add_assoc, Nat.add_comm 1]

theorem map_mapIdx' {α β γ : Type} (l : List α) (f : Nat → α → β) (g : β → γ) :
    (l.mapIdx f).map g = l.mapIdx (fun i a => g (f i a)) := by
  apply List.ext_getElem? ; intro i; simp; rfl

/-- if no item contains a newline, the list is a blank line, one line per item, and a final empty piece -/
theorem renderList_lines (d : Nat) (en : Bool) (items : List Str) (h : ∀ it ∈ items, '\n' ∉ it) :
    splitNl (renderList d en items) =
      [] :: (items.mapIdx fun k it =>
        indent d ++ (if en then natStr (k + 1) ++ ['.', ' '] else ['*', ' ']) ++ it) ++ [[]] := by
  have hl : ∀ l ∈ (items.mapIdx fun k it =>
      indent d ++ (if en then natStr (k + 1) ++ ['.', ' '] else ['*', ' ']) ++ it), '\n' ∉ l := by
    intro l hl
    obtain ⟨k, hk, rfl⟩ := List.mem_mapIdx.1 hl
    have hi := h items[k] (List.getElem_mem hk)
    have := indent_noNl d
    have := natStr_noNl (k + 1)
    cases en <;> simp_all
  have := splitNl_flatten_map_nl _ hl []
  simp only [List.append_nil, map_mapIdx'] at this
  simp only [renderList, renderItems_eq, splitNl, if_true, Nat.zero_add, List.cons_append, List.cons.injEq, true_and]
  simpa [splitNl] using this

theorem renderOpts_eq (d : Nat) (opts : List (Str × Str)) :
    renderOpts d opts =
      (opts.map fun nv => indent d ++ ':' :: (nv.1 ++ ':' :: ' ' :: nv.2) ++ ['\n']).flatten := by
  induction opts with
  | nil => simp [renderOpts]
  | cons o os ih =>
    obtain ⟨n, v⟩ := o
    simp [renderOpts, ih]

theorem renderOpts_append (d : Nat) (o₁ o₂ : List (Str × Str)) :
    renderOpts d (o₁ ++ o₂) = renderOpts d o₁ ++ renderOpts d o₂ := by
  simp [renderOpts_eq]

theorem render_directive (d : Nat) (name : Str) (args : List Str) (opts : List (Str × Str)) (body : List Elem) :
    (Elem.directive name args opts body).render d =
      renderDirHeading d name args ++ '\n' :: renderOpts (d + 1) opts
        ++ (if body.isEmpty then [] else ['\n']) ++ renderElems (d + 1) body := by
  simp [Elem.render]

theorem renderElems_nil (d : Nat) : renderElems d [] = [] := by simp [renderElems]

theorem renderElems_cons (d : Nat) (e : Elem) (es : List Elem) :
    renderElems d (e :: es) = e.render d ++ '\n' :: renderElems d es := by simp [renderElems]

theorem renderElems_append (d : Nat) (es₁ es₂ : List Elem) :
    renderElems d (es₁ ++ es₂) = renderElems d es₁ ++ renderElems d es₂ := by
  induction es₁ with
  | nil => simp [renderElems_nil]
  | cons e es ih => simp [renderElems_cons, ih]

theorem renderElems_getElem? {d : Nat} {es : List Elem} {i : Nat} {c : Elem} (h : es[i]? = some c) :
    ∃ pre post, renderElems d es = pre ++ c.render d ++ post := by
  induction es generalizing i with
  | nil => simp at h
  | cons e es ih =>
    cases i with
    | zero =>
      simp only [List.getElem?_cons_zero, Option.some.injEq] at h
      subst h
      exact ⟨[], '\n' :: renderElems d es, by simp [renderElems_cons]⟩
    | succ i =>
      simp only [List.getElem?_cons_succ] at h
      obtain ⟨pre, post, hp⟩ := ih h
      exact ⟨e.render d ++ '\n' :: pre, post, by simp [renderElems_cons, hp]⟩

/-! ## `Elem.update` / `updateAt` equations -/

@[simp] theorem update_nil_directive (nop : NodeOp) (name : Str) (args : List Str) (opts : List (Str × Str))
    (body : List Elem) :
    Elem.update nop [] (.directive name args opts body) =
      (match nop with
       | .append e => .directive name args opts (body ++ [e])
       | .addOpt n v => .directive name args (opts ++ [(n, v)]) body
       | .setTitle t => .directive t args opts body
       | .clear => .directive name args opts []) := by
  cases nop <;> simp [Elem.update]

@[simp] theorem update_cons_directive (nop : NodeOp) (i : Nat) (path : List Nat) (name : Str) (args : List Str)
    (opts : List (Str × Str)) (body : List Elem) :
    Elem.update nop (i :: path) (.directive name args opts body) =
      .directive name args opts (updateAt nop i path body) := by
  simp [Elem.update]

@[simp] theorem update_para (nop : NodeOp) (p : List Nat) (t : Str) : Elem.update nop p (.para t) = .para t := by
  cases p <;> simp [Elem.update]

@[simp] theorem update_field (nop : NodeOp) (p : List Nat) (n t : Str) :
    Elem.update nop p (.field n t) = .field n t := by
  cases p <;> simp [Elem.update]

@[simp] theorem update_list (nop : NodeOp) (p : List Nat) (en : Bool) (items : List Str) :
    Elem.update nop p (.list en items) = .list en items := by
  cases p <;> simp [Elem.update]

theorem updateAt_getElem? (nop : NodeOp) (i : Nat) (path : List Nat) (es : List Elem) (j : Nat) :
    (updateAt nop i path es)[j]? = if j = i then (es[i]?).map (Elem.update nop path) else es[j]? := by
  induction es generalizing i j with
  | nil => simp [updateAt]
  | cons e es ih =>
    cases i with
    | zero =>
      cases j with
      | zero => simp [updateAt]
      | succ j => simp [updateAt]
    | succ i =>
      cases j with
      | zero => simp [updateAt]
      | succ j => simp [updateAt, ih]

theorem updateAt_length (nop : NodeOp) (i : Nat) (path : List Nat) (es : List Elem) :
    (updateAt nop i path es).length = es.length := by
  induction es generalizing i with
  | nil => simp [updateAt]
  | cons e es ih => cases i <;> simp [updateAt, ih]

/-! ## sub-elements along a path -/

/-- the body of a directive (`[]` for anything else) -/
def Elem.children : Elem → List Elem
  | .directive _ _ _ body => body
  | _ => []

/-- the element reached from `e` along the child indices `p` -/
def Elem.sub : Elem → List Nat → Option Elem
  | e, [] => some e
  | e, i :: rest =>
    match e.children[i]? with
    | some c => c.sub rest
    | none => none

@[simp] theorem Elem.sub_nil (e : Elem) : e.sub [] = some e := by simp [Elem.sub]

theorem Elem.sub_cons (e : Elem) (i : Nat) (rest : List Nat) :
    e.sub (i :: rest) = (e.children[i]?).bind (·.sub rest) := by
  simp only [Elem.sub]
  cases e.children[i]? <;> rfl

theorem Elem.sub_append (e : Elem) (p q : List Nat) : e.sub (p ++ q) = (e.sub p).bind (·.sub q) := by
  induction p generalizing e with
  | nil => simp
  | cons i p ih =>
    simp only [List.cons_append, Elem.sub_cons]
    cases e.children[i]? with
    | none => simp
    | some c => simp [ih]

@[simp] theorem children_update_cons (nop : NodeOp) (i : Nat) (path : List Nat) (e : Elem) :
    (e.update nop (i :: path)).children = updateAt nop i path e.children := by
  cases e <;> simp [Elem.children, updateAt]

/-- an element `p.length` levels below `e` is rendered, inside `e`'s text, `p.length` levels deeper -/
theorem Elem.render_sub {e e' : Elem} {p : List Nat} (d : Nat) (h : e.sub p = some e') :
    ∃ pre post, e.render d = pre ++ e'.render (d + p.length) ++ post := by
  induction p generalizing e d with
  | nil =>
    simp only [Elem.sub_nil, Option.some.injEq] at h
    subst h
    exact ⟨[], [], by simp⟩
  | cons i p ih =>
    rw [Elem.sub_cons] at h
    cases e with
    | directive name args opts body =>
      simp only [Elem.children] at h
      cases hc : body[i]? with
      | none => simp [hc] at h
      | some c =>
        simp only [hc, Option.bind_some] at h
        obtain ⟨pre₁, post₁, h₁⟩ := ih (d + 1) h
        obtain ⟨pre₂, post₂, h₂⟩ := renderElems_getElem? (d := d + 1) hc
        refine ⟨renderDirHeading d name args ++ '\n' :: renderOpts (d + 1) opts
          ++ (if body.isEmpty then [] else ['\n']) ++ pre₂ ++ pre₁, post₁ ++ post₂, ?_⟩
        rw [render_directive, h₂, h₁]
        simp [Nat.add_assoc, Nat.add_comm 1]
    | para t => simp [Elem.children] at h
    | field n t => simp [Elem.children] at h
    | list en items => simp [Elem.children] at h

/-- updating along `p ++ q` updates the element at `p` along `q` -/
theorem Elem.sub_update_prefix (nop : NodeOp) (e : Elem) (p q : List Nat) :
    (e.update nop (p ++ q)).sub p = (e.sub p).map (Elem.update nop q) := by
  induction p generalizing e with
  | nil => simp
  | cons i p ih =>
    simp only [List.cons_append, Elem.sub_cons, children_update_cons, updateAt_getElem?, if_true]
    cases e.children[i]? with
    | none => simp
    | some c => simp [ih]

/-- an update at `h` does not disturb elements at paths `p` that are not on the way to `h`, as long as it is
    not a `clear` of something above `p` -/
theorem Elem.sub_update_other {nop : NodeOp} {e x : Elem} {h p : List Nat}
    (hp : ¬ p <+: h) (hc : nop ≠ .clear ∨ ¬ h <+: p) (hx : e.sub p = some x) :
    (e.update nop h).sub p = some x := by
  induction p generalizing e h with
  | nil => exact absurd List.nil_prefix hp
  | cons j p ih =>
    rw [Elem.sub_cons] at hx
    cases hj : e.children[j]? with
    | none => simp [hj] at hx
    | some c =>
      simp only [hj, Option.bind_some] at hx
      cases h with
      | nil =>
        have hnc : nop ≠ .clear := by
          rcases hc with hc | hc
          · exact hc
          · exact absurd List.nil_prefix hc
        cases e with
        | directive name args opts body =>
          simp only [Elem.children] at hj
          have hlt : j < body.length := by
            rcases Nat.lt_or_ge j body.length with hlt | hge
            · exact hlt
            · simp [List.getElem?_eq_none hge] at hj
          cases nop with
          | append a =>
            simp [Elem.sub_cons, Elem.children, List.getElem?_append_left hlt, hj, hx]
          | addOpt n v => simp [Elem.sub_cons, Elem.children, hj, hx]
          | setTitle t => simp [Elem.sub_cons, Elem.children, hj, hx]
          | clear => exact absurd rfl hnc
        | para t => simp [Elem.children] at hj
        | field n t => simp [Elem.children] at hj
        | list en items => simp [Elem.children] at hj
      | cons i h =>
        rw [Elem.sub_cons, children_update_cons, updateAt_getElem?]
        by_cases hji : j = i
        · subst hji
          simp only [if_true, hj, Option.map_some, Option.bind_some]
          apply ih _ _ hx
          · intro hpre; exact hp ((List.cons_prefix_cons).2 ⟨rfl, hpre⟩)
          · rcases hc with hc | hc
            · exact Or.inl hc
            · exact Or.inr (fun hpre => hc ((List.cons_prefix_cons).2 ⟨rfl, hpre⟩))
        · simp [hji, hj, hx]

/-! ## a document as a pseudo-directive -/

/-- the root writer seen as an element whose children are the document body -/
def Doc.asElem (w : Doc) : Elem := .directive [] [] [] w.body

@[simp] theorem Doc.asElem_children (w : Doc) : w.asElem.children = w.body := rfl

theorem Doc.update_body (w : Doc) (nop : NodeOp) (h : List Nat) :
    (w.update nop h).body = (w.asElem.update nop h).children := by
  cases h with
  | nil => cases nop <;> simp [Doc.update, Doc.asElem, Elem.children]
  | cons i path => simp [Doc.update, Doc.asElem, Elem.children]

theorem Doc.update_hc (w : Doc) (nop : NodeOp) (h : List Nat) : (w.update nop h).hc = w.hc := by
  cases h with
  | nil => cases nop <;> simp [Doc.update]
  | cons i path => simp [Doc.update]

theorem Doc.update_title_cons (w : Doc) (nop : NodeOp) (i : Nat) (path : List Nat) :
    (w.update nop (i :: path)).title = w.title := by
  simp [Doc.update]

/-- sub-elements at non-empty paths only depend on the children -/
theorem Elem.sub_congr_children {e₁ e₂ : Elem} (h : e₁.children = e₂.children) (i : Nat) (p : List Nat) :
    e₁.sub (i :: p) = e₂.sub (i :: p) := by
  simp [Elem.sub_cons, h]

theorem Doc.asElem_update_sub (w : Doc) (nop : NodeOp) (h : List Nat) (i : Nat) (p : List Nat) :
    (w.update nop h).asElem.sub (i :: p) = (w.asElem.update nop h).sub (i :: p) :=
  Elem.sub_congr_children (by simp [Doc.update_body]) i p

theorem Doc.run_nil (w : Doc) : w.run [] = w := rfl

theorem Doc.run_cons (w : Doc) (op : Op) (ops : List Op) : w.run (op :: ops) = (w.apply op).run ops := rfl

theorem Doc.run_append (w : Doc) (ops₁ ops₂ : List Op) : w.run (ops₁ ++ ops₂) = (w.run ops₁).run ops₂ := by
  simp [Doc.run]

end Cminx
