import CminxModel.Walk
/-!
Helper lemmas about L7 (`Walk.lean`) for property C15: the order on names, the "accumulator is only appended
to" decomposition of `walkDir` into a list of jobs, and invariance of that list under permutations of
directory listings.
-/
namespace Cminx

/-! ## `strLe` is a total order, so sorting forgets the listing order -/

theorem strLe_refl (a : Str) : strLe a a = true := by
  induction a with
  | nil => simp [strLe]
  | cons x xs ih => simp [strLe, ih]

theorem strLe_total (a b : Str) : strLe a b = true ∨ strLe b a = true := by
  induction a generalizing b with
  | nil => simp [strLe]
  | cons x xs ih =>
    cases b with
    | nil => simp [strLe]
    | cons y ys =>
      simp only [strLe]
      by_cases h1 : x < y
      · simp [h1]
      · by_cases h2 : y < x
        · simp [h2]
        · simp [h1, h2]; exact ih ys

theorem strLe_antisymm (a b : Str) (h1 : strLe a b = true) (h2 : strLe b a = true) : a = b := by
  induction a generalizing b with
  | nil => cases b with
    | nil => rfl
    | cons y ys => simp [strLe] at h2
  | cons x xs ih =>
    cases b with
    | nil => simp [strLe] at h1
    | cons y ys =>
      simp only [strLe] at h1 h2
      by_cases hxy : x < y
      · have : ¬ y < x := by
          intro h; exact absurd (Char.lt_trans hxy h) (Char.lt_irrefl _)
        simp [hxy, this] at h2
      · by_cases hyx : y < x
        · simp [hxy, hyx] at h1
        · simp [hxy, hyx] at h1 h2
          have : x = y := by
            have := Char.le_antisymm (Char.not_lt.mp hyx) (Char.not_lt.mp hxy)
            exact this
          subst this
          rw [ih ys h1 h2]

theorem strLe_trans (a b d : Str) (h1 : strLe a b = true) (h2 : strLe b d = true) : strLe a d = true := by
  induction a generalizing b d with
  | nil => simp [strLe]
  | cons x xs ih =>
    cases b with
    | nil => simp [strLe] at h1
    | cons y ys =>
      cases d with
      | nil => simp [strLe] at h2
      | cons z zs =>
        simp only [strLe] at h1 h2 ⊢
        by_cases hxy : x < y
        · by_cases hyz : y < z
          · simp [Char.lt_trans hxy hyz]
          · by_cases hzy : z < y
            · simp [hyz, hzy] at h2
            · have : y = z := Char.le_antisymm (Char.not_lt.mp hzy) (Char.not_lt.mp hyz)
              subst this; simp [hxy]
        · by_cases hyx : y < x
          · simp [hxy, hyx] at h1
          · have : x = y := Char.le_antisymm (Char.not_lt.mp hyx) (Char.not_lt.mp hxy)
            subst this
            simp [hxy] at h1
            by_cases hyz : x < z
            · simp [hyz]
            · by_cases hzy : z < x
              · simp [hyz, hzy] at h2
              · simp [hyz, hzy] at h2 ⊢
                exact ih ys zs h1 h2

theorem sortStrs_eq_of_perm {l₁ l₂ : List Str} (h : l₁.Perm l₂) : sortStrs l₁ = sortStrs l₂ := by
  unfold sortStrs
  apply List.Perm.eq_of_pairwise (le := fun a b => strLe a b = true)
  · intro a b _ _ h1 h2; exact strLe_antisymm a b h1 h2
  · exact List.pairwise_mergeSort (fun a b c => strLe_trans a b c) (fun a b => by simpa using strLe_total a b) l₁
  · exact List.pairwise_mergeSort (fun a b c => strLe_trans a b c) (fun a b => by simpa using strLe_total a b) l₂
  · exact (List.mergeSort_perm l₁ _).trans (h.trans (List.mergeSort_perm l₂ _).symm)

/-! ## induction over trees, and sequential composition of run results -/

theorem fsList_induction {P : List FsNode → Prop} (nil : P [])
    (file : ∀ n c rest, P rest → P (.file n c :: rest))
    (dir : ∀ n ch rest, P ch → P rest → P (.dir n ch :: rest)) : ∀ l, P l
  | [] => nil
  | .file n c :: rest => file n c rest (fsList_induction nil file dir rest)
  | .dir n ch :: rest => dir n ch rest (fsList_induction nil file dir ch) (fsList_induction nil file dir rest)

/-- sequential composition of run results: `s` is what happens after `r`, unless `r` already failed -/
def RunResult.seq (r s : RunResult) : RunResult :=
  if r.error.isSome then r else ⟨r.writes ++ s.writes, r.stdout ++ s.stdout, s.error⟩

theorem RunResult.seq_of_error {r : RunResult} (h : r.error.isSome = true) (s : RunResult) : r.seq s = r := by
  simp [RunResult.seq, h]

theorem RunResult.seq_of_ok {r : RunResult} (h : r.error = none) (s : RunResult) :
    r.seq s = ⟨r.writes ++ s.writes, r.stdout ++ s.stdout, s.error⟩ := by
  simp [RunResult.seq, h]

@[simp] theorem RunResult.empty_seq (s : RunResult) : ({} : RunResult).seq s = s := by
  simp [RunResult.seq]

@[simp] theorem RunResult.seq_empty (r : RunResult) : r.seq {} = r := by
  unfold RunResult.seq
  split
  · rfl
  · rename_i h
    cases r with
    | mk w s e => simp at h; subst h; simp

theorem RunResult.seq_assoc (r s t : RunResult) : (r.seq s).seq t = r.seq (s.seq t) := by
  unfold RunResult.seq
  cases hr : r.error <;> cases hs : s.error <;> simp [hr, hs]

theorem RunResult.seq_error_none {r s : RunResult} : (r.seq s).error = none ↔ r.error = none ∧ s.error = none := by
  unfold RunResult.seq
  cases hr : r.error <;> simp [hr]


/-! ## jobs -/

inductive Job where
  | index (rel : List Str) (subdirs files : List Str)
  | page (rel : List Str) (f content : Str)
deriving Repr, DecidableEq

def keepsDir (c : WalkCfg) (excl : List Str → Bool → Bool) (rel : List Str) (listing : List FsNode) (n : Str) : Bool :=
  !excl (rel ++ [n]) true &&
    (!c.autoExclude || (match listing.find? (fun x => match x with | .dir m _ => m == n | _ => false) with
                         | some (.dir _ ch) => hasCMake excl (rel ++ [n]) ch
                         | _ => false))

def survivingFiles (excl : List Str → Bool → Bool) (rel : List Str) (listing : List FsNode) : List Str :=
  (fileNames listing).filter (fun f => !excl (rel ++ [f]) false)

def pageJobOf (rel : List Str) (listing : List FsNode) (f : Str) : Option Job :=
  if isCMakeName f then (findFile f listing).map (Job.page rel f) else none

def dirJobs (c : WalkCfg) (excl : List Str → Bool → Bool) (rel : List Str) (listing : List FsNode) : List Job :=
  if c.autoExclude && !((survivingFiles excl rel listing).any isLowerCMakeName) then []
  else .index rel (sortStrs ((dirNames listing).filter (keepsDir c excl rel listing))) (sortStrs (survivingFiles excl rel listing))
        :: (sortStrs (survivingFiles excl rel listing)).filterMap (pageJobOf rel listing)

def jobsSubs (c : WalkCfg) (excl : List Str → Bool → Bool) : List Str → (Str → Bool) → List FsNode → List Job
  | _, _, [] => []
  | rel, keep, .file _ _ :: rest => jobsSubs c excl rel keep rest
  | rel, keep, .dir n ch :: rest =>
    (if keep n then
        dirJobs c excl (rel ++ [n]) ch ++
          (if c.recursive then jobsSubs c excl (rel ++ [n]) (keepsDir c excl (rel ++ [n]) ch) ch else [])
     else []) ++ jobsSubs c excl rel keep rest

def jobsDir (c : WalkCfg) (excl : List Str → Bool → Bool) (rel : List Str) (listing : List FsNode) : List Job :=
  dirJobs c excl rel listing ++ (if c.recursive then jobsSubs c excl rel (keepsDir c excl rel listing) listing else [])

def Job.run (c : WalkCfg) (pfx : Str) : Job → RunResult
  | .index rel subdirs files =>
    if c.toStdout then {} else
    match indexPage c pfx rel subdirs files with
    | .error e => { error := some e }
    | .ok text => { writes := [⟨rel ++ [lit "index.rst"], text⟩] }
  | .page rel f content => emitPage c (some pfx) rel f content {}

def runJobs (c : WalkCfg) (pfx : Str) : List Job → RunResult
  | [] => {}
  | j :: js => (j.run c pfx).seq (runJobs c pfx js)

theorem runJobs_append (c : WalkCfg) (pfx : Str) (a b : List Job) :
    runJobs c pfx (a ++ b) = (runJobs c pfx a).seq (runJobs c pfx b) := by
  induction a with
  | nil => simp [runJobs]
  | cons j js ih => simp [runJobs, ih, RunResult.seq_assoc]

theorem jobsSubs_dir (c : WalkCfg) (excl : List Str → Bool → Bool) (rel keep n ch rest) :
    jobsSubs c excl rel keep (.dir n ch :: rest) =
      (if keep n then jobsDir c excl (rel ++ [n]) ch else []) ++ jobsSubs c excl rel keep rest := by
  rw [jobsSubs]; rfl

theorem emitPage_seq (c : WalkCfg) (pfx : Option Str) (relDir : List Str) (name content : Str) (r : RunResult) :
    emitPage c pfx relDir name content r = r.seq (emitPage c pfx relDir name content {}) := by
  obtain ⟨w, so, e⟩ := r
  unfold emitPage RunResult.seq
  cases e with
  | some e => simp
  | none =>
    simp only [Option.isSome_none, Bool.false_eq_true, if_false]
    split
    · simp
    · split <;> simp

theorem emitFiles_seq (c : WalkCfg) (pfx : Str) (rel : List Str) (listing : List FsNode) (fs : List Str) (r : RunResult) :
    emitFiles c (some pfx) rel listing fs r = r.seq (runJobs c pfx (fs.filterMap (pageJobOf rel listing))) := by
  induction fs generalizing r with
  | nil => simp [emitFiles, runJobs]
  | cons f fs ih =>
    simp only [emitFiles, ih, List.filterMap_cons, pageJobOf]
    by_cases hc : isCMakeName f = true
    · simp only [hc, if_true]
      cases hf : findFile f listing with
      | none => simp
      | some content =>
        simp only [Option.map_some, runJobs, Job.run]
        rw [emitPage_seq, RunResult.seq_assoc]
    · simp [hc]

def indexStep (c : WalkCfg) (pfx : Str) (rel : List Str) (S F : List Str) (r : RunResult) : RunResult :=
  if c.toStdout then r else
  match indexPage c pfx rel S F with
  | .error e => { r with error := some e }
  | .ok text => { r with writes := r.writes ++ [⟨rel ++ [lit "index.rst"], text⟩] }

theorem indexStep_seq (c : WalkCfg) (pfx : Str) (rel : List Str) (S F : List Str) (r : RunResult)
    (hr : r.error = none) : indexStep c pfx rel S F r = r.seq (Job.run c pfx (.index rel S F)) := by
  obtain ⟨w, so, e⟩ := r
  simp only at hr; subst hr
  simp only [indexStep, Job.run, RunResult.seq]
  generalize indexPage c pfx rel S F = x
  by_cases ht : c.toStdout = true
  · simp [ht]
  · cases x <;> simp [ht]

theorem walkDir_of_subs (c : WalkCfg) (excl : List Str → Bool → Bool) (pfx : Str) (listing : List FsNode)
    (hs : ∀ rel keep r, walkSubs c excl pfx rel keep listing r = r.seq (runJobs c pfx (jobsSubs c excl rel keep listing)))
    (rel : List Str) (r : RunResult) :
    walkDir c excl pfx rel listing r = r.seq (runJobs c pfx (jobsDir c excl rel listing)) := by
  rw [walkDir]
  by_cases hr : r.error.isSome = true
  · simp [hr, RunResult.seq_of_error hr]
  · simp only [hr, Bool.false_eq_true, if_false]
    unfold jobsDir dirJobs
    change (if (c.autoExclude && !(survivingFiles excl rel listing).any isLowerCMakeName) = true then _ else _) = _
    split
    · split
      · rw [hs]; simp; rfl
      · simp [runJobs]
    · change (if c.recursive = true then
          walkSubs c excl pfx rel (keepsDir c excl rel listing) listing
            (emitFiles c (some pfx) rel listing (sortStrs (survivingFiles excl rel listing))
              (indexStep c pfx rel (sortStrs ((dirNames listing).filter (keepsDir c excl rel listing)))
                (sortStrs (survivingFiles excl rel listing)) r))
        else emitFiles c (some pfx) rel listing (sortStrs (survivingFiles excl rel listing))
              (indexStep c pfx rel (sortStrs ((dirNames listing).filter (keepsDir c excl rel listing)))
                (sortStrs (survivingFiles excl rel listing)) r)) = _
      have hr' : r.error = none := by simpa using hr
      rw [indexStep_seq _ _ _ _ _ _ hr', emitFiles_seq]
      split
      · rw [hs, runJobs_append]
        simp only [runJobs, RunResult.seq_assoc]
      · simp only [runJobs, RunResult.seq_assoc, List.append_nil]

theorem walkSubs_eq_jobs (c : WalkCfg) (excl : List Str → Bool → Bool) (pfx : Str) (listing : List FsNode) :
    ∀ rel keep r, walkSubs c excl pfx rel keep listing r = r.seq (runJobs c pfx (jobsSubs c excl rel keep listing)) := by
  induction listing using fsList_induction with
  | nil => intro rel keep r; simp [walkSubs, jobsSubs, runJobs]
  | file n content rest ih => intro rel keep r; rw [walkSubs, jobsSubs]; exact ih rel keep r
  | dir n ch rest ihc ihr =>
    intro rel keep r
    rw [walkSubs, jobsSubs_dir, ihr]
    by_cases hk : keep n = true
    · simp only [hk, if_true]
      rw [walkDir_of_subs c excl pfx ch ihc, runJobs_append, RunResult.seq_assoc]
    · simp [hk]

theorem walkDir_eq_jobs (c : WalkCfg) (excl : List Str → Bool → Bool) (pfx : Str) (rel : List Str)
    (listing : List FsNode) (r : RunResult) :
    walkDir c excl pfx rel listing r = r.seq (runJobs c pfx (jobsDir c excl rel listing)) :=
  walkDir_of_subs c excl pfx listing (walkSubs_eq_jobs c excl pfx listing) rel r


/-- the accumulator is only appended to: a walk from `r` is `r` followed by the walk from the empty result -/
theorem walkDir_seq (c : WalkCfg) (excl : List Str → Bool → Bool) (pfx : Str) (rel : List Str)
    (listing : List FsNode) (r : RunResult) :
    walkDir c excl pfx rel listing r = r.seq (walkDir c excl pfx rel listing {}) := by
  rw [walkDir_eq_jobs c excl pfx rel listing r, walkDir_eq_jobs c excl pfx rel listing {}, RunResult.empty_seq]

theorem walkSubs_seq (c : WalkCfg) (excl : List Str → Bool → Bool) (pfx : Str) (rel : List Str) (keep : Str → Bool)
    (listing : List FsNode) (r : RunResult) :
    walkSubs c excl pfx rel keep listing r = r.seq (walkSubs c excl pfx rel keep listing {}) := by
  rw [walkSubs_eq_jobs c excl pfx listing rel keep r, walkSubs_eq_jobs c excl pfx listing rel keep {},
    RunResult.empty_seq]

/-! ## permutations of listings, at every level -/

inductive TreePerm : List FsNode → List FsNode → Prop
  | nil : TreePerm [] []
  | file (n c : Str) {l₁ l₂} : TreePerm l₁ l₂ → TreePerm (.file n c :: l₁) (.file n c :: l₂)
  | dir (n : Str) {ch₁ ch₂ l₁ l₂} : TreePerm ch₁ ch₂ → TreePerm l₁ l₂ → TreePerm (.dir n ch₁ :: l₁) (.dir n ch₂ :: l₂)
  | swap (x y : FsNode) (l) : TreePerm (x :: y :: l) (y :: x :: l)
  | trans {l₁ l₂ l₃} : TreePerm l₁ l₂ → TreePerm l₂ l₃ → TreePerm l₁ l₃

theorem TreePerm.refl : ∀ l, TreePerm l l := by
  intro l
  induction l using fsList_induction with
  | nil => exact .nil
  | file n c rest ih => exact .file n c ih
  | dir n ch rest ihc ihr => exact .dir n ihc ihr

theorem TreePerm.of_perm {l₁ l₂ : List FsNode} (h : l₁.Perm l₂) : TreePerm l₁ l₂ := by
  induction h with
  | nil => exact .nil
  | cons x _ ih =>
    cases x with
    | file n c => exact .file n c ih
    | dir n ch => exact .dir n (TreePerm.refl ch) ih
  | swap x y l => exact .swap y x l
  | trans _ _ ih1 ih2 => exact .trans ih1 ih2

theorem TreePerm.symm {l₁ l₂ : List FsNode} (h : TreePerm l₁ l₂) : TreePerm l₂ l₁ := by
  induction h with
  | nil => exact .nil
  | file n c _ ih => exact .file n c ih
  | dir n _ _ ih1 ih2 => exact .dir n ih1 ih2
  | swap x y l => exact .swap y x l
  | trans _ _ ih1 ih2 => exact .trans ih2 ih1

theorem TreePerm.fileNames {l₁ l₂ : List FsNode} (h : TreePerm l₁ l₂) : (fileNames l₁).Perm (fileNames l₂) := by
  induction h with
  | nil => exact .refl _
  | file n c _ ih => simpa [Cminx.fileNames] using ih
  | dir n _ _ _ ih2 => simpa [Cminx.fileNames] using ih2
  | swap x y l => cases x <;> cases y <;> simp [Cminx.fileNames, List.Perm.swap]
  | trans _ _ ih1 ih2 => exact ih1.trans ih2

theorem TreePerm.dirNames {l₁ l₂ : List FsNode} (h : TreePerm l₁ l₂) : (dirNames l₁).Perm (dirNames l₂) := by
  induction h with
  | nil => exact .refl _
  | file n c _ ih => simpa [Cminx.dirNames] using ih
  | dir n _ _ _ ih2 => simpa [Cminx.dirNames] using ih2
  | swap x y l => cases x <;> cases y <;> simp [Cminx.dirNames, List.Perm.swap]
  | trans _ _ ih1 ih2 => exact ih1.trans ih2

theorem TreePerm.names {l₁ l₂ : List FsNode} (h : TreePerm l₁ l₂) : (l₁.map FsNode.name).Perm (l₂.map FsNode.name) := by
  induction h with
  | nil => exact .refl _
  | file n c _ ih => simpa [FsNode.name] using ih
  | dir n _ _ _ ih2 => simpa [FsNode.name] using ih2
  | swap x y l => simp [List.Perm.swap]
  | trans _ _ ih1 ih2 => exact ih1.trans ih2

/-- all entry names of a listing are pairwise distinct, and so in every sub-directory -/
def NodupTree : List FsNode → Prop
  | [] => True
  | .file n _ :: rest => n ∉ rest.map FsNode.name ∧ NodupTree rest
  | .dir n ch :: rest => n ∉ rest.map FsNode.name ∧ NodupTree ch ∧ NodupTree rest

theorem NodupTree.tail {x : FsNode} {l : List FsNode} (h : NodupTree (x :: l)) : NodupTree l := by
  cases x <;> simp only [NodupTree] at h
  · exact h.2
  · exact h.2.2

theorem NodupTree.names_nodup {l : List FsNode} (h : NodupTree l) : (l.map FsNode.name).Nodup := by
  induction l with
  | nil => simp
  | cons x l ih =>
    have ht := ih h.tail
    rw [List.map_cons, List.nodup_cons]
    refine ⟨?_, ht⟩
    cases x <;> simp only [NodupTree] at h <;> exact h.1

theorem TreePerm.nodupTree {l₁ l₂ : List FsNode} (h : TreePerm l₁ l₂) : NodupTree l₁ → NodupTree l₂ := by
  induction h with
  | nil => exact id
  | file n c hp ih =>
    intro h1; simp only [NodupTree] at h1 ⊢
    exact ⟨fun hm => h1.1 (hp.names.mem_iff.mpr hm), ih h1.2⟩
  | dir n hc hp ih1 ih2 =>
    intro h1; simp only [NodupTree] at h1 ⊢
    exact ⟨fun hm => h1.1 (hp.names.mem_iff.mpr hm), ih1 h1.2.1, ih2 h1.2.2⟩
  | swap x y l =>
    intro h1
    cases x <;> cases y <;> simp only [NodupTree, List.map_cons, List.mem_cons, FsNode.name, not_or] at h1 ⊢ <;>
      grind
  | trans _ _ ih1 ih2 => exact fun h => ih2 (ih1 h)


theorem fileNames_sublist_names (l : List FsNode) : ∀ f ∈ fileNames l, f ∈ l.map FsNode.name := by
  induction l with
  | nil => simp [fileNames]
  | cons x l ih => cases x <;> simp only [fileNames, List.map_cons, FsNode.name, List.mem_cons] <;> grind

theorem NodupTree.fileNames_nodup {l : List FsNode} (h : NodupTree l) : (fileNames l).Nodup := by
  induction l with
  | nil => simp [fileNames]
  | cons x l ih =>
    have ht := ih h.tail
    cases x with
    | file n c =>
      simp only [NodupTree] at h
      simp only [fileNames, List.nodup_cons]
      exact ⟨fun hm => h.1 (fileNames_sublist_names l n hm), ht⟩
    | dir n ch => simpa [fileNames] using ht

theorem dirNames_sublist_names (l : List FsNode) : ∀ f ∈ dirNames l, f ∈ l.map FsNode.name := by
  induction l with
  | nil => simp [dirNames]
  | cons x l ih => cases x <;> simp only [dirNames, List.map_cons, FsNode.name, List.mem_cons] <;> grind

theorem NodupTree.dirNames_nodup {l : List FsNode} (h : NodupTree l) : (dirNames l).Nodup := by
  induction l with
  | nil => simp [dirNames]
  | cons x l ih =>
    have ht := ih h.tail
    cases x with
    | dir n c =>
      simp only [NodupTree] at h
      simp only [dirNames, List.nodup_cons]
      exact ⟨fun hm => h.1 (dirNames_sublist_names l n hm), ht⟩
    | file n ch => simpa [dirNames] using ht

theorem findFile_eq_none {f : Str} {l : List FsNode} (h : f ∉ fileNames l) : findFile f l = none := by
  induction l with
  | nil => rfl
  | cons x l ih =>
    cases x with
    | file m c =>
      simp only [fileNames, List.mem_cons, not_or] at h
      simp only [findFile]
      rw [if_neg (fun e => h.1 e.symm)]
      exact ih h.2
    | dir m ch => simp only [fileNames] at h; simpa [findFile] using ih h

theorem TreePerm.findFile {l₁ l₂ : List FsNode} (h : TreePerm l₁ l₂) (f : Str) :
    (Cminx.fileNames l₁).Nodup → Cminx.findFile f l₁ = Cminx.findFile f l₂ := by
  induction h with
  | nil => intro _; rfl
  | file n c _ ih =>
    intro hn; simp only [Cminx.fileNames, List.nodup_cons] at hn
    simp only [Cminx.findFile, ih hn.2]
  | dir n _ _ _ ih2 =>
    intro hn; simp only [Cminx.fileNames] at hn
    simp only [Cminx.findFile, ih2 hn]
  | swap x y l =>
    intro hn
    cases x <;> cases y <;> simp only [Cminx.findFile]
    rename_i n1 c1 n2 c2
    simp only [Cminx.fileNames, List.nodup_cons, List.mem_cons, not_or] at hn
    by_cases h1 : n1 = f <;> by_cases h2 : n2 = f <;> simp [h1, h2]
    exact absurd (h1.trans h2.symm) hn.1.1
  | trans h1 _ ih1 ih2 =>
    intro hn
    rw [ih1 hn, ih2 (h1.fileNames.nodup_iff.mp hn)]

/-- the children of the first sub-directory called `n` -/
def findDir (n : Str) : List FsNode → Option (List FsNode)
  | [] => none
  | .file _ _ :: r => findDir n r
  | .dir m ch :: r => if m = n then some ch else findDir n r

theorem find?_dir (n : Str) (g : List FsNode → Bool) (l : List FsNode) :
    (match l.find? (fun x => match x with | .dir m _ => m == n | _ => false) with
      | some (.dir _ ch) => g ch
      | _ => false) = (match findDir n l with | some ch => g ch | none => false) := by
  induction l with
  | nil => rfl
  | cons x l ih =>
    cases x with
    | file m c => simpa [List.find?, findDir] using ih
    | dir m ch =>
      by_cases hm : m = n
      · simp [List.find?, findDir, hm]
      · have hb : (m == n) = false := by simpa using hm
        simp only [List.find?, findDir, hm, hb, if_false]
        exact ih

theorem findDir_eq_none {n : Str} {l : List FsNode} (h : n ∉ dirNames l) : findDir n l = none := by
  induction l with
  | nil => rfl
  | cons x l ih =>
    cases x with
    | dir m c =>
      simp only [dirNames, List.mem_cons, not_or] at h
      simp only [findDir]
      rw [if_neg (fun e => h.1 e.symm)]
      exact ih h.2
    | file m ch => simp only [dirNames] at h; simpa [findDir] using ih h

/-- both lookups fail, or both succeed with children that are permutations of each other -/
def DirRel (a b : Option (List FsNode)) : Prop :=
  (a = none ∧ b = none) ∨ ∃ ch₁ ch₂, a = some ch₁ ∧ b = some ch₂ ∧ TreePerm ch₁ ch₂

theorem DirRel.refl (a : Option (List FsNode)) : DirRel a a := by
  cases a with
  | none => exact .inl ⟨rfl, rfl⟩
  | some ch => exact .inr ⟨ch, ch, rfl, rfl, TreePerm.refl ch⟩

theorem DirRel.trans {a b d : Option (List FsNode)} (h1 : DirRel a b) (h2 : DirRel b d) : DirRel a d := by
  rcases h1 with ⟨rfl, rfl⟩ | ⟨c1, c2, rfl, rfl, p1⟩
  · exact h2
  · rcases h2 with ⟨h, _⟩ | ⟨c2', c3, h, rfl, p2⟩
    · cases h
    · cases h; exact .inr ⟨c1, c3, rfl, rfl, p1.trans p2⟩

theorem TreePerm.findDir {l₁ l₂ : List FsNode} (h : TreePerm l₁ l₂) (n : Str) :
    (Cminx.dirNames l₁).Nodup → DirRel (Cminx.findDir n l₁) (Cminx.findDir n l₂) := by
  induction h with
  | nil => intro _; exact DirRel.refl _
  | file m c _ ih =>
    intro hn; simp only [Cminx.dirNames] at hn
    simpa only [Cminx.findDir] using ih hn
  | dir m hc _ _ ih2 =>
    intro hn; simp only [Cminx.dirNames, List.nodup_cons] at hn
    simp only [Cminx.findDir]
    by_cases hm : m = n
    · simp only [hm, if_true]; exact .inr ⟨_, _, rfl, rfl, hc⟩
    · simp only [hm, if_false]; exact ih2 hn.2
  | swap x y l =>
    intro hn
    cases x <;> cases y <;> simp only [Cminx.findDir] <;> try exact DirRel.refl _
    rename_i n1 c1 n2 c2
    simp only [Cminx.dirNames, List.nodup_cons, List.mem_cons, not_or] at hn
    by_cases h1 : n1 = n <;> by_cases h2 : n2 = n <;> simp only [h1, h2, if_true, if_false] <;>
      try exact DirRel.refl _
    exact absurd (h1.trans h2.symm) hn.1.1
  | trans h1 _ ih1 ih2 =>
    intro hn
    exact (ih1 hn).trans (ih2 (h1.dirNames.nodup_iff.mp hn))

theorem TreePerm.hasCMake {l₁ l₂ : List FsNode} (h : TreePerm l₁ l₂) (excl : List Str → Bool → Bool) (rel : List Str) :
    Cminx.hasCMake excl rel l₁ = Cminx.hasCMake excl rel l₂ := by
  unfold Cminx.hasCMake
  exact h.fileNames.any_eq

theorem keepsDir_eq (c : WalkCfg) (excl : List Str → Bool → Bool) (rel : List Str) (l : List FsNode) (n : Str) :
    keepsDir c excl rel l n = (!excl (rel ++ [n]) true &&
      (!c.autoExclude || (match findDir n l with | some ch => hasCMake excl (rel ++ [n]) ch | none => false))) := by
  unfold keepsDir
  congr 2
  exact find?_dir n (hasCMake excl (rel ++ [n])) l

theorem TreePerm.keepsDir {l₁ l₂ : List FsNode} (h : TreePerm l₁ l₂) (hn : (Cminx.dirNames l₁).Nodup)
    (c : WalkCfg) (excl : List Str → Bool → Bool) (rel : List Str) :
    Cminx.keepsDir c excl rel l₁ = Cminx.keepsDir c excl rel l₂ := by
  funext n
  rw [keepsDir_eq, keepsDir_eq]
  rcases h.findDir n hn with ⟨h1, h2⟩ | ⟨c1, c2, h1, h2, hp⟩
  · rw [h1, h2]
  · rw [h1, h2]; simp only [hp.hasCMake]

theorem TreePerm.dirJobs {l₁ l₂ : List FsNode} (h : TreePerm l₁ l₂) (hn : NodupTree l₁)
    (c : WalkCfg) (excl : List Str → Bool → Bool) (rel : List Str) :
    Cminx.dirJobs c excl rel l₁ = Cminx.dirJobs c excl rel l₂ := by
  have hk : (survivingFiles excl rel l₁).Perm (survivingFiles excl rel l₂) := h.fileNames.filter _
  have hs := sortStrs_eq_of_perm hk
  have hkd := h.keepsDir hn.dirNames_nodup c excl rel
  have hd : sortStrs ((Cminx.dirNames l₁).filter (Cminx.keepsDir c excl rel l₁)) =
      sortStrs ((Cminx.dirNames l₂).filter (Cminx.keepsDir c excl rel l₂)) := by
    rw [hkd]; exact sortStrs_eq_of_perm (h.dirNames.filter _)
  have hp : pageJobOf rel l₁ = pageJobOf rel l₂ := by
    funext f; unfold pageJobOf; rw [h.findFile f hn.fileNames_nodup]
  unfold Cminx.dirJobs
  rw [hk.any_eq, hs, hd, hp]

theorem jobsDir_eq (c : WalkCfg) (excl : List Str → Bool → Bool) (rel : List Str) (l : List FsNode) :
    jobsDir c excl rel l = dirJobs c excl rel l ++
      (if c.recursive then jobsSubs c excl rel (keepsDir c excl rel l) l else []) := rfl

theorem TreePerm.jobsSubs {l₁ l₂ : List FsNode} (h : TreePerm l₁ l₂)
    (c : WalkCfg) (excl : List Str → Bool → Bool) :
    NodupTree l₁ → ∀ rel keep, (Cminx.jobsSubs c excl rel keep l₁).Perm (Cminx.jobsSubs c excl rel keep l₂) := by
  induction h with
  | nil => intro _ _ _; exact .refl _
  | file n content _ ih =>
    intro hn rel keep
    rw [Cminx.jobsSubs, Cminx.jobsSubs]; exact ih hn.tail rel keep
  | dir n hc _ ih1 ih2 =>
    intro hn rel keep
    simp only [NodupTree] at hn
    rw [jobsSubs_dir, jobsSubs_dir]
    refine List.Perm.append ?_ (ih2 hn.2.2 rel keep)
    split
    · rw [jobsDir_eq, jobsDir_eq, hc.dirJobs hn.2.1, hc.keepsDir hn.2.1.dirNames_nodup]
      refine List.Perm.append_left _ ?_
      split
      · exact ih1 hn.2.1 _ _
      · exact .refl _
    · exact .refl _
  | swap x y l =>
    intro hn rel keep
    cases x <;> cases y <;> simp only [Cminx.jobsSubs, jobsSubs_dir] <;> try exact .refl _
    rw [← List.append_assoc, ← List.append_assoc]
    exact List.Perm.append_right _ List.perm_append_comm
  | trans h1 _ ih1 ih2 =>
    intro hn rel keep
    exact (ih1 hn rel keep).trans (ih2 (h1.nodupTree hn) rel keep)

theorem TreePerm.jobsDir {l₁ l₂ : List FsNode} (h : TreePerm l₁ l₂) (hn : NodupTree l₁)
    (c : WalkCfg) (excl : List Str → Bool → Bool) (rel : List Str) :
    (Cminx.jobsDir c excl rel l₁).Perm (Cminx.jobsDir c excl rel l₂) := by
  rw [jobsDir_eq, jobsDir_eq, h.dirJobs hn, h.keepsDir hn.dirNames_nodup]
  refine List.Perm.append_left _ ?_
  split
  · exact h.jobsSubs c excl hn _ _
  · exact .refl _

/-! ## what a list of jobs leaves behind -/

theorem runJobs_error_none (c : WalkCfg) (pfx : Str) (js : List Job) :
    (runJobs c pfx js).error = none ↔ ∀ j ∈ js, (j.run c pfx).error = none := by
  induction js with
  | nil => simp [runJobs]
  | cons j js ih => simp [runJobs, RunResult.seq_error_none, ih]

theorem runJobs_of_ok (c : WalkCfg) (pfx : Str) (js : List Job) (h : (runJobs c pfx js).error = none) :
    (runJobs c pfx js).writes = js.flatMap (fun j => (j.run c pfx).writes) ∧
    (runJobs c pfx js).stdout = js.flatMap (fun j => (j.run c pfx).stdout) := by
  induction js with
  | nil => simp [runJobs]
  | cons j js ih =>
    simp only [runJobs, RunResult.seq_error_none] at h
    have := ih h.2
    simp only [runJobs, RunResult.seq_of_ok h.1, List.flatMap_cons, this, and_self]

theorem runJobs_prefix (c : WalkCfg) (pfx : Str) (js : List Job) :
    ∃ js', js' <+: js ∧
      (runJobs c pfx js).writes = js'.flatMap (fun j => (j.run c pfx).writes) ∧
      (runJobs c pfx js).stdout = js'.flatMap (fun j => (j.run c pfx).stdout) := by
  induction js with
  | nil => exact ⟨[], List.prefix_refl _, by simp [runJobs]⟩
  | cons j js ih =>
    obtain ⟨js', hp, hw, hs⟩ := ih
    by_cases he : (j.run c pfx).error.isSome = true
    · refine ⟨[j], by simp, ?_⟩
      simp [runJobs, RunResult.seq_of_error he]
    · have he' : (j.run c pfx).error = none := by simpa using he
      refine ⟨j :: js', by simpa using hp, ?_⟩
      simp [runJobs, RunResult.seq_of_ok he', hw, hs]

theorem mem_runJobs_writes {c : WalkCfg} {pfx : Str} {js : List Job} {w : Write}
    (h : w ∈ (runJobs c pfx js).writes) : ∃ j ∈ js, w ∈ (j.run c pfx).writes := by
  obtain ⟨js', hp, hw, _⟩ := runJobs_prefix c pfx js
  rw [hw, List.mem_flatMap] at h
  obtain ⟨j, hj, hwj⟩ := h
  exact ⟨j, hp.subset hj, hwj⟩

theorem runJobs_perm (c : WalkCfg) (pfx : Str) {js₁ js₂ : List Job} (h : js₁.Perm js₂) :
    ((runJobs c pfx js₁).error = none ↔ (runJobs c pfx js₂).error = none) ∧
    ((runJobs c pfx js₁).error = none →
      (runJobs c pfx js₁).writes.Perm (runJobs c pfx js₂).writes) := by
  have hiff : (runJobs c pfx js₁).error = none ↔ (runJobs c pfx js₂).error = none := by
    rw [runJobs_error_none, runJobs_error_none]
    exact ⟨fun hh j hj => hh j (h.mem_iff.mpr hj), fun hh j hj => hh j (h.mem_iff.mp hj)⟩
  refine ⟨hiff, fun h1 => ?_⟩
  rw [(runJobs_of_ok c pfx js₁ h1).1, (runJobs_of_ok c pfx js₂ (hiff.mp h1)).1]
  exact h.flatMap_right _

/-! ## what one job leaves behind -/

theorem mem_run_index {c : WalkCfg} {pfx : Str} {rel S F : List Str} {w : Write} :
    w ∈ (Job.run c pfx (.index rel S F)).writes ↔
      c.toStdout = false ∧ indexPage c pfx rel S F = .ok w.content ∧ w.path = rel ++ [lit "index.rst"] := by
  simp only [Job.run]
  generalize indexPage c pfx rel S F = x
  obtain ⟨p, t⟩ := w
  by_cases ht : c.toStdout = true
  · simp [ht]
  · cases x <;> simp [ht]
    rename_i text
    constructor
    · rintro ⟨rfl, rfl⟩; exact ⟨rfl, rfl⟩
    · rintro ⟨rfl, rfl⟩; exact ⟨rfl, rfl⟩

theorem run_index_stdout (c : WalkCfg) (pfx : Str) (rel S F : List Str) :
    (Job.run c pfx (.index rel S F)).stdout = [] := by
  simp only [Job.run]
  generalize indexPage c pfx rel S F = x
  by_cases ht : c.toStdout = true
  · simp [ht]
  · cases x <;> simp [ht]

theorem mem_run_page {c : WalkCfg} {pfx : Str} {rel : List Str} {f content : Str} {w : Write} :
    w ∈ (Job.run c pfx (.page rel f content)).writes ↔
      c.toStdout = false ∧ page c (some pfx) (joinWith ['/'] (rel ++ [f])) content = .ok w.content ∧
        w.path = rel ++ [stem f ++ lit ".rst"] := by
  simp only [Job.run, emitPage]
  generalize page c (some pfx) (joinWith ['/'] (rel ++ [f])) content = x
  obtain ⟨p, t⟩ := w
  cases x with
  | error e => simp
  | ok text =>
    by_cases ht : c.toStdout = true
    · simp [ht]
    · simp [ht]
      constructor
      · rintro ⟨rfl, rfl⟩; exact ⟨rfl, rfl⟩
      · rintro ⟨rfl, rfl⟩; exact ⟨rfl, rfl⟩

theorem run_page_stdout (c : WalkCfg) (pfx : Str) (rel : List Str) (f content : Str) :
    (Job.run c pfx (.page rel f content)).stdout = [] ∨
      ∃ text, page c (some pfx) (joinWith ['/'] (rel ++ [f])) content = .ok text ∧
        (Job.run c pfx (.page rel f content)).stdout = text ++ ['\n', '\n'] := by
  simp only [Job.run, emitPage]
  generalize page c (some pfx) (joinWith ['/'] (rel ++ [f])) content = x
  cases x with
  | error e => simp
  | ok text =>
    by_cases ht : c.toStdout = true
    · simp [ht]
    · simp [ht]

theorem run_page_error_none {c : WalkCfg} {pfx : Str} {rel : List Str} {f content : Str} :
    (Job.run c pfx (.page rel f content)).error = none ↔
      ∃ text, page c (some pfx) (joinWith ['/'] (rel ++ [f])) content = .ok text := by
  simp only [Job.run, emitPage]
  generalize page c (some pfx) (joinWith ['/'] (rel ++ [f])) content = x
  cases x with
  | error e => simp
  | ok text => by_cases ht : c.toStdout = true <;> simp [ht]

theorem run_index_error_none {c : WalkCfg} {pfx : Str} {rel S F : List Str} :
    (Job.run c pfx (.index rel S F)).error = none ↔ c.toStdout = true ∨ c.headers ≠ [] := by
  simp only [Job.run, indexPage]
  by_cases ht : c.toStdout = true
  · simp [ht]
  · cases hh : c.headers <;> simp [ht]

/-- blocks of text, each followed by an empty line -/
theorem flatMap_blocks {α : Type} (P : Str → Prop) (g : α → Str) (l : List α)
    (h : ∀ a ∈ l, g a = [] ∨ ∃ t, P t ∧ g a = t ++ ['\n', '\n']) :
    ∃ ts : List Str, (∀ t ∈ ts, P t) ∧ l.flatMap g = ts.flatMap (· ++ ['\n', '\n']) := by
  induction l with
  | nil => exact ⟨[], by simp, by simp⟩
  | cons a l ih =>
    obtain ⟨ts, hts, he⟩ := ih (fun a ha => h a (List.mem_cons_of_mem _ ha))
    rcases h a (List.mem_cons_self) with h0 | ⟨t, ht, hg⟩
    · exact ⟨ts, hts, by simp [h0, he]⟩
    · refine ⟨t :: ts, ?_, by simp [hg, he]⟩
      intro t' ht'
      rcases List.mem_cons.mp ht' with rfl | h'
      · exact ht
      · exact hts _ h'

/-! ## which jobs there are -/

theorem mem_sortStrs_iff {a : Str} {l : List Str} : a ∈ sortStrs l ↔ a ∈ l := by
  unfold sortStrs; exact List.mem_mergeSort

theorem findFile_some_mem {f content : Str} {l : List FsNode} (h : findFile f l = some content) :
    FsNode.file f content ∈ l := by
  induction l with
  | nil => simp [findFile] at h
  | cons x l ih =>
    cases x with
    | file m c =>
      simp only [findFile] at h
      by_cases hm : m = f
      · simp only [hm, if_true, Option.some.injEq] at h; subst hm; subst h; exact List.mem_cons_self
      · simp only [hm, if_false] at h; exact List.mem_cons_of_mem _ (ih h)
    | dir m ch => simp only [findFile] at h; exact List.mem_cons_of_mem _ (ih h)

theorem mem_fileNames_iff {f : Str} {l : List FsNode} : f ∈ fileNames l ↔ ∃ content, FsNode.file f content ∈ l := by
  induction l with
  | nil => simp [fileNames]
  | cons x l ih =>
    cases x with
    | file m c =>
      simp only [fileNames, List.mem_cons, ih, FsNode.file.injEq]
      constructor
      · rintro (rfl | ⟨content, h⟩)
        · exact ⟨c, .inl ⟨rfl, rfl⟩⟩
        · exact ⟨content, .inr h⟩
      · rintro ⟨content, (⟨rfl, rfl⟩ | h)⟩
        · exact .inl rfl
        · exact .inr ⟨content, h⟩
    | dir m ch => simp [fileNames, ih]

theorem mem_dirNames_iff {n : Str} {l : List FsNode} : n ∈ dirNames l ↔ ∃ ch, FsNode.dir n ch ∈ l := by
  induction l with
  | nil => simp [dirNames]
  | cons x l ih =>
    cases x with
    | dir m c =>
      simp only [dirNames, List.mem_cons, ih, FsNode.dir.injEq]
      constructor
      · rintro (rfl | ⟨content, h⟩)
        · exact ⟨c, .inl ⟨rfl, rfl⟩⟩
        · exact ⟨content, .inr h⟩
      · rintro ⟨content, (⟨rfl, rfl⟩ | h)⟩
        · exact .inl rfl
        · exact .inr ⟨content, h⟩
    | file m ch => simp [dirNames, ih]

theorem findFile_of_mem {f content : Str} {l : List FsNode} (hn : (fileNames l).Nodup)
    (h : FsNode.file f content ∈ l) : findFile f l = some content := by
  induction l with
  | nil => simp at h
  | cons x l ih =>
    cases x with
    | file m c =>
      simp only [fileNames, List.nodup_cons] at hn
      simp only [findFile]
      rcases List.mem_cons.mp h with he | h'
      · cases he; simp
      · have : m ≠ f := fun e => hn.1 (e ▸ mem_fileNames_iff.mpr ⟨content, h'⟩)
        simp only [this, if_false]; exact ih hn.2 h'
    | dir m ch =>
      simp only [fileNames] at hn
      simp only [findFile]
      rcases List.mem_cons.mp h with he | h'
      · cases he
      · exact ih hn h'

theorem mem_survivingFiles {excl : List Str → Bool → Bool} {rel : List Str} {l : List FsNode} {f : Str} :
    f ∈ survivingFiles excl rel l ↔ f ∈ fileNames l ∧ excl (rel ++ [f]) false = false := by
  simp [survivingFiles]

/-- the jobs of one directory: its index, and a page for every kept file with a CMake name -/
theorem mem_dirJobs {c : WalkCfg} {excl : List Str → Bool → Bool} {rel : List Str} {l : List FsNode} {j : Job} :
    j ∈ dirJobs c excl rel l ↔
      ¬ (c.autoExclude && !((survivingFiles excl rel l).any isLowerCMakeName)) = true ∧
      (j = .index rel (sortStrs ((dirNames l).filter (keepsDir c excl rel l))) (sortStrs (survivingFiles excl rel l)) ∨
       ∃ f content, j = .page rel f content ∧ f ∈ fileNames l ∧ excl (rel ++ [f]) false = false ∧
         isCMakeName f = true ∧ findFile f l = some content) := by
  unfold dirJobs
  split
  · rename_i h; simp [h]
  · rename_i h
    rw [List.mem_cons, List.mem_filterMap]
    constructor
    · rintro (hj | ⟨f, hf, hj⟩)
      · exact ⟨h, .inl hj⟩
      · refine ⟨h, .inr ?_⟩
        rw [mem_sortStrs_iff, mem_survivingFiles] at hf
        unfold pageJobOf at hj
        by_cases hc : isCMakeName f = true
        · simp only [hc, if_true, Option.map_eq_some_iff] at hj
          obtain ⟨content, hfind, rfl⟩ := hj
          exact ⟨f, content, rfl, hf.1, hf.2, hc, hfind⟩
        · simp [hc] at hj
    · rintro ⟨_, (hj | ⟨f, content, rfl, hf, he, hc, hfind⟩)⟩
      · exact .inl hj
      · refine .inr ⟨f, ?_, ?_⟩
        · rw [mem_sortStrs_iff, mem_survivingFiles]; exact ⟨hf, he⟩
        · simp [pageJobOf, hc, hfind]

theorem mem_jobsSubs {c : WalkCfg} {excl : List Str → Bool → Bool} {rel : List Str} {keep : Str → Bool}
    {l : List FsNode} {j : Job} :
    j ∈ jobsSubs c excl rel keep l ↔
      ∃ n ch, FsNode.dir n ch ∈ l ∧ keep n = true ∧ j ∈ jobsDir c excl (rel ++ [n]) ch := by
  induction l with
  | nil => simp [jobsSubs]
  | cons x l ih =>
    cases x with
    | file m content => simp [jobsSubs, ih]
    | dir m ch' =>
      rw [jobsSubs_dir, List.mem_append, ih]
      constructor
      · rintro (h | ⟨n, ch, hm, hk, hj⟩)
        · by_cases hk : keep m = true
          · simp only [hk, if_true] at h; exact ⟨m, ch', List.mem_cons_self, hk, h⟩
          · simp [hk] at h
        · exact ⟨n, ch, List.mem_cons_of_mem _ hm, hk, hj⟩
      · rintro ⟨n, ch, hm, hk, hj⟩
        rcases List.mem_cons.mp hm with he | hm'
        · cases he; left; simpa [hk] using hj
        · exact .inr ⟨n, ch, hm', hk, hj⟩

theorem mem_jobsDir {c : WalkCfg} {excl : List Str → Bool → Bool} {rel : List Str} {l : List FsNode} {j : Job} :
    j ∈ jobsDir c excl rel l ↔ j ∈ dirJobs c excl rel l ∨
      (c.recursive = true ∧ ∃ n ch, FsNode.dir n ch ∈ l ∧ keepsDir c excl rel l n = true ∧
        j ∈ jobsDir c excl (rel ++ [n]) ch) := by
  rw [jobsDir_eq, List.mem_append]
  apply or_congr Iff.rfl
  by_cases hr : c.recursive = true
  · simp only [hr, if_true, true_and]; exact mem_jobsSubs
  · simp [hr]

/-- `ch` is the listing of a directory reached from `l` (at `rel`) through directories the walk keeps -/
inductive KeptAt (c : WalkCfg) (excl : List Str → Bool → Bool) : List Str → List FsNode → List Str → List FsNode → Prop
  | here (rel l) : KeptAt c excl rel l [] l
  | step {rel l n ch q ch'} : FsNode.dir n ch ∈ l → keepsDir c excl rel l n = true →
      KeptAt c excl (rel ++ [n]) ch q ch' → KeptAt c excl rel l (n :: q) ch'

theorem fsList_children_induction {P : List FsNode → Prop}
    (step : ∀ l : List FsNode, (∀ n ch, FsNode.dir n ch ∈ l → P ch) → P l) : ∀ l, P l := by
  have hq : ∀ l : List FsNode, ∀ n ch, FsNode.dir n ch ∈ l → P ch := by
    intro l
    induction l using fsList_induction with
    | nil => intro n ch h; simp at h
    | file m content rest ih =>
      intro n ch h
      rcases List.mem_cons.mp h with he | h'
      · cases he
      · exact ih n ch h'
    | dir m ch' rest ihc ihr =>
      intro n ch h
      rcases List.mem_cons.mp h with he | h'
      · cases he; exact step _ ihc
      · exact ihr n ch h'
  exact fun l => step l (hq l)

theorem jobsDir_sound {c : WalkCfg} {excl : List Str → Bool → Bool} {j : Job} (l : List FsNode) :
    ∀ rel, j ∈ jobsDir c excl rel l → ∃ q ch, KeptAt c excl rel l q ch ∧ j ∈ dirJobs c excl (rel ++ q) ch := by
  induction l using fsList_children_induction with
  | step l ih =>
    intro rel h
    rw [mem_jobsDir] at h
    rcases h with h | ⟨_, n, ch, hm, hk, hj⟩
    · exact ⟨[], l, .here _ _, by simpa using h⟩
    · obtain ⟨q, ch', hK, hd⟩ := ih n ch hm (rel ++ [n]) hj
      exact ⟨n :: q, ch', .step hm hk hK, by simpa [List.append_assoc] using hd⟩

theorem jobsDir_complete {c : WalkCfg} {excl : List Str → Bool → Bool} {j : Job} {rel l q ch}
    (h : KeptAt c excl rel l q ch) (hr : c.recursive = true ∨ q = [])
    (hj : j ∈ dirJobs c excl (rel ++ q) ch) : j ∈ jobsDir c excl rel l := by
  induction h with
  | here rel l => rw [mem_jobsDir]; left; simpa using hj
  | step hm hk _ ih =>
    rcases hr with hr | hq
    · rw [mem_jobsDir]; right
      exact ⟨hr, _, _, hm, hk, ih (.inl hr) (by simpa [List.append_assoc] using hj)⟩
    · cases hq

theorem keepsDir_not_excl {c : WalkCfg} {excl : List Str → Bool → Bool} {rel : List Str} {l : List FsNode} {n : Str}
    (h : keepsDir c excl rel l n = true) : excl (rel ++ [n]) true = false := by
  unfold keepsDir at h
  simp only [Bool.and_eq_true, Bool.not_eq_true'] at h
  exact h.1

theorem keepsDir_of_noAuto {c : WalkCfg} {excl : List Str → Bool → Bool} {rel : List Str} {l : List FsNode} {n : Str}
    (ha : c.autoExclude = false) : keepsDir c excl rel l n = !excl (rel ++ [n]) true := by
  unfold keepsDir
  simp [ha]

/-- stepping the "no excluded directory on the way" condition down one level -/
theorem openPath_cons {excl : List Str → Bool → Bool} {rel : List Str} {n : Str} {q : List Str} :
    (∀ q' d, (q' ++ [d]) <+: (n :: q) → excl (rel ++ q' ++ [d]) true = false) ↔
      excl (rel ++ [n]) true = false ∧
      (∀ q' d, (q' ++ [d]) <+: q → excl ((rel ++ [n]) ++ q' ++ [d]) true = false) := by
  constructor
  · intro h
    refine ⟨by simpa using h [] n (by simp), fun q' d hp => ?_⟩
    have := h (n :: q') d (by simpa using hp)
    simpa [List.append_assoc] using this
  · rintro ⟨h0, h1⟩ q' d hp
    cases q' with
    | nil =>
      simp only [List.nil_append, List.cons_prefix_cons] at hp
      rw [hp.1]; simpa using h0
    | cons m q'' =>
      simp only [List.cons_append, List.cons_prefix_cons] at hp
      rw [hp.1]
      have := h1 q'' d hp.2
      simpa [List.append_assoc] using this

/-! ## the part of a run result that one walk adds -/

theorem walkDir_of_error {c : WalkCfg} {excl : List Str → Bool → Bool} {pfx : Str} {rel : List Str}
    {l : List FsNode} {r : RunResult} (h : r.error ≠ none) : walkDir c excl pfx rel l r = r := by
  rw [walkDir_eq_jobs]
  exact RunResult.seq_of_error (by cases hr : r.error <;> simp_all) _

theorem walkDir_of_ok (c : WalkCfg) (excl : List Str → Bool → Bool) (pfx : Str) (rel : List Str)
    (l : List FsNode) {r : RunResult} (h : r.error = none) :
    walkDir c excl pfx rel l r =
      ⟨r.writes ++ (runJobs c pfx (jobsDir c excl rel l)).writes,
       r.stdout ++ (runJobs c pfx (jobsDir c excl rel l)).stdout,
       (runJobs c pfx (jobsDir c excl rel l)).error⟩ := by
  rw [walkDir_eq_jobs, RunResult.seq_of_ok h]

theorem walkDir_new_writes (c : WalkCfg) (excl : List Str → Bool → Bool) (pfx : Str) (rel : List Str)
    (l : List FsNode) (r : RunResult) :
    (walkDir c excl pfx rel l r).writes.drop r.writes.length =
      if r.error = none then (runJobs c pfx (jobsDir c excl rel l)).writes else [] := by
  split
  · rename_i h; rw [walkDir_of_ok _ _ _ _ _ h]; simp
  · rename_i h; rw [walkDir_of_error h]; simp

theorem walkDir_new_stdout (c : WalkCfg) (excl : List Str → Bool → Bool) (pfx : Str) (rel : List Str)
    (l : List FsNode) (r : RunResult) :
    (walkDir c excl pfx rel l r).stdout.drop r.stdout.length =
      if r.error = none then (runJobs c pfx (jobsDir c excl rel l)).stdout else [] := by
  split
  · rename_i h; rw [walkDir_of_ok _ _ _ _ _ h]; simp
  · rename_i h; rw [walkDir_of_error h]; simp

theorem walkDir_frame (c : WalkCfg) (excl : List Str → Bool → Bool) (pfx : Str) (rel : List Str)
    (l : List FsNode) (r : RunResult) :
    (walkDir c excl pfx rel l r).writes = r.writes ++ (walkDir c excl pfx rel l r).writes.drop r.writes.length ∧
    (walkDir c excl pfx rel l r).stdout = r.stdout ++ (walkDir c excl pfx rel l r).stdout.drop r.stdout.length := by
  by_cases h : r.error = none
  · rw [walkDir_of_ok _ _ _ _ _ h]; simp
  · rw [walkDir_of_error h]; simp

/-! ## more on `NodupTree` -/

theorem NodupTree.child {l : List FsNode} {n : Str} {ch : List FsNode} (h : NodupTree l)
    (hm : FsNode.dir n ch ∈ l) : NodupTree ch := by
  induction l with
  | nil => simp at hm
  | cons x l ih =>
    rcases List.mem_cons.mp hm with he | h'
    · subst he; simp only [NodupTree] at h; exact h.2.1
    · exact ih h.tail h'

theorem nodupTree_of {l : List FsNode} (hn : (l.map FsNode.name).Nodup)
    (hc : ∀ n ch, FsNode.dir n ch ∈ l → NodupTree ch) : NodupTree l := by
  induction l with
  | nil => simp [NodupTree]
  | cons x l ih =>
    rw [List.map_cons, List.nodup_cons] at hn
    have ht := ih hn.2 (fun n ch h => hc n ch (List.mem_cons_of_mem _ h))
    cases x with
    | file n content => simp only [NodupTree]; exact ⟨hn.1, ht⟩
    | dir n ch => simp only [NodupTree]; exact ⟨hn.1, hc n ch List.mem_cons_self, ht⟩

theorem fileNames_nodup_of_names {l : List FsNode} (h : (l.map FsNode.name).Nodup) : (fileNames l).Nodup := by
  induction l with
  | nil => simp [fileNames]
  | cons x l ih =>
    rw [List.map_cons, List.nodup_cons] at h
    cases x with
    | file n c =>
      simp only [fileNames, List.nodup_cons]
      exact ⟨fun hm => h.1 (fileNames_sublist_names l n hm), ih h.2⟩
    | dir n ch => simpa [fileNames] using ih h.2

/-- sorting a list whose sorted arrangement is known -/
theorem sortStrs_eq_of_sorted {l l' : List Str} (hp : l.Perm l') (hs : l'.Pairwise (fun a b => strLe a b = true)) :
    sortStrs l = l' := by
  unfold sortStrs
  apply List.Perm.eq_of_pairwise (le := fun a b => strLe a b = true)
  · intro a b _ _ h1 h2; exact strLe_antisymm a b h1 h2
  · exact List.pairwise_mergeSort (fun a b c => strLe_trans a b c) (fun a b => by simpa using strLe_total a b) l
  · exact hs
  · exact (List.mergeSort_perm l _).trans hp

/-! ## a checkable form of "every page renders" and of "all names distinct" (for concrete trees) -/

mutual
/-- every file with a CMake name in the tree can be documented (computable) -/
def nodeRenderB (c : WalkCfg) (pfx : Str) (rel : List Str) : FsNode → Bool
  | .file f content =>
    !isCMakeName f || (match page c (some pfx) (joinWith ['/'] (rel ++ [f])) content with | .ok _ => true | .error _ => false)
  | .dir n ch => allRenderB c pfx (rel ++ [n]) ch
def allRenderB (c : WalkCfg) (pfx : Str) (rel : List Str) : List FsNode → Bool
  | [] => true
  | x :: rest => nodeRenderB c pfx rel x && allRenderB c pfx rel rest
end

theorem allRenderB_file {c : WalkCfg} {pfx : Str} {rel : List Str} {l : List FsNode} {f content : Str}
    (h : allRenderB c pfx rel l = true) (hm : FsNode.file f content ∈ l) (hc : isCMakeName f = true) :
    ∃ text, page c (some pfx) (joinWith ['/'] (rel ++ [f])) content = .ok text := by
  induction l with
  | nil => simp at hm
  | cons x l ih =>
    simp only [allRenderB, Bool.and_eq_true] at h
    rcases List.mem_cons.mp hm with he | h'
    · subst he
      have h1 := h.1
      simp only [nodeRenderB, hc, Bool.not_true, Bool.false_or] at h1
      cases hp : page c (some pfx) (joinWith ['/'] (rel ++ [f])) content with
      | ok text => exact ⟨text, rfl⟩
      | error e => simp [hp] at h1
    · exact ih h.2 h'

theorem allRenderB_child {c : WalkCfg} {pfx : Str} {rel : List Str} {l : List FsNode} {n : Str} {ch : List FsNode}
    (h : allRenderB c pfx rel l = true) (hm : FsNode.dir n ch ∈ l) : allRenderB c pfx (rel ++ [n]) ch = true := by
  induction l with
  | nil => simp at hm
  | cons x l ih =>
    simp only [allRenderB, Bool.and_eq_true] at h
    rcases List.mem_cons.mp hm with he | h'
    · subst he; simpa only [nodeRenderB] using h.1
    · exact ih h.2 h'

mutual
def nodeNodupB : FsNode → Bool
  | .file _ _ => true
  | .dir _ ch => nodupTreeB ch
/-- computable form of `NodupTree` -/
def nodupTreeB : List FsNode → Bool
  | [] => true
  | x :: rest => !(rest.map FsNode.name).contains x.name && nodeNodupB x && nodupTreeB rest
end

theorem nodupTree_of_check : ∀ l : List FsNode, nodupTreeB l = true → NodupTree l := by
  intro l
  induction l using fsList_induction with
  | nil => intro _; simp [NodupTree]
  | file n c rest ih =>
    intro h
    simp only [nodupTreeB, Bool.and_eq_true, Bool.not_eq_true', List.contains_eq_mem, decide_eq_false_iff_not,
      FsNode.name] at h
    simp only [NodupTree]
    exact ⟨h.1.1, ih h.2⟩
  | dir n ch rest ihc ihr =>
    intro h
    simp only [nodupTreeB, nodeNodupB, Bool.and_eq_true, Bool.not_eq_true', List.contains_eq_mem,
      decide_eq_false_iff_not, FsNode.name] at h
    simp only [NodupTree]
    exact ⟨h.1.1, ihc h.1.2, ihr h.2⟩

end Cminx
