import CminxLemmas.AggLemmas3
/-!
# Lemmas for T-agg, part 4: blocks (definitions, classes, loops)
-/
namespace Cminx

theorem foldlM_block (cfg : Cfg) (st : AggState) (e : Event) (mid : List Event) (c : Event) :
    (e :: (mid ++ [c])).foldlM (step cfg) st =
      step cfg st e >>= fun s1 => mid.foldlM (step cfg) s1 >>= fun s2 => step cfg s2 c := by
  rw [List.foldlM_cons]
  congr 1; funext s1
  rw [List.foldlM_append]
  congr 1; funext s2
  exact foldlM_single cfg s2 c

/-! ## state-level wrappers: opener, body (by induction hypothesis), closer -/

theorem Inv.pushDef {st : AggState} (h : Inv st) (e : Entry) :
    Inv { st with documented := st.documented ++ [e], defStack := some st.documented.length :: st.defStack } := by
  refine ⟨h.aw, ?_, ?_⟩
  · intro i hi
    simp only [List.mem_cons, Option.some.injEq] at hi
    simp only [List.length_append, List.length_cons, List.length_nil]
    rcases hi with rfl | hi
    · omega
    · have := h.ds i hi; omega
  · intro i hi
    have := h.cs i hi
    simp only [List.length_append, List.length_cons, List.length_nil]; omega

theorem Inv.pushNone {st : AggState} (h : Inv st) : Inv { st with defStack := none :: st.defStack } := by
  refine ⟨h.aw, ?_, h.cs⟩
  intro i hi
  simp only [List.mem_cons] at hi
  rcases hi with hi | hi
  · cases hi
  · exact h.ds i hi

theorem Inv.pushClsNone {st : AggState} (h : Inv st) : Inv { st with classStack := none :: st.classStack } := by
  refine ⟨h.aw, h.ds, ?_⟩
  intro i hi
  simp only [List.mem_cons] at hi
  rcases hi with hi | hi
  · cases hi
  · exact h.cs i hi

/-- a definition with an entry: the body's `cmake_parse_arguments` raises the entry's flag -/
theorem wrapSome (st : AggState) (h : Inv st) (e0 : Entry) (kwb : Bool) (cb : Contrib) :
    { post { st with documented := st.documented ++ [e0],
                     defStack := some st.documented.length :: st.defStack } kwb cb with
      defStack := st.defStack } =
    post st false ({ top := [if kwb then setKwargs e0 else e0] } ++ cb) := by
  obtain ⟨d, cs, aw, ds, er⟩ := st
  have hc := h.cs
  simp only at hc
  simp only [post, absorb, markKw_here, markKw_false, Contrib.append_top, AggState.mk.injEq, and_true]
  rw [absorbCls_append _ _ _ _ hc]
  rw [absorbCls_congr d cs ({ top := [if kwb then setKwargs e0 else e0] } ++ cb) cb (by simp) (by simp)
    (by simp) (by simp)]
  simp

/-- a definition without an entry of its own on the definition stack (`own` was stored before it) -/
theorem wrapNone (st : AggState) (h : Inv st) (own : Contrib) (kwb : Bool) (cb : Contrib) :
    { post { post st false own with defStack := none :: st.defStack } kwb cb with defStack := st.defStack } =
    post st false (own ++ cb) := by
  have := post_post h false false own cb
  simp only [Bool.or_false] at this
  rw [← this]
  simp [post, absorb]

theorem processCppClass_eq (st : AggState) (c : Call) (doc : Str) (hl : c.singles.length ≥ 1) :
    processCppClass st c.toCmd doc =
      { st with documented := absorbCls st.documented st.classStack { inner := [c.singles.headD []] } ++
                  [.cls (c.singles.headD []) doc (c.singles.drop 1) [] [] [] []],
                classStack := some st.documented.length :: st.classStack } := by
  unfold processCppClass
  rw [Call.singles_toCmd]
  rcases hc : c.singles with _ | ⟨name, supers⟩
  · simp [hc] at hl
  · obtain ⟨d, cs, aw, ds, er⟩ := st
    rcases cs with _ | ⟨_ | j, cs⟩ <;> simp [absorbCls, addInner_eq]

theorem Inv.pushCls {st : AggState} (h : Inv st) (c : Contrib) (e : Entry) :
    Inv { st with documented := absorbCls st.documented st.classStack c ++ [e],
                  classStack := some st.documented.length :: st.classStack } := by
  refine ⟨h.aw, ?_, ?_⟩
  · intro i hi
    have := h.ds i hi
    simp only [List.length_append, absorbCls_length, List.length_cons, List.length_nil]; omega
  · intro i hi
    simp only [List.mem_cons, Option.some.injEq] at hi
    simp only [List.length_append, absorbCls_length, List.length_cons, List.length_nil]
    rcases hi with rfl | hi
    · omega
    · have := h.cs i hi; omega

/-- a class with an entry: the body's members end up in the entry, its name in the enclosing shown class -/
theorem wrapCls (st : AggState) (h : Inv st) (name doc : Str) (supers : List Str) (kwb : Bool) (b : Contrib) :
    { post { st with documented := absorbCls st.documented st.classStack { inner := [name] } ++
                        [.cls name doc supers [] [] [] []],
                     classStack := some st.documented.length :: st.classStack } kwb b with
      classStack := st.classStack } =
    post st kwb { top := .cls name doc supers b.inner b.ctors b.members b.attrs :: b.top,
                  inner := if ctxOf st.classStack = .shown then [name] else [] } := by
  obtain ⟨d, cs, aw, ds, er⟩ := st
  have hd := h.ds
  simp only at hd
  simp only [post, absorb, AggState.mk.injEq, and_true]
  rw [markKw_append _ _ _ _ (by intro i hi; have := hd i hi; simpa using this)]
  have hlen : (markKw (absorbCls d cs { inner := [name] }) ds kwb).length = d.length := by simp
  rw [← hlen, absorbCls_here, ← absorbCls_markKw]
  rcases cs with _ | ⟨_ | j, cs⟩ <;> simp [absorbCls, ext4, ctxOf]

/-- a class without an entry -/
theorem wrapClsHidden (st : AggState) (kwb : Bool) (b : Contrib) :
    { post { st with classStack := none :: st.classStack } kwb b with classStack := st.classStack } =
    post st kwb { top := b.top } := by
  simp [post, absorb, absorbCls_of_empty]

theorem defEntry_eq (cfg : Cfg) (isMacro : Bool) (doc : Option DocC) (c : Call) (body : List Item) :
    defEntry cfg isMacro doc c body =
      if itemsCpaDirect body then setKwargs (defEntry0 cfg isMacro doc c) else defEntry0 cfg isMacro doc c := by
  cases h : itemsCpaDirect body <;> simp [defEntry, defEntry0, setKwargs, h]

theorem closerFor_cases (n cl : Str) (h : (closerFor n).contains cl = true) :
    ((n = lit "function" ∨ n = lit "macro") ∧ (cl = lit "endfunction" ∨ cl = lit "endmacro")) ∨
    (n = lit "cpp_class" ∧ cl = lit "cpp_end_class") ∨
    (n = lit "if" ∧ cl = lit "endif") ∨ (n = lit "foreach" ∧ cl = lit "endforeach") ∨
    (n = lit "while" ∧ cl = lit "endwhile") := by
  unfold closerFor at h
  split at h
  · rename_i h1; simp at h1 h; exact Or.inl ⟨h1, h⟩
  split at h
  · rename_i h1; simp at h; exact Or.inr (Or.inl ⟨h1, h⟩)
  split at h
  · rename_i h1; simp at h; exact Or.inr (Or.inr (Or.inl ⟨h1, h⟩))
  split at h
  · rename_i h1; simp at h; exact Or.inr (Or.inr (Or.inr (Or.inl ⟨h1, h⟩)))
  split at h
  · rename_i h1; simp at h; exact Or.inr (Or.inr (Or.inr (Or.inr ⟨h1, h⟩)))
  · simp at h

theorem itemOK_block (cfg : Cfg) (doc : Option DocC) (o : Call) (body : List Item) (c : Call)
    (ih : ItemsOK cfg body) : ItemOK cfg (.block doc o body c) := by
  intro inClass st hinv hwf hcls hk
  simp only [Item.wf, Bool.and_eq_true] at hwf
  obtain ⟨⟨hclose, hlen⟩, hwb⟩ := hwf
  have hkb : cfg.inclCppClass = true ∨ itemsHaveDocumentedClass body = false := by
    rcases hk with hk | hk
    · exact Or.inl hk
    · simp only [Item.hasDocumentedClass, Bool.or_eq_false_iff] at hk; exact Or.inr hk.2
  rw [Item.events, foldlM_block]
  rcases closerFor_cases _ _ hclose with ⟨hn, hc⟩ | ⟨hn, hc⟩ | hloop
  · -- function / macro
    have hl : o.singles.length ≥ 1 := by
      rcases hn with hn | hn <;> simpa (decide := true) [hn] using hlen
    have hwb' : itemsWf false body = true := by
      rcases hn with hn | hn <;> simpa (decide := true) [hn, isLoopName] using hwb
    have hcpa : (Item.block doc o body c).cpaDirect = false := by
      rcases hn with hn | hn <;> simp (decide := true) [Item.cpaDirect, hn, isLoopName]
    have hspec : (Item.block doc o body c).spec cfg (ctxOf st.classStack) =
        (if doc.isSome || (if o.lname = lit "macro" then cfg.inclMacro else cfg.inclFunction) then
           { top := [defEntry cfg (o.lname = lit "macro") doc o body] } else ({} : Contrib)) ++
          itemsSpec cfg (ctxOf st.classStack) body := by
      rcases hn with hn | hn <;> simp (decide := true) [Item.spec, hn]
    rw [step_def cfg st doc o hn hinv.aw hl, hcpa, hspec]
    by_cases hd : (doc.isSome || (if o.lname = lit "macro" then cfg.inclMacro else cfg.inclFunction)) = true
    · simp only [hd, if_true, except_ok_bind]
      rw [ih false _ (hinv.pushDef _) hwb' (by simp) hkb, except_ok_bind, step_cmd,
        enterCommand_endDef cfg _ false c.toCmd _ _ hc rfl]
      refine congrArg Except.ok ?_
      exact (wrapSome st hinv _ _ _).trans (by rw [defEntry_eq])
    · have hd' : (doc.isSome || (if o.lname = lit "macro" then cfg.inclMacro else cfg.inclFunction)) = false := by
        simpa using hd
      simp only [hd', Bool.false_eq_true, if_false, except_ok_bind]
      rw [ih false _ hinv.pushNone hwb' (by simp) hkb, except_ok_bind, step_cmd,
        enterCommand_endDef cfg _ false c.toCmd _ _ hc rfl]
      have := wrapNone st hinv {} (itemsCpaDirect body) (itemsSpec cfg (ctxOf st.classStack) body)
      rw [post_empty] at this
      refine congrArg Except.ok ?_
      exact this.trans (by simp)
  · -- cpp_class
    have hl : o.singles.length ≥ 1 := by simpa (decide := true) [hn] using hlen
    have hwb' : itemsWf true body = true := by simpa (decide := true) [hn] using hwb
    have hcpa : (Item.block doc o body c).cpaDirect = itemsCpaDirect body := by
      simp (decide := true) [Item.cpaDirect, hn, isLoopName]
    rw [hcpa]
    by_cases hshow : (doc.isSome || cfg.inclCppClass) = true
    · have hflag : cfg.inclCppClass = true := by
        rcases hk with hk | hk
        · exact hk
        · simp only [Item.hasDocumentedClass, Bool.or_eq_false_iff, hn, decide_true, Bool.true_and] at hk
          simpa [hk.1] using hshow
      have hspec : (Item.block doc o body c).spec cfg (ctxOf st.classStack) =
          { top := .cls (o.singles.headD []) (docTextOf doc) (o.singles.drop 1)
                     (itemsSpec cfg .shown body).inner (itemsSpec cfg .shown body).ctors
                     (itemsSpec cfg .shown body).members (itemsSpec cfg .shown body).attrs ::
                     (itemsSpec cfg .shown body).top,
            inner := if ctxOf st.classStack = .shown then [o.singles.headD []] else [] } := by
        simp (decide := true) [Item.spec, hn, hshow]
      rw [step_class_shown cfg st doc o hn hflag, processCppClass_eq st o _ hl, except_ok_bind,
        ih true _ (hinv.pushCls _ _) hwb' (by simp) hkb, except_ok_bind, step_cmd,
        enterCommand_endClass cfg _ false c.toCmd _ _ hc rfl, hspec]
      refine congrArg Except.ok ?_
      exact wrapCls st hinv _ _ _ _ _
    · have hshow' : doc.isSome = false ∧ cfg.inclCppClass = false := by simpa using hshow
      have hspec : (Item.block doc o body c).spec cfg (ctxOf st.classStack) =
          { top := (itemsSpec cfg .hidden body).top } := by
        simp (decide := true) [Item.spec, hn, hshow'.1, hshow'.2]
      have hdoc : doc = none := by
        cases doc
        · rfl
        · simp at hshow'
      subst hdoc
      rw [step_docEvent]
      simp only []
      rw [enterCommand_class_hidden cfg st false o.toCmd hn hshow'.2, except_ok_bind,
        ih true _ hinv.pushClsNone hwb' (by simp) hkb, except_ok_bind, step_cmd,
        enterCommand_endClass cfg _ false c.toCmd _ _ hc rfl, hspec]
      refine congrArg Except.ok ?_
      exact wrapClsHidden st _ _
  · -- if / foreach / while
    have hfacts : isLoopName o.lname = true ∧ specialNames.contains o.lname = false ∧ procOf o.lname = none ∧
        specialNames.contains c.lname = false ∧ procOf c.lname = none ∧ o.lname ≠ lit "function" ∧
        o.lname ≠ lit "macro" ∧ o.lname ≠ lit "cpp_class" := by
      rcases hloop with ⟨h1, h2⟩ | ⟨h1, h2⟩ | ⟨h1, h2⟩ <;> rw [h1, h2] <;> decide
    obtain ⟨hloopn, hs, hp, hsc, hpc, hnf, hnm, hncl⟩ := hfacts
    have hwb' : itemsWf inClass body = true := by simpa [hncl, hloopn] using hwb
    have hcpa : (Item.block doc o body c).cpaDirect = itemsCpaDirect body := by
      simp [Item.cpaDirect, hloopn]
    have hspec : (Item.block doc o body c).spec cfg (ctxOf st.classStack) =
        (if doc.isSome then { top := [.generic o.lname (docTextOf doc) (argTexts o.toCmd.args)] }
          else ({} : Contrib)) ++ itemsSpec cfg (ctxOf st.classStack) body := by
      simp [Item.spec, hnf, hnm, hncl]
    have h1 : (if doc.isSome then st.push (.generic o.lname (docTextOf doc) (argTexts o.toCmd.args)) else st) =
        post st false (if doc.isSome then { top := [.generic o.lname (docTextOf doc) (argTexts o.toCmd.args)] }
          else ({} : Contrib)) := by
      cases doc <;> simp [post_top, AggState.push]
    rw [step_generic cfg st doc o hs hp, h1, except_ok_bind, ih inClass _ (hinv.post _ _) hwb' hcls hkb,
      except_ok_bind, step_cmd, enterCommand_plain cfg _ false c.toCmd hsc (Or.inr (Or.inr hpc)),
      post_post hinv, hcpa, hspec]
    simp

end Cminx
