import CminxLemmas.RoundTripTok
/-!
# Round trip, part 3: comments and doccomments at the head of the input
-/
namespace Cminx

/-- all rules that do not start with `#` fail at a `#` -/
theorem hash_rules (r : Str) (k' : TokKind)
    (hk : k' = .lparen ∨ k' = .rparen ∨ k' = .identifier ∨ k' = .unquoted ∨ k' = .escapeSequence ∨ k' = .quoted ∨
      k' = .bracketArg ∨ k' = .newline ∨ k' = .space) :
    ruleScore k' ('#' :: r) = none := by
  rcases hk with rfl | rfl | rfl | rfl | rfl | rfl | rfl | rfl | rfl <;>
    rule_simp [unqLen_of_stop r (by decide : '#' ≠ '\\') rfl]

theorem docStart_prefix_opens {x : Str} (h : docStart.isPrefixOf ('#' :: x) = true) : opensBracket x = true := by
  obtain ⟨t, ht⟩ := List.isPrefixOf_iff_prefix.mp h
  rw [docStart_eq] at ht
  simp only [List.cons_append, List.cons.injEq, true_and, List.nil_append] at ht
  subst ht
  simp [opensBracket, spanLen]

/-! ## bracket comments -/

/-- without a `#]]` further on, neither doccomment rule matches -/
theorem doc_none_of_findAfter (s : Str) (h : findAfter docEnd (s.drop 4) = none) :
    docstringLen s = none ∧ moduleDocstringLen s = none := by
  constructor
  · simp [docstringLen, h]
  · unfold moduleDocstringLen
    split
    · dsimp only
      split
      · have : findAfter docEnd (((s.drop 4).drop (spanLen (fun c => c == ' ' || c == '\t') (s.drop 4))).drop 7) = none := by
          cases hq : findAfter docEnd (((s.drop 4).drop (spanLen (fun c => c == ' ' || c == '\t') (s.drop 4))).drop 7) with
          | none => rfl
          | some v =>
            exfalso
            exact findAfter_drop_ne_none _ (findAfter_drop_ne_none 7 (by rw [hq]; simp)) h
        rw [this]; rfl
      · rfl
    · rfl

theorem doc_none_of_not_prefix (s : Str) (h : docStart.isPrefixOf s = false) :
    docstringLen s = none ∧ moduleDocstringLen s = none := by
  unfold docstringLen moduleDocstringLen
  simp [h]

/-- `#[=*[ … ]=*]` is one `Bracket_comment`, provided its terminator first occurs at its end and it does not
    start with the doccomment opener `#[[[` — or no `#]]` occurs anywhere after that opener (K3) -/
theorem scan_bracketComment (lvl : Nat) (t rest : Str)
    (hf : findAfter (bracketClose lvl) (t ++ bracketClose lvl) = some (t.length + (bracketClose lvl).length))
    (hk3 : (lvl = 0 → t.head? ≠ some '[') ∨ findAfter docEnd (t ++ (bracketClose lvl ++ rest)) = none) :
    scan ('#' :: (bracketOpen lvl ++ t ++ bracketClose lvl) ++ rest) =
      some (.bracketComment, ('#' :: (bracketOpen lvl ++ t ++ bracketClose lvl)).length) := by
  have hb := bracketLen_text lvl t rest hf
  have hdoc : docstringLen ('#' :: (bracketOpen lvl ++ t ++ bracketClose lvl ++ rest)) = none ∧
      moduleDocstringLen ('#' :: (bracketOpen lvl ++ t ++ bracketClose lvl ++ rest)) = none := by
    rcases hk3 with hk3 | hk3
    · have hds : docStart.isPrefixOf ('#' :: (bracketOpen lvl ++ t ++ bracketClose lvl ++ rest)) = false := by
        rw [bracketText_eq, docStart_isPrefixOf_open]
        cases lvl with
        | succ n => rfl
        | zero =>
          have := hk3 rfl
          cases t with
          | nil => simp [bracketClose]
          | cons c t =>
            have hc : c ≠ '[' := by simpa using this
            simp [hc]
      exact doc_none_of_not_prefix _ hds
    · by_cases hl : lvl = 0
      · subst hl
        apply doc_none_of_findAfter
        have hd : ('#' :: (bracketOpen 0 ++ t ++ bracketClose 0 ++ rest)).drop 4 =
            (t ++ (bracketClose 0 ++ rest)).drop 1 := by
          simp [bracketOpen]
        rw [hd]
        cases hq : findAfter docEnd ((t ++ (bracketClose 0 ++ rest)).drop 1) with
        | none => rfl
        | some v => exact absurd hk3 (findAfter_drop_ne_none 1 (by rw [hq]; simp))
      · have hds : docStart.isPrefixOf ('#' :: (bracketOpen lvl ++ t ++ bracketClose lvl ++ rest)) = false := by
          rw [bracketText_eq, docStart_isPrefixOf_open]
          cases lvl with
          | succ n => rfl
          | zero => exact absurd rfl hl
        exact doc_none_of_not_prefix _ hds
  have hob : opensBracket (bracketOpen lvl ++ t ++ bracketClose lvl ++ rest) = true := by
    rw [bracketText_eq]; exact opensBracket_open _ _
  have hde : docEnd.isPrefixOf ('#' :: (bracketOpen lvl ++ t ++ bracketClose lvl ++ rest)) = false := by
    rw [bracketText_eq]; simp [docEnd_eq, List.isPrefixOf]
  have hL4 : 4 ≤ (bracketOpen lvl ++ t ++ bracketClose lvl).length := by rw [bracketText_length]; omega
  simp only [List.cons_append, List.length_cons]
  generalize hL : (bracketOpen lvl ++ t ++ bracketClose lvl).length = L at *
  generalize bracketOpen lvl ++ t ++ bracketClose lvl ++ rest = x at *
  have hrules : ∀ k' sc' n', k' ≠ .bracketComment → ruleScore k' ('#' :: x) = some (sc', n') →
      k' = .doccommentStart ∧ sc' = 8 := by
    intro k' sc' n' hk' hs
    cases k'
    case bracketComment => exact absurd rfl hk'
    case moduleDocstring => simp [ruleScore, plainScore, hdoc.2] at hs
    case docstring => simp [ruleScore, plainScore, hdoc.1] at hs
    case doccommentStart =>
      simp only [ruleScore, plainScore, doccommentStartLen, Option.map_eq_some_iff] at hs
      obtain ⟨m, hm, he⟩ := hs
      split at hm
      · cases hm; cases he; exact ⟨rfl, rfl⟩
      · cases hm
    case blockcommentEnd => simp [ruleScore, plainScore, blockcommentEndLen, hde] at hs
    case lineComment => simp [ruleScore, lineCommentLen, hob] at hs
    all_goals (rw [hash_rules x _ (by simp)] at hs; cases hs)
  apply scan_of_best (sc := 2 * (L + 1))
  · simp [ruleScore, plainScore, bracketCommentLen, hb]
  · simp
  · intro k' sc' n' hi hs
    obtain ⟨-, rfl⟩ := hrules k' sc' n' (by intro e; subst e; simp at hi) hs
    omega
  · intro k' sc' n' hi hs
    obtain ⟨rfl, -⟩ := hrules k' sc' n' (by intro e; subst e; simp at hi) hs
    simp [TokKind.idx] at hi

/-! ## line comments -/

theorem isEolCh_notEol {c : Char} (h : isEolCh c = true) : notEol c = false := by
  simp only [isEolCh] at h; simp [notEol, h]

theorem eolStr_cases (crlf : Bool) (rest : Str) :
    (eolStr crlf ++ rest = '\r' :: '\n' :: rest ∧ (eolStr crlf).length = 2) ∨
    (eolStr crlf ++ rest = '\n' :: rest ∧ (eolStr crlf).length = 1) := by
  cases crlf <;> simp [eolStr]

/-- rules that compete with `Line_comment` on `#x` when `x` does not open a bracket -/
theorem lineComment_rules (x : Str) (hob : opensBracket x = false) (k' : TokKind) (sc' n' : Nat)
    (hk : k' ≠ .lineComment) (hs : ruleScore k' ('#' :: x) = some (sc', n')) :
    k' = .blockcommentEnd ∧ sc' = 6 ∧ ∃ y, x = ']' :: ']' :: y := by
  have hds : docStart.isPrefixOf ('#' :: x) = false := by
    cases h : docStart.isPrefixOf ('#' :: x) with
    | false => rfl
    | true => rw [docStart_prefix_opens h] at hob; cases hob
  cases k'
  case lineComment => exact absurd rfl hk
  case moduleDocstring => simp [ruleScore, plainScore, moduleDocstringLen, hds] at hs
  case docstring => simp [ruleScore, plainScore, docstringLen, hds] at hs
  case doccommentStart => simp [ruleScore, plainScore, doccommentStartLen, hds] at hs
  case bracketComment =>
    simp [ruleScore, plainScore, bracketCommentLen, bracketLen_none_of_not_opens hob] at hs
  case blockcommentEnd =>
    simp only [ruleScore, plainScore, blockcommentEndLen, Option.map_eq_some_iff] at hs
    obtain ⟨m, hm, he⟩ := hs
    split at hm
    · rename_i hp
      cases hm; cases he
      obtain ⟨y, hy⟩ := List.isPrefixOf_iff_prefix.mp hp
      rw [docEnd_eq] at hy
      simp only [List.cons_append, List.cons.injEq, true_and, List.nil_append] at hy
      exact ⟨rfl, rfl, y, hy.symm⟩
    · cases hm
  all_goals (rw [hash_rules x _ (by simp)] at hs; cases hs)

/-- `#text` + line ending is one `Line_comment` -/
theorem scan_lineComment (t : Str) (crlf : Bool) (rest : Str) (ht : t.all notEol = true)
    (hob : opensBracket t = false) :
    scan ('#' :: (t ++ eolStr crlf) ++ rest) = some (.lineComment, ('#' :: (t ++ eolStr crlf)).length) := by
  have hx : opensBracket (t ++ eolStr crlf ++ rest) = false := by
    rw [List.append_assoc]
    rcases eolStr_cases crlf rest with ⟨h, -⟩ | ⟨h, -⟩ <;> rw [h, opensBracket_append_eol _ _ _ rfl] <;> exact hob
  have hspan : spanLen notEol (t ++ eolStr crlf ++ rest) = t.length := by
    rw [List.append_assoc, spanLen_append_all _ _ _ ht]
    rcases eolStr_cases crlf rest with ⟨h, -⟩ | ⟨h, -⟩ <;> rw [h] <;> simp [spanLen_cons, notEol]
  have hdrop : (t ++ eolStr crlf ++ rest).drop t.length = eolStr crlf ++ rest := by
    rw [List.append_assoc, List.drop_left]
  have hl : lineCommentLen ('#' :: (t ++ eolStr crlf ++ rest)) = some (t.length + (eolStr crlf).length + 1, false) := by
    simp only [lineCommentLen, hx, Bool.false_eq_true, if_false, hspan, hdrop]
    rcases eolStr_cases crlf rest with ⟨h, h'⟩ | ⟨h, h'⟩ <;> rw [h, h'] <;> simp
  have hel : 1 ≤ (eolStr crlf).length := by cases crlf <;> simp [eolStr]
  simp only [List.cons_append, List.length_cons, List.length_append]
  apply scan_of_best (k := .lineComment) (sc := 2 * (t.length + (eolStr crlf).length + 1))
    (by rw [ruleScore, hl]; rfl) (by simp)
  · intro k' sc' n' hi hs
    obtain ⟨-, rfl, y, hy⟩ := lineComment_rules _ hx k' sc' n' (by intro e; subst e; simp at hi) hs
    have : 2 ≤ t.length := by
      match t, hy with
      | [], hy => rcases eolStr_cases crlf rest with ⟨h, -⟩ | ⟨h, -⟩ <;> rw [List.nil_append, h] at hy <;> cases hy
      | [c], hy =>
        rcases eolStr_cases crlf rest with ⟨h, -⟩ | ⟨h, -⟩ <;>
          rw [List.append_assoc, List.singleton_append, h] at hy <;> cases hy
      | _ :: _ :: _, _ => simp
    omega
  · intro k' sc' n' hi hs
    obtain ⟨rfl, -, -⟩ := lineComment_rules _ hx k' sc' n' (by intro e; subst e; simp at hi) hs
    simp [TokKind.idx] at hi

/-- `#text` at the very end of the input is one `Line_comment` -/
theorem scan_lineComment_eof (t : Str) (ht : t.all notEol = true) (hob : opensBracket t = false) :
    scan ('#' :: t) = some (.lineComment, ('#' :: t).length) := by
  have hspan : spanLen notEol t = t.length := by
    have := spanLen_append_all notEol t [] ht
    simpa [spanLen_nil] using this
  have hl : lineCommentLen ('#' :: t) = some (t.length + 1, true) := by
    simp [lineCommentLen, hob, hspan]
  apply scan_of_best (k := .lineComment) (sc := 2 * (t.length + 1) + 1) (by rw [ruleScore, hl]; rfl) (by simp)
  · intro k' sc' n' hi hs
    obtain ⟨-, rfl, y, hy⟩ := lineComment_rules _ hob k' sc' n' (by intro e; subst e; simp at hi) hs
    subst hy; simp; omega
  · intro k' sc' n' hi hs
    obtain ⟨rfl, -, -⟩ := lineComment_rules _ hob k' sc' n' (by intro e; subst e; simp at hi) hs
    simp [TokKind.idx] at hi

/-! ## doccomments -/

theorem docStart_append (x : Str) : docStart ++ x = '#' :: '[' :: '[' :: '[' :: x := by rw [docStart_eq]; rfl

theorem bracketCloseL_zero : bracketCloseL 0 = [']', ']'] := rfl

/-- the rules at `#[[[x` when `#]]` first ends `m` characters into `x` -/
theorem doc_rules (x : Str) (m : Nat) (hf : findAfter docEnd x = some m) :
    ruleScore .docstring (docStart ++ x) = some (2 * (m + 4), m + 4) ∧
    ∀ k' sc' n', k' ≠ .moduleDocstring → k' ≠ .docstring → ruleScore k' (docStart ++ x) = some (sc', n') →
      3 < k'.idx ∧ sc' ≤ 2 * (m + 4) := by
  have hp : docStart.isPrefixOf (docStart ++ x) = true := List.isPrefixOf_iff_prefix.mpr ⟨x, rfl⟩
  have hd : (docStart ++ x).drop 4 = x := by rw [docStart_append]; rfl
  refine ⟨by simp [ruleScore, plainScore, docstringLen, hp, hd, hf], ?_⟩
  intro k' sc' n' h1 h2 hs
  cases k'
  case moduleDocstring => exact absurd rfl h1
  case docstring => exact absurd rfl h2
  case doccommentStart =>
    simp only [ruleScore, plainScore, doccommentStartLen, hp, if_true, Option.map_some, Option.some.injEq,
      Prod.mk.injEq] at hs
    exact ⟨by decide, by omega⟩
  case blockcommentEnd =>
    rw [docStart_append] at hs
    simp [ruleScore, plainScore, blockcommentEndLen, docEnd_eq, List.isPrefixOf] at hs
  case bracketComment =>
    refine ⟨by decide, ?_⟩
    rw [docStart_append] at hs
    have hbl : bracketLen ('[' :: '[' :: '[' :: x) = (findAfter (bracketCloseL 0) ('[' :: x)).map (· + 0 + 2) :=
      bracketLen_open 0 ('[' :: x)
    simp only [ruleScore, plainScore, bracketCommentLen, hbl, Option.map_map, Option.map_eq_some_iff] at hs
    obtain ⟨q, hq, he⟩ := hs
    rw [docEnd_eq] at hf
    obtain ⟨m1, hm1, hle1⟩ := findAfter_tail_le hf
    obtain ⟨m2, hm2, hle2⟩ := findAfter_cons_le '[' hm1
    rw [bracketCloseL_zero, hm2] at hq
    cases hq
    simp only [Function.comp, Prod.mk.injEq] at he
    omega
  case lineComment =>
    rw [docStart_append] at hs
    simp [ruleScore, lineCommentLen, opensBracket, spanLen] at hs
  all_goals (rw [docStart_append, hash_rules _ _ (by simp)] at hs; cases hs)

/-- `#[[[ … #]]` that is not a module doccomment is one `Docstring` ending at the first `#]]` -/
theorem scan_docstring (x : Str) (m : Nat) (hf : findAfter docEnd x = some m)
    (hmod : moduleDocstringLen (docStart ++ x) = none) : scan (docStart ++ x) = some (.docstring, m + 4) := by
  obtain ⟨h1, h2⟩ := doc_rules x m hf
  apply scan_of_best h1 (by omega)
  · intro k' sc' n' hi hs
    by_cases hk : k' = .moduleDocstring
    · subst hk; simp [ruleScore, plainScore, hmod] at hs
    · have := (h2 k' sc' n' hk (by intro e; subst e; simp at hi) hs).1
      have : TokKind.docstring.idx = 3 := rfl
      omega
  · intro k' sc' n' hi hs
    exact (h2 k' sc' n' (by intro e; subst e; simp [TokKind.idx] at hi) (by intro e; subst e; simp at hi) hs).2

/-- `#[[[`, blanks, `@module` … `#]]` at the head of the input is one `Module_docstring` -/
theorem scan_moduleDocstring (x : Str) (m : Nat) (hf : findAfter docEnd x = some m)
    (hmod : moduleDocstringLen (docStart ++ x) = some (m + 4)) :
    scan (docStart ++ x) = some (.moduleDocstring, m + 4) := by
  obtain ⟨h1, h2⟩ := doc_rules x m hf
  apply scan_of_best (sc := 2 * (m + 4)) (by simp [ruleScore, plainScore, hmod]) (by omega)
  · intro k' sc' n' hi hs
    have := (h2 k' sc' n' (by intro e; subst e; simp at hi) (by intro e; subst e; simp [TokKind.idx] at hi) hs).1
    have : TokKind.moduleDocstring.idx = 2 := rfl
    omega
  · intro k' sc' n' hi hs
    by_cases hk : k' = .docstring
    · subst hk; rw [h1] at hs; cases hs; exact Nat.le_refl _
    · exact (h2 k' sc' n' (by intro e; subst e; simp at hi) hk hs).2

/-- the text after `#[[[` does not start (after blanks) with `@module` when its first character is neither a blank
    nor `@` -/
theorem moduleDocstringLen_none (c : Char) (x : Str) (hb : isBlank c = false) (hc : c ≠ '@') :
    moduleDocstringLen (docStart ++ c :: x) = none := by
  have hp : docStart.isPrefixOf (docStart ++ c :: x) = true := List.isPrefixOf_iff_prefix.mpr ⟨_, rfl⟩
  have hd : (docStart ++ c :: x).drop 4 = c :: x := by rw [docStart_append]; rfl
  have hsp : spanLen (fun c => c == ' ' || c == '\t') (c :: x) = 0 := spanLen_cons_false (p := isBlank) x hb
  simp [moduleDocstringLen, hp, hd, hsp, litModule_eq, List.isPrefixOf, Ne.symm hc]

theorem isPrefixOf_append_cases (p x y : Str) (h : p.isPrefixOf (x ++ y) = true) :
    p.isPrefixOf x = true ∨ ∃ c, y.head? = some c ∧ c ∈ p := by
  induction p generalizing x with
  | nil => left; simp
  | cons a p ih =>
    cases x with
    | nil =>
      right
      cases y with
      | nil => simp at h
      | cons b y =>
        simp only [List.nil_append, List.isPrefixOf, Bool.and_eq_true, beq_iff_eq] at h
        exact ⟨b, rfl, by simp [h.1]⟩
    | cons b x =>
      simp only [List.cons_append, List.isPrefixOf, Bool.and_eq_true, beq_iff_eq] at h
      rcases ih x h.2 with h' | ⟨c, hc, hm⟩
      · left; simp [List.isPrefixOf, h.1, h']
      · right; exact ⟨c, hc, by simp [hm]⟩

/-- an opening line `#[[[suf` + line ending does not start a module doccomment unless `suf` is blanks followed by
    `@module` -/
theorem moduleDocstringLen_none_of_suffix (suf : Str) (e : Char) (x : Str) (he : isEolCh e = true)
    (hs : (lit "@module").isPrefixOf (suf.dropWhile isBlank) = false) :
    moduleDocstringLen (docStart ++ (suf ++ e :: x)) = none := by
  have hp : docStart.isPrefixOf (docStart ++ (suf ++ e :: x)) = true := List.isPrefixOf_iff_prefix.mpr ⟨_, rfl⟩
  have hd : (docStart ++ (suf ++ e :: x)).drop 4 = suf ++ e :: x := by rw [docStart_append]; rfl
  have heb : isBlank e = false := by
    have : e = '\r' ∨ e = '\n' := by simpa [isEolCh] using he
    rcases this with rfl | rfl <;> decide
  have hsp : spanLen (fun c => c == ' ' || c == '\t') (suf ++ e :: x) = spanLen isBlank suf := by
    show spanLen isBlank _ = _
    apply spanLen_append_stop
    intro c hc
    have : e = c := by simpa using hc
    subst this; exact heb
  have hdrop : (suf ++ e :: x).drop (spanLen isBlank suf) = suf.dropWhile isBlank ++ e :: x := by
    rw [List.drop_append_of_le_length (spanLen_le _ _), drop_spanLen]
  have hnp : (lit "@module").isPrefixOf (suf.dropWhile isBlank ++ e :: x) = false := by
    cases hq : (lit "@module").isPrefixOf (suf.dropWhile isBlank ++ e :: x) with
    | false => rfl
    | true =>
      rcases isPrefixOf_append_cases _ _ _ hq with h | ⟨c, hc, hm⟩
      · rw [hs] at h; cases h
      · have : e = c := by simpa using hc
        subst this
        have : e = '\r' ∨ e = '\n' := by simpa [isEolCh] using he
        rw [litModule_eq] at hm
        rcases this with rfl | rfl <;> simp at hm
  simp [moduleDocstringLen, hp, hd, hsp, hdrop, hnp]

/-- `Module_docstring` on `#[[[`, blanks, `@module`, `y` -/
theorem moduleDocstringLen_module (blanks y : Str) (m : Nat) (hb : blanks.all isBlank = true)
    (hf : findAfter docEnd (blanks ++ lit "@module" ++ y) = some m) :
    moduleDocstringLen (docStart ++ (blanks ++ lit "@module" ++ y)) = some (m + 4) := by
  have hp : docStart.isPrefixOf (docStart ++ (blanks ++ lit "@module" ++ y)) = true :=
    List.isPrefixOf_iff_prefix.mpr ⟨_, rfl⟩
  have hd : (docStart ++ (blanks ++ lit "@module" ++ y)).drop 4 = blanks ++ lit "@module" ++ y := by
    rw [docStart_append]; rfl
  have hsp : spanLen (fun c => c == ' ' || c == '\t') (blanks ++ lit "@module" ++ y) = blanks.length := by
    show spanLen isBlank _ = _
    rw [List.append_assoc, spanLen_append_all isBlank _ _ hb, litModule_eq]
    simp [spanLen_cons, isBlank]
  have hdrop : (blanks ++ lit "@module" ++ y).drop blanks.length = lit "@module" ++ y := by
    rw [List.append_assoc, List.drop_left]
  have hpre : (lit "@module").isPrefixOf (lit "@module" ++ y) = true := List.isPrefixOf_iff_prefix.mpr ⟨_, rfl⟩
  have hd7 : (lit "@module" ++ y).drop 7 = y := by rw [litModule_eq]; rfl
  have hnot : '#' ∉ blanks ++ lit "@module" := by
    intro hm
    rcases List.mem_append.mp hm with h | h
    · have := List.all_eq_true.mp hb _ h; revert this; decide
    · rw [litModule_eq] at h; revert h; decide
  rw [docEnd_eq, findAfter_skip '#' _ _ _ hnot] at hf
  simp only [Option.map_eq_some_iff] at hf
  obtain ⟨q, hq, rfl⟩ := hf
  rw [← docEnd_eq] at hq
  have hl7 : (lit "@module").length = 7 := by rw [litModule_eq]; rfl
  simp only [moduleDocstringLen, hp, if_true, hd, hsp, hdrop, hpre, hd7, hq, Option.map_some,
    List.length_append, hl7]
  congr 1; omega

end Cminx
