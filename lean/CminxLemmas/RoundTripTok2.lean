import CminxLemmas.RoundTripTok
/-!
# Round trip, part 3: comments and doccomments at the head of the input
-/
namespace Cminx

/-- all rules that do not start with `#` fail at a `#` -/
theorem hash_rules (r : Str) (k' : TokKind)
    (hk : k' = .lparen ∨ k' = .rparen ∨ k' = .identifier ∨ k' = .unquoted ∨ k' = .escapeSequence ∨ k' = .quoted ∨
      k' = .bracketArg ∨ k' = .newline ∨ k' = .space) :
    ruleScore k' ('#' :: r) = none := by
  rcases hk with rfl | rfl | rfl | rfl | rfl | rfl | rfl | rfl | rfl <;>
    rule_simp [unqLen_of_stop r (by decide : '#' ≠ '\\') rfl]

theorem docStart_prefix_opens {x : Str} (h : docStart.isPrefixOf ('#' :: x) = true) : opensBracket x = true := by
  obtain ⟨t, ht⟩ := List.isPrefixOf_iff_prefix.mp h
  rw [docStart_eq] at ht
  simp only [List.cons_append, List.cons.injEq, true_and, List.nil_append] at ht
  subst ht
  simp [opensBracket, spanLen]

/-! ## bracket comments -/

/-- `#[=*[ … ]=*]` is one `Bracket_comment`, provided its terminator first occurs at its end and it does not
    start with the doccomment opener `#[[[` -/
theorem scan_bracketComment (lvl : Nat) (t rest : Str)
    (hf : findAfter (bracketClose lvl) (t ++ bracketClose lvl) = some (t.length + (bracketClose lvl).length))
    (hk3 : lvl = 0 → t.head? ≠ some '[') :
    scan ('#' :: (bracketOpen lvl ++ t ++ bracketClose lvl) ++ rest) =
      some (.bracketComment, ('#' :: (bracketOpen lvl ++ t ++ bracketClose lvl)).length) := by
  have hb := bracketLen_text lvl t rest hf
  have hds : docStart.isPrefixOf ('#' :: (bracketOpen lvl ++ t ++ bracketClose lvl ++ rest)) = false := by
    rw [bracketText_eq, docStart_isPrefixOf_open]
    cases lvl with
    | succ n => rfl
    | zero =>
      have := hk3 rfl
      cases t with
      | nil => simp [bracketClose]
      | cons c t =>
        have hc : c ≠ '[' := by simpa using this
        simp [hc]
  have hob : opensBracket (bracketOpen lvl ++ t ++ bracketClose lvl ++ rest) = true := by
    rw [bracketText_eq]; exact opensBracket_open _ _
  have hde : docEnd.isPrefixOf ('#' :: (bracketOpen lvl ++ t ++ bracketClose lvl ++ rest)) = false := by
    rw [bracketText_eq]; simp [docEnd_eq, List.isPrefixOf]
  simp only [List.cons_append, List.length_cons]
  generalize hL : (bracketOpen lvl ++ t ++ bracketClose lvl).length = L at *
  generalize bracketOpen lvl ++ t ++ bracketClose lvl ++ rest = x at *
  apply scan_of_unique (sc := 2 * (L + 1))
  · simp [ruleScore, plainScore, bracketCommentLen, hb]
  · simp
  · intro k' hk'
    cases k'
    case bracketComment => exact absurd rfl hk'
    case moduleDocstring => simp [ruleScore, plainScore, moduleDocstringLen, hds]
    case docstring => simp [ruleScore, plainScore, docstringLen, hds]
    case doccommentStart => simp [ruleScore, plainScore, doccommentStartLen, hds]
    case blockcommentEnd => simp [ruleScore, plainScore, blockcommentEndLen, hde]
    case lineComment => simp [ruleScore, lineCommentLen, hob]
    all_goals exact hash_rules x _ (by simp)

/-! ## line comments -/

theorem isEolCh_notEol {c : Char} (h : isEolCh c = true) : notEol c = false := by
  simp only [isEolCh] at h; simp [notEol, h]

theorem eolStr_cases (crlf : Bool) (rest : Str) :
    (eolStr crlf ++ rest = '\r' :: '\n' :: rest ∧ (eolStr crlf).length = 2) ∨
    (eolStr crlf ++ rest = '\n' :: rest ∧ (eolStr crlf).length = 1) := by
  cases crlf <;> simp [eolStr]

/-- rules that compete with `Line_comment` on `#x` when `x` does not open a bracket -/
theorem lineComment_rules (x : Str) (hob : opensBracket x = false) (k' : TokKind) (sc' n' : Nat)
    (hk : k' ≠ .lineComment) (hs : ruleScore k' ('#' :: x) = some (sc', n')) :
    k' = .blockcommentEnd ∧ sc' = 6 ∧ ∃ y, x = ']' :: ']' :: y := by
  have hds : docStart.isPrefixOf ('#' :: x) = false := by
    cases h : docStart.isPrefixOf ('#' :: x) with
    | false => rfl
    | true => rw [docStart_prefix_opens h] at hob; cases hob
  cases k'
  case lineComment => exact absurd rfl hk
  case moduleDocstring => simp [ruleScore, plainScore, moduleDocstringLen, hds] at hs
  case docstring => simp [ruleScore, plainScore, docstringLen, hds] at hs
  case doccommentStart => simp [ruleScore, plainScore, doccommentStartLen, hds] at hs
  case bracketComment =>
    simp [ruleScore, plainScore, bracketCommentLen, bracketLen_none_of_not_opens hob] at hs
  case blockcommentEnd =>
    simp only [ruleScore, plainScore, blockcommentEndLen, Option.map_eq_some_iff] at hs
    obtain ⟨m, hm, he⟩ := hs
    split at hm
    · rename_i hp
      cases hm; cases he
      obtain ⟨y, hy⟩ := List.isPrefixOf_iff_prefix.mp hp
      rw [docEnd_eq] at hy
      simp only [List.cons_append, List.cons.injEq, true_and, List.nil_append] at hy
      exact ⟨rfl, rfl, y, hy.symm⟩
    · cases hm
  all_goals (rw [hash_rules x _ (by simp)] at hs; cases hs)

/-- `#text` + line ending is one `Line_comment` -/
theorem scan_lineComment (t : Str) (crlf : Bool) (rest : Str) (ht : t.all notEol = true)
    (hob : opensBracket t = false) :
    scan ('#' :: (t ++ eolStr crlf) ++ rest) = some (.lineComment, ('#' :: (t ++ eolStr crlf)).length) := by
  have hx : opensBracket (t ++ eolStr crlf ++ rest) = false := by
    rw [List.append_assoc]
    rcases eolStr_cases crlf rest with ⟨h, -⟩ | ⟨h, -⟩ <;> rw [h, opensBracket_append_eol _ _ _ rfl] <;> exact hob
  have hspan : spanLen notEol (t ++ eolStr crlf ++ rest) = t.length := by
    rw [List.append_assoc, spanLen_append_all _ _ _ ht]
    rcases eolStr_cases crlf rest with ⟨h, -⟩ | ⟨h, -⟩ <;> rw [h] <;> simp [spanLen_cons, notEol]
  have hdrop : (t ++ eolStr crlf ++ rest).drop t.length = eolStr crlf ++ rest := by
    rw [List.append_assoc, List.drop_left]
  have hl : lineCommentLen ('#' :: (t ++ eolStr crlf ++ rest)) = some (t.length + (eolStr crlf).length + 1, false) := by
    simp only [lineCommentLen, hx, Bool.false_eq_true, if_false, hspan, hdrop]
    rcases eolStr_cases crlf rest with ⟨h, h'⟩ | ⟨h, h'⟩ <;> rw [h, h'] <;> simp
  have hel : 1 ≤ (eolStr crlf).length := by cases crlf <;> simp [eolStr]
  simp only [List.cons_append, List.length_cons, List.length_append]
  apply scan_of_best (k := .lineComment) (sc := 2 * (t.length + (eolStr crlf).length + 1))
    (by rw [ruleScore, hl]; rfl) (by simp)
  · intro k' sc' n' hi hs
    obtain ⟨-, rfl, y, hy⟩ := lineComment_rules _ hx k' sc' n' (by intro e; subst e; simp at hi) hs
    have : 2 ≤ t.length := by
      match t, hy with
      | [], hy => rcases eolStr_cases crlf rest with ⟨h, -⟩ | ⟨h, -⟩ <;> rw [List.nil_append, h] at hy <;> cases hy
      | [c], hy =>
        rcases eolStr_cases crlf rest with ⟨h, -⟩ | ⟨h, -⟩ <;>
          rw [List.append_assoc, List.singleton_append, h] at hy <;> cases hy
      | _ :: _ :: _, _ => simp
    omega
  · intro k' sc' n' hi hs
    obtain ⟨rfl, -, -⟩ := lineComment_rules _ hx k' sc' n' (by intro e; subst e; simp at hi) hs
    simp [TokKind.idx] at hi

/-- `#text` at the very end of the input is one `Line_comment` -/
theorem scan_lineComment_eof (t : Str) (ht : t.all notEol = true) (hob : opensBracket t = false) :
    scan ('#' :: t) = some (.lineComment, ('#' :: t).length) := by
  have hspan : spanLen notEol t = t.length := by
    have := spanLen_append_all notEol t [] ht
    simpa [spanLen_nil] using this
  have hl : lineCommentLen ('#' :: t) = some (t.length + 1, true) := by
    simp [lineCommentLen, hob, hspan]
  apply scan_of_best (k := .lineComment) (sc := 2 * (t.length + 1) + 1) (by rw [ruleScore, hl]; rfl) (by simp)
  · intro k' sc' n' hi hs
    obtain ⟨-, rfl, y, hy⟩ := lineComment_rules _ hob k' sc' n' (by intro e; subst e; simp at hi) hs
    subst hy; simp; omega
  · intro k' sc' n' hi hs
    obtain ⟨rfl, -, -⟩ := lineComment_rules _ hob k' sc' n' (by intro e; subst e; simp at hi) hs
    simp [TokKind.idx] at hi

/-! ## doccomments -/

theorem docStart_append (x : Str) : docStart ++ x = '#' :: '[' :: '[' :: '[' :: x := by rw [docStart_eq]; rfl

theorem bracketCloseL_zero : bracketCloseL 0 = [']', ']'] := rfl

/-- the rules at `#[[[x` when `#]]` first ends `m` characters into `x` -/
theorem doc_rules (x : Str) (m : Nat) (hf : findAfter docEnd x = some m) :
    ruleScore .docstring (docStart ++ x) = some (2 * (m + 4), m + 4) ∧
    ∀ k' sc' n', k' ≠ .moduleDocstring → k' ≠ .docstring → ruleScore k' (docStart ++ x) = some (sc', n') →
      3 < k'.idx ∧ sc' ≤ 2 * (m + 4) := by
  have hp : docStart.isPrefixOf (docStart ++ x) = true := List.isPrefixOf_iff_prefix.mpr ⟨x, rfl⟩
  have hd : (docStart ++ x).drop 4 = x := by rw [docStart_append]; rfl
  refine ⟨by simp [ruleScore, plainScore, docstringLen, hp, hd, hf], ?_⟩
  intro k' sc' n' h1 h2 hs
  cases k'
  case moduleDocstring => exact absurd rfl h1
  case docstring => exact absurd rfl h2
  case doccommentStart =>
    simp only [ruleScore, plainScore, doccommentStartLen, hp, if_true, Option.map_some, Option.some.injEq,
      Prod.mk.injEq] at hs
    exact ⟨by decide, by omega⟩
  case blockcommentEnd =>
    rw [docStart_append] at hs
    simp [ruleScore, plainScore, blockcommentEndLen, docEnd_eq, List.isPrefixOf] at hs
  case bracketComment =>
    refine ⟨by decide, ?_⟩
    rw [docStart_append] at hs
    have hbl : bracketLen ('[' :: '[' :: '[' :: x) = (findAfter (bracketCloseL 0) ('[' :: x)).map (· + 0 + 2) :=
      bracketLen_open 0 ('[' :: x)
    simp only [ruleScore, plainScore, bracketCommentLen, hbl, Option.map_map, Option.map_eq_some_iff] at hs
    obtain ⟨q, hq, he⟩ := hs
    rw [docEnd_eq] at hf
    obtain ⟨m1, hm1, hle1⟩ := findAfter_tail_le hf
    obtain ⟨m2, hm2, hle2⟩ := findAfter_cons_le '[' hm1
    rw [bracketCloseL_zero, hm2] at hq
    cases hq
    simp only [Function.comp, Prod.mk.injEq] at he
    omega
  case lineComment =>
    rw [docStart_append] at hs
    simp [ruleScore, lineCommentLen, opensBracket, spanLen] at hs
  all_goals (rw [docStart_append, hash_rules _ _ (by simp)] at hs; cases hs)

/-- `#[[[ … #]]` that is not a module doccomment is one `Docstring` ending at the first `#]]` -/
theorem scan_docstring (x : Str) (m : Nat) (hf : findAfter docEnd x = some m)
    (hmod : moduleDocstringLen (docStart ++ x) = none) : scan (docStart ++ x) = some (.docstring, m + 4) := by
  obtain ⟨h1, h2⟩ := doc_rules x m hf
  apply scan_of_best h1 (by omega)
  · intro k' sc' n' hi hs
    by_cases hk : k' = .moduleDocstring
    · subst hk; simp [ruleScore, plainScore, hmod] at hs
    · have := (h2 k' sc' n' hk (by intro e; subst e; simp at hi) hs).1
      have : TokKind.docstring.idx = 3 := rfl
      omega
  · intro k' sc' n' hi hs
    exact (h2 k' sc' n' (by intro e; subst e; simp [TokKind.idx] at hi) (by intro e; subst e; simp at hi) hs).2

/-- `#[[[`, blanks, `@module` … `#]]` at the head of the input is one `Module_docstring` -/
theorem scan_moduleDocstring (x : Str) (m : Nat) (hf : findAfter docEnd x = some m)
    (hmod : moduleDocstringLen (docStart ++ x) = some (m + 4)) :
    scan (docStart ++ x) = some (.moduleDocstring, m + 4) := by
  obtain ⟨h1, h2⟩ := doc_rules x m hf
  apply scan_of_best (sc := 2 * (m + 4)) (by simp [ruleScore, plainScore, hmod]) (by omega)
  · intro k' sc' n' hi hs
    have := (h2 k' sc' n' (by intro e; subst e; simp at hi) (by intro e; subst e; simp [TokKind.idx] at hi) hs).1
    have : TokKind.moduleDocstring.idx = 2 := rfl
    omega
  · intro k' sc' n' hi hs
    by_cases hk : k' = .docstring
    · subst hk; rw [h1] at hs; cases hs; exact Nat.le_refl _
    · exact (h2 k' sc' n' (by intro e; subst e; simp at hi) hk hs).2

/-- the text after `#[[[` does not start (after blanks) with `@module` when its first character is neither a blank
    nor `@` -/
theorem moduleDocstringLen_none (c : Char) (x : Str) (hb : isBlank c = false) (hc : c ≠ '@') :
    moduleDocstringLen (docStart ++ c :: x) = none := by
  have hp : docStart.isPrefixOf (docStart ++ c :: x) = true := List.isPrefixOf_iff_prefix.mpr ⟨_, rfl⟩
  have hd : (docStart ++ c :: x).drop 4 = c :: x := by rw [docStart_append]; rfl
  have hsp : spanLen (fun c => c == ' ' || c == '\t') (c :: x) = 0 := spanLen_cons_false (p := isBlank) x hb
  simp [moduleDocstringLen, hp, hd, hsp, litModule_eq, List.isPrefixOf, Ne.symm hc]

/-- `Module_docstring` on `#[[[`, blanks, `@module`, `y` -/
theorem moduleDocstringLen_module (blanks y : Str) (m : Nat) (hb : blanks.all isBlank = true)
    (hf : findAfter docEnd (blanks ++ lit "@module" ++ y) = some m) :
    moduleDocstringLen (docStart ++ (blanks ++ lit "@module" ++ y)) = some (m + 4) := by
  have hp : docStart.isPrefixOf (docStart ++ (blanks ++ lit "@module" ++ y)) = true :=
    List.isPrefixOf_iff_prefix.mpr ⟨_, rfl⟩
  have hd : (docStart ++ (blanks ++ lit "@module" ++ y)).drop 4 = blanks ++ lit "@module" ++ y := by
    rw [docStart_append]; rfl
  have hsp : spanLen (fun c => c == ' ' || c == '\t') (blanks ++ lit "@module" ++ y) = blanks.length := by
    show spanLen isBlank _ = _
    rw [List.append_assoc, spanLen_append_all isBlank _ _ hb, litModule_eq]
    simp [spanLen_cons, isBlank]
  have hdrop : (blanks ++ lit "@module" ++ y).drop blanks.length = lit "@module" ++ y := by
    rw [List.append_assoc, List.drop_left]
  have hpre : (lit "@module").isPrefixOf (lit "@module" ++ y) = true := List.isPrefixOf_iff_prefix.mpr ⟨_, rfl⟩
  have hd7 : (lit "@module" ++ y).drop 7 = y := by rw [litModule_eq]; rfl
  have hnot : '#' ∉ blanks ++ lit "@module" := by
    intro hm
    rcases List.mem_append.mp hm with h | h
    · have := List.all_eq_true.mp hb _ h; revert this; decide
    · rw [litModule_eq] at h; revert h; decide
  rw [docEnd_eq, findAfter_skip '#' _ _ _ hnot] at hf
  simp only [Option.map_eq_some_iff] at hf
  obtain ⟨q, hq, rfl⟩ := hf
  rw [← docEnd_eq] at hq
  have hl7 : (lit "@module").length = 7 := by rw [litModule_eq]; rfl
  simp only [moduleDocstringLen, hp, if_true, hd, hsp, hdrop, hpre, hd7, hq, Option.map_some,
    List.length_append, hl7]
  congr 1; omega

end Cminx
