import CminxLemmas.RoundTripTok
/-!
# Round trip, part 3: comments and doccomments at the head of the input
-/
namespace Cminx

/-- all rules that do not start with `#` fail at a `#` -/
theorem hash_rules (r : Str) (k' : TokKind)
    (hk : k' = .lparen ∨ k' = .rparen ∨ k' = .identifier ∨ k' = .unquoted ∨ k' = .escapeSequence ∨ k' = .quoted ∨
      k' = .bracketArg ∨ k' = .newline ∨ k' = .space) :
    ruleScore k' ('#' :: r) = none := by
  rcases hk with rfl | rfl | rfl | rfl | rfl | rfl | rfl | rfl | rfl <;>
    rule_simp [unqLen_of_stop r (by decide : '#' ≠ '\\') rfl]

theorem docStart_prefix_opens {x : Str} (h : docStart.isPrefixOf ('#' :: x) = true) : opensBracket x = true := by
  obtain ⟨t, ht⟩ := List.isPrefixOf_iff_prefix.mp h
  rw [docStart_eq] at ht
  simp only [List.cons_append, List.cons.injEq, true_and, List.nil_append] at ht
  subst ht
  simp [opensBracket, spanLen]

/-! ## bracket comments -/

/-- `#[=*[ … ]=*]` is one `Bracket_comment`, provided its terminator first occurs at its end and it does not
    start with the doccomment opener `#[[[` -/
theorem scan_bracketComment (lvl : Nat) (t rest : Str)
    (hf : findAfter (bracketClose lvl) (t ++ bracketClose lvl) = some (t.length + (bracketClose lvl).length))
    (hk3 : lvl = 0 → t.head? ≠ some '[') :
    scan ('#' :: (bracketOpen lvl ++ t ++ bracketClose lvl) ++ rest) =
      some (.bracketComment, ('#' :: (bracketOpen lvl ++ t ++ bracketClose lvl)).length) := by
  have hb := bracketLen_text lvl t rest hf
  have hds : docStart.isPrefixOf ('#' :: (bracketOpen lvl ++ t ++ bracketClose lvl ++ rest)) = false := by
    rw [bracketText_eq, docStart_isPrefixOf_open]
    cases lvl with
    | succ n => rfl
    | zero =>
      have := hk3 rfl
      cases t with
      | nil => simp [bracketClose]
      | cons c t =>
        have hc : c ≠ '[' := by simpa using this
        simp [hc]
  have hob : opensBracket (bracketOpen lvl ++ t ++ bracketClose lvl ++ rest) = true := by
    rw [bracketText_eq]; exact opensBracket_open _ _
  have hde : docEnd.isPrefixOf ('#' :: (bracketOpen lvl ++ t ++ bracketClose lvl ++ rest)) = false := by
    rw [bracketText_eq]; simp [docEnd_eq, List.isPrefixOf]
  simp only [List.cons_append]
  generalize hL : (bracketOpen lvl ++ t ++ bracketClose lvl).length = L at *
  generalize bracketOpen lvl ++ t ++ bracketClose lvl ++ rest = x at *
  apply scan_of_unique (sc := 2 * (L + 1))
  · simp [ruleScore, plainScore, bracketCommentLen, hb]
  · simp
  · intro k' hk'
    cases k'
    case bracketComment => exact absurd rfl hk'
    case moduleDocstring => simp [ruleScore, plainScore, moduleDocstringLen, hds]
    case docstring => simp [ruleScore, plainScore, docstringLen, hds]
    case doccommentStart => simp [ruleScore, plainScore, doccommentStartLen, hds]
    case blockcommentEnd => simp [ruleScore, plainScore, blockcommentEndLen, hde]
    case lineComment => simp [ruleScore, lineCommentLen, hob]
    all_goals exact hash_rules x _ (by simp)

/-! ## line comments -/

theorem isEolCh_notEol {c : Char} (h : isEolCh c = true) : notEol c = false := by
  simp only [isEolCh] at h; simp [notEol, h]

theorem eolStr_cases (crlf : Bool) (rest : Str) :
    (eolStr crlf ++ rest = '\r' :: '\n' :: rest ∧ (eolStr crlf).length = 2) ∨
    (eolStr crlf ++ rest = '\n' :: rest ∧ (eolStr crlf).length = 1) := by
  cases crlf <;> simp [eolStr]

/-- rules that compete with `Line_comment` on `#x` when `x` does not open a bracket -/
theorem lineComment_rules (x : Str) (hob : opensBracket x = false) (k' : TokKind) (sc' n' : Nat)
    (hk : k' ≠ .lineComment) (hs : ruleScore k' ('#' :: x) = some (sc', n')) :
    k' = .blockcommentEnd ∧ sc' = 6 ∧ ∃ y, x = ']' :: ']' :: y := by
  have hds : docStart.isPrefixOf ('#' :: x) = false := by
    cases h : docStart.isPrefixOf ('#' :: x) with
    | false => rfl
    | true => rw [docStart_prefix_opens h] at hob; cases hob
  cases k'
  case lineComment => exact absurd rfl hk
  case moduleDocstring => simp [ruleScore, plainScore, moduleDocstringLen, hds] at hs
  case docstring => simp [ruleScore, plainScore, docstringLen, hds] at hs
  case doccommentStart => simp [ruleScore, plainScore, doccommentStartLen, hds] at hs
  case bracketComment =>
    simp [ruleScore, plainScore, bracketCommentLen, bracketLen_none_of_not_opens hob] at hs
  case blockcommentEnd =>
    simp only [ruleScore, plainScore, blockcommentEndLen, Option.map_eq_some_iff] at hs
    obtain ⟨m, hm, he⟩ := hs
    split at hm
    · rename_i hp
      cases hm; cases he
      obtain ⟨y, hy⟩ := List.isPrefixOf_iff_prefix.mp hp
      rw [docEnd_eq] at hy
      simp only [List.cons_append, List.cons.injEq, true_and, List.nil_append] at hy
      exact ⟨rfl, rfl, y, hy.symm⟩
    · cases hm
  all_goals (rw [hash_rules x _ (by simp)] at hs; cases hs)

/-- `#text` + line ending is one `Line_comment` -/
theorem scan_lineComment (t : Str) (crlf : Bool) (rest : Str) (ht : t.all notEol = true)
    (hob : opensBracket t = false) :
    scan ('#' :: (t ++ eolStr crlf) ++ rest) = some (.lineComment, ('#' :: (t ++ eolStr crlf)).length) := by
  have hx : opensBracket (t ++ eolStr crlf ++ rest) = false := by
    rw [List.append_assoc]
    rcases eolStr_cases crlf rest with ⟨h, -⟩ | ⟨h, -⟩ <;> rw [h, opensBracket_append_eol _ _ _ rfl] <;> exact hob
  have hspan : spanLen notEol (t ++ eolStr crlf ++ rest) = t.length := by
    rw [List.append_assoc, spanLen_append_all _ _ _ ht]
    rcases eolStr_cases crlf rest with ⟨h, -⟩ | ⟨h, -⟩ <;> rw [h] <;> simp [spanLen_cons, notEol]
  have hdrop : (t ++ eolStr crlf ++ rest).drop t.length = eolStr crlf ++ rest := by
    rw [List.append_assoc, List.drop_left]
  have hl : lineCommentLen ('#' :: (t ++ eolStr crlf ++ rest)) = some (t.length + (eolStr crlf).length + 1, false) := by
    simp only [lineCommentLen, hx, Bool.false_eq_true, if_false, hspan, hdrop]
    rcases eolStr_cases crlf rest with ⟨h, h'⟩ | ⟨h, h'⟩ <;> rw [h, h']
  simp only [List.cons_append]
  apply scan_of_best (k := .lineComment) (sc := 2 * (t.length + (eolStr crlf).length + 1)) (by simp [ruleScore, hl])
    (by simp)
  · intro k' sc' n' hi hs
    obtain ⟨-, rfl, y, hy⟩ := lineComment_rules _ hx k' sc' n' (by intro e; subst e; simp at hi) hs
    have : 2 ≤ t.length := by
      match t, hy with
      | [], hy => rcases eolStr_cases crlf rest with ⟨h, -⟩ | ⟨h, -⟩ <;> rw [List.nil_append, h] at hy <;> cases hy
      | [c], hy =>
        rcases eolStr_cases crlf rest with ⟨h, -⟩ | ⟨h, -⟩ <;>
          rw [List.append_assoc, List.singleton_append, h] at hy <;> cases hy
      | _ :: _ :: _, _ => simp
    omega
  · intro k' sc' n' hi hs
    obtain ⟨rfl, -, -⟩ := lineComment_rules _ hx k' sc' n' (by intro e; subst e; simp at hi) hs
    simp [TokKind.idx] at hi

/-- `#text` at the very end of the input is one `Line_comment` -/
theorem scan_lineComment_eof (t : Str) (ht : t.all notEol = true) (hob : opensBracket t = false) :
    scan ('#' :: t) = some (.lineComment, ('#' :: t).length) := by
  have hspan : spanLen notEol t = t.length := by
    have := spanLen_append_all notEol t [] ht
    simpa [spanLen_nil] using this
  have hl : lineCommentLen ('#' :: t) = some (t.length + 1, true) := by
    simp [lineCommentLen, hob, hspan]
  apply scan_of_best (k := .lineComment) (sc := 2 * (t.length + 1) + 1) (by simp [ruleScore, hl]) (by simp)
  · intro k' sc' n' hi hs
    obtain ⟨-, rfl, y, hy⟩ := lineComment_rules _ hob k' sc' n' (by intro e; subst e; simp at hi) hs
    subst hy; simp; omega
  · intro k' sc' n' hi hs
    obtain ⟨rfl, -, -⟩ := lineComment_rules _ hob k' sc' n' (by intro e; subst e; simp at hi) hs
    simp [TokKind.idx] at hi

end Cminx
