import CminxProps.WalkSpec
/-!
Helper lemmas about L7 (`Walk.lean`), used by the C13, C14, C17 and C18 proofs.

Architecture:
* `emitItem` / `runItems` — the walk, flattened: generate a list of items one after the other, stopping at the
  first error.
* `layoutK` — the item list exactly as `walkDir` produces it (sub-directories selected through the model's
  name lookup `keepDir`), with `walkDir_eq : walkDir … r = runItems … (layoutK …) r` for *every* tree.
* `layoutK_eq` — for trees whose sub-directory names are distinct (`treeOk`) `layoutK` is the declarative
  `layoutOf` of `WalkSpec.lean`.
* list-level facts about `runItems` (only appends; error-free outcome; outcome at the first error) and about
  membership in `layoutOf`.
-/
namespace Cminx

/-! ## `RunResult.app` -/

@[ext] theorem RunResult.ext' {a b : RunResult} (h1 : a.writes = b.writes) (h2 : a.stdout = b.stdout)
    (h3 : a.error = b.error) : a = b := by
  cases a; cases b; simp_all

theorem RunResult.app_empty (r : RunResult) : r.app {} = r := by
  unfold RunResult.app
  split
  · rfl
  · rename_i h
    apply RunResult.ext' <;> simp
    cases he : r.error <;> simp_all

theorem RunResult.empty_app (d : RunResult) : RunResult.app {} d = d := by
  unfold RunResult.app
  simp

theorem RunResult.app_assoc (a b d : RunResult) : (a.app b).app d = a.app (b.app d) := by
  unfold RunResult.app
  by_cases ha : a.error.isSome <;> by_cases hb : b.error.isSome <;> simp [ha, hb, List.append_assoc]

theorem RunResult.app_of_error {r : RunResult} (h : r.error.isSome) (d : RunResult) : r.app d = r := by
  simp [RunResult.app, h]

theorem RunResult.app_of_ok {r : RunResult} (h : r.error = none) (d : RunResult) :
    r.app d = { writes := r.writes ++ d.writes, stdout := r.stdout ++ d.stdout, error := d.error } := by
  simp [RunResult.app, h]

/-! ## the flattened walk -/

/-- generate one item on top of the run `r` -/
def emitItem (c : WalkCfg) (pfx : Str) (it : WItem) (r : RunResult) : RunResult :=
  match it with
  | .page rel name content => emitPage c (some pfx) rel name content r
  | .index rel subdirs files =>
    if r.error.isSome then r else
    if c.toStdout then r else
    match indexPage c pfx rel subdirs files with
    | .error e => { r with error := some e }
    | .ok text => { r with writes := r.writes ++ [⟨rel ++ [lit "index.rst"], text⟩] }

def runItems (c : WalkCfg) (pfx : Str) (items : List WItem) (r : RunResult) : RunResult :=
  items.foldl (fun r it => emitItem c pfx it r) r

/-- one description for both kinds of item -/
theorem emitItem_eq (c : WalkCfg) (pfx : Str) (it : WItem) (r : RunResult) :
    emitItem c pfx it r =
      if r.error.isSome then r else
      if c.toStdout && !it.isPage then r else
      match it.text c pfx with
      | .error e => { r with error := some e }
      | .ok t =>
        if c.toStdout then { r with stdout := r.stdout ++ t ++ ['\n', '\n'] }
        else { r with writes := r.writes ++ [⟨it.path, t⟩] } := by
  cases it with
  | page rel name content =>
    simp only [emitItem, emitPage, WItem.text, WItem.isPage, WItem.path, Bool.not_true, Bool.and_false,
      Bool.false_eq_true, if_false]
    rfl
  | index rel subdirs files =>
    simp only [emitItem, WItem.text, WItem.isPage, WItem.path, Bool.not_false, Bool.and_true]
    by_cases h : c.toStdout = true
    · simp [h]
    · simp only [h]
      split
      · rfl
      · simp only [Bool.false_eq_true, if_false]

theorem emitItem_of_error {c : WalkCfg} {pfx : Str} {it : WItem} {r : RunResult} (h : r.error.isSome) :
    emitItem c pfx it r = r := by
  rw [emitItem_eq]; simp [h]

theorem emitItem_app (c : WalkCfg) (pfx : Str) (it : WItem) (r : RunResult) :
    emitItem c pfx it r = r.app (emitItem c pfx it {}) := by
  by_cases h : r.error.isSome
  · rw [emitItem_of_error h, RunResult.app_of_error h]
  · have h' : r.error = none := by simpa using h
    rw [RunResult.app_of_ok h', emitItem_eq, emitItem_eq c pfx it {}]
    simp only [h]
    by_cases h2 : (c.toStdout && !it.isPage) = true
    · simp only [h2, if_true]
      apply RunResult.ext' <;> simp [h']
    · simp only [h2]
      cases it.text c pfx with
      | error e => simp
      | ok t =>
        by_cases h3 : c.toStdout = true <;> simp [h3, h', List.append_assoc]

theorem runItems_nil (c : WalkCfg) (pfx : Str) (r : RunResult) : runItems c pfx [] r = r := rfl

theorem runItems_cons (c : WalkCfg) (pfx : Str) (it : WItem) (items : List WItem) (r : RunResult) :
    runItems c pfx (it :: items) r = runItems c pfx items (emitItem c pfx it r) := rfl

theorem runItems_append (c : WalkCfg) (pfx : Str) (a b : List WItem) (r : RunResult) :
    runItems c pfx (a ++ b) r = runItems c pfx b (runItems c pfx a r) := by
  simp [runItems, List.foldl_append]

theorem runItems_of_error {c : WalkCfg} {pfx : Str} {items : List WItem} {r : RunResult} (h : r.error.isSome) :
    runItems c pfx items r = r := by
  induction items with
  | nil => rfl
  | cons it items ih => rw [runItems_cons, emitItem_of_error h, ih]

theorem runItems_app (c : WalkCfg) (pfx : Str) (items : List WItem) (r : RunResult) :
    runItems c pfx items r = r.app (runItems c pfx items {}) := by
  induction items generalizing r with
  | nil => simp [runItems_nil, RunResult.app_empty]
  | cons it items ih =>
    rw [runItems_cons, runItems_cons, ih, ih (emitItem c pfx it {}), emitItem_app, RunResult.app_assoc]

/-! ### error-free outcome, outcome at the first error -/

/-- an item counts in the present mode: index pages are not even built in stdout mode -/
def WItem.active (c : WalkCfg) (it : WItem) : Bool := !c.toStdout || it.isPage

/-- what an item that renders adds to standard output (stdout mode) -/
def WItem.printed (c : WalkCfg) (pfx : Str) (it : WItem) : Str :=
  if it.isPage then it.textD c pfx ++ ['\n', '\n'] else []

theorem emitItem_ok {c : WalkCfg} {pfx : Str} {it : WItem} {r : RunResult} (hr : r.error = none)
    (hok : it.active c = true → (it.text c pfx).isOk = true) :
    emitItem c pfx it r =
      { writes := r.writes ++ (if c.toStdout then [] else [it.write c pfx]),
        stdout := r.stdout ++ (if c.toStdout then it.printed c pfx else []),
        error := none } := by
  rw [emitItem_eq]
  simp only [hr, Option.isSome_none, Bool.false_eq_true, if_false]
  by_cases h1 : c.toStdout = true
  · cases hp : it.isPage
    · apply RunResult.ext' <;> simp [h1, hp, WItem.printed, hr]
    · have := hok (by simp [WItem.active, hp])
      cases ht : it.text c pfx with
      | error e => simp [ht, Except.isOk, Except.toBool] at this
      | ok t => simp [h1, hp, WItem.printed, WItem.textD, ht, okText]
  · have := hok (by simp [WItem.active, h1])
    cases ht : it.text c pfx with
    | error e => simp [ht, Except.isOk, Except.toBool] at this
    | ok t => simp [h1, WItem.write, WItem.textD, ht, okText]

theorem runItems_ok {c : WalkCfg} {pfx : Str} {items : List WItem} {r : RunResult} (hr : r.error = none)
    (hok : ∀ it ∈ items, it.active c = true → (it.text c pfx).isOk = true) :
    runItems c pfx items r =
      { writes := r.writes ++ (if c.toStdout then [] else items.map (WItem.write c pfx)),
        stdout := r.stdout ++ (if c.toStdout then (items.map (WItem.printed c pfx)).flatten else []),
        error := none } := by
  induction items generalizing r with
  | nil =>
    apply RunResult.ext' <;> simp [runItems_nil, hr]
  | cons it items ih =>
    rw [runItems_cons, emitItem_ok hr (hok it (by simp)), ih rfl (fun x hx => hok x (by simp [hx]))]
    by_cases h1 : c.toStdout = true <;> simp [h1, List.append_assoc]

theorem emitItem_err {c : WalkCfg} {pfx : Str} {it : WItem} {r : RunResult} {e : Err} (hr : r.error = none)
    (hact : it.active c = true) (he : it.text c pfx = .error e) :
    emitItem c pfx it r = { r with error := some e } := by
  rw [emitItem_eq]
  have : (c.toStdout && !it.isPage) = false := by
    simp only [WItem.active] at hact
    cases h1 : c.toStdout <;> cases h2 : it.isPage <;> simp_all
  simp [hr, this, he]

/-- the run stops at the first item that fails -/
theorem runItems_err {c : WalkCfg} {pfx : Str} {pre post : List WItem} {it : WItem} {r : RunResult} {e : Err}
    (hr : r.error = none)
    (hok : ∀ x ∈ pre, x.active c = true → (x.text c pfx).isOk = true)
    (hact : it.active c = true) (he : it.text c pfx = .error e) :
    runItems c pfx (pre ++ it :: post) r =
      { writes := r.writes ++ (if c.toStdout then [] else pre.map (WItem.write c pfx)),
        stdout := r.stdout ++ (if c.toStdout then (pre.map (WItem.printed c pfx)).flatten else []),
        error := some e } := by
  rw [runItems_append, runItems_cons, runItems_ok hr hok, emitItem_err rfl hact he, runItems_of_error (by simp)]

/-! ## `emitFiles` is `runItems` over `dirPages` -/

theorem emitFiles_eq (c : WalkCfg) (pfx : Str) (rel : List Str) (listing : List FsNode) (names : List Str)
    (r : RunResult) :
    emitFiles c (some pfx) rel listing names r = runItems c pfx (dirPages rel listing names) r := by
  induction names generalizing r with
  | nil => rfl
  | cons f fs ih =>
    rw [emitFiles, ih]
    by_cases h : isCMakeName f = true
    · cases hf : findFile f listing with
      | none => simp [dirPages, h, hf]
      | some content => simp [dirPages, h, hf, runItems_cons, emitItem]
    · simp [dirPages, h]

/-! ## the layout exactly as the model walks it -/

/-- the model's test "walk into the sub-directory named `n`", by name lookup in the listing -/
def keepDir (c : WalkCfg) (excl : List Str → Bool → Bool) (rel : List Str) (listing : List FsNode) (n : Str) : Bool :=
  !excl (rel ++ [n]) true &&
    (!c.autoExclude || (match listing.find? (fun x => match x with | .dir m _ => m == n | _ => false) with
                         | some (.dir _ ch) => hasCMake excl (rel ++ [n]) ch
                         | _ => false))

def dirItemsK (c : WalkCfg) (excl : List Str → Bool → Bool) (rel : List Str) (listing : List FsNode) : List WItem :=
  if c.autoExclude && !(keptFiles excl rel listing).any isLowerCMakeName then []
  else .index rel (sortStrs ((dirNames listing).filter (keepDir c excl rel listing)))
          (sortStrs (keptFiles excl rel listing))
       :: dirPages rel listing (sortStrs (keptFiles excl rel listing))

mutual
def nodeLayoutK (c : WalkCfg) (excl : List Str → Bool → Bool) (rel : List Str) (keep : Str → Bool) : FsNode → List WItem
  | .file _ _ => []
  | .dir n ch =>
    if keep n then
      dirItemsK c excl (rel ++ [n]) ch ++
        (if c.recursive then subsLayoutK c excl (rel ++ [n]) (keepDir c excl (rel ++ [n]) ch) ch else [])
    else []
def subsLayoutK (c : WalkCfg) (excl : List Str → Bool → Bool) (rel : List Str) (keep : Str → Bool) : List FsNode → List WItem
  | [] => []
  | x :: xs => nodeLayoutK c excl rel keep x ++ subsLayoutK c excl rel keep xs
end

def layoutK (c : WalkCfg) (excl : List Str → Bool → Bool) (rel : List Str) (listing : List FsNode) : List WItem :=
  dirItemsK c excl rel listing ++
    (if c.recursive then subsLayoutK c excl rel (keepDir c excl rel listing) listing else [])

theorem nodeLayoutK_dir (c : WalkCfg) (excl : List Str → Bool → Bool) (rel : List Str) (keep : Str → Bool)
    (n : Str) (ch : List FsNode) :
    nodeLayoutK c excl rel keep (.dir n ch) = if keep n then layoutK c excl (rel ++ [n]) ch else [] := by
  simp [nodeLayoutK, layoutK]

theorem walkDir_eq_aux (c : WalkCfg) (excl : List Str → Bool → Bool) (pfx : Str) (rel : List Str)
    (listing : List FsNode) (r : RunResult)
    (h : ∀ keep r, walkSubs c excl pfx rel keep listing r = runItems c pfx (subsLayoutK c excl rel keep listing) r) :
    walkDir c excl pfx rel listing r = runItems c pfx (layoutK c excl rel listing) r := by
  rw [walkDir]
  by_cases hr : r.error.isSome = true
  · simp [hr, runItems_of_error hr]
  · rw [if_neg hr]
    unfold layoutK dirItemsK
    change (if (c.autoExclude && !(keptFiles excl rel listing).any isLowerCMakeName) = true then
        if c.recursive = true then walkSubs c excl pfx rel (keepDir c excl rel listing) listing r else r
      else
        if c.recursive = true then
          walkSubs c excl pfx rel (keepDir c excl rel listing) listing
            (emitFiles c (some pfx) rel listing (sortStrs (keptFiles excl rel listing))
              (if c.toStdout = true then r else
                match indexPage c pfx rel (sortStrs ((dirNames listing).filter (keepDir c excl rel listing)))
                    (sortStrs (keptFiles excl rel listing)) with
                | .error e => { r with error := some e }
                | .ok text => { r with writes := r.writes ++ [⟨rel ++ [lit "index.rst"], text⟩] }))
        else
          emitFiles c (some pfx) rel listing (sortStrs (keptFiles excl rel listing))
              (if c.toStdout = true then r else
                match indexPage c pfx rel (sortStrs ((dirNames listing).filter (keepDir c excl rel listing)))
                    (sortStrs (keptFiles excl rel listing)) with
                | .error e => { r with error := some e }
                | .ok text => { r with writes := r.writes ++ [⟨rel ++ [lit "index.rst"], text⟩] })) = _
    by_cases ha : (c.autoExclude && !(keptFiles excl rel listing).any isLowerCMakeName) = true
    · rw [if_pos ha, if_pos ha, List.nil_append]
      by_cases hrec : c.recursive = true
      · rw [if_pos hrec, if_pos hrec, h]
      · rw [if_neg hrec, if_neg hrec, runItems_nil]
    · rw [if_neg ha, if_neg ha, runItems_append, runItems_cons]
      have hidx : emitItem c pfx (.index rel (sortStrs ((dirNames listing).filter (keepDir c excl rel listing)))
            (sortStrs (keptFiles excl rel listing))) r =
          (if c.toStdout = true then r else
            match indexPage c pfx rel (sortStrs ((dirNames listing).filter (keepDir c excl rel listing)))
                (sortStrs (keptFiles excl rel listing)) with
            | .error e => { r with error := some e }
            | .ok text => { r with writes := r.writes ++ [⟨rel ++ [lit "index.rst"], text⟩] }) := by
        simp only [emitItem]
        rw [if_neg hr]
      rw [hidx, ← emitFiles_eq]
      by_cases hrec : c.recursive = true
      · rw [if_pos hrec, if_pos hrec, h]
      · rw [if_neg hrec, if_neg hrec, runItems_nil]

theorem walkSubs_eq (c : WalkCfg) (excl : List Str → Bool → Bool) (pfx : Str) :
    ∀ (l : List FsNode) (rel : List Str) (keep : Str → Bool) (r : RunResult),
      walkSubs c excl pfx rel keep l r = runItems c pfx (subsLayoutK c excl rel keep l) r
  | [], rel, keep, r => by simp [walkSubs, subsLayoutK, runItems_nil]
  | .file _ _ :: rest, rel, keep, r => by
    rw [walkSubs, walkSubs_eq c excl pfx rest]
    simp [subsLayoutK, nodeLayoutK]
  | .dir n ch :: rest, rel, keep, r => by
    rw [walkSubs, walkSubs_eq c excl pfx rest, subsLayoutK, runItems_append, nodeLayoutK_dir]
    congr 1
    by_cases hk : keep n = true
    · simp only [hk, if_true]
      exact walkDir_eq_aux c excl pfx (rel ++ [n]) ch r (fun keep r => walkSubs_eq c excl pfx ch _ keep r)
    · simp [hk, runItems_nil]

/-- the walk of a directory is the sequential generation of its (model-order) layout — for every tree -/
theorem walkDir_eq (c : WalkCfg) (excl : List Str → Bool → Bool) (pfx : Str) (rel : List Str)
    (listing : List FsNode) (r : RunResult) :
    walkDir c excl pfx rel listing r = runItems c pfx (layoutK c excl rel listing) r :=
  walkDir_eq_aux c excl pfx rel listing r (fun keep r => walkSubs_eq c excl pfx listing rel keep r)

/-! ## for file-system trees the model-order layout is the declarative one -/

theorem hasCMake_eq (excl : List Str → Bool → Bool) (rel : List Str) (listing : List FsNode) :
    hasCMake excl rel listing = (keptFiles excl rel listing).any isLowerCMakeName := by
  simp only [hasCMake, keptFiles, List.any_filter]
  congr 1
  funext f
  exact Bool.and_comm _ _

theorem dirNamesDistinct_iff (l : List Str) : dirNamesDistinct l = true ↔ l.Nodup := by
  induction l with
  | nil => simp [dirNamesDistinct]
  | cons n ns ih => simp [dirNamesDistinct, ih]

theorem treeOk_iff (listing : List FsNode) :
    treeOk listing = true ↔ (dirNames listing).Nodup ∧ listOk listing = true := by
  simp [treeOk, dirNamesDistinct_iff]

theorem nodeOk_dir (n : Str) (ch : List FsNode) : nodeOk (.dir n ch) = treeOk ch := by
  simp [nodeOk, treeOk]

theorem listOk_mem {l : List FsNode} (h : listOk l = true) {x : FsNode} (hx : x ∈ l) : nodeOk x = true := by
  induction l with
  | nil => simp at hx
  | cons y ys ih =>
    simp only [listOk, Bool.and_eq_true] at h
    rcases List.mem_cons.1 hx with rfl | hx
    · exact h.1
    · exact ih h.2 hx

theorem treeOk_child {listing : List FsNode} (h : treeOk listing = true) {n : Str} {ch : List FsNode}
    (hx : FsNode.dir n ch ∈ listing) : treeOk ch = true := by
  rw [← nodeOk_dir n ch]
  exact listOk_mem ((treeOk_iff listing).1 h).2 hx

theorem mem_dirNames {l : List FsNode} {n : Str} : n ∈ dirNames l ↔ ∃ ch, FsNode.dir n ch ∈ l := by
  induction l with
  | nil => simp [dirNames]
  | cons x xs ih =>
    cases x with
    | file m ct => simp [dirNames, ih]
    | dir m ch =>
      simp only [dirNames, List.mem_cons, ih, FsNode.dir.injEq]
      constructor
      · rintro (rfl | ⟨ch', h⟩)
        · exact ⟨ch, Or.inl ⟨rfl, rfl⟩⟩
        · exact ⟨ch', Or.inr h⟩
      · rintro ⟨ch', ⟨rfl, rfl⟩ | h⟩
        · exact Or.inl rfl
        · exact Or.inr ⟨ch', h⟩

theorem mem_fileNames {l : List FsNode} {f : Str} : f ∈ fileNames l ↔ ∃ ct, FsNode.file f ct ∈ l := by
  induction l with
  | nil => simp [fileNames]
  | cons x xs ih =>
    cases x with
    | dir m ch => simp [fileNames, ih]
    | file m ct =>
      simp only [fileNames, List.mem_cons, ih, FsNode.file.injEq]
      constructor
      · rintro (rfl | ⟨ct', h⟩)
        · exact ⟨ct, Or.inl ⟨rfl, rfl⟩⟩
        · exact ⟨ct', Or.inr h⟩
      · rintro ⟨ct', ⟨rfl, rfl⟩ | h⟩
        · exact Or.inl rfl
        · exact Or.inr ⟨ct', h⟩

theorem find_dir_of_nodup {l : List FsNode} (hnd : (dirNames l).Nodup) {n : Str} {ch : List FsNode}
    (hx : FsNode.dir n ch ∈ l) :
    l.find? (fun x => match x with | .dir m _ => m == n | _ => false) = some (.dir n ch) := by
  induction l with
  | nil => simp at hx
  | cons y ys ih =>
    cases y with
    | file m ct =>
      simp only [List.mem_cons, reduceCtorEq, false_or] at hx
      simp only [dirNames] at hnd
      simpa [List.find?] using ih hnd hx
    | dir m ch' =>
      simp only [dirNames, List.nodup_cons] at hnd
      rcases List.mem_cons.1 hx with heq | hx
      · cases heq
        simp [List.find?]
      · have hne : m ≠ n := by
          rintro rfl
          exact hnd.1 (mem_dirNames.2 ⟨ch, hx⟩)
        have hne' : (m == n) = false := by simpa using hne
        simp only [List.find?, hne']
        exact ih hnd.2 hx

theorem keepDir_eq {c : WalkCfg} {excl : List Str → Bool → Bool} {rel : List Str} {listing : List FsNode}
    (hnd : (dirNames listing).Nodup) {n : Str} {ch : List FsNode} (hx : FsNode.dir n ch ∈ listing) :
    keepDir c excl rel listing n = survives c excl rel n ch := by
  simp only [keepDir, survives, find_dir_of_nodup hnd hx]

theorem filter_keep_eq (c : WalkCfg) (excl : List Str → Bool → Bool) (rel : List Str) (keep : Str → Bool) :
    ∀ (l : List FsNode), (∀ n ch, FsNode.dir n ch ∈ l → keep n = survives c excl rel n ch) →
      (dirNames l).filter keep = survivingDirs c excl rel l
  | [], _ => rfl
  | .file _ _ :: rest, h => by
    simp only [dirNames, survivingDirs]
    exact filter_keep_eq c excl rel keep rest (fun n ch hx => h n ch (List.mem_cons_of_mem _ hx))
  | .dir n ch :: rest, h => by
    simp only [dirNames, survivingDirs, List.filter_cons, h n ch (List.mem_cons_self ..)]
    rw [filter_keep_eq c excl rel keep rest (fun n ch hx => h n ch (List.mem_cons_of_mem _ hx))]

theorem dirItemsK_eq {c : WalkCfg} {excl : List Str → Bool → Bool} {rel : List Str} {listing : List FsNode}
    (hnd : (dirNames listing).Nodup) : dirItemsK c excl rel listing = dirItems c excl rel listing := by
  simp only [dirItemsK, dirItems, hasCMake_eq]
  rw [filter_keep_eq c excl rel _ listing (fun n ch hx => keepDir_eq hnd hx)]

theorem nodeLayout_dir (c : WalkCfg) (excl : List Str → Bool → Bool) (rel : List Str) (n : Str) (ch : List FsNode) :
    nodeLayout c excl rel (.dir n ch) = if survives c excl rel n ch then layoutOf c excl (rel ++ [n]) ch else [] := by
  simp [nodeLayout, layoutOf]

theorem subsLayout_file (c : WalkCfg) (excl : List Str → Bool → Bool) (rel : List Str) (n ct : Str) (rest : List FsNode) :
    subsLayout c excl rel (.file n ct :: rest) = subsLayout c excl rel rest := by
  simp [subsLayout, nodeLayout]

theorem subsLayout_dir (c : WalkCfg) (excl : List Str → Bool → Bool) (rel : List Str) (n : Str) (ch rest : List FsNode) :
    subsLayout c excl rel (.dir n ch :: rest) =
      (if survives c excl rel n ch then layoutOf c excl (rel ++ [n]) ch else []) ++ subsLayout c excl rel rest := by
  rw [subsLayout, nodeLayout_dir]

theorem subsLayoutK_eq (c : WalkCfg) (excl : List Str → Bool → Bool) :
    ∀ (l : List FsNode) (rel : List Str) (keep : Str → Bool), listOk l = true →
      (∀ n ch, FsNode.dir n ch ∈ l → keep n = survives c excl rel n ch) →
      subsLayoutK c excl rel keep l = subsLayout c excl rel l
  | [], _, _, _, _ => by simp [subsLayoutK, subsLayout]
  | .file _ _ :: rest, rel, keep, hok, h => by
    simp only [listOk, Bool.and_eq_true] at hok
    rw [subsLayoutK, subsLayout_file, subsLayoutK_eq c excl rest rel keep hok.2
      (fun n ch hx => h n ch (List.mem_cons_of_mem _ hx))]
    simp [nodeLayoutK]
  | .dir n ch :: rest, rel, keep, hok, h => by
    simp only [listOk, Bool.and_eq_true, nodeOk_dir] at hok
    have hch := (treeOk_iff ch).1 hok.1
    rw [subsLayoutK, subsLayout_dir, subsLayoutK_eq c excl rest rel keep hok.2
      (fun n ch hx => h n ch (List.mem_cons_of_mem _ hx)), nodeLayoutK_dir, h n ch (List.mem_cons_self ..)]
    congr 2
    unfold layoutK layoutOf
    rw [dirItemsK_eq hch.1, subsLayoutK_eq c excl ch (rel ++ [n]) _ hch.2 (fun m ch' hx => keepDir_eq hch.1 hx)]

/-- on a tree with distinct sub-directory names the model walks exactly the declarative layout -/
theorem layoutK_eq {c : WalkCfg} {excl : List Str → Bool → Bool} {rel : List Str} {listing : List FsNode}
    (hok : treeOk listing = true) : layoutK c excl rel listing = layoutOf c excl rel listing := by
  have h := (treeOk_iff listing).1 hok
  unfold layoutK layoutOf
  rw [dirItemsK_eq h.1, subsLayoutK_eq c excl listing rel _ h.2 (fun m ch' hx => keepDir_eq h.1 hx)]

theorem walkDir_eq_layout {c : WalkCfg} {excl : List Str → Bool → Bool} {pfx : Str} {rel : List Str}
    {listing : List FsNode} (hok : treeOk listing = true) (r : RunResult) :
    walkDir c excl pfx rel listing r = runItems c pfx (layoutOf c excl rel listing) r := by
  rw [walkDir_eq, layoutK_eq hok]

/-- file mode, everything renders: no error is recorded -/
theorem walkDir_error_none {c : WalkCfg} {excl : List Str → Bool → Bool} {pfx : Str} {rel : List Str}
    {listing : List FsNode} {r : RunResult} (htree : treeOk listing = true) (hr : r.error = none)
    (hok : ∀ it ∈ layoutOf c excl rel listing, it.active c = true → (it.text c pfx).isOk = true) :
    (walkDir c excl pfx rel listing r).error = none := by
  rw [walkDir_eq_layout htree, runItems_ok hr hok]

/-! ## mode lemmas: where output goes -/

theorem emitPage_of_error {c : WalkCfg} {pfx : Option Str} {rel : List Str} {name content : Str} {r : RunResult}
    (h : r.error.isSome) : emitPage c pfx rel name content r = r := by
  simp [emitPage, h]

theorem emitPage_writes_of_stdout {c : WalkCfg} (h : c.toStdout = true) (pfx : Option Str) (rel : List Str)
    (name content : Str) (r : RunResult) : (emitPage c pfx rel name content r).writes = r.writes := by
  unfold emitPage
  split
  · rfl
  · split
    · rfl
    · simp

theorem emitPage_stdout_of_file {c : WalkCfg} (h : c.toStdout = false) (pfx : Option Str) (rel : List Str)
    (name content : Str) (r : RunResult) : (emitPage c pfx rel name content r).stdout = r.stdout := by
  unfold emitPage
  split
  · rfl
  · split
    · rfl
    · simp [h]

theorem emitPage_app (c : WalkCfg) (pfx : Option Str) (rel : List Str) (name content : Str) (r : RunResult) :
    emitPage c pfx rel name content r = r.app (emitPage c pfx rel name content {}) := by
  by_cases h : r.error.isSome
  · rw [emitPage_of_error h, RunResult.app_of_error h]
  · have h' : r.error = none := by simpa using h
    rw [RunResult.app_of_ok h']
    unfold emitPage
    simp only [h', Option.isSome_none, Bool.false_eq_true, if_false]
    cases page c pfx (joinWith ['/'] (rel ++ [name])) content with
    | error e => simp
    | ok t => by_cases h3 : c.toStdout = true <;> simp [h3, List.append_assoc]

theorem emitItem_writes_of_stdout {c : WalkCfg} (h : c.toStdout = true) (pfx : Str) (it : WItem) (r : RunResult) :
    (emitItem c pfx it r).writes = r.writes := by
  rw [emitItem_eq]
  split
  · rfl
  · split
    · rfl
    · split
      · rfl
      · simp

theorem emitItem_stdout_of_file {c : WalkCfg} (h : c.toStdout = false) (pfx : Str) (it : WItem) (r : RunResult) :
    (emitItem c pfx it r).stdout = r.stdout := by
  rw [emitItem_eq]
  split
  · rfl
  · split
    · rfl
    · split
      · rfl
      · simp [h]

theorem runItems_writes_of_stdout {c : WalkCfg} (h : c.toStdout = true) (pfx : Str) (items : List WItem)
    (r : RunResult) : (runItems c pfx items r).writes = r.writes := by
  induction items generalizing r with
  | nil => rfl
  | cons it items ih => rw [runItems_cons, ih, emitItem_writes_of_stdout h]

theorem runItems_stdout_of_file {c : WalkCfg} (h : c.toStdout = false) (pfx : Str) (items : List WItem)
    (r : RunResult) : (runItems c pfx items r).stdout = r.stdout := by
  induction items generalizing r with
  | nil => rfl
  | cons it items ih => rw [runItems_cons, ih, emitItem_stdout_of_file h]

/-! ## pages and indexes of an item list -/

theorem mem_filterMap_page? {items : List WItem} {p : List Str × Str × Str} :
    p ∈ items.filterMap WItem.page? ↔ WItem.page p.1 p.2.1 p.2.2 ∈ items := by
  simp only [List.mem_filterMap]
  constructor
  · rintro ⟨it, hit, h⟩
    cases it with
    | index => simp [WItem.page?] at h
    | page rel name content =>
      simp only [WItem.page?, Option.some.injEq] at h
      subst h
      exact hit
  · intro h
    exact ⟨_, h, rfl⟩

theorem mem_filterMap_index? {items : List WItem} {d : List Str × List Str × List Str} :
    d ∈ items.filterMap WItem.index? ↔ WItem.index d.1 d.2.1 d.2.2 ∈ items := by
  simp only [List.mem_filterMap]
  constructor
  · rintro ⟨it, hit, h⟩
    cases it with
    | page => simp [WItem.index?] at h
    | index rel subs files =>
      simp only [WItem.index?, Option.some.injEq] at h
      subst h
      exact hit
  · intro h
    exact ⟨_, h, rfl⟩

theorem mem_pagesOf {c : WalkCfg} {excl : List Str → Bool → Bool} {rel : List Str} {listing : List FsNode}
    {p : List Str × Str × Str} :
    p ∈ pagesOf c excl rel listing ↔ WItem.page p.1 p.2.1 p.2.2 ∈ layoutOf c excl rel listing :=
  mem_filterMap_page?

theorem mem_indexesOf {c : WalkCfg} {excl : List Str → Bool → Bool} {rel : List Str} {listing : List FsNode}
    {d : List Str × List Str × List Str} :
    d ∈ indexesOf c excl rel listing ↔ WItem.index d.1 d.2.1 d.2.2 ∈ layoutOf c excl rel listing :=
  mem_filterMap_index?

theorem indexPage_isOk {c : WalkCfg} (hh : c.headers ≠ []) (pfx : Str) (rel subdirs files : List Str) :
    (indexPage c pfx rel subdirs files).isOk = true := by
  unfold indexPage
  cases h : c.headers with
  | nil => exact absurd h hh
  | cons hc _ => rfl

/-- the index text is the serialised `indexDoc` -/
theorem indexPage_eq {c : WalkCfg} {hc : Str} {hs : List Str} (hh : c.headers = hc :: hs) (pfx : Str)
    (rel subdirs files : List Str) :
    indexPage c pfx rel subdirs files = .ok (indexDoc c pfx hc rel subdirs files).render := by
  unfold indexPage
  rw [hh]
  rfl

/-- in stdout mode only pages have to render -/
theorem items_ok_of_stdout {c : WalkCfg} {pfx : Str} {items : List WItem} (hs : c.toStdout = true)
    (hp : ∀ p ∈ items.filterMap WItem.page?, (page c (some pfx) (relPath p) p.2.2).isOk = true) :
    ∀ it ∈ items, it.active c = true → (it.text c pfx).isOk = true := by
  intro it hit hact
  cases it with
  | index rel subs files => simp [WItem.active, hs, WItem.isPage] at hact
  | page rel name content => exact hp (rel, name, content) (mem_filterMap_page?.2 hit)

/-- in file mode everything renders if the pages do and there is a heading character -/
theorem items_ok_of_file {c : WalkCfg} {pfx : Str} {items : List WItem} (hh : c.headers ≠ [])
    (hp : ∀ p ∈ items.filterMap WItem.page?, (page c (some pfx) (relPath p) p.2.2).isOk = true) :
    ∀ it ∈ items, it.active c = true → (it.text c pfx).isOk = true := by
  intro it hit _
  cases it with
  | index rel subs files => exact indexPage_isOk hh pfx rel subs files
  | page rel name content => exact hp (rel, name, content) (mem_filterMap_page?.2 hit)

theorem printed_flatten (c : WalkCfg) (pfx : Str) (items : List WItem) :
    (items.map (WItem.printed c pfx)).flatten =
      ((items.filterMap WItem.page?).map (fun p => pageText c pfx p ++ ['\n', '\n'])).flatten := by
  induction items with
  | nil => rfl
  | cons it items ih =>
    rw [List.map_cons, List.flatten_cons, ih, List.filterMap_cons]
    cases it with
    | index rel subs files => simp only [WItem.page?, WItem.printed, WItem.isPage]; rfl
    | page rel name content =>
      simp only [WItem.page?, WItem.printed, WItem.isPage, if_true, List.map_cons, List.flatten_cons]
      rfl

theorem page_writes (c : WalkCfg) (pfx : Str) (items : List WItem) :
    (items.filter WItem.isPage).map (WItem.write c pfx) =
      (items.filterMap WItem.page?).map (fun p => (⟨pagePath p, pageText c pfx p⟩ : Write)) := by
  induction items with
  | nil => rfl
  | cons it items ih =>
    rw [List.filter_cons, List.filterMap_cons]
    cases it with
    | index rel subs files => simp only [WItem.page?, WItem.isPage]; exact ih
    | page rel name content =>
      simp only [WItem.page?, WItem.isPage, if_true, List.map_cons, ih]
      rfl

theorem index_writes (c : WalkCfg) (pfx : Str) (items : List WItem) :
    (items.filter (fun it => !it.isPage)).map (WItem.write c pfx) =
      (items.filterMap WItem.index?).map
        (fun d => (⟨indexPath d, okText (indexPage c pfx d.1 d.2.1 d.2.2)⟩ : Write)) := by
  induction items with
  | nil => rfl
  | cons it items ih =>
    rw [List.filter_cons, List.filterMap_cons]
    cases it with
    | page rel name content =>
      have h : (WItem.page rel name content).isPage = true := rfl
      simp only [WItem.index?, h, Bool.not_true, Bool.false_eq_true, if_false]; exact ih
    | index rel subs files =>
      have h : (WItem.index rel subs files).isPage = false := rfl
      simp only [WItem.index?, h, Bool.not_false, if_true, List.map_cons, ih]
      rfl

/-! ## the layout does not look at the output mode -/

theorem subsLayout_congr {c c' : WalkCfg} (excl : List Str → Bool → Bool) (ha : c.autoExclude = c'.autoExclude)
    (hr : c.recursive = c'.recursive) :
    ∀ (l : List FsNode) (rel : List Str), subsLayout c excl rel l = subsLayout c' excl rel l
  | [], _ => by simp [subsLayout]
  | .file _ _ :: rest, rel => by
    rw [subsLayout_file, subsLayout_file, subsLayout_congr excl ha hr rest]
  | .dir n ch :: rest, rel => by
    have hs : ∀ rel l, survivingDirs c excl rel l = survivingDirs c' excl rel l := by
      intro rel l
      induction l with
      | nil => rfl
      | cons x xs ih => cases x <;> simp [survivingDirs, survives, ha, ih]
    rw [subsLayout_dir, subsLayout_dir, subsLayout_congr excl ha hr rest]
    simp only [survives, layoutOf, dirItems, ha, hr, hs, subsLayout_congr excl ha hr ch]
    rfl

theorem layoutOf_congr {c c' : WalkCfg} (excl : List Str → Bool → Bool) (ha : c.autoExclude = c'.autoExclude)
    (hr : c.recursive = c'.recursive) (rel : List Str) (listing : List FsNode) :
    layoutOf c excl rel listing = layoutOf c' excl rel listing := by
  have hs : ∀ rel l, survivingDirs c excl rel l = survivingDirs c' excl rel l := by
    intro rel l
    induction l with
    | nil => rfl
    | cons x xs ih => cases x <;> simp [survivingDirs, survives, ha, ih]
  simp only [layoutOf, dirItems, ha, hr, hs, subsLayout_congr excl ha hr listing]

/-! ## the accumulator is only appended to -/

theorem walkDir_app (c : WalkCfg) (excl : List Str → Bool → Bool) (pfx : Str) (rel : List Str)
    (listing : List FsNode) (r : RunResult) :
    walkDir c excl pfx rel listing r = r.app (walkDir c excl pfx rel listing {}) := by
  rw [walkDir_eq, walkDir_eq c excl pfx rel listing {}, runItems_app]

theorem walkSubs_app (c : WalkCfg) (excl : List Str → Bool → Bool) (pfx : Str) (rel : List Str)
    (keep : Str → Bool) (l : List FsNode) (r : RunResult) :
    walkSubs c excl pfx rel keep l r = r.app (walkSubs c excl pfx rel keep l {}) := by
  rw [walkSubs_eq, walkSubs_eq c excl pfx l rel keep {}, runItems_app]

theorem emitFiles_cons (c : WalkCfg) (pfx : Option Str) (rel : List Str) (listing : List FsNode) (f : Str)
    (fs : List Str) (r : RunResult) :
    emitFiles c pfx rel listing (f :: fs) r =
      emitFiles c pfx rel listing fs (emitFiles c pfx rel listing [f] r) := by
  simp only [emitFiles]

theorem emitFiles_one_app (c : WalkCfg) (pfx : Option Str) (rel : List Str) (listing : List FsNode) (f : Str)
    (r : RunResult) :
    emitFiles c pfx rel listing [f] r = r.app (emitFiles c pfx rel listing [f] {}) := by
  simp only [emitFiles]
  split
  · split
    · exact emitPage_app ..
    · exact (RunResult.app_empty r).symm
  · exact (RunResult.app_empty r).symm

theorem emitFiles_app (c : WalkCfg) (pfx : Option Str) (rel : List Str) (listing : List FsNode)
    (names : List Str) (r : RunResult) :
    emitFiles c pfx rel listing names r = r.app (emitFiles c pfx rel listing names {}) := by
  induction names generalizing r with
  | nil => simp [emitFiles, RunResult.app_empty]
  | cons f fs ih =>
    rw [emitFiles_cons, emitFiles_cons c pfx rel listing f fs {}, ih, emitFiles_one_app,
      ih (emitFiles c pfx rel listing [f] {}), RunResult.app_assoc]

theorem emitFiles_of_error {c : WalkCfg} {pfx : Option Str} {rel : List Str} {listing : List FsNode}
    {names : List Str} {r : RunResult} (h : r.error.isSome) : emitFiles c pfx rel listing names r = r := by
  rw [emitFiles_app, RunResult.app_of_error h]

theorem document_app (c : WalkCfg) (excl : List Str → Bool → Bool) (exclRoot : Bool) (inp : Input) (r : RunResult) :
    (document c excl exclRoot inp r).1 = r.app (document c excl exclRoot inp {}).1 := by
  unfold document
  cases exclRoot
  · cases inp with
    | missing n => simp [RunResult.app_empty]
    | special n => simp [RunResult.app_empty]
    | file name content => simpa using emitPage_app ..
    | dir name listing => simpa using walkDir_app ..
  · simp [RunResult.app_empty]

theorem document_exit (c : WalkCfg) (excl : List Str → Bool → Bool) (exclRoot : Bool) (inp : Input) (r : RunResult) :
    (document c excl exclRoot inp r).2 = (document c excl exclRoot inp {}).2 := by
  unfold document
  cases exclRoot
  · cases inp <;> rfl
  · rfl

theorem document_of_error {c : WalkCfg} {excl : List Str → Bool → Bool} {exclRoot : Bool} {inp : Input}
    {r : RunResult} (h : r.error.isSome) : (document c excl exclRoot inp r).1 = r := by
  rw [document_app, RunResult.app_of_error h]

theorem runMain_status_ok {c : WalkCfg} {is : List MainInput} {r : RunResult}
    (h : (runMain c is r).2 = .ok) : r.error = none := by
  cases is with
  | nil =>
    unfold runMain at h
    cases he : r.error with
    | none => rfl
    | some e => simp [he] at h
  | cons i is =>
    unfold runMain at h
    cases he : r.error with
    | none => rfl
    | some e => simp [he] at h

theorem runMain_cons_ok {c : WalkCfg} {i : MainInput} {is : List MainInput} {r : RunResult}
    (hr : r.error = none) :
    runMain c (i :: is) r =
      if (document c i.excl i.exclRoot i.inp r).2 then ((document c i.excl i.exclRoot i.inp r).1, .exitMinus1)
      else runMain c is (document c i.excl i.exclRoot i.inp r).1 := by
  rw [runMain]
  simp only [hr]

/-! ## membership in the layout; `Processed` -/

theorem mem_sortStrs {l : List Str} {x : Str} : x ∈ sortStrs l ↔ x ∈ l :=
  (List.mergeSort_perm l strLe).mem_iff

theorem sortStrs_perm (l : List Str) : (sortStrs l).Perm l := List.mergeSort_perm l strLe

theorem mem_dirPages {rel : List Str} {listing : List FsNode} {names : List Str} {it : WItem} :
    it ∈ dirPages rel listing names ↔
      ∃ f ct, it = .page rel f ct ∧ f ∈ names ∧ isCMakeName f = true ∧ findFile f listing = some ct := by
  simp only [dirPages, List.mem_filterMap]
  constructor
  · rintro ⟨f, hf, h⟩
    by_cases hc : isCMakeName f = true
    · simp only [hc, if_true, Option.map_eq_some_iff] at h
      obtain ⟨ct, hct, rfl⟩ := h
      exact ⟨f, ct, rfl, hf, hc, hct⟩
    · simp [hc] at h
  · rintro ⟨f, ct, rfl, hf, hc, hct⟩
    exact ⟨f, hf, by simp [hc, hct]⟩

theorem mem_subsLayout {c : WalkCfg} {excl : List Str → Bool → Bool} {rel : List Str} {it : WItem} :
    ∀ {l : List FsNode}, it ∈ subsLayout c excl rel l ↔
      ∃ n ch, FsNode.dir n ch ∈ l ∧ survives c excl rel n ch = true ∧ it ∈ layoutOf c excl (rel ++ [n]) ch := by
  intro l
  induction l with
  | nil => simp [subsLayout]
  | cons x xs ih =>
    cases x with
    | file m ct => simp [subsLayout_file, ih]
    | dir m ch =>
      rw [subsLayout_dir, List.mem_append, ih]
      constructor
      · rintro (h | ⟨n, ch', hm, hs, hi⟩)
        · by_cases hs : survives c excl rel m ch = true
          · rw [if_pos hs] at h
            exact ⟨m, ch, List.mem_cons_self .., hs, h⟩
          · rw [if_neg hs] at h
            simp at h
        · exact ⟨n, ch', List.mem_cons_of_mem _ hm, hs, hi⟩
      · rintro ⟨n, ch', hm, hs, hi⟩
        rcases List.mem_cons.1 hm with heq | hm
        · cases heq
          left
          rw [if_pos hs]
          exact hi
        · exact Or.inr ⟨n, ch', hm, hs, hi⟩

theorem mem_layoutOf {c : WalkCfg} {excl : List Str → Bool → Bool} {rel : List Str} {listing : List FsNode}
    {it : WItem} :
    it ∈ layoutOf c excl rel listing ↔
      it ∈ dirItems c excl rel listing ∨
        (c.recursive = true ∧ ∃ n ch, FsNode.dir n ch ∈ listing ∧ survives c excl rel n ch = true ∧
          it ∈ layoutOf c excl (rel ++ [n]) ch) := by
  rw [layoutOf, List.mem_append]
  by_cases hr : c.recursive = true
  · simp only [hr, if_true, true_and, mem_subsLayout]
  · simp [hr]

theorem Processed.trans {c : WalkCfg} {excl : List Str → Bool → Bool} {rel₀ rel₁ rel₂ : List Str}
    {l₀ l₁ l₂ : List FsNode} (h₁ : Processed c excl rel₀ l₀ rel₁ l₁) (h₂ : Processed c excl rel₁ l₁ rel₂ l₂) :
    Processed c excl rel₀ l₀ rel₂ l₂ := by
  induction h₂ with
  | root => exact h₁
  | sub _ hr hm hs ih => exact .sub ih hr hm hs

/-- the layout of a processed directory is part of the layout of the start directory -/
theorem Processed.layout_subset {c : WalkCfg} {excl : List Str → Bool → Bool} {rel₀ rel : List Str}
    {l₀ l : List FsNode} (h : Processed c excl rel₀ l₀ rel l) :
    ∀ it ∈ layoutOf c excl rel l, it ∈ layoutOf c excl rel₀ l₀ := by
  induction h with
  | root => exact fun _ h => h
  | sub _ hr hm hs ih =>
    intro it hit
    exact ih it (mem_layoutOf.2 (Or.inr ⟨hr, _, _, hm, hs, hit⟩))

theorem Processed.guard {c : WalkCfg} {excl : List Str → Bool → Bool} {rel₀ rel : List Str}
    {l₀ l : List FsNode} (h : Processed c excl rel₀ l₀ rel l) (hg : Guard c excl rel₀ l₀) :
    Guard c excl rel l := by
  cases h with
  | root => exact hg
  | sub _ hr hm hs =>
    intro ha
    simp only [survives, ha, Bool.not_true, Bool.false_or, Bool.and_eq_true] at hs
    exact hs.2

theorem subsLayout_processed (c : WalkCfg) (excl : List Str → Bool → Bool) :
    ∀ (l : List FsNode) (rel : List Str) (it : WItem), it ∈ subsLayout c excl rel l →
      ∃ n ch, FsNode.dir n ch ∈ l ∧ survives c excl rel n ch = true ∧
        ∃ rel' l', Processed c excl (rel ++ [n]) ch rel' l' ∧ it ∈ dirItems c excl rel' l'
  | [], _, _, h => by simp [subsLayout] at h
  | .file _ _ :: rest, rel, it, h => by
    rw [subsLayout_file] at h
    obtain ⟨n, ch, hm, hs, hp⟩ := subsLayout_processed c excl rest rel it h
    exact ⟨n, ch, List.mem_cons_of_mem _ hm, hs, hp⟩
  | .dir m ch :: rest, rel, it, h => by
    rw [subsLayout_dir, List.mem_append] at h
    rcases h with h | h
    · by_cases hs : survives c excl rel m ch = true
      · rw [if_pos hs, layoutOf, List.mem_append] at h
        refine ⟨m, ch, List.mem_cons_self .., hs, ?_⟩
        rcases h with h | h
        · exact ⟨_, _, .root, h⟩
        · by_cases hr : c.recursive = true
          · rw [if_pos hr] at h
            obtain ⟨n, ch', hm, hs', rel', l', hp, hi⟩ := subsLayout_processed c excl ch (rel ++ [m]) it h
            exact ⟨rel', l', Processed.trans (.sub .root hr hm hs') hp, hi⟩
          · simp [hr] at h
      · simp [hs] at h
    · obtain ⟨n, ch', hm, hs, hp⟩ := subsLayout_processed c excl rest rel it h
      exact ⟨n, ch', List.mem_cons_of_mem _ hm, hs, hp⟩

/-- an item is generated iff it belongs to a processed directory -/
theorem mem_layoutOf_iff_processed {c : WalkCfg} {excl : List Str → Bool → Bool} {rel : List Str}
    {listing : List FsNode} {it : WItem} :
    it ∈ layoutOf c excl rel listing ↔
      ∃ rel' l', Processed c excl rel listing rel' l' ∧ it ∈ dirItems c excl rel' l' := by
  constructor
  · intro h
    rw [layoutOf, List.mem_append] at h
    rcases h with h | h
    · exact ⟨_, _, .root, h⟩
    · by_cases hr : c.recursive = true
      · rw [if_pos hr] at h
        obtain ⟨n, ch', hm, hs', rel', l', hp, hi⟩ := subsLayout_processed c excl listing rel it h
        exact ⟨rel', l', Processed.trans (.sub .root hr hm hs') hp, hi⟩
      · simp [hr] at h
  · rintro ⟨rel', l', hp, hi⟩
    exact hp.layout_subset it (mem_layoutOf.2 (Or.inl hi))

theorem mem_dirItems_index {c : WalkCfg} {excl : List Str → Bool → Bool} {rel : List Str} {listing : List FsNode}
    {rel' subs files : List Str} :
    WItem.index rel' subs files ∈ dirItems c excl rel listing ↔
      ¬(c.autoExclude = true ∧ hasCMake excl rel listing = false) ∧ rel' = rel ∧
        subs = sortStrs (survivingDirs c excl rel listing) ∧ files = sortStrs (keptFiles excl rel listing) := by
  unfold dirItems
  by_cases h : (c.autoExclude && !hasCMake excl rel listing) = true
  · rw [if_pos h]
    simp only [Bool.and_eq_true, Bool.not_eq_eq_eq_not, Bool.not_true] at h
    simp [h]
  · rw [if_neg h]
    simp only [Bool.and_eq_true, Bool.not_eq_eq_eq_not, Bool.not_true] at h
    simp [h, mem_dirPages]

theorem mem_dirItems_page {c : WalkCfg} {excl : List Str → Bool → Bool} {rel : List Str} {listing : List FsNode}
    {rel' : List Str} {f ct : Str} :
    WItem.page rel' f ct ∈ dirItems c excl rel listing ↔
      ¬(c.autoExclude = true ∧ hasCMake excl rel listing = false) ∧ rel' = rel ∧
        f ∈ keptFiles excl rel listing ∧ isCMakeName f = true ∧ findFile f listing = some ct := by
  unfold dirItems
  by_cases h : (c.autoExclude && !hasCMake excl rel listing) = true
  · rw [if_pos h]
    simp only [Bool.and_eq_true, Bool.not_eq_eq_eq_not, Bool.not_true] at h
    simp [h]
  · rw [if_neg h]
    simp only [Bool.and_eq_true, Bool.not_eq_eq_eq_not, Bool.not_true] at h
    simp only [List.mem_cons, reduceCtorEq, false_or, mem_dirPages, WItem.page.injEq, mem_sortStrs, h,
      not_false_eq_true, true_and]
    constructor
    · rintro ⟨f', ct', ⟨rfl, rfl, rfl⟩, h1, h2, h3⟩
      exact ⟨rfl, h1, h2, h3⟩
    · rintro ⟨rfl, h1, h2, h3⟩
      exact ⟨f, ct, ⟨rfl, rfl, rfl⟩, h1, h2, h3⟩

/-- under the guard, the indexes are those of the processed directories -/
theorem mem_indexesOf_iff_processed {c : WalkCfg} {excl : List Str → Bool → Bool} {rel : List Str}
    {listing : List FsNode} (hg : Guard c excl rel listing) (d : List Str × List Str × List Str) :
    d ∈ indexesOf c excl rel listing ↔
      ∃ l', Processed c excl rel listing d.1 l' ∧ d.2.1 = sortStrs (survivingDirs c excl d.1 l') ∧
        d.2.2 = sortStrs (keptFiles excl d.1 l') := by
  rw [mem_indexesOf, mem_layoutOf_iff_processed]
  constructor
  · rintro ⟨rel', l', hp, hi⟩
    obtain ⟨_, h1, h2, h3⟩ := mem_dirItems_index.1 hi
    subst h1
    exact ⟨l', hp, h2, h3⟩
  · rintro ⟨l', hp, h2, h3⟩
    refine ⟨d.1, l', hp, mem_dirItems_index.2 ⟨?_, rfl, h2, h3⟩⟩
    rintro ⟨ha, hn⟩
    have := hp.guard hg ha
    simp [this] at hn

/-- under the guard, the pages are those of the non-excluded CMake files of processed directories -/
theorem mem_pagesOf_iff_processed {c : WalkCfg} {excl : List Str → Bool → Bool} {rel : List Str}
    {listing : List FsNode} (hg : Guard c excl rel listing) (p : List Str × Str × Str) :
    p ∈ pagesOf c excl rel listing ↔
      ∃ l', Processed c excl rel listing p.1 l' ∧ p.2.1 ∈ keptFiles excl p.1 l' ∧ isCMakeName p.2.1 = true ∧
        findFile p.2.1 l' = some p.2.2 := by
  rw [mem_pagesOf, mem_layoutOf_iff_processed]
  constructor
  · rintro ⟨rel', l', hp, hi⟩
    obtain ⟨_, h1, h2, h3, h4⟩ := mem_dirItems_page.1 hi
    subst h1
    exact ⟨l', hp, h2, h3, h4⟩
  · rintro ⟨l', hp, h2, h3, h4⟩
    refine ⟨p.1, l', hp, mem_dirItems_page.2 ⟨?_, rfl, h2, h3, h4⟩⟩
    rintro ⟨ha, hn⟩
    have := hp.guard hg ha
    simp [this] at hn

/-! ## every write comes from an item (errors or not) -/

theorem emitItem_writes_mem {c : WalkCfg} {pfx : Str} {it : WItem} {r : RunResult} {w : Write}
    (h : w ∈ (emitItem c pfx it r).writes) :
    w ∈ r.writes ∨ (w.path = it.path ∧ it.text c pfx = .ok w.content) := by
  rw [emitItem_eq] at h
  split at h
  · exact Or.inl h
  · split at h
    · exact Or.inl h
    · split at h
      · exact Or.inl h
      · rename_i t ht
        split at h
        · exact Or.inl h
        · simp only [List.mem_append, List.mem_singleton] at h
          rcases h with h | rfl
          · exact Or.inl h
          · exact Or.inr ⟨rfl, ht⟩

theorem runItems_writes_mem {c : WalkCfg} {pfx : Str} {items : List WItem} {r : RunResult} {w : Write}
    (h : w ∈ (runItems c pfx items r).writes) :
    w ∈ r.writes ∨ ∃ it ∈ items, w.path = it.path ∧ it.text c pfx = .ok w.content := by
  induction items generalizing r with
  | nil => exact Or.inl h
  | cons it items ih =>
    rw [runItems_cons] at h
    rcases ih h with h | ⟨it', hit', hp⟩
    · rcases emitItem_writes_mem h with h | hp
      · exact Or.inl h
      · exact Or.inr ⟨it, List.mem_cons_self .., hp⟩
    · exact Or.inr ⟨it', List.mem_cons_of_mem _ hit', hp⟩

theorem layout_paths_perm (items : List WItem) :
    (items.map WItem.path).Perm
      ((items.filterMap WItem.index?).map indexPath ++ (items.filterMap WItem.page?).map pagePath) := by
  induction items with
  | nil => simp
  | cons it items ih =>
    cases it with
    | index rel subs files =>
      simp only [List.map_cons, List.filterMap_cons, WItem.index?, WItem.page?, List.cons_append]
      exact List.Perm.cons _ ih
    | page rel name content =>
      simp only [List.map_cons, List.filterMap_cons, WItem.index?, WItem.page?]
      exact (List.Perm.cons _ ih).trans List.perm_middle.symm

/-! ## facts for the toctrees (C14) -/

theorem mem_stem {x : Char} {f : Str} (h : x ∈ stem f) : x ∈ f := by
  unfold stem at h
  split at h
  · simp at h
  · rename_i y rest heq
    have h1 : x ∈ y :: rest := List.mem_cons_of_mem _ (List.mem_reverse.1 h)
    rw [← heq] at h1
    exact List.mem_reverse.1 ((List.dropWhile_sublist _).subset h1)



theorem mem_survivingDirs {c : WalkCfg} {excl : List Str → Bool → Bool} {rel : List Str} {n : Str} :
    ∀ {l : List FsNode}, n ∈ survivingDirs c excl rel l ↔
      ∃ ch, FsNode.dir n ch ∈ l ∧ survives c excl rel n ch = true := by
  intro l
  induction l with
  | nil => simp [survivingDirs]
  | cons x xs ih =>
    cases x with
    | file m ct => simp [survivingDirs, ih]
    | dir m ch =>
      simp only [survivingDirs]
      constructor
      · intro h
        by_cases hs : survives c excl rel m ch = true
        · rw [if_pos hs] at h
          rcases List.mem_cons.1 h with rfl | h
          · exact ⟨ch, List.mem_cons_self .., hs⟩
          · obtain ⟨ch', hm, hs'⟩ := ih.1 h
            exact ⟨ch', List.mem_cons_of_mem _ hm, hs'⟩
        · rw [if_neg hs] at h
          obtain ⟨ch', hm, hs'⟩ := ih.1 h
          exact ⟨ch', List.mem_cons_of_mem _ hm, hs'⟩
      · rintro ⟨ch', hm, hs'⟩
        rcases List.mem_cons.1 hm with heq | hm
        · cases heq
          rw [if_pos hs']
          exact List.mem_cons_self ..
        · have := ih.2 ⟨ch', hm, hs'⟩
          split
          · exact List.mem_cons_of_mem _ this
          · exact this

theorem survivingDirs_sublist (c : WalkCfg) (excl : List Str → Bool → Bool) (rel : List Str) (l : List FsNode) :
    (survivingDirs c excl rel l).Sublist (dirNames l) := by
  induction l with
  | nil => simp [survivingDirs, dirNames]
  | cons x xs ih =>
    cases x with
    | file m ct => simpa [survivingDirs, dirNames] using ih
    | dir m ch =>
      simp only [survivingDirs, dirNames]
      split
      · exact ih.cons_cons _
      · exact ih.cons _

theorem keptFiles_sublist (excl : List Str → Bool → Bool) (rel : List Str) (l : List FsNode) :
    (keptFiles excl rel l).Sublist (fileNames l) := List.filter_sublist

theorem findFile_isSome_of_mem {l : List FsNode} {f : Str} (h : f ∈ fileNames l) : ∃ ct, findFile f l = some ct := by
  induction l with
  | nil => simp [fileNames] at h
  | cons x xs ih =>
    cases x with
    | dir m ch => simpa [findFile] using ih (by simpa [fileNames] using h)
    | file m ct =>
      simp only [findFile]
      by_cases hm : m = f
      · exact ⟨ct, by simp [hm]⟩
      · simp only [hm, if_false]
        simp only [fileNames, List.mem_cons] at h
        rcases h with h | h
        · exact absurd h.symm hm
        · exact ih h

theorem mem_keptFiles {excl : List Str → Bool → Bool} {rel : List Str} {l : List FsNode} {f : Str} :
    f ∈ keptFiles excl rel l ↔ f ∈ fileNames l ∧ excl (rel ++ [f]) false = false := by
  simp [keptFiles]

/-! ## the declarative equations of `layoutOf`, `pagesOf`, `indexesOf` -/

theorem subsLayout_eq_flatten (c : WalkCfg) (excl : List Str → Bool → Bool) (rel : List Str) (l : List FsNode) :
    subsLayout c excl rel l =
      ((survivingNodes c excl rel l).map (fun p => layoutOf c excl (rel ++ [p.1]) p.2)).flatten := by
  induction l with
  | nil => simp [subsLayout, survivingNodes]
  | cons x xs ih =>
    cases x with
    | file m ct => rw [subsLayout_file, ih]; simp [survivingNodes]
    | dir m ch =>
      rw [subsLayout_dir, ih]
      by_cases hs : survives c excl rel m ch = true <;> simp [survivingNodes, hs]

theorem dirItems_pages (c : WalkCfg) (excl : List Str → Bool → Bool) (rel : List Str) (listing : List FsNode) :
    (dirItems c excl rel listing).filterMap WItem.page? =
      if c.autoExclude && !hasCMake excl rel listing then []
      else ((sortStrs (keptFiles excl rel listing)).filter isCMakeName).filterMap
        (fun f => (findFile f listing).map (fun ct => (rel, f, ct))) := by
  unfold dirItems
  split
  · rfl
  · simp only [List.filterMap_cons, WItem.page?, dirPages, List.filterMap_filterMap, List.filterMap_filter]
    congr 1
    funext f
    by_cases h : isCMakeName f = true <;> simp [h, Option.bind]
    cases findFile f listing <;> rfl

theorem dirItems_indexes (c : WalkCfg) (excl : List Str → Bool → Bool) (rel : List Str) (listing : List FsNode) :
    (dirItems c excl rel listing).filterMap WItem.index? =
      if c.autoExclude && !hasCMake excl rel listing then []
      else [(rel, sortStrs (survivingDirs c excl rel listing), sortStrs (keptFiles excl rel listing))] := by
  unfold dirItems
  split
  · rfl
  · simp only [List.filterMap_cons, WItem.index?, dirPages, List.filterMap_filterMap]
    congr 1
    rw [List.filterMap_eq_nil_iff]
    intro f _
    by_cases h : isCMakeName f = true <;> simp [h, Option.bind]
    cases findFile f listing <;> rfl

/-! ## distinct output paths, under the hypothesis that excludes the stem collisions -/

theorem Processed.prefix {c : WalkCfg} {excl : List Str → Bool → Bool} {rel₀ rel : List Str}
    {l₀ l : List FsNode} (h : Processed c excl rel₀ l₀ rel l) : ∃ q, rel = rel₀ ++ q := by
  induction h with
  | root => exact ⟨[], by simp⟩
  | @sub _ _ n _ _ _ _ _ ih =>
    obtain ⟨q, rfl⟩ := ih
    exact ⟨q ++ [n], by simp⟩

theorem dirItems_path {c : WalkCfg} {excl : List Str → Bool → Bool} {rel : List Str} {listing : List FsNode}
    {it : WItem} (h : it ∈ dirItems c excl rel listing) : ∃ x, it.path = rel ++ [x] := by
  unfold dirItems at h
  split at h
  · simp at h
  · rcases List.mem_cons.1 h with rfl | h
    · exact ⟨_, rfl⟩
    · obtain ⟨f, ct, rfl, _⟩ := mem_dirPages.1 h
      exact ⟨_, rfl⟩

theorem layout_path {c : WalkCfg} {excl : List Str → Bool → Bool} {rel : List Str} {listing : List FsNode}
    {it : WItem} (h : it ∈ layoutOf c excl rel listing) : ∃ q x, it.path = rel ++ q ++ [x] := by
  obtain ⟨rel', l', hp, hi⟩ := mem_layoutOf_iff_processed.1 h
  obtain ⟨q, rfl⟩ := hp.prefix
  obtain ⟨x, hx⟩ := dirItems_path hi
  exact ⟨q, x, hx⟩

theorem dirPages_paths_sublist (rel : List Str) (listing : List FsNode) (names : List Str) :
    ((dirPages rel listing names).map WItem.path).Sublist
      ((names.filter isCMakeName).map (fun f => rel ++ [stem f ++ lit ".rst"])) := by
  induction names with
  | nil => simp [dirPages]
  | cons f fs ih =>
    simp only [dirPages, List.filterMap_cons, List.filter_cons] at ih ⊢
    by_cases hc : isCMakeName f = true
    · simp only [hc, if_true]
      cases hf : findFile f listing with
      | none => simpa using ih.cons (rel ++ [stem f ++ lit ".rst"])
      | some ct => simpa [WItem.path] using ih.cons_cons (rel ++ [stem f ++ lit ".rst"])
    · simpa [hc] using ih

theorem dirItems_paths_nodup {c : WalkCfg} {excl : List Str → Bool → Bool} {rel : List Str} {listing : List FsNode}
    (h1 : (((keptFiles excl rel listing).filter isCMakeName).map stem).Nodup)
    (h2 : lit "index" ∉ ((keptFiles excl rel listing).filter isCMakeName).map stem) :
    ((dirItems c excl rel listing).map WItem.path).Nodup := by
  unfold dirItems
  split
  · simp
  · have hperm : (((sortStrs (keptFiles excl rel listing)).filter isCMakeName).map stem).Perm
        (((keptFiles excl rel listing).filter isCMakeName).map stem) :=
      ((sortStrs_perm _).filter _).map _
    have hnd : (((sortStrs (keptFiles excl rel listing)).filter isCMakeName).map
        (fun f => rel ++ [stem f ++ lit ".rst"])).Nodup := by
      have := hperm.nodup_iff.2 h1
      have e : (fun f => rel ++ [stem f ++ lit ".rst"]) = (fun s => rel ++ [s ++ lit ".rst"]) ∘ stem := rfl
      rw [e, ← List.map_map]
      exact List.Pairwise.map _ (fun a b hne h => hne (by
        have := List.append_cancel_left h
        simp only [List.cons.injEq, and_true] at this
        exact List.append_cancel_right this)) this
    rw [List.map_cons, List.nodup_cons]
    refine ⟨?_, (dirPages_paths_sublist rel listing _).nodup hnd⟩
    intro hmem
    have := (dirPages_paths_sublist rel listing _).subset hmem
    obtain ⟨f, hf, hfe⟩ := List.mem_map.1 this
    simp only [WItem.path] at hfe
    have := List.append_cancel_left hfe
    simp only [List.cons.injEq, and_true] at this
    have hst : stem f = lit "index" := List.append_cancel_right (bs := lit ".rst") this
    exact h2 (hperm.mem_iff.1 (List.mem_map.2 ⟨f, hf, hst⟩))

theorem NoStemClash.sub {c : WalkCfg} {excl : List Str → Bool → Bool} {rel : List Str} {listing : List FsNode}
    (h : NoStemClash c excl rel listing) (hr : c.recursive = true) {n : Str} {ch : List FsNode}
    (hm : FsNode.dir n ch ∈ listing) (hs : survives c excl rel n ch = true) :
    NoStemClash c excl (rel ++ [n]) ch :=
  fun rel' l' hp => h rel' l' (Processed.trans (.sub .root hr hm hs) hp)

theorem layoutOf_paths_nodup_aux {c : WalkCfg} {excl : List Str → Bool → Bool} {rel : List Str}
    {listing : List FsNode} (hns : NoStemClash c excl rel listing)
    (hsubs : c.recursive = true → ((subsLayout c excl rel listing).map WItem.path).Nodup) :
    ((layoutOf c excl rel listing).map WItem.path).Nodup := by
  rw [layoutOf, List.map_append, List.nodup_append]
  refine ⟨dirItems_paths_nodup (hns rel listing .root).1 (hns rel listing .root).2, ?_, ?_⟩
  · split
    · exact hsubs ‹_›
    · simp
  · intro a ha b hb hab
    subst hab
    obtain ⟨it, hit, rfl⟩ := List.mem_map.1 ha
    obtain ⟨x, hx⟩ := dirItems_path hit
    split at hb
    · obtain ⟨it', hit', hpe⟩ := List.mem_map.1 hb
      obtain ⟨n, ch, _, _, hin⟩ := mem_subsLayout.1 hit'
      obtain ⟨q, y, hy⟩ := layout_path hin
      have := congrArg List.length (hpe.trans hx)
      rw [hy] at this
      simp at this
    · simp at hb

theorem subsLayout_paths_nodup (c : WalkCfg) (excl : List Str → Bool → Bool) (hrec : c.recursive = true) :
    ∀ (l : List FsNode) (rel : List Str), listOk l = true → (dirNames l).Nodup →
      (∀ n ch, FsNode.dir n ch ∈ l → survives c excl rel n ch = true → NoStemClash c excl (rel ++ [n]) ch) →
      ((subsLayout c excl rel l).map WItem.path).Nodup
  | [], _, _, _, _ => by simp [subsLayout]
  | .file _ _ :: rest, rel, hok, hnd, h => by
    simp only [listOk, Bool.and_eq_true] at hok
    rw [subsLayout_file]
    exact subsLayout_paths_nodup c excl hrec rest rel hok.2 (by simpa [dirNames] using hnd)
      (fun n ch hm hs => h n ch (List.mem_cons_of_mem _ hm) hs)
  | .dir n ch :: rest, rel, hok, hnd, h => by
    simp only [listOk, Bool.and_eq_true, nodeOk_dir] at hok
    simp only [dirNames, List.nodup_cons] at hnd
    have hch := (treeOk_iff ch).1 hok.1
    rw [subsLayout_dir, List.map_append, List.nodup_append]
    refine ⟨?_, subsLayout_paths_nodup c excl hrec rest rel hok.2 hnd.2
      (fun n ch hm hs => h n ch (List.mem_cons_of_mem _ hm) hs), ?_⟩
    · by_cases hs : survives c excl rel n ch = true
      · rw [if_pos hs]
        have hns := h n ch (List.mem_cons_self ..) hs
        exact layoutOf_paths_nodup_aux hns (fun _ =>
          subsLayout_paths_nodup c excl hrec ch (rel ++ [n]) hch.2 hch.1
            (fun m ch' hm hs' => hns.sub hrec hm hs'))
      · simp [hs]
    · intro a ha b hb hab
      subst hab
      by_cases hs : survives c excl rel n ch = true
      · rw [if_pos hs] at ha
        obtain ⟨it, hit, rfl⟩ := List.mem_map.1 ha
        obtain ⟨q, x, hx⟩ := layout_path hit
        obtain ⟨it', hit', hpe⟩ := List.mem_map.1 hb
        obtain ⟨m, ch', hm, _, hin⟩ := mem_subsLayout.1 hit'
        obtain ⟨q', y, hy⟩ := layout_path hin
        have heq := hx.symm.trans (hpe.symm.trans hy)
        simp only [List.append_assoc] at heq
        have := List.append_cancel_left heq
        simp only [List.cons_append, List.cons.injEq] at this
        exact hnd.1 (this.1 ▸ mem_dirNames.2 ⟨ch', hm⟩)
      · simp [hs] at ha

/-- on a tree with distinct sub-directory names and without stem collisions, all generated paths are distinct -/
theorem layoutOf_paths_nodup {c : WalkCfg} {excl : List Str → Bool → Bool} {rel : List Str}
    {listing : List FsNode} (htree : treeOk listing = true) (hns : NoStemClash c excl rel listing) :
    ((layoutOf c excl rel listing).map WItem.path).Nodup := by
  have h := (treeOk_iff listing).1 htree
  exact layoutOf_paths_nodup_aux hns (fun hrec =>
    subsLayout_paths_nodup c excl hrec listing rel h.2 h.1 (fun m ch' hm hs' => hns.sub hrec hm hs'))

/-- a processed directory is the start directory or lies below one of its surviving sub-directories -/
theorem Processed.head {c : WalkCfg} {excl : List Str → Bool → Bool} {rel rel' : List Str}
    {l l' : List FsNode} (h : Processed c excl rel l rel' l') :
    (rel' = rel ∧ l' = l) ∨ ∃ n ch, c.recursive = true ∧ FsNode.dir n ch ∈ l ∧
      survives c excl rel n ch = true ∧ Processed c excl (rel ++ [n]) ch rel' l' := by
  induction h with
  | root => exact Or.inl ⟨rfl, rfl⟩
  | @sub relp lp n ch hp hr hm hs ih =>
    rcases ih with ⟨rfl, rfl⟩ | ⟨n0, ch0, hr0, hm0, hs0, hp0⟩
    · exact Or.inr ⟨n, ch, hr, hm, hs, .root⟩
    · exact Or.inr ⟨n0, ch0, hr0, hm0, hs0, .sub hp0 hr hm hs⟩

/-! ## evaluating `sortStrs` (for the concrete examples)

`List.mergeSort` is defined by well-founded recursion and does not reduce under `decide`; insertion sort does,
and on a total order both return the one sorted permutation. -/

private theorem strLe_total_w (a b : Str) : strLe a b = true ∨ strLe b a = true := by
  induction a generalizing b with
  | nil => simp [strLe]
  | cons x xs ih =>
    cases b with
    | nil => simp [strLe]
    | cons y ys =>
      simp only [strLe]
      by_cases h1 : x < y
      · simp [h1]
      · by_cases h2 : y < x
        · simp [h2]
        · simp [h1, h2]; exact ih ys

private theorem strLe_antisymm_w (a b : Str) (h1 : strLe a b = true) (h2 : strLe b a = true) : a = b := by
  induction a generalizing b with
  | nil => cases b with
    | nil => rfl
    | cons y ys => simp [strLe] at h2
  | cons x xs ih =>
    cases b with
    | nil => simp [strLe] at h1
    | cons y ys =>
      simp only [strLe] at h1 h2
      by_cases hxy : x < y
      · have : ¬ y < x := by
          intro h; exact absurd (Char.lt_trans hxy h) (Char.lt_irrefl _)
        simp [hxy, this] at h2
      · by_cases hyx : y < x
        · simp [hxy, hyx] at h1
        · simp [hxy, hyx] at h1 h2
          have : x = y := by
            have := Char.le_antisymm (Char.not_lt.mp hyx) (Char.not_lt.mp hxy)
            exact this
          subst this
          rw [ih ys h1 h2]

private theorem strLe_trans_w (a b d : Str) (h1 : strLe a b = true) (h2 : strLe b d = true) : strLe a d = true := by
  induction a generalizing b d with
  | nil => simp [strLe]
  | cons x xs ih =>
    cases b with
    | nil => simp [strLe] at h1
    | cons y ys =>
      cases d with
      | nil => simp [strLe] at h2
      | cons z zs =>
        simp only [strLe] at h1 h2 ⊢
        by_cases hxy : x < y
        · by_cases hyz : y < z
          · simp [Char.lt_trans hxy hyz]
          · by_cases hzy : z < y
            · simp [hyz, hzy] at h2
            · have : y = z := Char.le_antisymm (Char.not_lt.mp hzy) (Char.not_lt.mp hyz)
              subst this; simp [hxy]
        · by_cases hyx : y < x
          · simp [hxy, hyx] at h1
          · have : x = y := Char.le_antisymm (Char.not_lt.mp hyx) (Char.not_lt.mp hxy)
            subst this
            simp [hxy] at h1
            by_cases hyz : x < z
            · simp [hyz]
            · by_cases hzy : z < x
              · simp [hyz, hzy] at h2
              · simp [hyz, hzy] at h2 ⊢
                exact ih ys zs h1 h2


def insertStr (a : Str) : List Str → List Str
  | [] => [a]
  | b :: bs => if strLe a b then a :: b :: bs else b :: insertStr a bs

def isortStrs : List Str → List Str
  | [] => []
  | a :: as => insertStr a (isortStrs as)

theorem insertStr_perm (a : Str) (l : List Str) : (insertStr a l).Perm (a :: l) := by
  induction l with
  | nil => simp [insertStr]
  | cons b bs ih =>
    simp only [insertStr]
    split
    · exact List.Perm.refl _
    · exact ((List.Perm.cons b ih).trans (List.Perm.swap a b bs))

theorem isortStrs_perm (l : List Str) : (isortStrs l).Perm l := by
  induction l with
  | nil => simp [isortStrs]
  | cons a as ih => exact (insertStr_perm a _).trans (List.Perm.cons a ih)

theorem insertStr_pairwise (a : Str) (l : List Str) (h : l.Pairwise (fun x y => strLe x y = true)) :
    (insertStr a l).Pairwise (fun x y => strLe x y = true) := by
  induction l with
  | nil => simp [insertStr]
  | cons b bs ih =>
    simp only [insertStr]
    rw [List.pairwise_cons] at h
    by_cases hab : strLe a b = true
    · rw [if_pos hab, List.pairwise_cons]
      refine ⟨?_, List.pairwise_cons.2 h⟩
      intro x hx
      rcases List.mem_cons.1 hx with rfl | hx
      · exact hab
      · exact strLe_trans_w a b x hab (h.1 x hx)
    · rw [if_neg hab, List.pairwise_cons]
      refine ⟨?_, ih h.2⟩
      intro x hx
      rcases List.mem_cons.1 ((insertStr_perm a bs).mem_iff.1 hx) with rfl | hx
      · exact (strLe_total_w x b).resolve_left hab
      · exact h.1 x hx

theorem isortStrs_pairwise (l : List Str) : (isortStrs l).Pairwise (fun x y => strLe x y = true) := by
  induction l with
  | nil => simp [isortStrs]
  | cons a as ih => exact insertStr_pairwise a _ ih

theorem sortStrs_eq_isort (l : List Str) : sortStrs l = isortStrs l := by
  unfold sortStrs
  apply List.Perm.eq_of_pairwise (le := fun a b => strLe a b = true)
  · intro a b _ _ h1 h2; exact strLe_antisymm_w a b h1 h2
  · exact List.pairwise_mergeSort (fun a b c => strLe_trans_w a b c)
      (fun a b => by simpa using strLe_total_w a b) l
  · exact isortStrs_pairwise l
  · exact (List.mergeSort_perm l _).trans (isortStrs_perm l).symm

/-! ## the example tree of `WalkSpec.lean`, evaluated -/

def exLayout : List WItem :=
  [ .index [] [lit "sub"] [lit "A.CMake", lit "b.cmake", lit "readme.txt"],
    .page [] (lit "A.CMake") [],
    .page [] (lit "b.cmake") (lit "#[[[\n# doc\n#]]\nfunction(f)\nendfunction()\n"),
    .index [lit "sub"] [lit "deep"] [lit "c.cmake"],
    .page [lit "sub"] (lit "c.cmake") [],
    .index [lit "sub", lit "deep"] [] [lit "d.cmake"],
    .page [lit "sub", lit "deep"] (lit "d.cmake") [] ]

theorem ex_treeOk : treeOk exTree = true := by decide

theorem ex_layout : layoutOf exCfg exExcl [] exTree = exLayout := by
  simp only [layoutOf, dirItems, subsLayout, nodeLayout, exTree, sortStrs_eq_isort]
  decide

theorem ex_layout_out : layoutOf exCfgOut exExcl [] exTree = exLayout := by
  rw [← ex_layout]; exact layoutOf_congr exExcl rfl rfl [] exTree

theorem ex_layout_flat : layoutOf exCfgFlat exExcl [] exTree = exLayout.take 3 := by
  simp only [layoutOf, dirItems, subsLayout, nodeLayout, exTree, sortStrs_eq_isort]
  decide

theorem ex_guard : Guard exCfg exExcl [] exTree := fun _ => by decide

theorem ex_pages : pagesOf exCfg exExcl [] exTree =
    [ ([], lit "A.CMake", []),
      ([], lit "b.cmake", lit "#[[[\n# doc\n#]]\nfunction(f)\nendfunction()\n"),
      ([lit "sub"], lit "c.cmake", []),
      ([lit "sub", lit "deep"], lit "d.cmake", []) ] := by
  rw [pagesOf, ex_layout]; decide

theorem ex_indexes : indexesOf exCfg exExcl [] exTree =
    [ ([], [lit "sub"], [lit "A.CMake", lit "b.cmake", lit "readme.txt"]),
      ([lit "sub"], [lit "deep"], [lit "c.cmake"]),
      ([lit "sub", lit "deep"], [], [lit "d.cmake"]) ] := by
  rw [indexesOf, ex_layout]; decide

theorem ex_pages_out : pagesOf exCfgOut exExcl [] exTree = pagesOf exCfg exExcl [] exTree := by
  rw [pagesOf, pagesOf, ex_layout_out, ex_layout]

theorem ex_pages_flat : pagesOf exCfgFlat exExcl [] exTree = (pagesOf exCfg exExcl [] exTree).take 2 := by
  rw [pagesOf, ex_layout_flat, ex_pages]; decide

/-- every page of the example renders (prefix `P`, default settings) -/
theorem ex_ok : ∀ p ∈ pagesOf exCfg exExcl [] exTree,
    (page exCfg (some (lit "P")) (relPath p) p.2.2).isOk = true := by
  rw [ex_pages]; decide +kernel

theorem ex_ok_out : ∀ p ∈ pagesOf exCfgOut exExcl [] exTree,
    (page exCfgOut (some (lit "P")) (relPath p) p.2.2).isOk = true := by
  rw [ex_pages_out, ex_pages]; decide +kernel

theorem ex_ok_flat : ∀ p ∈ pagesOf exCfgFlat exExcl [] exTree,
    (page exCfgFlat (some (lit "P")) (relPath p) p.2.2).isOk = true := by
  rw [ex_pages_flat, ex_pages]; decide +kernel

theorem ex_sub_processed : Processed exCfg exExcl [] exTree [lit "sub"]
    [ .file (lit "c.cmake") [], .dir (lit "deep") [.file (lit "d.cmake") []],
      .dir (lit "nocmake") [.file (lit "x.txt") []] ] :=
  .sub .root rfl (n := lit "sub") (by simp [exTree]) (by decide)


theorem ex_noStemClash : NoStemClash exCfg exExcl [] exTree := by
  intro rel' l' h
  rcases h.head with ⟨rfl, rfl⟩ | ⟨n, ch, _, hm, hs, h1⟩
  · decide
  · simp only [exTree, List.mem_cons, FsNode.dir.injEq, reduceCtorEq, false_or, List.not_mem_nil, or_false] at hm
    rcases hm with ⟨rfl, rfl⟩ | ⟨rfl, rfl⟩ | ⟨rfl, rfl⟩
    · rcases h1.head with ⟨rfl, rfl⟩ | ⟨n, ch, _, hm, hs, h2⟩
      · decide
      · simp only [List.mem_cons, FsNode.dir.injEq, reduceCtorEq, false_or, List.not_mem_nil, or_false] at hm
        rcases hm with ⟨rfl, rfl⟩ | ⟨rfl, rfl⟩
        · rcases h2.head with ⟨rfl, rfl⟩ | ⟨n, ch, _, hm, _, _⟩
          · decide
          · simp at hm
        · exact absurd hs (by decide)
    · exact absurd hs (by decide)
    · exact absurd hs (by decide)


theorem eq_error_of_errOf {x : Except Err Str} {e : Err} (h : errOf x = some e) : x = .error e := by
  cases x <;> simp_all [errOf]


theorem exInDir_ok : (aloneOut exCfg exInDir).error = none ∧
    (document exCfg exInDir.excl exInDir.exclRoot exInDir.inp {}).2 = false :=
  ⟨walkDir_error_none ex_treeOk rfl (items_ok_of_file (by decide) ex_ok), rfl⟩

theorem exInFile_ok : (aloneOut exCfg exInFile).error = none ∧
    (document exCfg exInFile.excl exInFile.exclRoot exInFile.inp {}).2 = false := by
  constructor <;> decide +kernel


end Cminx
