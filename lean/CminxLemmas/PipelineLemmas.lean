import CminxProps.TLex
import CminxProps.C02
import CminxProps.C01
/-!
# Helper lemmas for the pipeline composition (C04, C05)

* the specification reads a doccomment only through `doc.isSome` and `docTextOf doc`: the invariance lemmas of
  `SpecLemmas.lean` (`itemsSpec_sim`, `itemsWf_sim`, `itemsHaveDocumentedClass_sim`), re-proved for an arbitrary
  doccomment relation `D` that preserves these two observations (`DocObs D`);
* reflexivity of `itemsRel`, and replacing one item inside a context;
* `pipeline`/`documentedOf` depend on the source text only through the significant token sequence.
-/
namespace Cminx

/-- the doccomment relation `D` preserves everything the specification reads of a doccomment: whether there is
    one, and its cleaned text -/
def DocObs (D : Option DocC → Option DocC → Prop) : Prop :=
  ∀ d d', D d d' → d.isSome = d'.isSome ∧ docTextOf d = docTextOf d'

mutual
theorem Item.cpaDirect_rel {D : Option DocC → Option DocC → Prop} : (a b : Item) → a.Rel Call.Sim D b → a.cpaDirect = b.cpaDirect
  | .cmd d c, .cmd d' c', h => by
    simp only [Item.Rel] at h; simp [Item.cpaDirect, h.2.lname]
  | .block d o bd c, .block d' o' bd' c', h => by
    simp only [Item.Rel] at h
    simp [Item.cpaDirect, h.2.1.lname, itemsCpaDirect_rel bd bd' h.2.2.1]
  | .decl .., .decl .., _ => by simp [Item.cpaDirect]
  | .dangling _, .dangling _, _ => by simp [Item.cpaDirect]
  | .cmd .., .block .., h | .cmd .., .decl .., h | .cmd .., .dangling _, h
  | .block .., .cmd .., h | .block .., .decl .., h | .block .., .dangling _, h
  | .decl .., .cmd .., h | .decl .., .block .., h | .decl .., .dangling _, h
  | .dangling _, .cmd .., h | .dangling _, .block .., h | .dangling _, .decl .., h => by simp [Item.Rel] at h
theorem itemsCpaDirect_rel {D : Option DocC → Option DocC → Prop} : (a b : List Item) → itemsRel Call.Sim D a b → itemsCpaDirect a = itemsCpaDirect b
  | [], [], _ => rfl
  | i :: is, j :: js, h => by
    simp only [itemsRel] at h
    simp [itemsCpaDirect, Item.cpaDirect_rel i j h.1, itemsCpaDirect_rel is js h.2]
  | [], _ :: _, h | _ :: _, [], h => by simp [itemsRel] at h
end

theorem defEntry_rel {D : Option DocC → Option DocC → Prop} (cfg : Cfg) (isMacro : Bool) {d d' : Option DocC} {c c' : Call} {b b' : List Item}
    (hd : docTextOf d = docTextOf d') (hc : c.Sim c') (hb : itemsRel Call.Sim D b b') :
    defEntry cfg isMacro d c b = defEntry cfg isMacro d' c' b' := by
  simp [defEntry, hd, hc.singles, itemsCpaDirect_rel b b' hb]

mutual
theorem Item.spec_rel {D : Option DocC → Option DocC → Prop} (hD : DocObs D) (cfg : Cfg) (ctx : ClsCtx) :
    (a b : Item) → a.Rel Call.Sim D b → a.spec cfg ctx = b.spec cfg ctx
  | .cmd d c, .cmd d' c', h => by
    simp only [Item.Rel] at h
    simp only [Item.spec, h.2.lname, h.2.singles, h.2.allTexts, h.2.args, (hD _ _ h.1).1, (hD _ _ h.1).2]
  | .block d o bd c, .block d' o' bd' c', h => by
    simp only [Item.Rel] at h
    simp only [Item.spec, h.2.1.lname, h.2.1.singles, h.2.1.args, (hD _ _ h.1).1, (hD _ _ h.1).2,
      defEntry_rel cfg _ (hD _ _ h.1).2 h.2.1 h.2.2.1, itemsSpec_rel hD cfg _ bd bd' h.2.2.1]
  | .decl d dc i bd c, .decl d' dc' i' bd' c', h => by
    simp only [Item.Rel] at h
    simp only [Item.spec, h.2.1.lname, h.2.1.singles, h.2.2.1.lname, h.2.2.1.singles, (hD _ _ h.1).1, (hD _ _ h.1).2,
      defEntry_rel cfg _ (rfl : docTextOf none = docTextOf none) h.2.2.1 h.2.2.2.1,
      itemsSpec_rel hD cfg _ bd bd' h.2.2.2.1]
  | .dangling _, .dangling _, _ => by simp [Item.spec]
  | .cmd .., .block .., h | .cmd .., .decl .., h | .cmd .., .dangling _, h
  | .block .., .cmd .., h | .block .., .decl .., h | .block .., .dangling _, h
  | .decl .., .cmd .., h | .decl .., .block .., h | .decl .., .dangling _, h
  | .dangling _, .cmd .., h | .dangling _, .block .., h | .dangling _, .decl .., h => by simp [Item.Rel] at h
theorem itemsSpec_rel {D : Option DocC → Option DocC → Prop} (hD : DocObs D) (cfg : Cfg) (ctx : ClsCtx) :
    (a b : List Item) → itemsRel Call.Sim D a b → itemsSpec cfg ctx a = itemsSpec cfg ctx b
  | [], [], _ => rfl
  | i :: is, j :: js, h => by
    simp only [itemsRel] at h
    simp only [itemsSpec, Item.spec_rel hD cfg ctx i j h.1, itemsSpec_rel hD cfg ctx is js h.2]
  | [], _ :: _, h | _ :: _, [], h => by simp [itemsRel] at h
end

mutual
theorem Item.hasDocumentedClass_rel {D : Option DocC → Option DocC → Prop} (hD : DocObs D) :
    (a b : Item) → a.Rel Call.Sim D b → a.hasDocumentedClass = b.hasDocumentedClass
  | .cmd d c, .cmd d' c', h => by simp [Item.hasDocumentedClass]
  | .block d o bd c, .block d' o' bd' c', h => by
    simp only [Item.Rel] at h
    simp only [Item.hasDocumentedClass, h.2.1.lname, (hD _ _ h.1).1, itemsHaveDocumentedClass_rel hD bd bd' h.2.2.1]
  | .decl d dc i bd c, .decl d' dc' i' bd' c', h => by
    simp only [Item.Rel] at h
    simp only [Item.hasDocumentedClass, itemsHaveDocumentedClass_rel hD bd bd' h.2.2.2.1]
  | .dangling _, .dangling _, _ => by simp [Item.hasDocumentedClass]
  | .cmd .., .block .., h | .cmd .., .decl .., h | .cmd .., .dangling _, h
  | .block .., .cmd .., h | .block .., .decl .., h | .block .., .dangling _, h
  | .decl .., .cmd .., h | .decl .., .block .., h | .decl .., .dangling _, h
  | .dangling _, .cmd .., h | .dangling _, .block .., h | .dangling _, .decl .., h => by simp [Item.Rel] at h
theorem itemsHaveDocumentedClass_rel {D : Option DocC → Option DocC → Prop} (hD : DocObs D) :
    (a b : List Item) → itemsRel Call.Sim D a b → itemsHaveDocumentedClass a = itemsHaveDocumentedClass b
  | [], [], _ => rfl
  | i :: is, j :: js, h => by
    simp only [itemsRel] at h
    simp only [itemsHaveDocumentedClass, Item.hasDocumentedClass_rel hD i j h.1, itemsHaveDocumentedClass_rel hD is js h.2]
  | [], _ :: _, h | _ :: _, [], h => by simp [itemsRel] at h
end

/-! well-formedness does not look at doccomments at all -/

mutual
theorem Item.wf_rel {D : Option DocC → Option DocC → Prop} (inClass : Bool) :
    (a b : Item) → a.Rel Call.Sim D b → a.wf inClass = b.wf inClass
  | .cmd d c, .cmd d' c', h => by
    simp only [Item.Rel] at h
    simp only [Item.wf, h.2.lname, h.2.singles, h.2.allTexts]
  | .block d o bd c, .block d' o' bd' c', h => by
    simp only [Item.Rel] at h
    simp only [Item.wf, h.2.1.lname, h.2.1.singles, h.2.2.2.lname, itemsWf_rel _ bd bd' h.2.2.1]
  | .decl d dc i bd c, .decl d' dc' i' bd' c', h => by
    simp only [Item.Rel] at h
    simp only [Item.wf, h.2.1.lname, h.2.1.singles, h.2.2.1.lname, h.2.2.1.singles, h.2.2.2.2.lname,
      itemsWf_rel _ bd bd' h.2.2.2.1]
  | .dangling _, .dangling _, _ => by simp [Item.wf]
  | .cmd .., .block .., h | .cmd .., .decl .., h | .cmd .., .dangling _, h
  | .block .., .cmd .., h | .block .., .decl .., h | .block .., .dangling _, h
  | .decl .., .cmd .., h | .decl .., .block .., h | .decl .., .dangling _, h
  | .dangling _, .cmd .., h | .dangling _, .block .., h | .dangling _, .decl .., h => by simp [Item.Rel] at h
theorem itemsWf_rel {D : Option DocC → Option DocC → Prop} (inClass : Bool) :
    (a b : List Item) → itemsRel Call.Sim D a b → itemsWf inClass a = itemsWf inClass b
  | [], [], _ => rfl
  | i :: is, j :: js, h => by
    simp only [itemsRel] at h
    simp only [itemsWf, Item.wf_rel inClass i j h.1, itemsWf_rel inClass is js h.2]
  | [], _ :: _, h | _ :: _, [], h => by simp [itemsRel] at h
end

/-! ## `itemsRel`: reflexivity, contexts -/

mutual
theorem Item.Rel.refl {R : Call → Call → Prop} {D : Option DocC → Option DocC → Prop}
    (hR : ∀ c, R c c) (hD : ∀ d, D d d) : (a : Item) → a.Rel R D a
  | .cmd d c => by simp only [Item.Rel]; exact ⟨hD d, hR c⟩
  | .block d o bd c => by simp only [Item.Rel]; exact ⟨hD d, hR o, itemsRel.refl hR hD bd, hR c⟩
  | .decl d dc i bd c => by simp only [Item.Rel]; exact ⟨hD d, hR dc, hR i, itemsRel.refl hR hD bd, hR c⟩
  | .dangling d => by simp only [Item.Rel]; exact hD (some d)
theorem itemsRel.refl {R : Call → Call → Prop} {D : Option DocC → Option DocC → Prop}
    (hR : ∀ c, R c c) (hD : ∀ d, D d d) : (a : List Item) → itemsRel R D a a
  | [] => by simp [itemsRel]
  | i :: is => by simp only [itemsRel]; exact ⟨Item.Rel.refl hR hD i, itemsRel.refl hR hD is⟩
end

theorem itemsRel.append {R : Call → Call → Prop} {D : Option DocC → Option DocC → Prop} :
    (a a' b b' : List Item) → itemsRel R D a a' → itemsRel R D b b' → itemsRel R D (a ++ b) (a' ++ b')
  | [], [], _, _, _, h => by simpa using h
  | i :: is, j :: js, b, b', h, h' => by
    simp only [itemsRel, List.cons_append] at h ⊢
    exact ⟨h.1, itemsRel.append is js b b' h.2 h'⟩
  | [], _ :: _, _, _, h, _ | _ :: _, [], _, _, h, _ => by simp [itemsRel] at h

theorem Call.Sim.refl (c : Call) : c.Sim c := ⟨rfl, rfl⟩

/-- one item replaced inside a list -/
theorem itemsRel.context {R : Call → Call → Prop} {D : Option DocC → Option DocC → Prop}
    (hR : ∀ c, R c c) (hD : ∀ d, D d d) (pre post : List Item) {i j : Item} (h : i.Rel R D j) :
    itemsRel R D (pre ++ [i] ++ post) (pre ++ [j] ++ post) := by
  refine itemsRel.append _ _ _ _ (itemsRel.append _ _ _ _ (itemsRel.refl hR hD pre) ?_) (itemsRel.refl hR hD post)
  simp only [itemsRel]; exact ⟨h, trivial⟩

/-! ## the pipeline reads the source through its significant tokens only -/

theorem documentedOf_of_ok (cfg : Cfg) {src : Str} {ts : List Tok} {evs : List Event} {st : AggState}
    (hl : lexAll (dropBom src) = .ok ts) (hp : parse (significant ts) = some evs)
    (ha : aggregate cfg evs = .ok st) : documentedOf cfg src = .ok st.documented := by
  simp only [documentedOf, hl, hp, ha]

theorem documentedOf_same_significant (cfg : Cfg) {s₁ s₂ : Str} {ts₁ ts₂ : List Tok}
    (h₁ : lexAll (dropBom s₁) = .ok ts₁) (h₂ : lexAll (dropBom s₂) = .ok ts₂)
    (hs : significant ts₁ = significant ts₂) : documentedOf cfg s₁ = documentedOf cfg s₂ := by
  simp only [documentedOf, h₁, h₂, hs]

theorem pipeline_congr (cfg : Cfg) (hdrs : List Str) (title modName : Str) {s₁ s₂ : Str}
    (h : documentedOf cfg s₁ = documentedOf cfg s₂) :
    pipeline cfg hdrs title modName s₁ = pipeline cfg hdrs title modName s₂ := by
  cases hdrs with
  | nil => rfl
  | cons hc hs => simp only [pipeline, h]

end Cminx
