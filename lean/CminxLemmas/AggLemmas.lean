import CminxModel.Spec
/-!
# Lemmas for the refinement theorem T-agg, part 1: the algebra of deferred mutations

The listener mutates entries it stored earlier (`has_kwargs` of the definition on top of the definition
stack, the member lists of the class on top of the class stack).  `absorb` is the net effect of a list of
items on the entries that were already there; `post` is the state after a list of items.
-/
namespace Cminx

@[simp] theorem except_ok_bind {ε α β : Type} (x : α) (f : α → Except ε β) :
    (Except.ok x >>= f) = f x := rfl

@[simp] theorem except_pure_eq {ε α : Type} (x : α) : (pure x : Except ε α) = Except.ok x := rfl

/-! ## `List.modify` -/

theorem modify_append_lt {α} (f : α → α) (l m : List α) (i : Nat) (h : i < l.length) :
    (l ++ m).modify i f = l.modify i f ++ m := by
  induction l generalizing i with
  | nil => simp at h
  | cons a l ih => cases i with
    | zero => simp
    | succ i => simp at h; simp [ih i h]

theorem modify_append_len {α} (f : α → α) (l m : List α) (a : α) :
    (l ++ a :: m).modify l.length f = l ++ f a :: m := by
  induction l with
  | nil => simp
  | cons b l ih => simp [ih]

theorem modify_comm {α} (f g : α → α) (h : ∀ x, f (g x) = g (f x)) (l : List α) (i j : Nat) :
    (l.modify i f).modify j g = (l.modify j g).modify i f := by
  induction l generalizing i j with
  | nil => simp
  | cons a l ih =>
    cases i <;> cases j <;> simp [h, ih]

theorem modify_id_of {α} (f : α → α) (h : ∀ x, f x = x) (l : List α) (i : Nat) : l.modify i f = l := by
  induction l generalizing i with
  | nil => simp
  | cons a l ih => cases i <;> simp [h, ih]

theorem modify_congr_at {α} (f g : α → α) (l : List α) (i : Nat)
    (h : ∀ x, l[i]? = some x → f x = g x) : l.modify i f = l.modify i g := by
  induction l generalizing i with
  | nil => simp
  | cons a l ih =>
    cases i with
    | zero => simp [h a (by simp)]
    | succ i => simp; exact ih i (fun x hx => h x (by simpa using hx))

/-! ## `Contrib` -/

@[simp] theorem Contrib.append_top (a b : Contrib) : (a ++ b).top = a.top ++ b.top := rfl
@[simp] theorem Contrib.append_inner (a b : Contrib) : (a ++ b).inner = a.inner ++ b.inner := rfl
@[simp] theorem Contrib.append_ctors (a b : Contrib) : (a ++ b).ctors = a.ctors ++ b.ctors := rfl
@[simp] theorem Contrib.append_members (a b : Contrib) : (a ++ b).members = a.members ++ b.members := rfl
@[simp] theorem Contrib.append_attrs (a b : Contrib) : (a ++ b).attrs = a.attrs ++ b.attrs := rfl

theorem Contrib.ext' {a b : Contrib} (h1 : a.top = b.top) (h2 : a.inner = b.inner) (h3 : a.ctors = b.ctors)
    (h4 : a.members = b.members) (h5 : a.attrs = b.attrs) : a = b := by
  cases a; cases b; simp_all

@[simp] theorem Contrib.empty_append (a : Contrib) : ({} : Contrib) ++ a = a := by
  apply Contrib.ext' <;> simp
@[simp] theorem Contrib.append_empty (a : Contrib) : a ++ ({} : Contrib) = a := by
  apply Contrib.ext' <;> simp

/-! ## entry mutations -/

/-- extend the four member lists of a class entry -/
def ext4 (i : List Str) (ct m : List Method) (a : List Attr) : Entry → Entry
  | .cls n d s i0 c0 m0 a0 => .cls n d s (i0 ++ i) (c0 ++ ct) (m0 ++ m) (a0 ++ a)
  | e => e

@[simp] theorem ext4_nil (e : Entry) : ext4 [] [] [] [] e = e := by cases e <;> simp [ext4]

theorem ext4_ext4 (i1 i2 c1 c2 m1 m2 a1 a2) (e : Entry) :
    ext4 i2 c2 m2 a2 (ext4 i1 c1 m1 a1 e) = ext4 (i1 ++ i2) (c1 ++ c2) (m1 ++ m2) (a1 ++ a2) e := by
  cases e <;> simp [ext4]

theorem setKwargs_ext4 (i c m a) (e : Entry) : setKwargs (ext4 i c m a e) = ext4 i c m a (setKwargs e) := by
  cases e <;> simp [ext4, setKwargs]

theorem setKwargs_idem (e : Entry) : setKwargs (setKwargs e) = setKwargs e := by
  cases e <;> simp [setKwargs]

theorem addInner_eq (n : Str) : addInner n = ext4 [n] [] [] [] := by
  funext e; cases e <;> simp [addInner, ext4]

theorem addAttr_eq (a : Attr) : addAttr a = ext4 [] [] [] [a] := by
  funext e; cases e <;> simp [addAttr, ext4]

theorem addMethod_eq (isCtor : Bool) (md : Method) :
    addMethod isCtor md = if isCtor then ext4 [] [md] [] [] else ext4 [] [] [md] [] := by
  funext e; cases e <;> cases isCtor <;> simp [addMethod, ext4]

/-- the definition that claims a freshly declared method completes it in place -/
theorem defineMethodIn_addMethod (isCtor isMacro : Bool) (extra : List Str) (md : Method) (e : Entry) :
    defineMethodIn isCtor (methodCount isCtor e) isMacro extra (addMethod isCtor md e) =
      addMethod isCtor (md.define isMacro extra) e := by
  cases e <;> cases isCtor <;> simp [defineMethodIn, methodCount, addMethod, modify_append_len]

/-! ## the deferred effects -/

/-- `has_kwargs = True` on the definition on top of the definition stack -/
def markKw (docd : List Entry) (ds : List (Option Nat)) (kw : Bool) : List Entry :=
  match ds, kw with
  | some i :: _, true => docd.modify i setKwargs
  | _, _ => docd

/-- the members contributed to the class on top of the class stack -/
def absorbCls (docd : List Entry) (cs : List (Option Nat)) (c : Contrib) : List Entry :=
  match cs with
  | some j :: _ => docd.modify j (ext4 c.inner c.ctors c.members c.attrs)
  | _ => docd

@[simp] theorem markKw_false (l ds) : markKw l ds false = l := by
  unfold markKw; split <;> simp_all
@[simp] theorem markKw_nil (l k) : markKw l [] k = l := by
  unfold markKw; split <;> simp_all
@[simp] theorem markKw_none (l ds k) : markKw l (none :: ds) k = l := by
  unfold markKw; split <;> simp_all
@[simp] theorem markKw_length (l ds k) : (markKw l ds k).length = l.length := by
  unfold markKw; split <;> simp

theorem markKw_markKw (l ds a b) : markKw (markKw l ds a) ds b = markKw l ds (a || b) := by
  rcases ds with _ | ⟨_ | i, ds⟩ <;> cases a <;> cases b <;> simp [markKw, List.modify_modify_eq]
  apply modify_congr_at
  intro x _
  simp [setKwargs_idem]

theorem markKw_append (l m : List Entry) (ds k) (h : ∀ i, some i ∈ ds → i < l.length) :
    markKw (l ++ m) ds k = markKw l ds k ++ m := by
  rcases ds with _ | ⟨_ | i, ds⟩ <;> cases k <;> simp [markKw]
  exact modify_append_lt _ _ _ _ (h i (by simp))

theorem markKw_here (l : List Entry) (e : Entry) (ds k) :
    markKw (l ++ [e]) (some l.length :: ds) k = l ++ [if k then setKwargs e else e] := by
  cases k <;> simp [markKw, modify_append_len]

@[simp] theorem absorbCls_nil (l c) : absorbCls l [] c = l := rfl
@[simp] theorem absorbCls_none (l cs c) : absorbCls l (none :: cs) c = l := rfl
@[simp] theorem absorbCls_length (l cs c) : (absorbCls l cs c).length = l.length := by
  unfold absorbCls; split <;> simp

theorem absorbCls_absorbCls (l cs a b) : absorbCls (absorbCls l cs a) cs b = absorbCls l cs (a ++ b) := by
  rcases cs with _ | ⟨_ | i, cs⟩ <;> simp [absorbCls, List.modify_modify_eq]
  apply modify_congr_at
  intro x _
  simp [ext4_ext4]

theorem absorbCls_append (l m : List Entry) (cs c) (h : ∀ i, some i ∈ cs → i < l.length) :
    absorbCls (l ++ m) cs c = absorbCls l cs c ++ m := by
  rcases cs with _ | ⟨_ | i, cs⟩ <;> simp [absorbCls]
  exact modify_append_lt _ _ _ _ (h i (by simp))

theorem absorbCls_here (l : List Entry) (e : Entry) (cs c) :
    absorbCls (l ++ [e]) (some l.length :: cs) c = l ++ [ext4 c.inner c.ctors c.members c.attrs e] := by
  simp [absorbCls, modify_append_len]

theorem absorbCls_markKw (l ds cs k c) :
    absorbCls (markKw l ds k) cs c = markKw (absorbCls l cs c) ds k := by
  rcases ds with _ | ⟨_ | i, ds⟩ <;> cases k <;> simp [markKw]
  rcases cs with _ | ⟨_ | j, cs⟩ <;> simp [absorbCls]
  exact modify_comm _ _ (fun x => setKwargs_ext4 _ _ _ _ x) _ _ _

theorem absorbCls_of_empty (l cs) (c : Contrib) (h1 : c.inner = []) (h2 : c.ctors = []) (h3 : c.members = [])
    (h4 : c.attrs = []) : absorbCls l cs c = l := by
  rcases cs with _ | ⟨_ | j, cs⟩ <;> simp [absorbCls, h1, h2, h3, h4]
  exact modify_id_of _ ext4_nil _ _

theorem absorbCls_congr (l cs) (a b : Contrib) (h1 : a.inner = b.inner) (h2 : a.ctors = b.ctors)
    (h3 : a.members = b.members) (h4 : a.attrs = b.attrs) : absorbCls l cs a = absorbCls l cs b := by
  unfold absorbCls; rw [h1, h2, h3, h4]

/-- net effect of items with `cmake_parse_arguments` flag `kw` and contribution `c` on the existing entries -/
def absorb (docd : List Entry) (ds cs : List (Option Nat)) (kw : Bool) (c : Contrib) : List Entry :=
  absorbCls (markKw docd ds kw) cs c

/-- the state after a list of items that (directly) contains a `cmake_parse_arguments` iff `kw` and
    contributes `c` -/
def post (st : AggState) (kw : Bool) (c : Contrib) : AggState :=
  { st with documented := absorb st.documented st.defStack st.classStack kw c ++ c.top }

/-- what holds between two items -/
structure Inv (st : AggState) : Prop where
  aw : st.awaiting = none
  ds : ∀ i, some i ∈ st.defStack → i < st.documented.length
  cs : ∀ i, some i ∈ st.classStack → i < st.documented.length

@[simp] theorem post_defStack (st kw c) : (post st kw c).defStack = st.defStack := rfl
@[simp] theorem post_classStack (st kw c) : (post st kw c).classStack = st.classStack := rfl
@[simp] theorem post_awaiting (st kw c) : (post st kw c).awaiting = st.awaiting := rfl
@[simp] theorem post_errors (st kw c) : (post st kw c).errors = st.errors := rfl

theorem post_documented (st kw c) :
    (post st kw c).documented = absorbCls (markKw st.documented st.defStack kw) st.classStack c ++ c.top := rfl

theorem Inv.post {st : AggState} (h : Inv st) (kw c) : Inv (post st kw c) := by
  refine ⟨h.aw, ?_, ?_⟩
  · intro i hi; have := h.ds i hi; simp [post_documented]; omega
  · intro i hi; have := h.cs i hi; simp [post_documented]; omega

theorem post_empty (st : AggState) : post st false {} = st := by
  obtain ⟨d, cs, aw, ds, er⟩ := st
  simp [post, absorb, absorbCls_of_empty]

theorem post_post {st : AggState} (h : Inv st) (k1 k2 c1 c2) :
    post (post st k1 c1) k2 c2 = post st (k1 || k2) (c1 ++ c2) := by
  obtain ⟨d, cs, aw, ds, er⟩ := st
  simp only [post, absorb, AggState.mk.injEq, and_true, Contrib.append_top]
  have hd := h.ds; have hc := h.cs
  simp only at hd hc
  rw [markKw_append _ _ _ _ (by intro i hi; have := hd i hi; simpa using this)]
  rw [absorbCls_append _ _ _ _ (by intro i hi; have := hc i hi; simpa using this)]
  rw [absorbCls_markKw, absorbCls_markKw, absorbCls_markKw, markKw_markKw, absorbCls_absorbCls, absorbCls_markKw,
    List.append_assoc]

end Cminx
