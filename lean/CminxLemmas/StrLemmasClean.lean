import CminxModel.Str
import CminxLemmas.StrLemmas
/-!
Further helper lemmas about L0 (`Str.lean`) needed by the doccomment-cleaning proofs (C01):
`splitNl` / `joinNl` round trips, `lstripWs` / `lstripSet` on blank prefixes, `replaceAux` fuel.
-/
namespace Cminx

/-! ## `splitNl` -/

theorem splitNl_noNl {l : Str} (h : '\n' ∉ l) : splitNl l = [l] := by
  induction l with
  | nil => simp [splitNl]
  | cons c cs ih =>
    have hc : c ≠ '\n' := fun e => h (by simp [e])
    have hcs : '\n' ∉ cs := fun e => h (by simp [e])
    simp [splitNl, hc, ih hcs]

theorem splitNl_append_nl {a : Str} (b : Str) (h : '\n' ∉ a) :
    splitNl (a ++ '\n' :: b) = a :: splitNl b := by
  induction a with
  | nil => simp [splitNl]
  | cons c cs ih =>
    have hc : c ≠ '\n' := fun e => h (by simp [e])
    have hcs : '\n' ∉ cs := fun e => h (by simp [e])
    simp [splitNl, hc, ih hcs]

/-! ## `joinNl` -/

theorem joinNl_singleton (l : Str) : joinNl [l] = l := by simp [joinNl, joinWith]

theorem joinNl_cons_cons (l l' : Str) (ls : List Str) :
    joinNl (l :: l' :: ls) = l ++ '\n' :: joinNl (l' :: ls) := by
  simp [joinNl, joinWith]

theorem joinNl_cons {ls : List Str} (l : Str) (h : ls ≠ []) :
    joinNl (l :: ls) = l ++ '\n' :: joinNl ls := by
  cases ls with
  | nil => exact absurd rfl h
  | cons l' ls => exact joinNl_cons_cons l l' ls

theorem splitNl_joinNl {ls : List Str} (hne : ls ≠ []) (h : ∀ l ∈ ls, '\n' ∉ l) :
    splitNl (joinNl ls) = ls := by
  induction ls with
  | nil => exact absurd rfl hne
  | cons l ls ih =>
    cases ls with
    | nil => simpa [joinNl_singleton] using splitNl_noNl (h l (by simp))
    | cons l' ls =>
      rw [joinNl_cons_cons, splitNl_append_nl _ (h l (by simp))]
      rw [ih (by simp) (fun x hx => h x (by simp [hx]))]

/-- the text made of `'\n'`-terminated lines followed by an unterminated last line splits back into them -/
theorem splitNl_flatten_nl (ls : List Str) (last : Str) (h : ∀ l ∈ ls, '\n' ∉ l) (hl : '\n' ∉ last) :
    splitNl ((ls.map (fun l => l ++ ['\n'])).flatten ++ last) = ls ++ [last] := by
  induction ls with
  | nil => simpa using splitNl_noNl hl
  | cons l ls ih =>
    have := ih (fun x hx => h x (by simp [hx]))
    simp only [List.map_cons, List.flatten_cons, List.append_assoc, List.cons_append, List.nil_append]
    rw [splitNl_append_nl _ (h l (by simp)), this]

/-! ## stripping -/

theorem pyIsSpace_blank {c : Char} (h : c = ' ' ∨ c = '\t') : pyIsSpace c = true := by
  rcases h with rfl | rfl <;> decide

theorem lstripWs_blanks_append (b s : Str) (hb : ∀ c ∈ b, c = ' ' ∨ c = '\t') :
    lstripWs (b ++ s) = lstripWs s := by
  induction b with
  | nil => rfl
  | cons c cs ih =>
    have hc := pyIsSpace_blank (hb c (by simp))
    have := ih (fun d hd => hb d (by simp [hd]))
    simp only [lstripWs] at this ⊢
    simp [hc, this]

theorem lstripWs_blanks (b : Str) (hb : ∀ c ∈ b, c = ' ' ∨ c = '\t') : lstripWs b = [] := by
  have := lstripWs_blanks_append b [] hb
  simpa [lstripWs] using this

theorem stripWs_blanks_append (b s : Str) (hb : ∀ c ∈ b, c = ' ' ∨ c = '\t') :
    stripWs (b ++ s) = stripWs s := by
  simp [stripWs, lstripWs_blanks_append b s hb]

/-- `line[:n].lstrip() + line[n:]` leaves a line that starts with a non-space character alone -/
theorem lstripWs_take_drop_of_head (n : Nat) (c : Char) (l : Str) (hc : pyIsSpace c = false) :
    lstripWs ((c :: l).take n) ++ (c :: l).drop n = c :: l := by
  cases n with
  | zero => simp [lstripWs]
  | succ n => simp [lstripWs, hc]

/-! ## `replaceAll` -/

/-- any two sufficient amounts of fuel give the same `replaceAux` (non-empty pattern) -/
theorem replaceAux_fuel2 (pat rep : Str) (hp : pat ≠ []) :
    ∀ (f1 f2 : Nat) (s : Str), s.length ≤ f1 → s.length ≤ f2 →
      replaceAux pat rep f1 s = replaceAux pat rep f2 s := by
  intro f1
  induction f1 with
  | zero =>
    intro f2 s hs _
    have : s = [] := List.eq_nil_of_length_eq_zero (by omega)
    subst this; cases f2 <;> rfl
  | succ f1 ih =>
    intro f2 s hs1 hs2
    cases s with
    | nil => cases f2 <;> rfl
    | cons c cs =>
      cases f2 with
      | zero => simp at hs2
      | succ f2 =>
        have hlen : 0 < pat.length := List.length_pos_iff.mpr hp
        have hd : ((c :: cs).drop pat.length).length ≤ cs.length := by
          simp only [List.length_drop, List.length_cons]; omega
        have h1 : cs.length ≤ f1 := by simpa using hs1
        have h2 : cs.length ≤ f2 := by simpa using hs2
        simp only [replaceAux]
        split
        · rw [ih f2 _ (by omega) (by omega)]
        · rw [ih f2 cs h1 h2]

/-- extra fuel does not change `replaceAux` (non-empty pattern) -/
theorem replaceAux_fuel (pat rep : Str) (hp : pat ≠ []) (fuel : Nat) (s : Str) (h : s.length ≤ fuel) :
    replaceAux pat rep fuel s = replaceAux pat rep s.length s :=
  replaceAux_fuel2 pat rep hp fuel s.length s h (Nat.le_refl _)

theorem replaceAll_cons_of_not_prefix (pat rep : Str) (c : Char) (cs : Str) (hp : pat ≠ [])
    (h : pat.isPrefixOf (c :: cs) = false) :
    replaceAll pat rep (c :: cs) = c :: replaceAll pat rep cs := by
  have hpe : pat.isEmpty = false := by cases pat <;> simp_all
  simp [replaceAll, hpe, replaceAux, h]

theorem replaceAll_pat_append (pat rep s : Str) (hp : pat ≠ []) :
    replaceAll pat rep (pat ++ s) = rep ++ replaceAll pat rep s := by
  have hpe : pat.isEmpty = false := by cases pat <;> simp_all
  have hpre : pat.isPrefixOf (pat ++ s) = true := by simp
  cases hps : pat ++ s with
  | nil => simp_all
  | cons c cs =>
    have hlen : s.length ≤ cs.length := by
      have := congrArg List.length hps
      have h0 : 0 < pat.length := List.length_pos_iff.mpr hp
      simp at this; omega
    have hdrop : (c :: cs).drop pat.length = s := by rw [← hps]; exact List.drop_left
    simp only [replaceAll, hpe, Bool.false_eq_true, if_false, List.length_cons, replaceAux]
    rw [← hps, hpre, hps, hdrop]
    simp [replaceAux_fuel pat rep hp cs.length s hlen]

/-- blanks in front of the text are copied by `replace("@module", …)` -/
theorem replaceAll_blanks_append (pat rep b s : Str) (hp : pat ≠ [])
    (hb : ∀ c ∈ b, pat.head? ≠ some c) :
    replaceAll pat rep (b ++ s) = b ++ replaceAll pat rep s := by
  induction b with
  | nil => rfl
  | cons c cs ih =>
    have hnp : pat.isPrefixOf (c :: (cs ++ s)) = false := by
      cases pat with
      | nil => exact absurd rfl hp
      | cons p ps =>
        have : p ≠ c := fun e => hb c (by simp) (by simp [e])
        simp [List.isPrefixOf, this]
    rw [List.cons_append, replaceAll_cons_of_not_prefix pat rep c _ hp hnp,
      ih (fun d hd => hb d (by simp [hd]))]
    rfl

/-- nothing to replace when the pattern does not occur -/
theorem replaceAll_of_not_infix (pat rep s : Str) (hp : pat ≠ []) (h : isInfix pat s = false) :
    replaceAll pat rep s = s := by
  induction s with
  | nil =>
    have hpe : pat.isEmpty = false := by cases pat <;> simp_all
    simp [replaceAll, hpe, replaceAux]
  | cons c cs ih =>
    simp only [isInfix, Bool.or_eq_false_iff] at h
    rw [replaceAll_cons_of_not_prefix pat rep c cs hp h.1, ih h.2]

end Cminx
