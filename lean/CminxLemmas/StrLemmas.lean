import CminxModel.Str
/-! Helper lemmas about L0 (`Str.lean`). -/
namespace Cminx

theorem splitNl_ne_nil (s : Str) : splitNl s ≠ [] := by
  induction s with
  | nil => simp [splitNl]
  | cons c cs ih =>
    unfold splitNl
    split
    · simp
    · split <;> simp

end Cminx
