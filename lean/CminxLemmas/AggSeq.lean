import CminxLemmas.AggLemmas5
import CminxModel.SpecSeq
/-!
# Lemmas for T-aggS, part 1: the awaiting slot between a declaration and its definition

`claimed s ref impl` is the state `s` with the entry behind `ref` completed by the definition `impl` and the
awaiting slot emptied.  The commands between a declaration and its definition only append entries / attributes
and raise `has_kwargs` flags; all of that commutes with the completion (`seq_claimed_post`), so the state after
the definition is what it would be had the definition come first.
-/
namespace Cminx

/-! ## single commands do not look at the awaiting slot -/

/-- `itemOK_cmd` without the hypothesis that nothing awaits a definition -/
theorem seq_cmd_ok (cfg : Cfg) (doc : Option DocC) (call : Call) (inClass : Bool) (st : AggState)
    (hwf : (Item.cmd doc call).wf inClass = true) (hcls : inClass = true → st.classStack ≠ []) :
    step cfg st (docEvent doc call) =
      .ok (post st (Item.cmd doc call).cpaDirect ((Item.cmd doc call).spec cfg (ctxOf st.classStack))) := by
  simp [Item.wf, structuralNames] at hwf
  obtain ⟨⟨⟨⟨⟨hstruct, hgen⟩, hwset⟩, hwopt⟩, hwattr⟩, hwtest⟩ := hwf
  have hspecial : specialNames.contains call.lname = false ∨ call.lname = lit "cmake_parse_arguments" := by
    by_cases h : call.lname = lit "cmake_parse_arguments"
    · exact Or.inr h
    · left; simp [specialNames, hstruct, h]
  by_cases hset : call.lname = lit "set"
  · -- set
    rw [step_set cfg st doc call hset]
    have hl : 1 ≤ call.singles.length := by simpa [hset] using hwset
    simp (decide := true) only [Item.cpaDirect, Item.spec, hset, if_true]
    cases doc with
    | none => simp [post_empty]
    | some d =>
      simp only [Option.isSome_some, if_true, processSet, Call.singles_toCmd, docTextOf]
      rcases hc : call.singles with _ | ⟨a, _ | ⟨b, _ | ⟨c, r⟩⟩⟩ <;> simp [hc, post_top, AggState.push] at hl ⊢
  by_cases hopt : call.lname = lit "option"
  · -- option
    have hs : specialNames.contains call.lname = false := by rw [hopt]; decide
    rw [step_proc cfg st doc call .option cfg.inclOption (fun st doc => processOption st call.toCmd doc) hs hset
      (by rw [hopt]; decide) rfl (fun _ _ => rfl)]
    have hl : 2 ≤ call.singles.length ∧ call.singles.length ≤ 3 := by simpa [hopt] using hwopt
    simp (decide := true) only [Item.cpaDirect, Item.spec, hopt, if_true, if_false]
    by_cases hd : (doc.isSome || cfg.inclOption) = true
    · simp only [hd, if_true, processOption, Call.singles_toCmd]
      rcases hc : call.singles with _ | ⟨a, _ | ⟨b, _ | ⟨c, _ | ⟨e, r⟩⟩⟩⟩ <;>
        simp [hc, AggState.push, post_top] at hl ⊢
    · simp [hd, post_empty]
  by_cases htest : call.lname = lit "add_test"
  · -- add_test
    have hs : specialNames.contains call.lname = false := by rw [htest]; decide
    rw [step_proc cfg st doc call .addTest cfg.inclAddTest (fun st doc => processAddTest st call.toCmd doc) hs hset
      (by rw [htest]; decide) rfl (fun _ _ => rfl)]
    have hl : 2 ≤ (argTexts call.toCmd.args).length ∧ nameOk (argTexts call.toCmd.args) = true := by
      simpa [htest, Call.allTexts] using hwtest
    simp (decide := true) only [Item.cpaDirect, Item.spec, htest, if_true, if_false]
    by_cases hd : (doc.isSome || cfg.inclAddTest) = true
    · simp only [hd, if_true, processAddTest, Call.allTexts, scanName_of_nameOk _ hl.2]
      have : ¬ (argTexts call.toCmd.args).length < 2 := by omega
      simp only [this, if_false, ctestParams]
      rcases nameOf (argTexts call.toCmd.args) with ⟨name, _ | k⟩ <;> simp [AggState.push, post_top]
    · simp [hd, post_empty]
  by_cases hattr : call.lname = lit "cpp_attr"
  · -- cpp_attr
    have hs : specialNames.contains call.lname = false := by rw [hattr]; decide
    rw [step_proc cfg st doc call .cppAttr cfg.inclCppAttr (fun st doc => processCppAttr st call.toCmd doc) hs hset
      (by rw [hattr]; decide) rfl (fun _ _ => rfl)]
    have hl : 2 ≤ call.singles.length ∧ inClass = true := by simpa [hattr] using hwattr
    have hne := hcls hl.2
    simp (decide := true) only [Item.cpaDirect, Item.spec, hattr, if_true, if_false]
    obtain ⟨d, cs, aw, ds, er⟩ := st
    rcases hc : call.singles with _ | ⟨a, _ | ⟨b, r⟩⟩
    · simp [hc] at hl
    · simp [hc] at hl
    rcases cs with _ | ⟨_ | j, cs⟩
    · simp at hne
    · simp [ctxOf, post_empty, processCppAttr, Call.singles_toCmd, hc]
    · by_cases hd : (doc.isSome || cfg.inclCppAttr) = true
      · simp [ctxOf, hd, processCppAttr, Call.singles_toCmd, hc, post, absorb, absorbCls, addAttr_eq, List.head?_eq_getElem?]
      · simp [hd, post_empty]
  by_cases hcpa : call.lname = lit "cmake_parse_arguments"
  · -- cmake_parse_arguments
    rw [step_cpa cfg st doc call hcpa, processCpa_eq]
    simp (decide := true) [Item.cpaDirect, Item.spec, hcpa, post, absorb, absorbCls_of_empty]
  · -- anything else
    have hs : specialNames.contains call.lname = false := by
      rcases hspecial with h | h
      · exact h
      · exact absurd h hcpa
    have hp : procOf call.lname = none := by
      simp [procOf, hstruct, hgen, hset, hopt, htest, hattr, hcpa]
    rw [step_generic cfg st doc call hs hp]
    simp only [Item.cpaDirect, Item.spec, hset, hopt, htest, hattr, hcpa, if_false]
    cases doc <;> simp [post_top, AggState.push]

/-- a single command contributes no inner classes, constructors or members -/
theorem seq_cmd_spec_gap (cfg : Cfg) (ctx : ClsCtx) (doc : Option DocC) (call : Call) :
    ((Item.cmd doc call).spec cfg ctx).inner = [] ∧ ((Item.cmd doc call).spec cfg ctx).ctors = [] ∧
    ((Item.cmd doc call).spec cfg ctx).members = [] := by
  simp only [Item.spec]
  repeat' split
  all_goals exact ⟨rfl, rfl, rfl⟩

/-! ## the completion of the awaiting entry -/

/-- the mutation the claiming definition `impl` applies to `documented` -/
def claimMod (cfg : Cfg) (ref : AwaitRef) (impl : Option Call) (docd : List Entry) : List Entry :=
  match impl with
  | none => docd
  | some i =>
    match ref with
    | .entry idx => docd.modify idx (defineEntry (i.lname = lit "macro") (i.singles.drop 2))
    | .method ci isCtor pos =>
      docd.modify ci (defineMethodIn isCtor pos (i.lname = lit "macro") ((i.singles.map cfg.stripMember).drop 2))

/-- the state with the awaiting entry completed by `impl` and nothing awaiting any more -/
def claimed (cfg : Cfg) (s : AggState) (ref : AwaitRef) (impl : Option Call) : AggState :=
  { s with documented := claimMod cfg ref impl s.documented, awaiting := none }

/-- the reference points into a `documented` list of length `n` -/
def AwaitRef.inRange : AwaitRef → Nat → Prop
  | .entry idx, n => idx < n
  | .method ci _ _, n => ci < n

/-- what holds between a shown declaration and its definition -/
structure InvP (s : AggState) (ref : AwaitRef) : Prop where
  aw : s.awaiting = some ref
  ds : ∀ i, some i ∈ s.defStack → i < s.documented.length
  cs : ∀ i, some i ∈ s.classStack → i < s.documented.length
  rf : ref.inRange s.documented.length

@[simp] theorem seq_claimMod_length (cfg ref impl docd) : (claimMod cfg ref impl docd).length = docd.length := by
  unfold claimMod
  cases impl <;> cases ref <;> simp

@[simp] theorem seq_claimed_defStack (cfg s ref impl) : (claimed cfg s ref impl).defStack = s.defStack := rfl
@[simp] theorem seq_claimed_classStack (cfg s ref impl) : (claimed cfg s ref impl).classStack = s.classStack := rfl
@[simp] theorem seq_claimed_awaiting (cfg s ref impl) : (claimed cfg s ref impl).awaiting = none := rfl
@[simp] theorem seq_claimed_errors (cfg s ref impl) : (claimed cfg s ref impl).errors = s.errors := rfl

theorem InvP.claimed {s : AggState} {ref : AwaitRef} (h : InvP s ref) (cfg : Cfg) (impl : Option Call) :
    Inv (claimed cfg s ref impl) := by
  refine ⟨rfl, ?_, ?_⟩
  · intro i hi; have := h.ds i hi; simpa [Cminx.claimed] using this
  · intro i hi; have := h.cs i hi; simpa [Cminx.claimed] using this

theorem InvP.post {s : AggState} {ref : AwaitRef} (h : InvP s ref) (kw : Bool) (c : Contrib) :
    InvP (post s kw c) ref := by
  refine ⟨h.aw, ?_, ?_, ?_⟩
  · intro i hi; have := h.ds i hi; simp [post_documented]; omega
  · intro i hi; have := h.cs i hi; simp [post_documented]; omega
  · have := h.rf
    cases ref <;>
      simp only [AwaitRef.inRange, post_documented, List.length_append, absorbCls_length, markKw_length] at this ⊢ <;>
      omega

theorem seq_claimDefinition_eq (cfg : Cfg) (s : AggState) (ref : AwaitRef) (o : Call) (S : AggState)
    (hS : S = claimed cfg s ref (some o)) :
    claimDefinition cfg s ref (decide (o.lname = lit "macro")) o.toCmd =
      { S with defStack := none :: S.defStack } := by
  subst hS
  cases ref <;> rfl

/-! ## the completion commutes with what single commands do -/

theorem seq_defineEntry_setKwargs (m : Bool) (x : List Str) (e : Entry) :
    defineEntry m x (setKwargs e) = setKwargs (defineEntry m x e) := by
  cases e <;> simp [defineEntry, setKwargs]

theorem seq_defineEntry_ext4 (m : Bool) (x : List Str) (i c mm a) (e : Entry) :
    defineEntry m x (ext4 i c mm a e) = ext4 i c mm a (defineEntry m x e) := by
  cases e <;> simp [defineEntry, ext4]

theorem seq_defineMethodIn_setKwargs (ic : Bool) (pos : Nat) (m : Bool) (x : List Str) (e : Entry) :
    defineMethodIn ic pos m x (setKwargs e) = setKwargs (defineMethodIn ic pos m x e) := by
  cases e <;> cases ic <;> simp [defineMethodIn, setKwargs]

theorem seq_defineMethodIn_ext4_attrs (ic : Bool) (pos : Nat) (m : Bool) (x : List Str) (a : List Attr) (e : Entry) :
    defineMethodIn ic pos m x (ext4 [] [] [] a e) = ext4 [] [] [] a (defineMethodIn ic pos m x e) := by
  cases e <;> cases ic <;> simp [defineMethodIn, ext4]

/-- a mutation of an old entry that commutes with `setKwargs` and with adding attributes commutes with the
    deferred effects of single commands -/
theorem seq_modify_absorb (f : Entry → Entry) (hk : ∀ e, f (setKwargs e) = setKwargs (f e))
    (ha : ∀ a e, f (ext4 [] [] [] a e) = ext4 [] [] [] a (f e))
    (docd : List Entry) (ds cs : List (Option Nat)) (kw : Bool) (c : Contrib) (i : Nat) (hi : i < docd.length)
    (h1 : c.inner = []) (h2 : c.ctors = []) (h3 : c.members = []) :
    (absorbCls (markKw docd ds kw) cs c ++ c.top).modify i f =
      absorbCls (markKw (docd.modify i f) ds kw) cs c ++ c.top := by
  rw [modify_append_lt _ _ _ _ (by simpa using hi)]
  congr 1
  have hm : (markKw docd ds kw).modify i f = markKw (docd.modify i f) ds kw := by
    rcases ds with _ | ⟨_ | j, ds⟩ <;> cases kw <;> simp [markKw]
    exact modify_comm _ _ (fun e => (hk e).symm) _ _ _
  rw [← hm]
  rcases cs with _ | ⟨_ | j, cs⟩ <;> simp [absorbCls, h1, h2, h3]
  exact modify_comm _ _ (fun e => (ha _ e).symm) _ _ _

theorem seq_claimMod_absorb (cfg : Cfg) (ref : AwaitRef) (impl : Option Call)
    (docd : List Entry) (ds cs : List (Option Nat)) (kw : Bool) (c : Contrib)
    (hr : ref.inRange docd.length)
    (h1 : c.inner = []) (h2 : c.ctors = []) (h3 : c.members = []) :
    claimMod cfg ref impl (absorbCls (markKw docd ds kw) cs c ++ c.top) =
      absorbCls (markKw (claimMod cfg ref impl docd) ds kw) cs c ++ c.top := by
  cases impl with
  | none => rfl
  | some i =>
    cases ref with
    | entry idx =>
      exact seq_modify_absorb _ (seq_defineEntry_setKwargs _ _) (fun a e => seq_defineEntry_ext4 _ _ _ _ _ _ e) _ _ _ _ _ _ hr
        h1 h2 h3
    | method ci ic pos =>
      exact seq_modify_absorb _ (seq_defineMethodIn_setKwargs _ _ _ _) (fun a e => seq_defineMethodIn_ext4_attrs _ _ _ _ a e)
        _ _ _ _ _ _ hr h1 h2 h3

/-- completing the awaiting entry after a run of single commands = completing it before them -/
theorem seq_claimed_post (cfg : Cfg) (s : AggState) (ref : AwaitRef) (impl : Option Call) (h : InvP s ref)
    (kw : Bool) (c : Contrib) (h1 : c.inner = []) (h2 : c.ctors = []) (h3 : c.members = []) :
    claimed cfg (post s kw c) ref impl = post (claimed cfg s ref impl) kw c := by
  simp only [claimed, post, absorb]
  rw [seq_claimMod_absorb cfg ref impl _ _ _ _ _ h.rf h1 h2 h3]

/-- appending an entry and completing the awaiting one commute -/
theorem seq_claimMod_append (cfg : Cfg) (ref : AwaitRef) (impl : Option Call) (docd : List Entry) (e : Entry)
    (hr : ref.inRange docd.length) :
    claimMod cfg ref impl (docd ++ [e]) = claimMod cfg ref impl docd ++ [e] := by
  cases impl with
  | none => rfl
  | some i =>
    cases ref with
    | entry idx => exact modify_append_lt _ _ _ _ hr
    | method ci ic pos => exact modify_append_lt _ _ _ _ hr

end Cminx
