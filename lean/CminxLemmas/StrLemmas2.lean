import CminxLemmas.StrLemmas
/-! Helper lemmas about `splitNl` / `joinNl` / `repeatStr` (L0), used by the C20 proofs. -/
namespace Cminx

/-- a string without `'\n'` is a single line -/
theorem splitNl_of_noNl {l : Str} (h : '\n' ∉ l) : splitNl l = [l] := by
  induction l with
  | nil => simp [splitNl]
  | cons c cs ih =>
    simp only [List.mem_cons, not_or] at h
    simp [splitNl, ih h.2, Ne.symm h.1]

/-- a newline-free prefix followed by `'\n'` is the first line -/
theorem splitNl_noNl_append_nl {l : Str} (h : '\n' ∉ l) (rest : Str) :
    splitNl (l ++ '\n' :: rest) = l :: splitNl rest := by
  induction l with
  | nil => simp [splitNl]
  | cons c cs ih =>
    simp only [List.mem_cons, not_or] at h
    simp [splitNl, ih h.2, Ne.symm h.1]

/-- the lines produced by `splitNl` contain no `'\n'` -/
theorem splitNl_lines_noNl (s : Str) : ∀ l ∈ splitNl s, '\n' ∉ l := by
  induction s with
  | nil => simp [splitNl]
  | cons c cs ih =>
    unfold splitNl
    split
    · intro l hl
      simp only [List.mem_cons] at hl
      rcases hl with rfl | hl
      · simp
      · exact ih l hl
    · rename_i hc
      split
      · rename_i l ls heq
        intro x hx
        simp only [List.mem_cons] at hx
        rcases hx with rfl | hx
        · have := ih l (by simp [heq])
          simp only [List.mem_cons, not_or]
          exact ⟨fun h => hc h.symm, this⟩
        · exact ih x (by simp [heq, hx])
      · intro x hx
        simp only [List.mem_singleton] at hx
        subst hx
        simp only [List.mem_cons, not_or]
        exact ⟨fun h => hc h.symm, by simp⟩

/-- `"\n".join(ls).split("\n") == ls` for a non-empty list of newline-free lines -/
theorem splitNl_joinNl_of_noNl (ls : List Str) (hne : ls ≠ []) (h : ∀ l ∈ ls, '\n' ∉ l) :
    splitNl (joinNl ls) = ls := by
  induction ls with
  | nil => contradiction
  | cons l ls ih =>
    cases ls with
    | nil => simpa [joinNl, joinWith] using splitNl_of_noNl (h l (by simp))
    | cons l' ls' =>
      have ih' := ih (by simp) (fun x hx => h x (List.mem_cons_of_mem _ hx))
      simp only [joinNl, joinWith, List.append_assoc, List.singleton_append] at ih' ⊢
      rw [splitNl_noNl_append_nl (h l (by simp)), ih']

/-- `"\n".join(s.split("\n")) == s` -/
theorem joinNl_splitNl_id (s : Str) : joinNl (splitNl s) = s := by
  induction s with
  | nil => simp [splitNl, joinNl, joinWith]
  | cons c cs ih =>
    unfold splitNl
    split
    · rename_i hc
      subst hc
      have hne := splitNl_ne_nil cs
      cases hs : splitNl cs with
      | nil => exact absurd hs hne
      | cons l ls =>
        rw [hs] at ih
        simp only [joinNl, joinWith, List.nil_append, List.singleton_append] at ih ⊢
        rw [ih]
    · split
      · rename_i l ls heq
        rw [heq] at ih
        cases ls with
        | nil => simp only [joinNl, joinWith] at ih ⊢; rw [ih]
        | cons l' ls' =>
          simp only [joinNl, joinWith, List.append_assoc, List.cons_append] at ih ⊢
          rw [ih]
      · rename_i heq
        exact absurd heq (splitNl_ne_nil cs)

/-- a run of `'\n'`-terminated newline-free lines splits into exactly those lines -/
theorem splitNl_flatten_map_nl (ls : List Str) (h : ∀ l ∈ ls, '\n' ∉ l) (rest : Str) :
    splitNl ((ls.map (· ++ ['\n'])).flatten ++ rest) = ls ++ splitNl rest := by
  induction ls with
  | nil => simp
  | cons l ls ih =>
    have ih' := ih (fun x hx => h x (List.mem_cons_of_mem _ hx))
    simp only [List.map_cons, List.flatten_cons, List.append_assoc, List.cons_append]
    rw [splitNl_noNl_append_nl (h l (by simp)), List.nil_append, ih']

/-- decimal digits contain no newline -/
theorem natStr_noNl (n : Nat) : '\n' ∉ natStr n := by
  intro h
  have e : natStr n = Nat.toDigits 10 n := by simp [natStr, Nat.repr]
  rw [e] at h
  have := Nat.isDigit_of_mem_toDigits (by decide) (by decide) h
  exact absurd this (by decide)

/-- `c * n` for a one-character string -/
theorem repeatStr_single_char (c : Char) (n : Nat) : repeatStr [c] n = List.replicate n c := by
  induction n with
  | zero => rfl
  | succ n ih => simp [repeatStr, ih, List.replicate_succ]

end Cminx
