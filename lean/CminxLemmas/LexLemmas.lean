import CminxModel.Lex
/-!
# Helper lemmas about the scanner model (`CminxModel/Lex.lean`)

* `spanLen`, `findAfter`: split lemmas;
* `pickBest`/`candidates`/`scan`: a picked token was produced by its own rule (`scan_sound`), and if no rule
  matches nothing is picked (`scan_none`);
* per-rule split lemmas `…_split`: a rule that answers `some n` has consumed a prefix of that exact length and
  of the shape the grammar rule describes;
* `lexLoop`: unfolding, the token invariant, enough fuel.
-/
namespace Cminx

/-! ## lists -/

theorem take_spanLen (p : Char → Bool) (s : Str) : s.take (spanLen p s) = s.takeWhile p := by
  induction s with
  | nil => simp [spanLen]
  | cons c cs ih =>
    by_cases h : p c
    · simp [spanLen, h] at ih ⊢; exact ih
    · simp [spanLen, h]

theorem drop_spanLen (p : Char → Bool) (s : Str) : s.drop (spanLen p s) = s.dropWhile p := by
  induction s with
  | nil => simp [spanLen]
  | cons c cs ih =>
    by_cases h : p c
    · simp [spanLen, h] at ih ⊢; exact ih
    · simp [spanLen, h]

theorem spanLen_le (p : Char → Bool) (s : Str) : spanLen p s ≤ s.length := by
  have := congrArg List.length (take_spanLen p s)
  simp [spanLen] at this ⊢
  omega

/-- `s = (longest prefix satisfying p) ++ (rest)`, with the length of the prefix being `spanLen p s` -/
theorem span_split (p : Char → Bool) (s : Str) :
    s = s.takeWhile p ++ s.drop (spanLen p s) ∧ (s.takeWhile p).length = spanLen p s := by
  rw [drop_spanLen]; exact ⟨List.takeWhile_append_dropWhile.symm, rfl⟩

theorem take_of_eq_append {s tok post : Str} {n : Nat} (h : s = tok ++ post) (hn : tok.length = n) :
    s.take n = tok := by
  subst h; subst hn; simp

theorem drop_of_eq_append {s tok post : Str} {n : Nat} (h : s = tok ++ post) (hn : tok.length = n) :
    s.drop n = post := by
  subst h; subst hn; simp

theorem eq_replicate_of_all_eq (a : Char) (l : Str) (h : ∀ c ∈ l, (c == a) = true) :
    l = List.replicate l.length a := by
  induction l with
  | nil => rfl
  | cons c cs ih =>
    have hc : c = a := by simpa using h c (by simp)
    subst hc
    rw [List.length_cons, List.replicate_succ, ← ih (fun d hd => h d (by simp [hd]))]

theorem takeWhile_eq_replicate (a : Char) (s : Str) :
    s.takeWhile (· == a) = List.replicate (spanLen (· == a) s) a := by
  have := eq_replicate_of_all_eq a (s.takeWhile (· == a)) (fun c hc => List.all_eq_true.mp List.all_takeWhile c hc)
  simpa [spanLen] using this

theorem spanLen_replicate_append (a b : Char) (n : Nat) (rest : Str) (hb : b ≠ a) :
    spanLen (· == a) (List.replicate n a ++ b :: rest) = n := by
  induction n with
  | zero => simp [spanLen, hb]
  | succ n ih => simp [spanLen, List.replicate_succ] at ih ⊢; exact ih

/-! ## `findAfter` -/

theorem findAfter_some {pat s : Str} {m : Nat} (h : findAfter pat s = some m) :
    ∃ pre post, s = pre ++ pat ++ post ∧ m = pre.length + pat.length := by
  induction s generalizing m with
  | nil =>
    simp only [findAfter] at h
    split at h
    · rename_i hp
      have : pat = [] := by simpa using hp
      subst this
      exact ⟨[], [], by simp, by simpa using h.symm⟩
    · cases h
  | cons c cs ih =>
    simp only [findAfter] at h
    split at h
    · rename_i hp
      obtain ⟨t, ht⟩ := List.isPrefixOf_iff_prefix.mp hp
      refine ⟨[], t, by simp [ht], ?_⟩
      simpa using (Option.some.inj h).symm
    · simp only [Option.map_eq_some_iff] at h
      obtain ⟨m', hm', rfl⟩ := h
      obtain ⟨pre, post, hs, hm⟩ := ih hm'
      exact ⟨c :: pre, post, by simp [hs], by simp [hm]; omega⟩

/-- an occurrence of `a :: p` contains an occurrence of `p` -/
theorem findAfter_tail_ne_none {a : Char} {p s : Str} (h : findAfter (a :: p) s ≠ none) :
    findAfter p s ≠ none := by
  induction s with
  | nil => simp [findAfter] at h
  | cons c cs ih =>
    simp only [findAfter] at h ⊢
    split at h
    · rename_i hp
      have hp' : p.isPrefixOf cs = true := by
        simp only [List.isPrefixOf] at hp; simp at hp; exact List.isPrefixOf_iff_prefix.mpr hp.2
      split
      · simp
      · have : findAfter p cs ≠ none := by
          cases cs with
          | nil =>
            have : p = [] := by cases p <;> simp_all [List.isPrefixOf]
            subst this; simp [findAfter]
          | cons d ds => simp [findAfter, hp']
        simpa using this
    · split
      · simp
      · have := ih (by simpa using h)
        simpa using this

theorem findAfter_drop_ne_none {p s : Str} (k : Nat) (h : findAfter p (s.drop k) ≠ none) :
    findAfter p s ≠ none := by
  induction k generalizing s with
  | zero => simpa using h
  | succ k ih =>
    cases s with
    | nil => simpa using h
    | cons c cs =>
      simp only [List.drop_succ_cons] at h
      have := ih h
      simp only [findAfter]
      split
      · simp
      · simpa using this

/-! ## the winning candidate comes from its own rule -/

theorem pickBest_mem (cs : List (TokKind × Option (Nat × Nat))) (best : Option (TokKind × Nat × Nat))
    (r : TokKind × Nat × Nat) (h : pickBest cs best = some r) :
    best = some r ∨ (r.1, some r.2) ∈ cs := by
  fun_induction pickBest cs best with
  | case1 best => exact Or.inl h
  | case2 k cs best ih => rcases ih h with h | h <;> simp [h]
  | case3 k sc len cs ih =>
    rcases ih h with h | h
    · right; simp at h; subst h; simp
    · simp [h]
  | case4 k sc len cs bk bsc blen hgt ih =>
    rcases ih h with h | h
    · right; simp at h; subst h; simp
    · simp [h]
  | case5 k sc len cs bk bsc blen hgt ih =>
    rcases ih h with h | h
    · left; exact h
    · simp [h]

/-- the length answered by the rule for kind `k` (the `candidates` table, read by kind) -/
def ruleLen : TokKind → Str → Option Nat
  | .lparen, s => if s.head? == some '(' then some 1 else none
  | .rparen, s => if s.head? == some ')' then some 1 else none
  | .moduleDocstring, s => moduleDocstringLen s
  | .docstring, s => docstringLen s
  | .doccommentStart, s => doccommentStartLen s
  | .blockcommentEnd, s => blockcommentEndLen s
  | .identifier, s => identLen s
  | .unquoted, s => unquotedLen s
  | .escapeSequence, s => escapeLen s
  | .quoted, s => quotedLen s
  | .bracketArg, s => bracketLen s
  | .bracketComment, s => bracketCommentLen s
  | .lineComment, s => (lineCommentLen s).map (·.1)
  | .newline, s => newlineLen s
  | .space, s => spaceLen s

theorem mem_candidates {s : Str} {k : TokKind} {sc n : Nat} (h : (k, some (sc, n)) ∈ candidates s) :
    ruleLen k s = some n := by
  simp only [candidates, List.mem_cons, Prod.mk.injEq, List.not_mem_nil, or_false] at h
  rcases h with h | h | h | h | h | h | h | h | h | h | h | h | h | h | h <;>
    obtain ⟨rfl, h⟩ := h <;>
    simp only [ruleLen] <;>
    (have h := h.symm; simp only [Option.map_eq_some_iff, Prod.mk.injEq] at h) <;>
    (obtain ⟨a, ha, -, rfl⟩ := h; first | (simp [ha]; done) | simpa using ha)

theorem scan_sound {s : Str} {k : TokKind} {n : Nat} (h : scan s = some (k, n)) :
    ruleLen k s = some n ∧ n ≠ 0 := by
  unfold scan at h
  split at h
  · rename_i k' sc len hp
    split at h
    · cases h
    · rename_i hlen
      simp only [Option.some.injEq, Prod.mk.injEq] at h
      obtain ⟨rfl, rfl⟩ := h
      rcases pickBest_mem _ _ _ hp with h' | h'
      · cases h'
      · exact ⟨mem_candidates h', hlen⟩
  · cases h

/-- if no rule matches, no token is recognised -/
theorem scan_none {s : Str} (h : ∀ k, ruleLen k s = none) : scan s = none := by
  cases hs : scan s with
  | none => rfl
  | some r =>
    obtain ⟨k, n⟩ := r
    have := (scan_sound hs).1
    rw [h k] at this; cases this

/-! ## what each rule consumes: `s = tok ++ post`, `tok.length` = the answered length, and the shape of `tok` -/

theorem docStart_eq : docStart = ['#', '[', '[', '['] := by rfl
theorem docEnd_eq : docEnd = ['#', ']', ']'] := by rfl
theorem litModule_eq : lit "@module" = ['@', 'm', 'o', 'd', 'u', 'l', 'e'] := by rfl

theorem paren_split {s : Str} {c : Char} {n : Nat}
    (h : (if s.head? == some c then some 1 else none) = some n) :
    ∃ post, s = [c] ++ post ∧ n = 1 := by
  split at h
  · rename_i hc
    cases s with
    | nil => simp at hc
    | cons d ds =>
      have : d = c := by simpa using hc
      subst this
      exact ⟨ds, rfl, by simpa using h.symm⟩
  · cases h

theorem identLen_split {s : Str} {n : Nat} (h : identLen s = some n) :
    ∃ c cs post, s = (c :: cs) ++ post ∧ (c :: cs).length = n ∧ identStart c = true ∧
      cs.all identChar = true := by
  cases s with
  | nil => simp [identLen] at h
  | cons c r =>
    simp only [identLen] at h
    split at h
    · rename_i hc
      obtain ⟨h1, h2⟩ := span_split identChar r
      refine ⟨c, r.takeWhile identChar, r.drop (spanLen identChar r), ?_, ?_, hc, List.all_takeWhile⟩
      · rw [List.cons_append, ← h1]
      · have := Option.some.inj h
        rw [List.length_cons, h2]; omega
    · cases h

theorem unqLen_le (s : Str) : unqLen s ≤ s.length := by
  fun_induction unqLen s <;> simp <;> omega

theorem unqLen_of_stop {c : Char} (rest : Str) (hc : c ≠ '\\') (hs : unqStop c = true) :
    unqLen (c :: rest) = 0 := by
  rw [unqLen.eq_def]; simp [hc, hs]

theorem escapeLen_split {s : Str} {n : Nat} (h : escapeLen s = some n) :
    ∃ d post, s = ['\\', d] ++ post ∧ n = 2 ∧ escOk d = true := by
  unfold escapeLen at h
  split at h
  · rename_i d post
    split at h
    · rename_i hd; exact ⟨d, post, rfl, (Option.some.inj h).symm, hd⟩
    · cases h
  · cases h

/-- the closing delimiter of a bracket with `n` equal signs -/
def bracketCloseL (n : Nat) : Str := ']' :: (List.replicate n '=' ++ [']'])

theorem bracketLen_split {s : Str} {L : Nat} (h : bracketLen s = some L) :
    ∃ n body post, s = ('[' :: (List.replicate n '=' ++ '[' :: (body ++ bracketCloseL n))) ++ post ∧
      ('[' :: (List.replicate n '=' ++ '[' :: (body ++ bracketCloseL n))).length = L := by
  unfold bracketLen at h
  split at h
  · rename_i rest
    simp only at h
    split at h
    · rename_i body hd
      simp only [Option.map_eq_some_iff] at h
      obtain ⟨m, hm, rfl⟩ := h
      obtain ⟨pre, post, hb, hm'⟩ := findAfter_some hm
      obtain ⟨h1, h2⟩ := span_split (· == '=') rest
      rw [takeWhile_eq_replicate] at h1 h2
      rw [hd, hb] at h1
      generalize spanLen (fun x => x == '=') rest = n at *
      refine ⟨n, pre, post, ?_, ?_⟩
      · rw [h1]; simp [bracketCloseL]
      · simp [bracketCloseL] at hm' ⊢; omega
    · cases h
  · cases h

theorem bracketCommentLen_split {s : Str} {L : Nat} (h : bracketCommentLen s = some L) :
    ∃ n body post, s = ('#' :: '[' :: (List.replicate n '=' ++ '[' :: (body ++ bracketCloseL n))) ++ post ∧
      ('#' :: '[' :: (List.replicate n '=' ++ '[' :: (body ++ bracketCloseL n))).length = L := by
  unfold bracketCommentLen at h
  split at h
  · rename_i rest
    simp only [Option.map_eq_some_iff] at h
    obtain ⟨m, hm, rfl⟩ := h
    obtain ⟨n, body, post, hs, hl⟩ := bracketLen_split hm
    exact ⟨n, body, post, by rw [hs]; rfl, by rw [List.length_cons, hl]⟩
  · cases h

theorem prefix_docStart {s : Str} (h : docStart.isPrefixOf s = true) :
    ∃ t, s = docStart ++ t ∧ s.drop 4 = t := by
  obtain ⟨t, ht⟩ := List.isPrefixOf_iff_prefix.mp h
  exact ⟨t, ht.symm, by rw [← ht, docStart_eq]; rfl⟩

theorem docstringLen_split {s : Str} {L : Nat} (h : docstringLen s = some L) :
    ∃ body post, s = (docStart ++ body ++ docEnd) ++ post ∧ (docStart ++ body ++ docEnd).length = L := by
  unfold docstringLen at h
  split at h
  · rename_i hp
    obtain ⟨t, hs, hd⟩ := prefix_docStart hp
    rw [hd] at h
    simp only [Option.map_eq_some_iff] at h
    obtain ⟨m, hm, rfl⟩ := h
    obtain ⟨pre, post, ht, hm'⟩ := findAfter_some hm
    refine ⟨pre, post, by rw [hs, ht]; simp, ?_⟩
    simp [docStart_eq] at hm' ⊢; omega
  · cases h

theorem moduleDocstringLen_split {s : Str} {L : Nat} (h : moduleDocstringLen s = some L) :
    ∃ blanks body post, s = (docStart ++ blanks ++ lit "@module" ++ body ++ docEnd) ++ post ∧
      (docStart ++ blanks ++ lit "@module" ++ body ++ docEnd).length = L ∧
      blanks.all (fun c => c == ' ' || c == '\t') = true := by
  unfold moduleDocstringLen at h
  split at h
  · rename_i hp
    obtain ⟨t, hs, hd⟩ := prefix_docStart hp
    simp only [hd] at h
    split at h
    · rename_i hm
      obtain ⟨u, hu⟩ := List.isPrefixOf_iff_prefix.mp hm
      obtain ⟨h1, h2⟩ := span_split (fun c => c == ' ' || c == '\t') t
      simp only [Option.map_eq_some_iff] at h
      obtain ⟨m, hm, rfl⟩ := h
      rw [← hu] at hm
      have hdrop : (lit "@module" ++ u).drop 7 = u := by rw [litModule_eq]; rfl
      rw [hdrop] at hm
      obtain ⟨pre, post, hu', hm'⟩ := findAfter_some hm
      refine ⟨t.takeWhile (fun c => c == ' ' || c == '\t'), pre, post, ?_, ?_, List.all_takeWhile⟩
      · rw [hs]
        conv => lhs; rw [h1, ← hu, hu']
        simp
      · rw [← h2]
        simp [docStart_eq, litModule_eq, docEnd_eq] at hm' ⊢; omega
    · cases h
  · cases h

theorem doccommentStartLen_split {s : Str} {L : Nat} (h : doccommentStartLen s = some L) :
    ∃ post, s = docStart ++ post ∧ docStart.length = L := by
  unfold doccommentStartLen at h
  split at h
  · rename_i hp
    obtain ⟨t, hs, -⟩ := prefix_docStart hp
    exact ⟨t, hs, by rw [docStart_eq]; simpa using h⟩
  · cases h

theorem blockcommentEndLen_split {s : Str} {L : Nat} (h : blockcommentEndLen s = some L) :
    ∃ post, s = docEnd ++ post ∧ docEnd.length = L := by
  unfold blockcommentEndLen at h
  split at h
  · rename_i hp
    obtain ⟨t, ht⟩ := List.isPrefixOf_iff_prefix.mp hp
    exact ⟨t, ht.symm, by rw [docEnd_eq]; simpa using h⟩
  · cases h

theorem spanRule_split (p : Char → Bool) {s : Str} {n : Nat}
    (h : (let n := spanLen p s; if n = 0 then none else some n) = some n) :
    ∃ tok post, s = tok ++ post ∧ tok.length = n ∧ tok ≠ [] ∧ tok.all p = true := by
  simp only at h
  split at h
  · cases h
  · rename_i hn
    obtain ⟨h1, h2⟩ := span_split p s
    have hn' := Option.some.inj h
    refine ⟨s.takeWhile p, s.drop (spanLen p s), h1, by omega, ?_, List.all_takeWhile⟩
    intro h0; rw [h0] at h2; simp at h2; omega

theorem lineCommentLen_split {s : Str} {L : Nat} {eof : Bool} (h : lineCommentLen s = some (L, eof)) :
    ∃ body eol post, s = ('#' :: (body ++ eol)) ++ post ∧ ('#' :: (body ++ eol)).length = L ∧
      body.all notEol = true ∧ opensBracket (body ++ eol ++ post) = false ∧
      (eol = [] ∧ post = [] ∨ eol = ['\n'] ∨ eol = ['\r', '\n'] ∨ eol = ['\r'] ∧ post.head? ≠ some '\n') := by
  unfold lineCommentLen at h
  split at h
  · rename_i rest
    split at h
    · cases h
    · rename_i hob
      simp only at h
      obtain ⟨h1, h2⟩ := span_split notEol rest
      have hall : (rest.takeWhile notEol).all notEol = true := List.all_takeWhile
      have hob' : opensBracket rest = false := by simpa using hob
      split at h
      · rename_i hd
        refine ⟨rest.takeWhile notEol, [], [], ?_, ?_, hall, ?_, Or.inl ⟨rfl, rfl⟩⟩
        · rw [hd] at h1; simp at h1 ⊢; exact h1
        · simp at h ⊢; omega
        · rw [hd] at h1; simp at h1 ⊢; rw [← h1]; exact hob'
      · rename_i post hd
        refine ⟨rest.takeWhile notEol, ['\r', '\n'], post, ?_, ?_, hall, ?_, by simp⟩
        · rw [hd] at h1; simp at h1 ⊢; exact h1
        · simp at h ⊢; omega
        · rw [hd] at h1; simp at h1 ⊢; rw [← h1]; exact hob'
      · rename_i c post hne hd
        have hc : notEol c = false := by
          have := drop_spanLen notEol rest
          rw [hd] at this
          have hh := List.head?_dropWhile_not notEol rest
          rw [← this] at hh; simpa using hh
        have hc' : c = '\r' ∨ c = '\n' := by
          simp only [notEol, Bool.or_eq_true, beq_iff_eq, Bool.not_eq_eq_eq_not, Bool.not_false] at hc
          exact hc
        refine ⟨rest.takeWhile notEol, [c], post, ?_, ?_, hall, ?_, ?_⟩
        · rw [hd] at h1; simp at h1 ⊢; exact h1
        · simp at h ⊢; omega
        · rw [hd] at h1; simp at h1 ⊢; rw [← h1]; exact hob'
        · rcases hc' with rfl | rfl
          · right; right; right
            refine ⟨rfl, ?_⟩
            intro hp
            cases post with
            | nil => simp at hp
            | cons d ds =>
              have : d = '\n' := by simpa using hp
              subst this
              exact hne ds rfl rfl
          · right; left; rfl
  · cases h

theorem head?_dropWhile_eq_append_eol (b x : Str) (e : Char) (he : notEol e = false) :
    (((b ++ e :: x).dropWhile (· == '=')).head? == some '[') = ((b.dropWhile (· == '=')).head? == some '[') := by
  induction b with
  | nil =>
    have h1 : e ≠ '=' := by intro h; subst h; simp [notEol] at he
    have h2 : e ≠ '[' := by intro h; subst h; simp [notEol] at he
    simp [h1, h2]
  | cons d b ih =>
    by_cases hd : d = '='
    · subst hd; simpa [List.dropWhile_cons] using ih
    · simp [hd]

/-- whether a comment line opens a bracket is decided before its end of line -/
theorem opensBracket_append_eol (body x : Str) (e : Char) (he : notEol e = false) :
    opensBracket (body ++ e :: x) = opensBracket body := by
  cases body with
  | nil =>
    have h2 : e ≠ '[' := by intro h; subst h; simp [notEol] at he
    simp only [List.nil_append]
    unfold opensBracket
    split
    · rename_i heq; cases heq; exact absurd rfl h2
    · rfl
  | cons c b =>
    by_cases hc : c = '['
    · subst hc
      simp only [List.cons_append, opensBracket, drop_spanLen]
      exact head?_dropWhile_eq_append_eol b x e he
    · unfold opensBracket
      split
      · rename_i heq; cases heq; exact absurd rfl hc
      · split
        · rename_i heq; cases heq; exact absurd rfl hc
        · rfl

/-! ## input that opens a bracket: `[`, n × `=`, `[` -/

theorem drop_replicate_append (n : Nat) (a : Char) (rest : Str) :
    (List.replicate n a ++ rest).drop n = rest := by
  induction n with
  | zero => rfl
  | succ n ih => simp [List.replicate_succ]

theorem bracketLen_open (n : Nat) (rest : Str) :
    bracketLen ('[' :: (List.replicate n '=' ++ '[' :: rest)) =
      (findAfter (bracketCloseL n) rest).map (· + n + 2) := by
  simp only [bracketLen, spanLen_replicate_append '=' '[' n rest (by decide), drop_replicate_append,
    bracketCloseL]

theorem opensBracket_open (n : Nat) (rest : Str) :
    opensBracket ('[' :: (List.replicate n '=' ++ '[' :: rest)) = true := by
  simp [opensBracket, spanLen_replicate_append '=' '[' n rest (by decide)]

theorem docStart_isPrefixOf_open (n : Nat) (rest : Str) :
    docStart.isPrefixOf ('#' :: '[' :: (List.replicate n '=' ++ '[' :: rest)) =
      (n == 0 && rest.head? == some '[') := by
  cases n with
  | zero =>
    cases rest with
    | nil => simp [docStart_eq, List.isPrefixOf]
    | cons c cs => simp [docStart_eq, List.isPrefixOf]; exact Bool.beq_comm
  | succ n => simp [docStart_eq, List.isPrefixOf, List.replicate_succ]

/-! ## input that opens a quoted argument -/

theorem quotedBody_none_of_no_quote {rest : Str} (h : '"' ∉ rest) : quotedBody rest = none := by
  fun_induction quotedBody rest with
  | case1 => rfl
  | case2 rest => simp at h
  | case3 hq => rfl
  | case4 d rest' hq hd ih =>
    have : '"' ∉ rest' := fun hm => h (by simp [hm])
    simp [ih this]
  | case5 d rest' hq hd => rfl
  | case6 c rest hq hb ih =>
    have : '"' ∉ rest := fun hm => h (by simp [hm])
    simp [ih this]

/-- at a double quote only `Quoted_argument` can match -/
theorem scan_quote_none {rest : Str} (h : quotedBody rest = none) : scan ('"' :: rest) = none := by
  apply scan_none
  intro k
  cases k <;> simp [ruleLen, moduleDocstringLen, docstringLen, doccommentStartLen, blockcommentEndLen,
    identLen, identStart, asciiAlpha, unquotedLen, escapeLen, quotedLen, bracketLen,
    bracketCommentLen, lineCommentLen, newlineLen, spaceLen, spanLen, docStart_eq, docEnd_eq,
    h, unqLen_of_stop rest (by decide : '"' ≠ '\\') rfl]

/-! ## `lexLoop` -/

theorem scan_nil : scan [] = none := by
  apply scan_none
  intro k
  cases k <;> simp [ruleLen, moduleDocstringLen, docstringLen, doccommentStartLen, blockcommentEndLen,
    identLen, unquotedLen, unqLen, escapeLen, quotedLen, bracketLen, bracketCommentLen, lineCommentLen,
    newlineLen, spaceLen, spanLen, docStart_eq, docEnd_eq]

theorem scan_ne_nil {s : Str} {r : TokKind × Nat} (h : scan s = some r) : s ≠ [] := by
  intro hs; subst hs; rw [scan_nil] at h; cases h

theorem lexLoop_succ (fuel pos : Nat) (s : Str) (hs : s ≠ []) :
    lexLoop (fuel + 1) pos s =
      match scan s with
      | none => .error pos
      | some (k, len) =>
        match lexLoop fuel (pos + len) (s.drop len) with
        | .ok ts => .ok (⟨k, s.take len⟩ :: ts)
        | .error e => .error e := by
  cases s with
  | nil => exact absurd rfl hs
  | cons c cs => rw [lexLoop]; rfl

/-- one successful step of the loop, as an existential -/
theorem lexLoop_ok_cases {fuel pos : Nat} {s : Str} {ts : List Tok} (h : lexLoop fuel pos s = .ok ts) :
    (s = [] ∧ ts = []) ∨
    ∃ fuel' k n ts', fuel = fuel' + 1 ∧ s ≠ [] ∧ scan s = some (k, n) ∧
      lexLoop fuel' (pos + n) (s.drop n) = .ok ts' ∧ ts = ⟨k, s.take n⟩ :: ts' := by
  cases s with
  | nil => left; simp [lexLoop] at h; exact ⟨rfl, h⟩
  | cons c cs =>
    right
    cases fuel with
    | zero => simp [lexLoop] at h
    | succ f =>
      rw [lexLoop_succ _ _ _ (by simp)] at h
      split at h
      · cases h
      · rename_i k n hsc
        split at h
        · rename_i ts' hl
          exact ⟨f, k, n, ts', rfl, by simp, hsc, hl, by cases h; rfl⟩
        · cases h

theorem lexLoop_lossless {fuel pos : Nat} {s : Str} {ts : List Tok} (h : lexLoop fuel pos s = .ok ts) :
    (ts.map Tok.text).flatten = s := by
  induction fuel generalizing pos s ts with
  | zero =>
    rcases lexLoop_ok_cases h with ⟨rfl, rfl⟩ | ⟨f, k, n, ts', hf, _⟩
    · rfl
    · omega
  | succ f ih =>
    rcases lexLoop_ok_cases h with ⟨rfl, rfl⟩ | ⟨f', k, n, ts', hf, hs, hsc, hl, rfl⟩
    · rfl
    · have : f' = f := by omega
      subst this
      simp [ih hl]

/-- every token of a successful run is `⟨k, s'.take n⟩` for a non-empty suffix `s'` on which `scan` answered `(k, n)` -/
theorem lexLoop_forall (P : Tok → Prop)
    (hP : ∀ (s : Str) (k : TokKind) (n : Nat), s ≠ [] → scan s = some (k, n) → P ⟨k, s.take n⟩)
    {fuel pos : Nat} {s : Str} {ts : List Tok} (h : lexLoop fuel pos s = .ok ts) : ∀ t ∈ ts, P t := by
  induction fuel generalizing pos s ts with
  | zero =>
    rcases lexLoop_ok_cases h with ⟨rfl, rfl⟩ | ⟨f, k, n, ts', hf, _⟩
    · simp
    · omega
  | succ f ih =>
    rcases lexLoop_ok_cases h with ⟨rfl, rfl⟩ | ⟨f', k, n, ts', hf, hs, hsc, hl, rfl⟩
    · simp
    · have : f' = f := by omega
      subst this
      intro t ht
      rcases List.mem_cons.mp ht with rfl | ht
      · exact hP s k n hs hsc
      · exact ih hl t ht

end Cminx
