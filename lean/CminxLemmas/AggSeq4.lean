import CminxLemmas.AggSeq3
/-!
# Lemmas for T-aggS, part 4: the induction over item lists with the awaiting slot

`ItemsOKS` has two halves.  From a state in which nothing awaits a definition (`Inv`) the events of a list lead
to `post st kw (itemsSpecS … false items)`.  From a state in which the entry behind `ref` awaits its definition
(`InvP`) — the list then consists of single commands, the definition, and whatever follows — they lead to the
same shape over the state in which the definition has *already* completed the entry (`claimed`).
-/
namespace Cminx

def ItemsOKS (cfg : Cfg) (items : List Item) : Prop :=
  (∀ (inClass p : Bool) (st : AggState), Inv st → itemsWfS inClass p items = true →
    (inClass = true → st.classStack ≠ []) →
    (cfg.inclCppClass = true ∨ itemsHaveDocumentedClass items = false) →
    (itemsEvents items).foldlM (step cfg) st =
      .ok (post st (itemsCpaDirect items) (itemsSpecS cfg (ctxOf st.classStack) false items))) ∧
  (∀ (inClass : Bool) (s : AggState) (ref : AwaitRef), InvP s ref → itemsWfS inClass true items = true →
    (inClass = true → s.classStack ≠ []) →
    (cfg.inclCppClass = true ∨ itemsHaveDocumentedClass items = false) →
    (itemsEvents items).foldlM (step cfg) s =
      .ok (post (claimed cfg s ref (findImpl items)) (itemsCpaDirect items)
            (itemsSpecS cfg (ctxOf s.classStack) true items)))

theorem ItemsOKS.body {cfg : Cfg} {items : List Item} (h : ItemsOKS cfg items) : BodyOKS cfg items :=
  fun inClass st hinv hwf hcls hk => h.1 inClass false st hinv hwf hcls hk

/-- the induction hypothesis an item provides: its body is fine -/
def ItemOKS (cfg : Cfg) : Item → Prop
  | .block _ _ body _ => BodyOKS cfg body
  | .decl _ _ _ body _ => BodyOKS cfg body
  | _ => True

theorem seq_itemsOK_nil (cfg : Cfg) : ItemsOKS cfg [] := by
  constructor
  · intro inClass p st _ _ _ _
    simp only [itemsEvents, itemsCpaDirect, itemsSpecS, post_empty]
    rfl
  · intro inClass s ref _ hwf _ _
    simp [itemsWfS] at hwf

theorem seq_step_dangling (cfg : Cfg) (st : AggState) : step cfg st .dangling = .ok st := rfl

theorem seq_itemsOK_cons (cfg : Cfg) (i : Item) (is : List Item) (h1 : ItemOKS cfg i) (h2 : ItemsOKS cfg is) :
    ItemsOKS cfg (i :: is) := by
  obtain ⟨h2a, h2b⟩ := h2
  constructor
  · -- nothing awaits a definition
    intro inClass p st hinv hwf hcls hk
    simp only [itemsWfS, Bool.and_eq_true] at hwf
    obtain ⟨hwi, hwis⟩ := hwf
    have hk1 : cfg.inclCppClass = true ∨ i.hasDocumentedClass = false := by
      rcases hk with hk | hk
      · exact Or.inl hk
      · simp only [itemsHaveDocumentedClass, Bool.or_eq_false_iff] at hk; exact Or.inr hk.1
    have hk2 : cfg.inclCppClass = true ∨ itemsHaveDocumentedClass is = false := by
      rcases hk with hk | hk
      · exact Or.inl hk
      · simp only [itemsHaveDocumentedClass, Bool.or_eq_false_iff] at hk; exact Or.inr hk.2
    rw [itemsEvents, List.foldlM_append]
    simp only [itemsSpecS, itemsCpaDirect]
    cases i with
    | cmd doc call =>
      rw [Item.events, foldlM_single]
      by_cases hdn : isDeclName call.lname = true
      · -- a declaration
        simp only [Item.wfS, hdn, if_true, Bool.and_eq_true, Bool.not_eq_true'] at hwi
        obtain ⟨hp, hif⟩ := hwi
        have hmemOk : call.lname = lit "cpp_member" ∨ call.lname = lit "cpp_constructor" →
            2 ≤ call.singles.length ∧ inClass = true := by
          intro h; simpa [h] using hif
        have htestOk : ¬ (call.lname = lit "cpp_member" ∨ call.lname = lit "cpp_constructor") →
            2 ≤ call.singles.length ∧ nameOk call.singles = true := by
          intro h; simpa [h] using hif
        have hcpa : (Item.cmd doc call).cpaDirect = false := by
          rcases (seq_isDeclName_iff _).1 hdn with h | h | h | h <;> simp (decide := true) [Item.cpaDirect, h]
        have hwis' : itemsWfS inClass true is = true := by simpa [Item.pendWf, hdn] using hwis
        rw [hcpa]
        simp only [Item.specS, hdn, if_true, Item.pendS, Bool.false_or, Bool.true_and]
        rcases seq_declcmd cfg doc call inClass st hinv hdn hmemOk htestOk hcls with
          ⟨hsh, hstep⟩ | ⟨hsh, s1, ref, hstep, hp1, hcs1, hcl1⟩
        · rw [hstep, except_ok_bind, h2a inClass true st hinv hwis' hcls hk2, hsh]
          simp [declContrib, hsh]
        · rw [hstep, except_ok_bind, h2b inClass s1 ref hp1 hwis' (by rw [hcs1]; exact hcls) hk2, hcl1,
            post_post hinv, hcs1, hsh]
          simp
      · -- an ordinary single command
        have hdn' : isDeclName call.lname = false := by simpa using hdn
        simp only [Item.wfS, hdn', Bool.false_eq_true, if_false] at hwi
        have hwis' : itemsWfS inClass p is = true := by simpa [Item.pendWf, hdn'] using hwis
        rw [seq_cmd_ok cfg doc call inClass st hwi hcls, except_ok_bind,
          h2a inClass p _ (hinv.post _ _) hwis' hcls hk2, post_post hinv]
        simp [Item.specS, Item.pendS, hdn']
    | block doc o body c =>
      have hpend : (Item.block doc o body c).pendS cfg (ctxOf st.classStack) false = false := by
        simp [Item.pendS]
      rw [seq_block_ok cfg doc o body c (findImpl is) h1 inClass p st hinv hwi hcls hk1, except_ok_bind,
        h2a inClass _ _ (hinv.post _ _) hwis hcls hk2, post_post hinv, hpend]
      rfl
    | decl doc d impl body c =>
      have hpend : (Item.decl doc d impl body c).pendS cfg (ctxOf st.classStack) false = false := rfl
      rw [seq_decl_ok cfg doc d impl body c (findImpl is) h1 inClass p st hinv hwi hcls hk1, except_ok_bind,
        h2a inClass _ _ (hinv.post _ _) hwis hcls hk2, post_post hinv, hpend]
      rfl
    | dangling d =>
      rw [Item.events, foldlM_single, seq_step_dangling, except_ok_bind, h2a inClass _ st hinv hwis hcls hk2]
      simp [Item.specS, Item.pendS, Item.cpaDirect]
  · -- the entry behind `ref` awaits its definition
    intro inClass s ref hp hwf hcls hk
    simp only [itemsWfS, Bool.and_eq_true] at hwf
    obtain ⟨hwi, hwis⟩ := hwf
    have hk1 : cfg.inclCppClass = true ∨ i.hasDocumentedClass = false := by
      rcases hk with hk | hk
      · exact Or.inl hk
      · simp only [itemsHaveDocumentedClass, Bool.or_eq_false_iff] at hk; exact Or.inr hk.1
    have hk2 : cfg.inclCppClass = true ∨ itemsHaveDocumentedClass is = false := by
      rcases hk with hk | hk
      · exact Or.inl hk
      · simp only [itemsHaveDocumentedClass, Bool.or_eq_false_iff] at hk; exact Or.inr hk.2
    rw [itemsEvents, List.foldlM_append]
    simp only [itemsSpecS, itemsCpaDirect]
    cases i with
    | cmd doc call =>
      rw [Item.events, foldlM_single]
      by_cases hdn : isDeclName call.lname = true
      · simp [Item.wfS, hdn] at hwi
      · have hdn' : isDeclName call.lname = false := by simpa using hdn
        simp only [Item.wfS, hdn', Bool.false_eq_true, if_false] at hwi
        have hwis' : itemsWfS inClass true is = true := by simpa [Item.pendWf, hdn'] using hwis
        have hgap := seq_cmd_spec_gap cfg (ctxOf s.classStack) doc call
        have hfind : findImpl (Item.cmd doc call :: is) = findImpl is := by simp [findImpl, Item.implOpener]
        rw [seq_cmd_ok cfg doc call inClass s hwi hcls, except_ok_bind,
          h2b inClass _ ref (hp.post _ _) hwis' hcls hk2,
          seq_claimed_post cfg s ref _ hp _ _ hgap.1 hgap.2.1 hgap.2.2, post_post (hp.claimed cfg _), hfind]
        simp [Item.specS, Item.pendS, hdn']
    | block doc o body c =>
      have hdef : isDefName o.lname = true := by
        simp only [Item.wfS, Bool.and_eq_true, Bool.not_true, Bool.or_false] at hwi
        exact hwi.1.1.1
      have hn : o.lname = lit "function" ∨ o.lname = lit "macro" := (seq_isDefName_iff _).1 hdef
      have hfind : findImpl (Item.block doc o body c :: is) = some o := by
        simp [findImpl, Item.implOpener, hdef]
      have hwis' : itemsWfS inClass false is = true := by simpa [Item.pendWf, hdef] using hwis
      have hpend : (Item.block doc o body c).pendS cfg (ctxOf s.classStack) true = false := by
        simp [Item.pendS, hdef]
      have hcpa : (Item.block doc o body c).cpaDirect = false := by
        rcases hn with hn | hn <;> simp (decide := true) [Item.cpaDirect, hn, isLoopName]
      rw [seq_block_claimed cfg doc o body c (findImpl is) h1 inClass s ref hp hwi hk1, except_ok_bind,
        h2a inClass false _ ((hp.claimed cfg _).post _ _) hwis' hcls hk2, post_post (hp.claimed cfg _), hfind,
        hpend, hcpa]
      rfl
    | decl doc d impl body c =>
      simp [Item.wfS] at hwi
    | dangling d =>
      have hfind : findImpl (Item.dangling d :: is) = findImpl is := by simp [findImpl, Item.implOpener]
      rw [Item.events, foldlM_single, seq_step_dangling, except_ok_bind, h2b inClass s ref hp hwis hcls hk2, hfind]
      simp [Item.specS, Item.pendS, Item.cpaDirect]

mutual
theorem seq_itemOK_all (cfg : Cfg) : (it : Item) → ItemOKS cfg it
  | .cmd _ _ => trivial
  | .block _ _ body _ => (seq_itemsOK_all cfg body).body
  | .decl _ _ _ body _ => (seq_itemsOK_all cfg body).body
  | .dangling _ => trivial
theorem seq_itemsOK_all (cfg : Cfg) : (items : List Item) → ItemsOKS cfg items
  | [] => seq_itemsOK_nil cfg
  | i :: is => seq_itemsOK_cons cfg i is (seq_itemOK_all cfg i) (seq_itemsOK_all cfg is)
end

end Cminx
