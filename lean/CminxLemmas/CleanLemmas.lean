import CminxModel.Clean
import CminxModel.Source
import CminxModel.Rst
import CminxLemmas.StrLemmas
import CminxLemmas.StrLemmasClean
/-!
Helper lemmas for C01: what `clean_doc_lines` (`CminxModel/Clean.lean`) does to each kind of line of a
doccomment, and how the token text of a `DocC` splits into lines.

Blank indentation is written out as `∀ c ∈ ind, c = ' ' ∨ c = '\t'`, newline-freeness as `'\n' ∉ l`.
-/
namespace Cminx

/-! ## literals -/

theorem docStart_eq : docStart = ['#', '[', '[', '['] := by decide
theorem docEnd_eq : docEnd = ['#', ']', ']'] := by decide
theorem litModule_eq : lit "@module" = ['@', 'm', 'o', 'd', 'u', 'l', 'e'] := by decide
theorem litModule_ne_nil : lit "@module" ≠ [] := by rw [litModule_eq]; simp

/-! ## small list facts -/

theorem mapLast_append_singleton (f : Str → Str) (ls : List Str) (l : Str) :
    mapLast f (ls ++ [l]) = ls ++ [f l] := by
  induction ls with
  | nil => rfl
  | cons a as ih =>
    cases as with
    | nil => rfl
    | cons b bs => simpa [mapLast] using ih

theorem lastD_append_singleton (ls : List Str) (l : Str) : lastD (ls ++ [l]) = l := by
  simp [lastD]

theorem not_mem_blanks_nl {ind : Str} (h : ∀ c ∈ ind, c = ' ' ∨ c = '\t') : '\n' ∉ ind := by
  intro hm
  rcases h _ hm with e | e <;> exact absurd e (by decide)

theorem not_mem_dropOneSpace {c : Char} {s : Str} (h : c ∉ s) : c ∉ dropOneSpace s := by
  unfold dropOneSpace
  split
  · intro hm; exact h (by simp [hm])
  · exact h

/-! ## `numSpaces` -/

theorem numSpaces_ind (ind rest : Str) (h : ∀ c ∈ ind, c = ' ' ∨ c = '\t') :
    numSpaces (ind ++ '#' :: rest) = ind.length := by
  induction ind with
  | nil => simp [numSpaces]
  | cons c cs ih =>
    have hc : c = ' ' ∨ c = '\t' := h c (by simp)
    have hcs : ∀ d ∈ cs, d = ' ' ∨ d = '\t' := fun d hd => h d (by simp [hd])
    have := ih hcs
    rcases hc with rfl | rfl <;> simp_all [numSpaces]

/-! ## `cleanLine` on the three kinds of line -/

/-- `line[:n].lstrip() + line[n:]` removes a blank indentation of length `n` -/
theorem lstripWs_take_drop_ind (ind x : Str) (h : ∀ c ∈ ind, c = ' ' ∨ c = '\t') :
    lstripWs ((ind ++ x).take ind.length) ++ (ind ++ x).drop ind.length = x := by
  rw [List.take_left, List.drop_left, lstripWs_blanks ind h]; rfl

/-- a canonical body line (`ind`, `#`, one space, text — or the bare leader for an empty line), possibly
followed by the `'\r'` of a CRLF line ending, cleans to the text (plus that `'\r'`) -/
theorem cleanLine_body (ind t e : Str) (h : ∀ c ∈ ind, c = ' ' ∨ c = '\t') (he : e = [] ∨ e = ['\r']) :
    cleanLine ind.length ((ind ++ '#' :: (if t.isEmpty then [] else ' ' :: t)) ++ e) = t ++ e := by
  unfold cleanLine
  rw [List.append_assoc, lstripWs_take_drop_ind ind _ h]
  cases t with
  | nil => rcases he with rfl | rfl <;> simp [lstripSet, dropOneSpace]
  | cons c cs => simp [lstripSet, List.dropWhile, dropOneSpace]

/-- the opening line `#[[[ suffix`: the indentation removal does not touch it, the delimiter goes -/
theorem cleanLine_open (n : Nat) (suffix : Str) :
    cleanLine n (docStart ++ suffix) = dropOneSpace (lstripSet ['#', '[', ']'] suffix) := by
  unfold cleanLine
  rw [docStart_eq]
  simp only [List.cons_append, List.nil_append]
  rw [lstripWs_take_drop_of_head n '#' _ (by decide)]
  simp [lstripSet, List.dropWhile]

theorem cleanLine_open_nil (n : Nat) : cleanLine n docStart = [] := by
  simpa [lstripSet, dropOneSpace] using cleanLine_open n []

theorem cleanLine_open_cr (n : Nat) : cleanLine n (docStart ++ ['\r']) = ['\r'] := by
  simpa [lstripSet, dropOneSpace] using cleanLine_open n ['\r']

/-- the opening line of a module doccomment, `#[[[`, blanks, `@module`, rest -/
theorem cleanLine_open_module (n : Nat) (sp rest : Str) (hsp : ∀ c ∈ sp, c = ' ' ∨ c = '\t') :
    cleanLine n (docStart ++ (sp ++ lit "@module" ++ rest)) = dropOneSpace (sp ++ lit "@module" ++ rest) := by
  rw [cleanLine_open, litModule_eq]
  congr 1
  cases sp with
  | nil => simp [lstripSet]
  | cons c cs =>
    rcases hsp c (by simp) with rfl | rfl <;> simp [lstripSet]

/-- the closing line `ind #]]` -/
theorem cleanLine_close (ind : Str) (h : ∀ c ∈ ind, c = ' ' ∨ c = '\t') :
    cleanLine ind.length (ind ++ docEnd) = [] := by
  unfold cleanLine
  rw [lstripWs_take_drop_ind ind _ h, docEnd_eq]
  simp [lstripSet, List.dropWhile, dropOneSpace]

/-- with no indentation to remove, a line that starts with an ASCII letter is left alone -/
theorem cleanLine_zero_alpha (t : Str) (h : ∃ c cs, t = c :: cs ∧ c.isAlpha = true) :
    cleanLine 0 t = t := by
  obtain ⟨c, cs, rfl, hc⟩ := h
  have h1 : c ≠ '#' := by rintro rfl; revert hc; decide
  have h2 : c ≠ '[' := by rintro rfl; revert hc; decide
  have h3 : c ≠ ']' := by rintro rfl; revert hc; decide
  have h4 : c ≠ ' ' := by rintro rfl; revert hc; decide
  unfold cleanLine
  simp only [List.take_zero, List.drop_zero, lstripWs, List.dropWhile_nil, List.nil_append]
  have : lstripSet ['#', '[', ']'] (c :: cs) = c :: cs := by
    simp [lstripSet, List.dropWhile, h1, h2, h3]
  rw [this]
  unfold dropOneSpace
  split
  · rename_i heq; exact absurd (List.cons.inj heq).1 h4
  · rfl

/-! ## `cleanDocLines` on a framed block -/

/-- `if cleaned_doc.startswith("\n"): cleaned_doc = cleaned_doc[1:]` -/
def stripLeadNl : Str → Str
  | '\n' :: t => t
  | d => d

theorem cleanDocLines_eq (lines : List Str) :
    cleanDocLines lines =
      stripLeadNl (joinNl (mapLast (rstripSet ['#', ']']) (lines.map (cleanLine (numSpaces (lastD lines)))))) := by
  unfold cleanDocLines stripLeadNl
  rfl

theorem stripLeadNl_nl (t : Str) : stripLeadNl ('\n' :: t) = t := rfl

theorem stripLeadNl_of_head (c : Char) (t : Str) (h : c ≠ '\n') : stripLeadNl (c :: t) = c :: t := by
  unfold stripLeadNl
  split
  · rename_i heq; exact absurd (List.cons.inj heq).1 h
  · rfl

theorem stripLeadNl_of_noNl (f z : Str) (hne : f ≠ []) (h : '\n' ∉ f) : stripLeadNl (f ++ z) = f ++ z := by
  cases f with
  | nil => exact absurd rfl hne
  | cons c cs => exact stripLeadNl_of_head c _ (fun e => h (by simp [e]))

/-- a block whose last line is `ind #]]`: the indentation width is `ind.length`, every line is cleaned
separately, the closing line leaves an empty line -/
theorem cleanDocLines_frame (ind first : Str) (raw : List Str) (h : ∀ c ∈ ind, c = ' ' ∨ c = '\t') :
    cleanDocLines (first :: raw ++ [ind ++ docEnd]) =
      stripLeadNl (joinNl (cleanLine ind.length first :: raw.map (cleanLine ind.length) ++ [[]])) := by
  rw [cleanDocLines_eq]
  have hl : lastD (first :: raw ++ [ind ++ docEnd]) = ind ++ docEnd := by
    exact lastD_append_singleton _ _
  have hn : numSpaces (ind ++ docEnd) = ind.length := by
    rw [docEnd_eq]; exact numSpaces_ind ind _ h
  rw [hl, hn]
  have hm : (first :: raw ++ [ind ++ docEnd]).map (cleanLine ind.length) =
      (cleanLine ind.length first :: raw.map (cleanLine ind.length)) ++ [[]] := by
    simp [cleanLine_close ind h]
  rw [hm, mapLast_append_singleton]
  have : rstripSet ['#', ']'] [] = [] := by simp [rstripSet, lstripSet]
  rw [this]

/-! ## the token text of a `DocC`, line by line -/

/-- what precedes the `'\n'` of a line ending -/
def eolCr (crlf : Bool) : Str := if crlf then ['\r'] else []

theorem eolStr_eq (crlf : Bool) : eolStr crlf = eolCr crlf ++ ['\n'] := by
  cases crlf <;> rfl

theorem DocC.tokenText_eq (d : DocC) :
    d.tokenText = (docStart ++ d.openSuffix ++ eolCr d.crlf) ++ '\n' ::
      (((d.lines.map (fun t => d.bodyLine t ++ eolCr d.crlf)).map (fun l => l ++ ['\n'])).flatten
        ++ (d.ind ++ docEnd)) := by
  simp [DocC.tokenText, eolStr_eq, List.map_map, Function.comp_def]

theorem DocC.splitNl_tokenText (d : DocC) (hs : '\n' ∉ d.openSuffix)
    (hb : ∀ t ∈ d.lines, '\n' ∉ d.bodyLine t) (hi : '\n' ∉ d.ind) :
    splitNl d.tokenText =
      (docStart ++ d.openSuffix ++ eolCr d.crlf) ::
        (d.lines.map (fun t => d.bodyLine t ++ eolCr d.crlf) ++ [d.ind ++ docEnd]) := by
  have he : '\n' ∉ eolCr d.crlf := by cases d.crlf <;> simp [eolCr]
  have h1 : '\n' ∉ docStart ++ d.openSuffix ++ eolCr d.crlf := by
    rw [docStart_eq]; simp [hs, he]
  have h2 : '\n' ∉ d.ind ++ docEnd := by rw [docEnd_eq]; simp [hi]
  rw [DocC.tokenText_eq, splitNl_append_nl _ h1, splitNl_flatten_nl _ _ _ h2]
  intro l hl
  obtain ⟨t, ht, rfl⟩ := List.mem_map.mp hl
  simp [hb t ht, he]

theorem DocC.bodyLine_noNl (d : DocC) (t : Str) (hi : '\n' ∉ d.ind) (ht : '\n' ∉ t) :
    '\n' ∉ d.bodyLine t := by
  unfold DocC.bodyLine
  split
  · split <;> simp [hi, ht]
  · exact ht

/-! ## cleaning the token text of a `DocC` -/

/-- doccomment with leaders, any opening-line suffix, either line ending: the cleaned lines before the
leading-newline removal -/
theorem cleanDoc_tokenText_leader (d : DocC) (hl : d.leader = true)
    (hi : ∀ c ∈ d.ind, c = ' ' ∨ c = '\t') (hs : '\n' ∉ d.openSuffix) (hn : ∀ t ∈ d.lines, '\n' ∉ t) :
    cleanDoc d.tokenText =
      stripLeadNl (joinNl (dropOneSpace (lstripSet ['#', '[', ']'] (d.openSuffix ++ eolCr d.crlf)) ::
        d.lines.map (fun t => t ++ eolCr d.crlf) ++ [[]])) := by
  have hind := not_mem_blanks_nl hi
  unfold cleanDoc
  rw [d.splitNl_tokenText hs (fun t ht => d.bodyLine_noNl t hind (hn t ht)) hind,
    ← List.cons_append, cleanDocLines_frame _ _ _ hi, List.append_assoc, cleanLine_open]
  have he : eolCr d.crlf = [] ∨ eolCr d.crlf = ['\r'] := by cases d.crlf <;> simp [eolCr]
  have hm : (d.lines.map (fun t => d.bodyLine t ++ eolCr d.crlf)).map (cleanLine d.ind.length) =
      d.lines.map (fun t => t ++ eolCr d.crlf) := by
    rw [List.map_map]
    apply List.map_congr_left
    intro t _
    simp only [Function.comp_apply, DocC.bodyLine, hl, if_true]
    exact cleanLine_body d.ind t _ hi he
  rw [hm]

/-- doccomment without leaders, unindented, every line starting with an ASCII letter, LF line ends -/
theorem cleanDoc_tokenText_leaderless (d : DocC) (hl : d.leader = false) (hi : d.ind = [])
    (hc : d.crlf = false) (hs : '\n' ∉ d.openSuffix) (hn : ∀ t ∈ d.lines, '\n' ∉ t)
    (ha : ∀ t ∈ d.lines, ∃ c cs, t = c :: cs ∧ c.isAlpha = true) :
    cleanDoc d.tokenText =
      stripLeadNl (joinNl (dropOneSpace (lstripSet ['#', '[', ']'] d.openSuffix) :: d.lines ++ [[]])) := by
  have hib : ∀ c ∈ d.ind, c = ' ' ∨ c = '\t' := by simp [hi]
  have hind := not_mem_blanks_nl hib
  unfold cleanDoc
  rw [d.splitNl_tokenText hs (fun t ht => d.bodyLine_noNl t hind (hn t ht)) hind,
    ← List.cons_append, cleanDocLines_frame _ _ _ hib, List.append_assoc, cleanLine_open]
  have hm : (d.lines.map (fun t => d.bodyLine t ++ eolCr d.crlf)).map (cleanLine d.ind.length) = d.lines := by
    rw [List.map_map]
    conv => rhs; rw [← List.map_id d.lines]
    apply List.map_congr_left
    intro t ht
    simp only [Function.comp_apply, DocC.bodyLine, hl, hc, hi, eolCr, List.append_nil, List.length_nil, id,
      Bool.false_eq_true, if_false]
    exact cleanLine_zero_alpha t (ha t ht)
  rw [hm]
  simp [hc, eolCr]

/-- the shape every proof below ends with: an empty first cleaned line is swallowed -/
theorem stripLeadNl_joinNl_nil_cons (ls : List Str) :
    stripLeadNl (joinNl ([] :: ls ++ [[]])) = joinNl (ls ++ [[]]) := by
  rw [List.cons_append, joinNl_cons _ (by simp)]
  rfl

/-! ## the `@module` opening line -/

/-- dropping the optional single space in front of `@module` leaves blanks, `@module`, rest -/
theorem dropOneSpace_module (sp r : Str) (hsp : ∀ c ∈ sp, c = ' ' ∨ c = '\t') :
    ∃ b : Str, (∀ c ∈ b, c = ' ' ∨ c = '\t') ∧
      dropOneSpace (sp ++ lit "@module" ++ r) = b ++ (lit "@module" ++ r) := by
  cases sp with
  | nil => exact ⟨[], by simp, by rw [litModule_eq]; rfl⟩
  | cons c cs =>
    have hcs : ∀ d ∈ cs, d = ' ' ∨ d = '\t' := fun d hd => hsp d (by simp [hd])
    rcases hsp c (by simp) with rfl | rfl
    · exact ⟨cs, hcs, by simp [dropOneSpace]⟩
    · exact ⟨'\t' :: cs, hsp, by simp [dropOneSpace]⟩

theorem module_name_eq (sp r : Str) (hsp : ∀ c ∈ sp, c = ' ' ∨ c = '\t') :
    stripWs (replaceAll (lit "@module") [] (dropOneSpace (sp ++ lit "@module" ++ r))) =
      stripWs (replaceAll (lit "@module") [] r) := by
  obtain ⟨b, hb, he⟩ := dropOneSpace_module sp r hsp
  have hhead : ∀ c ∈ b, (lit "@module").head? ≠ some c := by
    intro c hc
    rw [litModule_eq]
    rcases hb c hc with rfl | rfl <;> decide
  rw [he, replaceAll_blanks_append _ _ _ _ litModule_ne_nil hhead,
    replaceAll_pat_append _ _ _ litModule_ne_nil, List.nil_append, stripWs_blanks_append _ _ hb]

/-- module doccomment, either line ending (`e` is what precedes each `'\n'`): name and doc -/
theorem moduleNameDoc_tokenText (d : DocC) (sp rest : Str) (hl : d.leader = true)
    (hi : ∀ c ∈ d.ind, c = ' ' ∨ c = '\t') (ho : d.openSuffix = sp ++ lit "@module" ++ rest)
    (hsp : ∀ c ∈ sp, c = ' ' ∨ c = '\t') (hr : '\n' ∉ rest) (hn : ∀ t ∈ d.lines, '\n' ∉ t) :
    cleanDoc d.tokenText =
        joinNl (dropOneSpace (sp ++ lit "@module" ++ (rest ++ eolCr d.crlf)) ::
          d.lines.map (fun t => t ++ eolCr d.crlf) ++ [[]]) ∧
      moduleNameDoc d.tokenText =
        (stripWs (replaceAll (lit "@module") [] (rest ++ eolCr d.crlf)),
          joinNl (d.lines.map (fun t => t ++ eolCr d.crlf) ++ [[]])) := by
  have he : '\n' ∉ eolCr d.crlf := by cases d.crlf <;> simp [eolCr]
  have hspn := not_mem_blanks_nl hsp
  have hm : '\n' ∉ lit "@module" := by rw [litModule_eq]; decide
  have hs : '\n' ∉ d.openSuffix := by rw [ho]; simp [hspn, hm, hr]
  have hfirst : dropOneSpace (lstripSet ['#', '[', ']'] (d.openSuffix ++ eolCr d.crlf)) =
      dropOneSpace (sp ++ lit "@module" ++ (rest ++ eolCr d.crlf)) := by
    rw [ho, List.append_assoc _ rest]
    exact (cleanLine_open 0 _).symm.trans (cleanLine_open_module 0 sp _ hsp)
  have hclean := cleanDoc_tokenText_leader d hl hi hs hn
  rw [hfirst] at hclean
  generalize hF : dropOneSpace (sp ++ lit "@module" ++ (rest ++ eolCr d.crlf)) = F at hclean
  have hFn : '\n' ∉ F := by
    rw [← hF]; apply not_mem_dropOneSpace; simp [hspn, hm, hr, he]
  have hFne : F ≠ [] := by
    obtain ⟨b, _, hb⟩ := dropOneSpace_module sp (rest ++ eolCr d.crlf) hsp
    rw [← hF, hb, litModule_eq]; simp
  have hL : ∀ l ∈ d.lines.map (fun t => t ++ eolCr d.crlf) ++ [[]], '\n' ∉ l := by
    intro l hl
    rcases List.mem_append.mp hl with hl | hl
    · obtain ⟨t, ht, rfl⟩ := List.mem_map.mp hl
      simp [hn t ht, he]
    · simp at hl; simp [hl]
  rw [List.cons_append, joinNl_cons _ (by simp), stripLeadNl_of_noNl _ _ hFne hFn] at hclean
  constructor
  · rw [hclean, List.cons_append, joinNl_cons _ (by simp)]
  · unfold moduleNameDoc
    rw [hclean, splitNl_append_nl _ hFn, splitNl_joinNl (by simp) hL]
    simp only
    rw [← hF, module_name_eq sp _ hsp]

/-! ## `renderPara` -/

theorem indent_noNl (k : Nat) : '\n' ∉ indent k := by
  simp [indent, List.mem_replicate]

theorem splitNl_all_noNl (s : Str) : ∀ l ∈ splitNl s, '\n' ∉ l := by
  induction s with
  | nil => simp [splitNl]
  | cons c cs ih =>
    unfold splitNl
    split
    · rename_i hc
      intro l hl
      rcases List.mem_cons.mp hl with rfl | hl
      · simp
      · exact ih l hl
    · rename_i hc
      split
      · rename_i l ls heq
        intro x hx
        rw [heq] at ih
        rcases List.mem_cons.mp hx with rfl | hx
        · have := ih l (by simp)
          simp [this, Ne.symm hc]
        · exact ih x (by simp [hx])
      · rename_i heq; exact absurd heq (splitNl_ne_nil cs)

end Cminx
