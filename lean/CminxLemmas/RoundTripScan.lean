import CminxModel.Lex
import CminxLemmas.LexLemmas
/-!
# Round trip, part 1: which rule wins `scan`

`scan` picks the candidate with the highest score, the first one on ties.  `scan_of_best` turns that into a
usable criterion: the rule `k` wins with length `n` if every rule listed before it scores strictly less and every
rule listed after it scores at most as much.
-/
namespace Cminx

/-! ## the rule table by kind -/

def allKinds : List TokKind :=
  [.lparen, .rparen, .moduleDocstring, .docstring, .doccommentStart, .blockcommentEnd, .identifier, .unquoted,
   .escapeSequence, .quoted, .bracketArg, .bracketComment, .lineComment, .newline, .space]

/-- position of the rule in the grammar -/
def TokKind.idx : TokKind → Nat
  | .lparen => 0 | .rparen => 1 | .moduleDocstring => 2 | .docstring => 3 | .doccommentStart => 4
  | .blockcommentEnd => 5 | .identifier => 6 | .unquoted => 7 | .escapeSequence => 8 | .quoted => 9
  | .bracketArg => 10 | .bracketComment => 11 | .lineComment => 12 | .newline => 13 | .space => 14

def plainScore (o : Option Nat) : Option (Nat × Nat) := o.map (fun n => (2 * n, n))

/-- the entry of `candidates s` for rule `k`: (score, length) -/
def ruleScore : TokKind → Str → Option (Nat × Nat)
  | .lparen, s => plainScore (if s.head? == some '(' then some 1 else none)
  | .rparen, s => plainScore (if s.head? == some ')' then some 1 else none)
  | .moduleDocstring, s => plainScore (moduleDocstringLen s)
  | .docstring, s => plainScore (docstringLen s)
  | .doccommentStart, s => plainScore (doccommentStartLen s)
  | .blockcommentEnd, s => plainScore (blockcommentEndLen s)
  | .identifier, s => plainScore (identLen s)
  | .unquoted, s => plainScore (unquotedLen s)
  | .escapeSequence, s => plainScore (escapeLen s)
  | .quoted, s => plainScore (quotedLen s)
  | .bracketArg, s => plainScore (bracketLen s)
  | .bracketComment, s => plainScore (bracketCommentLen s)
  | .lineComment, s => (lineCommentLen s).map (fun (n, eof) => (2 * n + (if eof then 1 else 0), n))
  | .newline, s => plainScore (newlineLen s)
  | .space, s => plainScore (spaceLen s)

theorem candidates_eq (s : Str) : candidates s = allKinds.map (fun k => (k, ruleScore k s)) := rfl

theorem allKinds_split (k : TokKind) :
    allKinds = allKinds.take k.idx ++ k :: allKinds.drop (k.idx + 1) := by cases k <;> rfl

theorem allKinds_take_idx (k : TokKind) : ∀ k' ∈ allKinds.take k.idx, k'.idx < k.idx := by
  cases k <;> decide

theorem allKinds_drop_idx (k : TokKind) : ∀ k' ∈ allKinds.drop (k.idx + 1), k.idx < k'.idx := by
  cases k <;> decide

/-! ## `pickBest` -/

theorem pickBest_append (a b : List (TokKind × Option (Nat × Nat))) (best : Option (TokKind × Nat × Nat)) :
    pickBest (a ++ b) best = pickBest b (pickBest a best) := by
  fun_induction pickBest a best with
  | case1 best => rfl
  | case2 k cs best ih => simpa [pickBest] using ih
  | case3 k sc len cs ih => simpa [pickBest] using ih
  | case4 k sc len cs bk bsc blen hgt ih => simpa [pickBest, hgt] using ih
  | case5 k sc len cs bk bsc blen hgt ih => simpa [pickBest, hgt] using ih

/-- a best candidate that no later candidate beats stays -/
theorem pickBest_keep (cs : List (TokKind × Option (Nat × Nat))) (b : TokKind × Nat × Nat)
    (h : ∀ k' sc' l', (k', some (sc', l')) ∈ cs → sc' ≤ b.2.1) : pickBest cs (some b) = some b := by
  induction cs with
  | nil => rfl
  | cons c cs ih =>
    obtain ⟨k, o⟩ := c
    obtain ⟨bk, bsc, blen⟩ := b
    have ih' := ih (fun k' sc' l' hm => h k' sc' l' (by simp [hm]))
    cases o with
    | none => simpa [pickBest] using ih'
    | some v =>
      obtain ⟨sc, len⟩ := v
      have : ¬ sc > bsc := by have := h k sc len (by simp); simp at this; omega
      simpa [pickBest, this] using ih'

/-- the first candidate of maximal score is picked -/
theorem pickBest_split (pre post : List (TokKind × Option (Nat × Nat))) (k : TokKind) (sc n : Nat)
    (hpre : ∀ k' sc' l', (k', some (sc', l')) ∈ pre → sc' < sc)
    (hpost : ∀ k' sc' l', (k', some (sc', l')) ∈ post → sc' ≤ sc) :
    pickBest (pre ++ (k, some (sc, n)) :: post) none = some (k, sc, n) := by
  rw [pickBest_append]
  cases hb : pickBest pre none with
  | none => simpa [pickBest] using pickBest_keep post (k, sc, n) hpost
  | some b =>
    obtain ⟨bk, bsc, blen⟩ := b
    have hlt : sc > bsc := by
      rcases pickBest_mem _ _ _ hb with h | h
      · cases h
      · exact hpre bk bsc blen h
    simpa [pickBest, hlt] using pickBest_keep post (k, sc, n) hpost

/-- **the winner criterion**: rule `k` wins if earlier rules score less and later rules do not score more -/
theorem scan_of_best {s : Str} {k : TokKind} {sc n : Nat} (hk : ruleScore k s = some (sc, n)) (hn : n ≠ 0)
    (hlt : ∀ k' sc' n', k'.idx < k.idx → ruleScore k' s = some (sc', n') → sc' < sc)
    (hle : ∀ k' sc' n', k.idx < k'.idx → ruleScore k' s = some (sc', n') → sc' ≤ sc) :
    scan s = some (k, n) := by
  have hp : pickBest (candidates s) none = some (k, sc, n) := by
    rw [candidates_eq, allKinds_split k, List.map_append, List.map_cons, hk]
    apply pickBest_split
    · intro k' sc' l' hm
      simp only [List.mem_map, Prod.mk.injEq] at hm
      obtain ⟨k'', hk'', rfl, hs⟩ := hm
      exact hlt _ _ _ (allKinds_take_idx k _ hk'') hs
    · intro k' sc' l' hm
      simp only [List.mem_map, Prod.mk.injEq] at hm
      obtain ⟨k'', hk'', rfl, hs⟩ := hm
      exact hle _ _ _ (allKinds_drop_idx k _ hk'') hs
  simp [scan, hp, hn]

/-- the only rule that matches wins -/
theorem scan_of_unique {s : Str} {k : TokKind} {sc n : Nat} (hk : ruleScore k s = some (sc, n)) (hn : n ≠ 0)
    (hu : ∀ k', k' ≠ k → ruleScore k' s = none) : scan s = some (k, n) := by
  apply scan_of_best hk hn
  · intro k' sc' n' hi h
    rw [hu k' (by intro e; subst e; omega)] at h; cases h
  · intro k' sc' n' hi h
    rw [hu k' (by intro e; subst e; omega)] at h; cases h

/-- a picked token was produced by its own rule -/
theorem scan_rule {s : Str} {k : TokKind} {n : Nat} (h : scan s = some (k, n)) :
    ∃ sc, ruleScore k s = some (sc, n) ∧ n ≠ 0 := by
  unfold scan at h
  split at h
  · rename_i k' sc len hp
    split at h
    · cases h
    · rename_i hlen
      simp only [Option.some.injEq, Prod.mk.injEq] at h
      obtain ⟨rfl, rfl⟩ := h
      rcases pickBest_mem _ _ _ hp with h' | h'
      · cases h'
      · rw [candidates_eq] at h'
        simp only [List.mem_map, Prod.mk.injEq] at h'
        obtain ⟨k'', -, rfl, hs⟩ := h'
        exact ⟨sc, hs, hlen⟩
  · cases h

end Cminx
