import CminxLemmas.AggSeq2
/-!
# Lemmas for T-aggS, part 3: the declaration command, `Item.decl` as the special case, the induction
-/
namespace Cminx

/-! ## the declaration written as a command of its own -/

/-- The declaration command from a state between two items: either the listener stores nothing and the state is
    unchanged (hidden declaration), or it stores the entry and awaits the definition; completing that entry by
    `impl` gives the old state plus the contribution the specification assigns to the declaration. -/
theorem seq_declcmd (cfg : Cfg) (doc : Option DocC) (d : Call) (inClass : Bool) (st : AggState) (hinv : Inv st)
    (hn : isDeclName d.lname = true)
    (hmemOk : d.lname = lit "cpp_member" ∨ d.lname = lit "cpp_constructor" →
      2 ≤ d.singles.length ∧ inClass = true)
    (htestOk : ¬ (d.lname = lit "cpp_member" ∨ d.lname = lit "cpp_constructor") →
      2 ≤ d.singles.length ∧ nameOk d.singles = true)
    (hcls : inClass = true → st.classStack ≠ []) :
    (declShown cfg (ctxOf st.classStack) doc d = false ∧ step cfg st (docEvent doc d) = .ok st) ∨
    (declShown cfg (ctxOf st.classStack) doc d = true ∧
      ∃ s1 ref, step cfg st (docEvent doc d) = .ok s1 ∧ InvP s1 ref ∧ s1.classStack = st.classStack ∧
        ∀ impl, claimed cfg s1 ref impl = post st false (declContrib cfg (ctxOf st.classStack) doc d impl)) := by
  by_cases htest : d.lname = lit "ct_add_test" ∨ d.lname = lit "ct_add_section"
  · -- ct_add_test / ct_add_section
    have hfacts : specialNames.contains d.lname = false ∧ d.lname ≠ lit "set" ∧
        ¬ (d.lname = lit "cpp_member" ∨ d.lname = lit "cpp_constructor") := by
      rcases htest with h | h <;> rw [h] <;> decide
    obtain ⟨hs, hset, hnm⟩ := hfacts
    have hd2 := htestOk hnm
    have hstep : step cfg st (docEvent doc d) =
        .ok (if doc.isSome || (if d.lname = lit "ct_add_section" then cfg.inclCtAddSection else cfg.inclCtAddTest)
             then processCtTest (decide (d.lname = lit "ct_add_section")) st d.toCmd (docTextOf doc) else st) := by
      rcases htest with h | h
      · have := step_proc cfg st doc d .ctAddTest cfg.inclCtAddTest
          (fun st doc => processCtTest false st d.toCmd doc) hs hset (by rw [h]; decide) rfl (fun _ _ => rfl)
        simpa (decide := true) [h] using this
      · have := step_proc cfg st doc d .ctAddSection cfg.inclCtAddSection
          (fun st doc => processCtTest true st d.toCmd doc) hs hset (by rw [h]; decide) rfl (fun _ _ => rfl)
        simpa (decide := true) [h] using this
    have htestb : (decide (d.lname = lit "ct_add_test") || decide (d.lname = lit "ct_add_section")) = true := by
      simpa using htest
    have hshown : declShown cfg (ctxOf st.classStack) doc d =
        (doc.isSome || (if d.lname = lit "ct_add_section" then cfg.inclCtAddSection else cfg.inclCtAddTest)) := by
      simp only [declShown, htestb, if_true]
    rw [hstep, hshown]
    by_cases hd : (doc.isSome ||
        (if d.lname = lit "ct_add_section" then cfg.inclCtAddSection else cfg.inclCtAddTest)) = true
    · right
      refine ⟨hd,
        { st with documented := st.documented ++
                    [.test (decide (d.lname = lit "ct_add_section")) (nameOf d.singles).1 (docTextOf doc)
                      (d.singles.contains (lit "EXPECTFAIL")) [] false],
                  awaiting := some (.entry st.documented.length) },
        .entry st.documented.length, by rw [if_pos hd, processCtTest_eq st d _ _ hd2.1 hd2.2], ?_, rfl, ?_⟩
      · refine ⟨rfl, ?_, ?_, ?_⟩
        · intro i hi; have := hinv.ds i hi; simp only [List.length_append, List.length_cons, List.length_nil]; omega
        · intro i hi; have := hinv.cs i hi; simp only [List.length_append, List.length_cons, List.length_nil]; omega
        · simp [AwaitRef.inRange]
      · intro impl
        obtain ⟨dd, cls, aw, ds, er⟩ := st
        have haw := hinv.aw
        simp only at haw
        subst haw
        cases impl <;>
          simp [claimed, claimMod, declContrib, declShown, hd, htestb, post_top, defineEntry, modify_append_len]
    · left
      simp [hd]
  · -- cpp_member / cpp_constructor
    have hmem : d.lname = lit "cpp_member" ∨ d.lname = lit "cpp_constructor" := by
      rcases (seq_isDeclName_iff _).1 hn with h | h | h | h
      · exact Or.inl h
      · exact Or.inr h
      · exact absurd (Or.inl h) htest
      · exact absurd (Or.inr h) htest
    have hfacts : specialNames.contains d.lname = false ∧ d.lname ≠ lit "set" := by
      rcases hmem with h | h <;> rw [h] <;> decide
    obtain ⟨hs, hset⟩ := hfacts
    have hd2 := hmemOk hmem
    have hstep : step cfg st (docEvent doc d) =
        .ok (if doc.isSome || (if d.lname = lit "cpp_constructor" then cfg.inclCppConstructor else cfg.inclCppMember)
             then processCppMember (decide (d.lname = lit "cpp_constructor")) st d.toCmd (docTextOf doc)
             else st) := by
      rcases hmem with h | h
      · have := step_proc cfg st doc d .cppMember cfg.inclCppMember
          (fun st doc => processCppMember false st d.toCmd doc) hs hset (by rw [h]; decide) rfl (fun _ _ => rfl)
        simpa (decide := true) [h] using this
      · have := step_proc cfg st doc d .cppConstructor cfg.inclCppConstructor
          (fun st doc => processCppMember true st d.toCmd doc) hs hset (by rw [h]; decide) rfl (fun _ _ => rfl)
        simpa (decide := true) [h] using this
    have htestb : (decide (d.lname = lit "ct_add_test") || decide (d.lname = lit "ct_add_section")) = false := by
      simpa using htest
    have hshown : declShown cfg (ctxOf st.classStack) doc d =
        (decide (ctxOf st.classStack = .shown) &&
          (doc.isSome || (if d.lname = lit "cpp_constructor" then cfg.inclCppConstructor else cfg.inclCppMember))) := by
      simp only [declShown, htestb, Bool.false_eq_true, if_false]
    obtain ⟨x, cs, hcs⟩ : ∃ x cs, st.classStack = x :: cs := by
      cases h : st.classStack with
      | nil => exact absurd h (hcls hd2.2)
      | cons x cs => exact ⟨x, cs, rfl⟩
    rw [hstep, hshown]
    by_cases hd : (doc.isSome ||
        (if d.lname = lit "cpp_constructor" then cfg.inclCppConstructor else cfg.inclCppMember)) = true
    · cases x with
      | none =>
        have hctx : ctxOf st.classStack = .hidden := by rw [hcs]; rfl
        left
        simp only [hd, if_true, processCppMember_hidden st d _ _ cs hd2.1 hcs, hctx]
        simp
      | some ci =>
        have hctx : ctxOf st.classStack = .shown := by rw [hcs]; rfl
        have hci : ci < st.documented.length := hinv.cs ci (by rw [hcs]; simp)
        right
        refine ⟨by simp [hctx, hd],
          { st with documented := st.documented.modify ci (addMethod (decide (d.lname = lit "cpp_constructor"))
                      { name := d.singles.headD [], doc := docTextOf doc, parentClass := d.singles.getD 1 [],
                        paramTypes := d.singles.drop 2, params := [],
                        isCtor := decide (d.lname = lit "cpp_constructor"), isMacro := false }),
                    awaiting := some (.method ci (decide (d.lname = lit "cpp_constructor"))
                      (methodCount (decide (d.lname = lit "cpp_constructor")) (st.documented.getD ci default))) },
          .method ci (decide (d.lname = lit "cpp_constructor"))
            (methodCount (decide (d.lname = lit "cpp_constructor")) (st.documented.getD ci default)),
          by rw [if_pos hd, processCppMember_eq st d _ _ ci cs hd2.1 hcs], ?_, rfl, ?_⟩
        · refine ⟨rfl, ?_, ?_, ?_⟩
          · intro i hi; have := hinv.ds i hi; simpa using this
          · intro i hi; have := hinv.cs i hi; simpa using this
          · simpa [AwaitRef.inRange] using hci
        · intro impl
          have hmod : ∀ (md : Method) (m : Bool) (x : List Str),
              (st.documented.modify ci (addMethod (decide (d.lname = lit "cpp_constructor")) md)).modify ci
                (defineMethodIn (decide (d.lname = lit "cpp_constructor"))
                  (methodCount (decide (d.lname = lit "cpp_constructor")) (st.documented.getD ci default)) m x) =
              st.documented.modify ci (addMethod (decide (d.lname = lit "cpp_constructor")) (md.define m x)) := by
            intro md m x
            rw [List.modify_modify_eq]
            apply modify_congr_at
            intro y hy
            have : st.documented.getD ci default = y := by simp [List.getD, hy]
            simp only [Function.comp, this, defineMethodIn_addMethod]
          obtain ⟨dd, cls, aw, ds, er⟩ := st
          have haw := hinv.aw
          simp only at hcs haw hmod
          subst hcs haw
          cases impl with
          | none =>
            by_cases hct : d.lname = lit "cpp_constructor"
            · have hd' : doc.isSome = true ∨ cfg.inclCppConstructor = true := by simpa [hct] using hd
              simp (decide := true) [claimed, claimMod, declContrib, declShown, hd', hct, ctxOf, post, absorb,
                absorbCls, addMethod_eq]
            · have hd' : doc.isSome = true ∨ cfg.inclCppMember = true := by simpa [hct] using hd
              simp (decide := true) [claimed, claimMod, declContrib, declShown, hd', hct, htest, ctxOf, post, absorb,
                absorbCls, addMethod_eq]
          | some i =>
            simp only [claimed, claimMod, hmod]
            by_cases hct : d.lname = lit "cpp_constructor"
            · have hd' : doc.isSome = true ∨ cfg.inclCppConstructor = true := by simpa [hct] using hd
              simp (decide := true) [declContrib, declShown, hd', hct, ctxOf, post, absorb, absorbCls, addMethod_eq,
                Method.define]
            · have hd' : doc.isSome = true ∨ cfg.inclCppMember = true := by simpa [hct] using hd
              simp (decide := true) [declContrib, declShown, hd', hct, htest, ctxOf, post, absorb, absorbCls,
                addMethod_eq, Method.define]
    · left
      have hd' : (doc.isSome ||
          (if d.lname = lit "cpp_constructor" then cfg.inclCppConstructor else cfg.inclCppMember)) = false := by
        simpa using hd
      simp [hd']

/-! ## `Item.decl` = the declaration command followed at once by its undocumented definition -/

theorem seq_decl_events (doc : Option DocC) (d impl : Call) (body : List Item) (c : Call) :
    (Item.decl doc d impl body c).events = docEvent doc d :: (Item.block none impl body c).events := by
  simp [Item.events, docEvent]

theorem seq_block_specS_undoc (cfg : Cfg) (ctx : ClsCtx) (impl : Call) (body : List Item) (c : Call)
    (x : Option Call) (hn : impl.lname = lit "function" ∨ impl.lname = lit "macro") :
    (Item.block none impl body c).specS cfg ctx false x =
      (if (if impl.lname = lit "macro" then cfg.inclMacro else cfg.inclFunction) = true then
          { top := [defEntry cfg (decide (impl.lname = lit "macro")) none impl body] }
        else ({} : Contrib)) ++ itemsSpecS cfg ctx false body := by
  rcases hn with hn | hn <;> simp (decide := true) [Item.specS, hn]

/-- the `.decl` case of the specification in terms of `declShown` / `declContrib` -/
theorem seq_decl_specS (cfg : Cfg) (ctx : ClsCtx) (doc : Option DocC) (d impl : Call) (body : List Item) (c : Call)
    (p : Bool) (x : Option Call) :
    (Item.decl doc d impl body c).specS cfg ctx p x =
      (if declShown cfg ctx doc d = true then declContrib cfg ctx doc d (some impl)
       else if (if impl.lname = lit "macro" then cfg.inclMacro else cfg.inclFunction) = true then
          { top := [defEntry cfg (decide (impl.lname = lit "macro")) none impl body] }
        else ({} : Contrib)) ++ itemsSpecS cfg ctx false body := by
  simp only [Item.specS]
  congr 1
  by_cases htest : (decide (d.lname = lit "ct_add_test") || decide (d.lname = lit "ct_add_section")) = true
  · simp only [htest, if_true, declContrib, declShown]
    split <;> split <;> simp [*]
  · have htest' : (decide (d.lname = lit "ct_add_test") || decide (d.lname = lit "ct_add_section")) = false := by
      simpa using htest
    simp only [htest', Bool.false_eq_true, if_false, declContrib, declShown]
    split <;> split <;> simp [*]

theorem seq_decl_ok (cfg : Cfg) (doc : Option DocC) (d impl : Call) (body : List Item) (c : Call)
    (x : Option Call) (ih : BodyOKS cfg body) (inClass p : Bool) (st : AggState) (hinv : Inv st)
    (hwf : (Item.decl doc d impl body c).wfS inClass p = true)
    (hcls : inClass = true → st.classStack ≠ [])
    (hk : cfg.inclCppClass = true ∨ (Item.decl doc d impl body c).hasDocumentedClass = false) :
    (Item.decl doc d impl body c).events.foldlM (step cfg) st =
      .ok (post st (Item.decl doc d impl body c).cpaDirect
        ((Item.decl doc d impl body c).specS cfg (ctxOf st.classStack) false x)) := by
  simp only [Item.wfS, Bool.and_eq_true, Bool.or_eq_true, decide_eq_true_eq] at hwf
  obtain ⟨⟨⟨⟨⟨⟨_, hn⟩, him⟩, hcl⟩, hil⟩, hif⟩, hwb⟩ := hwf
  have hdn : isDeclName d.lname = true := by
    rw [seq_isDeclName_iff]
    rcases hn with ((h | h) | h) | h
    · exact Or.inl h
    · exact Or.inr (Or.inl h)
    · exact Or.inr (Or.inr (Or.inl h))
    · exact Or.inr (Or.inr (Or.inr h))
  have hmemOk : d.lname = lit "cpp_member" ∨ d.lname = lit "cpp_constructor" →
      2 ≤ d.singles.length ∧ inClass = true := by
    intro h; simpa [h] using hif
  have htestOk : ¬ (d.lname = lit "cpp_member" ∨ d.lname = lit "cpp_constructor") →
      2 ≤ d.singles.length ∧ nameOk d.singles = true := by
    intro h; simpa [h] using hif
  have hkblk : cfg.inclCppClass = true ∨ (Item.block none impl body c).hasDocumentedClass = false := by
    rcases hk with hk | hk
    · exact Or.inl hk
    · right; simpa [Item.hasDocumentedClass] using hk
  have hwblk : ∀ q, (Item.block none impl body c).wfS inClass q = true := by
    intro q
    simp only [Item.wfS, Bool.and_eq_true]
    refine ⟨⟨⟨?_, ?_⟩, ?_⟩, ?_⟩
    · simp [(seq_isDefName_iff _).2 him]
    · rcases him with h | h <;> rcases hcl with h' | h' <;> rw [h, h'] <;> decide
    · simp at hil; simp [hil]
    · rcases him with h | h <;> simpa (decide := true) [h, isLoopName] using hwb
  have hcpa : (Item.decl doc d impl body c).cpaDirect = false := by simp [Item.cpaDirect]
  have hcpab : (Item.block none impl body c).cpaDirect = false := by
    rcases him with h | h <;> simp (decide := true) [Item.cpaDirect, h, isLoopName]
  rw [seq_decl_events, List.foldlM_cons, hcpa, seq_decl_specS cfg _ doc d impl body c false x]
  rcases seq_declcmd cfg doc d inClass st hinv hdn hmemOk htestOk hcls with ⟨hsh, hstep⟩ | ⟨hsh, s1, ref, hstep, hp, hcs1, hcl1⟩
  · rw [hstep, except_ok_bind, seq_block_ok cfg none impl body c none ih inClass false st hinv (hwblk _) hcls hkblk,
      hcpab, seq_block_specS_undoc cfg _ impl body c none him]
    simp [hsh]
  · rw [hstep, except_ok_bind, seq_block_claimed cfg none impl body c none ih inClass s1 ref hp (hwblk _) hkblk,
      hcl1, post_post hinv, hcs1]
    have : (Item.block none impl body c).specS cfg (ctxOf st.classStack) true none =
        itemsSpecS cfg (ctxOf st.classStack) false body := by
      rcases him with h | h <;> simp (decide := true) [Item.specS, h]
    rw [this]
    simp [hsh]

end Cminx
