import CminxLemmas.RoundTripTok2
/-!
# Round trip, part 4: a fuel-free view of `lexAll`, and filler

`Lexes s ts` — `s` is cut into the tokens `ts` by repeated `scan` — implies `lexAll s = .ok ts`.
`LexSig s sig` — `s` lexes and its significant tokens are `sig` — is what the structural induction over the
printer builds, from the end of the file backwards; skipped tokens disappear, so merged `Space`/`Newline`
tokens need no bookkeeping.
-/
namespace Cminx

inductive Lexes : Str → List Tok → Prop
  | nil : Lexes [] []
  | cons {s : Str} {k : TokKind} {n : Nat} {ts : List Tok} :
      scan s = some (k, n) → Lexes (s.drop n) ts → Lexes s (⟨k, s.take n⟩ :: ts)

theorem scan_bounds_rt {s : Str} {k : TokKind} {n : Nat} (h : scan s = some (k, n)) : 1 ≤ n ∧ s ≠ [] :=
  ⟨by have := (scan_sound h).2; omega, scan_ne_nil h⟩

theorem Lexes.lexLoop {s : Str} {ts : List Tok} (h : Lexes s ts) :
    ∀ fuel pos, s.length ≤ fuel → lexLoop fuel pos s = .ok ts := by
  induction h with
  | nil => intro fuel pos _; cases fuel <;> rfl
  | @cons s k n ts hs _ ih =>
    intro fuel pos hf
    obtain ⟨hn, hne⟩ := scan_bounds_rt hs
    cases fuel with
    | zero => cases s <;> simp_all
    | succ f =>
      rw [lexLoop_succ _ _ _ hne, hs]
      simp only
      rw [ih f (pos + n) (by
        have : s.length ≠ 0 := by cases s <;> simp_all
        simp only [List.length_drop]; omega)]

theorem Lexes.lexAll {s : Str} {ts : List Tok} (h : Lexes s ts) : lexAll s = .ok ts :=
  h.lexLoop _ _ (Nat.le_refl _)

theorem Lexes.of_lexLoop {fuel pos : Nat} {s : Str} {ts : List Tok} (h : Cminx.lexLoop fuel pos s = .ok ts) :
    Lexes s ts := by
  induction fuel generalizing pos s ts with
  | zero =>
    rcases lexLoop_ok_cases h with ⟨rfl, rfl⟩ | ⟨f, k, n, ts', hf, _⟩
    · exact .nil
    · omega
  | succ f ih =>
    rcases lexLoop_ok_cases h with ⟨rfl, rfl⟩ | ⟨f', k, n, ts', hf, hs, hsc, hl, rfl⟩
    · exact .nil
    · have : f' = f := by omega
      subst this
      exact .cons hsc (ih hl)

/-- `s` lexes without error and its significant tokens are `sig` -/
def LexSig (s : Str) (sig : List Tok) : Prop := ∃ ts, Lexes s ts ∧ significant ts = sig

theorem LexSig.lexAll {s : Str} {sig : List Tok} (h : LexSig s sig) :
    ∃ ts, Cminx.lexAll s = .ok ts ∧ significant ts = sig := by
  obtain ⟨ts, h1, h2⟩ := h
  exact ⟨ts, h1.lexAll, h2⟩

theorem LexSig.nil : LexSig [] [] := ⟨[], .nil, rfl⟩

/-- a skipped token at the head -/
theorem LexSig.skip {s : Str} {k : TokKind} {n : Nat} {sig : List Tok} (h : scan s = some (k, n))
    (hk : k.skipped = true) (hr : LexSig (s.drop n) sig) : LexSig s sig := by
  obtain ⟨ts, h1, h2⟩ := hr
  exact ⟨_, .cons h h1, by simpa [significant, hk] using h2⟩

/-- a significant token at the head -/
theorem LexSig.tok {s : Str} {k : TokKind} {n : Nat} {sig : List Tok} (h : scan s = some (k, n))
    (hk : k.skipped = false) (hr : LexSig (s.drop n) sig) : LexSig s (⟨k, s.take n⟩ :: sig) := by
  obtain ⟨ts, h1, h2⟩ := hr
  exact ⟨_, .cons h h1, by simpa [significant, hk] using h2⟩

/-- the token `tok` at the head of `tok ++ rest` -/
theorem LexSig.tok_append {tok rest : Str} {k : TokKind} {sig : List Tok}
    (h : scan (tok ++ rest) = some (k, tok.length)) (hk : k.skipped = false) (hr : LexSig rest sig) :
    LexSig (tok ++ rest) (⟨k, tok⟩ :: sig) := by
  have := LexSig.tok h hk (by simpa using hr)
  simpa using this

theorem LexSig.skip_append {tok rest : Str} {k : TokKind} {sig : List Tok}
    (h : scan (tok ++ rest) = some (k, tok.length)) (hk : k.skipped = true) (hr : LexSig rest sig) :
    LexSig (tok ++ rest) sig :=
  LexSig.skip h hk (by simpa using hr)

/-- inversion: a skipped token at the head may be dropped -/
theorem LexSig.drop_skipped {s : Str} {k : TokKind} {n : Nat} {sig : List Tok} (h : scan s = some (k, n))
    (hk : k.skipped = true) (hs : LexSig s sig) : LexSig (s.drop n) sig := by
  obtain ⟨ts, h1, h2⟩ := hs
  cases h1 with
  | nil => rw [scan_nil] at h; cases h
  | @cons _ k' n' ts' hs' hl =>
    rw [h] at hs'; cases hs'
    exact ⟨ts', hl, by simpa [significant, hk] using h2⟩

/-! ## filler -/

/-- `f` in front of `rest` is lexed as skipped tokens only, after which lexing continues as on `rest` -/
def Skips (f rest : Str) : Prop := ∀ sig, LexSig rest sig → LexSig (f ++ rest) sig

theorem Skips.nil (rest : Str) : Skips [] rest := fun _ h => h

theorem Skips.append {f g rest : Str} (hf : Skips f (g ++ rest)) (hg : Skips g rest) : Skips (f ++ g) rest := by
  intro sig h
  rw [List.append_assoc]
  exact hf sig (hg sig h)

/-- what follows a run of `p`-characters, after removing the part of it that the run swallows -/
theorem LexSig.dropWhile_run (p : Char → Bool) (kind : TokKind) (hk : kind.skipped = true)
    (hscan : ∀ c r, p c = true → scan (c :: r) = some (kind, spanLen p (c :: r)))
    {rest : Str} {sig : List Tok} (h : LexSig rest sig) : LexSig (rest.drop (spanLen p rest)) sig := by
  cases rest with
  | nil => simpa using h
  | cons c r =>
    by_cases hc : p c = true
    · exact LexSig.drop_skipped (hscan c r hc) hk h
    · have : spanLen p (c :: r) = 0 := by simp [spanLen_cons, hc]
      rw [this]; simpa using h

/-- a run of `p`-characters is skipped, whatever follows -/
theorem Skips.run (p : Char → Bool) (kind : TokKind) (hk : kind.skipped = true)
    (hscan : ∀ c r, p c = true → scan (c :: r) = some (kind, spanLen p (c :: r)))
    (f rest : Str) (hf : f.all p = true) : Skips f rest := by
  intro sig h
  cases f with
  | nil => exact h
  | cons c f =>
    have hc : p c = true := by simp only [List.all_cons, Bool.and_eq_true] at hf; exact hf.1
    have hsp : spanLen p (c :: f ++ rest) = (c :: f).length + spanLen p rest := spanLen_append_all p _ _ hf
    apply LexSig.skip (hscan c (f ++ rest) hc) hk
    have : (c :: (f ++ rest)).drop (spanLen p (c :: (f ++ rest))) = rest.drop (spanLen p rest) := by
      rw [← List.cons_append, hsp, List.drop_append]
      simp
    rw [this]
    exact LexSig.dropWhile_run p kind hk hscan h

theorem Skips.blanks (f rest : Str) (hf : f.all isBlank = true) : Skips f rest :=
  Skips.run isBlank .space rfl scan_blank f rest hf

theorem Skips.eols (f rest : Str) (hf : f.all isEolCh = true) : Skips f rest :=
  Skips.run isEolCh .newline rfl scan_eol f rest hf

theorem Skips.lineComment (t : Str) (crlf : Bool) (rest : Str) (ht : t.all notEol = true)
    (hob : opensBracket t = false) : Skips ('#' :: (t ++ eolStr crlf)) rest :=
  fun _ h => LexSig.skip_append (scan_lineComment t crlf rest ht hob) rfl h

theorem Skips.lineComment_eof (t : Str) (ht : t.all notEol = true) (hob : opensBracket t = false) :
    Skips ('#' :: t) [] := by
  intro sig h
  have := LexSig.skip_append (tok := '#' :: t) (rest := [])
    (by rw [List.append_nil]; exact scan_lineComment_eof t ht hob) rfl h
  simpa using this

/-- a line ending that follows may be consumed by whatever precedes it -/
theorem LexSig.eol_tail {e : Char} {r : Str} {sig : List Tok} (he : isEolCh e = true) (h : LexSig (e :: r) sig) :
    LexSig r sig := by
  have h1 := LexSig.dropWhile_run isEolCh .newline rfl scan_eol h
  have hsp : spanLen isEolCh (e :: r) = spanLen isEolCh r + 1 := by simp [spanLen_cons, he]
  rw [hsp, List.drop_succ_cons] at h1
  have hr : r = r.take (spanLen isEolCh r) ++ r.drop (spanLen isEolCh r) := (List.take_append_drop _ _).symm
  rw [hr]
  refine Skips.eols _ _ ?_ sig h1
  rw [take_spanLen]; exact List.all_takeWhile

/-- `#text` without a line ending of its own, in front of a line ending: the comment takes that line ending -/
theorem Skips.lineComment_noeol (t rest : Str) (ht : t.all notEol = true) (hob : opensBracket t = false)
    (hr : startsWithEol rest = true) : Skips ('#' :: t) rest := by
  intro sig h
  unfold startsWithEol at hr
  split at hr
  · rename_i r
    have := Skips.lineComment t false r ht hob sig (LexSig.eol_tail (by decide) h)
    simpa [eolStr] using this
  · rename_i r
    have := Skips.lineComment t true r ht hob sig (LexSig.eol_tail (e := '\n') (by decide)
      (LexSig.eol_tail (e := '\r') (by decide) h))
    simpa [eolStr] using this
  · cases hr

theorem Skips.bracketComment (lvl : Nat) (t rest : Str)
    (hf : findAfter (bracketClose lvl) (t ++ bracketClose lvl) = some (t.length + (bracketClose lvl).length))
    (hk3 : (lvl = 0 → t.head? ≠ some '[') ∨ findAfter docEnd (t ++ (bracketClose lvl ++ rest)) = none) :
    Skips ('#' :: (bracketOpen lvl ++ t ++ bracketClose lvl)) rest :=
  fun _ h => LexSig.skip_append (scan_bracketComment lvl t rest hf hk3) rfl h

end Cminx
