import CminxLemmas.RoundTripScan
import CminxModel.Source
/-!
# Round trip, part 2: the token at the head of `tok ++ rest`

For every kind of token the printer emits: `scan (tok ++ rest) = some (kind, tok.length)`, under a condition
on `rest` where the token could otherwise be extended (`stopHead rest` after a bare word).
-/
namespace Cminx

def isBlank (c : Char) : Bool := c == ' ' || c == '\t'
def isEolCh (c : Char) : Bool := c == '\r' || c == '\n'

/-- `rest` cannot continue an unquoted argument: it is empty or starts with one of ``␠ \t \r \n ( ) # "`` -/
def stopHead : Str → Bool
  | [] => true
  | c :: _ => unqStop c

/-- `rest` starts with a line ending (LF or CRLF) -/
def startsWithEol : Str → Bool
  | '\n' :: _ => true
  | '\r' :: '\n' :: _ => true
  | _ => false

theorem spaceLen_eq (s : Str) : spaceLen s = (let n := spanLen isBlank s; if n = 0 then none else some n) := rfl
theorem newlineLen_eq (s : Str) : newlineLen s = (let n := spanLen isEolCh s; if n = 0 then none else some n) := rfl

/-! ## spans and first occurrences are stable under extension -/

theorem spanLen_cons (p : Char → Bool) (c : Char) (s : Str) :
    spanLen p (c :: s) = if p c then spanLen p s + 1 else 0 := by
  by_cases h : p c <;> simp [spanLen, h]

theorem spanLen_nil (p : Char → Bool) : spanLen p [] = 0 := rfl

/-- a run that fills `a` continues into `b` -/
theorem spanLen_append_all (p : Char → Bool) (a b : Str) (h : a.all p = true) :
    spanLen p (a ++ b) = a.length + spanLen p b := by
  induction a with
  | nil => simp
  | cons c a ih =>
    simp only [List.all_cons, Bool.and_eq_true] at h
    simp [spanLen_cons, h.1, ih h.2]; omega

theorem spanLen_of_head (p : Char → Bool) (s : Str) (h : ∀ c, s.head? = some c → p c = false) :
    spanLen p s = 0 := by
  cases s with
  | nil => rfl
  | cons c s => simp [spanLen_cons, h c rfl]

/-- a run does not grow when the text that follows does not continue it -/
theorem spanLen_append_stop (p : Char → Bool) (a b : Str) (h : ∀ c, b.head? = some c → p c = false) :
    spanLen p (a ++ b) = spanLen p a := by
  induction a with
  | nil => simpa [spanLen_nil] using spanLen_of_head p b h
  | cons c a ih => simp [spanLen_cons, ih]

theorem findAfter_append {pat x : Str} {m : Nat} (y : Str) (h : findAfter pat x = some m) :
    findAfter pat (x ++ y) = some m := by
  induction x generalizing m with
  | nil =>
    simp only [findAfter] at h
    split at h
    · rename_i hp
      have : pat = [] := by simpa using hp
      subst this
      cases y <;> simpa [findAfter] using h
    · cases h
  | cons c cs ih =>
    simp only [findAfter, List.cons_append] at h ⊢
    split at h
    · rename_i hp
      obtain ⟨t, ht⟩ := List.isPrefixOf_iff_prefix.mp hp
      have : pat.isPrefixOf (c :: (cs ++ y)) = true :=
        List.isPrefixOf_iff_prefix.mpr ⟨t ++ y, by rw [← List.append_assoc, ht]; rfl⟩
      simp [this, h]
    · rename_i hp
      simp only [Option.map_eq_some_iff] at h
      obtain ⟨m', hm', rfl⟩ := h
      have hnp : pat.isPrefixOf (c :: (cs ++ y)) = false := by
        have hlen : pat.length ≤ (c :: cs).length := by
          obtain ⟨pre, post, hs, -⟩ := findAfter_some hm'
          have := congrArg List.length hs
          simp at this ⊢; omega
        cases hq : pat.isPrefixOf (c :: (cs ++ y)) with
        | false => rfl
        | true =>
          exfalso; apply hp
          obtain ⟨t, ht⟩ := List.isPrefixOf_iff_prefix.mp hq
          have h1 : pat = (c :: (cs ++ y)).take pat.length := by rw [← ht]; simp
          have h2 : (c :: (cs ++ y)).take pat.length = (c :: cs).take pat.length := by
            rw [← List.cons_append, List.take_append_of_le_length hlen]
          exact List.isPrefixOf_iff_prefix.mpr ⟨(c :: cs).drop pat.length, by
            conv => lhs; lhs; rw [h1, h2]
            exact List.take_append_drop _ _⟩
      simp [hnp, ih hm']

/-- the first occurrence of `pat` is not in a prefix that lacks `pat`'s first character -/
theorem findAfter_skip (a : Char) (p pre x : Str) (h : a ∉ pre) :
    findAfter (a :: p) (pre ++ x) = (findAfter (a :: p) x).map (· + pre.length) := by
  induction pre with
  | nil => simp
  | cons c pre ih =>
    have hc : c ≠ a := fun e => h (by simp [e])
    have hp : a ∉ pre := fun e => h (by simp [e])
    have : (a :: p).isPrefixOf (c :: (pre ++ x)) = false := by simp [List.isPrefixOf, Ne.symm hc]
    simp only [List.cons_append, findAfter, this, Bool.false_eq_true, if_false, ih hp, Option.map_map]
    congr 1

/-- an occurrence of `a :: p` contains an occurrence of `p`, which ends no later -/
theorem findAfter_tail_le {a : Char} {p s : Str} {m : Nat} (h : findAfter (a :: p) s = some m) :
    ∃ m', findAfter p s = some m' ∧ m' ≤ m := by
  induction s generalizing m with
  | nil => simp [findAfter] at h
  | cons c cs ih =>
    simp only [findAfter] at h
    split at h
    · rename_i hp
      have hm : m = p.length + 1 := by simpa using h.symm
      have hp' : p.isPrefixOf cs = true := by
        simp only [List.isPrefixOf] at hp; simp at hp; exact List.isPrefixOf_iff_prefix.mpr hp.2
      simp only [findAfter]
      split
      · exact ⟨_, rfl, by omega⟩
      · have : findAfter p cs = some p.length := by
          cases cs with
          | nil =>
            have : p = [] := by cases p <;> simp_all [List.isPrefixOf]
            subst this; simp [findAfter]
          | cons d ds => simp [findAfter, hp']
        exact ⟨p.length + 1, by simp [this], by omega⟩
    · simp only [Option.map_eq_some_iff] at h
      obtain ⟨m1, hm1, rfl⟩ := h
      obtain ⟨m', hm', hle⟩ := ih hm1
      simp only [findAfter]
      split
      · refine ⟨_, rfl, ?_⟩
        obtain ⟨pre, post, hs, hl⟩ := findAfter_some hm'
        omega
      · exact ⟨m' + 1, by simp [hm'], by omega⟩

/-- prepending a character moves the first occurrence by at most one -/
theorem findAfter_cons_le {p s : Str} {m : Nat} (c : Char) (h : findAfter p s = some m) :
    ∃ m', findAfter p (c :: s) = some m' ∧ m' ≤ m + 1 := by
  simp only [findAfter]
  split
  · refine ⟨_, rfl, ?_⟩
    obtain ⟨pre, post, hs, hl⟩ := findAfter_some h
    omega
  · exact ⟨m + 1, by simp [h], Nat.le_refl _⟩

/-! ## single-character heads -/

/-- unfold every rule on an input whose first character is known -/
macro "rule_simp" " [" ts:Lean.Parser.Tactic.simpLemma,* "]" : tactic =>
  `(tactic| simp [ruleScore, plainScore, moduleDocstringLen, docstringLen, doccommentStartLen, blockcommentEndLen,
    identLen, identStart, asciiAlpha, unquotedLen, escapeLen, quotedLen, bracketLen, bracketCommentLen,
    lineCommentLen, newlineLen, spaceLen, spanLen, docStart_eq, docEnd_eq, $ts,*])

theorem scan_lparen (rest : Str) : scan ('(' :: rest) = some (.lparen, 1) := by
  apply scan_of_unique (sc := 2) (by rule_simp []) (by decide)
  intro k' hk'
  cases k' <;> first | exact absurd rfl hk' | rule_simp [unqLen_of_stop rest (by decide : '(' ≠ '\\') rfl]

theorem scan_rparen (rest : Str) : scan (')' :: rest) = some (.rparen, 1) := by
  apply scan_of_unique (sc := 2) (by rule_simp []) (by decide)
  intro k' hk'
  cases k' <;> first | exact absurd rfl hk' | rule_simp [unqLen_of_stop rest (by decide : ')' ≠ '\\') rfl]

/-- a run of blanks is one `Space` token -/
theorem scan_blank (c : Char) (rest : Str) (hc : isBlank c = true) :
    scan (c :: rest) = some (.space, spanLen isBlank (c :: rest)) := by
  have hn : spanLen isBlank (c :: rest) ≠ 0 := by simp [spanLen_cons, hc]
  have hc' : c = ' ' ∨ c = '\t' := by simpa [isBlank] using hc
  apply scan_of_unique (sc := 2 * spanLen isBlank (c :: rest))
  · simp only [ruleScore, spaceLen_eq, plainScore]; simp [hn]
  · exact hn
  · intro k' hk'
    rcases hc' with rfl | rfl <;> cases k' <;>
      first
      | exact absurd rfl hk'
      | (rule_simp [unqLen_of_stop rest (by decide : ' ' ≠ '\\') rfl]; done)
      | (rule_simp [unqLen_of_stop rest (by decide : '\t' ≠ '\\') rfl]; done)

/-- a run of CR/LF is one `Newline` token -/
theorem scan_eol (c : Char) (rest : Str) (hc : isEolCh c = true) :
    scan (c :: rest) = some (.newline, spanLen isEolCh (c :: rest)) := by
  have hn : spanLen isEolCh (c :: rest) ≠ 0 := by simp [spanLen_cons, hc]
  have hc' : c = '\r' ∨ c = '\n' := by simpa [isEolCh] using hc
  apply scan_of_unique (sc := 2 * spanLen isEolCh (c :: rest))
  · simp only [ruleScore, newlineLen_eq, plainScore]; simp [hn]
  · exact hn
  · intro k' hk'
    rcases hc' with rfl | rfl <;> cases k' <;>
      first
      | exact absurd rfl hk'
      | (rule_simp [unqLen_of_stop rest (by decide : '\r' ≠ '\\') rfl]; done)
      | (rule_simp [unqLen_of_stop rest (by decide : '\n' ≠ '\\') rfl]; done)

/-! ## quoted arguments -/

theorem quotedBody_append {x : Str} {m : Nat} (y : Str) (h : quotedBody x = some m) :
    quotedBody (x ++ y) = some m := by
  fun_induction quotedBody x generalizing m with
  | case1 => cases h
  | case2 rest => rw [List.cons_append, quotedBody.eq_def]; simpa using h
  | case3 hq => cases h
  | case4 d rest' hq hd ih =>
    simp only [Option.map_eq_some_iff] at h
    obtain ⟨m', hm', rfl⟩ := h
    rw [List.cons_append, List.cons_append, quotedBody.eq_def]
    simp [hq, ih hm']
  | case5 d rest' hq hd => cases h
  | case6 c rest hq hb ih =>
    simp only [Option.map_eq_some_iff] at h
    obtain ⟨m', hm', rfl⟩ := h
    rw [List.cons_append, quotedBody.eq_def]
    simp [hq, hb, ih hm']

/-- `"body"` is one `Quoted_argument`, whatever follows -/
theorem scan_quoted (body rest : Str) (h : quotedBody (body ++ ['"']) = some (body.length + 1)) :
    scan ('"' :: (body ++ '"' :: rest)) = some (.quoted, body.length + 2) := by
  have hq : quotedBody (body ++ '"' :: rest) = some (body.length + 1) := by
    have := quotedBody_append rest h
    simpa using this
  apply scan_of_unique (sc := 2 * (body.length + 2))
  · simp [ruleScore, plainScore, quotedLen, hq]
  · omega
  · intro k' hk'
    cases k' <;> first | exact absurd rfl hk' | rule_simp [unqLen_of_stop _ (by decide : '"' ≠ '\\') rfl]

/-! ## bare words: identifiers and unquoted arguments -/

theorem unqStop_not_identChar {c : Char} (h : unqStop c = true) : identChar c = false := by
  simp only [unqStop, Bool.or_eq_true, beq_iff_eq] at h
  rcases h with ((((((rfl | rfl) | rfl) | rfl) | rfl) | rfl) | rfl) | rfl <;> decide

theorem unqStop_ne_backslash {c : Char} (h : unqStop c = true) : c ≠ '\\' := by
  intro e; subst e; revert h; decide

theorem unqLen_of_stopHead {rest : Str} (hr : stopHead rest = true) : unqLen rest = 0 := by
  cases rest with
  | nil => rfl
  | cons c cs => exact unqLen_of_stop cs (unqStop_ne_backslash hr) hr

/-- an unquoted run that fills `t` ends there when a stop character (or nothing) follows -/
theorem unqLen_append_stop {t rest : Str} (hu : unqLen t = t.length) (hr : stopHead rest = true) :
    unqLen (t ++ rest) = t.length := by
  fun_induction unqLen t with
  | case1 => simpa using unqLen_of_stopHead hr
  | case2 => simp at hu
  | case3 d rest' hd ih =>
    have : unqLen rest' = rest'.length := by simp at hu; omega
    rw [List.cons_append, List.cons_append, unqLen.eq_def]
    simp [hd, ih this]
  | case4 d rest' hd => simp at hu
  | case5 c r hc hs => simp at hu
  | case6 c r hc hs ih =>
    have : unqLen r = r.length := by simp at hu; omega
    rw [List.cons_append, unqLen.eq_def]
    simp [hc, hs, ih this]

/-- the first character of a non-empty unquoted run -/
theorem unqLen_head {c : Char} {t : Str} (h : unqLen (c :: t) ≠ 0) : c = '\\' ∨ unqStop c = false := by
  by_cases hc : c = '\\'
  · exact Or.inl hc
  · right
    cases hs : unqStop c with
    | false => rfl
    | true => exact absurd (unqLen_of_stop t hc hs) h

theorem word_head_ne {c : Char} (h : c = '\\' ∨ unqStop c = false) :
    c ≠ '(' ∧ c ≠ ')' ∧ c ≠ '#' ∧ c ≠ '"' ∧ c ≠ ' ' ∧ c ≠ '\t' ∧ c ≠ '\r' ∧ c ≠ '\n' := by
  rcases h with rfl | h
  · decide
  · simp only [unqStop, Bool.or_eq_false_iff, beq_eq_false_iff_ne] at h
    obtain ⟨⟨⟨⟨⟨⟨⟨h1, h2⟩, h3⟩, h4⟩, h5⟩, h6⟩, h7⟩, h8⟩ := h
    exact ⟨h5, h6, h7, h8, h1, h2, h3, h4⟩

theorem identLen_append_stop {t rest : Str} (ht : t ≠ []) (hr : stopHead rest = true) :
    identLen (t ++ rest) = identLen t := by
  cases t with
  | nil => exact absurd rfl ht
  | cons c t =>
    have : spanLen identChar (t ++ rest) = spanLen identChar t := by
      apply spanLen_append_stop
      intro d hd
      cases rest with
      | nil => cases hd
      | cons e r =>
        have : e = d := by simpa using hd
        subst this
        exact unqStop_not_identChar hr
    simp [identLen, this]

theorem identLen_le {t : Str} {m : Nat} (h : identLen t = some m) : m ≤ t.length := by
  cases t with
  | nil => cases h
  | cons c t =>
    simp only [identLen] at h
    split at h
    · have := spanLen_le identChar t
      have := Option.some.inj h
      simp; omega
    · cases h

theorem escapeLen_le_unqLen {s : Str} {m : Nat} (h : escapeLen s = some m) : m ≤ unqLen s := by
  obtain ⟨d, post, rfl, rfl, hd⟩ := escapeLen_split h
  rw [List.cons_append, List.cons_append, unqLen.eq_def]
  simp [hd]

theorem head?_dropWhile_eq_append (b x : Str) (hx : ∀ c, x.head? = some c → c ≠ '=' ∧ c ≠ '[') :
    (((b ++ x).dropWhile (· == '=')).head? == some '[') = ((b.dropWhile (· == '=')).head? == some '[') := by
  induction b with
  | nil =>
    cases x with
    | nil => rfl
    | cons e x =>
      obtain ⟨h1, h2⟩ := hx e rfl
      simp [h1, h2]
  | cons d b ih =>
    by_cases hd : d = '='
    · subst hd; simpa [List.dropWhile_cons] using ih
    · simp [hd]

/-- whether a text opens a bracket is not changed by appending something that starts with neither `=` nor `[` -/
theorem opensBracket_append_of (t x : Str) (hx : ∀ c, x.head? = some c → c ≠ '=' ∧ c ≠ '[') :
    opensBracket (t ++ x) = opensBracket t := by
  cases t with
  | nil =>
    cases x with
    | nil => rfl
    | cons e x =>
      obtain ⟨-, h2⟩ := hx e rfl
      simp only [List.nil_append]
      unfold opensBracket
      split
      · rename_i heq; cases heq; exact absurd rfl h2
      · rfl
  | cons c b =>
    by_cases hc : c = '['
    · subst hc
      simp only [List.cons_append, opensBracket, drop_spanLen]
      exact head?_dropWhile_eq_append b x hx
    · unfold opensBracket
      split
      · rename_i heq; cases heq; exact absurd rfl hc
      · split
        · rename_i heq; cases heq; exact absurd rfl hc
        · rfl

theorem stopHead_head {rest : Str} (hr : stopHead rest = true) :
    ∀ c, rest.head? = some c → c ≠ '=' ∧ c ≠ '[' := by
  intro c hc
  cases rest with
  | nil => cases hc
  | cons e r =>
    have : e = c := by simpa using hc
    subst this
    constructor <;> (intro e'; subst e'; simp [stopHead, unqStop] at hr)

theorem bracketLen_none_of_not_opens {s : Str} (h : opensBracket s = false) : bracketLen s = none := by
  unfold bracketLen
  split
  · rename_i rest
    simp only [opensBracket] at h
    dsimp only
    split
    · rename_i body hb
      rw [hb] at h; simp at h
    · rfl
  · rfl

/-! rules that need a `#` -/

theorem docStart_prefix_cons {c : Char} (s : Str) (hc : c ≠ '#') : docStart.isPrefixOf (c :: s) = false := by
  simp [docStart_eq, List.isPrefixOf, Ne.symm hc]

theorem docEnd_prefix_cons {c : Char} (s : Str) (hc : c ≠ '#') : docEnd.isPrefixOf (c :: s) = false := by
  simp [docEnd_eq, List.isPrefixOf, Ne.symm hc]

theorem bracketCommentLen_cons {c : Char} (s : Str) (hc : c ≠ '#') : bracketCommentLen (c :: s) = none := by
  unfold bracketCommentLen
  split
  · rename_i heq; cases heq; exact absurd rfl hc
  · rfl

theorem lineCommentLen_cons {c : Char} (s : Str) (hc : c ≠ '#') : lineCommentLen (c :: s) = none := by
  unfold lineCommentLen
  split
  · rename_i heq; cases heq; exact absurd rfl hc
  · rfl

theorem quotedLen_cons {c : Char} (s : Str) (hc : c ≠ '"') : quotedLen (c :: s) = none := by
  unfold quotedLen
  split
  · rename_i heq; cases heq; exact absurd rfl hc
  · rfl

theorem spanLen_cons_false {p : Char → Bool} {c : Char} (s : Str) (hc : p c = false) : spanLen p (c :: s) = 0 := by
  simp [spanLen_cons, hc]

/-- everything the rules other than `Identifier`/`Unquoted_argument` can do at a bare word -/
theorem word_rules {t rest : Str} (ht : t ≠ []) (hu : unqLen t = t.length) (hob : opensBracket t = false)
    (hr : stopHead rest = true) :
    ruleScore .unquoted (t ++ rest) = some (2 * t.length, t.length) ∧
    ruleScore .identifier (t ++ rest) = plainScore (identLen t) ∧
    ∀ k' sc' n', k' ≠ .identifier → k' ≠ .unquoted → ruleScore k' (t ++ rest) = some (sc', n') →
      7 < k'.idx ∧ sc' ≤ 2 * t.length := by
  have hu' := unqLen_append_stop hu hr
  have hlen : t.length ≠ 0 := by cases t <;> simp_all
  refine ⟨?_, ?_, ?_⟩
  · simp [ruleScore, plainScore, unquotedLen, hu', hlen]
  · simp [ruleScore, identLen_append_stop ht hr]
  · intro k' sc' n' h1 h2 hs
    have hob' : bracketLen (t ++ rest) = none :=
      bracketLen_none_of_not_opens (by rw [opensBracket_append_of t rest (stopHead_head hr)]; exact hob)
    cases t with
    | nil => exact absurd rfl ht
    | cons c t =>
      obtain ⟨n1, n2, n3, n4, n5, n6, n7, n8⟩ := word_head_ne (unqLen_head (by rw [hu]; simp))
      simp only [List.cons_append] at hob'
      have hb1 : isBlank c = false := by simp [isBlank, n5, n6]
      have hb2 : isEolCh c = false := by simp [isEolCh, n7, n8]
      cases k'
      case identifier => exact absurd rfl h1
      case unquoted => exact absurd rfl h2
      case lparen => simp [ruleScore, plainScore, n1] at hs
      case rparen => simp [ruleScore, plainScore, n2] at hs
      case moduleDocstring => simp [ruleScore, plainScore, moduleDocstringLen, docStart_prefix_cons _ n3] at hs
      case docstring => simp [ruleScore, plainScore, docstringLen, docStart_prefix_cons _ n3] at hs
      case doccommentStart => simp [ruleScore, plainScore, doccommentStartLen, docStart_prefix_cons _ n3] at hs
      case blockcommentEnd => simp [ruleScore, plainScore, blockcommentEndLen, docEnd_prefix_cons _ n3] at hs
      case escapeSequence =>
        simp only [ruleScore, plainScore, Option.map_eq_some_iff, Prod.mk.injEq] at hs
        obtain ⟨m, hm, rfl, rfl⟩ := hs
        have := escapeLen_le_unqLen hm
        rw [hu'] at this
        exact ⟨by decide, by omega⟩
      case quoted => simp [ruleScore, plainScore, quotedLen_cons _ n4] at hs
      case bracketArg => simp [ruleScore, plainScore, hob'] at hs
      case bracketComment => simp [ruleScore, plainScore, bracketCommentLen_cons _ n3] at hs
      case lineComment => simp [ruleScore, lineCommentLen_cons _ n3] at hs
      case newline => simp [ruleScore, plainScore, newlineLen_eq, spanLen_cons_false _ hb2] at hs
      case space => simp [ruleScore, plainScore, spaceLen_eq, spanLen_cons_false _ hb1] at hs

/-- a bare word that has the shape of an identifier -/
theorem scan_word_ident {t rest : Str} (hid : identLen t = some t.length) (hu : unqLen t = t.length)
    (hr : stopHead rest = true) : scan (t ++ rest) = some (.identifier, t.length) := by
  have ht : t ≠ [] := by intro e; subst e; cases hid
  have hob : opensBracket t = false := by
    cases t with
    | nil => rfl
    | cons c t =>
      simp only [identLen] at hid
      split at hid
      · rename_i hc
        unfold opensBracket
        split
        · rename_i heq; cases heq; simp [identStart, asciiAlpha] at hc
        · rfl
      · cases hid
  obtain ⟨h1, h2, h3⟩ := word_rules ht hu hob hr
  have hlen : t.length ≠ 0 := by cases t <;> simp_all
  apply scan_of_best (sc := 2 * t.length) (by rw [h2, hid]; rfl) hlen
  · intro k' sc' n' hi hs
    have := h3 k' sc' n' (by intro e; subst e; simp [TokKind.idx] at hi)
      (by intro e; subst e; simp [TokKind.idx] at hi) hs
    have : TokKind.identifier.idx = 6 := rfl
    omega
  · intro k' sc' n' hi hs
    by_cases hk : k' = .unquoted
    · subst hk; rw [h1] at hs; cases hs; exact Nat.le_refl _
    · exact (h3 k' sc' n' (by intro e; subst e; simp [TokKind.idx] at hi) hk hs).2

/-- a bare word that is not an identifier -/
theorem scan_word_unq {t rest : Str} (ht : t ≠ []) (hnid : identLen t ≠ some t.length)
    (hu : unqLen t = t.length) (hob : opensBracket t = false) (hr : stopHead rest = true) :
    scan (t ++ rest) = some (.unquoted, t.length) := by
  obtain ⟨h1, h2, h3⟩ := word_rules ht hu hob hr
  have hlen : t.length ≠ 0 := by cases t <;> simp_all
  apply scan_of_best (sc := 2 * t.length) h1 hlen
  · intro k' sc' n' hi hs
    by_cases hk : k' = .identifier
    · subst hk
      rw [h2] at hs
      simp only [plainScore, Option.map_eq_some_iff, Prod.mk.injEq] at hs
      obtain ⟨m, hm, rfl, rfl⟩ := hs
      have := identLen_le hm
      have : m ≠ t.length := fun e => hnid (e ▸ hm)
      omega
    · have := h3 k' sc' n' hk (by intro e; subst e; simp [TokKind.idx] at hi) hs
      have : TokKind.unquoted.idx = 7 := rfl
      omega
  · intro k' sc' n' hi hs
    exact (h3 k' sc' n' (by intro e; subst e; simp [TokKind.idx] at hi)
      (by intro e; subst e; simp [TokKind.idx] at hi) hs).2

/-- a text that is an identifier is also one unquoted run -/
theorem unqLen_of_identLen {t : Str} (hid : identLen t = some t.length) : unqLen t = t.length := by
  have hall : ∀ (r : Str), r.all identChar = true → unqLen r = r.length := by
    intro r hr
    induction r with
    | nil => rfl
    | cons c r ih =>
      simp only [List.all_cons, Bool.and_eq_true] at hr
      have hs : unqStop c = false := by
        cases h : unqStop c with
        | false => rfl
        | true => rw [unqStop_not_identChar h] at hr; exact absurd hr.1 (by decide)
      have hb : c ≠ '\\' := by intro e; subst e; exact absurd hr.1 (by decide)
      rw [unqLen.eq_def]; simp [hb, hs, ih hr.2]
  cases t with
  | nil => cases hid
  | cons c t =>
    simp only [identLen] at hid
    split at hid
    · rename_i hc
      have hsp : spanLen identChar t = t.length := by
        have := Option.some.inj hid; simp at this; omega
      have hc' : identChar c = true := by
        simp only [identStart, Bool.or_eq_true] at hc
        rcases hc with hc | hc <;> simp [identChar, asciiAlnum, hc]
      apply hall
      have : t.takeWhile identChar = t := by
        have h1 := (span_split identChar t).1
        have h2 := (span_split identChar t).2
        rw [hsp] at h1 h2
        rw [List.drop_length, List.append_nil] at h1
        exact h1.symm
      rw [List.all_cons, hc', Bool.true_and, ← this]
      exact List.all_takeWhile
    · cases hid

/-! ## bracket arguments -/

theorem bracketClose_eq (n : Nat) : bracketClose n = bracketCloseL n := rfl

theorem bracketText_eq (lvl : Nat) (b rest : Str) :
    bracketOpen lvl ++ b ++ bracketClose lvl ++ rest =
      '[' :: (List.replicate lvl '=' ++ '[' :: (b ++ bracketClose lvl ++ rest)) := by
  simp [bracketOpen]

theorem bracketText_length (lvl : Nat) (b : Str) :
    (bracketOpen lvl ++ b ++ bracketClose lvl).length = b.length + 2 * lvl + 4 := by
  simp [bracketOpen, bracketClose]; omega

/-- the bracket rule on a bracket whose terminator first occurs at its end -/
theorem bracketLen_text (lvl : Nat) (b rest : Str)
    (hf : findAfter (bracketClose lvl) (b ++ bracketClose lvl) = some (b.length + (bracketClose lvl).length)) :
    bracketLen (bracketOpen lvl ++ b ++ bracketClose lvl ++ rest) =
      some (bracketOpen lvl ++ b ++ bracketClose lvl).length := by
  rw [bracketText_eq, bracketLen_open, ← bracketClose_eq, findAfter_append rest hf, bracketText_length]
  simp [bracketClose]; omega

/-- an unquoted run that stops inside `t ++ [c]` is not changed by what follows (`c` not a backslash) -/
theorem unqLen_append_dirty (t : Str) (c : Char) (rest : Str) (hc : c ≠ '\\')
    (hu : unqLen (t ++ [c]) ≠ (t ++ [c]).length) : unqLen (t ++ c :: rest) = unqLen (t ++ [c]) := by
  fun_induction unqLen t with
  | case1 =>
    simp only [List.nil_append] at hu ⊢
    by_cases hs : unqStop c
    · rw [unqLen_of_stop _ hc hs, unqLen_of_stop _ hc hs]
    · exfalso; apply hu; rw [unqLen.eq_def]; simp [hc, hs, unqLen]
  | case2 =>
    simp only [List.cons_append, List.nil_append] at hu ⊢
    by_cases he : escOk c
    · exfalso; apply hu; rw [unqLen.eq_def]; simp [he, unqLen]
    · rw [unqLen.eq_def]; simp only [he]
      conv => rhs; rw [unqLen.eq_def]
      simp [he]
  | case3 d rest' hd ih =>
    simp only [List.cons_append] at hu ⊢
    have : unqLen (rest' ++ [c]) ≠ (rest' ++ [c]).length := by
      intro e; apply hu; rw [unqLen.eq_def]; simp [hd, e]
    rw [unqLen.eq_def]; simp only [hd]
    conv => rhs; rw [unqLen.eq_def]
    simp [hd, ih this]
  | case4 d rest' hd =>
    simp only [List.cons_append]
    rw [unqLen.eq_def]; simp only [hd]
    conv => rhs; rw [unqLen.eq_def]
    simp [hd]
  | case5 x r hx hs =>
    simp only [List.cons_append]
    rw [unqLen_of_stop _ hx hs, unqLen_of_stop _ hx hs]
  | case6 x r hx hs ih =>
    simp only [List.cons_append] at hu ⊢
    have : unqLen (r ++ [c]) ≠ (r ++ [c]).length := by
      intro e; apply hu; rw [unqLen.eq_def]; simp [hx, hs, e]
    rw [unqLen.eq_def]; simp only [hx, hs]
    conv => rhs; rw [unqLen.eq_def]
    simp [hx, hs, ih this]

/-- all rules but `Unquoted_argument` and `Bracket_argument` fail at a `[` -/
theorem lbracket_rules (r : Str) (k' : TokKind) (h1 : k' ≠ .unquoted) (h2 : k' ≠ .bracketArg) :
    ruleScore k' ('[' :: r) = none := by
  cases k' <;> first | exact absurd rfl h1 | exact absurd rfl h2 | rule_simp []

theorem scan_bracket_dirty (lvl : Nat) (b rest : Str)
    (hf : findAfter (bracketClose lvl) (b ++ bracketClose lvl) = some (b.length + (bracketClose lvl).length))
    (hu : unqLen (bracketOpen lvl ++ b ++ bracketClose lvl) ≠ (bracketOpen lvl ++ b ++ bracketClose lvl).length) :
    scan (bracketOpen lvl ++ b ++ bracketClose lvl ++ rest) =
      some (.bracketArg, (bracketOpen lvl ++ b ++ bracketClose lvl).length) := by
  have hb := bracketLen_text lvl b rest hf
  have hX : bracketOpen lvl ++ b ++ bracketClose lvl = (bracketOpen lvl ++ b ++ ']' :: List.replicate lvl '=') ++ [']'] := by
    simp [bracketClose]
  have hu' : unqLen (bracketOpen lvl ++ b ++ bracketClose lvl ++ rest) <
      (bracketOpen lvl ++ b ++ bracketClose lvl).length := by
    have h1 : bracketOpen lvl ++ b ++ bracketClose lvl ++ rest =
        (bracketOpen lvl ++ b ++ ']' :: List.replicate lvl '=') ++ ']' :: rest := by simp [bracketClose]
    rw [h1, unqLen_append_dirty _ ']' rest (by decide) (by rw [← hX]; exact hu), ← hX]
    have := unqLen_le (bracketOpen lvl ++ b ++ bracketClose lvl)
    omega
  generalize hL : (bracketOpen lvl ++ b ++ bracketClose lvl).length = L at *
  have hL0 : L ≠ 0 := by rw [← hL, bracketText_length]; omega
  have hs : ∃ r, bracketOpen lvl ++ b ++ bracketClose lvl ++ rest = '[' :: r := ⟨_, bracketText_eq lvl b rest⟩
  obtain ⟨r, hr⟩ := hs
  rw [hr] at hb hu' ⊢
  apply scan_of_best (sc := 2 * L) (by simp [ruleScore, plainScore, hb]) hL0
  · intro k' sc' n' hi hs
    by_cases hk : k' = .unquoted
    · subst hk
      simp only [ruleScore, plainScore, unquotedLen, Option.map_eq_some_iff] at hs
      obtain ⟨m, hm, he⟩ := hs
      split at hm
      · cases hm
      · cases hm; cases he; omega
    · rw [lbracket_rules r k' hk (by intro e; subst e; simp at hi)] at hs; cases hs
  · intro k' sc' n' hi hs
    rw [lbracket_rules r k' (by intro e; subst e; simp [TokKind.idx] at hi) (by intro e; subst e; simp at hi)] at hs
    cases hs

theorem scan_bracket_clean (lvl : Nat) (b rest : Str)
    (hf : findAfter (bracketClose lvl) (b ++ bracketClose lvl) = some (b.length + (bracketClose lvl).length))
    (hu : unqLen (bracketOpen lvl ++ b ++ bracketClose lvl) = (bracketOpen lvl ++ b ++ bracketClose lvl).length)
    (hr : stopHead rest = true) :
    scan (bracketOpen lvl ++ b ++ bracketClose lvl ++ rest) =
      some (.unquoted, (bracketOpen lvl ++ b ++ bracketClose lvl).length) := by
  have hb := bracketLen_text lvl b rest hf
  have hu' := unqLen_append_stop hu hr
  generalize hL : (bracketOpen lvl ++ b ++ bracketClose lvl).length = L at *
  have hL0 : L ≠ 0 := by rw [← hL, bracketText_length]; omega
  obtain ⟨r, hr⟩ : ∃ r, bracketOpen lvl ++ b ++ bracketClose lvl ++ rest = '[' :: r := ⟨_, bracketText_eq lvl b rest⟩
  rw [hr] at hb hu' ⊢
  apply scan_of_best (sc := 2 * L) (by simp [ruleScore, plainScore, unquotedLen, hu', hL0]) hL0
  · intro k' sc' n' hi hs
    rw [lbracket_rules r k' (by intro e; subst e; simp at hi) (by intro e; subst e; simp [TokKind.idx] at hi)] at hs
    cases hs
  · intro k' sc' n' hi hs
    by_cases hk : k' = .bracketArg
    · subst hk
      simp only [ruleScore, plainScore, hb, Option.map_some, Option.some.injEq, Prod.mk.injEq] at hs
      omega
    · rw [lbracket_rules r k' (by intro e; subst e; simp at hi) hk] at hs; cases hs

end Cminx
