import Lean.Data.Json
import CminxModel
/-!
JSON marshalling shared by the line-protocol executables (`driver`, `validcheck`): decoding of configurations, decorated
syntax trees, directory trees; encoding of entries, tokens, events.  No computation of its own.
-/
open Lean Cminx

def S (s : Str) : Json := Json.str (String.ofList s)
def SL (l : List Str) : Json := Json.arr (l.map S).toArray
def optS : Option Str → Json
  | some s => S s
  | none => Json.null

def getStr (j : Json) (k : String) : Except String Str := do
  let v ← j.getObjVal? k
  let s ← v.getStr?
  pure s.toList

def getStrD (j : Json) (k : String) (d : Str) : Str :=
  match getStr j k with | .ok s => s | .error _ => d

def getBoolD (j : Json) (k : String) (d : Bool) : Bool :=
  match j.getObjVal? k with
  | .ok v => (match v.getBool? with | .ok b => b | .error _ => d)
  | .error _ => d

def getStrList (j : Json) (k : String) : Except String (List Str) := do
  let v ← j.getObjVal? k
  let a ← v.getArr?
  a.toList.mapM (fun x => do let s ← x.getStr?; pure s.toList)

/-- a strip table `{text: stripped}`: Python computed `re.sub` for every argument text of the input -/
def stripTable (j : Json) (k : String) : Str → Str :=
  match j.getObjVal? k with
  | .ok (Json.obj kvs) =>
    let tbl : List (Str × Str) := kvs.toList.filterMap (fun (a, b) =>
      match b.getStr? with | .ok s => some (a.toList, s.toList) | .error _ => none)
    fun s => match tbl.lookup s with | some r => r | none => s
  | _ => id

def parseCfg (j : Json) : Cfg :=
  let incl := match j.getObjVal? "incl" with | .ok v => v | .error _ => Json.mkObj []
  let strip := match j.getObjVal? "strip" with | .ok v => v | .error _ => Json.mkObj []
  { inclFunction := getBoolD incl "function" true
    inclMacro := getBoolD incl "macro" true
    inclCppClass := getBoolD incl "cpp_class" true
    inclCppAttr := getBoolD incl "cpp_attr" true
    inclCppConstructor := getBoolD incl "cpp_constructor" true
    inclCppMember := getBoolD incl "cpp_member" true
    inclCtAddTest := getBoolD incl "ct_add_test" true
    inclAddTest := getBoolD incl "add_test" true
    inclCtAddSection := getBoolD incl "ct_add_section" true
    inclOption := getBoolD incl "option" true
    trigger := getStrD j "trigger" (lit ":param **kwargs:")
    stripFn := stripTable strip "fn"
    stripMacro := stripTable strip "macro"
    stripMember := stripTable strip "member" }

def methodJson (m : Method) : Json :=
  Json.mkObj [("name", S m.name), ("doc", S m.doc), ("pc", S m.parentClass), ("types", SL m.paramTypes),
    ("params", SL m.params), ("macro", m.isMacro), ("ctor", m.isCtor)]

def attrJson (a : Attr) : Json :=
  Json.mkObj [("name", S a.name), ("doc", S a.doc), ("pc", S a.parentClass), ("dv", optS a.dflt)]

def entryJson : Entry → Json
  | .module n d => Json.mkObj [("t", "module"), ("name", S n), ("doc", S d)]
  | .func m n d ps kw => Json.mkObj [("t", if m then "macro" else "func"), ("name", S n), ("doc", S d),
      ("params", SL ps), ("kw", kw)]
  | .var n d ty v => Json.mkObj [("t", "var"), ("name", S n), ("doc", S d),
      ("vt", match ty with | .string => "STRING" | .list => "LIST" | .unset => "UNSET"), ("val", optS v)]
  | .opt n d h v => Json.mkObj [("t", "opt"), ("name", S n), ("doc", S d), ("help", S h), ("val", optS v)]
  | .generic n d as => Json.mkObj [("t", "gen"), ("name", S n), ("doc", S d), ("params", SL as)]
  | .ctest n d ps => Json.mkObj [("t", "ctest"), ("name", S n), ("doc", S d), ("params", SL ps)]
  | .test sec n d ef ps m => Json.mkObj [("t", if sec then "section" else "cttest"), ("name", S n), ("doc", S d),
      ("ef", ef), ("params", SL ps), ("macro", m)]
  | .cls n d sup inner c m a => Json.mkObj [("t", "class"), ("name", S n), ("doc", S d), ("supers", SL sup),
      ("inner", SL inner), ("ctors", Json.arr (c.map methodJson).toArray),
      ("members", Json.arr (m.map methodJson).toArray), ("attrs", Json.arr (a.map attrJson).toArray)]

def kindName : TokKind → String
  | .lparen => "LP" | .rparen => "RP" | .moduleDocstring => "Module_docstring" | .docstring => "Docstring"
  | .doccommentStart => "Doccomment_start" | .blockcommentEnd => "Blockcomment_end" | .identifier => "Identifier"
  | .unquoted => "Unquoted_argument" | .escapeSequence => "Escape_sequence" | .quoted => "Quoted_argument"
  | .bracketArg => "Bracket_argument" | .bracketComment => "Bracket_comment" | .lineComment => "Line_comment"
  | .newline => "Newline" | .space => "Space"

def errJson : Err → Json
  | .lex p => Json.mkObj [("err", "lex"), ("pos", p)]
  | .parse => Json.mkObj [("err", "parse")]
  | .agg e => Json.mkObj [("err", "agg"), ("kind", match e with
      | .syntaxException => "CMakeSyntaxException" | .indexError => "IndexError"
      | .typeError => "TypeError" | .keyError => "KeyError")]
  | .noHeaders => Json.mkObj [("err", "noheaders")]

partial def argJson : Arg → Json
  | .single t => S t
  | .compound as => Json.arr (as.map argJson).toArray

def eventJson : Event → Json
  | .moduleDoc t => Json.mkObj [("e", "module"), ("text", S t)]
  | .docCmd d c => Json.mkObj [("e", "doccmd"), ("doc", S d), ("name", S c.name), ("args", Json.arr (c.args.map argJson).toArray)]
  | .cmd c => Json.mkObj [("e", "cmd"), ("name", S c.name), ("args", Json.arr (c.args.map argJson).toArray)]
  | .dangling => Json.mkObj [("e", "dangling")]

/-- RSTWriter histories: ops as JSON objects -/
def getPath (j : Json) : Except String (List Nat) := do
  let v ← j.getObjVal? "h"
  let a ← v.getArr?
  a.toList.mapM (fun x => x.getNat?)

def parseOp (j : Json) : Except String (Option Op) := do
  let k ← getStr j "op"
  let ks := String.ofList k
  if ks == "ser" then return none
  let h ← getPath j
  match ks with
  | "text" => return some (.text h (← getStr j "t"))
  | "field" => return some (.field h (← getStr j "n") (← getStr j "t"))
  | "bl" => return some (.list h false (← getStrList j "items"))
  | "el" => return some (.list h true (← getStrList j "items"))
  | "dir" => return some (.directive h (← getStr j "name") (← getStrList j "args"))
  | "opt" => return some (.option h (← getStr j "n") (← getStr j "v"))
  | "title" => return some (.setTitle h (← getStr j "t"))
  | "clear" => return some (.clear h)
  | _ => throw s!"unknown rst op {ks}"


/-- an operation of the full writer API (`RstFull.lean`); `none` = serialise -/
def parseFOp (j : Json) : Except String (Option FOp) := do
  let k ← getStr j "op"
  let ks := String.ofList k
  if ks == "ser" then return none
  let h ← getPath j
  match ks with
  | "text" => return some (.text h (← getStr j "t"))
  | "field" => return some (.field h (← getStr j "n") (← getStr j "t"))
  | "bl" => return some (.list h false (← getStrList j "items"))
  | "el" => return some (.list h true (← getStrList j "items"))
  | "doctest" => return some (.doctest h (← getStr j "line") (← getStr j "expected"))
  | "table" =>
    let rowsJ ← (← j.getObjVal? "rows").getArr?
    let rows ← rowsJ.toList.mapM (fun r => do
      let a ← r.getArr?
      a.toList.mapM (fun x => do let s ← x.getStr?; pure s.toList))
    return some (.table h rows (← getStrList j "heads"))
  | "dir" => return some (.directive h (← getStr j "name") (← getStrList j "args"))
  | "sect" => return some (.sect h (← getStr j "t"))
  | "opt" => return some (.option h (← getStr j "n") (← getStr j "v"))
  | "title" => return some (.setTitle h (← getStr j "t"))
  | "clear" => return some (.clear h)
  | _ => throw s!"unknown rst op {ks}"


/-! decoding of the decorated syntax tree (see `harness/gen_modules.py` for the encoder) -/
def natOf (j : Json) : Except String Nat := j.getNat?
def strOf (j : Json) : Except String Str := do let s ← j.getStr?; pure s.toList

def sepAtomOf (j : Json) : Except String SepAtom := do
  let a ← j.getArr?
  let tag ← (a[0]?.getD Json.null).getStr?
  match tag with
  | "s" => pure (.spaces (← natOf (a[1]?.getD Json.null)))
  | "t" => pure (.tabs (← natOf (a[1]?.getD Json.null)))
  | "n" => pure (.nl false)
  | "rn" => pure (.nl true)
  | "lc" =>
    let t ← strOf (a[1]?.getD Json.null)
    let e ← (a[2]?.getD Json.null).getStr?
    pure (.lineComment t (if e == "n" then some false else if e == "rn" then some true else none))
  | "bc" => pure (.bracketComment (← natOf (a[1]?.getD Json.null)) (← strOf (a[2]?.getD Json.null)))
  | t => throw s!"bad sep atom {t}"

def sepOf (j : Json) : Except String Sep := do (← j.getArr?).toList.mapM sepAtomOf

def argTokOf (a : Array Json) : Except String ArgTok := do
  let tag ← (a[0]?.getD Json.null).getStr?
  match tag with
  | "b" => pure (.bare (← strOf (a[1]?.getD Json.null)))
  | "q" => pure (.quoted (← strOf (a[1]?.getD Json.null)))
  | "k" => pure (.bracket (← natOf (a[1]?.getD Json.null)) (← strOf (a[2]?.getD Json.null)))
  | t => throw s!"bad arg tok {t}"

/-- `[sep, ["b"|"q"|"k", …]]` or `[sep, ["g", [args…], closeSep]]` -/
partial def sargOf (j : Json) : Except String SArg := do
  let a ← j.getArr?
  let pre ← sepOf (a[0]?.getD Json.null)
  let body ← (a[1]?.getD Json.null).getArr?
  let tag ← (body[0]?.getD Json.null).getStr?
  if tag == "g" then
    let args ← (← (body[1]?.getD Json.null).getArr?).toList.mapM sargOf
    pure (.group pre args (← sepOf (body[2]?.getD Json.null)))
  else pure (.tok pre (← argTokOf body))

def callOf (j : Json) : Except String Call := do
  pure { pre := ← sepOf (← j.getObjVal? "pre"), name := ← getStr j "name", sp := ← natOf (← j.getObjVal? "sp"),
         args := ← (← (← j.getObjVal? "args").getArr?).toList.mapM sargOf, close := ← sepOf (← j.getObjVal? "close") }

def docOf (j : Json) : Except String (Option DocC) :=
  if j.isNull then pure none else do
    pure (some { pre := ← sepOf (← j.getObjVal? "pre"), ind := ← getStr j "ind", openSuffix := ← getStr j "open",
                 lines := ← getStrList j "lines", leader := getBoolD j "leader" true, crlf := getBoolD j "crlf" false })

partial def itemOf (j : Json) : Except String Item := do
  let k ← (← j.getObjVal? "k").getStr?
  let doc ← docOf ((j.getObjVal? "doc").toOption.getD Json.null)
  match k with
  | "cmd" => pure (.cmd doc (← callOf (← j.getObjVal? "call")))
  | "block" =>
    pure (.block doc (← callOf (← j.getObjVal? "open")) (← (← (← j.getObjVal? "body").getArr?).toList.mapM itemOf)
      (← callOf (← j.getObjVal? "close")))
  | "decl" =>
    pure (.decl doc (← callOf (← j.getObjVal? "decl")) (← callOf (← j.getObjVal? "impl"))
      (← (← (← j.getObjVal? "body").getArr?).toList.mapM itemOf) (← callOf (← j.getObjVal? "close")))
  | "dangling" =>
    match doc with
    | some d => pure (.dangling d)
    | none => throw "dangling without doc"
  | t => throw s!"bad item {t}"

def moduleOf (j : Json) : Except String Cminx.Module := do
  pure { bom := getBoolD j "bom" false, modDoc := ← docOf ((j.getObjVal? "moddoc").toOption.getD Json.null),
         items := ← (← (← j.getObjVal? "items").getArr?).toList.mapM itemOf, tail := ← sepOf (← j.getObjVal? "tail") }


partial def fsNodeOf (j : Json) : Except String FsNode := do
  let name ← getStr j "name"
  match j.getObjVal? "children" with
  | .ok ch => pure (.dir name (← (← ch.getArr?).toList.mapM fsNodeOf))
  | .error _ => pure (.file name (← getStr j "content"))

def optStrOf (j : Json) (k : String) : Option Str :=
  match j.getObjVal? k with
  | .ok v => (match v.getStr? with | .ok s => some s.toList | .error _ => none)
  | .error _ => none

def walkCfgOf (j : Json) : Except String WalkCfg := do
  pure { recursive := getBoolD j "recursive" false, autoExclude := getBoolD j "auto_exclude" true,
         pfx := optStrOf j "prefix", sep := getStrD j "sep" ['.'], extTitles := getBoolD j "ext_titles" false,
         extModules := getBoolD j "ext_modules" false, headers := ← getStrList j "headers",
         toStdout := getBoolD j "stdout" false,
         agg := parseCfg (match j.getObjVal? "cfg" with | .ok v => v | .error _ => Json.mkObj []) }

/-- excluded paths as `[[comp, …, isDir], …]`, is-dir encoded as last element "d"/"f" -/
def exclOf (j : Json) : Except String (List Str → Bool → Bool) := do
  let arr ← j.getArr?
  let entries ← arr.toList.mapM (fun e => do
    let a ← e.getArr?
    let comps ← a.toList.mapM strOf
    pure comps)
  pure (fun p isDir => entries.contains (p ++ [if isDir then ['d'] else ['f']]))

def mainInputOf (j : Json) : Except String MainInput := do
  let kind ← (← j.getObjVal? "kind").getStr?
  let name ← getStr j "name"
  let inp ← match kind with
    | "missing" => pure (Input.missing name)
    | "special" => pure (Input.special name)
    | "file" => pure (Input.file name (← getStr j "content"))
    | "dir" => pure (Input.dir name (← (← (← j.getObjVal? "children").getArr?).toList.mapM fsNodeOf))
    | k => throw s!"bad input kind {k}"
  pure { inp, excl := ← exclOf ((j.getObjVal? "excluded").toOption.getD (Json.arr #[])), exclRoot := getBoolD j "excl_root" false }

def statusJson : Status → Json
  | .ok => "ok"
  | .exitMinus1 => "exit-1"
  | .raised e => errJson e


partial def cvalOf (j : Json) : CVal :=
  match j with
  | .bool b => .bool b
  | .str s => .str s.toList
  | .num n => .int n.mantissa
  | .arr a => .list (a.toList.map cvalOf)
  | .obj _ => .map
  | .null => .map

partial def cvalJson : CVal → Json
  | .bool b => b
  | .str s => S s
  | .int n => Json.num (JsonNumber.fromInt n)
  | .list xs => Json.arr (xs.map cvalJson).toArray
  | .map => Json.mkObj []

def sourceOf (j : Json) : Source :=
  match j with
  | .obj kvs => kvs.toList.map (fun (k, v) => (k.toList, cvalOf v))
  | _ => []

