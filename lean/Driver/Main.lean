import Lean.Data.Json
import CminxModel
open Lean
def main : IO Unit := do
  let stdin ← IO.getStdin
  let line ← stdin.getLine
  match Json.parse line with
  | .ok j => IO.println (j.compress)
  | .error e => IO.println s!"err {e}"
