import Driver.Decode
/-!
Line-protocol driver: one JSON request per line on stdin, one JSON response per line on stdout.
It only marshals (see `Driver/Decode.lean`); every computation is a call into `CminxModel`.
-/
open Lean Cminx

def handle (j : Json) : Except String Json := do
  let op ← getStr j "op"
  match String.ofList op with
  | "ping" => pure (Json.mkObj [("pong", true)])
  | "clean" =>
    let lines ← getStrList j "lines"
    pure (Json.mkObj [("doc", S (cleanDocLines lines))])
  | "moddoc" =>
    let t ← getStr j "text"
    let (n, d) := moduleNameDoc t
    pure (Json.mkObj [("name", S n), ("doc", S d)])
  | "lex" =>
    let src ← getStr j "src"
    match lexAll src with
    | .ok ts => pure (Json.mkObj [("toks", Json.arr (ts.map (fun t => Json.arr #[kindName t.kind, S t.text])).toArray)])
    | .error p =>
      -- tokens before the error, for comparison with ANTLR's stream up to its first error
      pure (Json.mkObj [("err", "lex"), ("pos", p)])
  | "parse" =>
    let src ← getStr j "src"
    match lexAll (dropBom src) with
    | .error p => pure (Json.mkObj [("err", "lex"), ("pos", p)])
    | .ok ts =>
      match parse (significant ts) with
      | none => pure (Json.mkObj [("err", "parse")])
      | some evs => pure (Json.mkObj [("events", Json.arr (evs.map eventJson).toArray)])
  | "pipeline" =>
    let cfg := parseCfg (match j.getObjVal? "cfg" with | .ok v => v | .error _ => Json.mkObj [])
    let headers ← getStrList j "headers"
    let title ← getStr j "title"
    let modName ← getStr j "mod"
    let src ← getStr j "src"
    match headers with
    | [] => pure (errJson .noHeaders)
    | hc :: _ =>
      match lexAll (dropBom src) with
      | .error p => pure (errJson (.lex p))
      | .ok ts =>
        match parse (significant ts) with
        | none => pure (errJson .parse)
        | some evs =>
          match aggregate cfg evs with
          | .error e => pure (errJson (.agg e))
          | .ok st =>
            pure (Json.mkObj [("rst", S (processDocs hc title modName st.documented).render),
              ("entries", Json.arr (st.documented.map entryJson).toArray), ("errors", st.errors)])
  | "render" =>
    -- decorated tree → source text, and whether lexing+parsing that text gives back the tree's own events
    let m ← moduleOf (← j.getObjVal? "module")
    let src := m.render
    let rt : Json := match lexAll (dropBom src) with
      | .error p => Json.mkObj [("err", "lex"), ("pos", p)]
      | .ok ts => match parse (significant ts) with
        | none => Json.mkObj [("err", "parse")]
        | some evs => Json.mkObj [("same", (evs.map eventJson).toArray == (m.events.map eventJson).toArray)]
    pure (Json.mkObj [("src", S src), ("roundtrip", rt)])
  | "tree" =>
    let c ← walkCfgOf (← j.getObjVal? "settings")
    let inputs ← (← (← j.getObjVal? "inputs").getArr?).toList.mapM mainInputOf
    let (r, st) := runMain c inputs {}
    pure (Json.mkObj [("writes", Json.arr (r.writes.map (fun w => Json.mkObj [("path", SL w.path), ("content", S w.content)])).toArray),
      ("stdout", S r.stdout), ("status", statusJson st)])
  | "spec" =>
    -- the structural specification (Spec.lean) for a decorated tree under a configuration
    let m ← moduleOf (← j.getObjVal? "module")
    let cfg := parseCfg (match j.getObjVal? "cfg" with | .ok v => v | .error _ => Json.mkObj [])
    pure (Json.mkObj [("entries", Json.arr ((m.entries cfg).map entryJson).toArray), ("wf", itemsWf false m.items),
      ("documented_class", itemsHaveDocumentedClass m.items)])
  | "config" =>
    -- sources in priority order (command line, -s file, user file, packaged defaults), each a flat {dotted.key: value}
    let sources := (← (← j.getObjVal? "sources").getArr?).toList.map sourceOf
    match resolveMain sources with
    | .error k => pure (Json.mkObj [("err", "type"), ("key", S k)])
    | .ok (vals, filters) =>
      pure (Json.mkObj [("values", Json.mkObj (vals.map (fun (k, v) => (String.ofList k, match v with | some x => cvalJson x | none => Json.null)))),
        ("filters", Json.arr (filters.map cvalJson).toArray),
        ("dir_winner", match winner sources (lit "output.directory") with | some i => (i : Nat) | none => Json.null)])
  | "cmakewrap" =>
    let extra ← getStrList j "extra"
    let argv := genArgv (getBoolD j "is_dir" false) (← getStr j "input") (← getStr j "output") extra
    let pj (p : Option Parsed) : Json := match p with
      | none => Json.null
      | some p => Json.mkObj [("files", SL p.files), ("output", optS p.output), ("recursive", p.recursive), ("prefix", optS p.pfx),
          ("settings", optS p.settings), ("excludes", SL p.excludes)]
    pure (Json.mkObj [("argv", SL argv), ("parsed", pj (parseArgv argv {}))])
  | "cminx" =>
    -- the whole program: argument vector, the configuration files as flat sources, what the input paths denote
    let argv ← getStrList j "argv"
    let sfiles : List (Str × Source) := match j.getObjVal? "sfiles" with
      | .ok (Json.obj kvs) => kvs.toList.map (fun (k, v) => (k.toList, sourceOf v))
      | _ => []
    let user := sourceOf ((j.getObjVal? "user").toOption.getD (Json.mkObj []))
    let defaults := sourceOf ((j.getObjVal? "defaults").toOption.getD (Json.mkObj []))
    let worldTbl : List (Str × World) ← match j.getObjVal? "world" with
      | .ok (Json.obj kvs) => kvs.toList.mapM (fun (k, v) => do
          let mi ← mainInputOf v
          let ab ← getStrList v "abs"
          pure (k.toList, ({ inp := mi.inp, absPath := ab } : World)))
      | _ => pure []
    let world : Str → World := fun a => match worldTbl.lookup a with
      | some w => w
      | none => { inp := .missing a, absPath := [a] }
    let strip := match j.getObjVal? "strip" with | .ok v => v | .error _ => Json.mkObj []
    match cminxMain argv (fun f => (sfiles.lookup f).getD []) user defaults world
        (stripTable strip "fn") (stripTable strip "macro") (stripTable strip "member") with
    | .usage => pure (Json.mkObj [("outcome", "usage")])
    | .configError k => pure (Json.mkObj [("outcome", "config"), ("key", S k)])
    | .badPattern => pure (Json.mkObj [("outcome", "badpattern")])
    | .unsupportedPatterns => pure (Json.mkObj [("outcome", "unsupported")])
    | .ran r st =>
      pure (Json.mkObj [("outcome", "ran"),
        ("writes", Json.arr (r.writes.map (fun w => Json.mkObj [("path", SL w.path), ("content", S w.content)])).toArray),
        ("stdout", S r.stdout), ("status", statusJson st)])
  | "pyspace" =>
    -- the code points the model takes for Python white space (`str.strip()`, `str.split()`, `str.rstrip()`): all of them, for an exhaustive comparison
    let cps := (List.range 0x110000).filter (fun n => pyIsSpace (Char.ofNat n))
    pure (Json.mkObj [("spaces", Json.arr (cps.map (fun (n : Nat) => Json.num (JsonNumber.fromNat n))).toArray),
      ("lower", S (asciiLower ((List.range 128).map Char.ofNat)))])
  | "mainargs" =>
    -- an argument vector of `cminx.main`: does the model decide it, what the parser extracts, and the command-line source
    let argv ← getStrList j "argv"
    let sup := argvSupported argv
    let parsed : Json := match parseArgv argv {} with
      | none => Json.null
      | some p => Json.mkObj [("files", SL p.files), ("settings", optS p.settings),
          ("cli", Json.mkObj ((cliSource p).map (fun (k, v) => (String.ofList k, cvalJson v))))]
    pure (Json.mkObj [("supported", sup), ("parsed", parsed)])
  | "procs" =>
    -- the names for which the model has a `process_<name>` method, and which of them have an include_undocumented_ flag
    let names := ["function", "macro", "cmake_parse_arguments", "ct_add_test", "ct_add_section", "set", "cpp_class", "cpp_member",
                  "cpp_constructor", "cpp_attr", "add_test", "option", "generic_command", "docs", "foo_bar"]
    let known := names.filter (fun n => (procOf n.toList).isSome)
    let flagged := known.filter (fun n => match procOf n.toList with | some p => (({} : Cfg).include p).isSome | none => false)
    pure (Json.mkObj [("procs", Json.arr (known.map Json.str).toArray), ("flagged", Json.arr (flagged.map Json.str).toArray)])
  | "optiontable" =>
    let tyName : CType → String
      | .bool => "bool" | .str => "str" | .optStr => "optStr" | .strSeq => "strSeq" | .optList => "optList"
      | .optFilename => "optFilename" | .dict => "dict"
    pure (Json.mkObj (optionTable.map (fun (k, ty) => (String.ofList k, Json.str (tyName ty)))))
  | "rstops" =>
    let hc ← getStr j "hc"
    let title ← getStr j "title"
    let opsJ ← (← j.getObjVal? "ops").getArr?
    let mut doc : Doc := { hc, title, body := [] }
    let mut outs : Array Json := #[]
    for oj in opsJ do
      match ← parseOp oj with
      | none => outs := outs.push (S doc.render)
      | some o => doc := doc.apply o
    pure (Json.mkObj [("outs", Json.arr outs)])
  | "rstfull" =>
    -- the whole writer API (sections, doctests, tables); `raised[i]` says whether the i-th call raised
    let hs ← getStrList j "headers"
    let title ← getStr j "title"
    let opsJ ← (← j.getObjVal? "ops").getArr?
    match FDoc.new hs title with
    | none => pure (Json.mkObj [("ctor", "raised")])
    | some d0 =>
      let mut doc : FDoc := d0
      let mut outs : Array Json := #[]
      let mut raised : Array Json := #[]
      for oj in opsJ do
        match ← parseFOp oj with
        | none => outs := outs.push (S doc.render)
        | some o =>
          match doc.apply o with
          | .ok d' => doc := d'; raised := raised.push false
          | .error _ => raised := raised.push true
      pure (Json.mkObj [("outs", Json.arr outs), ("raised", Json.arr raised)])
  | "writetarget" =>
    let arg : Option WriteArg := match j.getObjVal? "arg" with
      | .ok (Json.str s) => some (.path s.toList)
      | .ok (Json.bool true) => some .stream
      | .ok (Json.num _) => some .other
      | _ => none
    pure (Json.mkObj [("target", match writeTarget arg with
      | .valueError => Json.str "ValueError" | .typeError => Json.str "TypeError" | .streamWrite => Json.str "stream"
      | .openPath p => Json.mkObj [("open", S p)])])
  | "glob" =>
    -- exclusion patterns (pathspec gitwildmatch) against path strings as CMinx builds them
    let pats ← getStrList j "patterns"
    let paths ← getStrList j "paths"
    let status : List Json := pats.map (fun p => match Glob.compile p with
      | .ok .skip => Json.str "skip"
      | .ok (.pat excl anch _) => Json.str (s!"pat:{excl}:{anch}")
      | .error .invalid => Json.str "invalid"
      | .error .unsupported => Json.str "unsupported")
    match Glob.compileAll pats with
    | .error .invalid => pure (Json.mkObj [("status", Json.arr status.toArray), ("err", "invalid")])
    | .error .unsupported => pure (Json.mkObj [("status", Json.arr status.toArray), ("err", "unsupported")])
    | .ok cs =>
      -- optional: entries of a walk given as (absolute input directory, components below it, is-directory); the model builds the
      -- string CMinx hands to pathspec (`queryPath`) and the verdict of the walk's exclusion function (`exclOf`)
      let queries : List Json := match j.getObjVal? "queries" with
        | .ok (Json.arr a) => a.toList
        | _ => []
      let qs ← queries.mapM (fun q => do
        let ab ← getStr q "abs"
        let rel ← getStrList q "rel"
        let d := getBoolD q "dir" false
        pure (Json.mkObj [("path", S (Glob.queryPath ab rel d)), ("excl", Json.bool (Glob.exclOf cs ab rel d))]))
      pure (Json.mkObj [("status", Json.arr status.toArray),
        ("res", Json.arr (paths.map (fun q => Json.bool (Glob.verdict cs (Glob.normalizeFile q)))).toArray),
        ("queries", Json.arr qs.toArray)])
  | o => throw s!"unknown op {o}"

partial def loop (hin : IO.FS.Stream) (hout : IO.FS.Stream) : IO Unit := do
  let line ← hin.getLine
  if line.isEmpty then return ()
  let resp := match Json.parse line with
    | .error e => Json.mkObj [("fail", s!"json: {e}")]
    | .ok j => match handle j with
      | .ok r => r
      | .error e => Json.mkObj [("fail", e)]
  hout.putStrLn resp.compress
  hout.flush
  loop hin hout

def main : IO Unit := do loop (← IO.getStdin) (← IO.getStdout)
