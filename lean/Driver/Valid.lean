import Driver.Decode
import CminxProps.TLex
import CminxModel.SpecSeq
/-!
`validcheck`: evaluates, on decorated modules sent by the harness, the *hypotheses* of the refinement theorems —
`Module.valid` (T_lex / T_roundtrip / T_pipeline), `itemsWf` and the K1 guard (T_agg), `itemsWfS` (T_aggS: split declarations, documented implementing definitions) — so that the evidence can state how
many of the generated correspondence inputs lie inside the theorems' domain.  Separate from `driver` because it imports
proof files.
-/
open Lean Cminx

def handleValid (j : Json) : Except String Json := do
  let m ← moduleOf (← j.getObjVal? "module")
  pure (Json.mkObj [("valid", m.valid), ("wf", itemsWf false m.items), ("wf_seq", itemsWfS false false m.items), ("documented_class", itemsHaveDocumentedClass m.items),
    ("dangling_ok", m.danglingOk)])

partial def loopValid (hin hout : IO.FS.Stream) : IO Unit := do
  let line ← hin.getLine
  if line.isEmpty then return ()
  let resp := match Json.parse line with
    | .error e => Json.mkObj [("fail", s!"json: {e}")]
    | .ok j => match handleValid j with
      | .ok r => r
      | .error e => Json.mkObj [("fail", e)]
  hout.putStrLn resp.compress
  hout.flush
  loopValid hin hout

def main : IO Unit := do loopValid (← IO.getStdin) (← IO.getStdout)
