-- This module serves as the root of the `CminxModel` library.
-- Import modules here that should be built as part of the library.
import CminxModel.Basic
