import CminxModel
