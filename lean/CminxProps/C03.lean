import CminxLemmas.SpecLemmas
/-!
# C03 — function and macro signatures mirror the definition

Read off the structural specification (`Item.spec`, `defEntry`, `itemsCpaDirect` in `CminxModel/Spec.lean`) and
`Entry.toElem` (`CminxModel/DocTypes.lean`); `C03_machine` transports the statements through `T_agg` to the
listener state machine.  `cfg.stripFn` / `cfg.stripMacro` are arbitrary functions `Str → Str` (the model of
`re.sub(pattern, "", ·)`), `cfg.trigger` an arbitrary string: every theorem quantifies over all of them.
-/
namespace Cminx

/-! `C03.DirectCpa items` (defined in `CminxLemmas/SpecLemmas.lean`, reproduced here):
```
inductive DirectCpa : List Item → Prop
  | here : call.lname = lit "cmake_parse_arguments" → DirectCpa (pre ++ .cmd doc call :: post)
  | inBlock : (isLoopName o.lname = true ∨ o.lname = lit "cpp_class") → DirectCpa body →
      DirectCpa (pre ++ .block doc o body c :: post)
```
"a `cmake_parse_arguments` call occurs in these items outside any nested function or macro definition". -/

open C03

/-! ## the entry of a definition -/

/-- The entry of a function (`isMacro = false`) or macro definition that is documented or whose
`include_undocumented_*` flag is on: the name is the first argument, untouched; the parameters are the remaining
arguments in order, each passed through the strip function of that kind; the `**kwargs` flag is "trigger string
occurs in the cleaned doccomment, or a `cmake_parse_arguments` call sits directly in this body".  It is followed
by the entries of the body.  Nothing else enters: not the siblings, not the enclosing definitions, not the class
context. -/
theorem C03_signature (cfg : Cfg) (ctx : ClsCtx) (doc : Option DocC) (o : Call) (body : List Item) (c : Call)
    (isMacro : Bool) (hn : o.lname = if isMacro then lit "macro" else lit "function")
    (hincl : doc.isSome = true ∨ (if isMacro then cfg.inclMacro else cfg.inclFunction) = true) :
    ((Item.block doc o body c).spec cfg ctx).top =
      .func isMacro (o.singles.headD []) (docTextOf doc)
          ((o.singles.drop 1).map (if isMacro then cfg.stripMacro else cfg.stripFn))
          (isInfix cfg.trigger (docTextOf doc) || itemsCpaDirect body) ::
        (itemsSpec cfg ctx body).top := by
  cases isMacro with
  | false =>
    have hc : (doc.isSome || cfg.inclFunction) = true := by simpa using hincl
    rw [spec_block_function cfg ctx doc o body c (by simpa using hn)]
    simp [hc, defEntry]
  | true =>
    have hc : (doc.isSome || cfg.inclMacro) = true := by simpa using hincl
    rw [spec_block_macro cfg ctx doc o body c (by simpa using hn)]
    simp [hc, defEntry]

/-- with the arguments named: `function(name p₁ … pₙ)` gives `name` and `[strip p₁, …, strip pₙ]` -/
theorem C03_signature_function (cfg : Cfg) (ctx : ClsCtx) (doc : Option DocC) (o : Call) (body : List Item) (c : Call)
    (name : Str) (params : List Str) (hn : o.lname = lit "function") (hs : o.singles = name :: params)
    (hincl : doc.isSome = true ∨ cfg.inclFunction = true) :
    ((Item.block doc o body c).spec cfg ctx).top =
      .func false name (docTextOf doc) (params.map cfg.stripFn)
          (isInfix cfg.trigger (docTextOf doc) || itemsCpaDirect body) :: (itemsSpec cfg ctx body).top := by
  rw [C03_signature cfg ctx doc o body c false (by simpa using hn) (by simpa using hincl), hs]; simp

theorem C03_signature_macro (cfg : Cfg) (ctx : ClsCtx) (doc : Option DocC) (o : Call) (body : List Item) (c : Call)
    (name : Str) (params : List Str) (hn : o.lname = lit "macro") (hs : o.singles = name :: params)
    (hincl : doc.isSome = true ∨ cfg.inclMacro = true) :
    ((Item.block doc o body c).spec cfg ctx).top =
      .func true name (docTextOf doc) (params.map cfg.stripMacro)
          (isInfix cfg.trigger (docTextOf doc) || itemsCpaDirect body) :: (itemsSpec cfg ctx body).top := by
  rw [C03_signature cfg ctx doc o body c true (by simpa using hn) (by simpa using hincl), hs]; simp

/-- a definition without a doccomment whose flag is off has no entry; its body is still read -/
theorem C03_hidden (cfg : Cfg) (ctx : ClsCtx) (o : Call) (body : List Item) (c : Call)
    (isMacro : Bool) (hn : o.lname = if isMacro then lit "macro" else lit "function")
    (hincl : (if isMacro then cfg.inclMacro else cfg.inclFunction) = false) :
    (Item.block none o body c).spec cfg ctx = itemsSpec cfg ctx body := by
  cases isMacro with
  | false =>
    rw [spec_block_function cfg ctx none o body c (by simpa using hn)]
    have : cfg.inclFunction = false := by simpa using hincl
    simp [this]
  | true =>
    rw [spec_block_macro cfg ctx none o body c (by simpa using hn)]
    have : cfg.inclMacro = false := by simpa using hincl
    simp [this]

/-! ## where a `cmake_parse_arguments` call counts -/

/-- a single command counts iff it is a `cmake_parse_arguments` call (any letter case) -/
theorem C03_cpa_cmd (doc : Option DocC) (call : Call) :
    (Item.cmd doc call).cpaDirect = decide (call.lname = lit "cmake_parse_arguments") := by
  simp [Item.cpaDirect]

/-- calls inside a nested function or macro definition never count -/
theorem C03_cpa_nested_def (doc : Option DocC) (o : Call) (body : List Item) (c : Call)
    (hn : o.lname = lit "function" ∨ o.lname = lit "macro") : (Item.block doc o body c).cpaDirect = false := by
  have h1 : (isLoopName (lit "function") || decide (lit "function" = lit "cpp_class")) = false := by decide
  have h2 : (isLoopName (lit "macro") || decide (lit "macro" = lit "cpp_class")) = false := by decide
  rcases hn with hn | hn
  · rw [Item.cpaDirect, hn, h1, Bool.false_and]
  · rw [Item.cpaDirect, hn, h2, Bool.false_and]

/-- calls inside the implementation of a member or test declaration never count for the enclosing definition -/
theorem C03_cpa_decl (doc : Option DocC) (d impl : Call) (body : List Item) (c : Call) :
    (Item.decl doc d impl body c).cpaDirect = false := by
  simp [Item.cpaDirect]

theorem C03_cpa_dangling (d : DocC) : (Item.dangling d).cpaDirect = false := by
  simp [Item.cpaDirect]

/-- `if`/`foreach`/`while` blocks and classes are transparent -/
theorem C03_cpa_block (doc : Option DocC) (o : Call) (body : List Item) (c : Call)
    (hn : isLoopName o.lname = true ∨ o.lname = lit "cpp_class") :
    (Item.block doc o body c).cpaDirect = itemsCpaDirect body := by
  rcases hn with hn | hn <;> simp [Item.cpaDirect, hn]

theorem C03_cpa_cons (i : Item) (is : List Item) : itemsCpaDirect (i :: is) = (i.cpaDirect || itemsCpaDirect is) := by
  simp [itemsCpaDirect]

theorem C03_cpa_append (a b : List Item) : itemsCpaDirect (a ++ b) = (itemsCpaDirect a || itemsCpaDirect b) :=
  itemsCpaDirect_append a b

/-- `itemsCpaDirect` decides exactly `DirectCpa`: the `**kwargs` scan sees the calls of this body outside nested
definitions, and nothing else -/
theorem C03_cpa_scope (items : List Item) : itemsCpaDirect items = true ↔ DirectCpa items := by
  constructor
  · exact itemsCpaDirect_sound items
  · intro h
    induction h with
    | here hc => simp [itemsCpaDirect_append, itemsCpaDirect, Item.cpaDirect, hc]
    | inBlock hn _ ih =>
      rw [itemsCpaDirect_append, C03_cpa_cons, C03_cpa_block _ _ _ _ hn, ih]; simp

/-- the `**kwargs` flag of a definition's entry: trigger string in the doccomment, or a direct call in its body -/
theorem C03_kwargs_iff (cfg : Cfg) (isMacro : Bool) (doc : Option DocC) (o : Call) (body : List Item) :
    ∃ name d ps kw, defEntry cfg isMacro doc o body = .func isMacro name d ps kw ∧
      (kw = true ↔ isInfix cfg.trigger (docTextOf doc) = true ∨ DirectCpa body) := by
  refine ⟨_, _, _, _, rfl, ?_⟩
  rw [Bool.or_eq_true, C03_cpa_scope]

/-- Siblings never matter: inside `pre ++ it :: post` the item `it` contributes `(it.spec cfg ctx).top`, a
function of `it` alone, between the contributions of `pre` and `post`.  So a `cmake_parse_arguments` call in an
earlier or later definition (or between definitions) cannot change the entry of `it`. -/
theorem C03_siblings_irrelevant (cfg : Cfg) (ctx : ClsCtx) (pre post : List Item) (it : Item) :
    (itemsSpec cfg ctx (pre ++ it :: post)).top =
      (itemsSpec cfg ctx pre).top ++ (it.spec cfg ctx).top ++ (itemsSpec cfg ctx post).top := by
  simp [itemsSpec_append, itemsSpec_cons]

/-- a `cmake_parse_arguments` call contributes nothing by itself — in particular at file level, where there is
no definition it could mark -/
theorem C03_file_level (cfg : Cfg) (ctx : ClsCtx) (doc : Option DocC) (call : Call)
    (hn : call.lname = lit "cmake_parse_arguments") : (Item.cmd doc call).spec cfg ctx = {} :=
  spec_cmd_cpa cfg ctx doc call hn

/-- a definition nested in the body of another: the outer flag ignores the inner body, the inner flag sees
its own body only -/
theorem C03_nested (cfg : Cfg) (ctx : ClsCtx) (doc idoc : Option DocC) (o c io ic : Call) (pre post ibody : List Item)
    (isMacro iMacro : Bool)
    (hn : o.lname = if isMacro then lit "macro" else lit "function")
    (hincl : doc.isSome = true ∨ (if isMacro then cfg.inclMacro else cfg.inclFunction) = true)
    (hin : io.lname = if iMacro then lit "macro" else lit "function")
    (hiincl : idoc.isSome = true ∨ (if iMacro then cfg.inclMacro else cfg.inclFunction) = true) :
    ((Item.block doc o (pre ++ .block idoc io ibody ic :: post) c).spec cfg ctx).top =
      .func isMacro (o.singles.headD []) (docTextOf doc)
          ((o.singles.drop 1).map (if isMacro then cfg.stripMacro else cfg.stripFn))
          (isInfix cfg.trigger (docTextOf doc) || (itemsCpaDirect pre || itemsCpaDirect post)) ::
        ((itemsSpec cfg ctx pre).top ++
          .func iMacro (io.singles.headD []) (docTextOf idoc)
              ((io.singles.drop 1).map (if iMacro then cfg.stripMacro else cfg.stripFn))
              (isInfix cfg.trigger (docTextOf idoc) || itemsCpaDirect ibody) ::
            ((itemsSpec cfg ctx ibody).top ++ (itemsSpec cfg ctx post).top)) := by
  have hdef : (Item.block idoc io ibody ic).cpaDirect = false :=
    C03_cpa_nested_def idoc io ibody ic (by cases iMacro <;> simp_all)
  rw [C03_signature cfg ctx doc o _ c isMacro hn hincl, C03_siblings_irrelevant,
    C03_signature cfg ctx idoc io ibody ic iMacro hin hiincl, C03_cpa_append, C03_cpa_cons, hdef]
  simp

/-! ## rendering -/

/-- A function entry is a `.. function::` directive whose single argument is `name(p₁ p₂ …)`, the parameters
separated by single spaces, with `**kwargs` appended — once, last — iff the flag is set; a macro entry
additionally starts with the macro note. -/
theorem C03_render (isMacro : Bool) (name doc : Str) (params : List Str) (kw : Bool) :
    (Entry.func isMacro name doc params kw).toElem =
      .directive (lit "function")
        [name ++ lit "(" ++ joinWith [' '] (if kw then params ++ [lit "**kwargs"] else params) ++ lit ")"] []
        ((if isMacro then [Elem.directive (lit "note") [macroNote] [] []] else []) ++ [.para doc]) := by
  cases kw <;> simp [Entry.toElem, signature, lit]

/-! ## the listener state machine -/

/-- Through `T_agg`: for every well-formed module outside the K1 region (see `T_agg_K1_counterexample`) the
listener ends normally and its `documented` list is `m.entries cfg` — the module entry (if any) followed by
`(itemsSpec cfg .none m.items).top`, to which the equations above apply at every nesting depth. -/
theorem C03_machine (cfg : Cfg) (m : Module) (hwf : itemsWf false m.items = true)
    (hk1 : cfg.inclCppClass = true ∨ itemsHaveDocumentedClass m.items = false) :
    ∃ st, aggregate cfg m.events = .ok st ∧ st.errors = 0 ∧
      st.documented =
        (match m.modDoc with
         | some d => [Entry.module (moduleNameDoc d.tokenText).1 (moduleNameDoc d.tokenText).2]
         | none => []) ++ (itemsSpec cfg .none m.items).top := by
  obtain ⟨st, h1, h2, h3, _⟩ := T_agg cfg m hwf hk1
  refine ⟨st, h1, h3, ?_⟩
  rw [h2, Module.entries]
  cases m.modDoc <;> rfl

/-- a top-level definition of a well-formed module, as the machine records it -/
theorem C03_machine_toplevel (cfg : Cfg) (m : Module) (hwf : itemsWf false m.items = true)
    (hk1 : cfg.inclCppClass = true ∨ itemsHaveDocumentedClass m.items = false)
    (pre post : List Item) (doc : Option DocC) (o : Call) (body : List Item) (c : Call) (isMacro : Bool)
    (hitems : m.items = pre ++ .block doc o body c :: post)
    (hn : o.lname = if isMacro then lit "macro" else lit "function")
    (hincl : doc.isSome = true ∨ (if isMacro then cfg.inclMacro else cfg.inclFunction) = true) :
    ∃ st front back, aggregate cfg m.events = .ok st ∧
      st.documented = front ++
        .func isMacro (o.singles.headD []) (docTextOf doc)
          ((o.singles.drop 1).map (if isMacro then cfg.stripMacro else cfg.stripFn))
          (isInfix cfg.trigger (docTextOf doc) || itemsCpaDirect body) :: back := by
  obtain ⟨st, h1, _, h3⟩ := C03_machine cfg m hwf hk1
  refine ⟨st, (match m.modDoc with
         | some d => [Entry.module (moduleNameDoc d.tokenText).1 (moduleNameDoc d.tokenText).2]
         | none => []) ++ (itemsSpec cfg .none pre).top,
    (itemsSpec cfg .none body).top ++ (itemsSpec cfg .none post).top, h1, ?_⟩
  rw [h3, hitems, C03_siblings_irrelevant, C03_signature cfg .none doc o body c isMacro hn hincl]
  simp

/-! ## non-vacuity -/

/-- a strip function that also matches inside the function name: drop every underscore -/
def exStrip : Str → Str := fun s => s.filter (· ≠ '_')

/-- `function(my_fn _a b_)` … `endfunction()` with a `cmake_parse_arguments` call inside an `if` of a *nested*
macro, and another one after the definition -/
def exOuter : Item :=
  .block (some (mkDoc "" ["Outer."])) (mkCall "function" ["my_fn", "_a", "b_"])
    [ .cmd none (mkCall "message" ["x"]),
      .block none (mkCall "MACRO" ["in_ner", "_p"])
        [ .block none (mkCall "if" ["p"]) [ .cmd none (mkCall "cmake_parse_arguments" ["A", "", "", ""]) ]
            (mkCall "endif" []) ]
        (mkCall "endmacro" []),
      .cmd none (mkCall "message" ["y"]) ]
    (mkCall "endfunction" [])

example : (exOuter.spec { stripFn := exStrip } .none).top =
    [ .func false (lit "my_fn") (docTextOf (some (mkDoc "" ["Outer."]))) [lit "a", lit "b"] false,
      .func true (lit "in_ner") [] [lit "_p"] true ] := by
  refine Eq.trans (C03_nested { stripFn := exStrip } .none
    (some (mkDoc "" ["Outer."])) none (mkCall "function" ["my_fn", "_a", "b_"]) (mkCall "endfunction" [])
    (mkCall "MACRO" ["in_ner", "_p"]) (mkCall "endmacro" []) [.cmd none (mkCall "message" ["x"])]
    [.cmd none (mkCall "message" ["y"])] _ false true (by decide) (Or.inl rfl) (by decide) (Or.inr rfl)) ?_
  decide

/-- followed by a file-level call: same entries -/
example : (itemsSpec { stripFn := exStrip } .none
      [exOuter, .cmd none (mkCall "cmake_parse_arguments" ["B", "", "", ""])]).top =
    (exOuter.spec { stripFn := exStrip } .none).top := by
  refine Eq.trans (C03_siblings_irrelevant _ .none [] [.cmd none (mkCall "cmake_parse_arguments" ["B", "", "", ""])]
    exOuter) ?_
  rw [itemsSpec_cons, C03_file_level _ _ none _ (by decide), itemsSpec_nil]
  simp

/-- the call inside `if` inside the macro body is a direct call of the macro's body -/
example : DirectCpa
    [ Item.block none (mkCall "if" ["p"]) [ .cmd none (mkCall "cmake_parse_arguments" ["A", "", "", ""]) ]
        (mkCall "endif" []) ] :=
  (C03_cpa_scope _).mp (by decide)

example : (Entry.func true (lit "m") (lit "d") [lit "a", lit "b"] true).toElem =
    .directive (lit "function") [lit "m(a b **kwargs)"] []
      [.directive (lit "note") [macroNote] [] [], .para (lit "d")] := by
  rw [C03_render]; rfl

end Cminx
