import CminxModel.Walk
/-!
# C15 before repair D6 — pruning a list while iterating over it

Before the repair, `document` pruned the lists `os.walk` hands out like this:

```python
for subdir in subdirs:            # the same list …
    if spec.match_file(...):
        subdirs.remove(subdir)    # … is shrunk inside the loop
```

CPython's list iterator keeps an *index* into the list.  Removing the current element shifts the rest one place
to the left, the index still advances, so the entry that follows a removed one is never tested.  `pruneOld`
models that loop; `List.filter` is what the repaired code (`for subdir in copy.copy(subdirs)`) computes, and it is
what `walkDir` of the model uses.  The order theorem `C15_order` and the characterisation
`C15_count_independent` are false for `pruneOld` (`C15_old_*` below) — this file documents defect D6 and is not
part of the verified model.
-/
namespace Cminx

/-- the loop `for x in l: if p(x): l.remove(x)`, the iterator being an index into the list that is shrunk;
    `fuel` bounds the number of iterations (at most the original length) -/
def pruneOldAux {α : Type} [DecidableEq α] (p : α → Bool) : Nat → Nat → List α → List α
  | 0, _, l => l
  | fuel + 1, i, l =>
    match l[i]? with
    | none => l
    | some x => if p x then pruneOldAux p fuel (i + 1) (l.erase x) else pruneOldAux p fuel (i + 1) l

def pruneOld {α : Type} [DecidableEq α] (p : α → Bool) (l : List α) : List α := pruneOldAux p l.length 0 l

/-- the pattern `a*` -/
def startsWithA (s : Str) : Bool := s.head? == some 'a'

/-- three adjacent entries that all match: the middle one survives the old loop -/
theorem C15_old_skips :
    pruneOld startsWithA [lit "aa", lit "ab", lit "ac"] = [lit "ab"] := by decide

/-- … although it matches the pattern, so "survivor ⇔ matches no pattern" fails for the old loop -/
theorem C15_old_not_iff :
    ¬ (∀ n, n ∈ pruneOld startsWithA [lit "aa", lit "ab", lit "ac"] ↔
        n ∈ [lit "aa", lit "ab", lit "ac"] ∧ startsWithA n = false) := by
  intro h
  have := (h (lit "ab")).mp (by decide)
  revert this; decide

/-- how many entries survive depends on how many match *and* on where they stand -/
theorem C15_old_count_dependent :
    pruneOld startsWithA [lit "aa", lit "x", lit "ab"] = [lit "x"] ∧
    pruneOld startsWithA [lit "aa", lit "ab", lit "x"] = [lit "ab", lit "x"] := by decide

/-- the result of the old loop on two listings of the same directory are not permutations of each other:
    the analogue of `C15_order` is false -/
theorem C15_old_order_dependent :
    ∃ l₁ l₂ : List Str, l₁.Perm l₂ ∧ ¬ (pruneOld startsWithA l₁).Perm (pruneOld startsWithA l₂) := by
  refine ⟨[lit "aa", lit "x", lit "ab"], [lit "aa", lit "ab", lit "x"], ?_, ?_⟩
  · exact .cons _ (.swap _ _ _)
  · rw [C15_old_count_dependent.1, C15_old_count_dependent.2]
    intro h
    have := h.length_eq
    revert this; decide

/-- the contrast: `List.filter` tests every entry, wherever it stands and whatever stands next to it … -/
theorem C15_filter_iff {α : Type} (p : α → Bool) (l : List α) (x : α) :
    x ∈ l.filter (fun y => !p y) ↔ x ∈ l ∧ p x = false := by
  simp

/-- … and commutes with permutations of the listing -/
theorem C15_filter_perm {α : Type} (p : α → Bool) {l₁ l₂ : List α} (h : l₁.Perm l₂) :
    (l₁.filter (fun y => !p y)).Perm (l₂.filter (fun y => !p y)) :=
  h.filter _

/-- on the example that defeats the old loop -/
example : [lit "aa", lit "ab", lit "ac"].filter (fun y => !startsWithA y) = [] := by decide

end Cminx
