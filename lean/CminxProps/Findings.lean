import CminxProps.TAgg
import CminxModel.Config
/-!
# Machine-checked witnesses of the open known findings (model side)

The model is faithful to the code also where the code violates a property; these theorems pin the defective behaviour
down on concrete inputs, next to the `…_partial` theorems that cover the complement.
K1: `T_agg_K1_counterexample` (TAgg.lean), `C08_K1_counterexample` (C08.lean).  K3: the negative `decide` examples
of `Module.valid` in TLex.lean.  K4: `C12_K4_counterexample` (C12.lean), `¬ Nodup` examples in C13/C14.
K5: `C19_K5_counterexample`.  K6: `CType.accepts .strSeq .map = true` below.  K8: `K8_stale_declaration_swallows_later_definition` below.
-/
namespace Cminx

/-- K2: a *documented* command literally named `generic_command` raises `TypeError` (dispatch by name finds
    `process_generic_command`, which takes one more argument) -/
theorem K2_documented_generic_command (cfg : Cfg) (st : AggState) (d : Str) (args : List Arg) :
    step cfg st (.docCmd d ⟨lit "generic_command", args⟩) = .error .typeError := by
  have h : asciiLower (lit "generic_command") = lit "generic_command" := by decide
  have hp : procOf (lit "generic_command") = some .genericCommand := by decide
  simp only [step, enterDocumented, h, hp, runProc]
  rfl

/-- K2: an *undocumented* one raises `KeyError` (there is no `include_undocumented_generic_command`) -/
theorem K2_undocumented_generic_command (cfg : Cfg) (st : AggState) (args : List Arg) :
    step cfg st (.cmd ⟨lit "generic_command", args⟩) = .error .keyError := by
  have h : asciiLower (lit "generic_command") = lit "generic_command" := by decide
  have hp : procOf (lit "generic_command") = some .genericCommand := by decide
  simp only [step, enterCommand, h, hp]
  simp +decide [Cfg.include]
  rfl

/-- K6: the header list accepts a mapping (confuse.StrSeq iterates any iterable) -/
theorem K6_strseq_accepts_mapping : CType.accepts .strSeq .map = true := rfl

/-- K8: a member declaration that is never implemented (`cpp_member(area Shape)` + `cpp_virtual_member(area)`) stays in the
awaiting slot, and the next `function()` *anywhere later* — here the unrelated, undocumented `helper` after the class has
been closed — is taken for its implementation: `helper` gets no entry of its own (C02: "exactly one entry for each function")
and the method shows `helper`'s parameter `y`. -/
def exK8 : List Event :=
  [ .cmd ⟨lit "cpp_class", [.single (lit "Shape")]⟩,
    .docCmd (lit "#[[[\n# Area.\n#]]") ⟨lit "cpp_member", [.single (lit "area"), .single (lit "Shape")]⟩,
    .cmd ⟨lit "cpp_virtual_member", [.single (lit "area")]⟩,
    .cmd ⟨lit "cpp_end_class", []⟩,
    .cmd ⟨lit "function", [.single (lit "helper"), .single (lit "x"), .single (lit "y")]⟩,
    .cmd ⟨lit "endfunction", []⟩ ]

theorem K8_stale_declaration_swallows_later_definition :
    (aggregate {} exK8).toOption.map (fun s => s.documented.map (fun e => match e with
        | .func _ n _ ps _ => (n, ps)
        | .cls n _ _ _ _ ms _ => (n, ms.flatMap (fun m => m.params))
        | _ => ([], []))) =
      some [(lit "Shape", [lit "y"])] := by
  decide +kernel

/-- … whereas without the stale declaration `helper` has its entry -/
theorem K8_without_declaration :
    (aggregate {} (exK8.eraseIdx 1)).toOption.map (fun s => s.documented.map (fun e => match e with
        | .func _ n _ ps _ => (n, ps) | .cls n .. => (n, []) | _ => ([], []))) =
      some [(lit "Shape", []), (lit "helper", [lit "x", lit "y"])] := by
  decide +kernel

end Cminx
