import CminxLemmas.RenderLemmas
/-!
# C07 — Generated reST is structurally well formed (structural half)

*Statement.* "When doccomment bodies are valid reST and argument values contain no line breaks, the generated
document parses … and consists of one title, then one module directive, then the entries as top-level siblings.
Every entry's notes, warnings, fields, options, documentation text and class members are nested inside that
entry's directive and nowhere else."

The docutils-acceptance half is validated by running docutils on the real output.  The theorems here cover the
half that is logic: containment, order, indentation.

The central device is a *tagged line view* of an element (`Elem.tlines`): the lines the element contributes
when rendered at depth 0, each tagged with whether it carries the indentation prefix of the writer it is rendered
in.  Rendering at depth `d` is: prepend `indent d` to exactly the tagged lines (`C07_render_tlines`).  Untagged
lines are always the empty separator lines of the templates (`C07_tlines_untagged`).  All other statements are
corollaries.

Paragraphs (doc text) may be multi-line; every other string a template puts on one line must be free of `'\n'`
(`SingleLine`), which is exactly "argument values contain no line breaks".
-/
namespace Cminx

/-! ## Spec-side definitions -/

mutual
/-- every string the templates put on a single line is free of line breaks; paragraph text is unconstrained -/
def SingleLine : Elem → Prop
  | .para _ => True
  | .field n t => '\n' ∉ n ∧ '\n' ∉ t
  | .list _ items => ∀ it ∈ items, '\n' ∉ it
  | .directive name args opts body =>
      '\n' ∉ name ∧ (∀ a ∈ args, '\n' ∉ a) ∧ (∀ nv ∈ opts, '\n' ∉ nv.1 ∧ '\n' ∉ nv.2) ∧ SingleLineList body
def SingleLineList : List Elem → Prop
  | [] => True
  | e :: es => SingleLine e ∧ SingleLineList es
end

/-- every line of `s` is blank or indented by at least `3·d` columns -/
def Blocky (d : Nat) (s : Str) : Prop := ∀ l ∈ splitNl s, l = [] ∨ (indent d).isPrefixOf l = true

/-- the marker in front of list item number `i` (zero-based) -/
def itemMark (enumerated : Bool) (i : Nat) : Str :=
  if enumerated then natStr (i + 1) ++ ['.', ' '] else ['*', ' ']

/-- move tagged lines one level inwards: three more columns for exactly the tagged lines -/
def shiftT (ls : List (Bool × Str)) : List (Bool × Str) :=
  ls.map fun bl => (bl.1, if bl.1 then indent 1 ++ bl.2 else bl.2)

mutual
/-- The lines of an element as rendered by a writer at depth 0.  Tag `true`: the line carries the writer's
    indentation prefix (it is produced through `get_indents`); tag `false`: a bare separator line. -/
def Elem.tlines : Elem → List (Bool × Str)
  | .para t => (splitNl t).map (true, ·)
  | .field n t => [(false, []), (true, ':' :: (n ++ ':' :: ' ' :: t))]
  | .list en items => (false, []) :: items.mapIdx (fun i it => (true, itemMark en i ++ it)) ++ [(false, [])]
  | .directive name args opts body =>
      (false, []) :: (true, lit ".. " ++ name ++ lit ":: " ++ joinWith [','] args) ::
      opts.map (fun nv => (true, indent 1 ++ ':' :: (nv.1 ++ ':' :: ' ' :: nv.2))) ++
      (if body.isEmpty then [] else [(false, [])]) ++ shiftT (tlinesList body)
/-- the lines of `for element in document[1:]: s += f"{element}\n"`; the last piece is what follows the final `'\n'` -/
def tlinesList : List Elem → List (Bool × Str)
  | [] => [(false, [])]
  | e :: es => e.tlines ++ tlinesList es
end

/-- a tagged line as it appears at depth `d` -/
def place (d : Nat) (bl : Bool × Str) : Str := if bl.1 then indent d ++ bl.2 else bl.2

/-- what a directive parser does to one line of an indented block: remove three leading spaces if present -/
def dedent1 (l : Str) : Str := if (indent 1).isPrefixOf l then l.drop 3 else l

/-- the directive name each entry kind is rendered with -/
def Entry.dirName : Entry → Str
  | .module .. => lit "module"
  | .func .. | .generic .. | .ctest .. | .test .. => lit "function"
  | .var .. | .opt .. => lit "data"
  | .cls .. => lit "py:class"

/-- the strings of a method that end up on a single line: its name, its parameters, and the types that are paired
    with a parameter -/
def Method.OneLine (m : Method) : Prop :=
  '\n' ∉ m.name ∧ (∀ p ∈ m.params, '\n' ∉ p) ∧ (∀ ty ∈ m.paramTypes.take m.params.length, '\n' ∉ ty)

def Attr.OneLine (a : Attr) : Prop := '\n' ∉ a.name ∧ ∀ v, a.dflt = some v → '\n' ∉ v

/-- "argument values contain no line breaks", per entry kind.  Doc text is unconstrained everywhere (it is a
    paragraph), and so are a class's super-class names (the `Bases:` line is a paragraph too). -/
def Entry.OneLine : Entry → Prop
  | .module name _ => '\n' ∉ name
  | .func _ name _ params _ => '\n' ∉ name ∧ ∀ p ∈ params, '\n' ∉ p
  | .var name _ _ value => '\n' ∉ name ∧ ∀ v, value = some v → '\n' ∉ v
  | .opt name _ help dflt => '\n' ∉ name ∧ '\n' ∉ help ∧ ∀ v, dflt = some v → '\n' ∉ v
  | .generic name _ args => '\n' ∉ name ∧ ∀ a ∈ args, '\n' ∉ a
  | .ctest name _ params => '\n' ∉ name ∧ ∀ p ∈ params, '\n' ∉ p
  | .test _ name _ _ _ _ => '\n' ∉ name
  | .cls name _ _ inner ctors members attrs =>
      '\n' ∉ name ∧ (∀ i ∈ inner, '\n' ∉ i) ∧ (∀ m ∈ ctors, m.OneLine) ∧ (∀ m ∈ members, m.OneLine) ∧
      (∀ a ∈ attrs, a.OneLine)

/-- the entries `process_docs` renders: unnamed module entries get the path-derived name, and a path-named module
    entry is put in front iff there is no module entry -/
def renderedDocs (modName : Str) (docs : List Entry) : List Entry :=
  (if docs.any isModule then docs else .module modName [] :: docs).map (nameModule modName)

/-! ## Bookkeeping about the spec-side definitions -/

theorem C07_singleLineList_iff (es : List Elem) : SingleLineList es ↔ ∀ e ∈ es, SingleLine e := by
  induction es with
  | nil => simp [SingleLineList]
  | cons e es ih => simp [SingleLineList, ih]

theorem C07_singleLineList_append (es₁ es₂ : List Elem) :
    SingleLineList (es₁ ++ es₂) ↔ SingleLineList es₁ ∧ SingleLineList es₂ := by
  simp only [C07_singleLineList_iff, List.mem_append]
  constructor
  · intro h; exact ⟨fun e he => h e (Or.inl he), fun e he => h e (Or.inr he)⟩
  · rintro ⟨h₁, h₂⟩ e (he | he)
    · exact h₁ e he
    · exact h₂ e he

/-- moving tagged lines one level inwards and placing them at depth `d` is placing them at depth `d + 1` -/
theorem C07_place_shift (d : Nat) (ls : List (Bool × Str)) : (shiftT ls).map (place d) = ls.map (place (d + 1)) := by
  simp only [shiftT, List.map_map]
  apply List.map_congr_left
  rintro ⟨b, l⟩ _
  cases b <;> simp [place, indent_append_one]

/-- at depth 0 a tagged line is itself -/
theorem C07_place_zero (bl : Bool × Str) : place 0 bl = bl.2 := by
  simp [place, indent_zero]

mutual
/-- untagged lines are always empty: the only lines without the indentation prefix are the blank separator lines -/
theorem C07_tlines_untagged : (e : Elem) → ∀ bl ∈ e.tlines, bl.1 = false → bl.2 = []
  | .para t => by simp [Elem.tlines]
  | .field n t => by simp [Elem.tlines]
  | .list en items => by
    intro bl hbl hb
    simp only [Elem.tlines, List.cons_append, List.mem_cons, List.mem_append, List.mem_mapIdx, List.mem_nil_iff,
      or_false] at hbl
    rcases hbl with rfl | ⟨i, _, rfl⟩ | rfl
    · rfl
    · simp at hb
    · rfl
  | .directive name args opts body => by
    intro bl hbl hb
    simp only [Elem.tlines, List.cons_append, List.mem_cons, List.mem_append, List.mem_map, shiftT] at hbl
    rcases hbl with rfl | rfl | ⟨⟨nv, _, rfl⟩ | hbl⟩ | ⟨x, hx, rfl⟩
    · rfl
    · simp at hb
    · simp at hb
    · split at hbl
      · simp at hbl
      · simp only [List.mem_singleton] at hbl; subst hbl; rfl
    · have := C07_tlinesList_untagged body x hx
      simp only at hb
      simp [hb, this]
theorem C07_tlinesList_untagged : (es : List Elem) → ∀ bl ∈ tlinesList es, bl.1 = false → bl.2 = []
  | [] => by simp [tlinesList]
  | e :: es => by
    intro bl hbl hb
    simp only [tlinesList, List.mem_append] at hbl
    rcases hbl with h | h
    · exact C07_tlines_untagged e bl h hb
    · exact C07_tlinesList_untagged es bl h hb
end

/-! ## 1. The key theorem: rendering at depth `d` = the tagged lines with `indent d` in front of the tagged ones -/

mutual
theorem C07_render_tlines : (e : Elem) → (d : Nat) → SingleLine e → splitNl (e.render d) = e.tlines.map (place d)
  | .para t, d, _ => by
    simp only [Elem.render, renderPara_lines, Elem.tlines, List.map_map]
    apply List.map_congr_left; intro l _; simp [place]
  | .field n t, d, h => by
    simp only [SingleLine] at h
    have hi := indent_noNl d
    have : '\n' ∉ indent d ++ ':' :: (n ++ ':' :: ' ' :: t) := by simp_all
    simp only [Elem.render, renderField, Elem.tlines]
    rw [show ('\n' :: (indent d ++ ':' :: (n ++ ':' :: ' ' :: t))) =
        [] ++ '\n' :: (indent d ++ ':' :: (n ++ ':' :: ' ' :: t)) from rfl,
      splitNl_append_nl_gen, splitNl_of_noNl this]
    simp [place, splitNl]
  | .list en items, d, h => by
    simp only [SingleLine] at h
    simp only [Elem.render, renderList_lines d en items h, Elem.tlines]
    simp [place, itemMark, map_mapIdx']
  | .directive name args opts body, d, h => by
    simp only [SingleLine] at h
    obtain ⟨hn, ha, ho, hb⟩ := h
    have ih := C07_renderElems_tlines body (d + 1) hb
    have hH := dirHeadingLine_noNl (d := d) hn ha
    simp only [Elem.render, renderDirHeading, Elem.tlines]
    rw [show ∀ X : Str, ('\n' :: (indent d ++ lit ".. " ++ name ++ lit ":: " ++ joinWith [','] args) ++
          '\n' :: renderOpts (d + 1) opts ++ X ++ renderElems (d + 1) body)
        = [] ++ '\n' :: ((indent d ++ lit ".. " ++ name ++ lit ":: " ++ joinWith [','] args) ++
          '\n' :: (renderOpts (d + 1) opts ++ (X ++ renderElems (d + 1) body))) from by intro X; simp]
    rw [splitNl_append_nl_gen, splitNl_append_nl_gen, splitNl_of_noNl hH, renderOpts_split _ _ ho]
    cases body with
    | nil => simp [splitNl, place, tlinesList, shiftT, renderElems, indent_append_one]
    | cons b bs =>
      simp only [List.isEmpty_cons, Bool.false_eq_true, if_false]
      rw [show (['\n'] ++ renderElems (d + 1) (b :: bs)) = [] ++ '\n' :: renderElems (d + 1) (b :: bs) from rfl,
        splitNl_append_nl_gen, ih]
      simp [splitNl, place, C07_place_shift, indent_append_one]
/-- the same for a writer's element loop -/
theorem C07_renderElems_tlines : (es : List Elem) → (d : Nat) → SingleLineList es →
    splitNl (renderElems d es) = (tlinesList es).map (place d)
  | [], d, _ => by simp [renderElems, splitNl, tlinesList, place]
  | e :: es, d, h => by
    simp only [SingleLineList] at h
    simp only [renderElems, splitNl_append_nl_gen, C07_render_tlines e d h.1, C07_renderElems_tlines es d h.2,
      tlinesList, List.map_append]
end

/-! ## 2. Every line of an element rendered at depth `d` is blank or indented by `indent d` -/

theorem C07_elem_blocky (e : Elem) (d : Nat) (h : SingleLine e) : Blocky d (e.render d) := by
  intro l hl
  rw [C07_render_tlines e d h] at hl
  obtain ⟨⟨b, x⟩, hx, rfl⟩ := List.mem_map.1 hl
  cases b with
  | false => left; simpa [place] using C07_tlines_untagged e _ hx rfl
  | true => right; simp [place]

theorem C07_elems_blocky (es : List Elem) (d : Nat) (h : ∀ e ∈ es, SingleLine e) : Blocky d (renderElems d es) := by
  intro l hl
  rw [C07_renderElems_tlines es d ((C07_singleLineList_iff es).2 h)] at hl
  obtain ⟨⟨b, x⟩, hx, rfl⟩ := List.mem_map.1 hl
  cases b with
  | false => left; simpa [place] using C07_tlinesList_untagged es _ hx rfl
  | true => right; simp [place]

/-- the body of a directive rendered at depth `d` lies entirely in the region indented by `indent (d + 1)` -/
theorem C07_body_blocky (es : List Elem) (d : Nat) (h : ∀ e ∈ es, SingleLine e) :
    Blocky (d + 1) (renderElems (d + 1) es) := C07_elems_blocky es (d + 1) h

/-! ## 3. The block of one directive -/

/-- A directive at depth `d` is: a blank line; the heading line at column `3·d`; the option lines at column
    `3·(d+1)` immediately below; then, iff the body is non-empty, a blank line; then the body's lines, every one of
    which is blank or indented by `indent (d + 1)`.  Notes, warnings, fields, doc text and member directives are all
    in `body`, so they are rendered inside the indented region of their entry and nowhere else. -/
theorem C07_entry_block (d : Nat) (name : Str) (args : List Str) (opts : List (Str × Str)) (body : List Elem)
    (h : SingleLine (.directive name args opts body)) :
    splitNl ((Elem.directive name args opts body).render d) =
      [] :: (indent d ++ lit ".. " ++ name ++ lit ":: " ++ joinWith [','] args) ::
        (opts.map (fun nv => indent (d + 1) ++ ':' :: (nv.1 ++ ':' :: ' ' :: nv.2)) ++
         ((if body.isEmpty then [] else [[]]) ++ splitNl (renderElems (d + 1) body))) ∧
    Blocky (d + 1) (renderElems (d + 1) body) ∧
    (∀ l ∈ (if body.isEmpty then [] else [[]]) ++ splitNl (renderElems (d + 1) body),
      l = [] ∨ (indent (d + 1)).isPrefixOf l = true) := by
  have hb : SingleLineList body := by simp only [SingleLine] at h; exact h.2.2.2
  have hbl := C07_elems_blocky body (d + 1) ((C07_singleLineList_iff body).1 hb)
  refine ⟨?_, hbl, ?_⟩
  · rw [C07_render_tlines _ d h, C07_renderElems_tlines body (d + 1) hb]
    simp only [Elem.tlines, List.map_cons, List.map_append, List.map_map, C07_place_shift]
    cases body with
    | nil => simp [place, Function.comp_def, indent_append_one]
    | cons b bs => simp [place, Function.comp_def, indent_append_one]
  · intro l hl
    rcases List.mem_append.1 hl with hl | hl
    · split at hl
      · simp at hl
      · left; simpa using hl
    · exact hbl l hl

/-! ## 4. Dedenting a directive body yields the nested document -/

/-- Removing three columns from every line of a body rendered at depth `d + 1` gives exactly the lines of the
    same body rendered at depth `d` — for `d = 0`, what a directive parser hands to the nested parse is the
    rendering of the children as a top-level document body. -/
theorem C07_dedent_body (d : Nat) (body : List Elem) (h : ∀ e ∈ body, SingleLine e) :
    (splitNl (renderElems (d + 1) body)).map dedent1 = splitNl (renderElems d body) := by
  have hb := (C07_singleLineList_iff body).2 h
  rw [C07_renderElems_tlines body (d + 1) hb, C07_renderElems_tlines body d hb, List.map_map]
  apply List.map_congr_left
  rintro ⟨b, l⟩ hx
  cases b with
  | false =>
    have := C07_tlinesList_untagged body _ hx rfl
    simp only at this
    subst this
    simp [place, dedent1, indent]
  | true =>
    simp only [Function.comp, place, if_true, dedent1, indent_succ' d, List.append_assoc]
    have : (indent 1).isPrefixOf (indent 1 ++ (indent d ++ l)) = true := by simp
    rw [if_pos this]
    simp [indent]

/-- Conversely the deeper rendering is the shallower one with `indent 1` put in front of exactly the tagged lines
    (paragraph lines are prefixed even when empty, template blank lines never are). -/
theorem C07_indent_body (d : Nat) (body : List Elem) (h : ∀ e ∈ body, SingleLine e) :
    splitNl (renderElems (d + 1) body) = (shiftT (tlinesList body)).map (place d) ∧
    splitNl (renderElems d body) = (tlinesList body).map (place d) := by
  have hb := (C07_singleLineList_iff body).2 h
  exact ⟨by rw [C07_place_shift, C07_renderElems_tlines body (d + 1) hb], C07_renderElems_tlines body d hb⟩

/-! ## 5. The page: title frame, then the entries as top-level sibling directives -/

theorem C07_doc_order (hc title modName : Str) (docs : List Entry) :
    (processDocs hc title modName docs).render =
      renderHeading hc (titleOf title docs) ++ '\n' :: renderElems 0 ((renderedDocs modName docs).map Entry.toElem) := by
  simp [processDocs, Doc.render, renderedDocs]

/-- the inserted module entry is unchanged by the naming pass, so `renderedDocs` is "`docs` with unnamed module
    entries named `modName`, preceded by `.module modName []` iff `docs` has no module entry" -/
theorem C07_renderedDocs (modName : Str) (docs : List Entry) :
    renderedDocs modName docs =
      if docs.any isModule then docs.map (nameModule modName)
      else .module modName [] :: docs.map (nameModule modName) := by
  unfold renderedDocs
  split
  · rfl
  · simp only [List.map_cons, nameModule]; split <;> rfl

/-- every entry is rendered as one directive with exactly one argument and no options, named by its kind -/
theorem C07_entry_is_directive (e : Entry) :
    ∃ arg body, e.toElem = .directive e.dirName [arg] [] body := by
  cases e <;> exact ⟨_, _, rfl⟩

theorem C07_methodFields_single_line (doc : Str) (tys ps : List Str) (hp : ∀ p ∈ ps, '\n' ∉ p)
    (ht : ∀ ty ∈ tys.take ps.length, '\n' ∉ ty) : SingleLineList (methodFields doc tys ps) := by
  fun_induction methodFields doc tys ps with
  | case1 ty tys p ps ih =>
    have hp' : '\n' ∉ p := hp p (by simp)
    have ht' : '\n' ∉ ty := ht ty (by simp)
    have ih' := ih (fun q hq => hp q (List.mem_cons_of_mem _ hq))
      (fun t h => ht t (by simp only [List.length_cons, List.take_succ_cons]; exact List.mem_cons_of_mem _ h))
    have l1 : '\n' ∉ lit "param " ++ p := by simp [lit, hp']
    have l2 : '\n' ∉ lit "type " ++ p := by simp [lit, hp']
    rw [C07_singleLineList_append, C07_singleLineList_append]
    refine ⟨⟨?_, ?_⟩, ih'⟩
    · split <;> simp [SingleLineList, SingleLine, l1]
    · split <;> simp [SingleLineList, SingleLine, l2, ht']
  | case2 => simp [SingleLineList]

theorem C07_method_single_line (m : Method) (h : m.OneLine) : SingleLine m.toElem := by
  obtain ⟨hn, hp, ht⟩ := h
  have hj := joinWith_noNl (sep := [',', ' ']) (by decide) m.params hp
  have hf := C07_methodFields_single_line m.doc m.paramTypes m.params hp ht
  have hm := methodMacroNote_noNl
  simp only [Method.toElem, SingleLine, C07_singleLineList_append]
  refine ⟨by simp [lit], ?_, by simp, ⟨?_, by simp [SingleLineList, SingleLine]⟩, hf⟩
  · intro a ha
    simp only [List.mem_singleton] at ha
    subst ha
    split <;> simp_all [lit]
  · split <;> simp [SingleLineList, SingleLine, lit, hm]

theorem C07_attr_single_line (a : Attr) (h : a.OneLine) : SingleLine a.toElem := by
  obtain ⟨hn, hv⟩ := h
  simp only [Attr.toElem, SingleLine, SingleLineList]
  refine ⟨by simp [lit], by simpa using hn, ?_, trivial, trivial⟩
  cases hd : a.dflt with
  | none => simp
  | some v => simpa [lit] using hv v hd

theorem C07_section_single_line (title : Str) (xs : List Elem) (h : SingleLineList xs) :
    SingleLineList (section? title xs) := by
  unfold section?
  split
  · trivial
  · exact ⟨trivial, h⟩

/-- if the entry's single-line strings are free of line breaks, so is every single-line string of its element
    (doc text may be multi-line: it is a paragraph) -/
theorem C07_entry_single_line (e : Entry) (h : e.OneLine) : SingleLine e.toElem := by
  cases e with
  | module name doc =>
    simp only [Entry.OneLine] at h
    simp only [Entry.toElem, SingleLine]
    refine ⟨by simp [lit], by simpa using h, by simp, ?_⟩
    split <;> simp [SingleLineList, SingleLine]
  | func isMacro name doc params kwargs =>
    simp only [Entry.OneLine] at h
    have hs : '\n' ∉ signature name (params ++ (if kwargs then [lit "**kwargs"] else [])) := by
      apply signature_noNl h.1
      intro p hp
      rcases List.mem_append.1 hp with hp | hp
      · exact h.2 p hp
      · split at hp
        · simp only [List.mem_singleton] at hp; subst hp; simp [lit]
        · simp at hp
    have := macroNote_noNl
    simp only [Entry.toElem, SingleLine, C07_singleLineList_append]
    refine ⟨by simp [lit], by simpa using hs, by simp, ?_, by simp [SingleLineList, SingleLine]⟩
    split <;> simp [SingleLineList, SingleLine, lit, this]
  | var name doc ty value =>
    simp only [Entry.OneLine] at h
    have hv : '\n' ∉ value.getD (lit "None") := by
      cases value with
      | none => simp [lit]
      | some v => simpa using h.2 v rfl
    simp only [Entry.toElem, SingleLine, SingleLineList]
    refine ⟨by simp [lit], by simpa using h.1, by simp, trivial, ⟨by simp [lit], hv⟩, ⟨by simp [lit], ?_⟩, trivial⟩
    cases ty <;> simp [lit]
  | opt name doc help dflt =>
    simp only [Entry.OneLine] at h
    have hv : '\n' ∉ dflt.getD (lit "OFF") := by
      cases dflt with
      | none => simp [lit]
      | some v => simpa using h.2.2 v rfl
    simp only [Entry.toElem, SingleLine, SingleLineList]
    exact ⟨by simp [lit], by simpa using h.1, by simp, ⟨by simp [lit], by simp, by simp, trivial, trivial⟩, trivial,
      ⟨by simp [lit], h.2.1⟩, ⟨by simp [lit], hv⟩, ⟨by simp [lit], by simp [lit]⟩, trivial⟩
  | generic name doc args =>
    simp only [Entry.OneLine] at h
    have hs := signature_noNl h.1 h.2
    have := genericWarning_noNl
    simp only [Entry.toElem, SingleLine, SingleLineList]
    exact ⟨by simp [lit], by simpa using hs, by simp, ⟨by simp [lit], by simpa using this, by simp, trivial⟩, trivial,
      trivial⟩
  | ctest name doc params =>
    simp only [Entry.OneLine] at h
    have hs := signature_noNl h.1 h.2
    have := ctestWarning_noNl
    simp only [Entry.toElem, SingleLine, SingleLineList]
    exact ⟨by simp [lit], by simpa using hs, by simp, ⟨by simp [lit], by simpa using this, by simp, trivial⟩, trivial,
      trivial⟩
  | test isSection name doc expectFail params isMacro =>
    simp only [Entry.OneLine] at h
    have hs : '\n' ∉ signature name [if expectFail then lit "EXPECTFAIL" else []] := by
      apply signature_noNl h
      intro p hp
      simp only [List.mem_singleton] at hp
      subst hp
      split <;> simp [lit]
    have h1 := sectionWarning_noNl
    have h2 := testWarning_noNl
    simp only [Entry.toElem, SingleLine, SingleLineList]
    refine ⟨by simp [lit], by simpa using hs, by simp, ⟨by simp [lit], ?_, by simp, trivial⟩, trivial, trivial⟩
    intro a ha
    simp only [List.mem_singleton] at ha
    subst ha
    split
    · exact h1
    · exact h2
  | cls name doc supers inner ctors members attrs =>
    simp only [Entry.OneLine] at h
    obtain ⟨hn, hi, hc, hm, ha⟩ := h
    simp only [Entry.toElem, SingleLine, C07_singleLineList_append]
    refine ⟨by simp [lit], by simpa using hn, by simp, ⟨⟨⟨⟨⟨?_, by simp [SingleLineList, SingleLine]⟩, ?_⟩, ?_⟩, ?_⟩, ?_⟩⟩
    · split <;> simp [SingleLineList, SingleLine]
    · apply C07_section_single_line
      rw [C07_singleLineList_iff]
      intro e he
      obtain ⟨m, hmm, rfl⟩ := List.mem_map.1 he
      exact C07_method_single_line m (hc m hmm)
    · apply C07_section_single_line
      rw [C07_singleLineList_iff]
      intro e he
      obtain ⟨m, hmm, rfl⟩ := List.mem_map.1 he
      exact C07_method_single_line m (hm m hmm)
    · apply C07_section_single_line
      rw [C07_singleLineList_iff]
      intro e he
      obtain ⟨a, haa, rfl⟩ := List.mem_map.1 he
      exact C07_attr_single_line a (ha a haa)
    · split
      · trivial
      · simp only [SingleLineList, SingleLine, and_true, true_and]
        intro it hit
        obtain ⟨i, hii, rfl⟩ := List.mem_map.1 hit
        have := hi i hii
        simp [interpreted, lit, this]

/-- the naming pass keeps entries single-line when the path-derived module name is -/
theorem C07_nameModule_one_line (modName : Str) (hm : '\n' ∉ modName) (e : Entry) (h : e.OneLine) :
    (nameModule modName e).OneLine := by
  cases e with
  | module n d =>
    simp only [nameModule]
    split
    · exact hm
    · exact h
  | _ => exact h

/-- all rendered entries are single-line when the documented ones and the path-derived module name are -/
theorem C07_renderedDocs_single_line (modName : Str) (hm : '\n' ∉ modName) (docs : List Entry)
    (h : ∀ e ∈ docs, e.OneLine) : ∀ x ∈ (renderedDocs modName docs).map Entry.toElem, SingleLine x := by
  intro x hx
  obtain ⟨e, he, rfl⟩ := List.mem_map.1 hx
  apply C07_entry_single_line
  simp only [renderedDocs, List.mem_map] at he
  obtain ⟨e', he', rfl⟩ := he
  apply C07_nameModule_one_line modName hm
  split at he'
  · exact h e' he'
  · rcases List.mem_cons.1 he' with rfl | he'
    · exact hm
    · exact h e' he'

/-- The whole page in the line view: the title frame, then — at column 0 — the blocks of the entries in order.
    Every line of the body is blank or belongs to exactly one entry's block (`tlinesList` is the concatenation of
    the entries' `tlines`), and within a block everything but the heading line is blank or indented by three
    columns or more (`C07_entry_block`). -/
theorem C07_page_lines (hc title modName : Str) (docs : List Entry) (hm : '\n' ∉ modName)
    (h : ∀ e ∈ docs, e.OneLine) :
    splitNl (processDocs hc title modName docs).render =
      splitNl (renderHeading hc (titleOf title docs)) ++
        (tlinesList ((renderedDocs modName docs).map Entry.toElem)).map (·.2) := by
  rw [C07_doc_order, splitNl_append_nl_gen,
    C07_renderElems_tlines _ 0 ((C07_singleLineList_iff _).2 (C07_renderedDocs_single_line modName hm docs h))]
  congr 1
  apply List.map_congr_left
  intro bl _
  exact C07_place_zero bl

/-- One entry on the page (depth 0): a blank line, its heading line `.. kind:: argument` at column 0, a blank line
    iff it has content, and then its content — notes, warnings, fields, doc text, class members — every line of
    which is blank or indented by three columns or more. -/
theorem C07_entry_lines (e : Entry) (h : e.OneLine) :
    ∃ arg body, e.toElem = .directive e.dirName [arg] [] body ∧
      splitNl (e.toElem.render 0) =
        [] :: (lit ".. " ++ e.dirName ++ lit ":: " ++ arg) ::
          ((if body.isEmpty then [] else [[]]) ++ splitNl (renderElems 1 body)) ∧
      Blocky 1 (renderElems 1 body) := by
  obtain ⟨arg, body, he⟩ := C07_entry_is_directive e
  have hs := C07_entry_single_line e h
  rw [he] at hs
  obtain ⟨h1, h2, _⟩ := C07_entry_block 0 e.dirName [arg] [] body hs
  refine ⟨arg, body, he, ?_, h2⟩
  rw [he, h1]
  simp [indent_zero, joinWith]

/-! ## Non-vacuity: concrete entries -/

section Examples

/-- a class with a super class, a constructor, a member (macro, typed parameters), an attribute with a value and an
    inner class; multi-line doc texts -/
def exClass : Entry :=
  .cls ['C'] (lit "A class.\n\nSecond paragraph.") [['B']] [['I']]
    [{ name := lit "CTOR", doc := lit "ctor", parentClass := ['C'], paramTypes := [lit "int"], params := [lit "x"],
       isCtor := true, isMacro := false }]
    [{ name := lit "m", doc := lit "does m\n:param y: given", parentClass := ['C'],
       paramTypes := [lit "str", lit "args"], params := [lit "y"], isCtor := false, isMacro := true }]
    [{ name := lit "a", doc := lit "attr doc", parentClass := ['C'], dflt := some (lit "7") }]

def exVar : Entry := .var (lit "V") (lit "line 1\n   indented\n\nline 4") .string (some (lit "a;b"))

def exFunc : Entry := .func true (lit "f") (lit "doc\n\n:param a: x") [lit "a", lit "b"] true

theorem C07_exClass_oneLine : exClass.OneLine := by
  simp only [exClass, Entry.OneLine, Method.OneLine, Attr.OneLine, lit, String.reduceToList]
  decide

theorem C07_exVar_oneLine : exVar.OneLine := by
  simp only [exVar, Entry.OneLine, lit, String.reduceToList]
  decide

theorem C07_exFunc_oneLine : exFunc.OneLine := by
  simp only [exFunc, Entry.OneLine, lit, String.reduceToList]
  decide

example : SingleLine exClass.toElem := C07_entry_single_line _ C07_exClass_oneLine
example (d : Nat) : splitNl (exClass.toElem.render d) = exClass.toElem.tlines.map (place d) :=
  C07_render_tlines _ d (C07_entry_single_line _ C07_exClass_oneLine)
example (d : Nat) : Blocky d (exClass.toElem.render d) := C07_elem_blocky _ d (C07_entry_single_line _ C07_exClass_oneLine)
example (d : Nat) : splitNl (exVar.toElem.render d) = exVar.toElem.tlines.map (place d) :=
  C07_render_tlines _ d (C07_entry_single_line _ C07_exVar_oneLine)
example : splitNl (processDocs ['#'] (lit "t") (lit "m") [exClass, exVar, exFunc]).render =
    splitNl (renderHeading ['#'] (lit "t")) ++
      (tlinesList ((renderedDocs (lit "m") [exClass, exVar, exFunc]).map Entry.toElem)).map (·.2) :=
  C07_page_lines _ _ _ _ (by simp [lit]) (by
    intro e he
    simp only [List.mem_cons, List.mem_nil_iff, or_false] at he
    rcases he with rfl | rfl | rfl
    · exact C07_exClass_oneLine
    · exact C07_exVar_oneLine
    · exact C07_exFunc_oneLine)

example : ∃ arg body, exClass.toElem = .directive (lit "py:class") [arg] [] body ∧
    splitNl (exClass.toElem.render 0) =
      [] :: (lit ".. " ++ lit "py:class" ++ lit ":: " ++ arg) ::
        ((if body.isEmpty then [] else [[]]) ++ splitNl (renderElems 1 body)) ∧
    Blocky 1 (renderElems 1 body) := C07_entry_lines exClass C07_exClass_oneLine

/-- the attribute directive of `exClass` (an option line `:value: 7`, then its doc) as a block at depth 1 -/
example : splitNl ((Attr.toElem { name := lit "a", doc := lit "attr doc", parentClass := ['C'], dflt := some (lit "7") }).render 1)
    = [[], lit "   .. py:attribute:: a", lit "      :value: 7", [], lit "      attr doc", []] := by
  have h : SingleLine (Attr.toElem { name := lit "a", doc := lit "attr doc", parentClass := ['C'], dflt := some (lit "7") }) :=
    C07_attr_single_line _ (by simp only [Attr.OneLine, lit, String.reduceToList]; decide)
  rw [C07_render_tlines _ 1 h]
  simp only [lit, String.reduceToList]
  decide

/-- dedenting the body of `exClass` (rendered inside the class directive, depth 1) gives the body as a top-level document -/
example (body : List Elem) (hb : exClass.toElem = .directive (lit "py:class") [['C']] [] body) :
    (splitNl (renderElems 1 body)).map dedent1 = splitNl (renderElems 0 body) := by
  apply C07_dedent_body 0 body
  have h := C07_entry_single_line _ C07_exClass_oneLine
  rw [hb] at h
  simp only [SingleLine] at h
  exact (C07_singleLineList_iff body).1 h.2.2.2

/-- Why there is no plain "indent homomorphism" (`render (d+1)` = `render d` with three spaces in front of every
    non-empty line): an empty line *inside a paragraph* is produced through `get_indents` and does get the
    prefix, while the templates' separator lines do not.  Hence the tagged formulation above. -/
example : splitNl ((Elem.para (lit "a\n\nb")).render 1) ≠
    (splitNl ((Elem.para (lit "a\n\nb")).render 0)).map (fun l => if l = [] then l else indent 1 ++ l) := by
  simp only [lit, String.reduceToList]; decide

/-- an item or argument with a line break breaks the block structure: the hypothesis of `C07_elem_blocky` is needed -/
example : ¬ Blocky 1 ((Elem.field ['n'] ['a', '\n', 'b']).render 1) := by
  intro h
  have := h ['b'] (by simp [Elem.render, renderField, splitNl, indent])
  simp [indent] at this

end Examples

end Cminx
