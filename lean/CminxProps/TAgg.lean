import CminxLemmas.AggLemmas5
/-!
# T-agg — the flat listener state machine computes the structural specification

`aggregate` (`CminxModel/Agg.lean`, the model of `DocumentationAggregator`) run over the event list of a
well-formed nested module (`Source.lean: Module.events`) ends without an exception, with empty stacks, nothing
awaiting a definition, no logged parameter errors, and with `documented` equal to the list read off the nested
module by structural recursion (`Spec.lean: Module.entries`).

The hypothesis `hk1` keeps the theorem outside defect K1 (a *documented* `cpp_class` with
`include_undocumented_cpp_class = false` pushes the class stack twice); `T_agg_K1_counterexample` shows the
hypothesis cannot be dropped.

The proof is by mutual structural induction on items / item lists (`itemOK_all` / `itemsOK_all` in
`CminxLemmas/AggLemmas5.lean`) over the generalised invariant `ItemsOK`: from every state whose stack indices
are in range and whose awaiting slot is empty, the events of `items` lead to `post st kw c`, i.e. the old
entries with the deferred mutations applied (`has_kwargs` of the definition on top of the definition stack,
members of the class on top of the class stack) followed by the new top-level entries.
-/
namespace Cminx

theorem Inv.init : Inv ({} : AggState) := ⟨rfl, by simp, by simp⟩

theorem T_agg_items (cfg : Cfg) (items : List Item)
    (hwf : itemsWf false items = true)
    (hk1 : cfg.inclCppClass = true ∨ itemsHaveDocumentedClass items = false) :
    (itemsEvents items).foldlM (step cfg) ({} : AggState) =
      .ok { documented := (itemsSpec cfg .none items).top, classStack := [], awaiting := none, defStack := [],
            errors := 0 } := by
  rw [itemsOK_all cfg items false {} Inv.init hwf (by simp) hk1]
  simp [post, absorb, ctxOf]

theorem T_agg (cfg : Cfg) (m : Module)
    (hwf : itemsWf false m.items = true)
    (hk1 : cfg.inclCppClass = true ∨ itemsHaveDocumentedClass m.items = false) :
    ∃ st, aggregate cfg m.events = .ok st ∧ st.documented = m.entries cfg ∧ st.errors = 0 ∧
      st.classStack = [] ∧ st.defStack = [] ∧ st.awaiting = none := by
  unfold aggregate Module.events Module.entries
  cases hm : m.modDoc with
  | none =>
    simp only [List.nil_append]
    rw [T_agg_items cfg m.items hwf hk1]
    exact ⟨_, rfl, rfl, rfl, rfl, rfl, rfl⟩
  | some d =>
    simp only [List.singleton_append, List.foldlM_cons, step]
    have hinv : Inv (({} : AggState).push (.module (moduleNameDoc d.tokenText).1 (moduleNameDoc d.tokenText).2)) :=
      ⟨rfl, by simp [AggState.push], by simp [AggState.push]⟩
    simp only [except_pure_eq, except_ok_bind]
    rw [itemsOK_all cfg m.items false _ hinv hwf (by simp) hk1]
    refine ⟨_, rfl, ?_, rfl, rfl, rfl, rfl⟩
    simp [post, absorb, AggState.push, ctxOf]

/-! ## K1: the hypothesis `hk1` is needed -/

/-- a command `name(arg …)` with bare arguments, on its own line -/
def mkCall (name : String) (args : List String) : Call :=
  { pre := [.nl false], name := name.toList, sp := 0,
    args := args.map (fun a => SArg.tok [.spaces 1] (.bare a.toList)), close := [] }

/-- a doccomment with `# `-led body lines -/
def mkDoc (openSuffix : String) (lines : List String) : DocC :=
  { pre := [.nl false], ind := [], openSuffix := openSuffix.toList, lines := lines.map String.toList,
    leader := true, crlf := false }

def k1Cfg : Cfg := { inclCppClass := false }

/-- four commands: a documented class with a documented and an undocumented attribute -/
def k1Module : Module :=
  { bom := false, modDoc := none, tail := [.nl false],
    items := [
      .block (some (mkDoc "" ["A class."])) (mkCall "cpp_class" ["MyClass"])
        [ .cmd (some (mkDoc "" ["An attribute."])) (mkCall "cpp_attr" ["MyClass", "color", "red"]),
          .cmd none (mkCall "cpp_attr" ["MyClass", "size"]) ]
        (mkCall "cpp_end_class" []) ] }

/-- Defect K1: with `include_undocumented_cpp_class = false`, a documented class pushes the class stack twice;
    its members are dropped and a class frame is left behind.  The module is well formed, so `T_agg` without
    `hk1` would be false. -/
theorem T_agg_K1_counterexample :
    itemsWf false k1Module.items = true ∧ k1Cfg.inclCppClass = false ∧
    itemsHaveDocumentedClass k1Module.items = true ∧
    ∃ st, aggregate k1Cfg k1Module.events = .ok st ∧ st.documented ≠ k1Module.entries k1Cfg ∧
      st.documented.length = (k1Module.entries k1Cfg).length ∧ st.classStack = [some 0] :=
  ⟨by decide, rfl, by decide, _, rfl, by decide, by decide, by decide⟩

/-! ## non-vacuity: `T_agg` on a concrete module -/

def exModule : Module :=
  { bom := false, modDoc := some (mkDoc " @module mymod" ["Module text."]), tail := [.nl false],
    items := [
      .block (some (mkDoc "" ["A function.", ":param a: first"])) (mkCall "function" ["my_fn", "a"])
        [ .block none (mkCall "if" ["a"])
            [ .cmd none (mkCall "cmake_parse_arguments" ["ARG", "OPTS", "ONE", "MULTI", "${ARGN}"]) ]
            (mkCall "endif" []) ]
        (mkCall "endfunction" []),
      .block (some (mkDoc "" ["A class."])) (mkCall "CPP_CLASS" ["MyClass", "Base"])
        [ .decl (some (mkDoc "" ["A member."])) (mkCall "cpp_member" ["go", "MyClass", "int"])
            (mkCall "macro" ["_go", "self", "n"]) [] (mkCall "endmacro" []) ]
        (mkCall "cpp_end_class" []),
      .decl (some (mkDoc "" ["A test."])) (mkCall "ct_add_test" ["NAME", "t1"]) (mkCall "function" ["${t1}"])
        [ .decl none (mkCall "ct_add_section" ["NAME", "s1", "EXPECTFAIL"]) (mkCall "function" ["${s1}"])
            [] (mkCall "endfunction" []) ]
        (mkCall "endfunction" []),
      .cmd (some (mkDoc "" ["A list."])) (mkCall "set" ["X", "1", "2"]),
      .cmd (some (mkDoc "" ["A call."])) (mkCall "message" ["hello"]) ] }

example : ∃ st, aggregate {} exModule.events = .ok st ∧ st.documented = exModule.entries {} ∧ st.errors = 0 ∧
    st.classStack = [] ∧ st.defStack = [] ∧ st.awaiting = none :=
  T_agg {} exModule (by decide) (Or.inl rfl)

/-- the specification of the example is not trivial: module, function (with `**kwargs` from the nested
    `cmake_parse_arguments`), class (with the member completed by its macro), test, section, variable, generic -/
example : (exModule.entries {}).length = 7 := by decide

example : (match (exModule.entries {})[1]? with | some (Entry.func _ _ _ _ kw) => kw | _ => false) = true := by decide

example : (match (exModule.entries {})[2]? with
    | some (Entry.cls _ _ _ _ _ [m] _) => m.isMacro && m.params == [lit "n"] | _ => false) = true := by decide

end Cminx
