import CminxLemmas.SpecLemmas
/-!
# C10 — variable and option entries state type, default and help correctly

Read off the structural specification (`Item.spec`, `CminxModel/Spec.lean`), which `T_agg` (`CminxProps/TAgg.lean`)
proves to be what the listener state machine computes; the rendering half is read off `Entry.toElem`
(`CminxModel/DocTypes.lean`, the model of `VariableDocumentation.process` / `OptionDocumentation.process`).

`call.singles` is the list of the command's direct single arguments, each as its token text (what
`getText()` returns): a quoted argument `"…"` carries its quotes, a bracket argument its brackets.
-/
namespace Cminx

namespace C10

/-- type and default value of a `set()` by the values following the variable name -/
def varOf : List Str → VarType × Option Str
  | [] => (.unset, none)
  | [v] => (.string, some (unquote v))
  | vs => (.list, some (joinWith [' '] vs))

end C10

open C10

/-! ## `set()` -/

/-- A documented `set(name v…)` — in any class context, under any configuration — contributes exactly one
variable entry: named after the first argument, carrying the cleaned doccomment, typed by the number of values. -/
theorem C10_set (cfg : Cfg) (ctx : ClsCtx) (d : DocC) (call : Call) (name : Str) (vals : List Str)
    (hn : call.lname = lit "set") (hs : call.singles = name :: vals) :
    (Item.cmd (some d) call).spec cfg ctx =
      { top := [.var name (cleanDoc d.tokenText) (varOf vals).1 (varOf vals).2] } := by
  match vals, hs with
  | [], hs => simp [Item.spec, hn, hs, varOf, docTextOf]
  | [v], hs => simp [Item.spec, hn, hs, varOf, docTextOf]
  | v :: w :: vs, hs => simp [Item.spec, hn, hs, varOf, docTextOf]

/-- no value: type `UNSET`, no default -/
theorem C10_set_unset (cfg : Cfg) (ctx : ClsCtx) (d : DocC) (call : Call) (name : Str)
    (hn : call.lname = lit "set") (hs : call.singles = [name]) :
    (Item.cmd (some d) call).spec cfg ctx = { top := [.var name (cleanDoc d.tokenText) .unset none] } :=
  C10_set cfg ctx d call name [] hn hs

/-- one value: type `str`, default = the value without a surrounding pair of double quotes -/
theorem C10_set_string (cfg : Cfg) (ctx : ClsCtx) (d : DocC) (call : Call) (name v : Str)
    (hn : call.lname = lit "set") (hs : call.singles = [name, v]) :
    (Item.cmd (some d) call).spec cfg ctx =
      { top := [.var name (cleanDoc d.tokenText) .string (some (unquote v))] } :=
  C10_set cfg ctx d call name [v] hn hs

/-- several values: type `list`, default = the value texts as written joined by single spaces, in order -/
theorem C10_set_list (cfg : Cfg) (ctx : ClsCtx) (d : DocC) (call : Call) (name v w : Str) (vs : List Str)
    (hn : call.lname = lit "set") (hs : call.singles = name :: v :: w :: vs) :
    (Item.cmd (some d) call).spec cfg ctx =
      { top := [.var name (cleanDoc d.tokenText) .list (some (joinWith [' '] (v :: w :: vs)))] } :=
  C10_set cfg ctx d call name (v :: w :: vs) hn hs

/-- a `set()` without a doccomment never yields an entry (there is no `include_undocumented_set`) -/
theorem C10_set_undocumented (cfg : Cfg) (ctx : ClsCtx) (call : Call) (hn : call.lname = lit "set") :
    (Item.cmd none call).spec cfg ctx = {} := by
  simp [Item.spec, hn]

/-! ### the quote stripping, for every argument form -/

/-- a quoted argument `"s"` loses exactly its surrounding quotes — for every `s`, including the empty string
and contents with embedded `\"` -/
theorem C10_unquote_quoted (s : Str) : unquote (ArgTok.quoted s).text = s := unquote_quoted s

/-- a token that does not start with `"` (every identifier, variable reference and lexically valid unquoted
argument) is kept as written, even if it ends in `"` (`a\"`) -/
theorem C10_unquote_bare (t : Str) (h : t.head? ≠ some '"') : unquote t = t := unquote_of_head_ne t h

/-- a token that does not end with `"` is kept as written -/
theorem C10_unquote_bare_last (t : Str) (h : t.getLast? ≠ some '"') : unquote t = t := unquote_of_last_ne t h

/-- bracket arguments are kept as written (brackets included) -/
theorem C10_unquote_bracket (lvl : Nat) (s : Str) :
    unquote (ArgTok.bracket lvl s).text = (ArgTok.bracket lvl s).text := by
  apply unquote_of_head_ne
  simp [ArgTok.text, bracketOpen]

/-- end to end for `set(name "s")` written with tokens: the default is `s` itself -/
theorem C10_set_quoted_value (cfg : Cfg) (ctx : ClsCtx) (d : DocC) (call : Call) (p0 p1 : Sep) (nameTok : ArgTok)
    (s : Str) (hn : call.lname = lit "set") (ha : call.args = [.tok p0 nameTok, .tok p1 (.quoted s)]) :
    (Item.cmd (some d) call).spec cfg ctx =
      { top := [.var nameTok.text (cleanDoc d.tokenText) .string (some s)] } := by
  have hs : call.singles = [nameTok.text, (ArgTok.quoted s).text] := by
    rw [Call.singles_toks call [(p0, nameTok), (p1, .quoted s)] (by simp [ha])]; rfl
  rw [C10_set_string cfg ctx d call _ _ hn hs, C10_unquote_quoted]

/-- end to end for `set(name v₁ v₂ …)` written with tokens of any form: the default is the token texts as
written (quotes and brackets included), in order, separated by single spaces whatever the source layout -/
theorem C10_set_list_tokens (cfg : Cfg) (ctx : ClsCtx) (d : DocC) (call : Call) (nameTok : Sep × ArgTok)
    (v w : Sep × ArgTok) (vs : List (Sep × ArgTok)) (hn : call.lname = lit "set")
    (ha : call.args = (nameTok :: v :: w :: vs).map (fun p => SArg.tok p.1 p.2)) :
    (Item.cmd (some d) call).spec cfg ctx =
      { top := [.var nameTok.2.text (cleanDoc d.tokenText) .list
          (some (joinWith [' '] ((v :: w :: vs).map (fun p => p.2.text))))] } := by
  have hs := Call.singles_toks call _ ha
  simp only [List.map_cons] at hs
  rw [C10_set_list cfg ctx d call _ _ _ _ hn hs]
  simp

/-! ## `option()` -/

/-- An `option(name help [default])` that is documented, or undocumented with `include_undocumented_option` on,
contributes exactly one option entry with the name, the help text and the default if one is written. -/
theorem C10_option (cfg : Cfg) (ctx : ClsCtx) (doc : Option DocC) (call : Call) (name help : Str)
    (dflt : Option Str) (hn : call.lname = lit "option") (hincl : doc.isSome = true ∨ cfg.inclOption = true)
    (hs : call.singles = name :: help :: dflt.toList) :
    (Item.cmd doc call).spec cfg ctx = { top := [.opt name (docTextOf doc) help dflt] } := by
  have hne : lit "option" ≠ lit "set" := by decide
  have hc : (doc.isSome || cfg.inclOption) = true := by simpa using hincl
  cases dflt <;> simp [Item.spec, hn, hs, hne, hc]

/-- under the default configuration every `option()` has an entry -/
theorem C10_option_default (ctx : ClsCtx) (doc : Option DocC) (call : Call) (name help : Str)
    (dflt : Option Str) (hn : call.lname = lit "option") (hs : call.singles = name :: help :: dflt.toList) :
    (Item.cmd doc call).spec {} ctx = { top := [.opt name (docTextOf doc) help dflt] } :=
  C10_option {} ctx doc call name help dflt hn (Or.inr rfl) hs

/-! ## rendering -/

/-- A variable entry is a `.. data:: name` directive holding the doc paragraph, then the field
`Default value` (the value; `None` for an unset variable), then the field `type`. -/
theorem C10_render_var (name doc : Str) (ty : VarType) (value : Option Str) :
    (Entry.var name doc ty value).toElem =
      .directive (lit "data") [name] []
        [.para doc,
         .field (lit "Default value") (match value with | some v => v | none => lit "None"),
         .field (lit "type") (match ty with | .string => lit "str" | .list => lit "list" | .unset => lit "UNSET")] := by
  cases value <;> rfl

/-- the three shapes a documented `set()` produces -/
theorem C10_render_set (name doc : Str) (vals : List Str) :
    (Entry.var name doc (varOf vals).1 (varOf vals).2).toElem =
      .directive (lit "data") [name] []
        [.para doc,
         .field (lit "Default value")
           (match vals with | [] => lit "None" | [v] => unquote v | vs => joinWith [' '] vs),
         .field (lit "type") (match vals with | [] => lit "UNSET" | [_] => lit "str" | _ => lit "list")] := by
  match vals with
  | [] => rfl
  | [v] => rfl
  | v :: w :: vs => rfl

/-- An option entry is a `.. data:: name` directive holding the note that marks it as a user-editable cache
option, the doc paragraph, then the fields `Help text`, `Default value` (`OFF` when no default is written) and
`type` = `bool`, in this order. -/
theorem C10_render_opt (name doc help : Str) (dflt : Option Str) :
    (Entry.opt name doc help dflt).toElem =
      .directive (lit "data") [name] []
        [.directive (lit "note") [] [] [.para optionNote], .para doc, .field (lit "Help text") help,
         .field (lit "Default value") (match dflt with | some v => v | none => lit "OFF"),
         .field (lit "type") (lit "bool")] := by
  cases dflt <;> rfl

/-! ## non-vacuity -/

/-- `set(MY_VAR "a \"b\"")` with a doccomment, written with a quoted argument -/
def exSetQuoted : Item :=
  .cmd (some (mkDoc "" ["A variable."]))
    { pre := [.nl false], name := lit "SET", sp := 0, close := [],
      args := [.tok [] (.bare (lit "MY_VAR")), .tok [.spaces 2] (.quoted (lit "a \\\"b\\\""))] }

example : exSetQuoted.spec {} .none =
    { top := [.var (lit "MY_VAR") (cleanDoc (mkDoc "" ["A variable."]).tokenText) .string (some (lit "a \\\"b\\\""))] } :=
  C10_set_quoted_value {} .none _ _ [] [.spaces 2] (.bare (lit "MY_VAR")) _ (by decide) rfl

/-- `set(L a "b c" [[d]])`: three values of three forms -/
def exSetList : Item :=
  .cmd (some (mkDoc "" ["A list."]))
    { pre := [.nl false], name := lit "set", sp := 1, close := [.spaces 1],
      args := [.tok [] (.bare (lit "L")), .tok [.nl false, .tabs 1] (.bare (lit "a")),
               .tok [.spaces 3] (.quoted (lit "b c")), .tok [.spaces 1] (.bracket 0 (lit "d"))] }

example : ∃ doc, exSetList.spec {} .shown =
    { top := [.var (lit "L") doc .list (some (lit "a \"b c\" [[d]]"))] } :=
  ⟨_, C10_set_list_tokens {} .shown _ _ ([], .bare (lit "L")) ([.nl false, .tabs 1], .bare (lit "a"))
    ([.spaces 3], .quoted (lit "b c")) [([.spaces 1], .bracket 0 (lit "d"))] (by decide) rfl⟩

example : unquote (ArgTok.quoted []).text = [] := C10_unquote_quoted []
example : unquote (lit "a\\\"") = lit "a\\\"" := C10_unquote_bare _ (by decide)
example : unquote (lit "\"") = lit "\"" := by decide

/-- an undocumented `option(FLAG "help")` and a documented `OPTION(FLAG "help" ON)` -/
example : (Item.cmd none (mkCall "option" ["FLAG", "\"help\""])).spec {} .none =
    { top := [.opt (lit "FLAG") [] (lit "\"help\"") none] } :=
  C10_option_default .none none _ _ _ none (by decide) (by decide)

example : (Item.cmd (some (mkDoc "" ["An option."])) (mkCall "OPTION" ["FLAG", "\"help\"", "ON"])).spec
      { inclOption := false } .none =
    { top := [.opt (lit "FLAG") (docTextOf (some (mkDoc "" ["An option."]))) (lit "\"help\"") (some (lit "ON"))] } :=
  C10_option _ .none _ _ _ _ (some (lit "ON")) (by decide) (Or.inl rfl) (by decide)

end Cminx
