import CminxLemmas.SpecLemmas
/-!
# C08 — `include_undocumented_*` options only affect commands without a doccomment

Read off the structural specification (`Item.spec`, `itemsSpec`, `CminxModel/Spec.lean`) for **every**
configuration `cfg` (all 2^10 flag combinations, any trigger string and strip functions).

Definitions used (in `CminxLemmas/SpecLemmas.lean`, reproduced here):

* `Cfg.allOff cfg` / `Cfg.allOn cfg` — `cfg` with all ten `include_undocumented_*` flags `false` / `true`; trigger
  string and strip functions unchanged.  Under `allOff` exactly the doccomment-carrying commands have entries
  (`C08_allOff_documented_only`, `C08_documented_kept_cmd`), so `itemsSpec cfg.allOff` is "the entries that stem
  from doccomment-carrying commands".
* `Entry.embeds e e'` — `e = e'`, or both are class entries with the same name, doc and bases and the
  inner-class/constructor/method/attribute lists of `e` are `List.Sublist`s of those of `e'`.
* `TopEmbeds l l'` (inductive: `nil`, `skip e`, `keep (h : e.embeds e')`) — `l` arises from `l'` by deleting
  entries and shrinking class entries; order is preserved.
* `ContribEmbeds a b` — `TopEmbeds a.top b.top` and `Sublist` on `inner`, `ctors`, `members`, `attrs`.
* `asDefinition cfg impl body` — the contribution of a member/test implementation whose declaration has no entry:
  an ordinary undocumented definition subject to the function/macro flag (`C08_asDefinition`).

The listener state machine deviates from the specification in the K1 region (a *documented* `cpp_class` with
`include_undocumented_cpp_class = false`, see `T_agg_K1_counterexample` in `CminxProps/TAgg.lean`), so the
transport theorem is `C08_machine_partial`; `C08_K1_counterexample` shows that the guard is needed.
-/
namespace Cminx

/-! ## no flag combination removes or alters the entry of a doccomment-carrying command -/

/-- **Main theorem.**  For every configuration, every item list and every pair of class contexts with
`ctx₁ = .shown → ctx₂ = .shown`: what the doccomment-carrying commands contribute (`cfg.allOff`, context `ctx₁`)
embeds into what the list contributes under `cfg` in context `ctx₂` — every such top-level entry is present, in
order, identical except that a class entry may list additional (undocumented) members; the documented
members/constructors/attributes/inner classes handed to a shown enclosing class are handed to it under `cfg` too.
(The pairs `(.hidden, .shown)` and `(.none, _)` arise inside the induction: an undocumented class is hidden
under `allOff` and may be shown under `cfg`.) -/
theorem C08_documented_embed (cfg : Cfg) (items : List Item) (ctx₁ ctx₂ : ClsCtx)
    (hctx : ctx₁ = .shown → ctx₂ = .shown) :
    TopEmbeds (itemsSpec cfg.allOff ctx₁ items).top (itemsSpec cfg ctx₂ items).top ∧
    (itemsSpec cfg.allOff ctx₁ items).inner.Sublist (itemsSpec cfg ctx₂ items).inner ∧
    (itemsSpec cfg.allOff ctx₁ items).ctors.Sublist (itemsSpec cfg ctx₂ items).ctors ∧
    (itemsSpec cfg.allOff ctx₁ items).members.Sublist (itemsSpec cfg ctx₂ items).members ∧
    (itemsSpec cfg.allOff ctx₁ items).attrs.Sublist (itemsSpec cfg ctx₂ items).attrs :=
  let h := itemsSpec_embed cfg items ctx₁ ctx₂ hctx
  ⟨h.top, h.inner, h.ctors, h.members, h.attrs⟩

/-- the same context on both sides -/
theorem C08_documented_embed_ctx (cfg : Cfg) (items : List Item) (ctx : ClsCtx) :
    ContribEmbeds (itemsSpec cfg.allOff ctx items) (itemsSpec cfg ctx items) :=
  itemsSpec_embed cfg items ctx ctx (fun h => h)

/-- a single item -/
theorem C08_documented_embed_item (cfg : Cfg) (it : Item) (ctx₁ ctx₂ : ClsCtx) (hctx : ctx₁ = .shown → ctx₂ = .shown) :
    ContribEmbeds (it.spec cfg.allOff ctx₁) (it.spec cfg ctx₂) :=
  Item.spec_embed cfg it ctx₁ ctx₂ hctx

/-- …and the same entries embed into the output under the default flag values (all on): every entry of a
doccomment-carrying command present under `cfg` is the one present under default settings -/
theorem C08_documented_embed_default (cfg : Cfg) (items : List Item) (ctx : ClsCtx) :
    ContribEmbeds (itemsSpec cfg.allOff ctx items) (itemsSpec cfg ctx items) ∧
    ContribEmbeds (itemsSpec cfg.allOff ctx items) (itemsSpec cfg.allOn ctx items) :=
  ⟨C08_documented_embed_ctx cfg items ctx, by
    have := C08_documented_embed_ctx cfg.allOn items ctx
    rwa [Cfg.allOn_allOff] at this⟩

/-- whole modules: the module entry is unaffected by the flags -/
theorem C08_module_embed (cfg : Cfg) (m : Module) : TopEmbeds (m.entries cfg.allOff) (m.entries cfg) := by
  rw [Module.entries, Module.entries]
  exact TopEmbeds.append (TopEmbeds.refl _) (itemsSpec_embed cfg m.items .none .none (fun h => h)).top

/-- `TopEmbeds` never lengthens, `Entry.embeds` is reflexive, and on non-class entries it is equality -/
theorem C08_embeds_facts :
    (∀ a b, TopEmbeds a b → a.length ≤ b.length) ∧ (∀ e : Entry, e.embeds e) ∧
    (∀ e e' : Entry, (∀ n d s i c m a, e ≠ .cls n d s i c m a) → e.embeds e' → e = e') := by
  refine ⟨fun _ _ h => h.length_le, Entry.embeds_refl, ?_⟩
  intro e e' hne h
  cases e <;> first | exact h | exact absurd rfl (hne _ _ _ _ _ _ _)

/-! ## under `allOff` only doccomment-carrying commands have entries; those are flag-independent -/

/-- With all flags off, an item without a doccomment contributes nothing of its own: a single command nothing at
all; a block or a declaration+implementation only what its body contributes (the body of an undocumented class
is read in context `.hidden`, so nothing reaches a class). -/
theorem C08_allOff_documented_only (cfg : Cfg) (ctx : ClsCtx) :
    (∀ call, (Item.cmd none call).spec cfg.allOff ctx = {}) ∧
    (∀ o body c, (Item.block none o body c).spec cfg.allOff ctx =
      if o.lname = lit "cpp_class" then { top := (itemsSpec cfg.allOff .hidden body).top }
      else itemsSpec cfg.allOff ctx body) ∧
    (∀ d impl body c, (Item.decl none d impl body c).spec cfg.allOff ctx = itemsSpec cfg.allOff ctx body) ∧
    (∀ d, (Item.dangling d).spec cfg.allOff ctx = {}) := by
  refine ⟨spec_cmd_none_allOff cfg ctx, ?_, ?_, spec_dangling _ ctx⟩
  · intro o body c
    by_cases hc : o.lname = lit "cpp_class"
    · rw [spec_block_class_hidden _ ctx o body c hc rfl, if_pos hc]
    by_cases hf : o.lname = lit "function"
    · rw [spec_block_function _ ctx none o body c hf, if_neg hc]; simp [Cfg.allOff]
    by_cases hm : o.lname = lit "macro"
    · rw [spec_block_macro _ ctx none o body c hm, if_neg hc]; simp [Cfg.allOff]
    · rw [spec_block_other _ ctx none o body c hf hm hc, if_neg hc]; simp
  · intro d impl body c
    by_cases ht : d.lname = lit "ct_add_test"
    · rw [spec_decl_test_if _ ctx none d impl body c ht]; simp [Cfg.allOff, asDefinition]
    by_cases hs : d.lname = lit "ct_add_section"
    · rw [spec_decl_section_if _ ctx none d impl body c hs]; simp [Cfg.allOff, asDefinition]
    · rw [spec_decl_memberlike _ ctx none d impl body c ht hs]
      have e1 : cfg.allOff.inclCppConstructor = false := rfl
      have e2 : cfg.allOff.inclCppMember = false := rfl
      simp [e1, e2, asDefinition_allOff]

/-- a single command that carries a doccomment contributes the same under every flag combination (same class
context) -/
theorem C08_documented_kept_cmd (cfg : Cfg) (ctx : ClsCtx) (d : DocC) (call : Call) :
    (Item.cmd (some d) call).spec cfg ctx = (Item.cmd (some d) call).spec cfg.allOff ctx :=
  (spec_cmd_some_allOff cfg ctx d call).symm

/-- a documented function or macro definition: the same entry under every flag combination, followed by the
body's entries -/
theorem C08_documented_kept_def (cfg : Cfg) (ctx : ClsCtx) (d : DocC) (o : Call) (body : List Item) (c : Call)
    (isMacro : Bool) (hn : o.lname = if isMacro then lit "macro" else lit "function") :
    (Item.block (some d) o body c).spec cfg ctx =
      { top := [defEntry cfg.allOff isMacro (some d) o body] } ++ itemsSpec cfg ctx body := by
  cases isMacro with
  | false => rw [spec_block_function cfg ctx _ o body c (by simpa using hn)]; simp [defEntry_allOff]
  | true => rw [spec_block_macro cfg ctx _ o body c (by simpa using hn)]; simp [defEntry_allOff]

/-- a documented class is shown under every flag combination; its lists are those of its body in context `.shown` -/
theorem C08_documented_kept_class (cfg : Cfg) (ctx : ClsCtx) (d : DocC) (o : Call) (body : List Item) (c : Call)
    (hn : o.lname = lit "cpp_class") :
    ((Item.block (some d) o body c).spec cfg ctx).top =
      .cls (o.singles.headD []) (docTextOf (some d)) (o.singles.drop 1) (itemsSpec cfg .shown body).inner
          (itemsSpec cfg .shown body).ctors (itemsSpec cfg .shown body).members (itemsSpec cfg .shown body).attrs ::
        (itemsSpec cfg .shown body).top := by
  rw [spec_block_class_shown cfg ctx (some d) o body c hn (Or.inl rfl)]

/-- a documented test/section declaration: the same entry under every flag combination -/
theorem C08_documented_kept_test (cfg : Cfg) (ctx : ClsCtx) (dc : DocC) (d impl : Call) (body : List Item) (c : Call)
    (isSection : Bool) (hn : d.lname = if isSection then lit "ct_add_section" else lit "ct_add_test") :
    (Item.decl (some dc) d impl body c).spec cfg ctx =
      { top := [.test isSection (nameOf d.singles).1 (docTextOf (some dc)) (d.singles.contains (lit "EXPECTFAIL"))
                  (impl.singles.drop 2) (impl.lname = lit "macro")] } ++ itemsSpec cfg ctx body := by
  cases isSection with
  | false => exact spec_decl_test cfg ctx _ d impl body c (by simpa using hn) (Or.inl rfl)
  | true => exact spec_decl_section cfg ctx _ d impl body c (by simpa using hn) (Or.inl rfl)

/-- a documented member/constructor of a shown class: the same `Method`, in its class, under every flag
combination ("members are shown only if their class is shown": the context must be `.shown`) -/
theorem C08_documented_kept_member (cfg : Cfg) (dc : DocC) (d impl : Call) (body : List Item) (c : Call)
    (isCtor : Bool) (hn : d.lname = if isCtor then lit "cpp_constructor" else lit "cpp_member") :
    (Item.decl (some dc) d impl body c).spec cfg .shown =
      (if isCtor then { ctors := [methodOf cfg.allOff (some dc) d impl true] }
       else { members := [methodOf cfg.allOff (some dc) d impl false] }) ++ itemsSpec cfg .shown body := by
  cases isCtor with
  | false => rw [spec_decl_member_if cfg .shown _ d impl body c (by simpa using hn)]; simp [methodOf_allOff]
  | true => rw [spec_decl_ctor_if cfg .shown _ d impl body c (by simpa using hn)]; simp [methodOf_allOff]

/-! ## switching option K off removes the entries of the K-commands without a doccomment -/

/-- the contribution of an implementing definition whose declaration has no entry: an ordinary undocumented
function/macro definition, subject to `include_undocumented_function` / `_macro` -/
theorem C08_asDefinition (cfg : Cfg) (impl : Call) (body : List Item) :
    asDefinition cfg impl body =
      if (if impl.lname = lit "macro" then cfg.inclMacro else cfg.inclFunction) then
        { top := [defEntry cfg (impl.lname = lit "macro") none impl body] } else {} := rfl

/-- undocumented `function` / `macro`: own entry iff the flag is on; the body is read either way -/
theorem C08_removed_def (cfg : Cfg) (ctx : ClsCtx) (o : Call) (body : List Item) (c : Call)
    (isMacro : Bool) (hn : o.lname = if isMacro then lit "macro" else lit "function") :
    (Item.block none o body c).spec cfg ctx =
      (if (if isMacro then cfg.inclMacro else cfg.inclFunction) then { top := [defEntry cfg isMacro none o body] }
       else {}) ++ itemsSpec cfg ctx body := by
  cases isMacro with
  | false => rw [spec_block_function cfg ctx _ o body c (by simpa using hn)]; simp
  | true => rw [spec_block_macro cfg ctx _ o body c (by simpa using hn)]; simp

/-- undocumented `option`: entry iff `include_undocumented_option` -/
theorem C08_removed_option (cfg : Cfg) (ctx : ClsCtx) (call : Call) (hn : call.lname = lit "option") :
    (Item.cmd none call).spec cfg ctx =
      if cfg.inclOption then
        { top := [.opt (call.singles.headD []) [] (call.singles.getD 1 []) call.singles[2]?] } else {} := by
  rw [spec_cmd_option cfg ctx none call hn]; simp [docTextOf]

/-- undocumented `add_test`: entry iff `include_undocumented_add_test` -/
theorem C08_removed_add_test (cfg : Cfg) (ctx : ClsCtx) (call : Call) (hn : call.lname = lit "add_test") :
    (Item.cmd none call).spec cfg ctx =
      if cfg.inclAddTest then { top := [.ctest (nameOf call.allTexts).1 [] (ctestParams call.allTexts)] } else {} := by
  rw [spec_cmd_add_test_if cfg ctx none call hn]; simp [docTextOf]

/-- undocumented `cpp_attr`: listed iff `include_undocumented_cpp_attr` and the innermost class is shown -/
theorem C08_removed_attr (cfg : Cfg) (ctx : ClsCtx) (call : Call) (hn : call.lname = lit "cpp_attr") :
    (Item.cmd none call).spec cfg ctx =
      if ctx = .shown ∧ cfg.inclCppAttr = true then
        { attrs := [{ name := call.singles.getD 1 [], doc := [], parentClass := call.singles.headD [],
                      dflt := call.singles[2]? }] } else {} := by
  rw [spec_cmd_attr cfg ctx none call hn]; simp [docTextOf]

/-- undocumented `set` and undocumented commands of any other kind: never an entry, whatever the flags -/
theorem C08_removed_never (cfg : Cfg) (ctx : ClsCtx) (call : Call)
    (h2 : call.lname ≠ lit "option") (h3 : call.lname ≠ lit "add_test") (h4 : call.lname ≠ lit "cpp_attr") :
    (Item.cmd none call).spec cfg ctx = {} := by
  simp [Item.spec, h2, h3, h4]

/-- undocumented `cpp_class`: shown iff `include_undocumented_cpp_class`; when hidden, its body is read in context
`.hidden`: only top-level entries survive, no member reaches any class -/
theorem C08_removed_class (cfg : Cfg) (ctx : ClsCtx) (o : Call) (body : List Item) (c : Call)
    (hn : o.lname = lit "cpp_class") :
    (Item.block none o body c).spec cfg ctx =
      if cfg.inclCppClass then
        { top := .cls (o.singles.headD []) [] (o.singles.drop 1) (itemsSpec cfg .shown body).inner
                   (itemsSpec cfg .shown body).ctors (itemsSpec cfg .shown body).members
                   (itemsSpec cfg .shown body).attrs :: (itemsSpec cfg .shown body).top,
          inner := if ctx = .shown then [o.singles.headD []] else [] }
      else { top := (itemsSpec cfg .hidden body).top } := by
  cases hi : cfg.inclCppClass with
  | true => rw [spec_block_class_shown cfg ctx none o body c hn (Or.inr hi)]; simp [docTextOf]
  | false => rw [spec_block_class_hidden cfg ctx o body c hn hi]; simp

/-- undocumented `ct_add_test` / `ct_add_section`: test entry iff the flag is on; otherwise the implementing
definition is an ordinary definition -/
theorem C08_removed_test (cfg : Cfg) (ctx : ClsCtx) (d impl : Call) (body : List Item) (c : Call)
    (isSection : Bool) (hn : d.lname = if isSection then lit "ct_add_section" else lit "ct_add_test") :
    (Item.decl none d impl body c).spec cfg ctx =
      (if (if isSection then cfg.inclCtAddSection else cfg.inclCtAddTest) then
        { top := [.test isSection (nameOf d.singles).1 [] (d.singles.contains (lit "EXPECTFAIL"))
                    (impl.singles.drop 2) (impl.lname = lit "macro")] }
       else asDefinition cfg impl body) ++ itemsSpec cfg ctx body := by
  cases isSection with
  | false => rw [spec_decl_test_if cfg ctx _ d impl body c (by simpa using hn)]; simp [docTextOf]
  | true => rw [spec_decl_section_if cfg ctx _ d impl body c (by simpa using hn)]; simp [docTextOf]

/-- undocumented `cpp_member` / `cpp_constructor`: listed in its class iff the flag is on and the innermost class is
shown; otherwise the implementing definition is an ordinary definition -/
theorem C08_removed_member (cfg : Cfg) (ctx : ClsCtx) (d impl : Call) (body : List Item) (c : Call)
    (isCtor : Bool) (hn : d.lname = if isCtor then lit "cpp_constructor" else lit "cpp_member") :
    (Item.decl none d impl body c).spec cfg ctx =
      (if ctx = .shown ∧ (if isCtor then cfg.inclCppConstructor else cfg.inclCppMember) = true then
        (if isCtor then { ctors := [methodOf cfg none d impl true] }
         else { members := [methodOf cfg none d impl false] })
       else asDefinition cfg impl body) ++ itemsSpec cfg ctx body := by
  cases isCtor with
  | false => rw [spec_decl_member_if cfg ctx _ d impl body c (by simpa using hn)]; simp
  | true => rw [spec_decl_ctor_if cfg ctx _ d impl body c (by simpa using hn)]; simp

/-- "members are shown only if their class is shown": in a context other than `.shown` (file level, or inside a
class that has no entry) no item list hands anything to a class, under any configuration -/
theorem C08_hidden_no_members (cfg : Cfg) (ctx : ClsCtx) (hctx : ctx ≠ .shown) (items : List Item) :
    (itemsSpec cfg ctx items).inner = [] ∧ (itemsSpec cfg ctx items).ctors = [] ∧
    (itemsSpec cfg ctx items).members = [] ∧ (itemsSpec cfg ctx items).attrs = [] :=
  itemsSpec_noClassPart cfg ctx hctx items

/-- all kinds together: an item without a doccomment contributes an entry of its own iff the flag of its kind is on
(members, constructors and attributes additionally iff the innermost class is shown); a declaration without an
entry leaves its implementing definition to the function/macro flag -/
theorem C08_removed (cfg : Cfg) (ctx : ClsCtx) :
    (∀ o body c (isMacro : Bool), o.lname = (if isMacro then lit "macro" else lit "function") →
      (Item.block none o body c).spec cfg ctx =
        (if (if isMacro then cfg.inclMacro else cfg.inclFunction) then { top := [defEntry cfg isMacro none o body] }
         else {}) ++ itemsSpec cfg ctx body) ∧
    (∀ call, call.lname = lit "option" →
      (Item.cmd none call).spec cfg ctx =
        if cfg.inclOption then
          { top := [.opt (call.singles.headD []) [] (call.singles.getD 1 []) call.singles[2]?] } else {}) ∧
    (∀ call, call.lname = lit "add_test" →
      (Item.cmd none call).spec cfg ctx =
        if cfg.inclAddTest then { top := [.ctest (nameOf call.allTexts).1 [] (ctestParams call.allTexts)] } else {}) ∧
    (∀ call, call.lname = lit "cpp_attr" →
      (Item.cmd none call).spec cfg ctx =
        if ctx = .shown ∧ cfg.inclCppAttr = true then
          { attrs := [{ name := call.singles.getD 1 [], doc := [], parentClass := call.singles.headD [],
                        dflt := call.singles[2]? }] } else {}) ∧
    (∀ o body c, o.lname = lit "cpp_class" →
      (Item.block none o body c).spec cfg ctx =
        if cfg.inclCppClass then
          { top := .cls (o.singles.headD []) [] (o.singles.drop 1) (itemsSpec cfg .shown body).inner
                     (itemsSpec cfg .shown body).ctors (itemsSpec cfg .shown body).members
                     (itemsSpec cfg .shown body).attrs :: (itemsSpec cfg .shown body).top,
            inner := if ctx = .shown then [o.singles.headD []] else [] }
        else { top := (itemsSpec cfg .hidden body).top }) ∧
    (∀ d impl body c (isSection : Bool), d.lname = (if isSection then lit "ct_add_section" else lit "ct_add_test") →
      (Item.decl none d impl body c).spec cfg ctx =
        (if (if isSection then cfg.inclCtAddSection else cfg.inclCtAddTest) then
          { top := [.test isSection (nameOf d.singles).1 [] (d.singles.contains (lit "EXPECTFAIL"))
                      (impl.singles.drop 2) (impl.lname = lit "macro")] }
         else asDefinition cfg impl body) ++ itemsSpec cfg ctx body) ∧
    (∀ d impl body c (isCtor : Bool), d.lname = (if isCtor then lit "cpp_constructor" else lit "cpp_member") →
      (Item.decl none d impl body c).spec cfg ctx =
        (if ctx = .shown ∧ (if isCtor then cfg.inclCppConstructor else cfg.inclCppMember) = true then
          (if isCtor then { ctors := [methodOf cfg none d impl true] }
           else { members := [methodOf cfg none d impl false] })
         else asDefinition cfg impl body) ++ itemsSpec cfg ctx body) ∧
    (∀ call, call.lname ≠ lit "option" → call.lname ≠ lit "add_test" → call.lname ≠ lit "cpp_attr" →
      (Item.cmd none call).spec cfg ctx = {}) :=
  ⟨fun o body c isMacro hn => C08_removed_def cfg ctx o body c isMacro hn,
   fun call hn => C08_removed_option cfg ctx call hn,
   fun call hn => C08_removed_add_test cfg ctx call hn,
   fun call hn => C08_removed_attr cfg ctx call hn,
   fun o body c hn => C08_removed_class cfg ctx o body c hn,
   fun d impl body c isSection hn => C08_removed_test cfg ctx d impl body c isSection hn,
   fun d impl body c isCtor hn => C08_removed_member cfg ctx d impl body c isCtor hn,
   fun call h2 h3 h4 => C08_removed_never cfg ctx call h2 h3 h4⟩

/-! ## the listener state machine -/

/-- Through `T_agg`, **outside the K1 region** (hence `_partial`; see `T_agg_K1_counterexample`): for a well-formed
module and a configuration with `include_undocumented_cpp_class` on or no documented class in the module, the
listener ends normally under `cfg` and under the all-on configuration, and both `documented` lists embed the
entries of the doccomment-carrying commands (`m.entries cfg.allOff`). -/
theorem C08_machine_partial (cfg : Cfg) (m : Module) (hwf : itemsWf false m.items = true)
    (hk1 : cfg.inclCppClass = true ∨ itemsHaveDocumentedClass m.items = false) :
    ∃ st stOn, aggregate cfg m.events = .ok st ∧ aggregate cfg.allOn m.events = .ok stOn ∧
      st.errors = 0 ∧ stOn.errors = 0 ∧
      TopEmbeds (m.entries cfg.allOff) st.documented ∧ TopEmbeds (m.entries cfg.allOff) stOn.documented := by
  obtain ⟨st, h1, h2, h3, _⟩ := T_agg cfg m hwf hk1
  obtain ⟨stOn, h1', h2', h3', _⟩ := T_agg cfg.allOn m hwf (Or.inl rfl)
  refine ⟨st, stOn, h1, h1', h3, h3', ?_, ?_⟩
  · rw [h2]; exact C08_module_embed cfg m
  · rw [h2', ← Cfg.allOn_allOff]; exact C08_module_embed cfg.allOn m

/-- K1: the guard of `C08_machine_partial` cannot be dropped.  For the well-formed module `k1Module` (a documented
class with a documented and an undocumented attribute) and `include_undocumented_cpp_class = false` the listener
records the class without its documented attribute: the documented entries do *not* embed. -/
theorem C08_K1_counterexample :
    itemsWf false k1Module.items = true ∧
    ∃ st, aggregate k1Cfg k1Module.events = .ok st ∧ ¬ TopEmbeds (k1Module.entries k1Cfg.allOff) st.documented := by
  refine ⟨by decide, _, rfl, ?_⟩
  intro h
  have hd : k1Module.entries k1Cfg.allOff =
      [.cls (lit "MyClass") (lit "A class.\n") [] [] [] []
        [{ name := lit "color", doc := lit "An attribute.\n", parentClass := lit "MyClass", dflt := some (lit "red") }]] := by
    decide
  rw [hd] at h
  cases h with
  | skip _ h' => cases h'
  | keep he _ => simp [Entry.embeds] at he

/-! ## non-vacuity -/

/-- a documented class with a documented and an undocumented member, an undocumented class with a documented
attribute, an undocumented option and a documented set -/
def exMixed : List Item :=
  [ .block (some (mkDoc "" ["Documented class."])) (mkCall "cpp_class" ["A"])
      [ .decl (some (mkDoc "" ["Documented member."])) (mkCall "cpp_member" ["m1", "A"]) (mkCall "function" ["_m1", "self"])
          [] (mkCall "endfunction" []),
        .decl none (mkCall "cpp_member" ["m2", "A"]) (mkCall "function" ["_m2", "self"]) [] (mkCall "endfunction" []) ]
      (mkCall "cpp_end_class" []),
    .block none (mkCall "cpp_class" ["B"])
      [ .cmd (some (mkDoc "" ["Documented attr."])) (mkCall "cpp_attr" ["B", "x"]) ]
      (mkCall "cpp_end_class" []),
    .cmd none (mkCall "option" ["O", "help"]),
    .cmd (some (mkDoc "" ["A var."])) (mkCall "set" ["V", "1"]) ]

/-- under `allOff`: class `A` with `m1` only, and the variable -/
example : ((itemsSpec ({} : Cfg).allOff .none exMixed).top.map
      (fun e => match e with | .cls n _ _ _ _ ms _ => (n, ms.map (·.name)) | .var n .. => (n, []) | _ => ([], []))) =
    [(lit "A", [lit "m1"]), (lit "V", [])] := by decide

/-- under the default configuration: class `A` with `m1` and `m2`, class `B`, the option, the variable -/
example : ((itemsSpec ({} : Cfg) .none exMixed).top.map
      (fun e => match e with | .cls n _ _ _ _ ms _ => (n, ms.map (·.name)) | .var n .. => (n, [])
                             | .opt n .. => (n, []) | _ => ([], []))) =
    [(lit "A", [lit "m1", lit "m2"]), (lit "B", []), (lit "O", []), (lit "V", [])] := by decide

example : TopEmbeds (itemsSpec ({} : Cfg).allOff .none exMixed).top (itemsSpec {} .none exMixed).top :=
  (C08_documented_embed {} exMixed .none .none (fun h => h)).1

/-- Switching `include_undocumented_cpp_member` off removes the undocumented member `m2` from class `A` — and its
implementing definition `_m2` then shows up as an ordinary function (`asDefinition`): an entry is *added*, which
is why the embedding is stated against `allOff` and not flag-wise monotonically. -/
example : ((itemsSpec { inclCppMember := false } .none exMixed).top.map
      (fun e => match e with | .cls n _ _ _ _ ms _ => (n, ms.map (·.name)) | .func _ n .. => (n, [])
                             | .var n .. => (n, []) | .opt n .. => (n, []) | _ => ([], []))) =
    [(lit "A", [lit "m1"]), (lit "_m2", []), (lit "B", []), (lit "O", []), (lit "V", [])] := by decide

example : ((Item.decl none (mkCall "cpp_member" ["m2", "A"]) (mkCall "function" ["_m2", "self"]) []
      (mkCall "endfunction" [])).spec { inclCppMember := false } .shown).top =
      [.func false (lit "_m2") [] [lit "self"] false] ∧
    ((Item.decl none (mkCall "cpp_member" ["m2", "A"]) (mkCall "function" ["_m2", "self"]) []
      (mkCall "endfunction" [])).spec { inclCppMember := false } .shown).members = [] := by
  rw [C08_removed_member _ .shown _ _ _ _ false (by decide)]; exact ⟨by decide, by decide⟩

end Cminx
