import CminxProps.C20Full
import CminxLemmas.RstLemmas
/-!
# C20, whole API: where an element is printed

`FOccurs d e d0 root` — when `root` is rendered at depth `d0`, `e` inside it is rendered at depth `d`: one deeper per enclosing
directive, back to 0 below a section.  `C20F_occurs_infix`: the text of `e` at depth `d` occurs verbatim inside the text of `root`.
`C20F_appended_at_depth` lifts this to API calls: an element appended through a handle whose writer lies `d` directives below
the nearest section (or the top-level writer) is printed exactly as it is printed at depth `d` on its own, and
`C20F_text_call` / `_field_call` / `_list_call` / `_directive_call` read that off for the four kinds the property names
(for a paragraph every line is `3*d` blanks followed by the line's own text, `C20F_para_lines`).
-/
namespace Cminx

/-! ## where an element is printed: 3 × (directives above it, up to the nearest section) -/

/-- `FOccurs d e d0 root`: when `root` is rendered at depth `d0`, the element `e` inside it is rendered at depth `d` —
    one deeper per enclosing directive, back to 0 below a section -/
inductive FOccurs (d : Nat) (e : FElem) : Nat → FElem → Prop
  | here : FOccurs d e d e
  | inDir (d0 : Nat) (x : FElem) (name : Str) (args : List Str) (opts : List (Str × Str)) (body : List FElem) :
      x ∈ body → FOccurs d e (d0 + 1) x → FOccurs d e d0 (.directive name args opts body)
  | inSect (d0 : Nat) (x : FElem) (k : Nat) (hc title : Str) (body : List FElem) :
      x ∈ body → FOccurs d e 0 x → FOccurs d e d0 (.sect k hc title body)

theorem render_infix_renderFElems (d : Nat) (x : FElem) (body : List FElem) (h : x ∈ body) :
    x.render d <:+: renderFElems d body := by
  induction body with
  | nil => simp at h
  | cons y ys ih =>
    simp only [renderFElems]
    rcases List.mem_cons.1 h with rfl | h'
    · exact ⟨[], '\n' :: renderFElems d ys, by simp⟩
    · obtain ⟨a, b, hab⟩ := ih h'
      exact ⟨y.render d ++ '\n' :: a, b, by simp [← hab]⟩

theorem infix_append_right {α : Type} {a b : List α} (c : List α) (h : a <:+: b) : a <:+: c ++ b := by
  obtain ⟨p, q, hpq⟩ := h
  exact ⟨c ++ p, q, by simp [← hpq]⟩

/-- the text of every element occurs, rendered at its own depth, inside the text of whatever contains it -/
theorem C20F_occurs_infix {d : Nat} {e : FElem} {d0 : Nat} {root : FElem} (h : FOccurs d e d0 root) :
    e.render d <:+: root.render d0 := by
  induction h with
  | here => exact List.infix_refl _
  | inDir d0 x name args opts body hx _ ih =>
    have h1 := List.IsInfix.trans ih (render_infix_renderFElems (d0 + 1) x body hx)
    simp only [FElem.render]
    exact infix_append_right _ h1
  | inSect d0 x k hc title body hx _ ih =>
    have h1 := List.IsInfix.trans ih (render_infix_renderFElems 0 x body hx)
    simp only [FElem.render]
    exact infix_append_right _ (by simpa using infix_append_right ['\n'] h1)

/-- … in particular for a document: an element `d` directives below the top-level writer or below a section -/
theorem C20F_occurs_doc (w : FDoc) {d : Nat} {e x : FElem} (hx : x ∈ w.body) (h : FOccurs d e 0 x) :
    e.render d <:+: w.render := by
  have h1 := List.IsInfix.trans (C20F_occurs_infix h) (render_infix_renderFElems 0 x w.body hx)
  simp only [FDoc.render]
  exact infix_append_right _ (by simpa using infix_append_right ['\n'] h1)

/-- every line of a paragraph printed at depth `d` starts with exactly `3*d` blanks followed by its own text -/
theorem C20F_para_lines (d : Nat) (t : Str) :
    splitNl ((FElem.para t).render d) = (splitNl t).map (indent d ++ ·) := by
  simpa [FElem.render] using renderPara_lines d t

/-- a nested directive's heading line at depth `d` -/
theorem C20F_dir_heading (d : Nat) (name : Str) (args : List Str) (opts : List (Str × Str)) (body : List FElem) :
    renderDirHeading d name args <+: (FElem.directive name args opts body).render d := by
  simp only [FElem.render, List.append_assoc]
  exact List.prefix_append _ _

/-! ### the API: where a call puts its element -/

mutual
/-- the depth at which the children of the writer at `path` are rendered, when the element itself is rendered at depth `d` -/
def FElem.depthAt (d : Nat) : List Nat → FElem → Option Nat
  | [], .directive _ _ _ _ => some (d + 1)
  | [], .sect _ _ _ _ => some 0
  | i :: path, .directive _ _ _ body => fdepthAt (d + 1) i path body
  | i :: path, .sect _ _ _ body => fdepthAt 0 i path body
  | _, _ => none
def fdepthAt (d : Nat) : Nat → List Nat → List FElem → Option Nat
  | _, _, [] => none
  | 0, path, e :: _ => e.depthAt d path
  | i + 1, path, _ :: es => fdepthAt d i path es
end

/-- number of directives between the writer a handle names and the nearest section (or the top-level writer) above it -/
def FDoc.depthAt (w : FDoc) : List Nat → Option Nat
  | [] => some 0
  | i :: path => fdepthAt 0 i path w.body

mutual
theorem update_occurs (e : FElem) : ∀ (p : List Nat) (x : FElem) (d0 d : Nat),
    x.depthAt d0 p = some d → FOccurs d e d0 (x.update (.append e) p)
  | [], .directive n a o body, d0, d, h => by
      simp only [FElem.depthAt, Option.some.injEq] at h; subst h
      simp only [FElem.update]
      exact .inDir d0 e n a o (body ++ [e]) (by simp) .here
  | [], .sect k hc t body, d0, d, h => by
      simp only [FElem.depthAt, Option.some.injEq] at h; subst h
      simp only [FElem.update]
      exact .inSect d0 e k hc t (body ++ [e]) (by simp) .here
  | i :: p, .directive n a o body, d0, d, h => by
      simp only [FElem.depthAt] at h
      obtain ⟨x, hx, ho⟩ := updateAt_occurs e i p body (d0 + 1) d h
      simp only [FElem.update]
      exact .inDir d0 x n a o _ hx ho
  | i :: p, .sect k hc t body, d0, d, h => by
      simp only [FElem.depthAt] at h
      obtain ⟨x, hx, ho⟩ := updateAt_occurs e i p body 0 d h
      simp only [FElem.update]
      exact .inSect d0 x k hc t _ hx ho
  | [], .para _, _, _, h => by simp [FElem.depthAt] at h
  | [], .field _ _, _, _, h => by simp [FElem.depthAt] at h
  | [], .list _ _, _, _, h => by simp [FElem.depthAt] at h
  | [], .doctest _ _, _, _, h => by simp [FElem.depthAt] at h
  | [], .table _ _, _, _, h => by simp [FElem.depthAt] at h
  | _ :: _, .para _, _, _, h => by simp [FElem.depthAt] at h
  | _ :: _, .field _ _, _, _, h => by simp [FElem.depthAt] at h
  | _ :: _, .list _ _, _, _, h => by simp [FElem.depthAt] at h
  | _ :: _, .doctest _ _, _, _, h => by simp [FElem.depthAt] at h
  | _ :: _, .table _ _, _, _, h => by simp [FElem.depthAt] at h
theorem updateAt_occurs (e : FElem) : ∀ (i : Nat) (p : List Nat) (body : List FElem) (d0 d : Nat),
    fdepthAt d0 i p body = some d → ∃ x ∈ fupdateAt (.append e) i p body, FOccurs d e d0 x
  | _, _, [], _, _, h => by simp [fdepthAt] at h
  | 0, p, y :: ys, d0, d, h => by
      simp only [fdepthAt] at h
      exact ⟨y.update (.append e) p, by simp [fupdateAt], update_occurs e p y d0 d h⟩
  | i + 1, p, y :: ys, d0, d, h => by
      simp only [fdepthAt] at h
      obtain ⟨x, hx, ho⟩ := updateAt_occurs e i p ys d0 d h
      exact ⟨x, by simp [fupdateAt, hx], ho⟩
end

/-- **the indentation statement for the whole API**: an element appended through a handle whose writer lies `d` directives
    below the nearest section (or the top-level writer) is printed, inside the document's text, exactly as it is printed at
    depth `d` on its own — for paragraphs: every line `3*d` blanks and then the line's own text (`C20F_para_lines`) -/
theorem C20F_appended_at_depth (w : FDoc) (h : List Nat) (e : FElem) (d : Nat) (hd : w.depthAt h = some d) :
    e.render d <:+: (w.update (.append e) h).render := by
  cases h with
  | nil =>
    simp only [FDoc.depthAt, Option.some.injEq] at hd; subst hd
    rw [C20F_order_root]
    exact ⟨w.render, ['\n'], by simp⟩
  | cons i p =>
    simp only [FDoc.depthAt] at hd
    obtain ⟨x, hx, ho⟩ := updateAt_occurs e i p w.body 0 d hd
    exact C20F_occurs_doc (w.update (.append e) (i :: p)) (by simpa [FDoc.update] using hx) ho

/-- the four kinds the property names, as API calls: paragraph, field, list, nested directive heading -/
theorem C20F_text_call (w : FDoc) (h : List Nat) (t : Str) (d : Nat) (hd : w.depthAt h = some d) :
    ∃ w', w.apply (.text h t) = .ok w' ∧ renderPara d t <:+: w'.render :=
  ⟨_, rfl, by simpa [FElem.render] using C20F_appended_at_depth w h (.para t) d hd⟩

theorem C20F_field_call (w : FDoc) (h : List Nat) (n t : Str) (d : Nat) (hd : w.depthAt h = some d) :
    ∃ w', w.apply (.field h n t) = .ok w' ∧ renderField d n t <:+: w'.render :=
  ⟨_, rfl, by simpa [FElem.render] using C20F_appended_at_depth w h (.field n t) d hd⟩

theorem C20F_list_call (w : FDoc) (h : List Nat) (en : Bool) (items : List Str) (d : Nat) (hd : w.depthAt h = some d) :
    ∃ w', w.apply (.list h en items) = .ok w' ∧ renderList d en items <:+: w'.render :=
  ⟨_, rfl, by simpa [FElem.render] using C20F_appended_at_depth w h (.list en items) d hd⟩

theorem C20F_directive_call (w : FDoc) (h : List Nat) (name : Str) (args : List Str) (d : Nat) (hd : w.depthAt h = some d) :
    ∃ w', w.apply (.directive h name args) = .ok w' ∧ renderDirHeading d name args <:+: w'.render := by
  refine ⟨_, rfl, ?_⟩
  have h1 := C20F_appended_at_depth w h (.directive name args [] []) d hd
  exact List.IsInfix.trans (C20F_dir_heading d name args [] []).isInfix h1

/-- non-vacuity: a paragraph in a directive in a section in a directive sits at depth 1, not 2 -/
example : FOccurs 1 (.para (lit "p")) 0
    (.directive (lit "a") [] [] [.sect 1 ['-'] (lit "S") [.directive (lit "b") [] [] [.para (lit "p")]]]) :=
  .inDir 0 (.sect 1 ['-'] (lit "S") [.directive (lit "b") [] [] [.para (lit "p")]]) _ _ _ _ (List.mem_singleton.2 rfl)
    (.inSect 1 (.directive (lit "b") [] [] [.para (lit "p")]) _ _ _ _ (List.mem_singleton.2 rfl)
      (.inDir 0 (.para (lit "p")) _ _ _ _ (List.mem_singleton.2 rfl) .here))

end Cminx
