import CminxLemmas.WalkLemmas
/-!
# C14 — index.rst toctrees are closed and complete

Model: `walkDir` / `indexPage` in `CminxModel/Walk.lean`.  Spec side (`WalkSpec.lean`): `indexesOf`, `pagesOf`,
`Processed`, `Guard`, `indexDoc` (title `indexTitle`, one `toctree` directive with option `maxdepth: 2` whose
body is one paragraph per entry of `tocEntries`).

* `C14_entries`        — the index written for a processed directory is the serialisation of `indexDoc` built
                         from its sorted surviving sub-directories and sorted non-excluded files; its toctree
                         lists `tocEntries`: (only with `-r`) `<sub>/index.rst` per surviving sub-directory, then
                         the stem of each non-excluded CMake file.
* `C14_entries_once`   — these two name lists are duplicate-free permutations of exactly the surviving
                         sub-directories resp. the non-excluded CMake files, when the names in the listing are
                         distinct.
* `C14_entries_nodup`  — the entry *strings* are pairwise distinct under the additional explicit hypotheses
                         "stems of the CMake files are distinct" (excludes the known collision `a.cmake` /
                         `a.CMake`, finding K4) and "no file name contains `/`".
* `C14_survivor_has_index` — the point of repaired defect D7: a sub-directory listed in a toctree is one that
                         survives auto-exclusion *with the same test* that decides whether it gets an index, so
                         it does get one.
* `C14_closed`         — every toctree entry has a generated target among the writes.
* `C14_title`          — the title of the top index is the prefix (when the separator is `.`), that of a
                         sub-directory `prefix ++ sep ++ path`.
* `C14_reachable_page`, `C14_reachable_parent`, `C14_reachable` — every page is listed in the index of its
                         directory, every processed directory other than the top one in its parent's index, hence
                         every index is linked from the top index through a chain of toctree entries.
-/
namespace Cminx

/-! ## entries -/

/-- what the toctree of an index lists — by definition of `tocEntries` -/
theorem C14_tocEntries_eq (c : WalkCfg) (subdirs files : List Str) :
    tocEntries c subdirs files =
      (if c.recursive then subdirs.map (· ++ lit "/index.rst") else []) ++
        (files.filter isCMakeName).map stem := rfl

/-- the index text is the serialised `indexDoc`: heading = `indexTitle`, body = one `toctree` with
    `:maxdepth: 2` and one paragraph per entry -/
theorem C14_indexPage {c : WalkCfg} {hc : Str} {hs : List Str} (hh : c.headers = hc :: hs) (pfx : Str)
    (rel subdirs files : List Str) :
    indexPage c pfx rel subdirs files = .ok (indexDoc c pfx hc rel subdirs files).render ∧
      (indexDoc c pfx hc rel subdirs files).title = indexTitle c pfx rel ∧
      (indexDoc c pfx hc rel subdirs files).body =
        [.directive (lit "toctree") [] [(lit "maxdepth", lit "2")]
          ((tocEntries c subdirs files).map Elem.para)] :=
  ⟨indexPage_eq hh pfx rel subdirs files, rfl, rfl⟩

/-- File mode, error-free, guard: for every processed directory `rel'` (listing `l'`) the run writes
    `rel'/index.rst` with the serialised `indexDoc` of its sorted surviving sub-directories and its sorted
    non-excluded files. -/
theorem C14_entries {c : WalkCfg} {excl : List Str → Bool → Bool} {pfx : Str} {rel : List Str}
    {listing : List FsNode} {r : RunResult}
    (hf : c.toStdout = false) (htree : treeOk listing = true) (hr : r.error = none)
    {hc : Str} {hs : List Str} (hh : c.headers = hc :: hs)
    (hp : ∀ p ∈ pagesOf c excl rel listing, (page c (some pfx) (relPath p) p.2.2).isOk = true)
    (hg : Guard c excl rel listing) {rel' : List Str} {l' : List FsNode}
    (hproc : Processed c excl rel listing rel' l') :
    (⟨rel' ++ [lit "index.rst"],
      (indexDoc c pfx hc rel' (sortStrs (survivingDirs c excl rel' l')) (sortStrs (keptFiles excl rel' l'))).render⟩
        : Write) ∈ (walkDir c excl pfx rel listing r).writes := by
  have hh' : c.headers ≠ [] := by simp [hh]
  rw [walkDir_eq_layout htree, runItems_ok hr (items_ok_of_file hh' hp)]
  simp only [hf, Bool.false_eq_true, if_false, List.mem_append, List.mem_map]
  right
  have hd := (mem_indexesOf_iff_processed hg
    (rel', sortStrs (survivingDirs c excl rel' l'), sortStrs (keptFiles excl rel' l'))).2 ⟨l', hproc, rfl, rfl⟩
  refine ⟨_, mem_indexesOf.1 hd, ?_⟩
  simp only [WItem.write, WItem.path, WItem.textD, WItem.text, indexPage_eq hh, okText]

/-- The sub-directory names and the file names an index is built from list, each exactly once, the surviving
    sub-directories resp. the non-excluded CMake files — when the names in the directory listing are distinct. -/
theorem C14_entries_once (c : WalkCfg) (excl : List Str → Bool → Bool) (rel' : List Str) (l' : List FsNode)
    (hd : (dirNames l').Nodup) (hfn : (fileNames l').Nodup) :
    (sortStrs (survivingDirs c excl rel' l')).Nodup ∧
      (∀ n, n ∈ sortStrs (survivingDirs c excl rel' l') ↔
        ∃ ch, FsNode.dir n ch ∈ l' ∧ survives c excl rel' n ch = true) ∧
      ((sortStrs (keptFiles excl rel' l')).filter isCMakeName).Nodup ∧
      (∀ f, f ∈ (sortStrs (keptFiles excl rel' l')).filter isCMakeName ↔
        (f ∈ fileNames l' ∧ excl (rel' ++ [f]) false = false ∧ isCMakeName f = true)) := by
  refine ⟨?_, ?_, ?_, ?_⟩
  · exact (sortStrs_perm _).nodup_iff.2 ((survivingDirs_sublist c excl rel' l').nodup hd)
  · intro n
    rw [mem_sortStrs, mem_survivingDirs]
  · exact ((sortStrs_perm _).nodup_iff.2 ((keptFiles_sublist excl rel' l').nodup hfn)).filter _
  · intro f
    rw [List.mem_filter, mem_sortStrs, mem_keptFiles, and_assoc]

/-- The toctree entry strings are pairwise distinct, provided the stems of the listed CMake files are distinct
    (this is an explicit hypothesis: `a.cmake` and `a.CMake` share the stem `a` — known finding K4) and no file
    name contains `/`. -/
theorem C14_entries_nodup (c : WalkCfg) (subdirs files : List Str) (hsub : subdirs.Nodup)
    (hstem : ((files.filter isCMakeName).map stem).Nodup) (hslash : ∀ f ∈ files, '/' ∉ f) :
    (tocEntries c subdirs files).Nodup := by
  unfold tocEntries
  rw [List.nodup_append]
  refine ⟨?_, hstem, ?_⟩
  · split
    · exact List.Pairwise.map _ (fun a b hne h => hne (List.append_cancel_right h)) hsub
    · simp
  · intro a ha b hb hab
    subst hab
    split at ha
    · obtain ⟨n, _, rfl⟩ := List.mem_map.1 ha
      obtain ⟨f, hf, hfe⟩ := List.mem_map.1 hb
      have : '/' ∈ stem f := by rw [hfe]; simp [lit]
      exact hslash f (List.mem_filter.1 hf).1 (mem_stem this)
    · simp at ha

/-! ## closure -/

/-- **D7.**  A sub-directory that survives the parent's selection has, when auto-exclusion is on, a non-excluded
    `.cmake` file — by the very test (`hasCMake`) that decides whether the directory itself gets an index.  So a
    sub-directory listed in a toctree always gets its `index.rst`. -/
theorem C14_survivor_has_index {c : WalkCfg} {excl : List Str → Bool → Bool} {rel : List Str} {n : Str}
    {ch : List FsNode} (hs : survives c excl rel n ch = true) :
    ∃ subs files, dirItems c excl (rel ++ [n]) ch = .index (rel ++ [n]) subs files ::
      dirPages (rel ++ [n]) ch files := by
  have : (c.autoExclude && !hasCMake excl (rel ++ [n]) ch) = false := by
    simp only [survives, Bool.and_eq_true, Bool.or_eq_true, Bool.not_eq_eq_eq_not, Bool.not_true] at hs
    rcases hs.2 with h | h <;> simp [h]
  exact ⟨sortStrs (survivingDirs c excl (rel ++ [n]) ch), sortStrs (keptFiles excl (rel ++ [n]) ch),
    by simp [dirItems, this]⟩

/-- File mode, error-free, guard: every toctree entry of every generated index has a generated target:
    for each listed sub-directory (entries `<sub>/index.rst`, present only with `-r`) the run writes
    `<dir>/<sub>/index.rst`, and for each listed CMake file (entry `stem f`) it writes `<dir>/<stem f>.rst`. -/
theorem C14_closed {c : WalkCfg} {excl : List Str → Bool → Bool} {pfx : Str} {rel : List Str}
    {listing : List FsNode} {r : RunResult}
    (hf : c.toStdout = false) (htree : treeOk listing = true) (hr : r.error = none) (hh : c.headers ≠ [])
    (hp : ∀ p ∈ pagesOf c excl rel listing, (page c (some pfx) (relPath p) p.2.2).isOk = true)
    (hg : Guard c excl rel listing) {d : List Str × List Str × List Str}
    (hd : d ∈ indexesOf c excl rel listing) :
    (c.recursive = true → ∀ sub ∈ d.2.1,
        ∃ w ∈ (walkDir c excl pfx rel listing r).writes, w.path = d.1 ++ [sub, lit "index.rst"]) ∧
      (∀ f ∈ d.2.2, isCMakeName f = true →
        ∃ w ∈ (walkDir c excl pfx rel listing r).writes, w.path = d.1 ++ [stem f ++ lit ".rst"]) := by
  obtain ⟨l', hproc, h1, h2⟩ := (mem_indexesOf_iff_processed hg d).1 hd
  have hw : ∀ it ∈ layoutOf c excl rel listing,
      ∃ w ∈ (walkDir c excl pfx rel listing r).writes, w.path = it.path := by
    intro it hit
    rw [walkDir_eq_layout htree, runItems_ok hr (items_ok_of_file hh hp)]
    refine ⟨it.write c pfx, ?_, rfl⟩
    simp only [hf, Bool.false_eq_true, if_false, List.mem_append, List.mem_map]
    exact Or.inr ⟨it, hit, rfl⟩
  constructor
  · intro hrec sub hsub
    rw [h1, mem_sortStrs, mem_survivingDirs] at hsub
    obtain ⟨ch, hm, hs⟩ := hsub
    have hproc' : Processed c excl rel listing (d.1 ++ [sub]) ch := .sub hproc hrec hm hs
    obtain ⟨subs, files, hdi⟩ := C14_survivor_has_index hs
    have : WItem.index (d.1 ++ [sub]) subs files ∈ layoutOf c excl rel listing :=
      mem_layoutOf_iff_processed.2 ⟨_, _, hproc', by rw [hdi]; exact List.mem_cons_self ..⟩
    obtain ⟨w, hw1, hw2⟩ := hw _ this
    exact ⟨w, hw1, by simp [hw2, WItem.path]⟩
  · intro f hfm hcm
    rw [h2, mem_sortStrs] at hfm
    obtain ⟨ct, hct⟩ := findFile_isSome_of_mem (mem_keptFiles.1 hfm).1
    have hpage : WItem.page d.1 f ct ∈ layoutOf c excl rel listing := by
      refine mem_layoutOf_iff_processed.2 ⟨_, _, hproc, mem_dirItems_page.2 ⟨?_, rfl, hfm, hcm, hct⟩⟩
      rintro ⟨ha, hn⟩
      have := hproc.guard hg ha
      simp [this] at hn
    obtain ⟨w, hw1, hw2⟩ := hw _ hpage
    exact ⟨w, hw1, by simp [hw2, WItem.path]⟩

/-! ## titles -/

/-- The title of the top index is the prefix, whatever the separator is (before the repair `8466859` it was
    `prefix ++ sep ++ "."` for every separator other than `"."`); the title of the index of a sub-directory is
    `prefix ++ sep ++ path`. -/
theorem C14_title (c : WalkCfg) (pfx : Str) :
    indexTitle c pfx [] = pfx ∧
    (∀ rel' : List Str, rel' ≠ [] → indexTitle c pfx rel' = pfx ++ c.sep ++ joinWith ['/'] rel') := by
  refine ⟨by simp [indexTitle], fun rel' h1 => ?_⟩
  cases rel' with
  | nil => exact absurd rfl h1
  | cons a as => simp [indexTitle, relStr]

/-! ## reachability -/

/-- every page is listed in the index of its own directory -/
theorem C14_reachable_page {c : WalkCfg} {excl : List Str → Bool → Bool} {rel : List Str}
    {listing : List FsNode} {p : List Str × Str × Str} (hp : p ∈ pagesOf c excl rel listing) :
    ∃ d ∈ indexesOf c excl rel listing, d.1 = p.1 ∧ stem p.2.1 ∈ tocEntries c d.2.1 d.2.2 := by
  obtain ⟨rel', l', hproc, hi⟩ := mem_layoutOf_iff_processed.1 (mem_pagesOf.1 hp)
  obtain ⟨hne, h1, h2, h3, h4⟩ := mem_dirItems_page.1 hi
  subst h1
  refine ⟨(p.1, sortStrs (survivingDirs c excl p.1 l'), sortStrs (keptFiles excl p.1 l')), ?_, rfl, ?_⟩
  · exact mem_indexesOf.2 (mem_layoutOf_iff_processed.2 ⟨_, _, hproc, mem_dirItems_index.2 ⟨hne, rfl, rfl, rfl⟩⟩)
  · simp only [tocEntries, List.mem_append, List.mem_map, List.mem_filter, mem_sortStrs]
    exact Or.inr ⟨p.2.1, ⟨h2, h3⟩, rfl⟩

/-- under the guard, every index other than the top one is listed (as `<name>/index.rst`) in the index of its
    parent directory -/
theorem C14_reachable_parent {c : WalkCfg} {excl : List Str → Bool → Bool} {rel : List Str}
    {listing : List FsNode} (hg : Guard c excl rel listing) {d : List Str × List Str × List Str}
    (hd : d ∈ indexesOf c excl rel listing) (hne : d.1 ≠ rel) :
    ∃ d' ∈ indexesOf c excl rel listing, ∃ n, d.1 = d'.1 ++ [n] ∧
      (n ++ lit "/index.rst") ∈ tocEntries c d'.2.1 d'.2.2 := by
  obtain ⟨l', hproc, _, _⟩ := (mem_indexesOf_iff_processed hg d).1 hd
  generalize hd1 : d.1 = rel' at hproc hne
  cases hproc with
  | root => exact absurd rfl hne
  | @sub relp lp n ch hpar hrec hm hs =>
    refine ⟨(relp, sortStrs (survivingDirs c excl relp lp), sortStrs (keptFiles excl relp lp)),
      (mem_indexesOf_iff_processed hg _).2 ⟨lp, hpar, rfl, rfl⟩, n, rfl, ?_⟩
    simp only [tocEntries, hrec, if_true, List.mem_append, List.mem_map, mem_sortStrs, mem_survivingDirs]
    exact Or.inl ⟨n, ⟨l', hm, hs⟩, rfl⟩

/-- `Linked c I top d`: the directory `d` is reached from the top index through toctree entries of indexes in `I` -/
inductive Linked (c : WalkCfg) (I : List (List Str × List Str × List Str)) (top : List Str) : List Str → Prop where
  | top : Linked c I top top
  | step {d : List Str × List Str × List Str} {n : Str} : Linked c I top d.1 → d ∈ I →
      (n ++ lit "/index.rst") ∈ tocEntries c d.2.1 d.2.2 → Linked c I top (d.1 ++ [n])

/-- Under the guard the top index exists, every generated index is linked from it through a chain of
    `<sub>/index.rst` toctree entries of generated indexes, and (`C14_reachable_page`) every page is listed in the
    index of its directory: every generated file is reachable from the top `index.rst`. -/
theorem C14_reachable {c : WalkCfg} {excl : List Str → Bool → Bool} {rel : List Str}
    {listing : List FsNode} (hg : Guard c excl rel listing) :
    (∃ d ∈ indexesOf c excl rel listing, d.1 = rel) ∧
      (∀ d ∈ indexesOf c excl rel listing, Linked c (indexesOf c excl rel listing) rel d.1) ∧
      (∀ p ∈ pagesOf c excl rel listing, Linked c (indexesOf c excl rel listing) rel p.1) := by
  have key : ∀ rel' l', Processed c excl rel listing rel' l' →
      Linked c (indexesOf c excl rel listing) rel rel' := by
    intro rel' l' hproc
    induction hproc with
    | root => exact .top
    | @sub relp lp n ch hpar hrec hm hs ih =>
      have hd' : (relp, sortStrs (survivingDirs c excl relp lp), sortStrs (keptFiles excl relp lp)) ∈
          indexesOf c excl rel listing := (mem_indexesOf_iff_processed hg _).2 ⟨lp, hpar, rfl, rfl⟩
      refine Linked.step (d := (relp, _, _)) ih hd' ?_
      simp only [tocEntries, hrec, if_true, List.mem_append, List.mem_map, mem_sortStrs, mem_survivingDirs]
      exact Or.inl ⟨n, ⟨ch, hm, hs⟩, rfl⟩
  refine ⟨⟨_, (mem_indexesOf_iff_processed hg
    (rel, sortStrs (survivingDirs c excl rel listing), sortStrs (keptFiles excl rel listing))).2
      ⟨listing, .root, rfl, rfl⟩, rfl⟩, ?_, ?_⟩
  · intro d hd
    obtain ⟨l', hproc, _, _⟩ := (mem_indexesOf_iff_processed hg d).1 hd
    exact key _ _ hproc
  · intro p hp
    obtain ⟨d, hd, hd1, _⟩ := C14_reachable_page hp
    obtain ⟨l', hproc, _, _⟩ := (mem_indexesOf_iff_processed hg d).1 hd
    rw [← hd1]
    exact key _ _ hproc

/-! ## Non-vacuity: the example tree of `WalkSpec.lean` -/

-- the index of `sub`: title `P.sub`, toctree `deep/index.rst` (the auto-excluded `nocmake` is absent), then `c`
set_option maxRecDepth 8192 in
example : (⟨[lit "sub", lit "index.rst"],
      lit "\n#####\nP.sub\n#####\n\n.. toctree:: \n   :maxdepth: 2\n\n   deep/index.rst\n   c\n\n"⟩ : Write) ∈
    (walkDir exCfg exExcl (lit "P") [] exTree {}).writes := by
  have h := C14_entries (c := exCfg) (pfx := lit "P") (r := {}) rfl ex_treeOk rfl (hc := ['#']) (hs := []) rfl
    ex_ok ex_guard ex_sub_processed
  simp only [sortStrs_eq_isort] at h
  have e : ∀ (a : List Str) (t : Str), t = lit "\n#####\nP.sub\n#####\n\n.. toctree:: \n   :maxdepth: 2\n\n   deep/index.rst\n   c\n\n" →
      a = [lit "sub", lit "index.rst"] → (⟨a, t⟩ : Write) ∈ (walkDir exCfg exExcl (lit "P") [] exTree {}).writes →
      (⟨[lit "sub", lit "index.rst"],
        lit "\n#####\nP.sub\n#####\n\n.. toctree:: \n   :maxdepth: 2\n\n   deep/index.rst\n   c\n\n"⟩ : Write) ∈
      (walkDir exCfg exExcl (lit "P") [] exTree {}).writes := by
    intro a t ht ha h; rw [← ht, ← ha]; exact h
  exact e _ _ (by decide) (by decide) h

-- the top index lists `sub/index.rst`, then `A` and `b` (sorted; the mixed-case file included, `readme.txt` and
-- the excluded `skip.cmake` and `hidden` not)
example : tocEntries exCfg [lit "sub"] [lit "A.CMake", lit "b.cmake", lit "readme.txt"] =
    [lit "sub/index.rst", lit "A", lit "b"] := by decide

example : (tocEntries exCfg [lit "sub"] [lit "A.CMake", lit "b.cmake", lit "readme.txt"]).Nodup :=
  C14_entries_nodup exCfg _ _ (by decide) (by decide) (by decide)

-- the stem hypothesis of `C14_entries_nodup` is needed: `a.cmake` and `a.CMake` give the entry `a` twice
example : ¬ (tocEntries exCfg [] [lit "a.CMake", lit "a.cmake"]).Nodup := by decide

-- every entry of the top index has a target
example : (∃ w ∈ (walkDir exCfg exExcl (lit "P") [] exTree {}).writes, w.path = [lit "sub", lit "index.rst"]) ∧
    (∃ w ∈ (walkDir exCfg exExcl (lit "P") [] exTree {}).writes, w.path = [lit "A.rst"]) := by
  have h := C14_closed (c := exCfg) (pfx := lit "P") (r := {}) rfl ex_treeOk rfl (by decide) ex_ok ex_guard
    (d := ([], [lit "sub"], [lit "A.CMake", lit "b.cmake", lit "readme.txt"])) (by rw [ex_indexes]; decide)
  exact ⟨h.1 rfl (lit "sub") (by decide), h.2 (lit "A.CMake") (by decide) (by decide)⟩

-- titles
example : indexTitle exCfg (lit "P") [] = lit "P" := (C14_title exCfg (lit "P")).1
example : indexTitle exCfg (lit "P") [lit "sub", lit "deep"] = lit "P.sub/deep" := by
  rw [(C14_title exCfg (lit "P")).2 _ (by decide)]; decide
-- also with another separator the top index is titled with the prefix alone
example : indexTitle { exCfg with sep := lit "::" } (lit "P") [] = lit "P" := (C14_title _ (lit "P")).1

-- `sub/deep` is linked from the top index; so is every page
example : Linked exCfg (indexesOf exCfg exExcl [] exTree) [] [lit "sub", lit "deep"] :=
  (C14_reachable ex_guard).2.1 ([lit "sub", lit "deep"], [], [lit "d.cmake"]) (by rw [ex_indexes]; decide)
example : ∀ p ∈ pagesOf exCfg exExcl [] exTree, Linked exCfg (indexesOf exCfg exExcl [] exTree) [] p.1 :=
  (C14_reachable ex_guard).2.2

-- D7: a sub-directory whose only `.cmake` file is excluded by pattern does not survive, is not listed, and
-- (consistently) gets no index
example : survivingDirs exCfg (fun p _ => p.getLast? == some (lit "only.cmake")) []
    [.file (lit "top.cmake") [], .dir (lit "s") [.file (lit "only.cmake") []]] = [] := by decide
example : indexesOf exCfg (fun p _ => p.getLast? == some (lit "only.cmake")) []
    [.file (lit "top.cmake") [], .dir (lit "s") [.file (lit "only.cmake") []]] = [([], [], [lit "top.cmake"])] := by
  simp only [indexesOf, layoutOf, dirItems, subsLayout, nodeLayout, sortStrs_eq_isort]
  decide

end Cminx
