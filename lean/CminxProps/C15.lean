import CminxLemmas.WalkPermLemmas
/-!
# C15 — exclusion by pattern while walking a directory tree

Property theorems about the model in `CminxModel/Walk.lean` (`walkDir` = one `os.walk` iteration of `document`
plus everything below it, `document` = the function of the same name in `__init__.py`).

The file system is an explicit tree (`FsNode`) whose child order is the directory-listing order; pathspec is an
arbitrary predicate `excl : List Str → Bool → Bool` on (path components relative to the input directory,
is-directory).  Every theorem below holds for every such predicate, so it holds in particular no matter which
configuration source supplied which pattern (that the pattern lists of the sources are concatenated is part of
another property).

## Contents
* spec-side definitions: `newWrites`, `newStdout`, `DirAt`, `OpenPath`, `Reachable`, `IsIndexWrite`,
  `IsPageWrite`, `DistinctNames`, `DeepPerm`, `AllRender`, `keptDirs`, `keptFileNames`;
* bridging lemmas from the spec-side definitions to the lemma library (`CminxLemmas/WalkPermLemmas.lean`);
* the property theorems `C15_*` (listed in `C15.theorems`), among them three counterexamples to stronger
  statements (`C15_no_descend_needs_strict`, `C15_iff_literal_false`, `C15_order_needs_distinct`);
* `example`s instantiating the theorems on a concrete tree with two levels below the input (`C15Example`).

The model of the loop before repair D6, for which `C15_order` and `C15_count_independent` fail, is in
`C15_old.lean`.

## Two statements that are false as first written down, and what is proved instead
* "No write path *starts with* `rel ++ [n]` for an excluded sub-directory `n`" is false when `n` is called
  `index.rst`: the index page of the parent directory is written to exactly `rel ++ ["index.rst"]`.
  `C15_no_descend` therefore speaks of paths strictly *below* `rel ++ [n]` (see `C15_no_descend_needs_strict`).
* "A page write with the path and the content belonging to file `f` is among the writes only if `f` is
  reachable" is false when two files of one directory have the same stem and the same page text
  (`a.cmake` and `a.CMAKE` with equal content and titles without extensions): the write made for the one
  that is kept is also "the" write of the one that is excluded.  `C15_only_if` therefore says that every
  new write is the index page of an open directory or the page of *some* reachable file, and `C15_iff`
  is an equality of sets of writes.
-/
namespace Cminx

/-! ## Spec-side definitions -/

/-- the writes one `walkDir` adds to what was there before -/
def newWrites (c : WalkCfg) (excl : List Str → Bool → Bool) (pfx : Str) (rel : List Str) (listing : List FsNode)
    (r : RunResult) : List Write :=
  (walkDir c excl pfx rel listing r).writes.drop r.writes.length

/-- the text one `walkDir` adds to standard output -/
def newStdout (c : WalkCfg) (excl : List Str → Bool → Bool) (pfx : Str) (rel : List Str) (listing : List FsNode)
    (r : RunResult) : Str :=
  (walkDir c excl pfx rel listing r).stdout.drop r.stdout.length

/-- `DirAt listing q ch`: following the directory names `q` downwards from `listing` leads to a directory whose
    listing is `ch` -/
inductive DirAt : List FsNode → List Str → List FsNode → Prop
  | here (l : List FsNode) : DirAt l [] l
  | step {l : List FsNode} {n : Str} {ch : List FsNode} {q : List Str} {l' : List FsNode} :
      FsNode.dir n ch ∈ l → DirAt ch q l' → DirAt l (n :: q) l'

/-- none of the directories `rel ++ q'`, `q'` a non-empty prefix of `q`, is excluded -/
def OpenPath (excl : List Str → Bool → Bool) (rel q : List Str) : Prop :=
  ∀ q' d, (q' ++ [d]) <+: q → excl (rel ++ q' ++ [d]) true = false

/-- the file `f` with text `content` and a CMake name sits in directory `rel ++ q` of the tree, no directory on
    the way down to it is excluded, and it is not excluded itself -/
def Reachable (excl : List Str → Bool → Bool) (rel : List Str) (listing : List FsNode)
    (q : List Str) (f content : Str) : Prop :=
  ∃ ch, DirAt listing q ch ∧ FsNode.file f content ∈ ch ∧ isCMakeName f = true ∧
    OpenPath excl rel q ∧ excl (rel ++ q ++ [f]) false = false

/-- the sub-directories of the directory at `rel` that survive the exclusion patterns -/
def keptDirs (excl : List Str → Bool → Bool) (rel : List Str) (listing : List FsNode) : List Str :=
  (dirNames listing).filter (fun n => !excl (rel ++ [n]) true)

/-- the files of the directory at `rel` that survive the exclusion patterns -/
def keptFileNames (excl : List Str → Bool → Bool) (rel : List Str) (listing : List FsNode) : List Str :=
  (fileNames listing).filter (fun f => !excl (rel ++ [f]) false)

/-- `w` is the `index.rst` of a directory of the tree that is reached without passing an excluded directory
    (auto-exclusion off: its entries are the surviving sub-directories and files, sorted) -/
def IsIndexWrite (c : WalkCfg) (excl : List Str → Bool → Bool) (pfx : Str) (rel : List Str) (listing : List FsNode)
    (w : Write) : Prop :=
  ∃ q ch, DirAt listing q ch ∧ OpenPath excl rel q ∧ w.path = rel ++ q ++ [lit "index.rst"] ∧
    indexPage c pfx (rel ++ q) (sortStrs (keptDirs excl (rel ++ q) ch)) (sortStrs (keptFileNames excl (rel ++ q) ch))
      = .ok w.content

/-- `w` is the page of a reachable file -/
def IsPageWrite (c : WalkCfg) (excl : List Str → Bool → Bool) (pfx : Str) (rel : List Str) (listing : List FsNode)
    (w : Write) : Prop :=
  ∃ q f content, Reachable excl rel listing q f content ∧ w.path = rel ++ q ++ [stem f ++ lit ".rst"] ∧
    page c (some pfx) (joinWith ['/'] (rel ++ q ++ [f])) content = .ok w.content

/-- within every directory of the tree all entry names are pairwise distinct (what a file system guarantees) -/
def DistinctNames (listing : List FsNode) : Prop :=
  ∀ q ch, DirAt listing q ch → (ch.map FsNode.name).Nodup

/-- the same tree with the entries of every directory listed in a possibly different order: a permutation of
    the listing in which corresponding sub-directories are again related in this way; files keep their content -/
inductive DeepPerm : List FsNode → List FsNode → Prop
  | nil : DeepPerm [] []
  | file (n content : Str) {l₁ l₂ : List FsNode} :
      DeepPerm l₁ l₂ → DeepPerm (.file n content :: l₁) (.file n content :: l₂)
  | dir (n : Str) {ch₁ ch₂ l₁ l₂ : List FsNode} :
      DeepPerm ch₁ ch₂ → DeepPerm l₁ l₂ → DeepPerm (.dir n ch₁ :: l₁) (.dir n ch₂ :: l₂)
  | swap (x y : FsNode) (l : List FsNode) : DeepPerm (x :: y :: l) (y :: x :: l)
  | trans {l₁ l₂ l₃ : List FsNode} : DeepPerm l₁ l₂ → DeepPerm l₂ l₃ → DeepPerm l₁ l₃

/-- every file of the tree with a CMake name can be documented -/
def AllRender (c : WalkCfg) (pfx : Str) (rel : List Str) (listing : List FsNode) : Prop :=
  ∀ q ch f content, DirAt listing q ch → FsNode.file f content ∈ ch → isCMakeName f = true →
    ∃ text, page c (some pfx) (joinWith ['/'] (rel ++ q ++ [f])) content = .ok text

/-! ## Bridging lemmas: spec-side definitions ↔ lemma library -/

theorem DeepPerm.treePerm {l₁ l₂ : List FsNode} (h : DeepPerm l₁ l₂) : TreePerm l₁ l₂ := by
  induction h with
  | nil => exact .nil
  | file n content _ ih => exact .file n content ih
  | dir n _ _ ih1 ih2 => exact .dir n ih1 ih2
  | swap x y l => exact .swap x y l
  | trans _ _ ih1 ih2 => exact .trans ih1 ih2

theorem DeepPerm.of_treePerm {l₁ l₂ : List FsNode} (h : TreePerm l₁ l₂) : DeepPerm l₁ l₂ := by
  induction h with
  | nil => exact .nil
  | file n content _ ih => exact .file n content ih
  | dir n _ _ ih1 ih2 => exact .dir n ih1 ih2
  | swap x y l => exact .swap x y l
  | trans _ _ ih1 ih2 => exact .trans ih1 ih2

theorem DistinctNames.child {l : List FsNode} {n : Str} {ch : List FsNode} (h : DistinctNames l)
    (hm : FsNode.dir n ch ∈ l) : DistinctNames ch :=
  fun q ch' hd => h (n :: q) ch' (.step hm hd)

theorem DistinctNames.nodupTree : ∀ l : List FsNode, DistinctNames l → NodupTree l := by
  intro l
  induction l using fsList_children_induction with
  | step l ih =>
    intro h
    exact nodupTree_of (h [] l (.here l)) (fun n ch hm => ih n ch hm (h.child hm))

theorem DistinctNames.of_nodupTree {l : List FsNode} (h : NodupTree l) : DistinctNames l := by
  intro q ch hd
  induction hd with
  | here l => exact h.names_nodup
  | step hm _ ih => exact ih (h.child hm)

theorem KeptAt.dirAt {c : WalkCfg} {excl : List Str → Bool → Bool} {rel : List Str} {l : List FsNode}
    {q : List Str} {ch : List FsNode} (h : KeptAt c excl rel l q ch) : DirAt l q ch ∧ OpenPath excl rel q := by
  induction h with
  | here rel l => exact ⟨.here l, fun q' d hp => by simp at hp⟩
  | step hm hk _ ih => exact ⟨.step hm ih.1, openPath_cons.mpr ⟨keepsDir_not_excl hk, ih.2⟩⟩

theorem KeptAt.of_dirAt {c : WalkCfg} {excl : List Str → Bool → Bool} (ha : c.autoExclude = false)
    {l : List FsNode} {q : List Str} {ch : List FsNode} (h : DirAt l q ch) :
    ∀ rel, OpenPath excl rel q → KeptAt c excl rel l q ch := by
  induction h with
  | here l => exact fun rel _ => .here rel l
  | step hm _ ih =>
    intro rel ho
    have ho' := openPath_cons.mp ho
    exact .step hm (by rw [keepsDir_of_noAuto ha, ho'.1]; rfl) (ih _ ho'.2)

theorem newWrites_eq (c : WalkCfg) (excl : List Str → Bool → Bool) (pfx : Str) (rel : List Str)
    (listing : List FsNode) (r : RunResult) :
    newWrites c excl pfx rel listing r =
      if r.error = none then (runJobs c pfx (jobsDir c excl rel listing)).writes else [] :=
  walkDir_new_writes c excl pfx rel listing r

theorem newStdout_eq (c : WalkCfg) (excl : List Str → Bool → Bool) (pfx : Str) (rel : List Str)
    (listing : List FsNode) (r : RunResult) :
    newStdout c excl pfx rel listing r =
      if r.error = none then (runJobs c pfx (jobsDir c excl rel listing)).stdout else [] :=
  walkDir_new_stdout c excl pfx rel listing r

/-- every job of a walk belongs to a directory reached through open directories only; a page job belongs to a
    reachable file -/
theorem job_sound {c : WalkCfg} {excl : List Str → Bool → Bool} {rel : List Str} {listing : List FsNode} {j : Job}
    (hj : j ∈ jobsDir c excl rel listing) :
    ∃ q ch, DirAt listing q ch ∧ OpenPath excl rel q ∧
      ((∃ S F, j = .index (rel ++ q) S F) ∨
       (∃ f content, j = .page (rel ++ q) f content ∧ Reachable excl rel listing q f content)) := by
  obtain ⟨q, ch, hk, hd⟩ := jobsDir_sound listing rel hj
  obtain ⟨hda, ho⟩ := hk.dirAt
  refine ⟨q, ch, hda, ho, ?_⟩
  rcases (mem_dirJobs.mp hd).2 with h | ⟨f, content, rfl, _, he, hc, hfind⟩
  · exact .inl ⟨_, _, h⟩
  · exact .inr ⟨f, content, rfl, ch, hda, findFile_some_mem hfind, hc, ho, he⟩

theorem AllRender.of_check {c : WalkCfg} {pfx : Str} {l : List FsNode} :
    ∀ {rel : List Str}, allRenderB c pfx rel l = true → AllRender c pfx rel l := by
  intro rel h q ch f content hd
  induction hd generalizing rel with
  | here l => exact fun hm hc => by simpa using allRenderB_file h hm hc
  | step hm' _ ih =>
    intro hm hc
    simpa [List.append_assoc] using ih (allRenderB_child h hm') hm hc

theorem DistinctNames.of_check {l : List FsNode} (h : nodupTreeB l = true) : DistinctNames l :=
  .of_nodupTree (nodupTree_of_check l h)

/-! ## The property theorems -/

/-- **C15 (1)** an input path that is itself excluded produces no output at all: the run result is returned
    unchanged, whatever the input is (a directory, a file, or missing) -/
theorem C15_root (c : WalkCfg) (excl : List Str → Bool → Bool) (inp : Input) (r : RunResult) :
    document c excl true inp r = (r, false) := rfl

/-- what was written and printed before stays; `newWrites` / `newStdout` is what the walk adds -/
theorem C15_frame (c : WalkCfg) (excl : List Str → Bool → Bool) (pfx : Str) (rel : List Str)
    (listing : List FsNode) (r : RunResult) :
    (walkDir c excl pfx rel listing r).writes = r.writes ++ newWrites c excl pfx rel listing r ∧
    (walkDir c excl pfx rel listing r).stdout = r.stdout ++ newStdout c excl pfx rel listing r :=
  walkDir_frame c excl pfx rel listing r

/-- **C15 (5)** the surviving sub-directories and files of one directory are exactly the entries of the listing
    that match no pattern — however many entries match, adjacent or not -/
theorem C15_count_independent (excl : List Str → Bool → Bool) (rel : List Str) (listing : List FsNode) :
    (∀ n, n ∈ keptDirs excl rel listing ↔ n ∈ dirNames listing ∧ excl (rel ++ [n]) true = false) ∧
    (∀ f, f ∈ keptFileNames excl rel listing ↔ f ∈ fileNames listing ∧ excl (rel ++ [f]) false = false) := by
  simp [keptDirs, keptFileNames]

/-- **C15 (5), tied to the model**: with auto-exclusion off and an output directory, the first thing a walk
    writes is the index page of its directory, and its entries are the sorted survivors `keptDirs`,
    `keptFileNames` (sub-directories only appear in recursive mode, see `indexPage`) -/
theorem C15_count_independent_index (c : WalkCfg) (excl : List Str → Bool → Bool) (pfx : Str) (rel : List Str)
    (listing : List FsNode) (r : RunResult) (hr : r.error = none)
    (ha : c.autoExclude = false) (ht : c.toStdout = false) (hh : c.headers ≠ []) :
    ∃ text, indexPage c pfx rel (sortStrs (keptDirs excl rel listing)) (sortStrs (keptFileNames excl rel listing))
        = .ok text ∧
      (newWrites c excl pfx rel listing r).head? = some ⟨rel ++ [lit "index.rst"], text⟩ := by
  have hk : keepsDir c excl rel listing = fun n => !excl (rel ++ [n]) true := by
    funext n; exact keepsDir_of_noAuto ha
  obtain ⟨hc, hs, hhs⟩ : ∃ hc : Str, ∃ hs, c.headers = hc :: hs := by
    cases h : c.headers with
    | nil => exact absurd h hh
    | cons a b => exact ⟨a, b, rfl⟩
  obtain ⟨text, htext⟩ : ∃ text, indexPage c pfx rel (sortStrs (keptDirs excl rel listing))
      (sortStrs (keptFileNames excl rel listing)) = .ok text := by
    simp [indexPage, hhs]
  refine ⟨text, htext, ?_⟩
  rw [newWrites_eq, if_pos hr, jobsDir_eq]
  have hd : dirJobs c excl rel listing =
      .index rel (sortStrs (keptDirs excl rel listing)) (sortStrs (keptFileNames excl rel listing)) ::
        (sortStrs (survivingFiles excl rel listing)).filterMap (pageJobOf rel listing) := by
    simp [dirJobs, ha, hk, keptDirs, keptFileNames, survivingFiles]
  have hrun : Job.run c pfx (.index rel (sortStrs (keptDirs excl rel listing))
      (sortStrs (keptFileNames excl rel listing))) = { writes := [⟨rel ++ [lit "index.rst"], text⟩] } := by
    simp [Job.run, ht, htext]
  rw [hd, List.cons_append, runJobs, hrun, RunResult.seq_of_ok rfl]
  rfl

/-- **C15 (2), (3 "only if")** every write a walk adds is the index page of a directory of the tree, or the page
    of a file of the tree with a CMake name; no directory on the way down to it is excluded, and in the second
    case the file itself is not excluded.  This holds in every mode (recursive or not, auto-exclusion on or off)
    and also when the run stops early with an error — however many siblings match the patterns. -/
theorem C15_only_if (c : WalkCfg) (excl : List Str → Bool → Bool) (pfx : Str) (rel : List Str)
    (listing : List FsNode) (r : RunResult) (w : Write) (hw : w ∈ newWrites c excl pfx rel listing r) :
    (∃ q ch, DirAt listing q ch ∧ OpenPath excl rel q ∧ w.path = rel ++ q ++ [lit "index.rst"]) ∨
    IsPageWrite c excl pfx rel listing w := by
  rw [newWrites_eq] at hw
  split at hw
  · obtain ⟨j, hj, hwj⟩ := mem_runJobs_writes hw
    obtain ⟨q, ch, hda, ho, h | ⟨f, content, rfl, hre⟩⟩ := job_sound hj
    · obtain ⟨S, F, rfl⟩ := h
      exact .inl ⟨q, ch, hda, ho, (mem_run_index.mp hwj).2.2⟩
    · have := mem_run_page.mp hwj
      exact .inr ⟨q, f, content, hre, this.2.2, by simpa [List.append_assoc] using this.2.1⟩
  · simp at hw

/-- the path of every new write is `rel ++ q ++ [x]` with no excluded directory among `rel ++ q'`, `q'` a
    non-empty prefix of `q` -/
theorem C15_write_path (c : WalkCfg) (excl : List Str → Bool → Bool) (pfx : Str) (rel : List Str)
    (listing : List FsNode) (r : RunResult) (w : Write) (hw : w ∈ newWrites c excl pfx rel listing r) :
    ∃ q x, w.path = rel ++ q ++ [x] ∧ OpenPath excl rel q := by
  rcases C15_only_if c excl pfx rel listing r w hw with ⟨q, _, _, ho, hp⟩ | ⟨q, f, _, ⟨_, _, _, _, ho, _⟩, hp, _⟩
  · exact ⟨q, _, hp, ho⟩
  · exact ⟨q, _, hp, ho⟩

/-- **C15 (2), general form** if a new write lies strictly below a directory `rel ++ q ++ [d]`, that directory
    is not excluded -/
theorem C15_no_descend_deep (c : WalkCfg) (excl : List Str → Bool → Bool) (pfx : Str) (rel : List Str)
    (listing : List FsNode) (r : RunResult) (w : Write) (hw : w ∈ newWrites c excl pfx rel listing r)
    (q : List Str) (d : Str) (rest : List Str) (hrest : rest ≠ [])
    (hp : w.path = rel ++ q ++ [d] ++ rest) : excl (rel ++ q ++ [d]) true = false := by
  obtain ⟨q₀, x, hp₀, ho⟩ := C15_write_path c excl pfx rel listing r w hw
  rw [hp₀, ← List.dropLast_concat_getLast hrest] at hp
  have h1 : rel ++ q₀ ++ [x] = (rel ++ (q ++ [d] ++ rest.dropLast)) ++ [rest.getLast hrest] := by
    rw [hp]; simp [List.append_assoc]
  have h2 := (List.append_inj' h1 rfl).1
  have h3 : q₀ = q ++ [d] ++ rest.dropLast := List.append_cancel_left h2
  exact ho q d (by rw [h3]; exact List.prefix_append _ _)

/-- **C15 (2)** an excluded sub-directory is not descended into: nothing is written below it -/
theorem C15_no_descend (c : WalkCfg) (excl : List Str → Bool → Bool) (pfx : Str) (rel : List Str)
    (listing : List FsNode) (r : RunResult) (n : Str) (hn : excl (rel ++ [n]) true = true)
    (w : Write) (hw : w ∈ newWrites c excl pfx rel listing r) (rest : List Str) (hrest : rest ≠ []) :
    w.path ≠ rel ++ [n] ++ rest := by
  intro hp
  have := C15_no_descend_deep c excl pfx rel listing r w hw [] n rest hrest (by simpa using hp)
  simp [hn] at this

/-- **C15 (2), standard output** what a walk prints is a sequence of pages, each followed by an empty line, and
    each the page of a reachable file: nothing of an excluded directory or file reaches standard output -/
theorem C15_no_descend_stdout (c : WalkCfg) (excl : List Str → Bool → Bool) (pfx : Str) (rel : List Str)
    (listing : List FsNode) (r : RunResult) :
    ∃ ts : List Str,
      (∀ t ∈ ts, ∃ q f content, Reachable excl rel listing q f content ∧
        page c (some pfx) (joinWith ['/'] (rel ++ q ++ [f])) content = .ok t) ∧
      newStdout c excl pfx rel listing r = ts.flatMap (· ++ ['\n', '\n']) := by
  rw [newStdout_eq]
  split
  · obtain ⟨js', hp, _, hs⟩ := runJobs_prefix c pfx (jobsDir c excl rel listing)
    rw [hs]
    apply flatMap_blocks
    intro j hj
    obtain ⟨q, ch, _, _, h | ⟨f, content, rfl, hre⟩⟩ := job_sound (hp.subset hj)
    · obtain ⟨S, F, rfl⟩ := h
      exact .inl (run_index_stdout c pfx _ S F)
    · rcases run_page_stdout c pfx (rel ++ q) f content with h0 | ⟨text, htext, hout⟩
      · exact .inl h0
      · exact .inr ⟨text, ⟨q, f, content, hre, by simpa [List.append_assoc] using htext⟩, hout⟩
  · exact ⟨[], by simp, by simp⟩

/-- **C15 (3 "if")** recursive mode, auto-exclusion off, output directory given, error-free run: every reachable
    file has its page among the new writes -/
theorem C15_if (c : WalkCfg) (excl : List Str → Bool → Bool) (pfx : Str) (rel : List Str)
    (listing : List FsNode) (r : RunResult)
    (hrec : c.recursive = true) (ha : c.autoExclude = false) (ht : c.toStdout = false)
    (hr : r.error = none) (hok : (walkDir c excl pfx rel listing r).error = none)
    (hd : DistinctNames listing)
    (q : List Str) (f content : Str) (hre : Reachable excl rel listing q f content) :
    ∃ text, page c (some pfx) (joinWith ['/'] (rel ++ q ++ [f])) content = .ok text ∧
      (⟨rel ++ q ++ [stem f ++ lit ".rst"], text⟩ : Write) ∈ newWrites c excl pfx rel listing r := by
  obtain ⟨ch, hda, hm, hc, ho, he⟩ := hre
  have hjobs : (runJobs c pfx (jobsDir c excl rel listing)).error = none := by
    rw [walkDir_of_ok c excl pfx rel listing hr] at hok; exact hok
  have hj : Job.page (rel ++ q) f content ∈ jobsDir c excl rel listing := by
    apply jobsDir_complete (KeptAt.of_dirAt ha hda rel ho) (.inl hrec)
    rw [mem_dirJobs]
    refine ⟨by simp [ha], .inr ⟨f, content, rfl, mem_fileNames_iff.mpr ⟨content, hm⟩, he, hc, ?_⟩⟩
    exact findFile_of_mem (fileNames_nodup_of_names (hd q ch hda)) hm
  obtain ⟨text, htext⟩ := run_page_error_none.mp ((runJobs_error_none c pfx _).mp hjobs _ hj)
  refine ⟨text, by simpa [List.append_assoc] using htext, ?_⟩
  rw [newWrites_eq, if_pos hr, (runJobs_of_ok c pfx _ hjobs).1, List.mem_flatMap]
  exact ⟨_, hj, mem_run_page.mpr ⟨ht, htext, rfl⟩⟩

/-- **C15 (3)** recursive mode, auto-exclusion off, output directory given, error-free run, distinct names: the
    set of new writes is exactly the set of index pages of the directories reached without passing an excluded
    directory, together with the pages of the reachable files.  A file or directory is processed if and only if
    it and all directories above it match none of the patterns. -/
theorem C15_iff (c : WalkCfg) (excl : List Str → Bool → Bool) (pfx : Str) (rel : List Str)
    (listing : List FsNode) (r : RunResult)
    (hrec : c.recursive = true) (ha : c.autoExclude = false) (ht : c.toStdout = false)
    (hr : r.error = none) (hok : (walkDir c excl pfx rel listing r).error = none)
    (hd : DistinctNames listing) (w : Write) :
    w ∈ newWrites c excl pfx rel listing r ↔
      IsIndexWrite c excl pfx rel listing w ∨ IsPageWrite c excl pfx rel listing w := by
  have hjobs : (runJobs c pfx (jobsDir c excl rel listing)).error = none := by
    rw [walkDir_of_ok c excl pfx rel listing hr] at hok; exact hok
  have hk : ∀ rel' ch, sortStrs ((dirNames ch).filter (keepsDir c excl rel' ch)) = sortStrs (keptDirs excl rel' ch) := by
    intro rel' ch
    have : keepsDir c excl rel' ch = fun n => !excl (rel' ++ [n]) true := by
      funext n; exact keepsDir_of_noAuto ha
    rw [this]; rfl
  constructor
  · intro hw
    rw [newWrites_eq, if_pos hr] at hw
    obtain ⟨j, hj, hwj⟩ := mem_runJobs_writes hw
    obtain ⟨q, ch, hkept, hdj⟩ := jobsDir_sound listing rel hj
    obtain ⟨hda, ho⟩ := hkept.dirAt
    rcases (mem_dirJobs.mp hdj).2 with rfl | ⟨f, content, rfl, _, he, hc, hfind⟩
    · left
      have := mem_run_index.mp hwj
      refine ⟨q, ch, hda, ho, this.2.2, ?_⟩
      rw [← hk]; exact this.2.1
    · right
      have := mem_run_page.mp hwj
      exact ⟨q, f, content, ⟨ch, hda, findFile_some_mem hfind, hc, ho, he⟩, this.2.2,
        by simpa [List.append_assoc] using this.2.1⟩
  · rintro (⟨q, ch, hda, ho, hp, hidx⟩ | ⟨q, f, content, hre, hp, hpage⟩)
    · rw [newWrites_eq, if_pos hr, (runJobs_of_ok c pfx _ hjobs).1, List.mem_flatMap]
      refine ⟨.index (rel ++ q) (sortStrs ((dirNames ch).filter (keepsDir c excl (rel ++ q) ch)))
        (sortStrs (survivingFiles excl (rel ++ q) ch)), ?_, ?_⟩
      · apply jobsDir_complete (KeptAt.of_dirAt ha hda rel ho) (.inl hrec)
        rw [mem_dirJobs]
        exact ⟨by simp [ha], .inl rfl⟩
      · rw [mem_run_index, hk]
        exact ⟨ht, hidx, hp⟩
    · obtain ⟨text, htext, hmem⟩ := C15_if c excl pfx rel listing r hrec ha ht hr hok hd q f content hre
      have : w = ⟨rel ++ q ++ [stem f ++ lit ".rst"], text⟩ := by
        obtain ⟨p, t⟩ := w
        simp only at hp hpage
        rw [htext] at hpage
        cases hpage; rw [hp]
      rw [this]; exact hmem

/-- "error-free" follows from "every page renders and there is a heading character" -/
theorem C15_errorfree (c : WalkCfg) (excl : List Str → Bool → Bool) (pfx : Str) (rel : List Str)
    (listing : List FsNode) (r : RunResult) (hr : r.error = none) (hh : c.headers ≠ [])
    (hall : AllRender c pfx rel listing) : (walkDir c excl pfx rel listing r).error = none := by
  rw [walkDir_of_ok c excl pfx rel listing hr]
  show (runJobs c pfx (jobsDir c excl rel listing)).error = none
  rw [runJobs_error_none]
  intro j hj
  obtain ⟨q, ch, _, _, h | ⟨f, content, rfl, ⟨ch', hda, hm, hc, _, _⟩⟩⟩ := job_sound hj
  · obtain ⟨S, F, rfl⟩ := h
    exact run_index_error_none.mpr (.inr hh)
  · obtain ⟨text, htext⟩ := hall q ch' f content hda hm hc
    exact run_page_error_none.mpr ⟨text, by simpa [List.append_assoc] using htext⟩

/-! ### order of the directory listings -/

/-- every listing is a `DeepPerm` of itself -/
theorem C15_deepPerm_refl (l : List FsNode) : DeepPerm l l := .of_treePerm (TreePerm.refl l)

theorem C15_deepPerm_symm {l₁ l₂ : List FsNode} (h : DeepPerm l₁ l₂) : DeepPerm l₂ l₁ :=
  .of_treePerm h.treePerm.symm

/-- an ordinary permutation of the top-level listing is a `DeepPerm` -/
theorem C15_deepPerm_of_perm {l₁ l₂ : List FsNode} (h : l₁.Perm l₂) : DeepPerm l₁ l₂ :=
  .of_treePerm (TreePerm.of_perm h)

/-- `DistinctNames` and `AllRender` do not depend on the listing order -/
theorem C15_distinctNames_deepPerm {l₁ l₂ : List FsNode} (h : DeepPerm l₁ l₂) (hd : DistinctNames l₁) :
    DistinctNames l₂ :=
  .of_nodupTree (h.treePerm.nodupTree (hd.nodupTree l₁))

/-- **C15 (4), error status** whether a walk ends with an error does not depend on the order in which the
    entries of the directories are listed -/
theorem C15_order_error (c : WalkCfg) (excl : List Str → Bool → Bool) (pfx : Str) (rel : List Str)
    {l₁ l₂ : List FsNode} (h : DeepPerm l₁ l₂) (hd : DistinctNames l₁) (r : RunResult) :
    (walkDir c excl pfx rel l₁ r).error = none ↔ (walkDir c excl pfx rel l₂ r).error = none := by
  by_cases hr : r.error = none
  · rw [walkDir_of_ok c excl pfx rel l₁ hr, walkDir_of_ok c excl pfx rel l₂ hr]
    exact (runJobs_perm c pfx (h.treePerm.jobsDir (hd.nodupTree l₁) c excl rel)).1
  · rw [walkDir_of_error hr, walkDir_of_error hr]

/-- **C15 (4)** an error-free walk over the same tree listed in a different order performs the same writes —
    every index page and every page with the same path and the same text — possibly in a different order.
    (False for the code before repair D6, see `C15_old.lean`.) -/
theorem C15_order (c : WalkCfg) (excl : List Str → Bool → Bool) (pfx : Str) (rel : List Str)
    {l₁ l₂ : List FsNode} (h : DeepPerm l₁ l₂) (hd : DistinctNames l₁) (r : RunResult)
    (hok : (walkDir c excl pfx rel l₁ r).error = none) :
    (walkDir c excl pfx rel l₁ r).writes.Perm (walkDir c excl pfx rel l₂ r).writes := by
  by_cases hr : r.error = none
  · rw [walkDir_of_ok c excl pfx rel l₁ hr] at hok ⊢
    rw [walkDir_of_ok c excl pfx rel l₂ hr]
    exact List.Perm.append_left _
      ((runJobs_perm c pfx (h.treePerm.jobsDir (hd.nodupTree l₁) c excl rel)).2 hok)
  · rw [walkDir_of_error hr, walkDir_of_error hr]

/-- **C15 (4), pointwise** a write (path and text) is made by the one walk iff it is made by the other -/
theorem C15_order_mem (c : WalkCfg) (excl : List Str → Bool → Bool) (pfx : Str) (rel : List Str)
    {l₁ l₂ : List FsNode} (h : DeepPerm l₁ l₂) (hd : DistinctNames l₁) (r : RunResult)
    (hok : (walkDir c excl pfx rel l₁ r).error = none) (w : Write) :
    w ∈ (walkDir c excl pfx rel l₁ r).writes ↔ w ∈ (walkDir c excl pfx rel l₂ r).writes :=
  (C15_order c excl pfx rel h hd r hok).mem_iff

/-- **C15 (4), new writes** the same for the writes the walks add -/
theorem C15_order_new (c : WalkCfg) (excl : List Str → Bool → Bool) (pfx : Str) (rel : List Str)
    {l₁ l₂ : List FsNode} (h : DeepPerm l₁ l₂) (hd : DistinctNames l₁) (r : RunResult)
    (hok : (walkDir c excl pfx rel l₁ r).error = none) :
    (newWrites c excl pfx rel l₁ r).Perm (newWrites c excl pfx rel l₂ r) := by
  rw [newWrites_eq, newWrites_eq]
  split
  · rename_i hr
    rw [walkDir_of_ok c excl pfx rel l₁ hr] at hok
    exact (runJobs_perm c pfx (h.treePerm.jobsDir (hd.nodupTree l₁) c excl rel)).2 hok
  · exact .refl _

/-- **C15 (4), standard output** without an output directory the pages of different directories are printed in
    listing order; an error-free walk over the re-ordered tree prints the same blocks of text, possibly in a
    different order -/
theorem C15_order_stdout (c : WalkCfg) (excl : List Str → Bool → Bool) (pfx : Str) (rel : List Str)
    {l₁ l₂ : List FsNode} (h : DeepPerm l₁ l₂) (hd : DistinctNames l₁) (r : RunResult)
    (hok : (walkDir c excl pfx rel l₁ r).error = none) :
    ∃ b₁ b₂ : List Str, b₁.Perm b₂ ∧
      newStdout c excl pfx rel l₁ r = b₁.flatten ∧ newStdout c excl pfx rel l₂ r = b₂.flatten ∧
      ∀ b ∈ b₁, b = [] ∨ ∃ q f content text, Reachable excl rel l₁ q f content ∧
        page c (some pfx) (joinWith ['/'] (rel ++ q ++ [f])) content = .ok text ∧ b = text ++ ['\n', '\n'] := by
  rw [newStdout_eq, newStdout_eq]
  split
  · rename_i hr
    rw [walkDir_of_ok c excl pfx rel l₁ hr] at hok
    have hperm := h.treePerm.jobsDir (hd.nodupTree l₁) c excl rel
    have hok₂ := (runJobs_perm c pfx hperm).1.mp hok
    refine ⟨(jobsDir c excl rel l₁).map (fun j => (j.run c pfx).stdout),
      (jobsDir c excl rel l₂).map (fun j => (j.run c pfx).stdout), hperm.map _, ?_, ?_, ?_⟩
    · rw [(runJobs_of_ok c pfx _ hok).2, List.flatMap_def]
    · rw [(runJobs_of_ok c pfx _ hok₂).2, List.flatMap_def]
    · intro b hb
      obtain ⟨j, hj, rfl⟩ := List.mem_map.mp hb
      obtain ⟨q, ch, _, _, h | ⟨f, content, rfl, hre⟩⟩ := job_sound hj
      · obtain ⟨S, F, rfl⟩ := h
        exact .inl (run_index_stdout c pfx _ S F)
      · rcases run_page_stdout c pfx (rel ++ q) f content with h0 | ⟨text, htext, hout⟩
        · exact .inl h0
        · exact .inr ⟨q, f, content, text, hre, by simpa [List.append_assoc] using htext, hout⟩
  · exact ⟨[], [], .refl _, by simp, by simp, by simp⟩

/-! ### counterexamples to stronger statements -/

/-- the literal form of C15 (2) fails for an excluded directory called `index.rst`: the index page of its
    parent is written to that very path (but nothing below it, `C15_no_descend`) -/
theorem C15_no_descend_needs_strict :
    ∃ (c : WalkCfg) (excl : List Str → Bool → Bool) (pfx : Str) (rel : List Str) (listing : List FsNode)
      (r : RunResult) (n : Str) (w : Write),
      FsNode.dir n [] ∈ listing ∧ excl (rel ++ [n]) true = true ∧
      w ∈ newWrites c excl pfx rel listing r ∧ w.path = rel ++ [n] := by
  obtain ⟨text, _, h⟩ := C15_count_independent_index { autoExclude := false } (fun _ d => d) (lit "p") []
    [.dir (lit "index.rst") []] {} rfl rfl rfl (by decide)
  exact ⟨_, _, _, _, _, _, lit "index.rst", _, by simp, rfl, List.mem_of_mem_head? h, rfl⟩

/-- the literal form of C15 (3 "only if") fails when an excluded and a kept file of one directory have the same
    stem and the same page text: the write "of" the excluded `a.cmake` is there, made for `a.CMAKE` -/
theorem C15_iff_literal_false :
    ∃ (c : WalkCfg) (excl : List Str → Bool → Bool) (pfx : Str) (listing : List FsNode) (f content text : Str),
      c.recursive = true ∧ c.autoExclude = false ∧ c.toStdout = false ∧ DistinctNames listing ∧
      (walkDir c excl pfx [] listing {}).error = none ∧
      FsNode.file f content ∈ listing ∧ isCMakeName f = true ∧
      page c (some pfx) (joinWith ['/'] ([] ++ [] ++ [f])) content = .ok text ∧
      (⟨[] ++ [] ++ [stem f ++ lit ".rst"], text⟩ : Write) ∈ newWrites c excl pfx [] listing {} ∧
      ¬ Reachable excl [] listing [] f content := by
  let c : WalkCfg := { recursive := true, autoExclude := false }
  let excl : List Str → Bool → Bool := fun p d => !d && p == [lit "a.cmake"]
  let listing : List FsNode := [.file (lit "a.cmake") [], .file (lit "a.CMAKE") []]
  have hd : DistinctNames listing := .of_check (by decide)
  have hok : (walkDir c excl (lit "p") [] listing {}).error = none :=
    C15_errorfree c excl (lit "p") [] listing {} rfl (by decide) (.of_check (by decide))
  have hre : Reachable excl [] listing [] (lit "a.CMAKE") [] :=
    ⟨listing, .here _, by simp [listing], by decide, fun q' d hp => by simp at hp, by decide⟩
  obtain ⟨text, htext, hmem⟩ := C15_if c excl (lit "p") [] listing {} rfl rfl rfl rfl hok hd _ _ _ hre
  have hsame : page c (some (lit "p")) (joinWith ['/'] ([] ++ [] ++ [lit "a.cmake"])) [] =
      page c (some (lit "p")) (joinWith ['/'] ([] ++ [] ++ [lit "a.CMAKE"])) [] := by
    unfold page pageNames
    have : dropCMakeExt (withPrefix (some (lit "p")) c.sep (joinWith ['/'] ([] ++ [] ++ [lit "a.cmake"]))) =
        dropCMakeExt (withPrefix (some (lit "p")) c.sep (joinWith ['/'] ([] ++ [] ++ [lit "a.CMAKE"]))) := by decide
    simp only [show c.extTitles = false from rfl, show c.extModules = false from rfl, Bool.false_eq_true, if_false, this]
  refine ⟨c, excl, lit "p", listing, lit "a.cmake", [], text, rfl, rfl, rfl, hd, hok, by simp [listing], by decide,
    hsame.trans htext, ?_, ?_⟩
  · have : stem (lit "a.cmake") = stem (lit "a.CMAKE") := by decide
    rw [this]; exact hmem
  · rintro ⟨_, _, _, _, _, he⟩
    revert he; decide

/-- without `DistinctNames` the order of a listing matters: of two entries with the same name the first one is
    read (`findFile`), so swapping them changes what is documented — here, whether the run fails -/
theorem C15_order_needs_distinct :
    ∃ (c : WalkCfg) (excl : List Str → Bool → Bool) (pfx : Str) (l₁ l₂ : List FsNode),
      DeepPerm l₁ l₂ ∧ (walkDir c excl pfx [] l₁ {}).error = none ∧ (walkDir c excl pfx [] l₂ {}).error ≠ none := by
  let c : WalkCfg := { recursive := true, autoExclude := false }
  let excl : List Str → Bool → Bool := fun _ _ => false
  let x : FsNode := .file (lit "a.cmake") []
  let y : FsNode := .file (lit "a.cmake") (lit "(")
  refine ⟨c, excl, lit "p", [x, y], [y, x], .swap x y [], ?_, ?_⟩
  · rw [walkDir_of_ok c excl (lit "p") [] _ rfl]
    show (runJobs c (lit "p") (jobsDir c excl [] [x, y])).error = none
    rw [runJobs_error_none]
    intro j hj
    obtain ⟨q, ch, hk, hdj⟩ := jobsDir_sound _ _ hj
    cases hk with
    | step hm _ _ => simp [x, y] at hm
    | here =>
      rcases (mem_dirJobs.mp hdj).2 with rfl | ⟨f, content, rfl, hf, _, _, hfind⟩
      · exact run_index_error_none.mpr (.inr (by decide))
      · have hf' : f = lit "a.cmake" := by simpa [fileNames, x, y] using hf
        subst hf'
        have : content = [] := by
          have h0 : findFile (lit "a.cmake") [x, y] = some [] := by decide
          rw [h0] at hfind; exact (Option.some.inj hfind).symm
        subst this
        have hok : (page c (some (lit "p")) (joinWith ['/'] ([] ++ [] ++ [lit "a.cmake"])) []).toBool = true := by
          decide
        apply run_page_error_none.mpr
        cases hp : page c (some (lit "p")) (joinWith ['/'] ([] ++ [] ++ [lit "a.cmake"])) [] with
        | ok text => exact ⟨text, rfl⟩
        | error e => rw [hp] at hok; simp [Except.toBool] at hok
  · intro h
    rw [walkDir_of_ok c excl (lit "p") [] _ rfl] at h
    have h' : (runJobs c (lit "p") (jobsDir c excl [] [y, x])).error = none := h
    rw [runJobs_error_none] at h'
    have hj : Job.page [] (lit "a.cmake") (lit "(") ∈ jobsDir c excl [] [y, x] := by
      rw [mem_jobsDir]; left
      rw [mem_dirJobs]
      exact ⟨by decide, .inr ⟨_, _, rfl, by decide, rfl, by decide, by decide⟩⟩
    obtain ⟨text, htext⟩ := run_page_error_none.mp (h' _ hj)
    have hbad : (page c (some (lit "p")) (joinWith ['/'] ([] ++ [lit "a.cmake"])) (lit "(")).toBool = false := by
      decide
    rw [htext] at hbad
    simp [Except.toBool] at hbad

/-! ## Non-vacuity: the theorems on a concrete tree -/

namespace C15Example

def cfg : WalkCfg := { recursive := true, autoExclude := false }

def src : List FsNode :=
  [ .file (lit "aa.cmake") [], .file (lit "ab.cmake") [], .file (lit "ac.cmake") [],
    .file (lit "keep.cmake") [], .dir (lit "deep") [ .file (lit "d.cmake") [] ] ]

/-- two levels below the input; in `src` the three adjacent siblings `aa.cmake`, `ab.cmake`, `ac.cmake` all
    match the pattern `src/a*`; the directory `build` and the file `skip.cmake` are excluded -/
def tree : List FsNode :=
  [ .file (lit "top.cmake") [],
    .dir (lit "build") [ .file (lit "gen.cmake") [] ],
    .dir (lit "src") src,
    .file (lit "skip.cmake") [] ]

def excl : List Str → Bool → Bool := fun p d =>
  (d && p == [lit "build"]) || (!d && p == [lit "skip.cmake"]) ||
  (!d && p.length == 2 && p.head? == some (lit "src") && (p.getLast?.getD []).head? == some 'a')

/-- the same tree as the operating system might list it on another day -/
def tree' : List FsNode :=
  [ .dir (lit "src") src.reverse, .file (lit "skip.cmake") [],
    .file (lit "top.cmake") [], .dir (lit "build") [ .file (lit "gen.cmake") [] ] ]

theorem distinct : DistinctNames tree := .of_check (by decide)
theorem renders : AllRender cfg (lit "p") [] tree := .of_check (by decide)
theorem errorfree : (walkDir cfg excl (lit "p") [] tree {}).error = none :=
  C15_errorfree cfg excl (lit "p") [] tree {} rfl (by decide) renders

theorem deepPerm : DeepPerm tree tree' :=
  .trans
    (.file _ _ (.dir _ (C15_deepPerm_refl _) (.dir _ (C15_deepPerm_of_perm (List.reverse_perm src).symm)
      (C15_deepPerm_refl _))))
    (C15_deepPerm_of_perm (List.perm_append_comm (l₁ := [_, _]) (l₂ := [_, _])))

-- (5) of the five files of `src`, three adjacent ones match; exactly the fourth survives
example : keptFileNames excl [lit "src"] src = [lit "keep.cmake"] := by decide
example : keptDirs excl [] tree = [lit "src"] := by decide
example : keptFileNames excl [] tree = [lit "top.cmake"] := by decide

-- (1)
example : document cfg excl true (.dir (lit "in") tree) {} = ({}, false) := C15_root _ _ _ _

-- (2) nothing is written below `build`
example (w : Write) (hw : w ∈ newWrites cfg excl (lit "p") [] tree {}) (rest : List Str) (h : rest ≠ []) :
    w.path ≠ [lit "build"] ++ rest :=
  C15_no_descend cfg excl (lit "p") [] tree {} (lit "build") (by decide) w hw rest h

theorem reach_keep : Reachable excl [] tree [lit "src"] (lit "keep.cmake") [] :=
  ⟨src, .step (n := lit "src") (ch := src) (by simp [tree]) (.here _), by simp [src], by decide,
    openPath_cons.mpr ⟨by decide, fun q' d hp => by simp at hp⟩, by decide⟩

theorem reach_d : Reachable excl [] tree [lit "src", lit "deep"] (lit "d.cmake") [] :=
  ⟨_, .step (ch := src) (by simp [tree]) (.step (ch := [ .file (lit "d.cmake") [] ]) (by simp [src]) (.here _)),
    by simp, by decide,
    openPath_cons.mpr ⟨by decide, openPath_cons.mpr ⟨by decide, fun q' d hp => by simp at hp⟩⟩, by decide⟩

-- (3) the reachable files are written …
example : ∃ text, page cfg (some (lit "p")) (lit "src/keep.cmake") [] = .ok text ∧
    (⟨[lit "src", lit "keep.rst"], text⟩ : Write) ∈ newWrites cfg excl (lit "p") [] tree {} :=
  C15_if cfg excl (lit "p") [] tree {} rfl rfl rfl rfl errorfree distinct _ _ _ reach_keep

example : ∃ text, page cfg (some (lit "p")) (lit "src/deep/d.cmake") [] = .ok text ∧
    (⟨[lit "src", lit "deep", lit "d.rst"], text⟩ : Write) ∈ newWrites cfg excl (lit "p") [] tree {} :=
  C15_if cfg excl (lit "p") [] tree {} rfl rfl rfl rfl errorfree distinct _ _ _ reach_d

-- … the excluded ones are not reachable, although `ab.cmake` follows a removed entry and precedes another one
example (content : Str) : ¬ Reachable excl [] tree [lit "src"] (lit "ab.cmake") content := by
  rintro ⟨_, _, _, _, _, he⟩
  revert he; decide

example (q : List Str) (f content : Str) : ¬ Reachable excl [] tree (lit "build" :: q) f content := by
  rintro ⟨_, _, _, _, ho, _⟩
  have := (openPath_cons.mp ho).1
  revert this; decide

-- (3) the whole characterisation applies to this tree
example (w : Write) : w ∈ newWrites cfg excl (lit "p") [] tree {} ↔
    IsIndexWrite cfg excl (lit "p") [] tree w ∨ IsPageWrite cfg excl (lit "p") [] tree w :=
  C15_iff cfg excl (lit "p") [] tree {} rfl rfl rfl rfl errorfree distinct w

-- (4) the re-ordered tree gives the same writes
example : (walkDir cfg excl (lit "p") [] tree {}).writes.Perm (walkDir cfg excl (lit "p") [] tree' {}).writes :=
  C15_order cfg excl (lit "p") [] deepPerm distinct {} errorfree

example : (walkDir cfg excl (lit "p") [] tree' {}).error = none :=
  (C15_order_error cfg excl (lit "p") [] deepPerm distinct {}).mp errorfree

end C15Example

end Cminx
