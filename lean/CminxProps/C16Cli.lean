import CminxModel.Cli
import CminxProps.C16
/-!
# C16 — the command line as the highest-priority source

"…including options only settable from files and the four settable from the command line (-o, -r, -p, -e)."
`Cli.cliSource` is what `set_args(args, dots=True)` keeps of the parsed command line; these theorems say that a flag that is given wins
over every file, that a flag that is absent leaves the lower sources visible (argparse yields `None`, confuse skips it — also for `-r`,
which is never `False`), that an empty value is a value, and that `-e` patterns come first in the union.
-/
namespace Cminx

/-! the four dotted names are pairwise different (closed comparisons of literals) -/
private theorem k_od_rp : (lit "output.directory" == lit "rst.prefix") = false := by decide
private theorem k_ir_rp : (lit "input.recursive" == lit "rst.prefix") = false := by decide
private theorem k_od_ir : (lit "output.directory" == lit "input.recursive") = false := by decide
private theorem k_rp_od : (lit "rst.prefix" == lit "output.directory") = false := by decide
private theorem k_rp_ir : (lit "rst.prefix" == lit "input.recursive") = false := by decide
private theorem k_ir_od : (lit "input.recursive" == lit "output.directory") = false := by decide
private theorem k_fk_rp : (filtersKey == lit "rst.prefix") = false := by decide
private theorem k_fk_od : (filtersKey == lit "output.directory") = false := by decide
private theorem k_fk_ir : (filtersKey == lit "input.recursive") = false := by decide
private theorem k_od_fk : (lit "output.directory" == filtersKey) = false := by decide
private theorem k_ir_fk : (lit "input.recursive" == filtersKey) = false := by decide
private theorem k_rp_fk : (lit "rst.prefix" == filtersKey) = false := by decide

/-- a source that does not set the option is transparent -/
theorem effective_cons_none (s : Source) (rest : List Source) (k : Str) (h : s.get k = none) :
    effective (s :: rest) k = effective rest k := by
  simp [effective, h]

/-- the command-line source sets the exclude filters iff `-e` was given, to the list of all its values in order -/
theorem cliSource_get_filters (p : Parsed) :
    (cliSource p).get filtersKey =
      if p.excludes.isEmpty then none else some (.list (p.excludes.map CVal.str)) := by
  cases ho : p.output <;> cases hr : p.recursive <;> cases hp : p.pfx <;> cases he : p.excludes <;>
    simp [cliSource, Source.get, ho, hr, hp, he, k_od_fk, k_ir_fk, k_rp_fk]

theorem C16_cli_prefix_wins (p : Parsed) (v : Str) (h : p.pfx = some v) (rest : List Source) :
    effective (cliSource p :: rest) (lit "rst.prefix") = some (.str v) := by
  cases ho : p.output <;> cases hr : p.recursive <;>
    simp [effective, cliSource, Source.get, h, ho, hr, k_od_rp, k_ir_rp]

theorem C16_cli_output_wins (p : Parsed) (v : Str) (h : p.output = some v) (rest : List Source) :
    effective (cliSource p :: rest) (lit "output.directory") = some (.str v) := by
  simp [effective, cliSource, Source.get, h]

theorem C16_cli_recursive_wins (p : Parsed) (h : p.recursive = true) (rest : List Source) :
    effective (cliSource p :: rest) (lit "input.recursive") = some (.bool true) := by
  cases ho : p.output <;> simp [effective, cliSource, Source.get, h, ho, k_od_ir]

/-- an option absent from the command line does not exist in that source: the lower sources show through -/
theorem C16_cli_prefix_absent (p : Parsed) (h : p.pfx = none) (rest : List Source) :
    effective (cliSource p :: rest) (lit "rst.prefix") = effective rest (lit "rst.prefix") := by
  apply effective_cons_none
  cases ho : p.output <;> cases hr : p.recursive <;> cases he : p.excludes <;>
    simp [cliSource, Source.get, h, ho, hr, he, k_od_rp, k_ir_rp, k_fk_rp]

theorem C16_cli_output_absent (p : Parsed) (h : p.output = none) (rest : List Source) :
    effective (cliSource p :: rest) (lit "output.directory") = effective rest (lit "output.directory") := by
  apply effective_cons_none
  cases hp : p.pfx <;> cases hr : p.recursive <;> cases he : p.excludes <;>
    simp [cliSource, Source.get, h, hp, hr, he, k_rp_od, k_ir_od, k_fk_od]

/-- `-r` absent is *unset*, not `false`: a file that says `recursive: true` is honoured -/
theorem C16_cli_recursive_absent (p : Parsed) (h : p.recursive = false) (rest : List Source) :
    effective (cliSource p :: rest) (lit "input.recursive") = effective rest (lit "input.recursive") := by
  apply effective_cons_none
  cases hp : p.pfx <;> cases ho : p.output <;> cases he : p.excludes <;>
    simp [cliSource, Source.get, h, hp, ho, he, k_rp_ir, k_od_ir, k_fk_ir]

/-- nothing but the four options can come from the command line -/
theorem C16_cli_only_four (p : Parsed) (k : Str) (h1 : k ≠ lit "output.directory") (h2 : k ≠ lit "input.recursive")
    (h3 : k ≠ lit "rst.prefix") (h4 : k ≠ filtersKey) : (cliSource p).get k = none := by
  have e1 : (lit "output.directory" == k) = false := by simpa using Ne.symm h1
  have e2 : (lit "input.recursive" == k) = false := by simpa using Ne.symm h2
  have e3 : (lit "rst.prefix" == k) = false := by simpa using Ne.symm h3
  have e4 : (filtersKey == k) = false := by simpa using Ne.symm h4
  cases hp : p.pfx <;> cases ho : p.output <;> cases hr : p.recursive <;> cases he : p.excludes <;>
    simp [cliSource, Source.get, hp, ho, hr, he, e1, e2, e3, e4]

/-- `-e` patterns come first in the union, in command-line order -/
theorem C16_cli_filters_first (p : Parsed) (hne : p.excludes ≠ []) (sf user : Source) (b c : List CVal)
    (h2 : sf.get filtersKey = some (.list b)) (h3 : user.get filtersKey = some (.list c)) :
    allContents [cliSource p, sf, user] filtersKey = p.excludes.map CVal.str ++ b ++ c := by
  have h1 := cliSource_get_filters p
  have : p.excludes.isEmpty = false := by cases he : p.excludes <;> simp_all
  rw [this] at h1
  simp [allContents, h1, h2, h3]

theorem C16_cli_filters_absent (p : Parsed) (he : p.excludes = []) (sf user : Source) :
    allContents [cliSource p, sf, user] filtersKey = allContents [sf, user] filtersKey := by
  have h1 := cliSource_get_filters p
  rw [he] at h1
  simp [allContents, h1]

/-- every `-e`/`--exclude` on the command line contributes its value, in order; the other fields are untouched -/
theorem C16_cli_exclude_appends (f v : Str) (hf : f = lit "-e" ∨ f = lit "--exclude") (hv : optLike v = false)
    (rest : List Str) (p : Parsed) :
    parseArgv (f :: v :: rest) p =
      parseArgv rest { (if p.files.isEmpty then p else { p with filesDone := true }) with
        excludes := p.excludes ++ [v] } := by
  rcases hf with rfl | rfl <;> (rw [parseArgv.eq_def]; simp +decide [hv]) <;> split <;> rfl

/-- an option whose "value" is itself an option string is a usage error, whatever follows -/
theorem C16_cli_value_missing (f v : Str) (hf : f ∈ [lit "-o", lit "--output", lit "-p", lit "--prefix", lit "-s", lit "--settings", lit "-e", lit "--exclude"])
    (hv : optLike v = true) (rest : List Str) (p : Parsed) : parseArgv (f :: v :: rest) p = none := by
  simp only [List.mem_cons, List.not_mem_nil, or_false] at hf
  rcases hf with rfl | rfl | rfl | rfl | rfl | rfl | rfl | rfl <;> (rw [parseArgv.eq_def]; simp +decide [hv])

/-- input paths in two places are a usage error: `files` is one contiguous run -/
theorem C16_cli_split_inputs (a : Str) (ha : dashy a = false) (hk : knownOpts.contains a = false) (rest : List Str) (p : Parsed)
    (hd : p.filesDone = true) : parseArgv (a :: rest) p = none := by
  have hi : ∀ o : Str, knownOpts.contains o = true → a ≠ o := fun o ho e => by rw [e, ho] at hk; cases hk
  have h1 := hi (lit "-r") (by decide); have h2 := hi (lit "--recursive") (by decide)
  have h3 := hi (lit "-o") (by decide); have h4 := hi (lit "--output") (by decide)
  have h5 := hi (lit "-p") (by decide); have h6 := hi (lit "--prefix") (by decide)
  have h7 := hi (lit "-s") (by decide); have h8 := hi (lit "--settings") (by decide)
  have h9 := hi (lit "-e") (by decide); have h10 := hi (lit "--exclude") (by decide)
  rw [parseArgv.eq_def]; simp [h1, h2, h3, h4, h5, h6, h7, h8, h9, h10, ha, hd]

/-! an empty value is a value; `-r` never yields `false`; kernel-evaluated command lines -/
example : (parseArgv [lit "in", lit "-p", []] {}).map (fun p => (p.pfx, (cliSource p).map (·.1))) = some (some [], [lit "rst.prefix"]) := by decide +kernel
example : (parseArgv [lit "in", lit "-r", lit "-e", lit "a", lit "--exclude", lit "b"] {}).map (fun p => (p.recursive, p.excludes, (cliSource p).map (·.1))) =
    some (true, [lit "a", lit "b"], [lit "input.recursive", filtersKey]) := by decide +kernel
example : (parseArgv [lit "in"] {}).map (fun p => (cliSource p).map (·.1)) = some [] := by decide +kernel
example : parseArgv [lit "a", lit "-r", lit "b"] {} = none := by decide +kernel
example : parseArgv [lit "a", lit "-p", lit "-x"] {} = none := by decide +kernel
example : (parseArgv [lit "a", lit "-p", lit "-1"] {}).map (·.pfx) = some (some (lit "-1")) := by decide +kernel

/-! ## from the argument vector to the settings handed to `document` (`mainSettings`) -/

theorem mapM_except_mem {α β ε : Type} (f : α → Except ε β) :
    ∀ (l : List α) (out : List β), l.mapM f = .ok out → ∀ a ∈ l, ∃ b ∈ out, f a = .ok b := by
  intro l
  induction l with
  | nil => intro out _ a ha; cases ha
  | cons x xs ih =>
    intro out h a ha
    simp only [List.mapM_cons] at h
    cases hx : f x with
    | error e => simp [hx, bind, Except.bind] at h
    | ok b =>
      cases hxs : xs.mapM f with
      | error e => simp [hx, hxs, bind, Except.bind] at h
      | ok bs =>
        simp [hx, hxs, bind, Except.bind, pure, Except.pure] at h
        subst h
        rcases List.mem_cons.mp ha with rfl | ha'
        · exact ⟨b, by simp, hx⟩
        · obtain ⟨b', hb', hf⟩ := ih bs hxs a ha'
          exact ⟨b', by simp [hb'], hf⟩

/-- a successful resolution returns, for every option of the table, the value in effect -/
theorem C16_resolveAll_lookup (sources : List Source) (vals : List (Str × Option CVal))
    (h : resolveAll sources = .ok vals) (k : Str) (ty : CType) (hk : (k, ty) ∈ optionTable) :
    (k, effective sources k) ∈ vals := by
  unfold resolveAll at h
  obtain ⟨b, hb, hf⟩ := mapM_except_mem _ optionTable vals h (k, ty) hk
  simp only [resolveOpt] at hf
  cases he : effective sources k with
  | none => simp [he, bind, Except.bind, pure, Except.pure] at hf; subst hf; simpa [he] using hb
  | some v =>
    by_cases ha : ty.accepts v = true
    · simp [he, ha, bind, Except.bind, pure, Except.pure] at hf; subst hf; simpa [he] using hb
    · simp [he, ha, bind, Except.bind] at hf

/-- from the argument vector to the settings handed to `document`: a prefix given with `-p` is the prefix in effect, whatever the
    `-s` file, the user file and the defaults say -/
theorem C16_main_prefix_from_argv (argv : List Str) (sfile : Str → Source) (user defaults : Source)
    (files : List Str) (vals : List (Str × Option CVal)) (filters : List CVal)
    (h : mainSettings argv sfile user defaults = some (.ok (files, vals, filters)))
    (p : Parsed) (hp : parseArgv argv {} = some p) (v : Str) (hv : p.pfx = some v) :
    (lit "rst.prefix", some (CVal.str v)) ∈ vals ∧ files = p.files := by
  unfold mainSettings at h
  rw [hp] at h
  simp only [Option.some.injEq] at h
  split at h
  · cases h
  · rename_i vals' filters' hr
    simp only [Except.ok.injEq, Prod.mk.injEq] at h
    obtain ⟨hfiles, hvals, _⟩ := h
    subst hvals
    refine ⟨?_, hfiles.symm⟩
    obtain ⟨_, _, hall⟩ := C16_filters_main _ _ _ hr
    have := C16_resolveAll_lookup _ _ hall (lit "rst.prefix") .optStr (by decide)
    rwa [C16_cli_prefix_wins p v hv] at this

end Cminx
