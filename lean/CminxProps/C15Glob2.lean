import CminxProps.C15Glob
/-!
# C15 (gitignore rules), continued: `**` at the end and in front of a directory pattern, suffix globs, and what is outside the model
-/
namespace Cminx
namespace Glob

/-! ### helper lemmas -/

theorem lit_slash_dstar : lit "/**" = '/' :: dstar := by decide

theorem compileCore_below (excl : Bool) (n : Str) (hw : Word n) :
    compileCore excl (n ++ '/' :: dstar) = .ok (.pat excl true (dirRe (litRe n))) := by
  have hsp : splitSlash (n ++ '/' :: dstar) = [n, dstar] := by
    rw [splitSlash_append_slash n hw.2.2]; rfl
  have h1 : ¬ n = ['*', '*'] := hw.ne_dstar
  have h2 : ¬ n = ['*'] := hw.ne_star
  refine compileCore_of excl _ [n, dstar] [n, dstar] false _ ?_ ?_ (by simp) ?_ ?_ ?_ ?_ ?_
  · rw [hsp]; simp [dstar]
  · rw [hsp]; simp [normHead, hw.1, dstar]
  · simp [lastToStars, dedupStars, dstar, h1]
  · simp [dstar]
  · simp [dstar, h1]
  · simp [dstar, h1]
  · simp [transSegs, dstar, h1, h2, segGlob_litRe n hw.2.1, Except.map, dirRe]

theorem below_m (n : Str) (hn : Plain n) (cs : List Str) (hp : PathOk cs) (d : Bool) :
    (dirRe (litRe n)).m (fun _ => true) (pathStr cs d) = decide (cs.head? = some n ∧ (2 ≤ cs.length ∨ d = true)) := by
  obtain ⟨hne, hcs⟩ := hp
  cases cs with
  | nil => exact absurd rfl hne
  | cons c cs =>
    have hc := hcs c List.mem_cons_self
    have hdec : (c == n) = decide (c = n) := by by_cases h : c = n <;> simp [h]
    cases cs with
    | nil =>
      cases d with
      | false =>
        have := dirRe_m (litRe n) hn.segRe c hc.2 [] tail_nil
        simp only [List.append_nil] at this
        rw [pathStr_single]; simp [this]
      | true =>
        rw [pathStr_single]
        simp [dirRe_m (litRe n) hn.segRe c hc.2 _ (tail_slash _), litRe_m_isEmpty, hdec]
    | cons c' cs =>
      rw [pathStr_cons2, dirRe_m (litRe n) hn.segRe c hc.2 _ (tail_slash _), litRe_m_isEmpty]
      simp [hdec]

theorem compileCore_dstar_dir_prefix (excl : Bool) (n : Str) (h0 : n ≠ []) (hs : ∀ x ∈ n, x ≠ '/') (h1 : n ≠ dstar) :
    compileCore excl (dstar ++ '/' :: (n ++ ['/'])) = compileCore excl (n ++ ['/']) := by
  have e2 : splitSlash (n ++ ['/']) = [n, []] := by
    rw [splitSlash_append_slash n hs]; rfl
  have e1 : splitSlash (dstar ++ '/' :: (n ++ ['/'])) = [dstar, n, []] := by
    rw [splitSlash_append_slash dstar (by simp [dstar]), e2]
  unfold compileCore
  simp only [e1, e2]
  have h1' : ¬ n = ['*', '*'] := h1
  simp [normHead, h0, h1', dstar]

theorem isSuffixOf_eq_any_drop (w c : Str) :
    w.isSuffixOf c = (List.range (c.length + 1)).any (fun i => c.drop i == w) := by
  rw [Bool.eq_iff_iff, List.isSuffixOf_iff_suffix, List.any_eq_true]
  constructor
  · intro h
    refine ⟨c.length - w.length, ?_, ?_⟩
    · simp only [List.mem_range]; omega
    · have := List.suffix_iff_eq_drop.1 h
      simp [← this]
  · rintro ⟨i, -, hi⟩
    have : c.drop i = w := by simpa using hi
    rw [← this]; exact List.drop_suffix i c

theorem Plain.oneSeg_star {w : Str} (hw : Plain w) : OneSeg ('*' :: w) := by
  obtain ⟨a, r, rfl⟩ := List.exists_cons_of_ne_nil hw.1
  refine ⟨by simp, ?_, ⟨_, by rw [segGlob_star, segGlob_litRe _ hw.noMeta]; rfl⟩, by simp, by simp, ?_, by simp, ?_⟩
  · intro c hc
    rcases List.mem_cons.1 hc with rfl | hc
    · decide
    · have := hw.2.1 c hc; exact ⟨this.1, this.2.2.2.1, this.2.2.2.2.2⟩
  · intro c hc
    rw [List.getLast?_cons_cons] at hc
    exact hw.2.2.2.2 c hc
  · intro e
    have : a :: r = ['*'] := by simpa [dstar] using e
    exact hw.ne_star this

theorem globWord_star_lit (w : Str) (hw : NoMeta w) (c : Str) (hc : ∀ x ∈ c, x ≠ '/') :
    globWord ('*' :: w) c = w.isSuffixOf c := by
  rw [C15G_globWord_star, isSuffixOf_eq_any_drop]
  congr 1; funext i
  have h1 : (c.take i).all (· != '/') = true := by
    rw [List.all_eq_true]; intro x hx; simpa using hc x (List.mem_of_mem_take hx)
  rw [h1, Bool.true_and]
  simp [globWord, segGlob_litRe w hw, litRe_m_isEmpty]

theorem map_unsup_inv {α β} (f : α → β) (x : Except GErr α) (h : x.map f = .error .unsupported) :
    x = .error .unsupported := by
  cases x with
  | error e => simpa [Except.map] using h
  | ok a => simp [Except.map] at h

theorem segGlob_unsup (g : Str) (h : segGlob g = .error .unsupported) : '[' ∈ g := by
  fun_induction segGlob g with
  | case1 => cases h
  | case2 => cases h
  | case3 d r' ih => simp [ih (map_unsup_inv _ _ h)]
  | case4 r h1 ih => simp [ih (map_unsup_inv _ _ h)]
  | case5 r h1 h2 ih => simp [ih (map_unsup_inv _ _ h)]
  | case6 => simp
  | case7 c r h1 h2 h3 h4 ih => simp [ih (map_unsup_inv _ _ h)]

theorem transSegs_unsup (d : Bool) (segs : List Str) (first ns : Bool)
    (h : transSegs d segs first ns = .error .unsupported) : ∃ seg ∈ segs, '[' ∈ seg := by
  induction segs generalizing first ns with
  | nil => simp [transSegs] at h
  | cons seg rest ih =>
    have lift : (∃ s ∈ rest, '[' ∈ s) → ∃ s ∈ seg :: rest, '[' ∈ s := by
      rintro ⟨s, hs, hb⟩; exact ⟨s, List.mem_cons_of_mem _ hs, hb⟩
    rw [transSegs] at h
    split at h
    · split at h
      · exact lift (ih _ _ (map_unsup_inv _ _ h))
      · split at h
        · exact lift (ih _ _ (map_unsup_inv _ _ h))
        · cases h
    · split at h
      · rename_i e he
        cases h
        refine ⟨seg, List.mem_cons_self, ?_⟩
        split at he
        · cases he
        · exact segGlob_unsup seg he
      · simp only at h
        by_cases hr : rest = []
        · simp [hr] at h
        · simp only [if_neg hr] at h
          exact lift (ih _ _ (map_unsup_inv _ _ h))

theorem mem_splitSlash (s : Str) : ∀ seg ∈ splitSlash s, ∀ c ∈ seg, c ∈ s := by
  induction s with
  | nil => intro seg hs c hc; simp [splitSlash] at hs; subst hs; cases hc
  | cons a r ih =>
    intro seg hs c hc
    rw [splitSlash] at hs
    split at hs
    · rcases List.mem_cons.1 hs with rfl | hs
      · cases hc
      · exact List.mem_cons_of_mem _ (ih seg hs c hc)
    · split at hs
      · rename_i e; exact absurd e (splitSlash_ne_nil r)
      · rename_i w ws e
        rcases List.mem_cons.1 hs with rfl | hs
        · rcases List.mem_cons.1 hc with rfl | hc
          · exact List.mem_cons_self
          · exact List.mem_cons_of_mem _ (ih w (by rw [e]; exact List.mem_cons_self) c hc)
        · exact List.mem_cons_of_mem _ (ih seg (by rw [e]; exact List.mem_cons_of_mem _ hs) c hc)

theorem mem_dedupStars (l : List Str) : ∀ x ∈ dedupStars l, x ∈ l := by
  induction l with
  | nil => intro x hx; simp [dedupStars] at hx
  | cons a r ih =>
    intro x hx
    rw [dedupStars] at hx
    split at hx
    · simp at hx; simp [hx]
    · rename_i b r' e
      rw [e] at ih
      split at hx
      · exact List.mem_cons_of_mem _ (ih x hx)
      · rcases List.mem_cons.1 hx with rfl | hx
        · exact List.mem_cons_self
        · exact List.mem_cons_of_mem _ (ih x hx)

theorem mem_lastToStars (l : List Str) : ∀ x ∈ lastToStars l, x ∈ l ∨ x = dstar := by
  induction l with
  | nil => intro x hx; cases hx
  | cons a r ih =>
    intro x hx
    cases r with
    | nil =>
      rw [lastToStars] at hx
      split at hx
      · right; simpa using hx
      · left; exact hx
    | cons b r =>
      rw [lastToStars] at hx
      · rcases List.mem_cons.1 hx with rfl | hx
        · left; exact List.mem_cons_self
        · rcases ih x hx with h | h
          · left; exact List.mem_cons_of_mem _ h
          · right; exact h
      · simp

theorem mem_normHead (l : List Str) : ∀ x ∈ normHead l, x ∈ l ∨ x = dstar := by
  intro x hx
  unfold normHead at hx
  split at hx
  · cases hx
  · rename_i s0 rest
    split at hx
    · left; exact List.mem_cons_of_mem _ hx
    · split at hx
      · split at hx
        · left; exact hx
        · rcases List.mem_cons.1 hx with rfl | hx
          · right; rfl
          · left; exact hx
      · left; exact hx

theorem compileCore_unsup (excl : Bool) (p1 : Str) (h : compileCore excl p1 = .error .unsupported) : '[' ∈ p1 := by
  unfold compileCore at h
  simp only at h
  split at h
  · cases h
  · split at h
    · cases h
    · split at h
      · cases h
      · split at h
        · cases h
        · split at h
          · cases h
          · rename_i ht
            obtain ⟨seg, hs, hb⟩ := transSegs_unsup _ _ _ _ ht
            have h1 := mem_dedupStars _ seg hs
            rcases mem_lastToStars _ seg h1 with h2 | h2
            · rcases mem_normHead _ seg h2 with h3 | h3
              · exact mem_splitSlash p1 seg h3 _ hb
              · subst h3; simp [dstar] at hb
            · subst h2; simp [dstar] at hb
          · cases h

theorem compile_unsup_core (p : Str) (h : compile p = .error .unsupported) :
    ∃ e p1, (∀ c ∈ p1, c ∈ p) ∧ compileCore e p1 = .error .unsupported := by
  unfold compile at h
  have hp0 : ∀ c ∈ (if (['\\', ' '] : Str).reverse.isPrefixOf p.reverse then p else rstripWs p), c ∈ p := by
    intro c hc
    split at hc
    · exact hc
    · exact (rstripWs_prefix p).subset hc
  generalize (if (['\\', ' '] : Str).reverse.isPrefixOf p.reverse then p else rstripWs p) = p0 at h hp0
  simp only at h
  split at h
  · cases h
  · split at h
    · cases h
    · split at h
      · cases h
      · split at h
        · rename_i r _ _ _
          exact ⟨false, r, fun c hc => hp0 c (List.mem_cons_of_mem _ hc), h⟩
        · exact ⟨true, p0, hp0, h⟩

/-! ### the theorems -/

/-- `name/**`: everything below the directory `name` at the root of the path — not the directory entry `name` without its slash -/
theorem C15G_below_dir (n : Str) (hn : Plain n) (cs : List Str) (hp : PathOk cs) (isDir : Bool) :
    ∃ c, compile (n ++ lit "/**") = .ok c ∧
      c.hits (pstr cs isDir) = decide (cs.head? = some n ∧ (2 ≤ cs.length ∨ isDir = true)) := by
  rw [lit_slash_dstar]
  have e : n ++ '/' :: dstar = (n ++ ['/', '*']) ++ ['*'] := by simp [dstar]
  have hl : ∀ c, (n ++ '/' :: dstar).getLast? = some c → pyIsSpace c = false := by
    intro c hc; rw [e, getLast?_append_singleton_str] at hc; cases hc; decide
  obtain ⟨a, r, rfl⟩ := List.exists_cons_of_ne_nil hn.1
  have hh : ((a :: r) ++ '/' :: dstar).head? ≠ some '#' := by simpa using hn.2.2.1
  have hb : ((a :: r) ++ '/' :: dstar).head? ≠ some '!' := by simpa using hn.2.2.2.1
  have hs : (a :: r) ++ '/' :: dstar ≠ ['/'] := by simp [dstar]
  refine ⟨.pat true true (dirRe (litRe (a :: r))), ?_, ?_⟩
  · rw [compile_clean_pos _ (by simp) hl hh hs hb]
    exact compileCore_below true _ hn.word
  · exact below_m _ hn cs hp isDir

/-- `**/name/` is `name/` -/
theorem C15G_dstar_dir_prefix (n : Str) (hn : Plain n) : compile (dstar ++ '/' :: (n ++ ['/'])) = compile (n ++ ['/']) := by
  have h1 : n ++ ['/'] ≠ [] := by simp
  have hl : ∀ c, (n ++ ['/']).getLast? = some c → pyIsSpace c = false := by
    intro c hc; rw [getLast?_append_singleton_str] at hc; cases hc; decide
  have hl2 : ∀ c, (dstar ++ '/' :: (n ++ ['/'])).getLast? = some c → pyIsSpace c = false := by
    intro c hc
    have e : dstar ++ '/' :: (n ++ ['/']) = (dstar ++ '/' :: n) ++ ['/'] := by simp
    rw [e, getLast?_append_singleton_str] at hc; cases hc; decide
  obtain ⟨a, r, rfl⟩ := List.exists_cons_of_ne_nil hn.1
  have hh : ((a :: r) ++ ['/']).head? ≠ some '#' := by simpa using hn.2.2.1
  have hb : ((a :: r) ++ ['/']).head? ≠ some '!' := by simpa using hn.2.2.2.1
  have hs : (a :: r) ++ ['/'] ≠ ['/'] := by simp
  rw [compile_clean_pos _ h1 hl hh hs hb,
    compile_clean_pos _ (by simp [dstar]) hl2 (by simp [dstar]) (by simp [dstar]) (by simp [dstar])]
  exact compileCore_dstar_dir_prefix true _ hn.1 hn.noSlash hn.ne_dstar

/-- a suffix glob `*w` (`*.cmake`, `*~`) hits a path iff some component ends with `w` -/
theorem C15G_suffix_glob (w : Str) (hw : Plain w) (cs : List Str) (hp : PathOk cs) (isDir : Bool) :
    ∃ c, compile ('*' :: w) = .ok c ∧ c.hits (pstr cs isDir) = cs.any (fun comp => w.isSuffixOf comp) := by
  obtain ⟨re, h1, h2⟩ := C15G_glob_component ('*' :: w) hw.oneSeg_star cs hp isDir
  refine ⟨_, h1, ?_⟩
  rw [h2, Bool.eq_iff_iff, List.any_eq_true, List.any_eq_true]
  constructor
  · rintro ⟨c, hc, h⟩
    exact ⟨c, hc, by rwa [globWord_star_lit w hw.noMeta c (fun x hx => ((hp.2 c hc).2 x hx).1)] at h⟩
  · rintro ⟨c, hc, h⟩
    exact ⟨c, hc, by rwa [globWord_star_lit w hw.noMeta c (fun x hx => ((hp.2 c hc).2 x hx).1)]⟩

/-- only range notation puts a pattern outside the model -/
theorem C15G_unsupported_has_bracket (p : Str) (h : compile p = .error .unsupported) : '[' ∈ p := by
  obtain ⟨e, p1, hsub, hc⟩ := compile_unsup_core p h
  exact hsub _ (compileCore_unsup e p1 hc)

/-! ## non-vacuity: the model evaluated by the kernel on concrete patterns -/

example : Plain (lit "build") ∧ Plain (lit ".cmake") ∧ PathOk [lit "build", lit "x"] := by decide

/-- `build/**` hits `build/x` and the directory `build/`, but neither the file `build` nor `x/build/y` -/
example : (match compile (lit "build/**") with
    | .ok c => c.hits (pstr [lit "build", lit "x"] false) && c.hits (pstr [lit "build"] true) &&
        !c.hits (pstr [lit "build"] false) && !c.hits (pstr [lit "x", lit "build", lit "y"] false)
    | .error _ => false) = true := by decide +kernel

/-- `*.cmake` hits `p/a.cmake`, not `p/a.cmake.in` -/
example : (match compile (lit "*.cmake") with
    | .ok c => c.hits (pstr [lit "p", lit "a.cmake"] false) && !c.hits (pstr [lit "p", lit "a.cmake.in"] false)
    | .error _ => false) = true := by decide +kernel

end Glob
end Cminx
