import CminxModel.Clean
import CminxLemmas.StrLemmasClean
import CminxLemmas.CleanLemmas
/-!
# C04 for arbitrary doccomment blocks: moving a block to the right as a whole

`CminxProps/C04.lean` shows that re-indenting a *tidy* doccomment (`DocC`) does not change the generated
documentation. This file proves the same for ARBITRARY blocks, directly at the level of
`cleanDocLines` / `cleanDoc` / `moduleNameDoc` (`CminxModel/Clean.lean`):

if every line of the block except the opening one is moved to the right by the same whitespace string `p`
(empty lines, and lines that start in column 0 with a non-whitespace character, may be left where they
are), then the cleaned text is unchanged.

"Whitespace" is the project's own predicate `pyIsSpace` (what Python's argument-less `lstrip()` removes).

Two side conditions are shown to be necessary by concrete counterexamples:
* a whitespace-only body line that is not shifted changes the result (`C04Shift_blank_line_counterexample`);
* at token-text level the shift `p` must not contain `'\n'` (which *is* whitespace), otherwise the shifted
  text has more lines (`C04Shift_newline_shift_counterexample`).
-/
namespace Cminx

/-! ## definitions -/

/-- every character of `p` is one that `lstrip()` removes -/
def shift_AllWs (p : Str) : Prop := ∀ c ∈ p, pyIsSpace c = true

/-- the line is empty or starts with a non-whitespace character (nothing for `lstrip()` to remove in front) -/
def shift_Flush (l : Str) : Prop := l = [] ∨ ∃ c cs, l = c :: cs ∧ pyIsSpace c = false

/-- `shift_Line p l' l`: `l'` is the line `l` after the block was moved right by `p` — either `p` was put in
front of it, or it was left alone, which is allowed only for empty lines and lines starting with a
non-whitespace character -/
inductive shift_Line (p : Str) : Str → Str → Prop
  | moved (l : Str) : shift_Line p (p ++ l) l
  | kept (l : Str) (h : shift_Flush l) : shift_Line p l l

/-- line-by-line relation between the shifted and the original lines (same number of lines, corresponding
lines related by `shift_Line p`) -/
inductive shift_Lines (p : Str) : List Str → List Str → Prop
  | nil : shift_Lines p [] []
  | cons {l' l : Str} {ls' ls : List Str} (h : shift_Line p l' l) (t : shift_Lines p ls' ls) :
      shift_Lines p (l' :: ls') (l :: ls)

/-! ## helper lemmas -/

theorem shift_ws_ne_hash {c : Char} (h : pyIsSpace c = true) : (c != '#') = true := by
  have : c ≠ '#' := by
    rintro rfl
    exact absurd h (by decide)
  simpa using this

theorem shift_AllWs_nil : shift_AllWs [] := by intro c hc; simp at hc

theorem shift_lstripWs_append (p s : Str) (hp : shift_AllWs p) : lstripWs (p ++ s) = lstripWs s := by
  unfold lstripWs
  exact List.dropWhile_append_of_pos hp

theorem shift_numSpaces_append (p last : Str) (hp : shift_AllWs p) :
    numSpaces (p ++ last) = p.length + numSpaces last := by
  unfold numSpaces
  rw [List.takeWhile_append_of_pos (fun c hc => shift_ws_ne_hash (hp c hc)), List.length_append]

/-- a shifted line, cleaned with the shifted width, is the original line cleaned with the original width -/
theorem shift_cleanLine_moved (p l : Str) (n : Nat) (hp : shift_AllWs p) :
    cleanLine (p.length + n) (p ++ l) = cleanLine n l := by
  unfold cleanLine
  rw [List.take_length_add_append, List.drop_length_add_append, shift_lstripWs_append _ _ hp]

theorem shift_lstripWs_take_drop_flush (l : Str) (k : Nat) (h : shift_Flush l) :
    lstripWs (l.take k) ++ l.drop k = l := by
  rcases h with rfl | ⟨c, cs, rfl, hc⟩
  · simp [lstripWs]
  · exact lstripWs_take_drop_of_head k c cs hc

/-- a line with nothing to strip in front is cleaned the same way whatever the width -/
theorem shift_cleanLine_flush (l : Str) (k k' : Nat) (h : shift_Flush l) : cleanLine k l = cleanLine k' l := by
  unfold cleanLine
  rw [shift_lstripWs_take_drop_flush l k h, shift_lstripWs_take_drop_flush l k' h]

theorem shift_cleanLine_line {p l' l : Str} (n : Nat) (hp : shift_AllWs p) (h : shift_Line p l' l) :
    cleanLine (p.length + n) l' = cleanLine n l := by
  cases h with
  | moved => exact shift_cleanLine_moved p _ n hp
  | kept _ hf => exact shift_cleanLine_flush _ _ _ hf

theorem shift_map_cleanLine {p : Str} {ls' ls : List Str} (n : Nat) (hp : shift_AllWs p)
    (h : shift_Lines p ls' ls) : ls'.map (cleanLine (p.length + n)) = ls.map (cleanLine n) := by
  induction h with
  | nil => rfl
  | cons h1 _ ih => rw [List.map_cons, List.map_cons, shift_cleanLine_line n hp h1, ih]

theorem shift_Line_noNl {p l' l : Str} (hpn : '\n' ∉ p) (hl : '\n' ∉ l) (h : shift_Line p l' l) : '\n' ∉ l' := by
  cases h with
  | moved => simp [hpn, hl]
  | kept => exact hl

theorem shift_Lines_noNl {p : Str} {ls' ls : List Str} (hpn : '\n' ∉ p) (h : shift_Lines p ls' ls)
    (hl : ∀ l ∈ ls, '\n' ∉ l) : ∀ l ∈ ls', '\n' ∉ l := by
  induction h with
  | nil => intro l hl'; simp at hl'
  | cons h1 _ ih =>
    intro x hx
    rcases List.mem_cons.mp hx with rfl | hx
    · exact shift_Line_noNl hpn (hl _ (by simp)) h1
    · exact ih (fun y hy => hl y (by simp [hy])) x hx

/-! ## lines -/

/-- **General form.** Take any non-empty list of lines `init ++ [last]` (what `text.split("\n")` gives for a
doccomment token). Put the whitespace string `p` in front of the last line, and in front of every other line
too, except that lines which are empty or start with a non-whitespace character may be left alone (the opening
line `#[[[ …` is such a line). Then `clean_doc_lines` returns exactly the same text. -/
theorem C04Shift_lines_general (p last : Str) (init' init : List Str) (hp : shift_AllWs p)
    (h : shift_Lines p init' init) :
    cleanDocLines (init' ++ [p ++ last]) = cleanDocLines (init ++ [last]) := by
  rw [cleanDocLines_eq, cleanDocLines_eq, lastD_append_singleton, lastD_append_singleton,
    shift_numSpaces_append p last hp, List.map_append, List.map_append, shift_map_cleanLine _ hp h,
    List.map_singleton, List.map_singleton, shift_cleanLine_moved p last _ hp]

/-- **Moving a doccomment block to the right does not change the cleaned text (arbitrary block).**
`first` is the opening line (empty or starting with a non-whitespace character, e.g. `#[[[`), `last` is the
closing line (any string), `body` are the lines in between (any strings). The block is moved right by the
whitespace string `p`: the closing line becomes `p ++ last`, every body line `l` becomes `p ++ l` or — only
if it is empty or starts with a non-whitespace character — stays as it is. The opening line is unchanged
(the token starts at its `#`). Then `clean_doc_lines` gives the same result. The body may be empty. -/
theorem C04Shift_lines (p first last : Str) (body' body : List Str) (hp : shift_AllWs p)
    (hf : shift_Flush first) (hb : shift_Lines p body' body) :
    cleanDocLines (first :: body' ++ [p ++ last]) = cleanDocLines (first :: body ++ [last]) :=
  C04Shift_lines_general p last (first :: body') (first :: body) hp
    (shift_Lines.cons (shift_Line.kept first hf) hb)

/-- The degenerate block with no body lines: only the closing line moves. -/
theorem C04Shift_lines_no_body (p first last : Str) (hp : shift_AllWs p) (hf : shift_Flush first) :
    cleanDocLines [first, p ++ last] = cleanDocLines [first, last] :=
  C04Shift_lines p first last [] [] hp hf shift_Lines.nil

/-- The one-line case (opening line = closing line, e.g. `#[[[ text #]]` — not a real token, since every
doccomment token contains a newline): putting whitespace in front of the single line changes nothing. -/
theorem C04Shift_one_line (p l : Str) (hp : shift_AllWs p) : cleanDocLines [p ++ l] = cleanDocLines [l] :=
  C04Shift_lines_general p l [] [] hp shift_Lines.nil

/-! ## token text -/

/-- **The same at the level of the token text.** If no line contains `'\n'` and the shift `p` contains no
`'\n'` either (needed: `'\n'` counts as whitespace, see `C04Shift_newline_shift_counterexample`), then the
text of the shifted block and the text of the original block are cleaned to the same documentation. -/
theorem C04Shift_cleanDoc (p first last : Str) (body' body : List Str) (hp : shift_AllWs p)
    (hf : shift_Flush first) (hb : shift_Lines p body' body)
    (hpn : '\n' ∉ p) (hfn : '\n' ∉ first) (hln : '\n' ∉ last) (hbn : ∀ l ∈ body, '\n' ∉ l) :
    cleanDoc (joinNl (first :: body' ++ [p ++ last])) = cleanDoc (joinNl (first :: body ++ [last])) := by
  have hbn' := shift_Lines_noNl hpn hb hbn
  have h1 : ∀ l ∈ first :: body' ++ [p ++ last], '\n' ∉ l := by
    intro l hl
    simp only [List.cons_append, List.mem_cons, List.mem_append, List.mem_nil_iff, or_false] at hl
    rcases hl with rfl | hl | rfl
    · exact hfn
    · exact hbn' l hl
    · simp [hpn, hln]
  have h2 : ∀ l ∈ first :: body ++ [last], '\n' ∉ l := by
    intro l hl
    simp only [List.cons_append, List.mem_cons, List.mem_append, List.mem_nil_iff, or_false] at hl
    rcases hl with rfl | hl | rfl
    · exact hfn
    · exact hbn l hl
    · exact hln
  unfold cleanDoc
  rw [splitNl_joinNl (by simp) h1, splitNl_joinNl (by simp) h2]
  exact C04Shift_lines p first last body' body hp hf hb

/-- **The same for a module doccomment:** the `@module` name and the module documentation extracted from the
token text do not change when the block is moved to the right. -/
theorem C04Shift_moduleNameDoc (p first last : Str) (body' body : List Str) (hp : shift_AllWs p)
    (hf : shift_Flush first) (hb : shift_Lines p body' body)
    (hpn : '\n' ∉ p) (hfn : '\n' ∉ first) (hln : '\n' ∉ last) (hbn : ∀ l ∈ body, '\n' ∉ l) :
    moduleNameDoc (joinNl (first :: body' ++ [p ++ last])) =
      moduleNameDoc (joinNl (first :: body ++ [last])) := by
  unfold moduleNameDoc
  rw [C04Shift_cleanDoc p first last body' body hp hf hb hpn hfn hln hbn]

/-- One-line token text (no newline at all): whitespace in front changes nothing. -/
theorem C04Shift_cleanDoc_one_line (p l : Str) (hp : shift_AllWs p) (hpn : '\n' ∉ p) (hl : '\n' ∉ l) :
    cleanDoc (p ++ l) = cleanDoc l := by
  unfold cleanDoc
  rw [splitNl_noNl (l := p ++ l) (by simp [hpn, hl]), splitNl_noNl hl]
  exact C04Shift_one_line p l hp

/-! ## the side conditions are necessary -/

/-- **A whitespace-only body line must be shifted too (or be empty).** The block
`#[[[` / four blanks / `··#]]` is moved right by two blanks but the middle line is left as it is: the cleaned
text changes (the original keeps one blank of that line, the shifted block keeps none). So the restriction
on lines that are left alone cannot be dropped. -/
theorem C04Shift_blank_line_counterexample :
    cleanDocLines [lit "#[[[", lit "    ", lit "  " ++ lit "  #]]"] ≠
      cleanDocLines [lit "#[[[", lit "    ", lit "  #]]"] ∧
    cleanDocLines [lit "#[[[", lit "    ", lit "  #]]"] = lit " \n" ∧
    cleanDocLines [lit "#[[[", lit "    ", lit "  " ++ lit "  #]]"] = lit "\n" := by
  simp only [String.reduceToList, lit]
  decide

/-- **At token-text level the shift must not contain a newline.** `'\n'` is whitespace for `lstrip()`, so
`p = "\n"` satisfies the line-level theorem, but the joined text then has one more line and the cleaned
text differs. -/
theorem C04Shift_newline_shift_counterexample :
    shift_AllWs (lit "\n") ∧
    cleanDoc (joinNl [lit "#[[[", lit "\n" ++ lit "#]]"]) ≠ cleanDoc (joinNl [lit "#[[[", lit "#]]"]) := by
  refine ⟨?_, ?_⟩
  · intro c hc
    simp only [String.reduceToList, lit, List.mem_singleton] at hc
    subst hc; decide
  · simp only [String.reduceToList, lit]
    decide

/-! ## a worked example -/

/-- **Worked example (an untidy block moved right by a tab).** The closing line is indented deeper (4) than
the body (2), one body line is deeper still (6), there is an empty line in the middle, which the editor does
not indent. The original and the shifted token text give the same documentation — by the main theorem —
and that documentation is the literal text shown. -/
theorem C04Shift_example :
    cleanDoc (lit "#[[[\n\t  # Summary\n\n\t      # deeper\n\t    #]]") =
      cleanDoc (lit "#[[[\n  # Summary\n\n      # deeper\n    #]]") ∧
    cleanDoc (lit "#[[[\n  # Summary\n\n      # deeper\n    #]]") = lit "Summary\n\n # deeper\n" := by
  have h := C04Shift_cleanDoc (lit "\t") (lit "#[[[") (lit "    #]]")
    [lit "\t" ++ lit "  # Summary", [], lit "\t" ++ lit "      # deeper"]
    [lit "  # Summary", [], lit "      # deeper"]
    (by intro c hc
        simp only [String.reduceToList, lit, List.mem_singleton] at hc
        subst hc; decide)
    (Or.inr ⟨'#', _, rfl, by decide⟩)
    (shift_Lines.cons (shift_Line.moved _)
      (shift_Lines.cons (shift_Line.kept [] (Or.inl rfl))
        (shift_Lines.cons (shift_Line.moved _) shift_Lines.nil)))
    (by simp only [String.reduceToList, lit]; decide)
    (by simp only [String.reduceToList, lit]; decide)
    (by simp only [String.reduceToList, lit]; decide)
    (by simp only [String.reduceToList, lit]; decide)
  refine ⟨?_, ?_⟩
  · have e1 : lit "#[[[\n\t  # Summary\n\n\t      # deeper\n\t    #]]" =
        joinNl (lit "#[[[" :: [lit "\t" ++ lit "  # Summary", [], lit "\t" ++ lit "      # deeper"] ++
          [lit "\t" ++ lit "    #]]"]) := by
      simp only [String.reduceToList, lit]; decide
    have e2 : lit "#[[[\n  # Summary\n\n      # deeper\n    #]]" =
        joinNl (lit "#[[[" :: [lit "  # Summary", [], lit "      # deeper"] ++ [lit "    #]]"]) := by
      simp only [String.reduceToList, lit]; decide
    rw [e1, e2]
    exact h
  · simp only [String.reduceToList, lit]
    decide

end Cminx
