import CminxProps.C05
import CminxProps.TAggSeq
/-!
# The central chain over the sequence-aware domain

`T_documented` / `T_pipeline` / `C05_accepted` (C05.lean) with `T_agg` replaced by `T_aggS` (TAggSeq.lean): the same
statements for modules in which a member/test declaration may be separated from its implementing definition by
ordinary commands and in which that definition may carry a doccomment of its own (`itemsWfS`).  The expected entries
are `Module.entriesS`; on `itemsWf` modules they coincide with `Module.entries` (`entriesS_eq_of_wf`).
-/
namespace Cminx

/-- the `documented` list CMinx builds from the printed text of a valid module that is well formed in the
    sequence-aware sense is the list the sequence-aware structural specification reads off the module -/
theorem T_documentedS (cfg : Cfg) (m : Module) (hv : m.valid = true) (hwf : itemsWfS false false m.items = true)
    (hk1 : cfg.inclCppClass = true ∨ itemsHaveDocumentedClass m.items = false) :
    documentedOf cfg m.render = .ok (m.entriesS cfg) := by
  obtain ⟨ts, hl, hp⟩ := T_roundtrip m hv
  obtain ⟨st, ha, hd, -⟩ := T_aggS cfg m hwf hk1
  rw [documentedOf_of_ok cfg hl hp ha, hd]

/-- **T-pipeline, sequence-aware**: the page written for the printed text of such a module -/
theorem T_pipelineS (cfg : Cfg) (hc : Str) (hs : List Str) (title modName : Str) (m : Module)
    (hv : m.valid = true) (hwf : itemsWfS false false m.items = true)
    (hk1 : cfg.inclCppClass = true ∨ itemsHaveDocumentedClass m.items = false) :
    pipeline cfg (hc :: hs) title modName m.render =
      .ok (processDocs hc title modName (m.entriesS cfg)).render := by
  simp only [pipeline, T_documentedS cfg m hv hwf hk1]

/-- such a file is processed to completion without error -/
theorem C05_acceptedS (cfg : Cfg) (hc : Str) (hs : List Str) (title modName : Str) (m : Module)
    (hv : m.valid = true) (hwf : itemsWfS false false m.items = true)
    (hk1 : cfg.inclCppClass = true ∨ itemsHaveDocumentedClass m.items = false) :
    ∃ out, pipeline cfg (hc :: hs) title modName m.render = .ok out :=
  ⟨_, T_pipelineS cfg hc hs title modName m hv hwf hk1⟩

/-- `T_pipeline` is the special case -/
theorem T_pipeline_from_S (cfg : Cfg) (hc : Str) (hs : List Str) (title modName : Str) (m : Module)
    (hv : m.valid = true) (hwf : itemsWf false m.items = true)
    (hk1 : cfg.inclCppClass = true ∨ itemsHaveDocumentedClass m.items = false) :
    pipeline cfg (hc :: hs) title modName m.render =
      .ok (processDocs hc title modName (m.entries cfg)).render := by
  rw [T_pipelineS cfg hc hs title modName m hv (itemsWf_imp_itemsWfS false m.items hwf) hk1, entriesS_eq_of_wf cfg m hwf]

end Cminx

namespace Cminx

/-- non-vacuity: the two example modules of TAggSeq.lean (a split test declaration; a documented implementing
    definition) are valid, so `T_pipelineS` applies to their printed text -/
theorem TPipelineSeq_examples_valid : exSplitTest.valid = true ∧ exDocImpl.valid = true := by
  constructor <;> decide +kernel

theorem TPipelineSeq_examples_run (hc : Str) (hs : List Str) (title modName : Str) :
    pipeline {} (hc :: hs) title modName exSplitTest.render =
        .ok (processDocs hc title modName (exSplitTest.entriesS {})).render ∧
    pipeline {} (hc :: hs) title modName exDocImpl.render =
        .ok (processDocs hc title modName (exDocImpl.entriesS {})).render :=
  ⟨T_pipelineS {} hc hs title modName _ TPipelineSeq_examples_valid.1 TAggSeq_examples_wf.1 (Or.inl rfl),
   T_pipelineS {} hc hs title modName _ TPipelineSeq_examples_valid.2 TAggSeq_examples_wf.2.2.1 (Or.inl rfl)⟩

end Cminx
