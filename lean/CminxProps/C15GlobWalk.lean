import CminxProps.C15
import CminxProps.C15Glob
/-!
# C15 — the walk under gitignore patterns, in closed form

`C15.lean` characterises the walk for an arbitrary exclusion predicate (`OpenPath`, `Reachable`, `C15_iff`); `C15Glob.lean` says what
the predicate computed from the patterns (`Glob.exclOf`) is.  Here the two meet for the pattern form the property names first, bare names:
"a file or directory below the input path is processed if and only if it matches none of the exclude patterns — a bare name matches at
any depth".  The side condition `hroot` (no pattern names a component of the absolute path of the directory the walk starts in) is the
complement of known finding K7 (`C15G_K7_above_input`): patterns see absolute paths.
-/
namespace Cminx
namespace Glob

/-! ## helper lemmas -/

/-- a non-empty list of components taken from a well-formed path is a well-formed path -/
theorem PathOk.sub {l l' : List Str} (h : PathOk l) (hne : l' ≠ []) (hs : ∀ c ∈ l', c ∈ l) : PathOk l' :=
  ⟨hne, fun c hc => h.2 c (hs c hc)⟩

/-- `C15G_exclOf_bare` for the compiled list at hand (`compileAll` is a function, so the witness is `cs`) -/
theorem exclOf_bare_eq (ns : List Str) (hpl : ∀ n ∈ ns, Plain n) (abs p : List Str) (hp : PathOk (abs ++ p))
    (habs : abs ≠ []) (cs : List Compiled) (hc : compileAll ns = .ok cs) (d : Bool) :
    exclOf cs ('/' :: joinWith ['/'] abs) p d = ns.any (fun n => decide (n ∈ abs ++ p)) := by
  obtain ⟨cs', h1, h2⟩ := C15G_exclOf_bare ns hpl abs p hp habs d
  rw [hc] at h1; cases h1; exact h2

/-- a directory on the way down whose name is one of the patterns is excluded -/
theorem exclOf_bare_hit (ns : List Str) (hpl : ∀ n ∈ ns, Plain n) (abs rel q' t : List Str) (n : Str)
    (hp : PathOk (abs ++ rel ++ (q' ++ n :: t))) (habs : abs ≠ []) (cs : List Compiled) (hc : compileAll ns = .ok cs)
    (hn : n ∈ ns) : exclOf cs ('/' :: joinWith ['/'] abs) (rel ++ q' ++ [n]) true = true := by
  have hp' : PathOk (abs ++ (rel ++ q' ++ [n])) :=
    hp.sub (by simp [habs]) (by intro c hc; simp at hc ⊢; rcases hc with h | h | h | h <;> simp [h])
  rw [exclOf_bare_eq ns hpl abs _ hp' habs cs hc true, List.any_eq_true]
  exact ⟨n, hn, by simp⟩

/-- no directory on the way from `rel` down to `rel ++ q` is excluded iff no pattern names a component of `q` -/
theorem C15G_openPath_bare (ns : List Str) (hpl : ∀ n ∈ ns, Plain n) (abs rel q : List Str)
    (hp : PathOk (abs ++ rel ++ q)) (habs : abs ≠ []) (cs : List Compiled) (hc : compileAll ns = .ok cs)
    (hroot : ∀ n ∈ ns, n ∉ abs ++ rel) :
    OpenPath (exclOf cs ('/' :: joinWith ['/'] abs)) rel q ↔ ∀ n ∈ ns, n ∉ q := by
  constructor
  · intro ho n hn hq
    obtain ⟨q', t, rfl⟩ := List.append_of_mem hq
    have h := ho q' n ⟨t, by simp⟩
    rw [exclOf_bare_hit ns hpl abs rel q' t n hp habs cs hc hn] at h
    cases h
  · intro hno q' d hpre
    have hsub : ∀ c ∈ q' ++ [d], c ∈ q := fun c hc => hpre.subset hc
    have hp' : PathOk (abs ++ (rel ++ q' ++ [d])) :=
      hp.sub (by simp [habs]) (by
        intro c hc
        rw [List.append_assoc rel, ← List.append_assoc abs] at hc
        rcases List.mem_append.1 hc with h | h
        · exact List.mem_append_left _ h
        · exact List.mem_append_right _ (hsub c h))
    rw [exclOf_bare_eq ns hpl abs _ hp' habs cs hc true, List.any_eq_false]
    intro n hn hm
    have hm' : n ∈ (abs ++ rel) ++ (q' ++ [d]) := by
      simpa [List.append_assoc] using hm
    rcases List.mem_append.1 hm' with h | h
    · exact hroot n hn h
    · exact hno n hn (hsub n h)

/-- a CMake file of the tree is reachable (hence, by `C15_if`/`C15_only_if`, has its page written) iff no pattern names a directory on
    the way to it or the file itself -/
theorem C15G_reachable_bare (ns : List Str) (hpl : ∀ n ∈ ns, Plain n) (abs rel q : List Str) (f content : Str)
    (listing : List FsNode) (hp : PathOk (abs ++ rel ++ q ++ [f])) (habs : abs ≠ []) (cs : List Compiled)
    (hc : compileAll ns = .ok cs) (hroot : ∀ n ∈ ns, n ∉ abs ++ rel) :
    Reachable (exclOf cs ('/' :: joinWith ['/'] abs)) rel listing q f content ↔
      (∃ ch, DirAt listing q ch ∧ FsNode.file f content ∈ ch ∧ isCMakeName f = true) ∧ ∀ n ∈ ns, n ∉ q ++ [f] := by
  have hpq : PathOk (abs ++ rel ++ q) :=
    hp.sub (by simp [habs]) (fun c hc => List.mem_append_left _ hc)
  have hop := C15G_openPath_bare ns hpl abs rel q hpq habs cs hc hroot
  have hp' : PathOk (abs ++ (rel ++ q ++ [f])) := by simpa [List.append_assoc] using hp
  have hfile : exclOf cs ('/' :: joinWith ['/'] abs) (rel ++ q ++ [f]) false = false ↔ ∀ n ∈ ns, n ∉ q ++ [f] := by
    rw [exclOf_bare_eq ns hpl abs _ hp' habs cs hc false, List.any_eq_false]
    constructor
    · intro h n hn hm
      exact h n hn (by simpa [List.append_assoc] using (List.mem_append_right (abs ++ rel) hm))
    · intro h n hn hm
      have hm' : n ∈ (abs ++ rel) ++ (q ++ [f]) := by simpa [List.append_assoc] using hm
      rcases List.mem_append.1 hm' with h' | h'
      · exact hroot n hn h'
      · exact h n hn h'
  constructor
  · rintro ⟨ch, hd, hm, hcm, ho, he⟩
    exact ⟨⟨ch, hd, hm, hcm⟩, hfile.1 he⟩
  · rintro ⟨⟨ch, hd, hm, hcm⟩, hno⟩
    exact ⟨ch, hd, hm, hcm, hop.2 (fun n hn hq => hno n hn (List.mem_append_left _ hq)), hfile.2 hno⟩

/-- an excluded directory is not descended into: if a pattern names a component of `q`, nothing below `rel ++ q` is reachable -/
theorem C15G_not_reachable_below (ns : List Str) (hpl : ∀ n ∈ ns, Plain n) (abs rel q : List Str) (f content : Str)
    (listing : List FsNode) (hp : PathOk (abs ++ rel ++ q ++ [f])) (habs : abs ≠ []) (cs : List Compiled)
    (hc : compileAll ns = .ok cs) (n : Str) (hn : n ∈ ns) (hq : n ∈ q) :
    ¬ Reachable (exclOf cs ('/' :: joinWith ['/'] abs)) rel listing q f content := by
  rintro ⟨_, _, _, _, ho, _⟩
  have hpq : PathOk (abs ++ rel ++ q) :=
    hp.sub (by simp [habs]) (fun c hc => List.mem_append_left _ hc)
  obtain ⟨q', t, rfl⟩ := List.append_of_mem hq
  have h := ho q' n ⟨t, by simp⟩
  rw [exclOf_bare_hit ns hpl abs rel q' t n hpq habs cs hc hn] at h
  cases h

/-! ## non-vacuity: the hypotheses of `C15G_reachable_bare` are met for `/home/u/proj`, pattern `build`, file `cmake/a.cmake` -/

example (listing : List FsNode) (content : Str) :
    ∃ cs, compileAll [lit "build"] = .ok cs ∧
      (Reachable (exclOf cs ('/' :: joinWith ['/'] [lit "home", lit "u", lit "proj"])) [] listing [lit "cmake"]
          (lit "a.cmake") content ↔
        (∃ ch, DirAt listing [lit "cmake"] ch ∧ FsNode.file (lit "a.cmake") content ∈ ch ∧
          isCMakeName (lit "a.cmake") = true) ∧ ∀ n ∈ [lit "build"], n ∉ [lit "cmake"] ++ [lit "a.cmake"]) := by
  have hpl : ∀ n ∈ [lit "build"], Plain n := by decide
  obtain ⟨cs, hc, _⟩ := C15G_exclOf_bare [lit "build"] hpl [lit "home", lit "u", lit "proj"] [] (by decide) (by decide) true
  exact ⟨cs, hc, C15G_reachable_bare [lit "build"] hpl [lit "home", lit "u", lit "proj"] [] [lit "cmake"]
    (lit "a.cmake") content listing (by decide) (by decide) cs hc (by decide)⟩

end Glob
end Cminx
