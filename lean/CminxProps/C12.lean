import CminxProps.C07
/-!
# C12 — Title and module name

*Statement.* "Each generated page starts with a title whose over- and underline consist of the first configured
header character repeated to exactly the title's length, followed by exactly one module directive before any
entry.  Title and module name are derived only from the prefix (default: the input directory's name) and the
file's path relative to the input directory (a lone input file: its base name), start with the prefix and the
configured separator when a prefix applies, drop the .cmake extension unless the corresponding option keeps it,
and differ for different files; if the file starts with an '@module <name>' doccomment, <name> is both title and
module name, and that doccomment's text becomes the module directive's content and is never attached to the
following command."

Two clauses are false as literally stated and are proved with an explicit extra hypothesis; the counterexamples
are given as `example`s next to the theorems:

* "start with the prefix and the separator": the extension is removed *after* the prefix was put in front
  (`re.sub(r"\.cmake$", "", prefix + sep + name)`), so a name shorter than six characters can lose part of the
  separator: prefix `a`, separator `.`, lone file `cmake` gives the title `a` (`C12_prefix_counterexample`).
  True whenever the relative path has at least six characters, in particular for every CMake-named file, which is
  all the directory walk ever documents (`C12_prefix_partial`), and always true when the extension is kept
  (`C12_prefix_ext`).
* "differ for different files" (K4): with the extension dropped, `a.cmake` and `a.CMAKE` get the same title
  (`C12_K4_counterexample`).  Titles are injective when the extension is kept (`C12_injective_ext`); with the
  extension dropped, two CMake-named paths collide exactly when they have the same stem (`C12_title_eq_iff`),
  hence never when both spell the extension the same way, e.g. lower case (`C12_injective`).
-/
namespace Cminx

/-! ## Spec-side definitions -/

/-- a `.. module::` directive -/
def Elem.isModuleDir : Elem → Bool
  | .directive name _ _ _ => name == lit "module"
  | _ => false

/-- the name a module doccomment declares, if it declares one -/
def namedModule? : Entry → Option Str
  | .module n _ => if n.isEmpty then none else some n
  | _ => none

/-- the module directive's argument: the `@module` name of a leading module doccomment if it has one, else the
    path-derived module name -/
def moduleArg (modName : Str) : List Entry → Str
  | .module n _ :: _ => if n.isEmpty then modName else n
  | _ => modName

/-- the text of a leading module doccomment -/
def moduleDoc : List Entry → Str
  | .module _ d :: _ => d
  | _ => []

/-! ## 1. The title frame -/

/-- A page is: a blank line; the first header character repeated to exactly the title's length (in code points);
    the title; the same bar again; then the entries as top-level directives (`renderedDocs`: module first). -/
theorem C12_frame (cfg : Cfg) (c : Char) (hs : List Str) (title modName src out : Str)
    (h : pipeline cfg ([c] :: hs) title modName src = .ok out) :
    ∃ docs, documentedOf cfg src = .ok docs ∧
      out = '\n' :: (List.replicate (titleOf title docs).length c ++
              '\n' :: (titleOf title docs ++ '\n' :: List.replicate (titleOf title docs).length c)) ++
            '\n' :: renderElems 0 ((renderedDocs modName docs).map Entry.toElem) := by
  simp only [pipeline] at h
  cases hd : documentedOf cfg src with
  | error e => simp [hd] at h
  | ok docs =>
    simp only [hd, Except.ok.injEq] at h
    refine ⟨docs, rfl, ?_⟩
    rw [← h, C07_doc_order, renderHeading, repeatStr_single_char]

/-- over- and underline have exactly the title's length -/
theorem C12_bar_length (c : Char) (t : Str) : (repeatStr [c] t.length).length = t.length := by
  simp [repeatStr_single_char]

/-! ## 2. Exactly one module directive, and it comes first -/

theorem C12_isModuleDir_toElem (e : Entry) : e.toElem.isModuleDir = isModule e := by
  cases e <;> simp only [Entry.toElem, Elem.isModuleDir, isModule, lit, String.reduceToList] <;> decide

theorem C12_isModule_nameModule (modName : Str) (e : Entry) : isModule (nameModule modName e) = isModule e := by
  cases e with
  | module n d => simp only [nameModule]; split <;> rfl
  | _ => rfl

/-- the number of module directives on a page: one per module doccomment, and one if there is none -/
theorem C12_module_count (hc title modName : Str) (docs : List Entry) :
    ((processDocs hc title modName docs).body.filter Elem.isModuleDir).length =
      if docs.any isModule then (docs.filter isModule).length else 1 := by
  have key : ∀ l : List Entry, (((l.map (nameModule modName)).map Entry.toElem).filter Elem.isModuleDir).length =
      (l.filter isModule).length := by
    intro l
    induction l with
    | nil => rfl
    | cons e es ih =>
      simp only [List.map_cons, List.filter_cons, C12_isModuleDir_toElem, C12_isModule_nameModule]
      split <;> simp only [List.length_cons, ih]
  simp only [processDocs]
  split
  · exact key docs
  · rename_i hn
    rw [key]
    have : docs.filter isModule = [] := by
      simp only [List.filter_eq_nil_iff]
      intro e he hm
      exact hn (List.any_eq_true.2 ⟨e, he, hm⟩)
    simp [List.filter_cons, isModule, this]

/-- with at most one module doccomment (the parser accepts one only as the first token) there is exactly one
    module directive -/
theorem C12_one_module (hc title modName : Str) (docs : List Entry) (h : (docs.filter isModule).length ≤ 1) :
    ((processDocs hc title modName docs).body.filter Elem.isModuleDir).length = 1 := by
  rw [C12_module_count]
  split
  · rename_i ha
    obtain ⟨e, he, hm⟩ := List.any_eq_true.1 ha
    have : 0 < (docs.filter isModule).length := List.length_pos_of_mem (List.mem_filter.2 ⟨he, hm⟩)
    omega
  · rfl

/-- If a module doccomment can only be the first entry, the body is: the module directive — argument: the `@module`
    name if non-empty, else the path-derived name; content: the module doccomment's text as one paragraph, nothing
    if that text is empty — followed by the elements of exactly the non-module entries, in order. -/
theorem C12_module_first (hc title modName : Str) (docs : List Entry) (h : docs.tail.all (!isModule ·) = true) :
    (processDocs hc title modName docs).body =
      .directive (lit "module") [moduleArg modName docs] []
          (if (moduleDoc docs).isEmpty then [] else [.para (moduleDoc docs)]) ::
        (docs.filter (!isModule ·)).map Entry.toElem := by
  have key : ∀ l : List Entry, l.all (!isModule ·) = true →
      (l.map (nameModule modName)).map Entry.toElem = (l.filter (!isModule ·)).map Entry.toElem ∧
      l.any isModule = false := by
    intro l hl
    induction l with
    | nil => simp
    | cons e es ih =>
      simp only [List.all_cons, Bool.and_eq_true] at hl
      obtain ⟨he, hes⟩ := hl
      obtain ⟨ih1, ih2⟩ := ih hes
      have hne : nameModule modName e = e := by cases e <;> simp_all [nameModule, isModule]
      simp only [Bool.not_eq_eq_eq_not, Bool.not_true] at he
      simp [he, ih1, ih2, hne]
  cases docs with
  | nil => simp [processDocs, moduleArg, moduleDoc, Entry.toElem, nameModule]
  | cons e es =>
    simp only [List.tail_cons] at h
    obtain ⟨k1, k2⟩ := key es h
    cases e with
    | module n d =>
      simp only [processDocs, List.any_cons, isModule, Bool.true_or, if_true, List.map_cons, moduleArg, moduleDoc,
        List.filter_cons, Bool.not_true, Bool.false_eq_true, if_false, k1, nameModule]
      split <;> simp [Entry.toElem]
    | _ =>
      simp [processDocs, isModule, k2, moduleArg, moduleDoc, Entry.toElem, nameModule, k1]

/-- … and none of the elements after the first is a module directive -/
theorem C12_no_second_module (docs : List Entry) :
    ∀ x ∈ (docs.filter (!isModule ·)).map Entry.toElem, x.isModuleDir = false := by
  intro x hx
  obtain ⟨e, he, rfl⟩ := List.mem_map.1 hx
  rw [C12_isModuleDir_toElem]
  simpa using (List.mem_filter.1 he).2

/-! ## 3. Where title and module name come from -/

/-- title and module name are a function of (prefix, separator, relative path, the two flags) only -/
theorem C12_names (c : WalkCfg) (pfx : Option Str) (rel : Str) :
    pageNames c pfx rel =
      (if c.extTitles then withPrefix pfx c.sep rel else dropCMakeExt (withPrefix pfx c.sep rel),
       if c.extModules then withPrefix pfx c.sep rel else dropCMakeExt (withPrefix pfx c.sep rel)) := rfl

/-- two configurations that agree on separator and flags give the same names: nothing else is consulted -/
theorem C12_names_only (c₁ c₂ : WalkCfg) (pfx : Option Str) (rel : Str) (hs : c₁.sep = c₂.sep)
    (ht : c₁.extTitles = c₂.extTitles) (hm : c₁.extModules = c₂.extModules) :
    pageNames c₁ pfx rel = pageNames c₂ pfx rel := by
  simp [pageNames, hs, ht, hm]

/-- without a prefix the names are the relative path, with a prefix `prefix ++ sep ++ path` (before the extension is
    dealt with) -/
theorem C12_withPrefix (sep rel : Str) :
    withPrefix none sep rel = rel ∧ ∀ p, withPrefix (some p) sep rel = p ++ sep ++ rel :=
  ⟨rfl, fun p => by simp [withPrefix]⟩

/-- `dropCMakeExt` removes exactly a trailing `.cmake` in any letter case … -/
theorem C12_ext (s : Str) (h : isCMakeName s = true) :
    dropCMakeExt s ++ s.drop (s.length - 6) = s ∧ asciiLower (s.drop (s.length - 6)) = lit ".cmake" ∧
    (s.drop (s.length - 6)).length = 6 :=
  ⟨dropCMakeExt_append_ext h, ((isCMakeName_iff s).1 h).2, by
    have := ((isCMakeName_iff s).1 h).1; simp only [List.length_drop]; omega⟩

/-- … and is the identity otherwise -/
theorem C12_ext_id (s : Str) (h : isCMakeName s = false) : dropCMakeExt s = s := dropCMakeExt_of_not h

/-- `isCMakeName` is "ends in `.cmake`, letter case ignored" -/
theorem C12_isCMakeName (s : Str) :
    isCMakeName s = true ↔ 6 ≤ s.length ∧ asciiLower (s.drop (s.length - 6)) = lit ".cmake" := isCMakeName_iff s

/-- With a prefix `p`, title and module name start with `p ++ sep` — provided the relative path has at least six
    characters (true of every CMake-named file).  See `C12_prefix_counterexample` for why the proviso is needed. -/
theorem C12_prefix_partial (c : WalkCfg) (p rel : Str) (hl : 6 ≤ rel.length) :
    (p ++ c.sep).isPrefixOf (pageNames c (some p) rel).1 = true ∧
    (p ++ c.sep).isPrefixOf (pageNames c (some p) rel).2 = true := by
  have hw : withPrefix (some p) c.sep rel = (p ++ c.sep) ++ rel := by simp [withPrefix]
  have hd : dropCMakeExt ((p ++ c.sep) ++ rel) = (p ++ c.sep) ++ dropCMakeExt rel := dropCMakeExt_append _ _ hl
  simp only [pageNames, hw, hd]
  constructor <;> split <;> simp [List.isPrefixOf_iff_prefix]

/-- every file the directory walk documents satisfies the proviso -/
theorem C12_prefix_cmake (c : WalkCfg) (p rel : Str) (hc : isCMakeName rel = true) :
    (p ++ c.sep).isPrefixOf (pageNames c (some p) rel).1 = true ∧
    (p ++ c.sep).isPrefixOf (pageNames c (some p) rel).2 = true :=
  C12_prefix_partial c p rel (isCMakeName_length hc)

/-- when the extension is kept the proviso is not needed -/
theorem C12_prefix_ext (c : WalkCfg) (p rel : Str) :
    (c.extTitles = true → (p ++ c.sep).isPrefixOf (pageNames c (some p) rel).1 = true) ∧
    (c.extModules = true → (p ++ c.sep).isPrefixOf (pageNames c (some p) rel).2 = true) := by
  have hw : withPrefix (some p) c.sep rel = (p ++ c.sep) ++ rel := by simp [withPrefix]
  simp only [pageNames, hw]
  constructor <;> intro h <;> simp [h, List.isPrefixOf_iff_prefix]

/-- The literal claim fails for short names: prefix `a`, separator `.`, a lone input file called `cmake`:
    the title is `a`, which does not start with `a.`. -/
theorem C12_prefix_counterexample :
    (pageNames {} (some ['a']) (lit "cmake")).1 = ['a'] ∧
    (['a'] ++ ({} : WalkCfg).sep).isPrefixOf (pageNames {} (some ['a']) (lit "cmake")).1 = false := by
  simp only [lit, String.reduceToList]; decide

/-! ## 4. Different files, different names -/

/-- prefixing is injective in the relative path -/
theorem C12_withPrefix_injective (pfx : Option Str) (sep r₁ r₂ : Str)
    (h : withPrefix pfx sep r₁ = withPrefix pfx sep r₂) : r₁ = r₂ := withPrefix_injective pfx sep h

/-- extension kept: different relative paths give different titles (module names) — no side condition -/
theorem C12_injective_ext (c : WalkCfg) (pfx : Option Str) (r₁ r₂ : Str) (hne : r₁ ≠ r₂) :
    (c.extTitles = true → (pageNames c pfx r₁).1 ≠ (pageNames c pfx r₂).1) ∧
    (c.extModules = true → (pageNames c pfx r₁).2 ≠ (pageNames c pfx r₂).2) := by
  constructor <;> intro h heq <;> simp only [pageNames, h, if_true] at heq <;>
    exact hne (withPrefix_injective pfx c.sep heq)

/-- the title of a CMake-named file with the extension dropped: (prefix, separator,) stem -/
theorem C12_title_dropped (c : WalkCfg) (pfx : Option Str) (rel : Str)
    (hc : isCMakeName rel = true) :
    dropCMakeExt (withPrefix pfx c.sep rel) = withPrefix pfx c.sep (dropCMakeExt rel) ∨
    (∃ p, pfx = some p ∧ dropCMakeExt rel = c.sep ∧ dropCMakeExt (withPrefix pfx c.sep rel) = p ++ c.sep ++ c.sep) := by
  cases pfx with
  | none => left; simp [withPrefix]
  | some p =>
    have hw : withPrefix (some p) c.sep rel = (p ++ c.sep) ++ rel := by simp [withPrefix]
    have hd := dropCMakeExt_append (p ++ c.sep) rel (isCMakeName_length hc)
    by_cases hs : dropCMakeExt rel = c.sep
    · right; exact ⟨p, rfl, hs, by rw [hw, hd, hs]⟩
    · left; rw [hw, hd]; simp [withPrefix]

/-- Extension dropped: two CMake-named paths get the same title (module name) exactly when they have the same stem,
    i.e. differ at most in the letter case of the extension. -/
theorem C12_title_eq_iff (c : WalkCfg) (pfx : Option Str) (r₁ r₂ : Str)
    (hc₁ : isCMakeName r₁ = true) (hc₂ : isCMakeName r₂ = true) :
    (c.extTitles = false → ((pageNames c pfx r₁).1 = (pageNames c pfx r₂).1 ↔ dropCMakeExt r₁ = dropCMakeExt r₂)) ∧
    (c.extModules = false → ((pageNames c pfx r₁).2 = (pageNames c pfx r₂).2 ↔ dropCMakeExt r₁ = dropCMakeExt r₂)) := by
  have key : dropCMakeExt (withPrefix pfx c.sep r₁) = dropCMakeExt (withPrefix pfx c.sep r₂) ↔
      dropCMakeExt r₁ = dropCMakeExt r₂ := by
    cases pfx with
    | none => simp [withPrefix]
    | some p =>
      have hw₁ : withPrefix (some p) c.sep r₁ = (p ++ c.sep) ++ r₁ := by simp [withPrefix]
      have hw₂ : withPrefix (some p) c.sep r₂ = (p ++ c.sep) ++ r₂ := by simp [withPrefix]
      rw [hw₁, hw₂, dropCMakeExt_append _ _ (isCMakeName_length hc₁), dropCMakeExt_append _ _ (isCMakeName_length hc₂)]
      simp
  constructor <;> intro h <;> simp only [pageNames, h, Bool.false_eq_true, if_false] <;> exact key

/-- Extension dropped: different CMake-named paths whose extensions are spelled the same way (e.g. both exactly
    `.cmake`) get different titles and module names.  This excludes precisely the known collision K4. -/
theorem C12_injective (c : WalkCfg) (pfx : Option Str) (r₁ r₂ : Str)
    (hc₁ : isCMakeName r₁ = true) (hc₂ : isCMakeName r₂ = true)
    (hext : r₁.drop (r₁.length - 6) = r₂.drop (r₂.length - 6)) (hne : r₁ ≠ r₂) :
    (pageNames c pfx r₁).1 ≠ (pageNames c pfx r₂).1 ∧ (pageNames c pfx r₁).2 ≠ (pageNames c pfx r₂).2 := by
  have hd : dropCMakeExt r₁ ≠ dropCMakeExt r₂ := fun hd => hne (eq_of_dropCMakeExt_eq hc₁ hc₂ hd hext)
  obtain ⟨k1, k2⟩ := C12_title_eq_iff c pfx r₁ r₂ hc₁ hc₂
  obtain ⟨e1, e2⟩ := C12_injective_ext c pfx r₁ r₂ hne
  constructor
  · cases ht : c.extTitles with
    | true => exact e1 ht
    | false => exact fun h => hd ((k1 ht).1 h)
  · cases hm : c.extModules with
    | true => exact e2 hm
    | false => exact fun h => hd ((k2 hm).1 h)

/-- the instance the walker's own extension test (`name.endswith(".cmake")`, lower case) describes -/
theorem C12_injective_lower (c : WalkCfg) (pfx : Option Str) (r₁ r₂ : Str)
    (hc₁ : isLowerCMakeName r₁ = true) (hc₂ : isLowerCMakeName r₂ = true) (hne : r₁ ≠ r₂) :
    (pageNames c pfx r₁).1 ≠ (pageNames c pfx r₂).1 ∧ (pageNames c pfx r₁).2 ≠ (pageNames c pfx r₂).2 :=
  C12_injective c pfx r₁ r₂ (isCMakeName_of_lower hc₁) (isCMakeName_of_lower hc₂)
    (by rw [((isLowerCMakeName_iff r₁).1 hc₁).2, ((isLowerCMakeName_iff r₂).1 hc₂).2]) hne

/-- K4: two different files, one title -/
theorem C12_K4_counterexample :
    lit "a.cmake" ≠ lit "a.CMAKE" ∧
    (pageNames {} none (lit "a.cmake")).1 = (pageNames {} none (lit "a.CMAKE")).1 ∧
    (pageNames {} none (lit "a.cmake")).2 = (pageNames {} none (lit "a.CMAKE")).2 := by
  simp only [lit, String.reduceToList]; decide

/-- the other collision, possible only for a path that is not CMake-named (a lone input file; the directory walk
    never documents one): `a` and `a.cmake` -/
theorem C12_stem_collision :
    (pageNames {} none (lit "a")).1 = (pageNames {} none (lit "a.cmake")).1 := by
  simp only [lit, String.reduceToList]; decide

/-! ## 5. `@module` -/

/-- the title is the name of the last module doccomment that declares one, else the path-derived title -/
theorem C12_titleOf (title : Str) (docs : List Entry) :
    titleOf title docs = ((docs.filterMap namedModule?).getLast?).getD title := by
  induction docs generalizing title with
  | nil => rfl
  | cons e es ih =>
    cases e with
    | module n d =>
      simp only [titleOf, ih, List.filterMap_cons, namedModule?]
      split <;> simp [List.getLast?_cons]
    | _ => simp [titleOf, ih, List.filterMap_cons, namedModule?]

/-- entries that are not module doccomments do not influence the title -/
theorem C12_titleOf_no_module (title : Str) (docs : List Entry) (h : docs.all (!isModule ·) = true) :
    titleOf title docs = title := by
  induction docs with
  | nil => rfl
  | cons e es ih =>
    simp only [List.all_cons, Bool.and_eq_true] at h
    cases e <;> simp_all [titleOf, isModule]

/-- A file that starts with `@module n` (text `d`): `n` is both the title and the module directive's argument;
    an empty `n` leaves the path-derived title and module name in place; `d` is the module directive's content
    (one paragraph; nothing if `d` is empty); and the rest of the page is the rest of the entries. -/
theorem C12_module_doc (hc title modName n d : Str) (rest : List Entry) (h : rest.all (!isModule ·) = true) :
    let w := processDocs hc title modName (.module n d :: rest)
    w.title = (if n.isEmpty then title else n) ∧
    w.body = .directive (lit "module") [if n.isEmpty then modName else n] []
                (if d.isEmpty then [] else [.para d]) :: rest.map Entry.toElem := by
  have hf : rest.filter (!isModule ·) = rest := List.filter_eq_self.2 (by simpa using h)
  refine ⟨?_, ?_⟩
  · simp only [processDocs, titleOf]
    exact C12_titleOf_no_module _ rest h
  · have := C12_module_first hc title modName (.module n d :: rest) (by simpa using h)
    have hf' : (Entry.module n d :: rest).filter (!isModule ·) = rest := by
      rw [List.filter_cons_of_neg (by simp [isModule]), hf]
    rw [this, hf']
    simp [moduleArg, moduleDoc]

/-- The module doccomment's text is not attached to anything else on the page: everything after the module
    directive is what the page has without the module doccomment (the entries' elements do not depend on `d`). -/
theorem C12_module_doc_elsewhere (hc title modName n d : Str) (rest : List Entry) (h : rest.all (!isModule ·) = true) :
    (processDocs hc title modName (.module n d :: rest)).body.tail = (processDocs hc title modName rest).body.tail := by
  rw [(C12_module_doc hc title modName n d rest h).2,
    C12_module_first hc title modName rest (by
      cases rest with
      | nil => rfl
      | cons e es => simp only [List.all_cons, Bool.and_eq_true] at h; simpa using h.2)]
  simp [List.filter_eq_self.2 (show ∀ a ∈ rest, (!isModule a) = true by simpa using h)]

/-! ## Non-vacuity -/

section Examples

example : (processDocs ['#'] (lit "t") (lit "m") [.module (lit "mine") (lit "about\nit"), exClass, exVar]).body =
    .directive (lit "module") [lit "mine"] [] [.para (lit "about\nit")] :: [exClass.toElem, exVar.toElem] := by
  have := (C12_module_doc ['#'] (lit "t") (lit "m") (lit "mine") (lit "about\nit") [exClass, exVar] (by decide)).2
  simpa [lit] using this

example : ((processDocs ['#'] (lit "t") (lit "m") [exClass, exVar, exFunc]).body.filter Elem.isModuleDir).length = 1 :=
  C12_one_module _ _ _ _ (by decide)

example : (pageNames {} (some (lit "proj")) (lit "sub/file.cmake")) = (lit "proj.sub/file", lit "proj.sub/file") := by
  simp only [lit, String.reduceToList]; decide

example : (lit "proj" ++ ({} : WalkCfg).sep).isPrefixOf (pageNames {} (some (lit "proj")) (lit "sub/file.cmake")).1 = true :=
  (C12_prefix_cmake {} _ _ (by simp only [lit, String.reduceToList]; decide)).1

example : (pageNames {} (some (lit "p")) (lit "a.cmake")).1 ≠ (pageNames {} (some (lit "p")) (lit "b.cmake")).1 :=
  (C12_injective_lower {} _ _ _ (by simp only [lit, String.reduceToList]; decide)
    (by simp only [lit, String.reduceToList]; decide) (by simp only [lit, String.reduceToList]; decide)).1

-- a file whose relative path equals the separator keeps its name (before the repair `a0734fb` its title was the bare prefix)
example : (pageNames { sep := lit "a.cmake", extTitles := true } (some (lit "p")) (lit "a.cmake")).1 = lit "pa.cmakea.cmake" := by
  simp only [lit, String.reduceToList]; decide

end Examples

end Cminx
