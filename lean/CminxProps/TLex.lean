import CminxModel.Pipeline
import CminxModel.Source
import CminxLemmas.ParseLemmas
/-!
# T-parse / T-lex — the printer of decorated modules round-trips through the scanner and the parser

Spec side: `Module.sigToks` (the significant token sequence of a decorated module, layout erased), the
well-formedness predicate for dangling doccomments (`Module.danglingOk`) and the validity predicate of a
decorated module (`Module.valid`).  All predicates are `Bool` functions, so the harness can evaluate them.
-/
namespace Cminx

/-! ## the significant token sequence of a module -/

/-- the text is an `Identifier`: `identStart identChar*` -/
def isIdentText : Str → Bool
  | [] => false
  | c :: cs => identStart c && cs.all identChar

/-- The kind the scanner gives an argument token.  A bare word that has the shape of an identifier is an
    `Identifier`, any other bare word an `Unquoted_argument`.  A bracket argument whose whole text (delimiters
    included) consists of unquoted-argument characters — e.g. `[[ab]]` — matches `Unquoted_argument` with the same
    length, and that rule is listed first; otherwise it is a `Bracket_argument`.  (The parser treats the four
    kinds alike.) -/
def ArgTok.kind : ArgTok → TokKind
  | .bare s => if isIdentText s then .identifier else .unquoted
  | .quoted _ => .quoted
  | .bracket lvl s =>
    if unqLen (ArgTok.bracket lvl s).text = (ArgTok.bracket lvl s).text.length then .unquoted else .bracketArg

def ArgTok.tok (t : ArgTok) : Tok := ⟨t.kind, t.text⟩

def lparenTok : Tok := ⟨.lparen, ['(']⟩
def rparenTok : Tok := ⟨.rparen, [')']⟩

mutual
def SArg.sigToks : SArg → List Tok
  | .tok _ t => [t.tok]
  | .group _ args _ => lparenTok :: (sargsSigToks args ++ [rparenTok])
def sargsSigToks : List SArg → List Tok
  | [] => []
  | a :: as => a.sigToks ++ sargsSigToks as
end

def Call.sigToks (c : Call) : List Tok :=
  ⟨.identifier, c.name⟩ :: lparenTok :: (sargsSigToks c.args ++ [rparenTok])

def DocC.tok (d : DocC) : Tok := ⟨.docstring, d.tokenText⟩

def docOptToks : Option DocC → List Tok
  | some d => [d.tok]
  | none => []

mutual
def Item.sigToks : Item → List Tok
  | .cmd doc call => docOptToks doc ++ call.sigToks
  | .block doc o body c => docOptToks doc ++ o.sigToks ++ itemsSigToks body ++ c.sigToks
  | .decl doc d i body c => docOptToks doc ++ d.sigToks ++ i.sigToks ++ itemsSigToks body ++ c.sigToks
  | .dangling d => [d.tok]
def itemsSigToks : List Item → List Tok
  | [] => []
  | i :: is => i.sigToks ++ itemsSigToks is
end

def Module.sigToks (m : Module) : List Tok :=
  (match m.modDoc with | some d => [⟨.moduleDocstring, d.tokenText⟩] | none => []) ++ itemsSigToks m.items

/-! ## dangling doccomments -/

def Item.isDangling : Item → Bool
  | .dangling _ => true
  | _ => false

/-- the first significant token of the item is a doccomment -/
def Item.startsWithDoc : Item → Bool
  | .cmd doc _ => doc.isSome
  | .block doc _ _ _ => doc.isSome
  | .decl doc _ _ _ _ => doc.isSome
  | .dangling _ => true

/-- what comes after a dangling doccomment is another doccomment, or — at top level only — the end of the file
    (inside a body the closing command follows) -/
def nextStartsDoc (inBody : Bool) : List Item → Bool
  | [] => !inBody
  | j :: _ => j.startsWithDoc

mutual
def Item.danglingOk : Item → Bool
  | .cmd _ _ => true
  | .block _ _ body _ => itemsDanglingOk true body
  | .decl _ _ _ body _ => itemsDanglingOk true body
  | .dangling _ => true
/-- every `Item.dangling` really is dangling for the parser: it is followed by an element that starts with a
    doccomment, or it is the last element of the top-level list -/
def itemsDanglingOk (inBody : Bool) : List Item → Bool
  | [] => true
  | i :: is => i.danglingOk && (!i.isDangling || nextStartsDoc inBody is) && itemsDanglingOk inBody is
end

def Module.danglingOk (m : Module) : Bool := itemsDanglingOk false m.items

/-! ## T-parse -/

/-- the events the parser has committed to, plus the `dangling` it will emit for a waiting doccomment -/
def flushEvents (pending : Option Str) (evs : List Event) : List Event :=
  match pending with
  | some _ => Event.dangling :: evs
  | none => evs

mutual
theorem parseFold_sarg (a : SArg) (p : Option Str) (n : Str) (stack : List (List Arg)) (cur : List Arg)
    (evs : List Event) (st : Bool) :
    parseFold ⟨.inArgs p n stack cur, evs, st⟩ a.sigToks = some ⟨.inArgs p n stack (a.toArg :: cur), evs, st⟩ := by
  cases a with
  | tok pre t =>
    have hk : t.kind.isArg = true := by
      cases t with
      | bare s => simp only [ArgTok.kind]; split <;> rfl
      | quoted s => rfl
      | bracket lvl s => simp only [ArgTok.kind]; split <;> rfl
    simp [SArg.sigToks, SArg.toArg, parseFold, parseStep, ArgTok.tok, hk]
  | group pre args close =>
    simp only [SArg.sigToks, SArg.toArg]
    rw [parseFold]
    simp only [parseStep, lparenTok, TokKind.isArg, Bool.false_eq_true, if_false, Option.bind_some]
    rw [parseFold_append, parseFold_sargs args p n (cur :: stack) [] evs st]
    simp [parseFold, parseStep, rparenTok, TokKind.isArg]
theorem parseFold_sargs (as : List SArg) (p : Option Str) (n : Str) (stack : List (List Arg)) (cur : List Arg)
    (evs : List Event) (st : Bool) :
    parseFold ⟨.inArgs p n stack cur, evs, st⟩ (sargsSigToks as) =
      some ⟨.inArgs p n stack ((toArgs as).reverse ++ cur), evs, st⟩ := by
  cases as with
  | nil => simp [sargsSigToks, toArgs, parseFold]
  | cons a as =>
    simp only [sargsSigToks, toArgs]
    rw [parseFold_append, parseFold_sarg a p n stack cur evs st]
    simp only [Option.bind_some]
    rw [parseFold_sargs as p n stack (a.toArg :: cur) evs st]
    simp
end

/-- one command invocation, started between commands with a possibly waiting doccomment -/
theorem parseFold_call (c : Call) (p : Option Str) (evs : List Event) (st : Bool) :
    parseFold ⟨.top p, evs, st⟩ c.sigToks = some ⟨.top none, emitCmd p c.toCmd :: evs, false⟩ := by
  simp only [Call.sigToks]
  rw [parseFold]
  simp only [parseStep, Option.bind_some]
  rw [parseFold]
  simp only [parseStep, lparenTok, Option.bind_some]
  rw [parseFold_append, parseFold_sargs]
  simp [parseFold, parseStep, rparenTok, TokKind.isArg, Call.toCmd]

theorem emitCmd_eq_docEvent (doc : Option DocC) (c : Call) :
    emitCmd (doc.map DocC.tokenText) c.toCmd = docEvent doc c := by
  cases doc <;> rfl

/-- an optional doccomment followed by a command invocation -/
theorem parseFold_doc_call (doc : Option DocC) (c : Call) (p : Option Str) (evs : List Event) (st : Bool)
    (hp : p.isSome = true → doc.isSome = true) :
    ∃ evs', parseFold ⟨.top p, evs, st⟩ (docOptToks doc ++ c.sigToks) = some ⟨.top none, evs', false⟩ ∧
      evs' = docEvent doc c :: flushEvents p evs := by
  cases doc with
  | none =>
    have : p = none := by cases p <;> simp_all
    subst this
    exact ⟨_, by simpa [docOptToks] using parseFold_call c none evs st, by simp [docEvent, emitCmd, flushEvents]⟩
  | some d =>
    refine ⟨_, ?_, rfl⟩
    simp only [docOptToks, List.cons_append, List.nil_append]
    rw [parseFold]
    simp only [parseStep, DocC.tok, Option.bind_some]
    rw [parseFold_call]
    cases p <;> rfl

mutual
theorem parseFold_item (i : Item) (p : Option Str) (evs : List Event) (st : Bool)
    (hok : i.danglingOk = true) (hp : p.isSome = true → i.startsWithDoc = true) :
    ∃ p' evs' st', parseFold ⟨.top p, evs, st⟩ i.sigToks = some ⟨.top p', evs', st'⟩ ∧
      flushEvents p' evs' = i.events.reverse ++ flushEvents p evs ∧ p'.isSome = i.isDangling := by
  cases i with
  | cmd doc call =>
    obtain ⟨evs', h, rfl⟩ := parseFold_doc_call doc call p evs st hp
    exact ⟨none, _, false, h, by simp [flushEvents, Item.events], rfl⟩
  | block doc o body c =>
    obtain ⟨evs1, h1, rfl⟩ := parseFold_doc_call doc o p evs st hp
    obtain ⟨p2, evs2, st2, h2, hf2, hp2⟩ := parseFold_items body true none
      (docEvent doc o :: flushEvents p evs) false (by simpa [Item.danglingOk] using hok) (by simp)
    have : p2 = none := hp2 rfl
    subst this
    refine ⟨none, emitCmd none c.toCmd :: evs2, false, ?_, ?_, rfl⟩
    · simp only [Item.sigToks]
      rw [parseFold_append, parseFold_append, h1]
      simp only [Option.bind_some]
      rw [h2]
      simp only [Option.bind_some]
      exact parseFold_call c none evs2 st2
    · simp only [flushEvents] at hf2
      simp [flushEvents, Item.events, hf2, emitCmd]
  | decl doc d i body c =>
    obtain ⟨evs1, h1, rfl⟩ := parseFold_doc_call doc d p evs st hp
    obtain ⟨p2, evs2, st2, h2, hf2, hp2⟩ := parseFold_items body true none
      (emitCmd none i.toCmd :: docEvent doc d :: flushEvents p evs) false
      (by simpa [Item.danglingOk] using hok) (by simp)
    have : p2 = none := hp2 rfl
    subst this
    refine ⟨none, emitCmd none c.toCmd :: evs2, false, ?_, ?_, rfl⟩
    · simp only [Item.sigToks]
      rw [parseFold_append, parseFold_append, parseFold_append, h1]
      simp only [Option.bind_some]
      rw [parseFold_call]
      simp only [Option.bind_some]
      rw [h2]
      simp only [Option.bind_some]
      exact parseFold_call c none evs2 st2
    · simp only [flushEvents] at hf2
      simp [flushEvents, Item.events, hf2, emitCmd]
  | dangling d =>
    refine ⟨some d.tokenText, flushEvents p evs, false, ?_, by simp [flushEvents, Item.events], rfl⟩
    simp only [Item.sigToks, parseFold, parseStep, DocC.tok, Option.bind_some]
    cases p <;> rfl
theorem parseFold_items (is : List Item) (inBody : Bool) (p : Option Str) (evs : List Event) (st : Bool)
    (hok : itemsDanglingOk inBody is = true) (hp : p.isSome = true → nextStartsDoc inBody is = true) :
    ∃ p' evs' st', parseFold ⟨.top p, evs, st⟩ (itemsSigToks is) = some ⟨.top p', evs', st'⟩ ∧
      flushEvents p' evs' = (itemsEvents is).reverse ++ flushEvents p evs ∧ (inBody = true → p' = none) := by
  cases is with
  | nil =>
    refine ⟨p, evs, st, by simp [itemsSigToks, parseFold], by simp [itemsEvents], ?_⟩
    intro hb
    cases p with
    | none => rfl
    | some x => simp [nextStartsDoc, hb] at hp
  | cons i is =>
    simp only [itemsDanglingOk, Bool.and_eq_true, Bool.or_eq_true, Bool.not_eq_eq_eq_not, Bool.not_true] at hok
    obtain ⟨⟨hi, hnext⟩, his⟩ := hok
    obtain ⟨p1, evs1, st1, h1, hf1, hp1⟩ := parseFold_item i p evs st hi (by simpa [nextStartsDoc] using hp)
    obtain ⟨p2, evs2, st2, h2, hf2, hp2⟩ := parseFold_items is inBody p1 evs1 st1 his (by
      intro h; rw [hp1] at h; rcases hnext with hn | hn
      · rw [h] at hn; cases hn
      · exact hn)
    refine ⟨p2, evs2, st2, ?_, ?_, hp2⟩
    · simp only [itemsSigToks]
      rw [parseFold_append, h1]
      simpa using h2
    · rw [hf2, hf1]; simp [itemsEvents]
end

/-- **T-parse**: on the significant tokens of a decorated module the parser delivers exactly the module's events,
    provided every `Item.dangling` is followed by a doccomment or ends the file. -/
theorem T_parse (m : Module) (hd : m.danglingOk = true) : parse m.sigToks = some m.events := by
  obtain ⟨bom, modDoc, items, tail⟩ := m
  simp only [Module.danglingOk] at hd
  cases modDoc with
  | none =>
    obtain ⟨p', evs', st', h, hf, -⟩ := parseFold_items items false none [] true hd (by simp)
    simp only [Module.sigToks, Module.events, List.nil_append, parse]
    rw [show ({} : PState) = ⟨.top none, [], true⟩ from rfl, h]
    simp only [flushEvents] at hf
    simp only
    cases p' <;> simp_all [flushEvents]
  | some d =>
    obtain ⟨p', evs', st', h, hf, -⟩ := parseFold_items items false none [Event.moduleDoc d.tokenText] false hd
      (by simp)
    simp only [Module.sigToks, Module.events, List.cons_append, List.nil_append, parse]
    rw [parseFold]
    simp only [parseStep, show ({} : PState) = ⟨.top none, [], true⟩ from rfl, if_true, Option.bind_some]
    rw [h]
    simp only [flushEvents] at hf
    simp only
    cases p' <;> simp_all [flushEvents]

end Cminx
