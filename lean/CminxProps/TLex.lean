import CminxModel.Pipeline
import CminxModel.Source
import CminxLemmas.ParseLemmas
import CminxLemmas.RoundTripLex
import CminxProps.C06
/-!
# T-parse / T-lex — the printer of decorated modules round-trips through the scanner and the parser

Spec side: `Module.sigToks` (the significant token sequence of a decorated module, layout erased), the
well-formedness predicate for dangling doccomments (`Module.danglingOk`) and the validity predicate of a
decorated module (`Module.valid`).  All predicates are `Bool` functions, so the harness can evaluate them.
-/
namespace Cminx

/-! ## the significant token sequence of a module -/

/-- the text is an `Identifier`: `identStart identChar*` -/
def isIdentText : Str → Bool
  | [] => false
  | c :: cs => identStart c && cs.all identChar

/-- the text is a complete `Quoted_argument`: `"`, then a body whose first unescaped `"` is its last character -/
def isQuotedText : Str → Bool
  | '"' :: r => quotedBody r == some r.length
  | _ => false

/-- The kind the scanner gives an argument token.  A bare word that has the shape of an identifier is an
    `Identifier`, any other bare word an `Unquoted_argument` (the generator also writes the parameter name `"q"`
    as a "bare" token; such a text is a `Quoted_argument`).  A bracket argument whose whole text (delimiters
    included) consists of unquoted-argument characters — e.g. `[[ab]]` — matches `Unquoted_argument` with the same
    length, and that rule is listed first; otherwise it is a `Bracket_argument`.  (The parser treats the four
    kinds alike.) -/
def ArgTok.kind : ArgTok → TokKind
  | .bare s => if isIdentText s then .identifier else if isQuotedText s then .quoted else .unquoted
  | .quoted _ => .quoted
  | .bracket lvl s =>
    if unqLen (ArgTok.bracket lvl s).text = (ArgTok.bracket lvl s).text.length then .unquoted else .bracketArg

def ArgTok.tok (t : ArgTok) : Tok := ⟨t.kind, t.text⟩

def lparenTok : Tok := ⟨.lparen, ['(']⟩
def rparenTok : Tok := ⟨.rparen, [')']⟩

mutual
def SArg.sigToks : SArg → List Tok
  | .tok _ t => [t.tok]
  | .group _ args _ => lparenTok :: (sargsSigToks args ++ [rparenTok])
def sargsSigToks : List SArg → List Tok
  | [] => []
  | a :: as => a.sigToks ++ sargsSigToks as
end

def Call.sigToks (c : Call) : List Tok :=
  ⟨.identifier, c.name⟩ :: lparenTok :: (sargsSigToks c.args ++ [rparenTok])

def DocC.tok (d : DocC) : Tok := ⟨.docstring, d.tokenText⟩

def docOptToks : Option DocC → List Tok
  | some d => [d.tok]
  | none => []

mutual
def Item.sigToks : Item → List Tok
  | .cmd doc call => docOptToks doc ++ call.sigToks
  | .block doc o body c => docOptToks doc ++ o.sigToks ++ itemsSigToks body ++ c.sigToks
  | .decl doc d i body c => docOptToks doc ++ d.sigToks ++ i.sigToks ++ itemsSigToks body ++ c.sigToks
  | .dangling d => [d.tok]
def itemsSigToks : List Item → List Tok
  | [] => []
  | i :: is => i.sigToks ++ itemsSigToks is
end

def Module.sigToks (m : Module) : List Tok :=
  (match m.modDoc with | some d => [⟨.moduleDocstring, d.tokenText⟩] | none => []) ++ itemsSigToks m.items

/-! ## command names -/

mutual
def Item.namesOk : Item → Bool
  | .cmd _ c => isIdentText c.name
  | .block _ o body c => isIdentText o.name && itemsNamesOk body && isIdentText c.name
  | .decl _ d i body c => isIdentText d.name && isIdentText i.name && itemsNamesOk body && isIdentText c.name
  | .dangling _ => true
def itemsNamesOk : List Item → Bool
  | [] => true
  | i :: is => i.namesOk && itemsNamesOk is
end

/-- every command name is an identifier text.  (Part of `Module.valid`, see `valid_namesOk`; the parser model does
    not look at token texts, so `T_parse` does not need it.) -/
def Module.namesOk (m : Module) : Bool := itemsNamesOk m.items

/-! ## dangling doccomments -/

def Item.isDangling : Item → Bool
  | .dangling _ => true
  | _ => false

/-- the first significant token of the item is a doccomment -/
def Item.startsWithDoc : Item → Bool
  | .cmd doc _ => doc.isSome
  | .block doc _ _ _ => doc.isSome
  | .decl doc _ _ _ _ => doc.isSome
  | .dangling _ => true

/-- what comes after a dangling doccomment is another doccomment, or — at top level only — the end of the file
    (inside a body the closing command follows) -/
def nextStartsDoc (inBody : Bool) : List Item → Bool
  | [] => !inBody
  | j :: _ => j.startsWithDoc

mutual
def Item.danglingOk : Item → Bool
  | .cmd _ _ => true
  | .block _ _ body _ => itemsDanglingOk true body
  | .decl _ _ _ body _ => itemsDanglingOk true body
  | .dangling _ => true
/-- every `Item.dangling` really is dangling for the parser: it is followed by an element that starts with a
    doccomment, or it is the last element of the top-level list -/
def itemsDanglingOk (inBody : Bool) : List Item → Bool
  | [] => true
  | i :: is => i.danglingOk && (!i.isDangling || nextStartsDoc inBody is) && itemsDanglingOk inBody is
end

def Module.danglingOk (m : Module) : Bool := itemsDanglingOk false m.items

/-! ## validity of a decorated module

Every predicate takes the text `follow` that the printer emits after the construct: the only context a token
needs is whether the next character could extend it.  (`stopHead follow`: `follow` is empty or starts with one of
``␠ \t \r \n ( ) # "``, see `CminxLemmas/RoundTripTok.lean`.) -/

/-- the bracket terminator `]=*]` occurs in `t ++ ]=*]` only at the end -/
def closesAtEnd (lvl : Nat) (t : Str) : Bool :=
  findAfter (bracketClose lvl) (t ++ bracketClose lvl) == some (t.length + (bracketClose lvl).length)

/-- * blanks, tabs, newlines: no condition (adjacent ones merge into one token, which changes nothing);
    * line comment: its text has no CR/LF and does not open a bracket (`#[[`, `#[=[` … would start a bracket
      comment); without a line ending of its own it must end the file or stand in front of a line ending
      (LF or CRLF), which it then takes;
    * bracket comment: its terminator first occurs at its end, and at level 0 its text does not start with `[`
      — `#[[[` is CMinx's doccomment opener, known finding K3 — unless no `#]]` occurs anywhere after it in the
      file (then the `Docstring` rule cannot match and the comment is a comment) -/
def SepAtom.valid (follow : Str) : SepAtom → Bool
  | .spaces _ => true
  | .tabs _ => true
  | .nl _ => true
  | .lineComment t eol => t.all notEol && !opensBracket t && (eol.isSome || follow.isEmpty || startsWithEol follow)
  | .bracketComment lvl t =>
    closesAtEnd lvl t &&
      (!(lvl == 0 && t.head? == some '[') || findAfter docEnd (t ++ (bracketClose lvl ++ follow)) == none)

def sepValid (follow : Str) : Sep → Bool
  | [] => true
  | a :: as => a.valid (renderSep as ++ follow) && sepValid follow as

/-- * bare word: non-empty, consists of unquoted-argument characters and valid escapes only, does not open a
      bracket (`[[x` would be an unterminated bracket argument), and what follows does not extend it
      (or the "bare" text is a complete quoted argument);
    * quoted: the first unescaped `"` of `s"` is the closing one and every backslash starts a valid escape;
    * bracket: its terminator first occurs at its end; if the whole token also reads as an unquoted argument
      (e.g. `[[ab]]`) what follows must not extend it -/
def ArgTok.valid (follow : Str) : ArgTok → Bool
  | .bare s => isQuotedText s || (!s.isEmpty && unqLen s == s.length && !opensBracket s && stopHead follow)
  | .quoted s => quotedBody (s ++ ['"']) == some (s.length + 1)
  | .bracket lvl s =>
    closesAtEnd lvl s &&
      (unqLen (ArgTok.bracket lvl s).text != (ArgTok.bracket lvl s).text.length || stopHead follow)

mutual
def SArg.valid (follow : Str) : SArg → Bool
  | .tok pre t => sepValid (t.text ++ follow) pre && t.valid follow
  | .group pre args close =>
    sepValid ('(' :: (renderSArgs args ++ (renderSep close ++ ')' :: follow))) pre &&
      sargsValid (renderSep close ++ ')' :: follow) args && sepValid (')' :: follow) close
def sargsValid (follow : Str) : List SArg → Bool
  | [] => true
  | a :: as => a.valid (renderSArgs as ++ follow) && sargsValid follow as
end

/-- the command name is an identifier; separators and arguments are valid in their context -/
def Call.valid (follow : Str) (c : Call) : Bool :=
  isIdentText c.name &&
    sepValid (c.name ++ (List.replicate c.sp ' ' ++ '(' :: (renderSArgs c.args ++ (renderSep c.close ++ ')' :: follow))))
      c.pre &&
    sargsValid (renderSep c.close ++ ')' :: follow) c.args && sepValid (')' :: follow) c.close

/-- the text of a doccomment between `#[[[` and the closing `#]]` -/
def DocC.inner (d : DocC) : Str :=
  d.openSuffix ++ (eolStr d.crlf ++ ((d.lines.map (fun t => d.bodyLine t ++ eolStr d.crlf)).flatten ++ d.ind))

/-- * the indentation consists of blanks and tabs;
    * `#]]` occurs in the block only as its last three characters;
    * the module doccomment has blanks, `@module` and the rest of the line after `#[[[`; an ordinary doccomment
      has anything but that on its opening line (usually nothing) -/
def DocC.valid (isModule : Bool) (follow : Str) (d : DocC) : Bool :=
  sepValid (d.ind ++ (d.tokenText ++ follow)) d.pre && d.ind.all isBlank &&
    findAfter docEnd (d.inner ++ docEnd) == some (d.inner.length + 3) &&
    (isModule == (lit "@module").isPrefixOf (d.openSuffix.dropWhile isBlank))

def docOptValid (follow : Str) : Option DocC → Bool
  | some d => d.valid false follow
  | none => true

mutual
def Item.valid (follow : Str) : Item → Bool
  | .cmd doc call => docOptValid (call.render ++ follow) doc && call.valid follow
  | .block doc o body c =>
    docOptValid (o.render ++ (renderSrcItems body ++ (c.render ++ follow))) doc &&
      o.valid (renderSrcItems body ++ (c.render ++ follow)) && itemsValid (c.render ++ follow) body && c.valid follow
  | .decl doc d i body c =>
    docOptValid (d.render ++ (i.render ++ (renderSrcItems body ++ (c.render ++ follow)))) doc &&
      d.valid (i.render ++ (renderSrcItems body ++ (c.render ++ follow))) &&
      i.valid (renderSrcItems body ++ (c.render ++ follow)) && itemsValid (c.render ++ follow) body && c.valid follow
  | .dangling d => d.valid false follow
def itemsValid (follow : Str) : List Item → Bool
  | [] => true
  | i :: is => i.valid (renderSrcItems is ++ follow) && itemsValid follow is
end

/-- **validity of a decorated module**: dangling doccomments are dangling, and every token and filler atom is
    valid in its context -/
def Module.valid (m : Module) : Bool :=
  m.danglingOk &&
    (match m.modDoc with
     | some d => d.valid true (renderSrcItems m.items ++ renderSep m.tail)
     | none => true) &&
    itemsValid (renderSep m.tail) m.items && sepValid [] m.tail

/-! ## T-parse -/

/-- the events the parser has committed to, plus the `dangling` it will emit for a waiting doccomment -/
def flushEvents (pending : Option Str) (evs : List Event) : List Event :=
  match pending with
  | some _ => Event.dangling :: evs
  | none => evs

mutual
theorem parseFold_sarg (a : SArg) (p : Option Str) (n : Str) (stack : List (List Arg)) (cur : List Arg)
    (evs : List Event) (st : Bool) :
    parseFold ⟨.inArgs p n stack cur, evs, st⟩ a.sigToks = some ⟨.inArgs p n stack (a.toArg :: cur), evs, st⟩ := by
  cases a with
  | tok pre t =>
    have hk : t.kind.isArg = true := by
      cases t with
      | bare s => simp only [ArgTok.kind]; split; rfl; split <;> rfl
      | quoted s => rfl
      | bracket lvl s => simp only [ArgTok.kind]; split <;> rfl
    simp [SArg.sigToks, SArg.toArg, parseFold, parseStep, ArgTok.tok, hk]
  | group pre args close =>
    simp only [SArg.sigToks, SArg.toArg]
    rw [parseFold]
    simp only [parseStep, lparenTok, TokKind.isArg, Bool.false_eq_true, if_false, Option.bind_some]
    rw [parseFold_append, parseFold_sargs args p n (cur :: stack) [] evs st]
    simp [parseFold, parseStep, rparenTok, TokKind.isArg]
theorem parseFold_sargs (as : List SArg) (p : Option Str) (n : Str) (stack : List (List Arg)) (cur : List Arg)
    (evs : List Event) (st : Bool) :
    parseFold ⟨.inArgs p n stack cur, evs, st⟩ (sargsSigToks as) =
      some ⟨.inArgs p n stack ((toArgs as).reverse ++ cur), evs, st⟩ := by
  cases as with
  | nil => simp [sargsSigToks, toArgs, parseFold]
  | cons a as =>
    simp only [sargsSigToks, toArgs]
    rw [parseFold_append, parseFold_sarg a p n stack cur evs st]
    simp only [Option.bind_some]
    rw [parseFold_sargs as p n stack (a.toArg :: cur) evs st]
    simp
end

/-- one command invocation, started between commands with a possibly waiting doccomment -/
theorem parseFold_call (c : Call) (p : Option Str) (evs : List Event) (st : Bool) :
    parseFold ⟨.top p, evs, st⟩ c.sigToks = some ⟨.top none, emitCmd p c.toCmd :: evs, false⟩ := by
  simp only [Call.sigToks]
  rw [parseFold]
  simp only [parseStep, Option.bind_some]
  rw [parseFold]
  simp only [parseStep, lparenTok, Option.bind_some]
  rw [parseFold_append, parseFold_sargs]
  simp [parseFold, parseStep, rparenTok, TokKind.isArg, Call.toCmd]

theorem emitCmd_eq_docEvent (doc : Option DocC) (c : Call) :
    emitCmd (doc.map DocC.tokenText) c.toCmd = docEvent doc c := by
  cases doc <;> rfl

/-- an optional doccomment followed by a command invocation -/
theorem parseFold_doc_call (doc : Option DocC) (c : Call) (p : Option Str) (evs : List Event) (st : Bool)
    (hp : p.isSome = true → doc.isSome = true) :
    ∃ evs', parseFold ⟨.top p, evs, st⟩ (docOptToks doc ++ c.sigToks) = some ⟨.top none, evs', false⟩ ∧
      evs' = docEvent doc c :: flushEvents p evs := by
  cases doc with
  | none =>
    have : p = none := by cases p <;> simp_all
    subst this
    exact ⟨_, by simpa [docOptToks] using parseFold_call c none evs st, by simp [docEvent, emitCmd, flushEvents]⟩
  | some d =>
    refine ⟨_, ?_, rfl⟩
    simp only [docOptToks, List.cons_append, List.nil_append]
    rw [parseFold]
    simp only [parseStep, DocC.tok, Option.bind_some]
    rw [parseFold_call]
    cases p <;> rfl

mutual
theorem parseFold_item (i : Item) (p : Option Str) (evs : List Event) (st : Bool)
    (hok : i.danglingOk = true) (hp : p.isSome = true → i.startsWithDoc = true) :
    ∃ p' evs' st', parseFold ⟨.top p, evs, st⟩ i.sigToks = some ⟨.top p', evs', st'⟩ ∧
      flushEvents p' evs' = i.events.reverse ++ flushEvents p evs ∧ p'.isSome = i.isDangling := by
  cases i with
  | cmd doc call =>
    obtain ⟨evs', h, rfl⟩ := parseFold_doc_call doc call p evs st hp
    exact ⟨none, _, false, h, by simp [flushEvents, Item.events], rfl⟩
  | block doc o body c =>
    obtain ⟨evs1, h1, rfl⟩ := parseFold_doc_call doc o p evs st hp
    obtain ⟨p2, evs2, st2, h2, hf2, hp2⟩ := parseFold_items body true none
      (docEvent doc o :: flushEvents p evs) false (by simpa [Item.danglingOk] using hok) (by simp)
    have : p2 = none := hp2 rfl
    subst this
    refine ⟨none, emitCmd none c.toCmd :: evs2, false, ?_, ?_, rfl⟩
    · simp only [Item.sigToks]
      rw [parseFold_append, parseFold_append, h1]
      simp only [Option.bind_some]
      rw [h2]
      simp only [Option.bind_some]
      exact parseFold_call c none evs2 st2
    · simp only [flushEvents] at hf2
      simp [flushEvents, Item.events, hf2, emitCmd]
  | decl doc d i body c =>
    obtain ⟨evs1, h1, rfl⟩ := parseFold_doc_call doc d p evs st hp
    obtain ⟨p2, evs2, st2, h2, hf2, hp2⟩ := parseFold_items body true none
      (emitCmd none i.toCmd :: docEvent doc d :: flushEvents p evs) false
      (by simpa [Item.danglingOk] using hok) (by simp)
    have : p2 = none := hp2 rfl
    subst this
    refine ⟨none, emitCmd none c.toCmd :: evs2, false, ?_, ?_, rfl⟩
    · simp only [Item.sigToks]
      rw [parseFold_append, parseFold_append, parseFold_append, h1]
      simp only [Option.bind_some]
      rw [parseFold_call]
      simp only [Option.bind_some]
      rw [h2]
      simp only [Option.bind_some]
      exact parseFold_call c none evs2 st2
    · simp only [flushEvents] at hf2
      simp [flushEvents, Item.events, hf2, emitCmd]
  | dangling d =>
    refine ⟨some d.tokenText, flushEvents p evs, false, ?_, by simp [flushEvents, Item.events], rfl⟩
    simp only [Item.sigToks, parseFold, parseStep, DocC.tok, Option.bind_some]
    cases p <;> rfl
theorem parseFold_items (is : List Item) (inBody : Bool) (p : Option Str) (evs : List Event) (st : Bool)
    (hok : itemsDanglingOk inBody is = true) (hp : p.isSome = true → nextStartsDoc inBody is = true) :
    ∃ p' evs' st', parseFold ⟨.top p, evs, st⟩ (itemsSigToks is) = some ⟨.top p', evs', st'⟩ ∧
      flushEvents p' evs' = (itemsEvents is).reverse ++ flushEvents p evs ∧ (inBody = true → p' = none) := by
  cases is with
  | nil =>
    refine ⟨p, evs, st, by simp [itemsSigToks, parseFold], by simp [itemsEvents], ?_⟩
    intro hb
    cases p with
    | none => rfl
    | some x => simp [nextStartsDoc, hb] at hp
  | cons i is =>
    simp only [itemsDanglingOk, Bool.and_eq_true, Bool.or_eq_true, Bool.not_eq_eq_eq_not, Bool.not_true] at hok
    obtain ⟨⟨hi, hnext⟩, his⟩ := hok
    obtain ⟨p1, evs1, st1, h1, hf1, hp1⟩ := parseFold_item i p evs st hi (by simpa [nextStartsDoc] using hp)
    obtain ⟨p2, evs2, st2, h2, hf2, hp2⟩ := parseFold_items is inBody p1 evs1 st1 his (by
      intro h; rw [hp1] at h; rcases hnext with hn | hn
      · rw [h] at hn; cases hn
      · exact hn)
    refine ⟨p2, evs2, st2, ?_, ?_, hp2⟩
    · simp only [itemsSigToks]
      rw [parseFold_append, h1]
      simpa using h2
    · rw [hf2, hf1]; simp [itemsEvents]
end

/-- **T-parse**: on the significant tokens of a decorated module the parser delivers exactly the module's events,
    provided every `Item.dangling` is followed by a doccomment or ends the file. -/
theorem T_parse (m : Module) (hd : m.danglingOk = true) : parse m.sigToks = some m.events := by
  obtain ⟨bom, modDoc, items, tail⟩ := m
  simp only [Module.danglingOk] at hd
  cases modDoc with
  | none =>
    obtain ⟨p', evs', st', h, hf, -⟩ := parseFold_items items false none [] true hd (by simp)
    simp only [Module.sigToks, Module.events, List.nil_append, parse]
    rw [show ({} : PState) = ⟨.top none, [], true⟩ from rfl, h]
    simp only [flushEvents] at hf
    simp only
    cases p' <;> simp_all
  | some d =>
    obtain ⟨p', evs', st', h, hf, -⟩ := parseFold_items items false none [Event.moduleDoc d.tokenText] false hd
      (by simp)
    simp only [Module.sigToks, Module.events, List.cons_append, List.nil_append, parse]
    rw [parseFold]
    simp only [parseStep, if_true, Option.bind_some]
    rw [h]
    simp only [flushEvents] at hf
    simp only
    cases p' <;> simp_all

/-! ## T-lex -/

/-! ### filler -/

theorem lex_sepAtom (a : SepAtom) (follow : Str) (hv : a.valid follow = true) : Skips a.render follow := by
  cases a with
  | spaces n => exact Skips.blanks _ _ (by simp [SepAtom.render, isBlank])
  | tabs n => exact Skips.blanks _ _ (by simp [SepAtom.render, isBlank])
  | nl crlf => exact Skips.eols _ _ (by cases crlf <;> simp [SepAtom.render, eolStr, isEolCh])
  | lineComment t eol =>
    simp only [SepAtom.valid, Bool.and_eq_true, Bool.or_eq_true, Bool.not_eq_eq_eq_not, Bool.not_true] at hv
    obtain ⟨⟨ht, hob⟩, he⟩ := hv
    cases eol with
    | some c => exact Skips.lineComment t c follow ht hob
    | none =>
      rcases he with (he | he) | he
      · cases he
      · have : follow = [] := by simpa using he
        subst this
        simpa [SepAtom.render] using Skips.lineComment_eof t ht hob
      · simpa [SepAtom.render] using Skips.lineComment_noeol t follow ht hob he
  | bracketComment lvl t =>
    simp only [SepAtom.valid, closesAtEnd, Bool.and_eq_true, beq_iff_eq, Bool.or_eq_true, Bool.not_eq_eq_eq_not,
      Bool.not_true, Bool.and_eq_false_iff] at hv
    obtain ⟨hf, hk⟩ := hv
    refine Skips.bracketComment lvl t follow hf ?_
    rcases hk with hk | hk
    · left
      intro h0 hh
      rcases hk with hk | hk
      · simp [h0] at hk
      · simp [hh] at hk
    · exact Or.inr hk

theorem lex_sep (sep : Sep) (follow : Str) (hv : sepValid follow sep = true) : Skips (renderSep sep) follow := by
  induction sep with
  | nil => exact Skips.nil _
  | cons a as ih =>
    simp only [sepValid, Bool.and_eq_true] at hv
    exact Skips.append (lex_sepAtom a _ hv.1) (ih hv.2)

/-! ### argument tokens -/

theorem spanLen_eq_length_iff (p : Char → Bool) (s : Str) : spanLen p s = s.length ↔ s.all p = true := by
  induction s with
  | nil => simp [spanLen_nil]
  | cons c s ih =>
    by_cases hc : p c = true
    · simp [spanLen_cons, hc, ih]
    · simp [spanLen_cons, hc]

theorem isIdentText_iff (s : Str) : isIdentText s = true ↔ identLen s = some s.length := by
  cases s with
  | nil => simp [isIdentText, identLen]
  | cons c cs =>
    by_cases hc : identStart c = true
    · simp only [isIdentText, identLen, hc, Bool.true_and, if_true, Option.some.injEq, List.length_cons]
      rw [← spanLen_eq_length_iff]; omega
    · simp [isIdentText, identLen, hc]

theorem isQuotedText_split {s : Str} (h : isQuotedText s = true) :
    ∃ body, s = '"' :: (body ++ ['"']) ∧ quotedBody (body ++ ['"']) = some (body.length + 1) := by
  unfold isQuotedText at h
  split at h
  · rename_i r
    have hq : quotedBody r = some r.length := by simpa using h
    obtain ⟨body, post, hr, hm, -⟩ := C06_quotedBody_clean hq
    have hpost : post = [] := by
      have := congrArg List.length hr
      simp at this
      exact List.eq_nil_of_length_eq_zero (by omega)
    subst hpost
    subst hr
    exact ⟨body, rfl, by rw [hq]; simp⟩
  · cases h

theorem lex_argTok (t : ArgTok) (follow : Str) (sig : List Tok) (hv : t.valid follow = true)
    (h : LexSig follow sig) : LexSig (t.text ++ follow) (t.tok :: sig) := by
  cases t with
  | bare s =>
    simp only [ArgTok.text, ArgTok.tok, ArgTok.kind]
    by_cases hq : isQuotedText s = true
    · have hnid : isIdentText s = false := by
        cases s with
        | nil => rfl
        | cons c cs =>
          have : c = '"' := by
            unfold isQuotedText at hq
            split at hq
            · rename_i heq; cases heq; rfl
            · cases hq
          subst this; simp [isIdentText, identStart, asciiAlpha]
      rw [hnid, hq]
      obtain ⟨body, hb, hbody⟩ := isQuotedText_split hq
      subst hb
      have hsc := scan_quoted body follow hbody
      have : ('"' :: (body ++ ['"'])) ++ follow = '"' :: (body ++ '"' :: follow) := by simp
      refine LexSig.tok_append (k := .quoted) ?_ rfl h
      rw [this, hsc]; simp
    · simp only [ArgTok.valid, hq, Bool.false_or, Bool.and_eq_true, Bool.not_eq_eq_eq_not, Bool.not_true,
        beq_iff_eq] at hv
      obtain ⟨⟨⟨hne, hu⟩, hob⟩, hr⟩ := hv
      have hne' : s ≠ [] := by intro e; subst e; simp at hne
      by_cases hid : isIdentText s = true
      · rw [if_pos hid]
        exact LexSig.tok_append (scan_word_ident ((isIdentText_iff s).mp hid) hu hr) rfl h
      · rw [if_neg hid, if_neg hq]
        exact LexSig.tok_append (scan_word_unq hne' (fun e => hid ((isIdentText_iff s).mpr e)) hu hob hr) rfl h
  | quoted s =>
    simp only [ArgTok.valid, beq_iff_eq] at hv
    have hsc := scan_quoted s follow hv
    have : ('"' :: (s ++ ['"'])) ++ follow = '"' :: (s ++ '"' :: follow) := by simp
    simp only [ArgTok.text, ArgTok.tok, ArgTok.kind]
    refine LexSig.tok_append (k := .quoted) ?_ rfl h
    rw [this, hsc]; simp
  | bracket lvl s =>
    simp only [ArgTok.valid, closesAtEnd, Bool.and_eq_true, beq_iff_eq, Bool.or_eq_true, bne_iff_ne, ne_eq] at hv
    obtain ⟨hf, hu⟩ := hv
    simp only [ArgTok.tok, ArgTok.kind]
    split
    · rename_i hc
      have hr : stopHead follow = true := by rcases hu with hu | hu; exact absurd hc hu; exact hu
      exact LexSig.tok_append (scan_bracket_clean lvl s follow hf hc hr) rfl h
    · rename_i hc
      exact LexSig.tok_append (scan_bracket_dirty lvl s follow hf hc) rfl h

theorem lex_lparen (rest : Str) (sig : List Tok) (h : LexSig rest sig) : LexSig ('(' :: rest) (lparenTok :: sig) :=
  LexSig.tok_append (tok := ['(']) (scan_lparen rest) rfl h

theorem lex_rparen (rest : Str) (sig : List Tok) (h : LexSig rest sig) : LexSig (')' :: rest) (rparenTok :: sig) :=
  LexSig.tok_append (tok := [')']) (scan_rparen rest) rfl h

/-! ### argument lists -/

mutual
theorem lex_sarg (a : SArg) (follow : Str) (sig : List Tok) (hv : a.valid follow = true)
    (h : LexSig follow sig) : LexSig (a.render ++ follow) (a.sigToks ++ sig) := by
  cases a with
  | tok pre t =>
    simp only [SArg.valid, Bool.and_eq_true] at hv
    simp only [SArg.render, SArg.sigToks, List.append_assoc, List.cons_append, List.nil_append]
    exact lex_sep pre _ hv.1 _ (lex_argTok t follow sig hv.2 h)
  | group pre args close =>
    simp only [SArg.valid, Bool.and_eq_true] at hv
    obtain ⟨⟨hpre, hargs⟩, hclose⟩ := hv
    simp only [SArg.render, SArg.sigToks, List.append_assoc, List.cons_append, List.nil_append]
    refine lex_sep pre _ hpre _ (lex_lparen _ _ ?_)
    refine lex_sargs args _ _ hargs ?_
    exact lex_sep close _ hclose _ (lex_rparen _ _ h)
theorem lex_sargs (as : List SArg) (follow : Str) (sig : List Tok) (hv : sargsValid follow as = true)
    (h : LexSig follow sig) : LexSig (renderSArgs as ++ follow) (sargsSigToks as ++ sig) := by
  cases as with
  | nil => simpa [renderSArgs, sargsSigToks] using h
  | cons a as =>
    simp only [sargsValid, Bool.and_eq_true] at hv
    simp only [renderSArgs, sargsSigToks, List.append_assoc]
    exact lex_sarg a _ _ hv.1 (lex_sargs as follow sig hv.2 h)
end

/-! ### command invocations -/

theorem lex_call (c : Call) (follow : Str) (sig : List Tok) (hv : c.valid follow = true)
    (h : LexSig follow sig) : LexSig (c.render ++ follow) (c.sigToks ++ sig) := by
  simp only [Call.valid, Bool.and_eq_true] at hv
  obtain ⟨⟨⟨hname, hpre⟩, hargs⟩, hclose⟩ := hv
  simp only [Call.render, Call.sigToks, List.append_assoc, List.cons_append, List.nil_append]
  refine lex_sep c.pre _ hpre _ ?_
  have hid := (isIdentText_iff c.name).mp hname
  have hstop : stopHead (List.replicate c.sp ' ' ++
      '(' :: (renderSArgs c.args ++ (renderSep c.close ++ ')' :: follow))) = true := by
    cases c.sp <;> simp [stopHead, unqStop, List.replicate_succ]
  refine LexSig.tok_append (scan_word_ident hid (unqLen_of_identLen hid) hstop) rfl ?_
  refine Skips.blanks _ _ (by simp [isBlank]) _ (lex_lparen _ _ ?_)
  refine lex_sargs c.args _ _ hargs ?_
  exact lex_sep c.close _ hclose _ (lex_rparen _ _ h)

/-! ### doccomments -/

theorem DocC.tokenText_eq_inner (d : DocC) : d.tokenText = docStart ++ (d.inner ++ docEnd) := by
  simp [DocC.tokenText, DocC.inner]

theorem eolStr_head (crlf : Bool) (x : Str) : ∃ c y, eolStr crlf ++ x = c :: y ∧ isEolCh c = true := by
  cases crlf
  · exact ⟨'\n', x, rfl, by decide⟩
  · exact ⟨'\r', '\n' :: x, rfl, by decide⟩

theorem lex_doc (d : DocC) (isModule : Bool) (follow : Str) (sig : List Tok) (hv : d.valid isModule follow = true)
    (h : LexSig follow sig) :
    LexSig (d.render ++ follow) (⟨if isModule then .moduleDocstring else .docstring, d.tokenText⟩ :: sig) := by
  simp only [DocC.valid, Bool.and_eq_true, beq_iff_eq] at hv
  obtain ⟨⟨⟨hpre, hind⟩, hf⟩, hsuf⟩ := hv
  simp only [DocC.render, List.append_assoc]
  refine lex_sep d.pre _ hpre _ (Skips.blanks _ _ hind _ ?_)
  have hf' : findAfter docEnd (d.inner ++ docEnd ++ follow) = some (d.inner.length + 3) := findAfter_append follow hf
  have hlen : d.tokenText.length = d.inner.length + 3 + 4 := by
    rw [DocC.tokenText_eq_inner]; simp [docStart_eq, docEnd_eq]
  have hsplit : d.tokenText ++ follow = docStart ++ (d.inner ++ docEnd ++ follow) := by
    rw [DocC.tokenText_eq_inner]; simp
  cases isModule with
  | false =>
    have hos : (lit "@module").isPrefixOf (d.openSuffix.dropWhile isBlank) = false := by
      cases hq : (lit "@module").isPrefixOf (d.openSuffix.dropWhile isBlank) with
      | false => rfl
      | true => rw [hq] at hsuf; cases hsuf
    have hmod : moduleDocstringLen (docStart ++ (d.inner ++ docEnd ++ follow)) = none := by
      simp only [DocC.inner, List.append_assoc]
      obtain ⟨c, y, hy, hc⟩ := eolStr_head d.crlf
        (((d.lines.map (fun t => d.bodyLine t ++ eolStr d.crlf)).flatten ++ (d.ind ++ (docEnd ++ follow))))
      rw [hy]; exact moduleDocstringLen_none_of_suffix _ c y hc hos
    have hsc := scan_docstring _ _ hf' hmod
    rw [← hsplit, ← hlen] at hsc
    exact LexSig.tok_append hsc rfl h
  | true =>
    have hpfx : (lit "@module").isPrefixOf (d.openSuffix.dropWhile isBlank) = true := hsuf.symm
    obtain ⟨z, hz⟩ := List.isPrefixOf_iff_prefix.mp hpfx
    have hos : d.openSuffix = d.openSuffix.takeWhile isBlank ++ (lit "@module" ++ z) := by
      rw [hz]; exact List.takeWhile_append_dropWhile.symm
    have hinner : ∃ y, d.inner ++ docEnd ++ follow = d.openSuffix.takeWhile isBlank ++ lit "@module" ++ y := by
      refine ⟨z ++ (eolStr d.crlf ++ ((d.lines.map (fun t => d.bodyLine t ++ eolStr d.crlf)).flatten ++ d.ind)) ++
        docEnd ++ follow, ?_⟩
      conv => lhs; rw [DocC.inner, hos]
      simp
    obtain ⟨y, hy⟩ := hinner
    rw [hy] at hf'
    have hmod := moduleDocstringLen_module _ y _ List.all_takeWhile hf'
    have hsc := scan_moduleDocstring _ _ hf' hmod
    rw [← hy, ← hsplit, ← hlen] at hsc
    exact LexSig.tok_append hsc rfl h

theorem lex_docOpt (doc : Option DocC) (follow : Str) (sig : List Tok) (hv : docOptValid follow doc = true)
    (h : LexSig follow sig) : LexSig (renderDocOpt doc ++ follow) (docOptToks doc ++ sig) := by
  cases doc with
  | none => simpa [renderDocOpt, docOptToks] using h
  | some d => simpa [renderDocOpt, docOptToks, DocC.tok] using lex_doc d false follow sig hv h

/-! ### file elements -/

mutual
theorem lex_item (i : Item) (follow : Str) (sig : List Tok) (hv : i.valid follow = true)
    (h : LexSig follow sig) : LexSig (i.render ++ follow) (i.sigToks ++ sig) := by
  cases i with
  | cmd doc call =>
    simp only [Item.valid, Bool.and_eq_true] at hv
    simp only [Item.render, Item.sigToks, List.append_assoc]
    exact lex_docOpt doc _ _ hv.1 (lex_call call follow sig hv.2 h)
  | block doc o body c =>
    simp only [Item.valid, Bool.and_eq_true] at hv
    obtain ⟨⟨⟨hdoc, ho⟩, hbody⟩, hc⟩ := hv
    simp only [Item.render, Item.sigToks, List.append_assoc]
    refine lex_docOpt doc _ _ hdoc (lex_call o _ _ ho ?_)
    exact lex_items body _ _ hbody (lex_call c follow sig hc h)
  | decl doc d i body c =>
    simp only [Item.valid, Bool.and_eq_true] at hv
    obtain ⟨⟨⟨⟨hdoc, hd⟩, hi⟩, hbody⟩, hc⟩ := hv
    simp only [Item.render, Item.sigToks, List.append_assoc]
    refine lex_docOpt doc _ _ hdoc (lex_call d _ _ hd (lex_call i _ _ hi ?_))
    exact lex_items body _ _ hbody (lex_call c follow sig hc h)
  | dangling d =>
    simp only [Item.valid] at hv
    simpa [Item.render, Item.sigToks, DocC.tok] using lex_doc d false follow sig hv h
theorem lex_items (is : List Item) (follow : Str) (sig : List Tok) (hv : itemsValid follow is = true)
    (h : LexSig follow sig) : LexSig (renderSrcItems is ++ follow) (itemsSigToks is ++ sig) := by
  cases is with
  | nil => simpa [renderSrcItems, itemsSigToks] using h
  | cons i is =>
    simp only [itemsValid, Bool.and_eq_true] at hv
    simp only [renderSrcItems, itemsSigToks, List.append_assoc]
    exact lex_item i _ _ hv.1 (lex_items is follow sig hv.2 h)
end

/-! ### the module -/

/-- the body of the file (everything after the byte-order mark) -/
def Module.renderBody (m : Module) : Str := renderDocOpt m.modDoc ++ renderSrcItems m.items ++ renderSep m.tail

theorem lex_module_body (m : Module) (hv : m.valid = true) : LexSig m.renderBody m.sigToks := by
  simp only [Module.valid, Bool.and_eq_true] at hv
  obtain ⟨⟨⟨-, hdoc⟩, hitems⟩, htail⟩ := hv
  have h1 : LexSig (renderSep m.tail) [] := by
    have := lex_sep m.tail [] htail [] LexSig.nil
    simpa using this
  have h2 := lex_items m.items _ _ hitems h1
  simp only [List.append_nil] at h2
  simp only [Module.renderBody, Module.sigToks, List.append_assoc]
  cases hm : m.modDoc with
  | none => simpa [renderDocOpt] using h2
  | some d =>
    rw [hm] at hdoc
    have := lex_doc d true _ _ hdoc h2
    simpa [renderDocOpt] using this

theorem call_sigToks_head (c : Call) (rest : List Tok) :
    ∃ t ts, c.sigToks ++ rest = t :: ts ∧ t.kind = .identifier := ⟨_, _, rfl, rfl⟩

/-- the first significant token of a module is a doccomment or a command name -/
theorem sigToks_head (m : Module) :
    m.sigToks = [] ∨ ∃ t ts, m.sigToks = t :: ts ∧
      (t.kind = .moduleDocstring ∨ t.kind = .docstring ∨ t.kind = .identifier) := by
  obtain ⟨bom, modDoc, items, tail⟩ := m
  cases modDoc with
  | some d => exact Or.inr ⟨_, _, rfl, Or.inl rfl⟩
  | none =>
    cases items with
    | nil => exact Or.inl rfl
    | cons i is =>
      right
      simp only [Module.sigToks, List.nil_append, itemsSigToks]
      cases i with
      | dangling d => exact ⟨_, _, rfl, Or.inr (Or.inl rfl)⟩
      | cmd doc call =>
        cases doc with
        | some d => exact ⟨_, _, rfl, Or.inr (Or.inl rfl)⟩
        | none => exact ⟨_, _, rfl, Or.inr (Or.inr rfl)⟩
      | block doc o body c =>
        cases doc with
        | some d => exact ⟨_, _, rfl, Or.inr (Or.inl rfl)⟩
        | none => exact ⟨_, _, rfl, Or.inr (Or.inr rfl)⟩
      | decl doc d i body c =>
        cases doc with
        | some d => exact ⟨_, _, rfl, Or.inr (Or.inl rfl)⟩
        | none => exact ⟨_, _, rfl, Or.inr (Or.inr rfl)⟩

def bomChar : Char := Char.ofNat 0xFEFF

/-- at a byte-order mark no skipped token, doccomment or identifier starts -/
theorem ruleScore_bom (x : Str) (k : TokKind)
    (hk : k.skipped = true ∨ k = .moduleDocstring ∨ k = .docstring ∨ k = .identifier) :
    ruleScore k (bomChar :: x) = none := by
  have hne : bomChar ≠ '#' := by decide
  have hb1 : isBlank bomChar = false := by decide
  have hb2 : isEolCh bomChar = false := by decide
  have hid : identStart bomChar = false := by decide
  rcases hk with hk | rfl | rfl | rfl
  · cases k <;> simp [TokKind.skipped] at hk
    · simp [ruleScore, plainScore, bracketCommentLen_cons _ hne]
    · simp [ruleScore, lineCommentLen_cons _ hne]
    · simp [ruleScore, plainScore, newlineLen_eq, spanLen_cons_false _ hb2]
    · simp [ruleScore, plainScore, spaceLen_eq, spanLen_cons_false _ hb1]
  · simp [ruleScore, plainScore, moduleDocstringLen, docStart_prefix_cons _ hne]
  · simp [ruleScore, plainScore, docstringLen, docStart_prefix_cons _ hne]
  · simp [ruleScore, plainScore, identLen, hid]

/-- a module body never starts with a byte-order mark -/
theorem renderBody_head (m : Module) (hv : m.valid = true) (x : Str) : m.renderBody ≠ bomChar :: x := by
  intro hx
  obtain ⟨ts, hl, hs⟩ := lex_module_body m hv
  rw [hx] at hl
  cases hl with
  | @cons _ k n ts' hsc hl' =>
    obtain ⟨sc, hr, -⟩ := scan_rule hsc
    have hnone := ruleScore_bom x k
    by_cases hk : k.skipped = true
    · rw [hnone (Or.inl hk)] at hr; cases hr
    · have hsig : significant (⟨k, (bomChar :: x).take n⟩ :: ts') = ⟨k, (bomChar :: x).take n⟩ :: significant ts' := by
        simp [significant, hk]
      rw [hsig] at hs
      rcases sigToks_head m with h0 | ⟨t, ts0, h0, hkind⟩
      · rw [h0] at hs; cases hs
      · rw [h0] at hs
        cases hs
        rw [hnone (Or.inr hkind)] at hr; cases hr

theorem dropBom_of_head {s : Str} (h : ∀ x, s ≠ bomChar :: x) : dropBom s = s := by
  cases s with
  | nil => rfl
  | cons c cs =>
    simp only [dropBom]
    split
    · rename_i hc
      exfalso
      apply h cs
      congr 1
      rw [← Char.ofNat_toNat c, hc]; rfl
    · rfl

theorem dropBom_render (m : Module) (hv : m.valid = true) : dropBom m.render = m.renderBody := by
  simp only [Module.render, Module.renderBody]
  cases m.bom with
  | true => simp [dropBom]
  | false =>
    simp only [Bool.false_eq_true, if_false, List.nil_append]
    exact dropBom_of_head (renderBody_head m hv)

/-- **T-lex**: the text printed for a valid decorated module lexes without error, and what the parser gets to
    see is the module's significant token sequence — whatever the layout. -/
theorem T_lex (m : Module) (hv : m.valid = true) :
    ∃ ts, lexAll (dropBom m.render) = .ok ts ∧ significant ts = m.sigToks := by
  rw [dropBom_render m hv]
  exact (lex_module_body m hv).lexAll

theorem valid_danglingOk (m : Module) (hv : m.valid = true) : m.danglingOk = true := by
  simp only [Module.valid, Bool.and_eq_true] at hv
  exact hv.1.1.1

theorem Call.valid_name {c : Call} {follow : Str} (h : c.valid follow = true) : isIdentText c.name = true := by
  simp only [Call.valid, Bool.and_eq_true] at h
  exact h.1.1.1

mutual
theorem Item.valid_namesOk (i : Item) (follow : Str) (h : i.valid follow = true) : i.namesOk = true := by
  cases i with
  | cmd doc c =>
    simp only [Item.valid, Bool.and_eq_true] at h
    simpa [Item.namesOk] using Call.valid_name h.2
  | block doc o body c =>
    simp only [Item.valid, Bool.and_eq_true] at h
    obtain ⟨⟨⟨-, ho⟩, hb⟩, hc⟩ := h
    simp [Item.namesOk, Call.valid_name ho, Call.valid_name hc, itemsValid_namesOk body _ hb]
  | decl doc d i body c =>
    simp only [Item.valid, Bool.and_eq_true] at h
    obtain ⟨⟨⟨⟨-, hd⟩, hi⟩, hb⟩, hc⟩ := h
    simp [Item.namesOk, Call.valid_name hd, Call.valid_name hi, Call.valid_name hc, itemsValid_namesOk body _ hb]
  | dangling d => rfl
theorem itemsValid_namesOk (is : List Item) (follow : Str) (h : itemsValid follow is = true) :
    itemsNamesOk is = true := by
  cases is with
  | nil => rfl
  | cons i is =>
    simp only [itemsValid, Bool.and_eq_true] at h
    simp [itemsNamesOk, Item.valid_namesOk i _ h.1, itemsValid_namesOk is follow h.2]
end

theorem valid_namesOk (m : Module) (hv : m.valid = true) : m.namesOk = true := by
  simp only [Module.valid, Bool.and_eq_true] at hv
  exact itemsValid_namesOk m.items _ hv.1.2

/-- **T-roundtrip**: lexing and parsing the printed text of a valid decorated module gives back the module's
    own events -/
theorem T_roundtrip (m : Module) (hv : m.valid = true) :
    ∃ ts, lexAll (dropBom m.render) = .ok ts ∧ parse (significant ts) = some m.events := by
  obtain ⟨ts, h1, h2⟩ := T_lex m hv
  exact ⟨ts, h1, by rw [h2]; exact T_parse m (valid_danglingOk m hv)⟩

/-- **C04, token level**: two valid decorated modules with the same significant tokens (layout variants of each
    other) give the parser the same input -/
theorem T_lex_layout (m₁ m₂ : Module) (h₁ : m₁.valid = true) (h₂ : m₂.valid = true)
    (hs : m₁.sigToks = m₂.sigToks) :
    ∃ ts₁ ts₂, lexAll (dropBom m₁.render) = .ok ts₁ ∧ lexAll (dropBom m₂.render) = .ok ts₂ ∧
      significant ts₁ = significant ts₂ := by
  obtain ⟨ts₁, a1, a2⟩ := T_lex m₁ h₁
  obtain ⟨ts₂, b1, b2⟩ := T_lex m₂ h₂
  exact ⟨ts₁, ts₂, a1, b1, by rw [a2, b2, hs]⟩

/-! ### the generator's guarantee for doccomments: no line contains `]]`

`DocC.valid` asks that `#]]` first occurs at the end of the block.  A simple sufficient condition: neither the
opening line nor any body line contains `]]`, and the indentation consists of blanks. -/

local notation "ccPat" => ([']', ']'] : Str)

/-- no `]]` in the opening line or in any body line -/
def DocC.noCloserInside (d : DocC) : Bool :=
  !isInfix ccPat d.openSuffix && d.lines.all (fun t => !isInfix ccPat t)

theorem noCC_sep (a : Str) (e : Char) (b : Str) (ha : isInfix ccPat a = false) (hb : isInfix ccPat b = false)
    (he : e ≠ ']') : isInfix ccPat (a ++ e :: b) = false := by
  induction a with
  | nil => simp [isInfix, List.isPrefixOf, Ne.symm he, hb]
  | cons c a ih =>
    simp only [isInfix, Bool.or_eq_false_iff] at ha
    simp only [List.cons_append, isInfix, Bool.or_eq_false_iff]
    refine ⟨?_, ih ha.2⟩
    cases a with
    | nil => simp [List.isPrefixOf, Ne.symm he]
    | cons d a =>
      have := ha.1
      simp only [List.isPrefixOf, Bool.and_true] at this
      simp only [List.cons_append, List.isPrefixOf, Bool.and_true]
      exact this

theorem noCC_blank (s : Str) (h : s.all isBlank = true) : isInfix ccPat s = false := by
  induction s with
  | nil => rfl
  | cons c s ih =>
    simp only [List.all_cons, Bool.and_eq_true] at h
    have hc : c ≠ ']' := by intro e; subst e; exact absurd h.1 (by decide)
    simp [isInfix, List.isPrefixOf, Ne.symm hc, ih h.2]

theorem noCC_eol (a b : Str) (crlf : Bool) (ha : isInfix ccPat a = false) (hb : isInfix ccPat b = false) :
    isInfix ccPat (a ++ (eolStr crlf ++ b)) = false := by
  cases crlf
  · exact noCC_sep a '\n' b ha hb (by decide)
  · exact noCC_sep a '\r' ('\n' :: b) ha (noCC_sep [] '\n' b rfl hb (by decide)) (by decide)

theorem noCC_bodyLine (d : DocC) (t : Str) (hind : d.ind.all isBlank = true) (ht : isInfix ccPat t = false) :
    isInfix ccPat (d.bodyLine t) = false := by
  unfold DocC.bodyLine
  split
  · refine noCC_sep d.ind '#' _ (noCC_blank _ hind) ?_ (by decide)
    split
    · rfl
    · exact noCC_sep [] ' ' t rfl ht (by decide)
  · exact ht

theorem DocC.inner_noCC (d : DocC) (hind : d.ind.all isBlank = true) (h : d.noCloserInside = true) :
    isInfix ccPat d.inner = false := by
  simp only [DocC.noCloserInside, Bool.and_eq_true, Bool.not_eq_eq_eq_not, Bool.not_true, List.all_eq_true] at h
  obtain ⟨hos, hlines⟩ := h
  unfold DocC.inner
  refine noCC_eol _ _ _ hos ?_
  generalize d.lines = ls at hlines
  induction ls with
  | nil => simpa using noCC_blank _ hind
  | cons l ls ih =>
    simp only [List.map_cons, List.flatten_cons, List.append_assoc]
    exact noCC_eol _ _ _ (noCC_bodyLine d l hind (hlines l (by simp))) (ih (fun x hx => hlines x (by simp [hx])))

/-- a text without `]]` followed by `#]]`: the first `#]]` is the final one -/
theorem findAfter_docEnd_of_noCC (x : Str) (h : isInfix ccPat x = false) :
    findAfter docEnd (x ++ docEnd) = some (x.length + 3) := by
  induction x with
  | nil => simp [findAfter, docEnd_eq]
  | cons c x ih =>
    simp only [isInfix, Bool.or_eq_false_iff] at h
    have hnp : docEnd.isPrefixOf (c :: (x ++ docEnd)) = false := by
      rw [docEnd_eq]
      match x, h.1 with
      | [], _ => simp [List.isPrefixOf]
      | [a], _ => simp [List.isPrefixOf]
      | a :: b :: x, h1 =>
        simp only [List.cons_append, List.isPrefixOf, Bool.and_true]
        cases hc : ('#' == c) with
        | false => rfl
        | true =>
          have hx := h.2
          simp only [isInfix, Bool.or_eq_false_iff, List.isPrefixOf, Bool.and_true] at hx
          simpa using hx.1
    simp only [List.cons_append, findAfter, hnp, Bool.false_eq_true, if_false, ih h.2, Option.map_some,
      List.length_cons]

/-- what the generator guarantees implies the `#]]` clause of `DocC.valid` -/
theorem DocC.closesAtEnd_of_noCloserInside (d : DocC) (hind : d.ind.all isBlank = true)
    (h : d.noCloserInside = true) : findAfter docEnd (d.inner ++ docEnd) = some (d.inner.length + 3) :=
  findAfter_docEnd_of_noCC _ (d.inner_noCC hind h)

/-! ### the intermediate results under their deliverable names -/

/-- (b) every argument token the printer emits is scanned as one token of its kind, with its text -/
theorem T_lex_tok (t : ArgTok) (follow : Str) (sig : List Tok) (hv : t.valid follow = true)
    (h : LexSig follow sig) : LexSig (t.text ++ follow) (t.tok :: sig) := lex_argTok t follow sig hv h

/-- (b) the single-token facts behind `T_lex_tok`, `T_lex_call` and `T_lex_doc`, as statements about `scan` -/
theorem T_lex_tok_lparen (rest : Str) : scan ('(' :: rest) = some (.lparen, 1) := scan_lparen rest
theorem T_lex_tok_rparen (rest : Str) : scan (')' :: rest) = some (.rparen, 1) := scan_rparen rest
theorem T_lex_tok_identifier {t rest : Str} (hid : isIdentText t = true) (hr : stopHead rest = true) :
    scan (t ++ rest) = some (.identifier, t.length) :=
  scan_word_ident ((isIdentText_iff t).mp hid) (unqLen_of_identLen ((isIdentText_iff t).mp hid)) hr
theorem T_lex_tok_unquoted {t rest : Str} (ht : t ≠ []) (hnid : isIdentText t = false) (hu : unqLen t = t.length)
    (hob : opensBracket t = false) (hr : stopHead rest = true) : scan (t ++ rest) = some (.unquoted, t.length) :=
  scan_word_unq ht (fun e => by rw [(isIdentText_iff t).mpr e] at hnid; cases hnid) hu hob hr
theorem T_lex_tok_quoted (body rest : Str) (h : quotedBody (body ++ ['"']) = some (body.length + 1)) :
    scan ('"' :: (body ++ '"' :: rest)) = some (.quoted, body.length + 2) := scan_quoted body rest h
theorem T_lex_tok_bracket (lvl : Nat) (b rest : Str) (hf : closesAtEnd lvl b = true)
    (hu : unqLen (ArgTok.bracket lvl b).text ≠ (ArgTok.bracket lvl b).text.length) :
    scan ((ArgTok.bracket lvl b).text ++ rest) = some (.bracketArg, (ArgTok.bracket lvl b).text.length) :=
  scan_bracket_dirty lvl b rest (by simpa [closesAtEnd] using hf) hu
theorem T_lex_tok_bracket_unquoted (lvl : Nat) (b rest : Str) (hf : closesAtEnd lvl b = true)
    (hu : unqLen (ArgTok.bracket lvl b).text = (ArgTok.bracket lvl b).text.length) (hr : stopHead rest = true) :
    scan ((ArgTok.bracket lvl b).text ++ rest) = some (.unquoted, (ArgTok.bracket lvl b).text.length) :=
  scan_bracket_clean lvl b rest (by simpa [closesAtEnd] using hf) hu hr
theorem T_lex_tok_lineComment (t : Str) (crlf : Bool) (rest : Str) (ht : t.all notEol = true)
    (hob : opensBracket t = false) :
    scan ('#' :: (t ++ eolStr crlf) ++ rest) = some (.lineComment, ('#' :: (t ++ eolStr crlf)).length) :=
  scan_lineComment t crlf rest ht hob
theorem T_lex_tok_lineComment_eof (t : Str) (ht : t.all notEol = true) (hob : opensBracket t = false) :
    scan ('#' :: t) = some (.lineComment, ('#' :: t).length) := scan_lineComment_eof t ht hob
theorem T_lex_tok_bracketComment (lvl : Nat) (t rest : Str) (hf : closesAtEnd lvl t = true)
    (hk3 : (lvl = 0 → t.head? ≠ some '[') ∨ findAfter docEnd (t ++ (bracketClose lvl ++ rest)) = none) :
    scan ((SepAtom.bracketComment lvl t).render ++ rest) =
      some (.bracketComment, (SepAtom.bracketComment lvl t).render.length) :=
  scan_bracketComment lvl t rest (by simpa [closesAtEnd] using hf) hk3
theorem T_lex_tok_space (c : Char) (rest : Str) (hc : isBlank c = true) :
    scan (c :: rest) = some (.space, spanLen isBlank (c :: rest)) := scan_blank c rest hc
theorem T_lex_tok_newline (c : Char) (rest : Str) (hc : isEolCh c = true) :
    scan (c :: rest) = some (.newline, spanLen isEolCh (c :: rest)) := scan_eol c rest hc

/-- (c) a valid separator lexes to skipped tokens only, after which lexing continues on what follows -/
theorem T_lex_sep (sep : Sep) (follow : Str) (sig : List Tok) (hv : sepValid follow sep = true)
    (h : LexSig follow sig) : LexSig (renderSep sep ++ follow) sig := lex_sep sep follow hv sig h

/-- (d) one command invocation -/
theorem T_lex_call (c : Call) (follow : Str) (sig : List Tok) (hv : c.valid follow = true)
    (h : LexSig follow sig) : LexSig (c.render ++ follow) (c.sigToks ++ sig) := lex_call c follow sig hv h

/-- a doccomment block is one `Docstring` (`Module_docstring`) token -/
theorem T_lex_doc (d : DocC) (isModule : Bool) (follow : Str) (sig : List Tok)
    (hv : d.valid isModule follow = true) (h : LexSig follow sig) :
    LexSig (d.render ++ follow) (⟨if isModule then .moduleDocstring else .docstring, d.tokenText⟩ :: sig) :=
  lex_doc d isModule follow sig hv h

/-- a list of file elements -/
theorem T_lex_items (is : List Item) (follow : Str) (sig : List Tok) (hv : itemsValid follow is = true)
    (h : LexSig follow sig) : LexSig (renderSrcItems is ++ follow) (itemsSigToks is ++ sig) :=
  lex_items is follow sig hv h

/-- `LexSig` is a statement about `lexAll` -/
theorem LexSig_iff (s : Str) (sig : List Tok) :
    LexSig s sig ↔ ∃ ts, lexAll s = .ok ts ∧ significant ts = sig := by
  constructor
  · exact LexSig.lexAll
  · rintro ⟨ts, h1, h2⟩
    exact ⟨ts, Lexes.of_lexLoop h1, h2⟩

/-! ## a concrete valid module (the hypotheses are not vacuous)

```
#[[[
# Doc of f
#]]
function(f "a\"b" [=[x ]] y]=] (g h) # c
  z)
#[[ bc ]]
endfunction()
```
a documented function with a quoted argument containing an escaped quote, a bracket argument, a parenthesised
group, a line comment between arguments and a bracket comment before a command. -/

def exLexDoc : DocC :=
  { pre := [], ind := [], openSuffix := [], lines := [['D', 'o', 'c', ' ', 'o', 'f', ' ', 'f']], leader := true, crlf := false }

def exLexOpener : Call :=
  { pre := [.nl false], name := ['f', 'u', 'n', 'c', 't', 'i', 'o', 'n'], sp := 0,
    args := [.tok [] (.bare ['f']),
             .tok [.spaces 1] (.quoted ['a', '\\', '"', 'b']),
             .tok [.spaces 1] (.bracket 1 ['x', ' ', ']', ']', ' ', 'y']),
             .group [.spaces 1] [.tok [] (.bare ['g']), .tok [.spaces 1] (.bare ['h'])] [],
             .tok [.spaces 1, .lineComment [' ', 'c'] (some false), .spaces 2] (.bare ['z'])],
    close := [] }

def exLexCloser : Call :=
  { pre := [.nl false, .bracketComment 0 [' ', 'b', 'c', ' '], .nl false], name := ['e', 'n', 'd', 'f', 'u', 'n', 'c', 't', 'i', 'o', 'n'], sp := 0,
    args := [], close := [] }

def exLexModule : Module :=
  { bom := false, modDoc := none, items := [.block (some exLexDoc) exLexOpener [] exLexCloser], tail := [.nl false] }

example : exLexModule.valid = true := by decide

example : exLexModule.render =
    ['#', '[', '[', '[', '\n', '#', ' ', 'D', 'o', 'c', ' ', 'o', 'f', ' ', 'f', '\n', '#', ']', ']', '\n', 'f', 'u', 'n', 'c', 't', 'i', 'o', 'n', '(', 'f', ' ', '"', 'a', '\\', '"', 'b', '"', ' ', '[', '=', '[', 'x', ' ', ']', ']', ' ', 'y', ']', '=', ']', ' ', '(', 'g', ' ', 'h', ')', ' ', '#', ' ', 'c', '\n', ' ', ' ', 'z', ')', '\n', '#', '[', '[', ' ', 'b', 'c', ' ', ']', ']', '\n', 'e', 'n', 'd', 'f', 'u', 'n', 'c', 't', 'i', 'o', 'n', '(', ')', '\n'] := by
  decide

/-- a bare word directly followed by a bare word is *not* valid (the two would lex as one token) -/
example : (SArg.tok [] (.bare ['a'])).valid ['b', ')'] = false := by decide

/-- K3: a level-0 bracket comment whose text starts with `[` is the doccomment opener `#[[[`; it is a comment only
    if no `#]]` follows anywhere -/
example : (SepAtom.bracketComment 0 ['[', 'x']).valid ['\n', '#', ']', ']'] = false := by decide
example : (SepAtom.bracketComment 0 ['[', 'x']).valid ['\n', 'f', '(', ')'] = true := by decide

/-- a line comment without line ending in the middle of a line swallows what follows -/
example : (SepAtom.lineComment [' ', 'c'] none).valid ['x'] = false := by decide
example : (SepAtom.lineComment [' ', 'c'] none).valid ['\n', 'x'] = true := by decide

end Cminx
