import CminxLemmas.WalkLemmas
/-!
# C18 — pages go only where requested

Model: `CminxModel/Walk.lean`.  Paths of writes are relative to the output directory, so "a run creates or
modifies files only inside that directory" is carried by the type of `Write.path` together with the
correspondence check (the harness diffs the whole sandbox); the substantive statements proved here are

* `C18_none*`              — without an output directory (`toStdout`) nothing is written, whatever happens
                             (errors included), for `emitPage`, `walkDir`, `document`, `runMain`;
* `C18_file_mode_silent*`  — with an output directory nothing is printed;
* `C18_stdout`             — in stdout mode standard output is exactly the pages of the processed CMake files
                             (`pagesOf`: directory by directory in walk order, sorted by name inside a directory),
                             each followed by `"\n\n"` (the page's own final newline plus one empty line), and
                             nothing else (no index pages);
* `C18_same_pages`         — in file mode the writes are exactly the layout (each processed directory: its index,
                             then its pages in sorted order, then its surviving sub-directories in listing order),
                             and the sub-list of page writes is `pagesOf` mapped to (path, text);
* `C18_page_mode_irrelevant`, `C18_stdout_eq_file` — the text printed for a file is byte for byte the content
                             written for it with `-o`.

Hypotheses used: `treeOk listing` (sub-directory names of one directory are distinct — always true of a real
directory tree; the model's name lookup `keepDir` is ambiguous otherwise), "every page renders" and, in file
mode, `c.headers ≠ []`.  What happens otherwise (first error stops the run) is `C13_error_stops`.
-/
namespace Cminx

/-! ## 1. no output directory ⇒ no writes; output directory ⇒ nothing printed -/

theorem C18_none {c : WalkCfg} (h : c.toStdout = true) (excl : List Str → Bool → Bool) (pfx : Str)
    (rel : List Str) (listing : List FsNode) (r : RunResult) :
    (walkDir c excl pfx rel listing r).writes = r.writes := by
  rw [walkDir_eq, runItems_writes_of_stdout h]

theorem C18_none_emitPage {c : WalkCfg} (h : c.toStdout = true) (pfx : Option Str) (rel : List Str)
    (name content : Str) (r : RunResult) : (emitPage c pfx rel name content r).writes = r.writes :=
  emitPage_writes_of_stdout h pfx rel name content r

theorem C18_none_document {c : WalkCfg} (h : c.toStdout = true) (excl : List Str → Bool → Bool) (exclRoot : Bool)
    (inp : Input) (r : RunResult) : (document c excl exclRoot inp r).1.writes = r.writes := by
  unfold document
  cases exclRoot
  · cases inp with
    | missing n => rfl
    | special n => rfl
    | file name content => exact C18_none_emitPage h ..
    | dir name listing => exact C18_none h ..
  · rfl

theorem C18_none_runMain {c : WalkCfg} (h : c.toStdout = true) (is : List MainInput) (r : RunResult) :
    (runMain c is r).1.writes = r.writes := by
  induction is generalizing r with
  | nil => rfl
  | cons i is ih =>
    rw [runMain]
    cases he : r.error with
    | some e => rfl
    | none =>
      simp only
      split
      · exact C18_none_document h ..
      · rw [ih, C18_none_document h]

theorem C18_file_mode_silent {c : WalkCfg} (h : c.toStdout = false) (excl : List Str → Bool → Bool) (pfx : Str)
    (rel : List Str) (listing : List FsNode) (r : RunResult) :
    (walkDir c excl pfx rel listing r).stdout = r.stdout := by
  rw [walkDir_eq, runItems_stdout_of_file h]

theorem C18_file_mode_silent_emitPage {c : WalkCfg} (h : c.toStdout = false) (pfx : Option Str) (rel : List Str)
    (name content : Str) (r : RunResult) : (emitPage c pfx rel name content r).stdout = r.stdout :=
  emitPage_stdout_of_file h pfx rel name content r

theorem C18_file_mode_silent_document {c : WalkCfg} (h : c.toStdout = false) (excl : List Str → Bool → Bool)
    (exclRoot : Bool) (inp : Input) (r : RunResult) : (document c excl exclRoot inp r).1.stdout = r.stdout := by
  unfold document
  cases exclRoot
  · cases inp with
    | missing n => rfl
    | special n => rfl
    | file name content => exact C18_file_mode_silent_emitPage h ..
    | dir name listing => exact C18_file_mode_silent h ..
  · rfl

theorem C18_file_mode_silent_runMain {c : WalkCfg} (h : c.toStdout = false) (is : List MainInput) (r : RunResult) :
    (runMain c is r).1.stdout = r.stdout := by
  induction is generalizing r with
  | nil => rfl
  | cons i is ih =>
    rw [runMain]
    cases he : r.error with
    | some e => rfl
    | none =>
      simp only
      split
      · exact C18_file_mode_silent_document h ..
      · rw [ih, C18_file_mode_silent_document h]

/-! ## 2. what is printed, what is written -/

/-- Stdout mode, error-free: standard output grows by exactly the processed pages, in processing order, each
    followed by `"\n\n"`; nothing is written and no error is recorded. -/
theorem C18_stdout {c : WalkCfg} {excl : List Str → Bool → Bool} {pfx : Str} {rel : List Str}
    {listing : List FsNode} {r : RunResult}
    (hs : c.toStdout = true) (htree : treeOk listing = true) (hr : r.error = none)
    (hp : ∀ p ∈ pagesOf c excl rel listing, (page c (some pfx) (relPath p) p.2.2).isOk = true) :
    (walkDir c excl pfx rel listing r).stdout =
        r.stdout ++ ((pagesOf c excl rel listing).map (fun p => pageText c pfx p ++ ['\n', '\n'])).flatten ∧
      (walkDir c excl pfx rel listing r).writes = r.writes ∧
      (walkDir c excl pfx rel listing r).error = none := by
  rw [walkDir_eq_layout htree, runItems_ok hr (items_ok_of_stdout hs hp)]
  simp [hs, printed_flatten, pagesOf]

/-- the same for a lone file: one page, one empty line -/
theorem C18_stdout_file {c : WalkCfg} (hs : c.toStdout = true) (excl : List Str → Bool → Bool) (name content : Str)
    (r : RunResult) (hr : r.error = none) {text : Str} (hp : page c c.pfx name content = .ok text) :
    (document c excl false (.file name content) r).1 =
      { writes := r.writes, stdout := r.stdout ++ text ++ ['\n', '\n'], error := none } := by
  simp [document, emitPage, hr, joinWith, hp, hs]

/-- File mode, error-free: the writes are exactly the layout, in layout order — for every processed directory its
    `index.rst`, then its pages in sorted name order, then (with `-r`) the same for its surviving
    sub-directories in listing order — and the page writes among them are exactly `pagesOf`, in the same order,
    at `<dir>/<stem>.rst` with the page text; the remaining writes are the indexes. -/
theorem C18_same_pages {c : WalkCfg} {excl : List Str → Bool → Bool} {pfx : Str} {rel : List Str}
    {listing : List FsNode} {r : RunResult}
    (hf : c.toStdout = false) (htree : treeOk listing = true) (hr : r.error = none) (hh : c.headers ≠ [])
    (hp : ∀ p ∈ pagesOf c excl rel listing, (page c (some pfx) (relPath p) p.2.2).isOk = true) :
    (walkDir c excl pfx rel listing r).writes =
        r.writes ++ (layoutOf c excl rel listing).map (WItem.write c pfx) ∧
      ((layoutOf c excl rel listing).filter WItem.isPage).map (WItem.write c pfx) =
        (pagesOf c excl rel listing).map (fun p => (⟨pagePath p, pageText c pfx p⟩ : Write)) ∧
      ((layoutOf c excl rel listing).filter (fun it => !it.isPage)).map (WItem.write c pfx) =
        (indexesOf c excl rel listing).map
          (fun d => (⟨indexPath d, okText (indexPage c pfx d.1 d.2.1 d.2.2)⟩ : Write)) ∧
      (walkDir c excl pfx rel listing r).stdout = r.stdout ∧
      (walkDir c excl pfx rel listing r).error = none := by
  rw [walkDir_eq_layout htree, runItems_ok hr (items_ok_of_file hh hp)]
  refine ⟨by simp [hf], page_writes c pfx _, index_writes c pfx _, by simp [hf], rfl⟩

/-- the page text does not depend on the output mode -/
theorem C18_page_mode_irrelevant (c : WalkCfg) (b : Bool) : page { c with toStdout := b } = page c := rfl

/-- neither does the text of any item, nor the layout -/
theorem C18_text_mode_irrelevant (c : WalkCfg) (b : Bool) (pfx : Str) (it : WItem) :
    it.text { c with toStdout := b } pfx = it.text c pfx := by
  cases it <;> rfl

theorem C18_layout_mode_irrelevant (c : WalkCfg) (b : Bool) (excl : List Str → Bool → Bool) (rel : List Str)
    (listing : List FsNode) : layoutOf { c with toStdout := b } excl rel listing = layoutOf c excl rel listing :=
  layoutOf_congr (c := { c with toStdout := b }) (c' := c) excl rfl rfl rel listing

/-- Same invocation with and without `-o`: with `W` the writes the `-o` run adds and `P` the sub-list of `W`
    that belongs to CMake files, the run without `-o` prints exactly the contents of `P`, in the same order, each
    followed by one empty line. -/
theorem C18_stdout_eq_file {c : WalkCfg} {excl : List Str → Bool → Bool} {pfx : Str} {rel : List Str}
    {listing : List FsNode} {r₁ r₂ : RunResult}
    (htree : treeOk listing = true) (hr₁ : r₁.error = none) (hr₂ : r₂.error = none) (hh : c.headers ≠ [])
    (hp : ∀ p ∈ pagesOf c excl rel listing, (page c (some pfx) (relPath p) p.2.2).isOk = true) :
    (walkDir { c with toStdout := false } excl pfx rel listing r₂).writes =
        r₂.writes ++ (layoutOf c excl rel listing).map (WItem.write c pfx) ∧
      (walkDir { c with toStdout := true } excl pfx rel listing r₁).stdout =
        r₁.stdout ++ ((((layoutOf c excl rel listing).filter WItem.isPage).map (WItem.write c pfx)).map
          (fun w => w.content ++ ['\n', '\n'])).flatten := by
  have hw : ∀ b, WItem.write { c with toStdout := b } pfx = WItem.write c pfx := by
    intro b; funext it; simp only [WItem.write, WItem.textD, C18_text_mode_irrelevant]
  have ht : ∀ b, pageText { c with toStdout := b } pfx = pageText c pfx := by
    intro b; rfl
  constructor
  · have := (C18_same_pages (c := { c with toStdout := false }) (excl := excl) (pfx := pfx) (rel := rel)
      (listing := listing) (r := r₂) rfl htree hr₂ hh
      (by rw [pagesOf, C18_layout_mode_irrelevant]; exact hp)).1
    rw [this, C18_layout_mode_irrelevant, hw]
  · have := (C18_stdout (c := { c with toStdout := true }) (excl := excl) (pfx := pfx) (rel := rel)
      (listing := listing) (r := r₁) rfl htree hr₁
      (by rw [pagesOf, C18_layout_mode_irrelevant]; exact hp)).1
    rw [this, page_writes, ht]
    simp only [pagesOf, C18_layout_mode_irrelevant, List.map_map]
    rfl

/-! ## Non-vacuity: the example tree of `WalkSpec.lean`

Two levels below the top (`sub/deep`), an excluded file (`skip.cmake`) and directory (`hidden`), a non-CMake file
(`readme.txt`), a mixed-case extension (`A.CMake`), auto-excluded directories (`sub/nocmake`, `upper`), and a
listing order (`b.cmake` before `A.CMake`) that differs from the sorted order. -/

-- 1. without an output directory nothing is written; with one nothing is printed
example : (walkDir exCfgOut exExcl (lit "P") [] exTree {}).writes = [] :=
  C18_none (c := exCfgOut) rfl exExcl (lit "P") [] exTree {}
example : (runMain exCfgOut [⟨.dir (lit "P") exTree, exExcl, false⟩, ⟨.file (lit "x.cmake") [], exExcl, false⟩] {}).1.writes = [] :=
  C18_none_runMain (c := exCfgOut) rfl _ {}
example : (walkDir exCfg exExcl (lit "P") [] exTree {}).stdout = [] :=
  C18_file_mode_silent (c := exCfg) rfl exExcl (lit "P") [] exTree {}

-- 2. stdout mode prints the four pages, sorted inside a directory, each followed by an empty line; no index
set_option maxRecDepth 8192 in
example : (walkDir exCfgOut exExcl (lit "P") [] exTree {}).stdout = lit
    "\n###\nP.A\n###\n\n.. module:: P.A\n\n\n\n\n###\nP.b\n###\n\n.. module:: P.b\n\n\n.. function:: f()\n\n   doc\n   \n\n\n\n\n#######\nP.sub/c\n#######\n\n.. module:: P.sub/c\n\n\n\n\n############\nP.sub/deep/d\n############\n\n.. module:: P.sub/deep/d\n\n\n\n" := by
  rw [(C18_stdout (c := exCfgOut) rfl ex_treeOk rfl ex_ok_out).1, ex_pages_out, ex_pages]
  decide +kernel

-- file mode: seven writes in layout order; the page writes are `pagesOf`
set_option maxRecDepth 8192 in
example : (walkDir exCfg exExcl (lit "P") [] exTree {}).writes.map (·.path) =
    [[lit "index.rst"], [lit "A.rst"], [lit "b.rst"], [lit "sub", lit "index.rst"], [lit "sub", lit "c.rst"],
     [lit "sub", lit "deep", lit "index.rst"], [lit "sub", lit "deep", lit "d.rst"]] := by
  rw [(C18_same_pages (c := exCfg) rfl ex_treeOk rfl (by decide) ex_ok).1, ex_layout]
  decide +kernel

set_option maxRecDepth 8192 in
example : (walkDir exCfg exExcl (lit "P") [] exTree {}).writes[2]? =
    some ⟨[lit "b.rst"], lit "\n###\nP.b\n###\n\n.. module:: P.b\n\n\n.. function:: f()\n\n   doc\n   \n\n"⟩ := by
  rw [(C18_same_pages (c := exCfg) rfl ex_treeOk rfl (by decide) ex_ok).1, ex_layout]
  decide +kernel

-- the printed text of a file is the content written for it with `-o`
example : ∀ r₁ r₂ : RunResult, r₁.error = none → r₂.error = none →
    (walkDir { exCfg with toStdout := true } exExcl (lit "P") [] exTree r₁).stdout =
      r₁.stdout ++ ((((layoutOf exCfg exExcl [] exTree).filter WItem.isPage).map (WItem.write exCfg (lit "P"))).map
        (fun w => w.content ++ ['\n', '\n'])).flatten :=
  fun _ _ h₁ h₂ => (C18_stdout_eq_file ex_treeOk h₁ h₂ (by decide) ex_ok).2

/-- a special file (socket, FIFO, device) and a path that does not exist write nothing and print nothing -/
theorem C18_special_missing (c : WalkCfg) (excl : List Str → Bool → Bool) (exclRoot : Bool) (n : Str) (r : RunResult) :
    (document c excl exclRoot (.special n) r).1 = r ∧ (document c excl exclRoot (.missing n) r).1 = r := by
  unfold document
  cases exclRoot <;> simp

end Cminx
