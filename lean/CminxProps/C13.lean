import CminxLemmas.WalkLemmas
/-!
# C13 — directory mode writes exactly one page per processed file, plus one index per processed directory

Model: `walkDir` in `CminxModel/Walk.lean`.  Spec side (`WalkSpec.lean`): `layoutOf` (everything generated, in
order), `pagesOf` / `indexesOf` (its page resp. index items), `Processed` (C13's inductive wording) and `Guard`
(C13's quantifier guard).

* `C13_writes`            — file mode, error-free: the written paths are exactly the paths of the layout; as a
                            multiset: one `<dir>/index.rst` per entry of `indexesOf` plus one `<dir>/<stem>.rst` per
                            entry of `pagesOf`; nothing else.
* `C13_processed_dirs`, `C13_processed_files` — under the guard, `indexesOf` / `pagesOf` are exactly the processed
                            directories / the non-excluded `*.cmake` files (case-insensitive) of processed
                            directories, where "processed" is the inductive predicate of the statement: the input
                            directory and, only with `-r`, every surviving sub-directory of a processed directory.
* `C13_content`, `C13_page_eq`, `C13_content_vs_lone`, `C13_content_factor` — the content written for a file is
                            `pipeline c.agg c.headers title module content` with `(title, module)` derived from the
                            prefix and the relative path; the lone-file page is the same expression with the names
                            derived from the base name; both are renderings of the *same* `documentedOf` list.
* `C13_no_descend_without_r` — without `-r` every write lies directly in the input directory.
* `C13_only_layout`       — unconditionally (errors or not, any tree satisfying `treeOk`): every write is the write
                            of some layout item; nothing else is ever written.
* `C13_error_sticky`, `C13_error_stops` — once an error is recorded nothing further happens; the run stops at the
                            first item whose generation fails, having written exactly the items before it.
* `C13_paths_nodup`       — the generated paths are pairwise distinct under the explicit hypothesis `NoStemClash`
                            (no two non-excluded CMake files of a processed directory share a stem, none has the
                            stem `index`).  Without it they need not be: `a.cmake`/`a.CMake` both map to `a.rst`
                            and `index.cmake` maps to the directory's `index.rst` (known finding K4; examples at
                            the end of the file).
* `C13_layoutOf_eq`, `C13_pagesOf_eq`, `C13_indexesOf_eq` — the declarative recursion equations of the spec lists.
-/
namespace Cminx

/-! ## the declarative reading of the spec-side lists -/

/-- everything generated for a directory: its own index and pages (unless auto-excluded), then — with `-r` —
    everything generated for its surviving sub-directories, in listing order -/
theorem C13_layoutOf_eq (c : WalkCfg) (excl : List Str → Bool → Bool) (rel : List Str) (listing : List FsNode) :
    layoutOf c excl rel listing =
      (if c.autoExclude && !hasCMake excl rel listing then []
       else .index rel (sortStrs (survivingDirs c excl rel listing)) (sortStrs (keptFiles excl rel listing))
            :: dirPages rel listing (sortStrs (keptFiles excl rel listing))) ++
      (if c.recursive then
        ((survivingNodes c excl rel listing).map (fun p => layoutOf c excl (rel ++ [p.1]) p.2)).flatten
       else []) := by
  rw [layoutOf, subsLayout_eq_flatten]; rfl

/-- the processed CMake files: nothing for a directory that auto-exclusion skips, else its non-excluded files
    sorted by name and filtered by the case-insensitive `.cmake` test, each with its content; then — with `-r` —
    those of the surviving sub-directories in listing order -/
theorem C13_pagesOf_eq (c : WalkCfg) (excl : List Str → Bool → Bool) (rel : List Str) (listing : List FsNode) :
    pagesOf c excl rel listing =
      (if c.autoExclude && !hasCMake excl rel listing then []
       else ((sortStrs (keptFiles excl rel listing)).filter isCMakeName).filterMap
          (fun f => (findFile f listing).map (fun ct => (rel, f, ct)))) ++
      (if c.recursive then
        ((survivingNodes c excl rel listing).map (fun p => pagesOf c excl (rel ++ [p.1]) p.2)).flatten
       else []) := by
  rw [pagesOf, layoutOf, List.filterMap_append, dirItems_pages, subsLayout_eq_flatten]
  congr 1
  split
  · rw [List.filterMap_flatten, List.map_map]; rfl
  · rfl

/-- the directories that get an index: the directory itself unless auto-exclusion skips it, then — with `-r` —
    those among its surviving sub-directories, in listing order -/
theorem C13_indexesOf_eq (c : WalkCfg) (excl : List Str → Bool → Bool) (rel : List Str) (listing : List FsNode) :
    indexesOf c excl rel listing =
      (if c.autoExclude && !hasCMake excl rel listing then []
       else [(rel, sortStrs (survivingDirs c excl rel listing), sortStrs (keptFiles excl rel listing))]) ++
      (if c.recursive then
        ((survivingNodes c excl rel listing).map (fun p => indexesOf c excl (rel ++ [p.1]) p.2)).flatten
       else []) := by
  rw [indexesOf, layoutOf, List.filterMap_append, dirItems_indexes, subsLayout_eq_flatten]
  congr 1
  split
  · rw [List.filterMap_flatten, List.map_map]; rfl
  · rfl

/-! ## which paths are written -/

/-- File mode, error-free: the run adds writes at exactly the paths of the layout, in layout order; up to order
    these are one `index.rst` per processed directory and one `<stem>.rst` per processed CMake file. -/
theorem C13_writes {c : WalkCfg} {excl : List Str → Bool → Bool} {pfx : Str} {rel : List Str}
    {listing : List FsNode} {r : RunResult}
    (hf : c.toStdout = false) (htree : treeOk listing = true) (hr : r.error = none) (hh : c.headers ≠ [])
    (hp : ∀ p ∈ pagesOf c excl rel listing, (page c (some pfx) (relPath p) p.2.2).isOk = true) :
    (walkDir c excl pfx rel listing r).writes.map (·.path) =
        r.writes.map (·.path) ++ (layoutOf c excl rel listing).map WItem.path ∧
      ((layoutOf c excl rel listing).map WItem.path).Perm
        ((indexesOf c excl rel listing).map indexPath ++ (pagesOf c excl rel listing).map pagePath) := by
  rw [walkDir_eq_layout htree, runItems_ok hr (items_ok_of_file hh hp)]
  refine ⟨?_, layout_paths_perm _⟩
  simp only [hf, Bool.false_eq_true, if_false, List.map_append, List.map_map]
  rfl

/-- Under the guard, a directory gets an index iff it is processed in the sense of the statement; its index is
    built from its sorted surviving sub-directories and its sorted non-excluded files. -/
theorem C13_processed_dirs {c : WalkCfg} {excl : List Str → Bool → Bool} {rel : List Str}
    {listing : List FsNode} (hg : Guard c excl rel listing) (d : List Str × List Str × List Str) :
    d ∈ indexesOf c excl rel listing ↔
      ∃ l', Processed c excl rel listing d.1 l' ∧ d.2.1 = sortStrs (survivingDirs c excl d.1 l') ∧
        d.2.2 = sortStrs (keptFiles excl d.1 l') :=
  mem_indexesOf_iff_processed hg d

/-- Under the guard, a page is generated for exactly the files `f` with content `ct` such that `f` is a
    non-excluded regular file of a processed directory whose name ends in `.cmake` case-insensitively. -/
theorem C13_processed_files {c : WalkCfg} {excl : List Str → Bool → Bool} {rel : List Str}
    {listing : List FsNode} (hg : Guard c excl rel listing) (p : List Str × Str × Str) :
    p ∈ pagesOf c excl rel listing ↔
      ∃ l', Processed c excl rel listing p.1 l' ∧ p.2.1 ∈ keptFiles excl p.1 l' ∧ isCMakeName p.2.1 = true ∧
        findFile p.2.1 l' = some p.2.2 :=
  mem_pagesOf_iff_processed hg p

/-- the guard says the input directory itself is processed and gets its index -/
theorem C13_guard_root {c : WalkCfg} {excl : List Str → Bool → Bool} {rel : List Str}
    {listing : List FsNode} (hg : Guard c excl rel listing) :
    (rel, sortStrs (survivingDirs c excl rel listing), sortStrs (keptFiles excl rel listing)) ∈
      indexesOf c excl rel listing :=
  (C13_processed_dirs hg _).2 ⟨listing, .root, rfl, rfl⟩

/-- Whatever happens (errors, either mode), every write is the write of an item of the layout: at that item's path
    and with that item's text. -/
theorem C13_only_layout {c : WalkCfg} {excl : List Str → Bool → Bool} {pfx : Str} {rel : List Str}
    {listing : List FsNode} {r : RunResult} (htree : treeOk listing = true) {w : Write}
    (hw : w ∈ (walkDir c excl pfx rel listing r).writes) :
    w ∈ r.writes ∨ ∃ it ∈ layoutOf c excl rel listing, w.path = it.path ∧ it.text c pfx = .ok w.content := by
  rw [walkDir_eq_layout htree] at hw
  exact runItems_writes_mem hw

/-- Without `-r` only the input directory is processed: every new write lies directly in it. -/
theorem C13_no_descend_without_r {c : WalkCfg} {excl : List Str → Bool → Bool} {pfx : Str} {rel : List Str}
    {listing : List FsNode} {r : RunResult} (hrec : c.recursive = false) {w : Write}
    (hw : w ∈ (walkDir c excl pfx rel listing r).writes) :
    w ∈ r.writes ∨ (w.path.length = rel.length + 1 ∧ w.path.take rel.length = rel) := by
  rw [walkDir_eq] at hw
  rcases runItems_writes_mem hw with h | ⟨it, hit, hpath, _⟩
  · exact Or.inl h
  · right
    simp only [layoutK, hrec, Bool.false_eq_true, if_false, List.append_nil, dirItemsK] at hit
    split at hit
    · simp at hit
    · rcases List.mem_cons.1 hit with rfl | hit
      · simp [hpath, WItem.path]
      · obtain ⟨f, ct, rfl, _⟩ := mem_dirPages.1 hit
        simp [hpath, WItem.path]

/-- … and without `-r` the layout is just the input directory's own index and pages -/
theorem C13_layout_without_r {c : WalkCfg} (hrec : c.recursive = false) (excl : List Str → Bool → Bool)
    (rel : List Str) (listing : List FsNode) : layoutOf c excl rel listing = dirItems c excl rel listing := by
  simp [layoutOf, hrec]

/-- **Distinct output paths — under an explicit hypothesis.**  In general two items can share an output path
    (`a.cmake`/`a.CMake` → `a.rst`; `index.cmake` → `index.rst`, see the examples at the end: known finding K4).
    On a tree with distinct sub-directory names and with `NoStemClash` (in every processed directory the stems of
    the non-excluded CMake files are pairwise distinct and none is `index`) all generated paths are distinct, so
    "exactly one `.rst` per processed file" also holds at the level of files on disk. -/
theorem C13_paths_nodup {c : WalkCfg} {excl : List Str → Bool → Bool} {rel : List Str}
    {listing : List FsNode} (htree : treeOk listing = true) (hns : NoStemClash c excl rel listing) :
    ((layoutOf c excl rel listing).map WItem.path).Nodup ∧
      ((indexesOf c excl rel listing).map indexPath ++ (pagesOf c excl rel listing).map pagePath).Nodup := by
  have h := layoutOf_paths_nodup htree hns
  exact ⟨h, (layout_paths_perm _).nodup_iff.1 h⟩

/-! ## what is written -/

/-- a page is the pipeline applied to the file's content with the two path-derived names -/
theorem C13_page_eq (c : WalkCfg) (pfx : Option Str) (relFile content : Str) :
    page c pfx relFile content =
      pipeline c.agg c.headers (pageNames c pfx relFile).1 (pageNames c pfx relFile).2 content := rfl

/-- the pipeline reads the source into a list of documented entries that does not depend on the two names, and
    renders that list under them -/
theorem C13_content_factor (cfg : Cfg) (hc : Str) (hs : List Str) (title modName src : Str) :
    pipeline cfg (hc :: hs) title modName src =
      match documentedOf cfg src with
      | .error e => .error e
      | .ok docs => .ok (processDocs hc title modName docs).render := rfl

/-- File mode, error-free: for every processed file the run writes, at `<dir>/<stem>.rst`, the text
    `pipeline c.agg c.headers title module content` where `(title, module) = pageNames c (some pfx) <relative path>`:
    a function of the file's content, its relative path, the prefix and the settings only. -/
theorem C13_content {c : WalkCfg} {excl : List Str → Bool → Bool} {pfx : Str} {rel : List Str}
    {listing : List FsNode} {r : RunResult}
    (hf : c.toStdout = false) (htree : treeOk listing = true) (hr : r.error = none) (hh : c.headers ≠ [])
    (hp : ∀ p ∈ pagesOf c excl rel listing, (page c (some pfx) (relPath p) p.2.2).isOk = true)
    {p : List Str × Str × Str} (hmem : p ∈ pagesOf c excl rel listing) :
    ∃ text,
      pipeline c.agg c.headers (pageNames c (some pfx) (relPath p)).1 (pageNames c (some pfx) (relPath p)).2 p.2.2
        = .ok text ∧
      (⟨p.1 ++ [stem p.2.1 ++ lit ".rst"], text⟩ : Write) ∈ (walkDir c excl pfx rel listing r).writes := by
  have hok := hp p hmem
  rw [C13_page_eq] at hok
  cases htext : pipeline c.agg c.headers (pageNames c (some pfx) (relPath p)).1
      (pageNames c (some pfx) (relPath p)).2 p.2.2 with
  | error e => simp [htext, Except.isOk, Except.toBool] at hok
  | ok text =>
    refine ⟨text, rfl, ?_⟩
    rw [walkDir_eq_layout htree, runItems_ok hr (items_ok_of_file hh hp)]
    simp only [hf, Bool.false_eq_true, if_false, List.mem_append, List.mem_map]
    right
    refine ⟨.page p.1 p.2.1 p.2.2, mem_pagesOf.1 hmem, ?_⟩
    simp only [WItem.write, WItem.path, WItem.textD, WItem.text, C13_page_eq]
    rw [show joinWith ['/'] (p.1 ++ [p.2.1]) = relPath p from rfl, htext]
    rfl

/-- the lone-file run: one write `<stem>.rst` whose text is the pipeline under the names derived from the base
    name and the configured prefix -/
theorem C13_lone_file {c : WalkCfg} (hf : c.toStdout = false) (excl : List Str → Bool → Bool) (name content : Str)
    (r : RunResult) (hr : r.error = none) {text : Str}
    (hp : pipeline c.agg c.headers (pageNames c c.pfx name).1 (pageNames c c.pfx name).2 content = .ok text) :
    (document c excl false (.file name content) r).1 =
      { writes := r.writes ++ [⟨[stem name ++ lit ".rst"], text⟩], stdout := r.stdout, error := none } := by
  have : page c c.pfx name content = .ok text := hp
  simp [document, emitPage, hr, joinWith, this, hf]

/-- The page written for a file in directory mode and the page written for the same file as a lone input are
    renderings of one and the same list of documented entries; they differ only in the (title, module) pair. -/
theorem C13_content_vs_lone {c : WalkCfg} {excl excl' : List Str → Bool → Bool} {pfx : Str} {rel : List Str}
    {listing : List FsNode} {r : RunResult}
    (hf : c.toStdout = false) (htree : treeOk listing = true) (hr : r.error = none) (hh : c.headers ≠ [])
    (hp : ∀ p ∈ pagesOf c excl rel listing, (page c (some pfx) (relPath p) p.2.2).isOk = true)
    {p : List Str × Str × Str} (hmem : p ∈ pagesOf c excl rel listing) :
    ∃ hc hs docs, c.headers = hc :: hs ∧ documentedOf c.agg p.2.2 = .ok docs ∧
      (⟨pagePath p, (processDocs hc (pageNames c (some pfx) (relPath p)).1
          (pageNames c (some pfx) (relPath p)).2 docs).render⟩ : Write) ∈ (walkDir c excl pfx rel listing r).writes ∧
      (document c excl' false (.file p.2.1 p.2.2) {}).1.writes =
        [⟨[stem p.2.1 ++ lit ".rst"], (processDocs hc (pageNames c c.pfx p.2.1).1
          (pageNames c c.pfx p.2.1).2 docs).render⟩] := by
  obtain ⟨text, ht, hw⟩ := C13_content hf htree hr hh hp hmem
  cases hhs : c.headers with
  | nil => exact absurd hhs hh
  | cons hc hs =>
    rw [hhs, C13_content_factor] at ht
    cases hd : documentedOf c.agg p.2.2 with
    | error e => simp [hd] at ht
    | ok docs =>
      simp only [hd, Except.ok.injEq] at ht
      refine ⟨hc, hs, docs, rfl, rfl, by rw [ht]; exact hw, ?_⟩
      rw [C13_lone_file hf excl' p.2.1 p.2.2 {} rfl (text := (processDocs hc (pageNames c c.pfx p.2.1).1
          (pageNames c c.pfx p.2.1).2 docs).render) (by rw [hhs, C13_content_factor, hd])]
      rfl

/-! ## errors -/

/-- once an error is recorded, nothing further is done -/
theorem C13_error_sticky {c : WalkCfg} {r : RunResult} (h : r.error.isSome = true) :
    (∀ excl pfx rel listing, walkDir c excl pfx rel listing r = r) ∧
    (∀ pfx rel name content, emitPage c pfx rel name content r = r) ∧
    (∀ excl exclRoot inp, (document c excl exclRoot inp r).1 = r) ∧
    (∀ is, (runMain c is r).1 = r ∧ ∃ e, (runMain c is r).2 = .raised e) := by
  refine ⟨fun excl pfx rel listing => ?_, fun _ _ _ _ => emitPage_of_error h,
    fun _ _ _ => document_of_error h, fun is => ?_⟩
  · rw [walkDir_eq, runItems_of_error h]
  · cases he : r.error with
    | none => simp [he] at h
    | some e => cases is <;> simp [runMain, he]

/-- **Processing stops at the first error.**  If `it` is the first item of the layout whose generation fails
    (with `e`) — in stdout mode indexes are not generated and cannot fail — the run ends with `error = some e`,
    having written (resp. printed) exactly the items before `it` and nothing after. -/
theorem C13_error_stops {c : WalkCfg} {excl : List Str → Bool → Bool} {pfx : Str} {rel : List Str}
    {listing : List FsNode} {r : RunResult} {pre post : List WItem} {it : WItem} {e : Err}
    (htree : treeOk listing = true) (hr : r.error = none)
    (hsplit : layoutOf c excl rel listing = pre ++ it :: post)
    (hpre : ∀ x ∈ pre, (c.toStdout = false ∨ x.isPage = true) → (x.text c pfx).isOk = true)
    (hact : c.toStdout = false ∨ it.isPage = true) (he : it.text c pfx = .error e) :
    walkDir c excl pfx rel listing r =
      { writes := r.writes ++ (if c.toStdout then [] else pre.map (WItem.write c pfx)),
        stdout := r.stdout ++ (if c.toStdout then
          ((pre.filterMap WItem.page?).map (fun p => pageText c pfx p ++ ['\n', '\n'])).flatten else []),
        error := some e } := by
  have hact' : ∀ x : WItem, x.active c = true ↔ (c.toStdout = false ∨ x.isPage = true) := by
    intro x; simp [WItem.active]
  rw [walkDir_eq_layout htree, hsplit,
    runItems_err hr (fun x hx ha => hpre x hx ((hact' x).1 ha)) ((hact' it).2 hact) he, printed_flatten]

/-! ## Non-vacuity: the example tree of `WalkSpec.lean`, and an input with a syntax error -/

-- the written paths
set_option maxRecDepth 8192 in
example : (walkDir exCfg exExcl (lit "P") [] exTree {}).writes.map (·.path) =
    [[lit "index.rst"], [lit "A.rst"], [lit "b.rst"], [lit "sub", lit "index.rst"], [lit "sub", lit "c.rst"],
     [lit "sub", lit "deep", lit "index.rst"], [lit "sub", lit "deep", lit "d.rst"]] := by
  rw [(C13_writes (c := exCfg) rfl ex_treeOk rfl (by decide) ex_ok).1, ex_layout]
  decide

-- `sub/deep` is processed; `hidden` (excluded), `upper` (only `U.CMAKE`: the scan is case-sensitive) and
-- `sub/nocmake` are not
example : ∃ l', Processed exCfg exExcl [] exTree [lit "sub", lit "deep"] l' := by
  obtain ⟨l', h, _⟩ := (C13_processed_dirs ex_guard ([lit "sub", lit "deep"], [], [lit "d.cmake"])).1
    (by rw [ex_indexes]; decide)
  exact ⟨l', h⟩
example : ([lit "sub", lit "deep"], [], [lit "d.cmake"]) ∈ indexesOf exCfg exExcl [] exTree := by
  rw [ex_indexes]; decide
example : ∀ d ∈ indexesOf exCfg exExcl [] exTree,
    d.1 ≠ [lit "hidden"] ∧ d.1 ≠ [lit "upper"] ∧ d.1 ≠ [lit "sub", lit "nocmake"] := by
  rw [ex_indexes]; decide
-- the mixed-case `A.CMake` is a page, `readme.txt` and the excluded `skip.cmake` are not
example : ([], lit "A.CMake", []) ∈ pagesOf exCfg exExcl [] exTree := by rw [ex_pages]; decide
example : ∀ p ∈ pagesOf exCfg exExcl [] exTree, p.2.1 ≠ lit "readme.txt" ∧ p.2.1 ≠ lit "skip.cmake" := by
  rw [ex_pages]; decide
example : ∃ l', Processed exCfg exExcl [] exTree [] l' ∧ lit "A.CMake" ∈ keptFiles exExcl [] l' ∧
    isCMakeName (lit "A.CMake") = true ∧ findFile (lit "A.CMake") l' = some [] :=
  (C13_processed_files ex_guard ([], lit "A.CMake", [])).1 (by rw [ex_pages]; decide)

-- content of `b.rst`
set_option maxRecDepth 8192 in
example : (⟨[lit "b.rst"], lit "\n###\nP.b\n###\n\n.. module:: P.b\n\n\n.. function:: f()\n\n   doc\n   \n\n"⟩ : Write) ∈
    (walkDir exCfg exExcl (lit "P") [] exTree {}).writes := by
  obtain ⟨text, ht, hw⟩ := C13_content (c := exCfg) (pfx := lit "P") (r := {}) rfl ex_treeOk rfl (by decide) ex_ok
    (p := exB) (by rw [ex_pages]; decide)
  have h2 : (pipeline exCfg.agg exCfg.headers (pageNames exCfg (some (lit "P")) (relPath exB)).1
      (pageNames exCfg (some (lit "P")) (relPath exB)).2 exB.2.2).toOption =
      some (lit "\n###\nP.b\n###\n\n.. module:: P.b\n\n\n.. function:: f()\n\n   doc\n   \n\n") := by decide +kernel
  rw [ht] at h2
  have h3 : text = lit "\n###\nP.b\n###\n\n.. module:: P.b\n\n\n.. function:: f()\n\n   doc\n   \n\n" :=
    Option.some.inj h2
  have hpath : exB.1 ++ [stem exB.2.1 ++ lit ".rst"] = [lit "b.rst"] := by decide
  rw [hpath, h3] at hw
  exact hw

-- without `-r` nothing below the top directory is written
example : ∀ w ∈ (walkDir exCfgFlat exExcl (lit "P") [] exTree {}).writes, w.path.length = 1 := by
  intro w hw
  rcases C13_no_descend_without_r (c := exCfgFlat) rfl hw with h | h
  · simp at h
  · simpa using h.1

-- the run stops at `bad.cmake`: `index.rst` and `a.rst` are written, `z.rst` is not, the error is recorded
set_option maxRecDepth 8192 in
example : walkDir {} (fun _ _ => false) (lit "P") [] exErrTree {} =
    { writes := [⟨[lit "index.rst"], lit "\n#\nP\n#\n\n.. toctree:: \n   :maxdepth: 2\n\n   a\n   bad\n   z\n\n"⟩,
                 ⟨[lit "a.rst"], lit "\n###\nP.a\n###\n\n.. module:: P.a\n\n"⟩],
      stdout := [], error := some .parse } := by
  have hl : layoutOf {} (fun _ _ => false) [] exErrTree =
      [.index [] [] [lit "a.cmake", lit "bad.cmake", lit "z.cmake"], .page [] (lit "a.cmake") []] ++
        .page [] (lit "bad.cmake") (lit "set(") :: [.page [] (lit "z.cmake") []] := by
    simp only [layoutOf, dirItems, subsLayout, nodeLayout, exErrTree, sortStrs_eq_isort]
    decide
  rw [C13_error_stops (c := {}) (e := .parse) (by decide) rfl hl (by decide +kernel) (Or.inl rfl)
    (eq_error_of_errOf (by decide +kernel))]
  apply RunResult.ext' <;> decide +kernel

-- distinct paths: the example tree has no stem collision
example : ((layoutOf exCfg exExcl [] exTree).map WItem.path).Nodup :=
  (C13_paths_nodup ex_treeOk ex_noStemClash).1

-- the guard is needed: with auto-exclusion on and `-r`, a top directory without `.cmake` file is walked through
-- but not processed — its sub-directory gets an index, it does not (so `C13_processed_dirs` fails for `[]`)
example : indexesOf exCfg (fun _ _ => false) [] [.file (lit "readme.txt") [], .dir (lit "s") [.file (lit "x.cmake") []]] =
    [([lit "s"], [], [lit "x.cmake"])] := by
  simp only [indexesOf, layoutOf, dirItems, subsLayout, nodeLayout, sortStrs_eq_isort]
  decide

/-! ### the known output-path collisions (finding K4): why uniqueness of the written paths is not claimed

`a.cmake` and `a.CMake` both map to `a.rst`; `index.cmake` maps to `index.rst`, the path of the directory's index. -/

example : ¬ ((layoutOf {} (fun _ _ => false) [] [.file (lit "a.cmake") [], .file (lit "a.CMake") []]).map WItem.path).Nodup := by
  simp only [layoutOf, dirItems, subsLayout, nodeLayout, sortStrs_eq_isort]
  decide
example : ¬ ((layoutOf {} (fun _ _ => false) [] [.file (lit "index.cmake") []]).map WItem.path).Nodup := by
  simp only [layoutOf, dirItems, subsLayout, nodeLayout, sortStrs_eq_isort]
  decide

end Cminx
