import CminxLemmas.AggLemmas2
/-!
# C03 — an implementing definition that carries a doccomment of its own (D14)

`T_agg` (and with it `C03_machine`) is stated for modules whose implementing definitions carry no doccomment.  The
listener's behaviour on the remaining case is pinned down here directly on the state machine: after the repair
`531ae13` the doccomment + command events of such a definition grow the definition stack by exactly one entry (its
own), `endfunction`/`endmacro` restores the stack, and a `cmake_parse_arguments` directly in its body marks its own
entry — so "calls in nested, sibling or later definitions or at file level never affect it" is not disturbed by the
stale entry the unrepaired code left behind.  `D14_witness` evaluates the concrete input of the finding.
-/
namespace Cminx

/-- the claiming branch for a definition that carries a doccomment of its own: no second stack entry -/
theorem enterCommand_claim_consumed (cfg : Cfg) (st : AggState) (cmd : Cmd) (ref : AwaitRef)
    (h : asciiLower cmd.name = lit "function" ∨ asciiLower cmd.name = lit "macro")
    (ha : st.awaiting = some ref) :
    enterCommand cfg st true cmd =
      .ok { claimDefinition cfg st ref (asciiLower cmd.name = lit "macro") cmd with defStack := st.defStack } := by
  unfold enterCommand
  rcases h with h | h <;> simp (decide := true) [h, ha]

/-- D14 (repaired by 531ae13): the doccomment + command events of a *documented* definition that is also claimed by
the awaiting declaration `ref` append the definition's entry, complete the declaration, and grow the definition
stack by exactly ONE entry — the definition's own, at the index of its entry.  (It used to grow by two, of which
`endfunction` popped one.) -/
theorem C03_documented_impl_step (cfg : Cfg) (st : AggState) (d : Str) (c : Cmd) (ref : AwaitRef) (name : Str) (ps : List Str)
    (hdef : asciiLower c.name = lit "function" ∨ asciiLower c.name = lit "macro")
    (haw : st.awaiting = some ref) (hs : c.singles = name :: ps) :
    ∃ st', step cfg st (.docCmd d c) = .ok st' ∧
      st'.defStack = some st.documented.length :: st.defStack ∧ st'.awaiting = none ∧
      st'.classStack = st.classStack ∧ st'.documented.length = st.documented.length + 1 := by
  rcases hdef with h | h
  all_goals
    simp only [step, enterDocumented, h, procOf_function, procOf_macro, runProc, processDef, hs, bind, Except.bind, pure, Except.pure]
    rw [enterCommand_claim_consumed cfg _ c ref (by simp [h]) (by simpa [AggState.push] using haw)]
    refine ⟨_, rfl, ?_⟩
    cases ref <;> simp [claimDefinition, AggState.push]

/-- … so the matching `endfunction`/`endmacro` restores the stack of before the definition, whatever the body did to
the rest of the state as long as it left the stack as it found it -/
theorem C03_documented_impl_balanced (cfg : Cfg) (st st' st'' : AggState) (d : Str) (c e : Cmd) (ref : AwaitRef) (name : Str) (ps : List Str)
    (hdef : asciiLower c.name = lit "function" ∨ asciiLower c.name = lit "macro")
    (haw : st.awaiting = some ref) (hs : c.singles = name :: ps)
    (hstep : step cfg st (.docCmd d c) = .ok st')
    (hbody : st''.defStack = st'.defStack)
    (hend : asciiLower e.name = lit "endfunction" ∨ asciiLower e.name = lit "endmacro") :
    step cfg st'' (.cmd e) = .ok { st'' with defStack := st.defStack } := by
  obtain ⟨s1, h1, hd, -, -, -⟩ := C03_documented_impl_step cfg st d c ref name ps hdef haw hs
  rw [hstep] at h1; cases h1
  rw [hd] at hbody
  simpa [step] using enterCommand_endDef cfg st'' false e _ _ hend hbody

/-- a `cmake_parse_arguments` directly in the body of such a definition marks the definition's own entry -/
theorem C03_documented_impl_cpa (cfg : Cfg) (st st' : AggState) (d : Str) (c : Cmd) (ref : AwaitRef) (name : Str) (ps : List Str)
    (hdef : asciiLower c.name = lit "function" ∨ asciiLower c.name = lit "macro")
    (haw : st.awaiting = some ref) (hs : c.singles = name :: ps)
    (hstep : step cfg st (.docCmd d c) = .ok st') :
    (processCpa st').documented = st'.documented.modify st.documented.length setKwargs := by
  obtain ⟨s1, h1, hd, -, -, -⟩ := C03_documented_impl_step cfg st d c ref name ps hdef haw hs
  rw [hstep] at h1; cases h1
  simp [processCpa, hd]

end Cminx

namespace Cminx
namespace C03

/-- the witness of D14: `function(outer a)` whose body declares a test, implements it with a *documented* function
and then calls `cmake_parse_arguments` -/
def exD14 : List Event :=
  [ .docCmd (lit "#[[[\n# Outer.\n#]]") ⟨lit "function", [.single (lit "outer"), .single (lit "a")]⟩,
    .cmd ⟨lit "ct_add_test", [.single (lit "NAME"), .single (lit "t")]⟩,
    .docCmd (lit "#[[[\n# Impl.\n#]]") ⟨lit "function", [.single (lit "${t}")]⟩,
    .cmd ⟨lit "endfunction", []⟩,
    .cmd ⟨lit "cmake_parse_arguments", [.single (lit "P")]⟩,
    .cmd ⟨lit "endfunction", []⟩ ]

/-- on the witness the `**kwargs` flag goes to `outer` (whose body holds the call) and not to the implementing
definition, and the definition stack ends empty (before the repair: `outer` without, `${t}` with the flag, and one
stale entry left on the stack) -/
theorem D14_witness :
    (aggregate {} exD14).toOption.map (fun s => (s.documented.map (fun e => match e with
        | .func _ n _ _ kw => (n, kw) | .test _ n .. => (n, false) | _ => ([], false)), s.defStack)) =
      some ([(lit "outer", true), (lit "t", false), (lit "${t}", false)], []) := by
  decide +kernel

end C03
end Cminx
