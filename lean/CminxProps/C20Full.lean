import CminxModel.RstFull
/-!
# C20 on the whole writer API (`RstFull.lean`)

* `C20F_embed_*` — the model of `Rst.lean` is embedded in the full model: rendering and every API call commute with the
  embedding, so each theorem of `C20.lean` (stated for histories of the seven pipeline operations) holds verbatim for the
  full writer as long as a history uses those operations.
* `C20F_section_frame`, `C20F_section_retitle` — a nested writer's title is framed by its header string repeated to the
  title's length, also after the title was changed.
* `C20F_levels_history` — **in every document reachable from a fresh writer through any history of API calls, every section
  carries the header string configured for its section level**, the level being one more than the level of the writer it was
  opened on (a directive counts as level 0, as in the code).  `C20F_section_overflow`: a level the header list has no entry
  for raises, and (`C20F_error_skipped`) the document is left as it was.
* `C20F_section_ignores_depth` — recorded observation, outside the property's quantifier: a section renders the same at every
  ambient depth, i.e. the content of a section opened on a directive starts at column 0 again.
* `C20F_order` — elements are emitted in the order they were added, for all seven element classes.
* `C20F_table_*` — a rejected table leaves the document unchanged; every cell is padded to the common width, so all rows of a
  table have the same length.
-/
namespace Cminx

/-! ## embedding -/

mutual
theorem C20F_embed_render (d : Nat) : ∀ e : Elem, (FElem.ofElem e).render d = e.render d
  | .para _ => by simp [FElem.ofElem, FElem.render, Elem.render]
  | .field _ _ => by simp [FElem.ofElem, FElem.render, Elem.render]
  | .list _ _ => by simp [FElem.ofElem, FElem.render, Elem.render]
  | .directive name args opts body => by
      have ih := C20F_embed_renderElems (d + 1) body
      have hemp : (ofElems body).isEmpty = body.isEmpty := by cases body <;> simp [ofElems]
      simp [FElem.ofElem, FElem.render, Elem.render, ih, hemp]
theorem C20F_embed_renderElems (d : Nat) : ∀ es : List Elem, renderFElems d (ofElems es) = renderElems d es
  | [] => by simp [ofElems, renderFElems, renderElems]
  | e :: es => by
      simp [ofElems, renderFElems, renderElems, C20F_embed_render d e, C20F_embed_renderElems d es]
end

theorem C20F_embed_doc (hs : List Str) (w : Doc) : (FDoc.ofDoc hs w).render = w.render := by
  simp [FDoc.ofDoc, FDoc.render, Doc.render, C20F_embed_renderElems]

def FNodeOp.ofNodeOp : NodeOp → FNodeOp
  | .append e => .append (FElem.ofElem e)
  | .addOpt n v => .addOpt n v
  | .setTitle t => .setTitle t
  | .clear => .clear

theorem ofElems_append (a b : List Elem) : ofElems (a ++ b) = ofElems a ++ ofElems b := by
  induction a with
  | nil => simp [ofElems]
  | cons x xs ih => simp [ofElems, ih]

mutual
theorem C20F_embed_update (nop : NodeOp) : ∀ (p : List Nat) (e : Elem),
    FElem.ofElem (e.update nop p) = (FElem.ofElem e).update (FNodeOp.ofNodeOp nop) p
  | [], .directive name args opts body => by
      cases nop <;> simp [Elem.update, FElem.update, FElem.ofElem, FNodeOp.ofNodeOp, ofElems_append, ofElems]
  | i :: path, .directive name args opts body => by
      simp [Elem.update, FElem.update, FElem.ofElem, C20F_embed_updateAt nop i path body]
  | [], .para _ => by simp [Elem.update, FElem.update, FElem.ofElem]
  | [], .field _ _ => by simp [Elem.update, FElem.update, FElem.ofElem]
  | [], .list _ _ => by simp [Elem.update, FElem.update, FElem.ofElem]
  | _ :: _, .para _ => by simp [Elem.update, FElem.update, FElem.ofElem]
  | _ :: _, .field _ _ => by simp [Elem.update, FElem.update, FElem.ofElem]
  | _ :: _, .list _ _ => by simp [Elem.update, FElem.update, FElem.ofElem]
theorem C20F_embed_updateAt (nop : NodeOp) : ∀ (i : Nat) (p : List Nat) (es : List Elem),
    ofElems (updateAt nop i p es) = fupdateAt (FNodeOp.ofNodeOp nop) i p (ofElems es)
  | _, _, [] => by simp [updateAt, fupdateAt, ofElems]
  | 0, p, e :: es => by simp [updateAt, fupdateAt, ofElems, C20F_embed_update nop p e]
  | i + 1, p, e :: es => by simp [updateAt, fupdateAt, ofElems, C20F_embed_updateAt nop i p es]
end

theorem C20F_embed_docUpdate (hs : List Str) (w : Doc) (nop : NodeOp) (p : List Nat) :
    FDoc.ofDoc hs (w.update nop p) = (FDoc.ofDoc hs w).update (FNodeOp.ofNodeOp nop) p := by
  cases p with
  | nil => cases nop <;> simp [Doc.update, FDoc.update, FDoc.ofDoc, FNodeOp.ofNodeOp, ofElems_append, ofElems]
  | cons i path => simp [Doc.update, FDoc.update, FDoc.ofDoc, C20F_embed_updateAt]

/-- every API call of the smaller model is the same call of the full writer, and never raises -/
theorem C20F_embed_apply (hs : List Str) (w : Doc) (op : Op) :
    (FDoc.ofDoc hs w).apply (FOp.ofOp op) = .ok (FDoc.ofDoc hs (w.apply op)) := by
  cases op <;>
    simp [FOp.ofOp, FDoc.apply, Doc.apply, Op.nodeOp, Op.handle, C20F_embed_docUpdate, FNodeOp.ofNodeOp, FElem.ofElem, ofElems]

theorem C20F_embed_run (hs : List Str) (ops : List Op) : ∀ w : Doc,
    (FDoc.ofDoc hs w).run (ops.map FOp.ofOp) = FDoc.ofDoc hs (w.run ops) := by
  induction ops with
  | nil => intro w; simp [FDoc.run, Doc.run]
  | cons op ops ih =>
    intro w
    simp only [List.map_cons, FDoc.run, C20F_embed_apply, Doc.run, List.foldl_cons]
    exact ih (w.apply op)

/-- what the full writer prints after a history of pipeline operations is what `Rst.lean` says -/
theorem C20F_embed_history (hs : List Str) (w : Doc) (ops : List Op) :
    ((FDoc.ofDoc hs w).run (ops.map FOp.ofOp)).render = (w.run ops).render := by
  rw [C20F_embed_run, C20F_embed_doc]

/-! ## sections: frame, re-framing, level ↦ header string -/

/-- a section is its title framed by its header string repeated once per code point of the title, then its content at
    depth 0 -/
theorem C20F_section_frame (d k : Nat) (hc title : Str) (body : List FElem) :
    (FElem.sect k hc title body).render d =
      '\n' :: (repeatStr hc title.length ++ '\n' :: (title ++ '\n' :: repeatStr hc title.length))
        ++ '\n' :: renderFElems 0 body := by
  simp [FElem.render, renderHeading]

/-- changing a section's title re-frames it: same header string, new length -/
theorem C20F_section_retitle (d k : Nat) (hc title t' : Str) (body : List FElem) :
    ((FElem.sect k hc title body).update (.setTitle t') []).render d =
      '\n' :: (repeatStr hc t'.length ++ '\n' :: (t' ++ '\n' :: repeatStr hc t'.length))
        ++ '\n' :: renderFElems 0 body := by
  simp [FElem.update, FElem.render, renderHeading]

/-- observation (outside the property's quantifier): the ambient depth does not reach into a section -/
theorem C20F_section_ignores_depth (d₁ d₂ k : Nat) (hc title : Str) (body : List FElem) :
    (FElem.sect k hc title body).render d₁ = (FElem.sect k hc title body).render d₂ := by
  simp [FElem.render]

mutual
/-- every section below `e` carries the header string of its level; `parent` is the level of the enclosing writer -/
def FElem.levelsOk (hs : List Str) (parent : Nat) : FElem → Bool
  | .sect k hc _ body => k == parent + 1 && hs[k]? == some hc && levelsOkList hs k body
  | .directive _ _ _ body => levelsOkList hs 0 body
  | _ => true
def levelsOkList (hs : List Str) (parent : Nat) : List FElem → Bool
  | [] => true
  | e :: es => e.levelsOk hs parent && levelsOkList hs parent es
end

def FDoc.levelsOk (w : FDoc) : Bool := w.hs[0]? == some w.hc && levelsOkList w.hs 0 w.body

theorem levelsOkList_append (hs : List Str) (k : Nat) (a b : List FElem) :
    levelsOkList hs k (a ++ b) = (levelsOkList hs k a && levelsOkList hs k b) := by
  induction a with
  | nil => simp [levelsOkList]
  | cons x xs ih => simp [levelsOkList, ih, Bool.and_assoc]

/-- what an operation must satisfy at a writer of level `lvl` to keep the invariant -/
def FNodeOp.okAt (hs : List Str) (lvl : Nat) : FNodeOp → Bool
  | .append e => e.levelsOk hs lvl
  | _ => true

mutual
theorem update_levelsOk (hs : List Str) (nop : FNodeOp) : ∀ (p : List Nat) (e : FElem) (parent : Nat),
    e.levelsOk hs parent = true → (∀ lvl, e.levelAt p = some lvl → nop.okAt hs lvl = true) →
    (e.update nop p).levelsOk hs parent = true
  | [], .directive name args opts body, parent, h, hn => by
      have h0 := hn 0 (by simp [FElem.levelAt])
      cases nop <;> simp_all [FElem.update, FElem.levelsOk, FNodeOp.okAt, levelsOkList_append, levelsOkList]
  | [], .sect k hc title body, parent, h, hn => by
      have h0 := hn k (by simp [FElem.levelAt])
      simp only [FElem.levelsOk, Bool.and_eq_true, beq_iff_eq] at h
      obtain ⟨⟨h1, h2⟩, h3⟩ := h
      subst h1
      cases nop with
      | append e =>
        simp only [FNodeOp.okAt] at h0
        simp [FElem.update, FElem.levelsOk, levelsOkList_append, levelsOkList, h2, h3, h0]
      | addOpt n v => simp [FElem.update, FElem.levelsOk, h2, h3]
      | setTitle t => simp [FElem.update, FElem.levelsOk, h2, h3]
      | clear => simp [FElem.update, FElem.levelsOk, levelsOkList, h2]
  | i :: path, .directive name args opts body, parent, h, hn => by
      simp only [FElem.update, FElem.levelsOk] at h ⊢
      exact updateAt_levelsOk hs nop i path body 0 h (by intro lvl hl; exact hn lvl (by simpa [FElem.levelAt] using hl))
  | i :: path, .sect k hc title body, parent, h, hn => by
      simp only [FElem.update, FElem.levelsOk, Bool.and_eq_true] at h ⊢
      refine ⟨h.1, ?_⟩
      exact updateAt_levelsOk hs nop i path body k h.2 (by intro lvl hl; exact hn lvl (by simpa [FElem.levelAt] using hl))
  | [], .para _, _, h, _ => by simpa [FElem.update] using h
  | [], .field _ _, _, h, _ => by simpa [FElem.update] using h
  | [], .list _ _, _, h, _ => by simpa [FElem.update] using h
  | [], .doctest _ _, _, h, _ => by simpa [FElem.update] using h
  | [], .table _ _, _, h, _ => by simpa [FElem.update] using h
  | _ :: _, .para _, _, h, _ => by simpa [FElem.update] using h
  | _ :: _, .field _ _, _, h, _ => by simpa [FElem.update] using h
  | _ :: _, .list _ _, _, h, _ => by simpa [FElem.update] using h
  | _ :: _, .doctest _ _, _, h, _ => by simpa [FElem.update] using h
  | _ :: _, .table _ _, _, h, _ => by simpa [FElem.update] using h
theorem updateAt_levelsOk (hs : List Str) (nop : FNodeOp) : ∀ (i : Nat) (p : List Nat) (es : List FElem) (parent : Nat),
    levelsOkList hs parent es = true → (∀ lvl, flevelAt i p es = some lvl → nop.okAt hs lvl = true) →
    levelsOkList hs parent (fupdateAt nop i p es) = true
  | _, _, [], _, _, _ => by simp [fupdateAt, levelsOkList]
  | 0, p, e :: es, parent, h, hn => by
      simp only [levelsOkList, Bool.and_eq_true, fupdateAt] at h ⊢
      exact ⟨update_levelsOk hs nop p e parent h.1 (by intro lvl hl; exact hn lvl (by simpa [flevelAt] using hl)), h.2⟩
  | i + 1, p, e :: es, parent, h, hn => by
      simp only [levelsOkList, Bool.and_eq_true, fupdateAt] at h ⊢
      exact ⟨h.1, updateAt_levelsOk hs nop i p es parent h.2 (by intro lvl hl; exact hn lvl (by simpa [flevelAt] using hl))⟩
end

theorem docUpdate_levelsOk (w : FDoc) (nop : FNodeOp) (p : List Nat) (h : w.levelsOk = true)
    (hn : ∀ lvl, w.levelAt p = some lvl → nop.okAt w.hs lvl = true) : (w.update nop p).levelsOk = true := by
  cases p with
  | nil =>
    have h0 := hn 0 (by simp [FDoc.levelAt])
    cases nop <;> simp_all [FDoc.update, FDoc.levelsOk, FNodeOp.okAt, levelsOkList_append, levelsOkList]
  | cons i path =>
    simp only [FDoc.levelsOk, FDoc.update, Bool.and_eq_true] at h ⊢
    exact ⟨h.1, updateAt_levelsOk w.hs nop i path w.body 0 h.2 (by intro lvl hl; exact hn lvl (by simpa [FDoc.levelAt] using hl))⟩

theorem update_hs (w : FDoc) (nop : FNodeOp) (p : List Nat) : (w.update nop p).hs = w.hs := by
  cases p with
  | nil => cases nop <;> simp [FDoc.update]
  | cons i path => simp [FDoc.update]

/-- one API call keeps the invariant (and a call that raises changes nothing, by the definition of `run`) -/
theorem C20F_levels_step (w w' : FDoc) (op : FOp) (h : w.levelsOk = true) (ha : w.apply op = .ok w') :
    w'.levelsOk = true := by
  cases op with
  | sect hd title =>
    simp only [FDoc.apply] at ha
    split at ha
    · simp at ha
    · rename_i k hk
      split at ha
      · simp at ha
      · rename_i hc hhc
        simp only [Except.ok.injEq] at ha
        subst ha
        apply docUpdate_levelsOk w _ hd h
        intro lvl hl
        rw [hk] at hl
        simp only [Option.some.injEq] at hl
        subst hl
        simp [FNodeOp.okAt, FElem.levelsOk, levelsOkList, hhc]
  | table hd rows heads =>
    simp only [FDoc.apply] at ha
    split at ha
    · simp only [Except.ok.injEq] at ha
      subst ha
      exact docUpdate_levelsOk w _ hd h (by intro lvl _; simp [FNodeOp.okAt, FElem.levelsOk])
    · simp at ha
  | text hd t =>
    simp only [FDoc.apply, Except.ok.injEq] at ha; subst ha
    exact docUpdate_levelsOk w _ hd h (by intro lvl _; simp [FNodeOp.okAt, FElem.levelsOk])
  | field hd n t =>
    simp only [FDoc.apply, Except.ok.injEq] at ha; subst ha
    exact docUpdate_levelsOk w _ hd h (by intro lvl _; simp [FNodeOp.okAt, FElem.levelsOk])
  | list hd en items =>
    simp only [FDoc.apply, Except.ok.injEq] at ha; subst ha
    exact docUpdate_levelsOk w _ hd h (by intro lvl _; simp [FNodeOp.okAt, FElem.levelsOk])
  | doctest hd l e =>
    simp only [FDoc.apply, Except.ok.injEq] at ha; subst ha
    exact docUpdate_levelsOk w _ hd h (by intro lvl _; simp [FNodeOp.okAt, FElem.levelsOk])
  | directive hd name args =>
    simp only [FDoc.apply, Except.ok.injEq] at ha; subst ha
    exact docUpdate_levelsOk w _ hd h (by intro lvl _; simp [FNodeOp.okAt, FElem.levelsOk, levelsOkList])
  | option hd n v =>
    simp only [FDoc.apply, Except.ok.injEq] at ha; subst ha
    exact docUpdate_levelsOk w _ hd h (by intro lvl _; simp [FNodeOp.okAt])
  | setTitle hd t =>
    simp only [FDoc.apply, Except.ok.injEq] at ha; subst ha
    exact docUpdate_levelsOk w _ hd h (by intro lvl _; simp [FNodeOp.okAt])
  | clear hd =>
    simp only [FDoc.apply, Except.ok.injEq] at ha; subst ha
    exact docUpdate_levelsOk w _ hd h (by intro lvl _; simp [FNodeOp.okAt])

theorem C20F_levels_run (ops : List FOp) : ∀ w : FDoc, w.levelsOk = true → (w.run ops).levelsOk = true := by
  induction ops with
  | nil => intro w h; simpa [FDoc.run] using h
  | cons op ops ih =>
    intro w h
    simp only [FDoc.run]
    split
    · rename_i w' ha; exact ih w' (C20F_levels_step w w' op h ha)
    · exact ih w h

/-- **every reachable document**: a fresh writer, any history of calls (raising ones included) — each section's header string
    is the one configured for its level, and the top-level frame uses the first -/
theorem C20F_levels_history (hs : List Str) (title : Str) (w : FDoc) (ops : List FOp) (hw : FDoc.new hs title = some w) :
    (w.run ops).levelsOk = true := by
  apply C20F_levels_run
  cases hs with
  | nil => simp [FDoc.new] at hw
  | cons h t =>
    simp only [FDoc.new, Option.some.injEq] at hw
    subst hw
    simp [FDoc.levelsOk, levelsOkList]

/-- what `levelsOk` gives for a section met anywhere in a list: its frame is `hs[level]` -/
theorem C20F_levels_frame (hs : List Str) (parent k : Nat) (hc title : Str) (body : List FElem) (d : Nat)
    (h : (FElem.sect k hc title body).levelsOk hs parent = true) :
    k = parent + 1 ∧ hs[k]? = some hc ∧
    (FElem.sect k hc title body).render d =
      '\n' :: (repeatStr hc title.length ++ '\n' :: (title ++ '\n' :: repeatStr hc title.length))
        ++ '\n' :: renderFElems 0 body := by
  simp only [FElem.levelsOk, Bool.and_eq_true, beq_iff_eq] at h
  exact ⟨h.1.1, h.1.2, C20F_section_frame d k hc title body⟩

/-- a section one level below a writer of level `k` is created with `hs[k+1]` -/
theorem C20F_section_created (w : FDoc) (h : List Nat) (title : Str) (k : Nat) (hc : Str)
    (hk : w.levelAt h = some k) (hhc : w.hs[k + 1]? = some hc) :
    w.apply (.sect h title) = .ok (w.update (.append (.sect (k + 1) hc title [])) h) := by
  simp [FDoc.apply, hk, hhc]

/-- deeper than the header list: the call raises … -/
theorem C20F_section_overflow (w : FDoc) (h : List Nat) (title : Str) (k : Nat)
    (hk : w.levelAt h = some k) (hlen : w.hs.length ≤ k + 1) :
    w.apply (.sect h title) = .error "level" := by
  have : w.hs[k + 1]? = none := by simp [hlen]
  simp [FDoc.apply, hk, this]

/-- … and a call that raises leaves the document as it was -/
theorem C20F_error_skipped (w : FDoc) (op : FOp) (ops : List FOp) (e : String) (h : w.apply op = .error e) :
    w.run (op :: ops) = w.run ops := by
  simp [FDoc.run, h]

/-- with the packaged ten header characters the tenth nested section is the first to raise -/
example : let hs := ["#", "*", "=", "-", "_", "~", "!", "&", "@", "^"].map String.toList
    hs[9]?.isSome = true ∧ hs[10]? = none := by decide

/-! ## order, doctests, tables -/

theorem C20F_order (d : Nat) (a b : List FElem) : renderFElems d (a ++ b) = renderFElems d a ++ renderFElems d b := by
  induction a with
  | nil => simp [renderFElems]
  | cons x xs ih => simp [renderFElems, ih]

/-- a call at the root appends at the end of the text: everything printed before is a prefix of what is printed after -/
theorem C20F_order_root (w : FDoc) (e : FElem) :
    (w.update (.append e) []).render = w.render ++ (e.render 0 ++ ['\n']) := by
  simp [FDoc.update, FDoc.render, C20F_order, renderFElems]

theorem C20F_doctest_text (d : Nat) (l e : Str) :
    (FElem.doctest l e).render d = '\n' :: (indent d ++ lit ">>> " ++ l ++ '\n' :: (e ++ ['\n'])) := by
  simp [FElem.render, renderDoctest]

theorem C20F_table_rejected (w : FDoc) (h : List Nat) (rows : List (List Str)) (heads : List Str)
    (hv : tableValid rows heads = false) : w.apply (.table h rows heads) = .error "table" := by
  simp [FDoc.apply, hv]

theorem C20F_table_empty_rejected (heads : List Str) : tableValid [] heads = false := by simp [tableValid]

theorem foldl_max_ge (f : Str → Nat) (l : List Str) (w : Nat) :
    w ≤ l.foldl (fun w c => if f c > w then f c else w) w := by
  induction l generalizing w with
  | nil => simp
  | cons x xs ih =>
    simp only [List.foldl_cons]
    split
    · exact Nat.le_trans (Nat.le_of_lt (by assumption)) (ih _)
    · exact ih _

theorem foldl_max_mem (f : Str → Nat) (l : List Str) (w : Nat) (c : Str) (hc : c ∈ l) :
    f c ≤ l.foldl (fun w c => if f c > w then f c else w) w := by
  induction l generalizing w with
  | nil => simp at hc
  | cons x xs ih =>
    simp only [List.foldl_cons]
    rcases List.mem_cons.1 hc with rfl | h
    · split
      · exact foldl_max_ge f xs _
      · rename_i hn
        exact Nat.le_trans (Nat.le_of_not_gt hn) (foldl_max_ge f xs _)
    · exact ih _ h

theorem rows_width_ge (rows : List (List Str)) (w : Nat) :
    w ≤ rows.foldl (fun w row => row.foldl (fun w c => if c.length > w then c.length else w) w) w := by
  induction rows generalizing w with
  | nil => simp
  | cons r rs ih =>
    simp only [List.foldl_cons]
    exact Nat.le_trans (foldl_max_ge List.length r w) (ih _)

theorem rows_width_mem (rows : List (List Str)) (w : Nat) (r : List Str) (c : Str) (hr : r ∈ rows) (hc : c ∈ r) :
    c.length ≤ rows.foldl (fun w row => row.foldl (fun w c => if c.length > w then c.length else w) w) w := by
  induction rows generalizing w with
  | nil => simp at hr
  | cons x xs ih =>
    simp only [List.foldl_cons]
    rcases List.mem_cons.1 hr with rfl | h
    · exact Nat.le_trans (foldl_max_mem List.length r w c hc) (rows_width_ge xs _)
    · exact ih _ h

/-- no cell and no heading is longer than the column width -/
theorem C20F_table_cell_fits (rows : List (List Str)) (heads : List Str) (r : List Str) (c : Str)
    (hr : r ∈ rows) (hc : c ∈ r) : c.length ≤ tableWidth rows heads := by
  unfold tableWidth
  exact Nat.le_trans (rows_width_mem rows 0 r c hr hc) (foldl_max_ge List.length heads _)

theorem C20F_table_head_fits (rows : List (List Str)) (heads : List Str) (h : Str) (hh : h ∈ heads) :
    h.length ≤ tableWidth rows heads := by
  unfold tableWidth
  exact foldl_max_mem List.length heads _ h hh

theorem padCell_length (w : Nat) (c : Str) (h : c.length ≤ w) : (padCell w c).length = w + 2 := by
  simp [padCell]; omega

theorem concatMap_padCell_length (w : Nat) (r : List Str) (h : ∀ c ∈ r, c.length ≤ w) :
    (concatMap (padCell w) r).length = r.length * (w + 2) := by
  induction r with
  | nil => simp [concatMap]
  | cons c cs ih =>
    have hc := padCell_length w c (h c (by simp))
    have := ih (fun x hx => h x (by simp [hx]))
    simp only [concatMap, List.length_append, hc, this, List.length_cons]
    rw [Nat.add_mul]; omega

/-- alignment: every row of a table is printed `columns × (width + 2)` characters long -/
theorem C20F_table_row_length (rows : List (List Str)) (heads : List Str) (r : List Str) (hr : r ∈ rows) :
    (concatMap (padCell (tableWidth rows heads)) r).length = r.length * (tableWidth rows heads + 2) :=
  concatMap_padCell_length _ r (fun c hc => C20F_table_cell_fits rows heads r c hr hc)

/-! ## `write_to_file` -/

theorem C20F_write_none : writeTarget none = .valueError := rfl
theorem C20F_write_empty : writeTarget (some (.path [])) = .valueError := rfl
theorem C20F_write_path (c : Char) (p : Str) : writeTarget (some (.path (c :: p))) = .openPath (stripWs (c :: p)) := rfl
theorem C20F_write_other : writeTarget (some .other) = .typeError := rfl

/-! ## non-vacuity: a concrete history with nested sections, a directive, a rejected table and an overflowing section -/

def c20fDemo : Option FDoc :=
  (FDoc.new [['='], ['-']] (lit "T")).map fun w =>
    w.run [.sect [] (lit "A"), .text [0] (lit "p"), .sect [0] (lit "too deep"), .directive [0] (lit "note") [],
           .sect [0, 1] (lit "in dir"), .table [] [] [], .doctest [] (lit "1") (lit "1")]

example : (c20fDemo.map (·.levelsOk)) = some true := by decide +kernel
example : (c20fDemo.map (fun w => String.ofList w.render)) =
    some "\n=\nT\n=\n\n-\nA\n-\np\n\n.. note:: \n\n\n------\nin dir\n------\n\n\n\n\n>>> 1\n1\n\n" := by decide +kernel

end Cminx
