import CminxModel.CMakeWrap
/-!
# C19 — `cminx_gen_rst()` is equivalent to the command line

About `CMakeWrap.lean`.  **Partial by nature**: CMake's evaluation of the function body and `execute_process`
are trusted; the tie is `harness/s_cmake.py`, which drives the real `cmake -P` with `CMINX_EXECUTABLE` bound to an
argv recorder (compared with `genArgv`), to the working-tree CMinx (output tree compared with a direct run) and to a
failing child.
-/
namespace Cminx

theorem splitSemiAux_noSemi (s cur : Str) (h : ';' ∉ s) :
    splitSemiAux s cur = if (cur.reverse ++ s).isEmpty then [] else [cur.reverse ++ s] := by
  induction s generalizing cur with
  | nil => simp [splitSemiAux]
  | cons c cs ih =>
    have hc : c ≠ ';' := by intro hc; apply h; simp [hc]
    have hcs : ';' ∉ cs := by intro hm; apply h; simp [hm]
    simp only [splitSemiAux, hc, if_false]
    rw [ih (c :: cur) hcs]
    simp

/-- an argument without `;` that is not empty survives CMake's list expansion unchanged -/
theorem C19_arg_verbatim (e : Str) (hne : e ≠ []) (hs : ';' ∉ e) : splitSemi e = [e] := by
  unfold splitSemi
  rw [splitSemiAux_noSemi e [] hs]
  cases e with
  | nil => exact absurd rfl hne
  | cons c cs => simp

/-- extra arguments are forwarded verbatim: same arguments, same order, same boundaries -/
theorem C19_verbatim (extra : List Str) (h : ∀ e ∈ extra, e ≠ [] ∧ ';' ∉ e) : flattenExtra extra = extra := by
  induction extra with
  | nil => simp [flattenExtra]
  | cons e es ih =>
    have he := h e (by simp)
    have := ih (fun x hx => h x (by simp [hx]))
    simp only [flattenExtra, List.flatMap_cons] at this ⊢
    rw [C19_arg_verbatim e he.1 he.2, this]; simp

/-- the argument vector: input first, `-r` iff the input is a directory, then the extras, then `-o output` -/
theorem C19_argv (isDir : Bool) (input output : Str) (extra : List Str) (h : ∀ e ∈ extra, e ≠ [] ∧ ';' ∉ e) :
    genArgv isDir input output extra =
      [input] ++ (if isDir then [lit "-r"] else []) ++ extra ++ [lit "-o", output] := by
  simp [genArgv, C19_verbatim extra h]

/-- `-r` is added iff the input is a directory (when no forwarded argument is itself `-r`) -/
theorem C19_recursive (isDir : Bool) (input output : Str) (extra : List Str)
    (h : ∀ e ∈ extra, e ≠ [] ∧ ';' ∉ e) (hi : input ≠ lit "-r") (ho : output ≠ lit "-r") (he : lit "-r" ∉ extra) :
    lit "-r" ∈ genArgv isDir input output extra ↔ isDir = true := by
  rw [C19_argv isDir input output extra h]
  have hro : lit "-r" ≠ lit "-o" := by decide
  cases isDir <;> simp [he, Ne.symm hi, Ne.symm ho, hro]

/-! ### equivalence with the command line `cminx <input> -o <output> <extra…> [-r]` under `main`'s argument parser -/

/-- what every option does to the accumulator before its own effect: once input paths have been seen, their run is over -/
def optSeen (p : Parsed) : Parsed := if p.files.isEmpty then p else { p with filesDone := true }

/-! the field updates of the parser, named (so that rewriting does not depend on how `{ p with … }` elaborates) -/
def Parsed.setOutput (p : Parsed) (o : Option Str) : Parsed := { p with output := o }
def Parsed.setRecursive (p : Parsed) (r : Bool) : Parsed := { p with recursive := r }
def Parsed.setPfx (p : Parsed) (x : Option Str) : Parsed := { p with pfx := x }
def Parsed.setSettings (p : Parsed) (x : Option Str) : Parsed := { p with settings := x }
def Parsed.addExclude (p : Parsed) (v : Str) : Parsed := { p with excludes := p.excludes ++ [v] }

/-- option groups a caller forwards: `-p V`, `-e V`, `-s V` (long forms too); the values are not option-like (argparse
    refuses an option-like token as a value) -/
inductive Groups : List Str → Prop where
  | nil : Groups []
  | pfx (f v : Str) (rest : List Str) : (f = lit "-p" ∨ f = lit "--prefix") → optLike v = false → Groups rest → Groups (f :: v :: rest)
  | excl (f v : Str) (rest : List Str) : (f = lit "-e" ∨ f = lit "--exclude") → optLike v = false → Groups rest → Groups (f :: v :: rest)
  | sett (f v : Str) (rest : List Str) : (f = lit "-s" ∨ f = lit "--settings") → optLike v = false → Groups rest → Groups (f :: v :: rest)

/-- the effect of forwarded option groups on the parser's accumulator: each group first closes the run of input paths
    (`optSeen`), then sets its field -/
def applyGroups : List Str → Parsed → Parsed
  | f :: v :: rest, p =>
    if f = lit "-p" ∨ f = lit "--prefix" then applyGroups rest ((optSeen p).setPfx (some v))
    else if f = lit "-e" ∨ f = lit "--exclude" then applyGroups rest ((optSeen p).addExclude v)
    else if f = lit "-s" ∨ f = lit "--settings" then applyGroups rest ((optSeen p).setSettings (some v))
    else p
  | _, p => p

/-! `optSeen` reads `files` only and writes `filesDone` only -/

theorem optSeen_idem (p : Parsed) : optSeen (optSeen p) = optSeen p := by
  unfold optSeen; split <;> simp_all

theorem optSeen_files (p : Parsed) : (optSeen p).files = p.files := by
  unfold optSeen; split <;> rfl

theorem optSeen_setPfx (p : Parsed) (x : Option Str) : optSeen (p.setPfx x) = (optSeen p).setPfx x := by
  unfold optSeen Parsed.setPfx; split <;> rfl

theorem optSeen_setSettings (p : Parsed) (x : Option Str) : optSeen (p.setSettings x) = (optSeen p).setSettings x := by
  unfold optSeen Parsed.setSettings; split <;> rfl

theorem optSeen_addExclude (p : Parsed) (v : Str) : optSeen (p.addExclude v) = (optSeen p).addExclude v := by
  unfold optSeen Parsed.addExclude; split <;> rfl

theorem optSeen_setOutput (p : Parsed) (x : Option Str) : optSeen (p.setOutput x) = (optSeen p).setOutput x := by
  unfold optSeen Parsed.setOutput; split <;> rfl

theorem optSeen_setRecursive (p : Parsed) (x : Bool) : optSeen (p.setRecursive x) = (optSeen p).setRecursive x := by
  unfold optSeen Parsed.setRecursive; split <;> rfl

/-- after an option, a non-empty run of input paths is closed -/
theorem optSeen_filesDone (p : Parsed) (h : p.files ≠ []) : (optSeen p).filesDone = true := by
  unfold optSeen; cases hf : p.files with
  | nil => exact absurd hf h
  | cons a l => simp

/-! one step of the parser, with the literals kept folded -/

theorem parseArgv_r (rest : List Str) (p : Parsed) :
    parseArgv (lit "-r" :: rest) p = parseArgv rest ((optSeen p).setRecursive true) := by
  rw [parseArgv.eq_def]; simp only [true_or, if_true, optSeen, Parsed.setRecursive]

theorem parseArgv_o (v : Str) (hv : optLike v = false) (rest : List Str) (p : Parsed) :
    parseArgv (lit "-o" :: v :: rest) p = parseArgv rest ((optSeen p).setOutput (some v)) := by
  rw [parseArgv.eq_def]; simp +decide [hv, optSeen, Parsed.setOutput]

theorem parseArgv_pfx (f v : Str) (rest : List Str) (p : Parsed) (hf : f = lit "-p" ∨ f = lit "--prefix")
    (hv : optLike v = false) :
    parseArgv (f :: v :: rest) p = parseArgv rest ((optSeen p).setPfx (some v)) := by
  rcases hf with rfl | rfl <;> (rw [parseArgv.eq_def]; simp +decide [hv, optSeen, Parsed.setPfx])

theorem parseArgv_sett (f v : Str) (rest : List Str) (p : Parsed) (hf : f = lit "-s" ∨ f = lit "--settings")
    (hv : optLike v = false) :
    parseArgv (f :: v :: rest) p = parseArgv rest ((optSeen p).setSettings (some v)) := by
  rcases hf with rfl | rfl <;> (rw [parseArgv.eq_def]; simp +decide [hv, optSeen, Parsed.setSettings])

theorem parseArgv_excl (f v : Str) (rest : List Str) (p : Parsed) (hf : f = lit "-e" ∨ f = lit "--exclude")
    (hv : optLike v = false) :
    parseArgv (f :: v :: rest) p = parseArgv rest ((optSeen p).addExclude v) := by
  rcases hf with rfl | rfl <;> (rw [parseArgv.eq_def]; simp +decide [hv, optSeen, Parsed.addExclude])

/-- a token that is none of the parser's option strings differs from each of them -/
theorem ne_of_not_known (a : Str) (hk : knownOpts.contains a = false) :
    (a ≠ lit "-r" ∧ a ≠ lit "--recursive") ∧ (a ≠ lit "-o" ∧ a ≠ lit "--output") ∧ (a ≠ lit "-p" ∧ a ≠ lit "--prefix") ∧
    (a ≠ lit "-s" ∧ a ≠ lit "--settings") ∧ (a ≠ lit "-e" ∧ a ≠ lit "--exclude") := by
  have hi : ∀ o : Str, knownOpts.contains o = true → a ≠ o := fun o ho e => by rw [e, ho] at hk; cases hk
  exact ⟨⟨hi _ (by decide), hi _ (by decide)⟩, ⟨hi _ (by decide), hi _ (by decide)⟩, ⟨hi _ (by decide), hi _ (by decide)⟩,
    ⟨hi _ (by decide), hi _ (by decide)⟩, ⟨hi _ (by decide), hi _ (by decide)⟩⟩

/-- a token that is no option string and does not look like an option is an input path, as long as the run of input paths is open -/
theorem parseArgv_file (a : Str) (ha : dashy a = false) (hk : knownOpts.contains a = false) (rest : List Str) (p : Parsed)
    (hd : p.filesDone = false) :
    parseArgv (a :: rest) p = parseArgv rest { p with files := p.files ++ [a] } := by
  obtain ⟨⟨h1, h2⟩, ⟨h3, h4⟩, ⟨h5, h6⟩, ⟨h7, h8⟩, ⟨h9, h10⟩⟩ := ne_of_not_known a hk
  rw [parseArgv.eq_def]; simp [h1, h2, h3, h4, h5, h6, h7, h8, h9, h10, ha, hd]

/-- … and a usage error once the run is closed -/
theorem parseArgv_file_done (a : Str) (ha : dashy a = false) (hk : knownOpts.contains a = false) (rest : List Str) (p : Parsed)
    (hd : p.filesDone = true) : parseArgv (a :: rest) p = none := by
  obtain ⟨⟨h1, h2⟩, ⟨h3, h4⟩, ⟨h5, h6⟩, ⟨h7, h8⟩, ⟨h9, h10⟩⟩ := ne_of_not_known a hk
  rw [parseArgv.eq_def]; simp [h1, h2, h3, h4, h5, h6, h7, h8, h9, h10, ha, hd]

theorem applyGroups_pfx (f v : Str) (rest : List Str) (p : Parsed) (hf : f = lit "-p" ∨ f = lit "--prefix") :
    applyGroups (f :: v :: rest) p = applyGroups rest ((optSeen p).setPfx (some v)) := by
  rw [applyGroups, if_pos hf]

theorem applyGroups_excl (f v : Str) (rest : List Str) (p : Parsed) (hf : f = lit "-e" ∨ f = lit "--exclude") :
    applyGroups (f :: v :: rest) p = applyGroups rest ((optSeen p).addExclude v) := by
  rcases hf with rfl | rfl <;> (rw [applyGroups]; simp +decide)

theorem applyGroups_sett (f v : Str) (rest : List Str) (p : Parsed) (hf : f = lit "-s" ∨ f = lit "--settings") :
    applyGroups (f :: v :: rest) p = applyGroups rest ((optSeen p).setSettings (some v)) := by
  rcases hf with rfl | rfl <;> (rw [applyGroups]; simp +decide)

theorem parseArgv_groups (g : List Str) (hg : Groups g) (tail : List Str) (q : Parsed) :
    parseArgv (g ++ tail) q = parseArgv tail (applyGroups g q) := by
  induction hg generalizing q with
  | nil => simp [applyGroups]
  | pfx f v rest hf hv _ ih => rw [List.cons_append, List.cons_append, parseArgv_pfx _ _ _ _ hf hv, applyGroups_pfx _ _ _ _ hf, ih]
  | excl f v rest hf hv _ ih => rw [List.cons_append, List.cons_append, parseArgv_excl _ _ _ _ hf hv, applyGroups_excl _ _ _ _ hf, ih]
  | sett f v rest hf hv _ ih => rw [List.cons_append, List.cons_append, parseArgv_sett _ _ _ _ hf hv, applyGroups_sett _ _ _ _ hf, ih]

/-- the frame of option groups: they read `files` and write prefix / settings / excludes / `filesDone`, so they commute with
    every update `h` of the accumulator that commutes with those steps -/
theorem applyGroups_comm (h : Parsed → Parsed) (h0 : ∀ p, optSeen (h p) = h (optSeen p))
    (h1 : ∀ p x, (h p).setPfx x = h (p.setPfx x)) (h2 : ∀ p x, (h p).addExclude x = h (p.addExclude x))
    (h3 : ∀ p x, (h p).setSettings x = h (p.setSettings x)) (g : List Str) (q : Parsed) :
    applyGroups g (h q) = h (applyGroups g q) := by
  fun_induction applyGroups g q with
  | case1 f v rest p hf ih => rw [applyGroups_pfx _ _ _ _ hf, h0, h1]; exact ih
  | case2 f v rest p _ hf ih => rw [applyGroups_excl _ _ _ _ hf, h0, h2]; exact ih
  | case3 f v rest p _ _ hf ih => rw [applyGroups_sett _ _ _ _ hf, h0, h3]; exact ih
  | case4 f v rest p n1 n2 n3 => rw [applyGroups, if_neg n1, if_neg n2, if_neg n3]
  | case5 l p hl =>
    cases l with
    | nil => simp [applyGroups]
    | cons a l => cases l with
      | nil => simp [applyGroups]
      | cons b l => exact absurd rfl (hl a b l)

/-- option groups commute with setting the output directory … -/
theorem applyGroups_setOutput (g : List Str) (q : Parsed) (o : Option Str) :
    applyGroups g (q.setOutput o) = (applyGroups g q).setOutput o :=
  applyGroups_comm (·.setOutput o) (fun p => optSeen_setOutput p o) (fun _ _ => rfl) (fun _ _ => rfl) (fun _ _ => rfl) g q

/-- … with setting the recursive flag … -/
theorem applyGroups_setRecursive (g : List Str) (q : Parsed) (r : Bool) :
    applyGroups g (q.setRecursive r) = (applyGroups g q).setRecursive r :=
  applyGroups_comm (·.setRecursive r) (fun p => optSeen_setRecursive p r) (fun _ _ => rfl) (fun _ _ => rfl) (fun _ _ => rfl) g q

/-- … and with closing the run of input paths -/
theorem applyGroups_optSeen (g : List Str) (q : Parsed) : applyGroups g (optSeen q) = optSeen (applyGroups g q) :=
  applyGroups_comm optSeen (fun _ => rfl) (fun p x => (optSeen_setPfx p x).symm) (fun p x => (optSeen_addExclude p x).symm)
    (fun p x => (optSeen_setSettings p x).symm) g q

/-- option groups leave input paths, output directory and recursive flag alone -/
theorem applyGroups_fields (g : List Str) (q : Parsed) :
    (applyGroups g q).files = q.files ∧ (applyGroups g q).output = q.output ∧ (applyGroups g q).recursive = q.recursive := by
  fun_induction applyGroups g q with
  | case1 f v rest p h ih => rw [ih.1, ih.2.1, ih.2.2]; unfold optSeen Parsed.setPfx; split <;> exact ⟨rfl, rfl, rfl⟩
  | case2 f v rest p h1 h ih => rw [ih.1, ih.2.1, ih.2.2]; unfold optSeen Parsed.addExclude; split <;> exact ⟨rfl, rfl, rfl⟩
  | case3 f v rest p h1 h2 h ih => rw [ih.1, ih.2.1, ih.2.2]; unfold optSeen Parsed.setSettings; split <;> exact ⟨rfl, rfl, rfl⟩
  | case4 f v rest p h1 h2 h3 => exact ⟨rfl, rfl, rfl⟩
  | case5 l p hl => exact ⟨rfl, rfl, rfl⟩

/-- an option-like token after `-o` is a usage error, whatever precedes and follows -/
theorem parseArgv_o_none (v : Str) (hv : optLike v = true) (rest : List Str) (p : Parsed) :
    parseArgv (lit "-o" :: v :: rest) p = none := by
  rw [parseArgv.eq_def]; simp +decide [hv]

/-- `C19_equiv` when `output` can be the value of `-o`: both command lines reach the end with the same accumulator -/
theorem C19_equiv_value (isDir : Bool) (input output : Str) (extra : List Str)
    (hg : Groups extra) (hv : ∀ e ∈ extra, e ≠ [] ∧ ';' ∉ e)
    (hin : dashy input = false) (hink : knownOpts.contains input = false) (hout : optLike output = false) :
    parseArgv (genArgv isDir input output extra) {} =
      parseArgv ([input, lit "-o", output] ++ extra ++ (if isDir then [lit "-r"] else [])) {} := by
  rw [C19_argv isDir input output extra hv]
  have hfile := fun rest => parseArgv_file input hin hink rest {} rfl
  have hgr := parseArgv_groups extra hg
  cases isDir
  · simp only [Bool.false_eq_true, if_false, List.append_nil, List.cons_append, List.nil_append]
    have e2 := hgr []
    simp only [List.append_nil] at e2
    rw [hfile, hfile, hgr, parseArgv_o _ hout, parseArgv_o _ hout, e2, applyGroups_setOutput, applyGroups_optSeen]
  · simp only [if_true, List.cons_append, List.nil_append]
    rw [hfile, hfile, parseArgv_r, hgr, parseArgv_o _ hout, parseArgv_o _ hout, hgr, parseArgv_r,
        applyGroups_setRecursive, applyGroups_setOutput, optSeen_setRecursive, optSeen_setOutput]
    rfl

/-- the invocation CMake builds and the documented command line `cminx <input> -o <output> <extra…> [-r]` are parsed to
    the same result by `main`'s argument parser, for an `input` that is a positional (no option string, not option-like).
    When `output` cannot be the value of `-o` (it is option-like) both command lines are the same usage error -/
theorem C19_equiv (isDir : Bool) (input output : Str) (extra : List Str)
    (hg : Groups extra) (hv : ∀ e ∈ extra, e ≠ [] ∧ ';' ∉ e)
    (hin : dashy input = false) (hink : knownOpts.contains input = false) :
    parseArgv (genArgv isDir input output extra) {} =
      parseArgv ([input, lit "-o", output] ++ extra ++ (if isDir then [lit "-r"] else [])) {} := by
  cases hout : optLike output with
  | false => exact C19_equiv_value isDir input output extra hg hv hin hink hout
  | true =>
    rw [C19_argv isDir input output extra hv]
    have hfile := fun rest => parseArgv_file input hin hink rest {} rfl
    have hgr := parseArgv_groups extra hg
    cases isDir
    · simp only [Bool.false_eq_true, if_false, List.append_nil, List.cons_append, List.nil_append]
      rw [hfile, hfile, hgr, parseArgv_o_none _ hout, parseArgv_o_none _ hout]
    · simp only [if_true, List.cons_append, List.nil_append]
      rw [hfile, hfile, parseArgv_r, hgr, parseArgv_o_none _ hout, parseArgv_o_none _ hout]

/-- with an `output` that can be the value of `-o`, the common result is a success: the command line is accepted -/
theorem C19_equiv_accepted (isDir : Bool) (input output : Str) (extra : List Str)
    (hg : Groups extra) (hv : ∀ e ∈ extra, e ≠ [] ∧ ';' ∉ e)
    (hin : dashy input = false) (hink : knownOpts.contains input = false) (hout : optLike output = false) :
    (parseArgv (genArgv isDir input output extra) {}).isSome = true := by
  rw [C19_equiv isDir input output extra hg hv hin hink]
  have hfile := fun rest => parseArgv_file input hin hink rest {} rfl
  have hgr := parseArgv_groups extra hg
  have hfiles : ∀ q : Parsed, q.files ≠ [] → (parseArgv [] q).isSome = true := by
    intro q hq; rw [parseArgv.eq_def]; cases hf : q.files with
    | nil => exact absurd hf hq
    | cons a l => simp [hf]
  cases isDir
  · simp only [Bool.false_eq_true, if_false, List.append_nil, List.cons_append, List.nil_append]
    have e2 := hgr []
    simp only [List.append_nil] at e2
    rw [hfile, parseArgv_o _ hout, e2]
    apply hfiles; rw [(applyGroups_fields _ _).1]
    simp [Parsed.setOutput, optSeen_files]
  · simp only [if_true, List.cons_append, List.nil_append]
    rw [hfile, parseArgv_o _ hout, hgr, parseArgv_r]
    apply hfiles
    simp [Parsed.setRecursive, Parsed.setOutput, optSeen_files, (applyGroups_fields _ _).1]

/-- an extra argument that is itself a positional — a second input path handed to `cminx_gen_rst` of a *directory* — makes the
    generated command line a usage error: `-r` stands between the two input paths, and `files` is one contiguous run -/
theorem C19_positional_extra_rejected (input output e : Str) (rest : List Str)
    (hin : dashy input = false) (hink : knownOpts.contains input = false)
    (he : dashy e = false) (hek : knownOpts.contains e = false) (hne : e ≠ []) (hs : ';' ∉ e) :
    parseArgv (genArgv true input output (e :: rest)) {} = none := by
  simp only [genArgv, flattenExtra, List.flatMap_cons, C19_arg_verbatim e hne hs, if_true, List.cons_append, List.nil_append]
  rw [parseArgv_file input hin hink _ {} rfl, parseArgv_r]
  exact parseArgv_file_done e he hek _ _ (optSeen_filesDone _ (by simp))

/-- the counterpart for an input *file*: nothing stands between `input` and the extra, which becomes a second input path -/
theorem C19_positional_extra_second_input (input output e : Str) (rest : List Str)
    (hin : dashy input = false) (hink : knownOpts.contains input = false)
    (he : dashy e = false) (hek : knownOpts.contains e = false) (hne : e ≠ []) (hs : ';' ∉ e) :
    parseArgv (genArgv false input output (e :: rest)) {} =
      parseArgv (flattenExtra rest ++ [lit "-o", output]) { files := [input, e] } := by
  simp only [genArgv, flattenExtra, List.flatMap_cons, C19_arg_verbatim e hne hs, Bool.false_eq_true, if_false, List.cons_append,
    List.nil_append, List.append_nil]
  rw [parseArgv_file input hin hink _ {} rfl, parseArgv_file e he hek _ _ rfl]
  rfl

/-- `COMMAND_ERROR_IS_FATAL ANY`: a failing CMinx run makes the CMake call fail -/
theorem C19_fatal (status : Int) : cmakeFails status = true ↔ status ≠ 0 := by simp [cmakeFails]

/-- known finding K5: an argument containing `;` is split, an empty argument is dropped -/
theorem C19_K5_counterexample :
    flattenExtra [lit "-e", lit "a;b", lit "-e", []] = [lit "-e", lit "a", lit "b", lit "-e"] := by decide

/-! non-vacuity -/
example : Groups [lit "-p", lit "PFX", lit "-e", lit "sub/", lit "--settings", lit "s.yaml"] :=
  .pfx _ _ _ (Or.inl rfl) (by decide) (.excl _ _ _ (Or.inl rfl) (by decide) (.sett _ _ _ (Or.inr rfl) (by decide) .nil))
example : genArgv true (lit "/src/dir") (lit "/out") [lit "-p", lit "PFX"] =
    [lit "/src/dir", lit "-r", lit "-p", lit "PFX", lit "-o", lit "/out"] := by decide
example : parseArgv (genArgv true (lit "/src/dir") (lit "/out") [lit "-p", lit "PFX", lit "-e", lit "x"]) {} =
    some { files := [lit "/src/dir"], output := some (lit "/out"), recursive := true, pfx := some (lit "PFX"), excludes := [lit "x"],
           filesDone := true } := by decide +kernel
/-! a second input path as extra: refused for a directory, accepted (as a second input path) for a file -/
example : parseArgv (genArgv true (lit "/src/dir") (lit "/out") [lit "/src/other"]) {} = none := by decide +kernel
example : parseArgv (genArgv false (lit "a.cmake") (lit "/out") [lit "b.cmake"]) {} =
    some { files := [lit "a.cmake", lit "b.cmake"], output := some (lit "/out"), filesDone := true } := by decide +kernel
/-! K5 under the corrected parser: the split value `a;b` leaves `b` as a positional after an option — a usage error -/
example : parseArgv (genArgv false (lit "in") (lit "/out") [lit "-e", lit "a;b"]) {} = none := by decide +kernel
/-! the hypotheses of `C19_equiv` / `C19_equiv_accepted` on `input` and `output` hold for ordinary paths, and also for `-` and `-1` -/
example : dashy (lit "/src/dir") = false ∧ knownOpts.contains (lit "/src/dir") = false ∧ optLike (lit "/out") = false := by decide
example : dashy (lit "-") = false ∧ dashy (lit "-1") = false ∧ optLike [] = false := by decide

end Cminx
