import CminxModel.CMakeWrap
/-!
# C19 — `cminx_gen_rst()` is equivalent to the command line

About `CMakeWrap.lean`.  **Partial by nature**: CMake's evaluation of the function body and `execute_process`
are trusted; the tie is `harness/s_cmake.py`, which drives the real `cmake -P` with `CMINX_EXECUTABLE` bound to an
argv recorder (compared with `genArgv`), to the working-tree CMinx (output tree compared with a direct run) and to a
failing child.
-/
namespace Cminx

theorem splitSemiAux_noSemi (s cur : Str) (h : ';' ∉ s) :
    splitSemiAux s cur = if (cur.reverse ++ s).isEmpty then [] else [cur.reverse ++ s] := by
  induction s generalizing cur with
  | nil => simp [splitSemiAux]
  | cons c cs ih =>
    have hc : c ≠ ';' := by intro hc; apply h; simp [hc]
    have hcs : ';' ∉ cs := by intro hm; apply h; simp [hm]
    simp only [splitSemiAux, hc, if_false]
    rw [ih (c :: cur) hcs]
    simp

/-- an argument without `;` that is not empty survives CMake's list expansion unchanged -/
theorem C19_arg_verbatim (e : Str) (hne : e ≠ []) (hs : ';' ∉ e) : splitSemi e = [e] := by
  unfold splitSemi
  rw [splitSemiAux_noSemi e [] hs]
  cases e with
  | nil => exact absurd rfl hne
  | cons c cs => simp

/-- extra arguments are forwarded verbatim: same arguments, same order, same boundaries -/
theorem C19_verbatim (extra : List Str) (h : ∀ e ∈ extra, e ≠ [] ∧ ';' ∉ e) : flattenExtra extra = extra := by
  induction extra with
  | nil => simp [flattenExtra]
  | cons e es ih =>
    have he := h e (by simp)
    have := ih (fun x hx => h x (by simp [hx]))
    simp only [flattenExtra, List.flatMap_cons] at this ⊢
    rw [C19_arg_verbatim e he.1 he.2, this]; simp

/-- the argument vector: input first, `-r` iff the input is a directory, then the extras, then `-o output` -/
theorem C19_argv (isDir : Bool) (input output : Str) (extra : List Str) (h : ∀ e ∈ extra, e ≠ [] ∧ ';' ∉ e) :
    genArgv isDir input output extra =
      [input] ++ (if isDir then [lit "-r"] else []) ++ extra ++ [lit "-o", output] := by
  simp [genArgv, C19_verbatim extra h]

/-- `-r` is added iff the input is a directory (when no forwarded argument is itself `-r`) -/
theorem C19_recursive (isDir : Bool) (input output : Str) (extra : List Str)
    (h : ∀ e ∈ extra, e ≠ [] ∧ ';' ∉ e) (hi : input ≠ lit "-r") (ho : output ≠ lit "-r") (he : lit "-r" ∉ extra) :
    lit "-r" ∈ genArgv isDir input output extra ↔ isDir = true := by
  rw [C19_argv isDir input output extra h]
  have hro : lit "-r" ≠ lit "-o" := by decide
  cases isDir <;> simp [he, Ne.symm hi, Ne.symm ho, hro]

/-! ### equivalence with the command line `cminx <input> -o <output> <extra…> [-r]` under `main`'s argument parser -/

/-- option groups a caller forwards: `-p V`, `-e V`, `-s V` (long forms too); values do not look like options -/
inductive Groups : List Str → Prop where
  | nil : Groups []
  | pfx (f v : Str) (rest : List Str) : (f = lit "-p" ∨ f = lit "--prefix") → Groups rest → Groups (f :: v :: rest)
  | excl (f v : Str) (rest : List Str) : (f = lit "-e" ∨ f = lit "--exclude") → Groups rest → Groups (f :: v :: rest)
  | sett (f v : Str) (rest : List Str) : (f = lit "-s" ∨ f = lit "--settings") → Groups rest → Groups (f :: v :: rest)

/-- the effect of forwarded option groups on the parser's accumulator -/
def applyGroups : List Str → Parsed → Parsed
  | f :: v :: rest, p =>
    if f = lit "-p" ∨ f = lit "--prefix" then applyGroups rest { p with pfx := some v }
    else if f = lit "-e" ∨ f = lit "--exclude" then applyGroups rest { p with excludes := p.excludes ++ [v] }
    else if f = lit "-s" ∨ f = lit "--settings" then applyGroups rest { p with settings := some v }
    else p
  | _, p => p

/-! one step of the parser, with the literals kept folded -/

theorem parseArgv_r (rest : List Str) (p : Parsed) :
    parseArgv (lit "-r" :: rest) p = parseArgv rest { p with recursive := true } := by
  rw [parseArgv.eq_def]; simp

theorem parseArgv_o (v : Str) (rest : List Str) (p : Parsed) :
    parseArgv (lit "-o" :: v :: rest) p = parseArgv rest { p with output := some v } := by
  rw [parseArgv.eq_def]; simp +decide

theorem parseArgv_pfx (f v : Str) (rest : List Str) (p : Parsed) (hf : f = lit "-p" ∨ f = lit "--prefix") :
    parseArgv (f :: v :: rest) p = parseArgv rest { p with pfx := some v } := by
  rcases hf with rfl | rfl <;> (rw [parseArgv.eq_def]; simp +decide)

theorem parseArgv_sett (f v : Str) (rest : List Str) (p : Parsed) (hf : f = lit "-s" ∨ f = lit "--settings") :
    parseArgv (f :: v :: rest) p = parseArgv rest { p with settings := some v } := by
  rcases hf with rfl | rfl <;> (rw [parseArgv.eq_def]; simp +decide)

theorem parseArgv_excl (f v : Str) (rest : List Str) (p : Parsed) (hf : f = lit "-e" ∨ f = lit "--exclude") :
    parseArgv (f :: v :: rest) p = parseArgv rest { p with excludes := p.excludes ++ [v] } := by
  rcases hf with rfl | rfl <;> (rw [parseArgv.eq_def]; simp +decide)

/-- an argument that does not look like an option is a positional (file) argument -/
theorem parseArgv_file (a : Str) (h : ¬ (a.head? = some '-' ∧ a.length > 1)) (rest : List Str) (p : Parsed) :
    parseArgv (a :: rest) p = parseArgv rest { p with files := p.files ++ [a] } := by
  have hi : ∀ o : Str, (o.head? = some '-' ∧ o.length > 1) → a ≠ o := fun o ho e => h (e ▸ ho)
  have h1 := hi (lit "-r") (by decide); have h2 := hi (lit "--recursive") (by decide)
  have h3 := hi (lit "-o") (by decide); have h4 := hi (lit "--output") (by decide)
  have h5 := hi (lit "-p") (by decide); have h6 := hi (lit "--prefix") (by decide)
  have h7 := hi (lit "-s") (by decide); have h8 := hi (lit "--settings") (by decide)
  have h9 := hi (lit "-e") (by decide); have h10 := hi (lit "--exclude") (by decide)
  rw [parseArgv.eq_def]; simp only [h1, h2, h3, h4, h5, h6, h7, h8, h9, h10, h, or_self, if_false]

theorem applyGroups_pfx (f v : Str) (rest : List Str) (p : Parsed) (hf : f = lit "-p" ∨ f = lit "--prefix") :
    applyGroups (f :: v :: rest) p = applyGroups rest { p with pfx := some v } := by
  rw [applyGroups, if_pos hf]

theorem applyGroups_excl (f v : Str) (rest : List Str) (p : Parsed) (hf : f = lit "-e" ∨ f = lit "--exclude") :
    applyGroups (f :: v :: rest) p = applyGroups rest { p with excludes := p.excludes ++ [v] } := by
  rcases hf with rfl | rfl <;> (rw [applyGroups]; simp +decide)

theorem applyGroups_sett (f v : Str) (rest : List Str) (p : Parsed) (hf : f = lit "-s" ∨ f = lit "--settings") :
    applyGroups (f :: v :: rest) p = applyGroups rest { p with settings := some v } := by
  rcases hf with rfl | rfl <;> (rw [applyGroups]; simp +decide)

theorem parseArgv_groups (g : List Str) (hg : Groups g) (tail : List Str) (q : Parsed) :
    parseArgv (g ++ tail) q = parseArgv tail (applyGroups g q) := by
  induction hg generalizing q with
  | nil => simp [applyGroups]
  | pfx f v rest hf _ ih => rw [List.cons_append, List.cons_append, parseArgv_pfx _ _ _ _ hf, applyGroups_pfx _ _ _ _ hf, ih]
  | excl f v rest hf _ ih => rw [List.cons_append, List.cons_append, parseArgv_excl _ _ _ _ hf, applyGroups_excl _ _ _ _ hf, ih]
  | sett f v rest hf _ ih => rw [List.cons_append, List.cons_append, parseArgv_sett _ _ _ _ hf, applyGroups_sett _ _ _ _ hf, ih]

/-- option groups touch only prefix / settings / excludes, so they commute with setting the other fields -/
theorem applyGroups_frame (g : List Str) (q : Parsed) (fs : List Str) (o : Option Str) (r : Bool) :
    applyGroups g { q with files := fs, output := o, recursive := r } =
      { applyGroups g q with files := fs, output := o, recursive := r } := by
  fun_induction applyGroups g q with
  | case1 f v rest p h ih => rw [applyGroups, if_pos h]; exact ih
  | case2 f v rest p h1 h ih => rw [applyGroups, if_neg h1, if_pos h]; exact ih
  | case3 f v rest p h1 h2 h ih => rw [applyGroups, if_neg h1, if_neg h2, if_pos h]; exact ih
  | case4 f v rest p h1 h2 h3 => rw [applyGroups, if_neg h1, if_neg h2, if_neg h3]
  | case5 l p hl =>
    cases l with
    | nil => simp [applyGroups]
    | cons a l => cases l with
      | nil => simp [applyGroups]
      | cons b l => exact absurd rfl (hl a b l)

theorem applyGroups_fields (g : List Str) (q : Parsed) :
    (applyGroups g q).files = q.files ∧ (applyGroups g q).output = q.output ∧ (applyGroups g q).recursive = q.recursive := by
  have := applyGroups_frame g q q.files q.output q.recursive
  have e : ({ q with files := q.files, output := q.output, recursive := q.recursive } : Parsed) = q := by cases q; rfl
  rw [e] at this
  refine ⟨?_, ?_, ?_⟩ <;> (rw [this])

/-- the invocation CMake builds and the documented command line `cminx <input> -o <output> <extra…> [-r]` are parsed to
    the same result by `main`'s argument parser -/
theorem C19_equiv (isDir : Bool) (input output : Str) (extra : List Str)
    (hg : Groups extra) (hv : ∀ e ∈ extra, e ≠ [] ∧ ';' ∉ e)
    (hin : ¬ (input.head? = some '-' ∧ input.length > 1)) :
    parseArgv (genArgv isDir input output extra) {} =
      parseArgv ([input, lit "-o", output] ++ extra ++ (if isDir then [lit "-r"] else [])) {} := by
  rw [C19_argv isDir input output extra hv]
  cases isDir
  · simp only [Bool.false_eq_true, if_false, List.append_nil, List.cons_append, List.nil_append]
    rw [parseArgv_file input hin, parseArgv_file input hin, parseArgv_groups extra hg, parseArgv_o, parseArgv_o]
    have e2 := parseArgv_groups extra hg [] ({ files := [] ++ [input], output := some output } : Parsed)
    rw [List.append_nil] at e2; rw [e2]
    rw [applyGroups_frame extra {} ([] ++ [input]) none false,
        applyGroups_frame extra {} ([] ++ [input]) (some output) false]
  · simp only [if_true, List.cons_append, List.nil_append]
    rw [parseArgv_file input hin, parseArgv_file input hin, parseArgv_r, parseArgv_groups extra hg, parseArgv_o,
        parseArgv_o, parseArgv_groups extra hg, parseArgv_r]
    rw [applyGroups_frame extra {} ([] ++ [input]) none true,
        applyGroups_frame extra {} ([] ++ [input]) (some output) false]

/-- `COMMAND_ERROR_IS_FATAL ANY`: a failing CMinx run makes the CMake call fail -/
theorem C19_fatal (status : Int) : cmakeFails status = true ↔ status ≠ 0 := by simp [cmakeFails]

/-- known finding K5: an argument containing `;` is split, an empty argument is dropped -/
theorem C19_K5_counterexample :
    flattenExtra [lit "-e", lit "a;b", lit "-e", []] = [lit "-e", lit "a", lit "b", lit "-e"] := by decide

/-! non-vacuity -/
example : Groups [lit "-p", lit "PFX", lit "-e", lit "sub/", lit "--settings", lit "s.yaml"] :=
  .pfx _ _ _ (Or.inl rfl) (.excl _ _ _ (Or.inl rfl) (.sett _ _ _ (Or.inr rfl) .nil))
example : genArgv true (lit "/src/dir") (lit "/out") [lit "-p", lit "PFX"] =
    [lit "/src/dir", lit "-r", lit "-p", lit "PFX", lit "-o", lit "/out"] := by decide
example : parseArgv (genArgv true (lit "/src/dir") (lit "/out") [lit "-p", lit "PFX", lit "-e", lit "x"]) {} =
    some { files := [lit "/src/dir"], output := some (lit "/out"), recursive := true, pfx := some (lit "PFX"), excludes := [lit "x"] } := by decide

end Cminx
