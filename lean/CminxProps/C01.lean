import CminxModel.Clean
import CminxModel.Source
import CminxModel.Rst
import CminxLemmas.CleanLemmas
/-!
# C01 — doccomment text reaches the output verbatim (cleaning and paragraph rendering)

`cleanDoc` is the model of `DocumentationAggregator.clean_doc_lines(token_text.split("\n"))`,
`moduleNameDoc` of the `@module` name/doc split in `enterDocumented_module`, `renderPara` of
`Paragraph.build_text_string`.  A doccomment is a `DocC` (`CminxModel/Source.lean`); its token text starts at
`#[[[`, every body line is `ind # text` (bare `ind #` for an empty text), the closing line is `ind #]]`.

Only property theorems, their spec-side definitions and non-vacuity examples live here; the proofs are in
`CminxLemmas/CleanLemmas.lean` and `CminxLemmas/StrLemmasClean.lean`.
-/
namespace Cminx

namespace C01

/-- the block's indentation is any run of spaces and tabs -/
def IndOk (ind : Str) : Prop := ∀ c ∈ ind, c = ' ' ∨ c = '\t'

/-- the line contains no line break -/
def NoNl (l : Str) : Prop := '\n' ∉ l

/-- the line is non-empty and its first character is an ASCII letter -/
def StartsAlpha (l : Str) : Prop := ∃ c cs, l = c :: cs ∧ c.isAlpha = true

end C01

open C01

/-! ## 1. canonical doccomments: every line comes back verbatim, in order -/

/-- Cleaning a canonical doccomment yields exactly its body line texts, in order, each unchanged, followed by
the empty line that the closing `#]]` leaves.  No hypothesis on the line contents except "no `'\n'`". -/
theorem C01_clean_canonical (d : DocC) (hl : d.leader = true) (hc : d.crlf = false)
    (hs : d.openSuffix = []) (hi : IndOk d.ind) (hn : ∀ t ∈ d.lines, NoNl t) :
    cleanDoc d.tokenText = joinNl (d.lines ++ [[]]) := by
  rw [cleanDoc_tokenText_leader d hl hi (by simp [hs]) hn]
  simp only [hs, hc, eolCr, Bool.false_eq_true, if_false, List.append_nil, List.map_id']
  exact stripLeadNl_joinNl_nil_cons d.lines

/-- the same, line by line -/
theorem C01_clean_lines (d : DocC) (hl : d.leader = true) (hc : d.crlf = false)
    (hs : d.openSuffix = []) (hi : IndOk d.ind) (hn : ∀ t ∈ d.lines, NoNl t) :
    splitNl (cleanDoc d.tokenText) = d.lines ++ [[]] := by
  rw [C01_clean_canonical d hl hc hs hi hn]
  apply splitNl_joinNl (by simp)
  intro l hm
  rcases List.mem_append.mp hm with hm | hm
  · exact hn l hm
  · simp at hm; simp [hm]

/-! ## 2. the block's indentation does not matter -/

/-- two canonical doccomments with the same body lines clean to the same text whatever their indentation -/
theorem C01_clean_indent_independent (d₁ d₂ : DocC) (hlines : d₁.lines = d₂.lines)
    (hl₁ : d₁.leader = true) (hc₁ : d₁.crlf = false) (hs₁ : d₁.openSuffix = []) (hi₁ : IndOk d₁.ind)
    (hl₂ : d₂.leader = true) (hc₂ : d₂.crlf = false) (hs₂ : d₂.openSuffix = []) (hi₂ : IndOk d₂.ind)
    (hn : ∀ t ∈ d₁.lines, NoNl t) :
    cleanDoc d₁.tokenText = cleanDoc d₂.tokenText := by
  rw [C01_clean_canonical d₁ hl₁ hc₁ hs₁ hi₁ hn,
    C01_clean_canonical d₂ hl₂ hc₂ hs₂ hi₂ (hlines ▸ hn), hlines]

/-- re-indenting a canonical doccomment does not change the cleaned text -/
theorem C01_clean_reindent (d : DocC) (ind' : Str) (hl : d.leader = true) (hc : d.crlf = false)
    (hs : d.openSuffix = []) (hi : IndOk d.ind) (hi' : IndOk ind') (hn : ∀ t ∈ d.lines, NoNl t) :
    cleanDoc { d with ind := ind' }.tokenText = cleanDoc d.tokenText :=
  C01_clean_indent_independent { d with ind := ind' } d rfl hl hc hs hi' hl hc hs hi hn

/-! ## 3. doccomments written without leaders -/

/-- unindented block, no `#` leaders, every line starts with an ASCII letter -/
theorem C01_clean_leaderless (d : DocC) (hl : d.leader = false) (hi : d.ind = []) (hc : d.crlf = false)
    (hs : d.openSuffix = []) (hn : ∀ t ∈ d.lines, NoNl t) (ha : ∀ t ∈ d.lines, StartsAlpha t) :
    cleanDoc d.tokenText = joinNl (d.lines ++ [[]]) := by
  rw [cleanDoc_tokenText_leaderless d hl hi hc (by simp [hs]) hn ha]
  simp only [hs, lstripSet, List.dropWhile_nil, dropOneSpace]
  exact stripLeadNl_joinNl_nil_cons d.lines

/-! ## 4. the module doccomment -/

/-- cleaned text of `#[[[<blanks>@module<rest>`: first line is the opening line without `#[[[` and without
one leading space, then the body lines verbatim, then the empty line of the closing delimiter -/
theorem C01_module_clean (d : DocC) (sp rest : Str) (hl : d.leader = true) (hc : d.crlf = false)
    (hi : IndOk d.ind) (ho : d.openSuffix = sp ++ lit "@module" ++ rest) (hsp : IndOk sp)
    (hr : NoNl rest) (hn : ∀ t ∈ d.lines, NoNl t) :
    cleanDoc d.tokenText = joinNl (dropOneSpace (sp ++ lit "@module" ++ rest) :: d.lines ++ [[]]) := by
  have := (moduleNameDoc_tokenText d sp rest hl hi ho hsp hr hn).1
  simpa [hc, eolCr] using this

/-- Name and doc of a module doccomment, for any blanks `sp` before `@module` and any `rest` without a line
break (no other side condition): the name is `rest` with every further `@module` removed, stripped; the doc
is the body lines verbatim. -/
theorem C01_module_doc (d : DocC) (sp rest : Str) (hl : d.leader = true) (hc : d.crlf = false)
    (hi : IndOk d.ind) (ho : d.openSuffix = sp ++ lit "@module" ++ rest) (hsp : IndOk sp)
    (hr : NoNl rest) (hn : ∀ t ∈ d.lines, NoNl t) :
    moduleNameDoc d.tokenText =
      (stripWs (replaceAll (lit "@module") [] rest), joinNl (d.lines ++ [[]])) := by
  have := (moduleNameDoc_tokenText d sp rest hl hi ho hsp hr hn).2
  simpa [hc, eolCr] using this

/-- when `rest` does not contain `@module` again, the name is `rest.strip()` -/
theorem C01_module_doc_name (d : DocC) (sp rest : Str) (hl : d.leader = true) (hc : d.crlf = false)
    (hi : IndOk d.ind) (ho : d.openSuffix = sp ++ lit "@module" ++ rest) (hsp : IndOk sp)
    (hr : NoNl rest) (hm : isInfix (lit "@module") rest = false) (hn : ∀ t ∈ d.lines, NoNl t) :
    moduleNameDoc d.tokenText = (stripWs rest, joinNl (d.lines ++ [[]])) := by
  rw [C01_module_doc d sp rest hl hc hi ho hsp hr hn,
    replaceAll_of_not_infix _ _ _ litModule_ne_nil hm]

/-- with exactly one space before `@module` the first cleaned line is `@module<rest>` -/
theorem C01_module_first_line (d : DocC) (rest : Str) (hl : d.leader = true) (hc : d.crlf = false)
    (hi : IndOk d.ind) (ho : d.openSuffix = [' '] ++ lit "@module" ++ rest)
    (hr : NoNl rest) (hn : ∀ t ∈ d.lines, NoNl t) :
    splitNl (cleanDoc d.tokenText) = (lit "@module" ++ rest) :: d.lines ++ [[]] := by
  have hsp : IndOk [' '] := by intro c h; simp at h; simp [h]
  rw [C01_module_clean d [' '] rest hl hc hi ho hsp hr hn]
  have hm : '\n' ∉ lit "@module" := by rw [litModule_eq]; decide
  have : dropOneSpace ([' '] ++ lit "@module" ++ rest) = lit "@module" ++ rest := rfl
  rw [this]
  apply splitNl_joinNl (by simp)
  intro l hmem
  simp only [List.cons_append, List.mem_cons, List.mem_append, List.not_mem_nil, or_false] at hmem
  rcases hmem with rfl | hmem | rfl
  · simp [hm]; exact hr
  · exact hn l hmem
  · simp

/-- module doccomment with CRLF line ends: the `'\r'` stays at the end of every doc line; the one on the
opening line is stripped from the name together with the other surrounding whitespace -/
theorem C01_module_doc_crlf (d : DocC) (sp rest : Str) (hl : d.leader = true) (hc : d.crlf = true)
    (hi : IndOk d.ind) (ho : d.openSuffix = sp ++ lit "@module" ++ rest) (hsp : IndOk sp)
    (hr : NoNl rest) (hn : ∀ t ∈ d.lines, NoNl t) :
    moduleNameDoc d.tokenText =
      (stripWs (replaceAll (lit "@module") [] (rest ++ ['\r'])),
        joinNl (d.lines.map (· ++ ['\r']) ++ [[]])) := by
  have := (moduleNameDoc_tokenText d sp rest hl hi ho hsp hr hn).2
  simpa [hc, eolCr] using this

/-! ## 5. paragraph rendering keeps every line -/

/-- `Paragraph`: the rendered text has the same lines as the doc, in order, each prefixed by the indentation
of the enclosing directive -/
theorem C01_paragraph_lines (k : Nat) (doc : Str) :
    splitNl (renderPara k doc) = (splitNl doc).map (indent k ++ ·) := by
  unfold renderPara
  apply splitNl_joinNl
  · simp [splitNl_ne_nil]
  · intro l hl
    obtain ⟨x, hx, rfl⟩ := List.mem_map.mp hl
    simp [indent_noNl k, splitNl_all_noNl doc x hx]

/-- the doc block of an item with a canonical doccomment: the body lines, in order, each behind the
directive's indentation, then the (indented) empty line -/
theorem C01_doc_block (k : Nat) (d : DocC) (hl : d.leader = true) (hc : d.crlf = false)
    (hs : d.openSuffix = []) (hi : IndOk d.ind) (hn : ∀ t ∈ d.lines, NoNl t) :
    splitNl (renderPara k (cleanDoc d.tokenText)) = (d.lines ++ [[]]).map (indent k ++ ·) := by
  rw [C01_paragraph_lines, C01_clean_lines d hl hc hs hi hn]

/-! ## 6. CRLF line ends -/

/-- With `\r\n` line ends the `'\r'` of every line survives cleaning: the opening line leaves `"\r"` (so no
leading newline is removed), every body line comes back as `text ++ "\r"`, the closing line leaves `""`.
Lines may themselves contain `'\r'`; only `'\n'` is excluded. -/
theorem C01_clean_crlf (d : DocC) (hl : d.leader = true) (hc : d.crlf = true)
    (hs : d.openSuffix = []) (hi : IndOk d.ind) (hn : ∀ t ∈ d.lines, NoNl t) :
    cleanDoc d.tokenText = joinNl (['\r'] :: (d.lines.map (· ++ ['\r'])) ++ [[]]) := by
  rw [cleanDoc_tokenText_leader d hl hi (by simp [hs]) hn]
  simp only [hs, hc, eolCr, if_true, List.nil_append]
  have : dropOneSpace (lstripSet ['#', '[', ']'] ['\r']) = ['\r'] := by
    simp [lstripSet, dropOneSpace]
  rw [this, List.cons_append, joinNl_cons _ (by simp)]
  exact stripLeadNl_of_head '\r' _ (by decide)

/-! ## non-vacuity: every hypothesis set is satisfied by a non-trivial doccomment -/

namespace C01

/-- lines starting with `#`, `[`, `]`, `:`, `..`, spaces; an empty line; non-ASCII text; a line that is only
delimiters; indentation mixing tab and spaces -/
def exDoc : DocC :=
  { pre := [], ind := " \t  ".toList, openSuffix := [],
    lines := ["#x".toList, "[y] z".toList, "  indented".toList, [], "héllo ✓ — λ".toList, ": a".toList,
      ".. note::".toList, "]]#".toList, " ".toList],
    leader := true, crlf := false }

theorem exDoc_ind : IndOk exDoc.ind := by
  intro c hc
  simp [exDoc] at hc
  rcases hc with rfl | rfl | rfl <;> simp

theorem exDoc_lines : ∀ t ∈ exDoc.lines, NoNl t := by
  intro t ht
  simp [exDoc] at ht
  rcases ht with rfl | rfl | rfl | rfl | rfl | rfl | rfl | rfl | rfl <;> simp [NoNl]

example : cleanDoc exDoc.tokenText = joinNl (exDoc.lines ++ [[]]) :=
  C01_clean_canonical exDoc rfl rfl rfl exDoc_ind exDoc_lines

example : String.ofList (cleanDoc exDoc.tokenText) =
    "#x\n[y] z\n  indented\n\nhéllo ✓ — λ\n: a\n.. note::\n]]#\n \n" := by
  rw [C01_clean_canonical exDoc rfl rfl rfl exDoc_ind exDoc_lines]; decide

example : splitNl (cleanDoc exDoc.tokenText) = exDoc.lines ++ [[]] :=
  C01_clean_lines exDoc rfl rfl rfl exDoc_ind exDoc_lines

example : cleanDoc { exDoc with ind := [] }.tokenText = cleanDoc exDoc.tokenText :=
  C01_clean_reindent exDoc [] rfl rfl rfl exDoc_ind (by intro c h; simp at h) exDoc_lines

example : cleanDoc { exDoc with ind := ['\t'] }.tokenText = cleanDoc exDoc.tokenText :=
  C01_clean_indent_independent { exDoc with ind := ['\t'] } exDoc rfl rfl rfl rfl
    (by intro c h; simp at h; simp [h]) rfl rfl rfl exDoc_ind exDoc_lines

example : splitNl (renderPara 2 (cleanDoc exDoc.tokenText)) = (exDoc.lines ++ [[]]).map (indent 2 ++ ·) :=
  C01_doc_block 2 exDoc rfl rfl rfl exDoc_ind exDoc_lines

example : splitNl (renderPara 1 "a\n\n  b".toList) = ["   a".toList, "   ".toList, "     b".toList] := by
  rw [C01_paragraph_lines]; decide

example : cleanDoc { exDoc with crlf := true }.tokenText =
    joinNl (['\r'] :: (exDoc.lines.map (· ++ ['\r'])) ++ [[]]) :=
  C01_clean_crlf { exDoc with crlf := true } rfl rfl rfl exDoc_ind exDoc_lines

/-- leaderless doccomment -/
def exBare : DocC :=
  { pre := [], ind := [], openSuffix := [],
    lines := ["Adds two numbers.".toList, "Z [x] #]".toList, "a  é ✓".toList],
    leader := false, crlf := false }

example : cleanDoc exBare.tokenText = joinNl (exBare.lines ++ [[]]) :=
  C01_clean_leaderless exBare rfl rfl rfl rfl
    (by intro t ht; simp [exBare] at ht; rcases ht with rfl | rfl | rfl <;> simp [NoNl])
    (by
      intro t ht; simp [exBare] at ht
      rcases ht with rfl | rfl | rfl
      · exact ⟨'A', _, rfl, by decide⟩
      · exact ⟨'Z', _, rfl, by decide⟩
      · exact ⟨'a', _, rfl, by decide⟩)

/-- module doccomment: tab and two spaces before `@module`, trailing blanks after the name -/
def exMod : DocC := { exDoc with openSuffix := "\t  @module my.mod_ule  ".toList }

example : moduleNameDoc exMod.tokenText = ("my.mod_ule".toList, joinNl (exDoc.lines ++ [[]])) := by
  have h := C01_module_doc_name exMod "\t  ".toList " my.mod_ule  ".toList rfl rfl exDoc_ind (by decide)
    (by intro c hc; simp at hc; rcases hc with rfl | rfl <;> simp) (by simp [NoNl]) (by decide) exDoc_lines
  rw [h]
  have : stripWs " my.mod_ule  ".toList = "my.mod_ule".toList := by decide
  rw [this]; rfl

example : (moduleNameDoc { exDoc with openSuffix := "@module a@moduleb".toList }.tokenText).1 = "ab".toList := by
  have h := C01_module_doc { exDoc with openSuffix := "@module a@moduleb".toList } [] " a@moduleb".toList
    rfl rfl exDoc_ind (by decide) (by intro c hc; simp at hc) (by simp [NoNl]) exDoc_lines
  rw [h]; decide

example : splitNl (cleanDoc { exDoc with openSuffix := " @module  n".toList }.tokenText) =
    "@module  n".toList :: exDoc.lines ++ [[]] :=
  C01_module_first_line { exDoc with openSuffix := " @module  n".toList } "  n".toList rfl rfl exDoc_ind
    (by decide) (by simp [NoNl]) exDoc_lines

example : moduleNameDoc { exDoc with openSuffix := " @module n".toList, crlf := true }.tokenText =
    ("n".toList, joinNl (exDoc.lines.map (· ++ ['\r']) ++ [[]])) := by
  have h := C01_module_doc_crlf { exDoc with openSuffix := " @module n".toList, crlf := true } [' ']
    " n".toList rfl rfl exDoc_ind (by decide) (by intro c hc; simp at hc; simp [hc]) (by simp [NoNl]) exDoc_lines
  rw [h]
  have : stripWs (replaceAll (lit "@module") [] (" n".toList ++ ['\r'])) = "n".toList := by decide
  rw [this]

end C01

end Cminx
