import CminxModel.Config
/-!
# C16 — settings layer as command line > -s file > user config > defaults

"Decision logic stated outright" about `Config.lean`.  The stacking library (confuse), argparse and YAML are not
modelled; the tie between this logic and the real stack is the exhaustive enumeration in `harness/s_config.py`.
-/
namespace Cminx

/-- the value in effect is the one of the highest-priority source that sets the option -/
theorem C16_precedence (cli sfile user defaults : Source) (k : Str) :
    effective [cli, sfile, user, defaults] k =
      match cli.get k with
      | some v => some v
      | none => match sfile.get k with
        | some v => some v
        | none => match user.get k with
          | some v => some v
          | none => defaults.get k := by
  simp only [effective, List.findSome?]
  cases cli.get k <;> cases sfile.get k <;> cases user.get k <;> cases defaults.get k <;> rfl

/-- general form: the first source (in priority order) that sets the option wins, whatever the later ones say -/
theorem C16_first_wins (hi lo : List Source) (s : Source) (k : Str) (v : CVal)
    (hhi : ∀ t ∈ hi, t.get k = none) (hs : s.get k = some v) :
    effective (hi ++ s :: lo) k = some v := by
  induction hi with
  | nil => simp [effective, hs]
  | cons t ts ih =>
    have ht : t.get k = none := hhi t (by simp)
    have := ih (fun u hu => hhi u (by simp [hu]))
    simpa [effective, List.findSome?, ht] using this

/-- an option set nowhere else takes the packaged default -/
theorem C16_default (cli sfile user defaults : Source) (k : Str)
    (h1 : cli.get k = none) (h2 : sfile.get k = none) (h3 : user.get k = none) :
    effective [cli, sfile, user, defaults] k = defaults.get k := by
  rw [C16_precedence]; simp [h1, h2, h3]

/-- a value of the wrong type in the winning source is rejected — lower-priority sources and defaults never rescue it -/
theorem C16_type_rejected (hi lo : List Source) (s : Source) (k : Str) (ty : CType) (v : CVal)
    (hhi : ∀ t ∈ hi, t.get k = none) (hs : s.get k = some v) (hty : ty.accepts v = false) :
    resolveOpt (hi ++ s :: lo) k ty = .error k := by
  simp [resolveOpt, C16_first_wins hi lo s k v hhi hs, hty]

/-- a well-typed winning value is returned unchanged -/
theorem C16_type_accepted (hi lo : List Source) (s : Source) (k : Str) (ty : CType) (v : CVal)
    (hhi : ∀ t ∈ hi, t.get k = none) (hs : s.get k = some v) (hty : ty.accepts v = true) :
    resolveOpt (hi ++ s :: lo) k ty = .ok (some v) := by
  simp [resolveOpt, C16_first_wins hi lo s k v hhi hs, hty]

/-- `resolveOpt` fails exactly when the effective value exists and has the wrong type -/
theorem C16_type_iff (sources : List Source) (k : Str) (ty : CType) :
    (∃ e, resolveOpt sources k ty = .error e) ↔ ∃ v, effective sources k = some v ∧ ty.accepts v = false := by
  unfold resolveOpt
  cases h : effective sources k with
  | none => simp
  | some v => by_cases ha : ty.accepts v = true <;> simp [ha]

/-- which values the templates accept: booleans only for `bool`, strings only for string options, … -/
theorem C16_bool_template (v : CVal) : CType.bool.accepts v = true ↔ ∃ b, v = .bool b := by
  cases v <;> simp [CType.accepts]
theorem C16_str_template (v : CVal) : CType.str.accepts v = true ↔ ∃ s, v = .str s := by
  cases v <;> simp [CType.accepts]
theorem C16_optStr_template (v : CVal) : CType.optStr.accepts v = true ↔ ∃ s, v = .str s := by
  cases v <;> simp [CType.accepts]
theorem C16_filename_template (v : CVal) : CType.optFilename.accepts v = true ↔ ∃ s, v = .str s := by
  cases v <;> simp [CType.accepts]
theorem C16_list_template (v : CVal) : CType.optList.accepts v = true ↔ ∃ xs, v = .list xs := by
  cases v <;> simp [CType.accepts]

/-- exclude patterns are the concatenation of the lists of all sources, highest priority first -/
theorem C16_filters (a b c : List CVal) (cli sfile user : Source) (k : Str)
    (h1 : cli.get k = some (.list a)) (h2 : sfile.get k = some (.list b)) (h3 : user.get k = some (.list c)) :
    allContents [cli, sfile, user] k = a ++ b ++ c := by
  simp [allContents, List.filterMap, h1, h2, h3, List.flatMap]

/-- a source that does not set the filters contributes nothing and hides nothing -/
theorem C16_filters_skip (a c : List CVal) (cli sfile user : Source) (k : Str)
    (h1 : cli.get k = some (.list a)) (h2 : sfile.get k = none) (h3 : user.get k = some (.list c)) :
    allContents [cli, sfile, user] k = a ++ c := by
  simp [allContents, List.filterMap, h1, h2, h3, List.flatMap]

/-! ## the union option is type-checked in every source (repair D13, `resolveMain`) -/

/-- "a value of the wrong type is rejected rather than silently replaced", for the one option that is read from *every* source:
    a value of `input.exclude_filters` that is not a list makes the run fail in whichever source it stands — also below a source
    that supplies a well-typed list, where the template (which sees the winning value only) does not look -/
theorem C16_filters_any_source_rejected (sources : List Source) (src : Source) (v : CVal)
    (hs : src ∈ sources) (hv : src.get filtersKey = some v) (hl : isListVal v = false) :
    ∃ k, resolveMain sources = .error k := by
  unfold resolveMain
  cases h : resolveAll sources with
  | error k => exact ⟨k, rfl⟩
  | ok vals =>
    refine ⟨filtersKey, ?_⟩
    have : filtersWellTyped sources = false := by
      unfold filtersWellTyped
      rw [Bool.eq_false_iff]
      intro hall
      rw [List.all_eq_true] at hall
      have := hall v (List.mem_filterMap.mpr ⟨src, hs, hv⟩)
      rw [hl] at this; exact Bool.false_ne_true this
    simp [this]

/-- conversely a run that gets as far as `document` has a list (or nothing) in every source, and the patterns in effect are the
    concatenation over command line, `-s` file and user file, in that order -/
theorem C16_filters_main (sources : List Source) (vals : List (Str × Option CVal)) (fs : List CVal)
    (h : resolveMain sources = .ok (vals, fs)) :
    (∀ src ∈ sources, ∀ v, src.get filtersKey = some v → ∃ xs, v = .list xs) ∧
    fs = allContents (sources.take 3) filtersKey ∧ resolveAll sources = .ok vals := by
  unfold resolveMain at h
  cases hr : resolveAll sources with
  | error k => rw [hr] at h; cases h
  | ok vals' =>
    rw [hr] at h
    by_cases hw : filtersWellTyped sources = true
    · simp only [hw, if_true, Except.ok.injEq, Prod.mk.injEq] at h
      refine ⟨?_, h.2.symm, by rw [h.1]⟩
      intro src hs v hv
      unfold filtersWellTyped at hw
      rw [List.all_eq_true] at hw
      have := hw v (List.mem_filterMap.mpr ⟨src, hs, hv⟩)
      cases v <;> simp [isListVal] at this ⊢
    · simp [hw] at h

/-! non-vacuity: a bare string in the `-s` file below a list from the command line -/
example : ∃ k, resolveMain [[(filtersKey, .list [.str (lit "c1")])], [(filtersKey, .str (lit "build"))], [], [(filtersKey, .list [])]] = .error k :=
  C16_filters_any_source_rejected _ [(filtersKey, .str (lit "build"))] (.str (lit "build")) (by simp) (by simp [Source.get]) rfl

/-- a relative output directory is resolved against the current directory … -/
theorem C16_outdir_cwd (cwd path : Str) (o : Origin) :
    resolveDir cwd false o false path = cwd ++ '/' :: path := by simp [resolveDir]
/-- … or against the directory of the configuration file that sets it when `relative_to_config` is true … -/
theorem C16_outdir_config (cwd dir path : Str) :
    resolveDir cwd true ⟨some dir⟩ false path = dir ++ '/' :: path := by simp [resolveDir]
/-- … a value from the command line has no file, so the current directory is used; absolute paths are kept -/
theorem C16_outdir_cli (cwd path : Str) : resolveDir cwd true ⟨none⟩ false path = cwd ++ '/' :: path := by simp [resolveDir]
theorem C16_outdir_abs (cwd path : Str) (r : Bool) (o : Origin) : resolveDir cwd r o true path = path := by simp [resolveDir]

/-! non-vacuity: three sources that all set `rst.prefix`, and a wrong-typed winner -/
example : effective [[(lit "rst.prefix", .str (lit "C"))], [(lit "rst.prefix", .str (lit "S"))], [(lit "rst.prefix", .str (lit "U"))], []]
    (lit "rst.prefix") = some (.str (lit "C")) := by
  simp [effective, Source.get, lit]
example : resolveOpt [[], [(lit "input.recursive", .str (lit "yes"))], [(lit "input.recursive", .bool true)], [(lit "input.recursive", .bool false)]]
    (lit "input.recursive") .bool = .error (lit "input.recursive") := by
  apply C16_type_rejected [[]] _ _ _ _ (.str (lit "yes")) <;> simp [Source.get, CType.accepts, lit]

end Cminx
