import CminxProps.C07
import CminxLemmas.SpecLemmas
import CminxProps.TLex
import CminxProps.C01
/-!
# C01 — doccomment text reaches the page, inside its own entry (composition)

`C01.lean` proves the two ends: cleaning a doccomment returns its body lines verbatim (`C01_clean_canonical`), and a
paragraph is rendered line for line behind the indentation of the writer that holds it (`C01_paragraph_lines`).
This file closes the gap between the two, by composition of what is already proved:

* the cleaned text of an item's doccomment is the `doc` field of the entry the specification produces *for that
  item* (`Item.spec`, `CminxModel/Spec.lean`; per-kind equations in `CminxLemmas/SpecLemmas.lean`) and of no other
  entry (`C01_not_elsewhere`, `C01_doc_local`);
* every entry kind renders its `doc` field as a paragraph in the body of its own directive (`C01_entry_doc_lines`),
  members and attributes of a class one level deeper (`C01_class_members`);
* in the line view of the page (`C07_render_tlines`, `C07_page_lines`) the lines of that paragraph are a contiguous
  block inside the entry's directive, each line prefixed by the directive's indentation and otherwise unchanged
  (`C01_block_in_entry`, `C01_block_in_class`);
* for a canonical doccomment these lines are the body lines of the doccomment (`C01_canonical_entry`), and by the
  central chain `T_roundtrip`/`T_agg` this is what `pipeline` writes for the printed module (`C01_pipeline`).

Imports: `CminxProps/C05.lean` and `CminxProps/C04.lean` sit above `CminxProps/C02.lean`, which cannot be imported
together with `CminxProps/C07.lean` (both define `Cminx.exClass`).  Therefore `T_pipeline` is re-derived here from
`T_roundtrip` and `T_agg` (`C01_pipeline_page`, four lines), and `DocC.Canonical` of `C04.lean` is restated as
`C01.Canonical` (same five fields).
-/
namespace Cminx

open C01

/-! ## spec-side definitions -/

/-- the `doc` field of an entry -/
def Entry.docOf : Entry → Str
  | .module _ doc => doc
  | .func _ _ doc _ _ => doc
  | .var _ doc _ _ => doc
  | .opt _ doc _ _ => doc
  | .generic _ doc _ => doc
  | .ctest _ doc _ => doc
  | .test _ _ doc _ _ _ => doc
  | .cls _ doc _ _ _ _ _ => doc

/-- the entry is rendered with a doc paragraph: every entry except a module entry whose doc is empty
    (`if len(self.doc) > 0` in `ModuleDocumentation.process`) -/
def Entry.hasDocPara : Entry → Bool
  | .module _ doc => !doc.isEmpty
  | _ => true

/-- the argument of an entry's directive -/
def Entry.argOf : Entry → Str
  | .module name _ => name
  | .func _ name _ params kwargs => signature name (params ++ (if kwargs then [lit "**kwargs"] else []))
  | .var name _ _ _ => name
  | .opt name _ _ _ => name
  | .generic name _ args => signature name args
  | .ctest name _ params => signature name params
  | .test _ name _ expectFail _ _ => signature name [if expectFail then lit "EXPECTFAIL" else []]
  | .cls name _ _ _ _ _ _ => name

/-- the heading line of an entry's directive at column 0: `.. kind:: argument` -/
def Entry.heading (e : Entry) : Str := lit ".. " ++ e.dirName ++ lit ":: " ++ e.argOf

/-- the doccomment attached to an item's command (a dangling doccomment is attached to nothing) -/
def Item.doc? : Item → Option DocC
  | .cmd d _ => d
  | .block d _ _ _ => d
  | .decl d _ _ _ _ => d
  | .dangling _ => none

/-- the same item with another doccomment -/
def Item.withDoc (d' : DocC) : Item → Item
  | .cmd _ call => .cmd (some d') call
  | .block _ o body c => .block (some d') o body c
  | .decl _ d impl body c => .decl (some d') d impl body c
  | .dangling d => .dangling d

/-- the item kinds whose own entry goes to the top-level list `documented`: every single command except
    `cpp_attr` (goes into its class) and `cmake_parse_arguments` (never documented), every block
    (function, macro, class, `if`/`foreach`/`while`), and `ct_add_test`/`ct_add_section` declarations;
    not `cpp_member`/`cpp_constructor` declarations (they go into their class) -/
def Item.TopKind : Item → Prop
  | .cmd _ call => call.lname ≠ lit "cpp_attr" ∧ call.lname ≠ lit "cmake_parse_arguments"
  | .block .. => True
  | .decl _ d _ _ _ => d.lname = lit "ct_add_test" ∨ d.lname = lit "ct_add_section"
  | .dangling _ => False

namespace C01

/-- a doccomment in the prescribed form (`DocC.Canonical` of `C04.lean`): `#`-led body lines, LF line ends, nothing
    after `#[[[` on the opening line, indentation of blanks and tabs, no line break inside a line text -/
structure Canonical (d : DocC) : Prop where
  leader : d.leader = true
  lf : d.crlf = false
  plain : d.openSuffix = []
  ind : IndOk d.ind
  lines : ∀ t ∈ d.lines, NoNl t

end C01

/-! ## 1. every entry holds its doc as a paragraph of its own directive -/

/-- Every entry is one directive, and its doc text is a paragraph in the body of that directive — the first
    element of the body or the second (after the macro note, the option note, the warning of a generic/test entry or
    the `Bases:` line of a class).  A module entry with empty doc has no paragraph. -/
theorem C01_entry_doc_lines (e : Entry) (h : e.hasDocPara = true) :
    ∃ pre post, e.toElem = .directive e.dirName [e.argOf] [] (pre ++ Elem.para e.docOf :: post) ∧ pre.length ≤ 1 := by
  cases e with
  | module name doc =>
    simp only [Entry.hasDocPara, Bool.not_eq_eq_eq_not, Bool.not_true] at h
    exact ⟨[], [], by simp [Entry.toElem, Entry.dirName, Entry.docOf, Entry.argOf, h], by simp⟩
  | func isMacro name doc params kwargs =>
    exact ⟨if isMacro then [Elem.directive (lit "note") [macroNote] [] []] else [], [],
      by simp [Entry.toElem, Entry.dirName, Entry.docOf, Entry.argOf], by split <;> simp⟩
  | var name doc ty value => exact ⟨[], _, rfl, by simp⟩
  | opt name doc help dflt => exact ⟨[_], _, rfl, by simp⟩
  | generic name doc args => exact ⟨[_], _, rfl, by simp⟩
  | ctest name doc params => exact ⟨[_], _, rfl, by simp⟩
  | test isSection name doc expectFail params isMacro => exact ⟨[_], _, rfl, by simp⟩
  | cls name doc supers inner ctors members attrs =>
    refine ⟨if supers.isEmpty then []
        else [Elem.para (lit "Bases: " ++ joinWith [',', ' '] (supers.map (interpreted (lit "class"))) ++ ['\n'])],
      section? (lit "**Additional Constructors**") (ctors.map Method.toElem) ++
       section? (lit "**Methods**") (members.map Method.toElem) ++
       section? (lit "**Attributes**") (attrs.map Attr.toElem) ++
       (if inner.isEmpty then []
        else [.para (lit "**Inner classes**"), .list false (inner.map (interpreted (lit "class")))]), ?_, ?_⟩
    · simp [Entry.toElem, Entry.dirName, Entry.docOf, Entry.argOf]
    · split <;> simp

/-- membership form -/
theorem C01_entry_doc_mem (e : Entry) (h : e.hasDocPara = true) :
    ∃ body, e.toElem = .directive e.dirName [e.argOf] [] body ∧ Elem.para e.docOf ∈ body := by
  obtain ⟨pre, post, he, _⟩ := C01_entry_doc_lines e h
  exact ⟨_, he, by simp⟩

/-- a method (member or constructor) is one `py:method` directive holding its doc as a paragraph, first in the body
    or second after the macro note -/
theorem C01_method_doc_lines (m : Method) :
    ∃ arg pre post, m.toElem = .directive (lit "py:method") [arg] [] (pre ++ Elem.para m.doc :: post) ∧
      pre.length ≤ 1 := by
  refine ⟨m.name ++ '(' :: ((joinWith [',', ' '] m.params ++
      (if m.paramTypes.contains (lit "args") then lit "[, ...]" else [])) ++ [')']),
    if m.isMacro then [Elem.directive (lit "note") [methodMacroNote] [] []] else [],
    methodFields m.doc m.paramTypes m.params, ?_, ?_⟩
  · simp [Method.toElem]
  · split <;> simp

/-- an attribute is one `py:attribute` directive whose body is its doc paragraph -/
theorem C01_attr_doc_lines (a : Attr) :
    ∃ opts, a.toElem = .directive (lit "py:attribute") [a.name] opts [Elem.para a.doc] :=
  ⟨_, rfl⟩

theorem C01_section_mem {x : Elem} {xs : List Elem} (title : Str) (h : x ∈ xs) : x ∈ section? title xs := by
  unfold section?
  cases xs with
  | nil => simp at h
  | cons y ys => simp only [List.isEmpty_cons, Bool.false_eq_true, if_false]; exact List.mem_cons_of_mem _ h

/-- the directives of a class's constructors, members and attributes are elements of the body of the class's
    directive (and so is the class's own doc paragraph) -/
theorem C01_class_members (name doc : Str) (supers inner : List Str) (ctors members : List Method) (attrs : List Attr) :
    ∃ body, (Entry.cls name doc supers inner ctors members attrs).toElem = .directive (lit "py:class") [name] [] body ∧
      Elem.para doc ∈ body ∧ (∀ m ∈ ctors, m.toElem ∈ body) ∧ (∀ m ∈ members, m.toElem ∈ body) ∧
      (∀ a ∈ attrs, a.toElem ∈ body) := by
  refine ⟨_, rfl, by simp, ?_, ?_, ?_⟩
  · intro m hm
    have := C01_section_mem (lit "**Additional Constructors**") (List.mem_map_of_mem (f := Method.toElem) hm)
    simp [this]
  · intro m hm
    have := C01_section_mem (lit "**Methods**") (List.mem_map_of_mem (f := Method.toElem) hm)
    simp [this]
  · intro a ha
    have := C01_section_mem (lit "**Attributes**") (List.mem_map_of_mem (f := Attr.toElem) ha)
    simp [this]

/-! ## 2. the lines of the doc paragraph are a contiguous block inside the entry's directive -/

/-- the tagged lines of an element of a writer's list are a contiguous block of the writer's lines -/
theorem C01_tlines_mem {x : Elem} {es : List Elem} (h : x ∈ es) : x.tlines <:+: tlinesList es := by
  induction es with
  | nil => simp at h
  | cons e es ih =>
    simp only [tlinesList]
    rcases List.mem_cons.1 h with rfl | h
    · exact (List.prefix_append _ _).isInfix
    · exact (ih h).trans (List.suffix_append _ _).isInfix

theorem C01_shiftT_infix {a b : List (Bool × Str)} (h : a <:+: b) : shiftT a <:+: shiftT b := by
  unfold shiftT; exact h.map _

/-- the tagged lines of a child, moved one level inwards, are a contiguous block of the directive's lines -/
theorem C01_tlines_child {x : Elem} (name : Str) (args : List Str) (opts : List (Str × Str)) {body : List Elem}
    (h : x ∈ body) : shiftT x.tlines <:+: (Elem.directive name args opts body).tlines := by
  simp only [Elem.tlines]
  exact (C01_shiftT_infix (C01_tlines_mem h)).trans (List.suffix_append _ _).isInfix

/-- a paragraph placed at depth `d`: its text's lines, each behind `indent d` (empty lines too) -/
theorem C01_place_para (d : Nat) (t : Str) : (Elem.para t).tlines.map (place d) = (splitNl t).map (indent d ++ ·) := by
  simp [Elem.tlines, place, Function.comp_def]

theorem C01_map_snd_para (t : Str) : (shiftT (Elem.para t).tlines).map (·.2) = (splitNl t).map (indent 1 ++ ·) := by
  simp [Elem.tlines, shiftT, Function.comp_def]

/-- a directive rendered at depth `d`: the lines of each element of its body, placed at depth `d + 1`, are a
    contiguous block of the rendered lines -/
theorem C01_child_lines (d : Nat) (name : Str) (args : List Str) (opts : List (Str × Str)) (body : List Elem)
    (hs : SingleLine (.directive name args opts body)) (x : Elem) (hx : x ∈ body) :
    x.tlines.map (place (d + 1)) <:+: splitNl ((Elem.directive name args opts body).render d) := by
  rw [C07_render_tlines _ d hs, ← C07_place_shift]
  exact (C01_tlines_child name args opts hx).map _

/-- the lines below the heading line of a directive at column 0: blank or indented by three columns or more, i.e.
    they all belong to the directive's content block -/
def InDirective (rest : List Str) : Prop := ∀ l ∈ rest, l = [] ∨ (indent 1).isPrefixOf l = true

/-- **The doc block of an entry.**  An entry rendered as a top-level directive is: a blank line, the heading line
    `.. kind:: argument`, and then the directive's content `rest` (every line blank or indented), in which the lines
    of the entry's doc text occur as one contiguous block, in order, each line prefixed by the three columns of the
    directive's indentation and otherwise unchanged. -/
theorem C01_block_in_entry (e : Entry) (h : e.OneLine) (hd : e.hasDocPara = true) :
    ∃ rest, splitNl (e.toElem.render 0) = [] :: e.heading :: rest ∧ InDirective rest ∧
      (splitNl e.docOf).map (indent 1 ++ ·) <:+: rest := by
  obtain ⟨arg, body, he, hl, hbl⟩ := C07_entry_lines e h
  obtain ⟨pre, post, he', _⟩ := C01_entry_doc_lines e hd
  have hs := C07_entry_single_line e h
  rw [he] at hs
  simp only [SingleLine] at hs
  rw [he] at he'
  injection he' with _ harg _ hb
  injection harg with harg
  subst harg
  refine ⟨_, hl, ?_, ?_⟩
  · intro l hl
    rcases List.mem_append.1 hl with hl | hl
    · split at hl
      · simp at hl
      · left; simpa using hl
    · exact hbl l hl
  · rw [C07_renderElems_tlines body 1 hs.2.2.2, ← C01_place_para]
    have hx : Elem.para e.docOf ∈ body := by rw [hb]; simp
    exact ((C01_tlines_mem hx).map (place 1)).trans (List.suffix_append _ _).isInfix

/-- in particular the block occurs in the entry's rendering -/
theorem C01_block_in_entry' (e : Entry) (h : e.OneLine) (hd : e.hasDocPara = true) :
    (splitNl e.docOf).map (indent 1 ++ ·) <:+: splitNl (e.toElem.render 0) := by
  obtain ⟨rest, hl, _, hi⟩ := C01_block_in_entry e h hd
  rw [hl]
  exact hi.trans ((List.suffix_cons _ _).trans (List.suffix_cons _ _)).isInfix

/-- **Member, constructor and attribute docs.**  Inside the rendering of a class entry, after the class's heading
    line, the doc text of every constructor, member and attribute occurs as a contiguous block of lines, each line
    prefixed by six columns (the class directive's and the member directive's indentation). -/
theorem C01_block_in_class (name doc : Str) (supers inner : List Str) (ctors members : List Method) (attrs : List Attr)
    (h : (Entry.cls name doc supers inner ctors members attrs).OneLine) :
    ∃ rest, splitNl ((Entry.cls name doc supers inner ctors members attrs).toElem.render 0) =
        [] :: (lit ".. " ++ lit "py:class" ++ lit ":: " ++ name) :: rest ∧ InDirective rest ∧
      (splitNl doc).map (indent 1 ++ ·) <:+: rest ∧
      (∀ m ∈ ctors, (splitNl m.doc).map (indent 2 ++ ·) <:+: rest) ∧
      (∀ m ∈ members, (splitNl m.doc).map (indent 2 ++ ·) <:+: rest) ∧
      (∀ a ∈ attrs, (splitNl a.doc).map (indent 2 ++ ·) <:+: rest) := by
  obtain ⟨arg, body, he, hl, hbl⟩ := C07_entry_lines _ h
  obtain ⟨body', he', hdoc, hc, hm, ha⟩ := C01_class_members name doc supers inner ctors members attrs
  have hs := C07_entry_single_line _ h
  rw [he] at hs
  simp only [SingleLine] at hs
  rw [he] at he'
  injection he' with _ harg _ hb
  injection harg with harg
  subst hb harg
  refine ⟨_, hl, ?_, ?_, ?_, ?_, ?_⟩
  · intro l hl
    rcases List.mem_append.1 hl with hl | hl
    · split at hl
      · simp at hl
      · left; simpa using hl
    · exact hbl l hl
  · rw [C07_renderElems_tlines body 1 hs.2.2.2, ← C01_place_para]
    exact ((C01_tlines_mem hdoc).map (place 1)).trans (List.suffix_append _ _).isInfix
  all_goals
    intro m hmem
    rw [C07_renderElems_tlines body 1 hs.2.2.2, ← C01_place_para, ← C07_place_shift]
    refine List.IsInfix.trans ?_ (List.suffix_append _ _).isInfix
    refine List.IsInfix.trans (List.IsInfix.map (place 1) ?_) ((C01_tlines_mem (by first | exact hc m hmem | exact hm m hmem | exact ha m hmem)).map (place 1))
  · obtain ⟨a', pre, post, e', _⟩ := C01_method_doc_lines m
    rw [e']; exact C01_tlines_child _ _ _ (by simp)
  · obtain ⟨a', pre, post, e', _⟩ := C01_method_doc_lines m
    rw [e']; exact C01_tlines_child _ _ _ (by simp)
  · obtain ⟨opts, e'⟩ := C01_attr_doc_lines m
    rw [e']; exact C01_tlines_child _ _ _ (by simp)

/-! ## 3. canonical doccomments: the body lines, verbatim, inside the item's own directive -/

/-- the cleaned text of a canonical doccomment is its body lines joined by `'\n'`, plus the final line break that the
    closing `#]]` line leaves -/
theorem C01_canonical_doc (d : DocC) (hc : Canonical d) : docTextOf (some d) = joinNl (d.lines ++ [[]]) :=
  C01_clean_canonical d hc.leader hc.lf hc.plain hc.ind hc.lines

theorem C01_canonical_doc_lines (d : DocC) (hc : Canonical d) : splitNl (docTextOf (some d)) = d.lines ++ [[]] :=
  C01_clean_lines d hc.leader hc.lf hc.plain hc.ind hc.lines

theorem C01_hasDocPara_of_not_module {e : Entry} (h : isModule e = false) : e.hasDocPara = true := by
  cases e <;> first | rfl | simp [isModule] at h

/-- **An entry whose doc is the cleaned text of a canonical doccomment** (any kind but the module entry): after the
    heading line of its directive the page has the doccomment's body lines — verbatim, in order, each prefixed by the
    three columns of the directive's indentation — followed by the (indented) empty line. -/
theorem C01_canonical_entry (e : Entry) (d : DocC) (hc : Canonical d) (hdoc : e.docOf = docTextOf (some d))
    (hm : isModule e = false) (h : e.OneLine) :
    e.docOf = joinNl (d.lines ++ [[]]) ∧
    ∃ rest, splitNl (e.toElem.render 0) = [] :: e.heading :: rest ∧ InDirective rest ∧
      (d.lines ++ [[]]).map (indent 1 ++ ·) <:+: rest := by
  refine ⟨hdoc.trans (C01_canonical_doc d hc), ?_⟩
  obtain ⟨rest, hl, hb, hi⟩ := C01_block_in_entry e h (C01_hasDocPara_of_not_module hm)
  rw [hdoc, C01_canonical_doc_lines d hc] at hi
  exact ⟨rest, hl, hb, hi⟩

/-- the same for a constructor/member/attribute doc inside a class entry, at depth 2 -/
theorem C01_canonical_in_class (name doc : Str) (supers inner : List Str) (ctors members : List Method)
    (attrs : List Attr) (h : (Entry.cls name doc supers inner ctors members attrs).OneLine) (d : DocC) (hc : Canonical d)
    (hmem : (∃ m ∈ ctors, m.doc = docTextOf (some d)) ∨ (∃ m ∈ members, m.doc = docTextOf (some d)) ∨
      (∃ a ∈ attrs, a.doc = docTextOf (some d))) :
    ∃ rest, splitNl ((Entry.cls name doc supers inner ctors members attrs).toElem.render 0) =
        [] :: (lit ".. " ++ lit "py:class" ++ lit ":: " ++ name) :: rest ∧ InDirective rest ∧
      (d.lines ++ [[]]).map (indent 2 ++ ·) <:+: rest := by
  obtain ⟨rest, hl, hb, _, h1, h2, h3⟩ := C01_block_in_class name doc supers inner ctors members attrs h
  refine ⟨rest, hl, hb, ?_⟩
  rw [← C01_canonical_doc_lines d hc]
  rcases hmem with ⟨m, hm, e⟩ | ⟨m, hm, e⟩ | ⟨a, ha, e⟩
  · rw [← e]; exact h1 m hm
  · rw [← e]; exact h2 m hm
  · rw [← e]; exact h3 a ha

/-! ### the entry the specification produces for a documented item, per kind (any configuration, any class context)

`cfg.stripFn`/`cfg.stripMacro`/`cfg.stripMember` are the parameter-name strip functions, `cfg.trigger` the `**kwargs`
trigger text.  In every equation the doc field is `joinNl (d.lines ++ [[]])`: the body lines of the doccomment. -/

theorem C01_canonical_function (cfg : Cfg) (ctx : ClsCtx) (d : DocC) (o : Call) (body : List Item) (c : Call)
    (hc : Canonical d) (hn : o.lname = lit "function") :
    ((Item.block (some d) o body c).spec cfg ctx).top =
      .func false (o.singles.headD []) (joinNl (d.lines ++ [[]])) ((o.singles.drop 1).map cfg.stripFn)
        (isInfix cfg.trigger (joinNl (d.lines ++ [[]])) || itemsCpaDirect body) :: (itemsSpec cfg ctx body).top := by
  rw [spec_block_function cfg ctx _ o body c hn, ← C01_canonical_doc d hc]
  simp [defEntry]

theorem C01_canonical_macro (cfg : Cfg) (ctx : ClsCtx) (d : DocC) (o : Call) (body : List Item) (c : Call)
    (hc : Canonical d) (hn : o.lname = lit "macro") :
    ((Item.block (some d) o body c).spec cfg ctx).top =
      .func true (o.singles.headD []) (joinNl (d.lines ++ [[]])) ((o.singles.drop 1).map cfg.stripMacro)
        (isInfix cfg.trigger (joinNl (d.lines ++ [[]])) || itemsCpaDirect body) :: (itemsSpec cfg ctx body).top := by
  rw [spec_block_macro cfg ctx _ o body c hn, ← C01_canonical_doc d hc]
  simp [defEntry]

theorem C01_canonical_class (cfg : Cfg) (ctx : ClsCtx) (d : DocC) (o : Call) (body : List Item) (c : Call)
    (hc : Canonical d) (hn : o.lname = lit "cpp_class") :
    ((Item.block (some d) o body c).spec cfg ctx).top =
      .cls (o.singles.headD []) (joinNl (d.lines ++ [[]])) (o.singles.drop 1) (itemsSpec cfg .shown body).inner
        (itemsSpec cfg .shown body).ctors (itemsSpec cfg .shown body).members (itemsSpec cfg .shown body).attrs ::
        (itemsSpec cfg .shown body).top := by
  rw [spec_block_class_shown cfg ctx _ o body c hn (Or.inl rfl), ← C01_canonical_doc d hc]

/-- a documented `if`/`foreach`/`while` (any block that is not a definition or a class) -/
theorem C01_canonical_block_generic (cfg : Cfg) (ctx : ClsCtx) (d : DocC) (o : Call) (body : List Item) (c : Call)
    (hc : Canonical d) (h1 : o.lname ≠ lit "function") (h2 : o.lname ≠ lit "macro") (h3 : o.lname ≠ lit "cpp_class") :
    ((Item.block (some d) o body c).spec cfg ctx).top =
      .generic o.lname (joinNl (d.lines ++ [[]])) (argTexts o.toCmd.args) :: (itemsSpec cfg ctx body).top := by
  rw [spec_block_other cfg ctx _ o body c h1 h2 h3, ← C01_canonical_doc d hc]
  simp

theorem C01_canonical_set (cfg : Cfg) (ctx : ClsCtx) (d : DocC) (call : Call) (name : Str) (vals : List Str)
    (hc : Canonical d) (hn : call.lname = lit "set") (hs : call.singles = name :: vals) :
    ((Item.cmd (some d) call).spec cfg ctx).top =
      [.var name (joinNl (d.lines ++ [[]]))
        (match vals with | [] => .unset | [_] => .string | _ => .list)
        (match vals with | [] => none | [v] => some (unquote v) | vs => some (joinWith [' '] vs))] := by
  rw [← C01_canonical_doc d hc]
  match vals, hs with
  | [], hs => simp [Item.spec, hn, hs]
  | [v], hs => simp [Item.spec, hn, hs]
  | v :: w :: vs, hs => simp [Item.spec, hn, hs]

theorem C01_canonical_option (cfg : Cfg) (ctx : ClsCtx) (d : DocC) (call : Call)
    (hc : Canonical d) (hn : call.lname = lit "option") :
    ((Item.cmd (some d) call).spec cfg ctx).top =
      [.opt (call.singles.headD []) (joinNl (d.lines ++ [[]])) (call.singles.getD 1 []) call.singles[2]?] := by
  rw [spec_cmd_option cfg ctx _ call hn, ← C01_canonical_doc d hc]
  simp

theorem C01_canonical_add_test (cfg : Cfg) (ctx : ClsCtx) (d : DocC) (call : Call)
    (hc : Canonical d) (hn : call.lname = lit "add_test") :
    ((Item.cmd (some d) call).spec cfg ctx).top =
      [.ctest (nameOf call.allTexts).1 (joinNl (d.lines ++ [[]])) (ctestParams call.allTexts)] := by
  rw [spec_cmd_add_test cfg ctx _ call hn (Or.inl rfl), ← C01_canonical_doc d hc]

/-- any other documented single command -/
theorem C01_canonical_generic (cfg : Cfg) (ctx : ClsCtx) (d : DocC) (call : Call) (hc : Canonical d)
    (h1 : call.lname ≠ lit "set") (h2 : call.lname ≠ lit "option") (h3 : call.lname ≠ lit "add_test")
    (h4 : call.lname ≠ lit "cpp_attr") (h5 : call.lname ≠ lit "cmake_parse_arguments") :
    ((Item.cmd (some d) call).spec cfg ctx).top =
      [.generic call.lname (joinNl (d.lines ++ [[]])) (argTexts call.toCmd.args)] := by
  rw [spec_cmd_generic cfg ctx _ call h1 h2 h3 h4 h5, ← C01_canonical_doc d hc]
  simp

theorem C01_canonical_test (cfg : Cfg) (ctx : ClsCtx) (d : DocC) (dc impl : Call) (body : List Item) (c : Call)
    (hc : Canonical d) (hn : dc.lname = lit "ct_add_test") :
    ((Item.decl (some d) dc impl body c).spec cfg ctx).top =
      .test false (nameOf dc.singles).1 (joinNl (d.lines ++ [[]])) (dc.singles.contains (lit "EXPECTFAIL"))
        (impl.singles.drop 2) (impl.lname = lit "macro") :: (itemsSpec cfg ctx body).top := by
  rw [spec_decl_test cfg ctx _ dc impl body c hn (Or.inl rfl), ← C01_canonical_doc d hc]
  simp

theorem C01_canonical_section (cfg : Cfg) (ctx : ClsCtx) (d : DocC) (dc impl : Call) (body : List Item) (c : Call)
    (hc : Canonical d) (hn : dc.lname = lit "ct_add_section") :
    ((Item.decl (some d) dc impl body c).spec cfg ctx).top =
      .test true (nameOf dc.singles).1 (joinNl (d.lines ++ [[]])) (dc.singles.contains (lit "EXPECTFAIL"))
        (impl.singles.drop 2) (impl.lname = lit "macro") :: (itemsSpec cfg ctx body).top := by
  rw [spec_decl_section cfg ctx _ dc impl body c hn (Or.inl rfl), ← C01_canonical_doc d hc]
  simp

/-- a documented `cpp_member` declaration directly in the body of a shown class: one element of the class's method
    list, whose doc is the doccomment's body lines -/
theorem C01_canonical_member (cfg : Cfg) (d : DocC) (dc impl : Call) (body : List Item) (c : Call)
    (hc : Canonical d) (hn : dc.lname = lit "cpp_member") :
    ((Item.decl (some d) dc impl body c).spec cfg .shown).members =
      methodOf cfg (some d) dc impl false :: (itemsSpec cfg .shown body).members ∧
    (methodOf cfg (some d) dc impl false).doc = joinNl (d.lines ++ [[]]) := by
  rw [spec_decl_member_if cfg .shown _ dc impl body c hn]
  exact ⟨by simp, C01_canonical_doc d hc⟩

theorem C01_canonical_ctor (cfg : Cfg) (d : DocC) (dc impl : Call) (body : List Item) (c : Call)
    (hc : Canonical d) (hn : dc.lname = lit "cpp_constructor") :
    ((Item.decl (some d) dc impl body c).spec cfg .shown).ctors =
      methodOf cfg (some d) dc impl true :: (itemsSpec cfg .shown body).ctors ∧
    (methodOf cfg (some d) dc impl true).doc = joinNl (d.lines ++ [[]]) := by
  rw [spec_decl_ctor_if cfg .shown _ dc impl body c hn]
  exact ⟨by simp, C01_canonical_doc d hc⟩

theorem C01_canonical_attr (cfg : Cfg) (d : DocC) (call : Call) (hc : Canonical d) (hn : call.lname = lit "cpp_attr") :
    ((Item.cmd (some d) call).spec cfg .shown).attrs =
      [{ name := call.singles.getD 1 [], doc := joinNl (d.lines ++ [[]]), parentClass := call.singles.headD [],
         dflt := call.singles[2]? }] := by
  rw [spec_cmd_attr cfg .shown _ call hn, ← C01_canonical_doc d hc]
  simp

/-! ### one statement over all top-level kinds -/

theorem C01_withDoc_self (it : Item) (d : DocC) (hd : it.doc? = some d) : it.withDoc d = it := by
  cases it <;> simp_all [Item.doc?, Item.withDoc]

/-- For an item of a top-level kind, documented: the entries it appends to `documented` are `f text :: rest`, where
    `text` is the cleaned text of its doccomment, `f text` is an entry (not a module entry) whose doc field is `text`,
    and neither `rest` (the entries of the commands in its body) nor what the item contributes to an enclosing class
    depends on the doccomment at all. -/
theorem C01_item_entry_core (cfg : Cfg) (ctx : ClsCtx) (it : Item) (hk : it.TopKind) :
    ∃ (f : Str → Entry) (rest : List Entry) (cp : Contrib), (∀ t, (f t).docOf = t ∧ isModule (f t) = false) ∧
      ∀ d' : DocC, (it.withDoc d').spec cfg ctx =
        { cp with top := f (docTextOf (some d')) :: rest } := by
  cases it with
  | cmd doc call =>
    obtain ⟨h4, h5⟩ := hk
    by_cases h1 : call.lname = lit "set"
    · refine ⟨fun t => match call.singles with
            | [name] => .var name t .unset none
            | [name, v] => .var name t .string (some (unquote v))
            | name :: vs => .var name t .list (some (joinWith [' '] vs))
            | [] => .var [] t .unset none, [], {}, ?_, ?_⟩
      · intro t; dsimp only; split <;> simp [Entry.docOf, isModule]
      · intro d'
        rcases hs : call.singles with _ | ⟨a, _ | ⟨b, _ | ⟨c, r⟩⟩⟩ <;> simp [Item.withDoc, Item.spec, h1, hs]
    · by_cases h2 : call.lname = lit "option"
      · refine ⟨fun t => .opt (call.singles.headD []) t (call.singles.getD 1 []) call.singles[2]?, [], {}, ?_, ?_⟩
        · intro t; simp [Entry.docOf, isModule]
        · intro d'; simp [Item.withDoc, spec_cmd_option cfg ctx _ call h2]
      · by_cases h3 : call.lname = lit "add_test"
        · refine ⟨fun t => .ctest (nameOf call.allTexts).1 t (ctestParams call.allTexts), [], {}, ?_, ?_⟩
          · intro t; simp [Entry.docOf, isModule]
          · intro d'; simp [Item.withDoc, spec_cmd_add_test cfg ctx (some d') call h3 (Or.inl rfl)]
        · refine ⟨fun t => .generic call.lname t (argTexts call.toCmd.args), [], {}, ?_, ?_⟩
          · intro t; simp [Entry.docOf, isModule]
          · intro d'; simp [Item.withDoc, spec_cmd_generic cfg ctx _ call h1 h2 h3 h4 h5]
  | block doc o body c =>
    by_cases h1 : o.lname = lit "function"
    · refine ⟨fun t => .func false (o.singles.headD []) t ((o.singles.drop 1).map cfg.stripFn)
          (isInfix cfg.trigger t || itemsCpaDirect body), (itemsSpec cfg ctx body).top, itemsSpec cfg ctx body, ?_, ?_⟩
      · intro t; simp [Entry.docOf, isModule]
      · intro d'
        rw [Item.withDoc, spec_block_function cfg ctx _ o body c h1]
        apply Contrib.ext' <;> simp [defEntry]
    · by_cases h2 : o.lname = lit "macro"
      · refine ⟨fun t => .func true (o.singles.headD []) t ((o.singles.drop 1).map cfg.stripMacro)
            (isInfix cfg.trigger t || itemsCpaDirect body), (itemsSpec cfg ctx body).top, itemsSpec cfg ctx body, ?_, ?_⟩
        · intro t; simp [Entry.docOf, isModule]
        · intro d'
          rw [Item.withDoc, spec_block_macro cfg ctx _ o body c h2]
          apply Contrib.ext' <;> simp [defEntry]
      · by_cases h3 : o.lname = lit "cpp_class"
        · refine ⟨fun t => .cls (o.singles.headD []) t (o.singles.drop 1) (itemsSpec cfg .shown body).inner
              (itemsSpec cfg .shown body).ctors (itemsSpec cfg .shown body).members (itemsSpec cfg .shown body).attrs,
            (itemsSpec cfg .shown body).top, { inner := if ctx = .shown then [o.singles.headD []] else [] }, ?_, ?_⟩
          · intro t; simp [Entry.docOf, isModule]
          · intro d'
            rw [Item.withDoc, spec_block_class_shown cfg ctx _ o body c h3 (Or.inl rfl)]
        · refine ⟨fun t => .generic o.lname t (argTexts o.toCmd.args), (itemsSpec cfg ctx body).top,
            itemsSpec cfg ctx body, ?_, ?_⟩
          · intro t; simp [Entry.docOf, isModule]
          · intro d'
            rw [Item.withDoc, spec_block_other cfg ctx _ o body c h1 h2 h3]
            apply Contrib.ext' <;> simp
  | decl doc dc impl body c =>
    rcases hk with hn | hn
    · refine ⟨fun t => .test false (nameOf dc.singles).1 t (dc.singles.contains (lit "EXPECTFAIL"))
          (impl.singles.drop 2) (impl.lname = lit "macro"), (itemsSpec cfg ctx body).top, itemsSpec cfg ctx body, ?_, ?_⟩
      · intro t; simp [Entry.docOf, isModule]
      · intro d'
        rw [Item.withDoc, spec_decl_test cfg ctx _ dc impl body c hn (Or.inl rfl)]
        apply Contrib.ext' <;> simp
    · refine ⟨fun t => .test true (nameOf dc.singles).1 t (dc.singles.contains (lit "EXPECTFAIL"))
          (impl.singles.drop 2) (impl.lname = lit "macro"), (itemsSpec cfg ctx body).top, itemsSpec cfg ctx body, ?_, ?_⟩
      · intro t; simp [Entry.docOf, isModule]
      · intro d'
        rw [Item.withDoc, spec_decl_section cfg ctx _ dc impl body c hn (Or.inl rfl)]
        apply Contrib.ext' <;> simp
  | dangling d => exact hk.elim

/-- **The entry of a documented item.**  A documented item of a top-level kind puts, as the first of the entries it
    contributes, an entry (not a module entry) whose doc field is the cleaned text of *its* doccomment. -/
theorem C01_item_entry (cfg : Cfg) (ctx : ClsCtx) (it : Item) (d : DocC) (hd : it.doc? = some d) (hk : it.TopKind) :
    ∃ e rest, (it.spec cfg ctx).top = e :: rest ∧ e.docOf = docTextOf (some d) ∧ isModule e = false := by
  obtain ⟨f, rest, cp, hf, h⟩ := C01_item_entry_core cfg ctx it hk
  have := h d
  rw [C01_withDoc_self it d hd] at this
  exact ⟨_, rest, by rw [this], (hf _).1, (hf _).2⟩

/-- for a canonical doccomment: the doc field is the body lines, and (if the entry's one-line strings are free of
    line breaks) the body lines stand in the entry's directive on the page -/
theorem C01_canonical_item (cfg : Cfg) (ctx : ClsCtx) (it : Item) (d : DocC) (hd : it.doc? = some d) (hk : it.TopKind)
    (hc : Canonical d) :
    ∃ e rest, (it.spec cfg ctx).top = e :: rest ∧ e.docOf = joinNl (d.lines ++ [[]]) ∧ isModule e = false ∧
      (e.OneLine → ∃ r, splitNl (e.toElem.render 0) = [] :: e.heading :: r ∧ InDirective r ∧
        (d.lines ++ [[]]).map (indent 1 ++ ·) <:+: r) := by
  obtain ⟨e, rest, ht, hdoc, hm⟩ := C01_item_entry cfg ctx it d hd hk
  exact ⟨e, rest, ht, hdoc.trans (C01_canonical_doc d hc), hm, fun h => (C01_canonical_entry e d hc hdoc hm h).2⟩

/-! ## 4. not attributed to another item -/

/-- The contribution of a list of items is the concatenation of the contributions of the items, in source order;
    an item's doccomment is read by `Item.spec` of that item only (`docTextOf doc` occurs in `Item.spec` for the
    item's own `doc` and nowhere else), so what the items before and after contribute does not depend on it. -/
theorem C01_not_elsewhere (cfg : Cfg) (ctx : ClsCtx) (pre post : List Item) (it : Item) :
    itemsSpec cfg ctx (pre ++ it :: post) = itemsSpec cfg ctx pre ++ it.spec cfg ctx ++ itemsSpec cfg ctx post ∧
    (itemsSpec cfg ctx (pre ++ it :: post)).top =
      (itemsSpec cfg ctx pre).top ++ (it.spec cfg ctx).top ++ (itemsSpec cfg ctx post).top := by
  have h : itemsSpec cfg ctx (pre ++ it :: post) = itemsSpec cfg ctx pre ++ it.spec cfg ctx ++ itemsSpec cfg ctx post := by
    rw [itemsSpec_append, itemsSpec_cons, Contrib.append_assoc]
  exact ⟨h, by rw [h]; simp⟩

/-- Explicitly: replacing the item (in particular: its doccomment) changes exactly its own segment of the list —
    the same `before` and `after` serve for every item put in that position. -/
theorem C01_not_elsewhere' (cfg : Cfg) (ctx : ClsCtx) (pre post : List Item) :
    ∃ before after : List Entry, ∀ it : Item,
      (itemsSpec cfg ctx (pre ++ it :: post)).top = before ++ (it.spec cfg ctx).top ++ after :=
  ⟨_, _, fun it => (C01_not_elsewhere cfg ctx pre post it).2⟩

/-- **Changing a doccomment changes one entry.**  In a list of items, replacing the doccomment of a documented item of
    a top-level kind by any other doccomment changes the doc-dependent fields of that item's own entry and nothing
    else: all entries before it, all entries after it (including those of the commands in its body) and everything
    contributed to an enclosing class stay the same. -/
theorem C01_doc_local (cfg : Cfg) (ctx : ClsCtx) (pre post : List Item) (it : Item) (hk : it.TopKind) :
    ∃ (f : Str → Entry) (before after : List Entry), (∀ t, (f t).docOf = t) ∧
      ∀ d' : DocC, (itemsSpec cfg ctx (pre ++ it.withDoc d' :: post)).top =
        before ++ f (docTextOf (some d')) :: after := by
  obtain ⟨f, rest, cp, hf, h⟩ := C01_item_entry_core cfg ctx it hk
  refine ⟨f, (itemsSpec cfg ctx pre).top, rest ++ (itemsSpec cfg ctx post).top, fun t => (hf t).1, ?_⟩
  intro d'
  rw [(C01_not_elsewhere cfg ctx pre post _).2, h d']
  simp

/-! ## 5. end to end: the page `pipeline` writes for the printed module -/

/-- `T_pipeline` (`C05.lean`), re-derived from `T_roundtrip` and `T_agg` (see the note on imports at the top) -/
theorem C01_pipeline_page (cfg : Cfg) (hc : Str) (hs : List Str) (title modName : Str) (m : Module)
    (hv : m.valid = true) (hwf : itemsWf false m.items = true)
    (hk1 : cfg.inclCppClass = true ∨ itemsHaveDocumentedClass m.items = false) :
    pipeline cfg (hc :: hs) title modName m.render =
      .ok (processDocs hc title modName (m.entries cfg)).render := by
  obtain ⟨ts, hl, hp⟩ := T_roundtrip m hv
  obtain ⟨st, ha, hd, -⟩ := T_agg cfg m hwf hk1
  simp only [pipeline, documentedOf, hl, hp, ha, hd]

/-- every documented entry (after the naming pass for module entries) is rendered on the page as a whole: the lines
    of its directive are a contiguous block of the page's lines -/
theorem C01_entry_on_page (hc title modName : Str) (docs : List Entry) (hm : '\n' ∉ modName)
    (hone : ∀ e ∈ docs, e.OneLine) (e : Entry) (he : e ∈ docs) :
    splitNl ((nameModule modName e).toElem.render 0) <:+: splitNl (processDocs hc title modName docs).render := by
  rw [C07_page_lines hc title modName docs hm hone]
  have hmem : nameModule modName e ∈ renderedDocs modName docs := by
    unfold renderedDocs
    apply List.mem_map_of_mem
    split
    · exact he
    · exact List.mem_cons_of_mem _ he
  have hs : SingleLine (nameModule modName e).toElem :=
    C07_renderedDocs_single_line modName hm docs hone _ (List.mem_map_of_mem hmem)
  rw [C07_render_tlines _ 0 hs]
  have : (nameModule modName e).toElem.tlines.map (place 0) = (nameModule modName e).toElem.tlines.map (·.2) :=
    List.map_congr_left (fun bl _ => C07_place_zero bl)
  rw [this]
  exact ((C01_tlines_mem (List.mem_map_of_mem (f := Entry.toElem) hmem)).map _).trans (List.suffix_append _ _).isInfix

theorem C01_nameModule_of_not_module (modName : Str) {e : Entry} (h : isModule e = false) : nameModule modName e = e := by
  cases e <;> first | rfl | simp [isModule] at h

/-- the entries an item contributes are entries of the module -/
theorem C01_entries_mem (cfg : Cfg) (m : Module) (pre post : List Item) (it : Item)
    (h : m.items = pre ++ [it] ++ post) (e : Entry) (he : e ∈ (it.spec cfg .none).top) : e ∈ m.entries cfg := by
  unfold Module.entries
  apply List.mem_append_right
  rw [h, List.append_assoc, List.singleton_append, (C01_not_elsewhere cfg .none pre post it).2]
  simp [he]

/-- **C01, end to end, any top-level kind.**  `m` a valid, well-formed module (outside K1); `it` one of its top-level
    items — a function, macro, class, `set`, `option`, `add_test`, any other command or block, a CMakeTest test or
    section — carrying the canonical doccomment `d`.  Then the pipeline succeeds on the printed module, and the
    page contains, as one contiguous block, the rendering of the entry `e` that the specification lists first for
    `it`: a blank line, the heading line of `e`'s directive, and the directive's content `rest`, in which the body
    lines of `d` stand verbatim, in order, each behind three columns of indentation, followed by the indented empty
    line.  Hypotheses `hone`/`hm` ("argument values contain no line breaks") are what allows reading lines off the
    page (`C07`). -/
theorem C01_pipeline_item (cfg : Cfg) (hc : Str) (hs : List Str) (title modName : Str) (m : Module)
    (hv : m.valid = true) (hwf : itemsWf false m.items = true)
    (hk1 : cfg.inclCppClass = true ∨ itemsHaveDocumentedClass m.items = false)
    (pre post : List Item) (it : Item) (d : DocC) (hitems : m.items = pre ++ [it] ++ post)
    (hd : it.doc? = some d) (hk : it.TopKind) (hcan : Canonical d)
    (hone : ∀ e ∈ m.entries cfg, e.OneLine) (hm : '\n' ∉ modName) :
    ∃ out e rest, pipeline cfg (hc :: hs) title modName m.render = .ok out ∧
      (it.spec cfg .none).top.head? = some e ∧ e.docOf = joinNl (d.lines ++ [[]]) ∧
      ([] :: e.heading :: rest) <:+: splitNl out ∧ InDirective rest ∧
      (d.lines ++ [[]]).map (indent 1 ++ ·) <:+: rest := by
  obtain ⟨e, tl, ht, hdoc, hmod, hlines⟩ := C01_canonical_item cfg .none it d hd hk hcan
  have he : e ∈ m.entries cfg := C01_entries_mem cfg m pre post it hitems e (by rw [ht]; simp)
  obtain ⟨rest, hl, hb, hi⟩ := hlines (hone e he)
  have hp := C01_entry_on_page hc title modName (m.entries cfg) hm hone e he
  rw [C01_nameModule_of_not_module modName hmod, hl] at hp
  exact ⟨_, e, rest, C01_pipeline_page cfg hc hs title modName m hv hwf hk1, by rw [ht]; rfl, hdoc, hp, hb, hi⟩

/-- the short form: the pipeline succeeds and the doccomment's lines are on the page -/
theorem C01_pipeline_any (cfg : Cfg) (hc : Str) (hs : List Str) (title modName : Str) (m : Module)
    (hv : m.valid = true) (hwf : itemsWf false m.items = true)
    (hk1 : cfg.inclCppClass = true ∨ itemsHaveDocumentedClass m.items = false)
    (pre post : List Item) (it : Item) (d : DocC) (hitems : m.items = pre ++ [it] ++ post)
    (hd : it.doc? = some d) (hk : it.TopKind) (hcan : Canonical d)
    (hone : ∀ e ∈ m.entries cfg, e.OneLine) (hm : '\n' ∉ modName) :
    ∃ out, pipeline cfg (hc :: hs) title modName m.render = .ok out ∧
      (d.lines ++ [[]]).map (indent 1 ++ ·) <:+: splitNl out := by
  obtain ⟨out, e, rest, h1, _, _, h4, _, h6⟩ :=
    C01_pipeline_item cfg hc hs title modName m hv hwf hk1 pre post it d hitems hd hk hcan hone hm
  exact ⟨out, h1, (h6.trans ((List.suffix_cons _ _).trans (List.suffix_cons _ _)).isInfix).trans h4⟩

/-- **C01, end to end, for a documented function.**  Below the blank line and the heading line
    `.. function:: name(params…)` of *this* function, in the directive's content, the body lines of the doccomment stand
    verbatim, in order, each behind three columns, followed by the indented empty line. -/
theorem C01_pipeline (cfg : Cfg) (hc : Str) (hs : List Str) (title modName : Str) (m : Module)
    (hv : m.valid = true) (hwf : itemsWf false m.items = true)
    (hk1 : cfg.inclCppClass = true ∨ itemsHaveDocumentedClass m.items = false)
    (pre post : List Item) (d : DocC) (o : Call) (body : List Item) (c : Call)
    (hitems : m.items = pre ++ [Item.block (some d) o body c] ++ post)
    (hn : o.lname = lit "function") (hcan : Canonical d)
    (hone : ∀ e ∈ m.entries cfg, e.OneLine) (hm : '\n' ∉ modName) :
    ∃ out, pipeline cfg (hc :: hs) title modName m.render = .ok out ∧
      (d.lines ++ [[]]).map (indent 1 ++ ·) <:+: splitNl out ∧
      ∃ rest, ([] :: (lit ".. " ++ lit "function" ++ lit ":: " ++
          signature (o.singles.headD []) ((o.singles.drop 1).map cfg.stripFn ++
            (if isInfix cfg.trigger (joinNl (d.lines ++ [[]])) || itemsCpaDirect body then [lit "**kwargs"] else []))) ::
          rest) <:+: splitNl out ∧ InDirective rest ∧
        (d.lines ++ [[]]).map (indent 1 ++ ·) <:+: rest := by
  obtain ⟨out, e, rest, h1, h2, _, h4, h5, h6⟩ :=
    C01_pipeline_item cfg hc hs title modName m hv hwf hk1 pre post _ d hitems rfl trivial hcan hone hm
  refine ⟨out, h1, (h6.trans ((List.suffix_cons _ _).trans (List.suffix_cons _ _)).isInfix).trans h4, rest, ?_, h5, h6⟩
  rw [C01_canonical_function cfg .none d o body c hcan hn] at h2
  simp only [List.head?_cons, Option.some.injEq] at h2
  subst h2
  exact h4

/-! ### members, constructors and attributes of a class -/

/-- the item kinds whose documentation goes into the enclosing class's entry -/
def Item.ClassKind : Item → Prop
  | .cmd _ call => call.lname = lit "cpp_attr"
  | .decl _ d _ _ _ => d.lname = lit "cpp_member" ∨ d.lname = lit "cpp_constructor"
  | _ => False

/-- a documented `cpp_member`/`cpp_constructor`/`cpp_attr` directly in the body of a shown class contributes a
    method or attribute whose doc field is the cleaned text of its doccomment -/
theorem C01_class_item_doc (cfg : Cfg) (mi : Item) (d : DocC) (hd : mi.doc? = some d) (hk : mi.ClassKind) :
    (∃ x ∈ (mi.spec cfg .shown).ctors, x.doc = docTextOf (some d)) ∨
    (∃ x ∈ (mi.spec cfg .shown).members, x.doc = docTextOf (some d)) ∨
    (∃ a ∈ (mi.spec cfg .shown).attrs, a.doc = docTextOf (some d)) := by
  cases mi with
  | cmd doc call =>
    simp only [Item.doc?] at hd
    subst hd
    right; right
    rw [spec_cmd_attr cfg .shown _ call hk]
    simp
  | decl doc dc impl body c =>
    simp only [Item.doc?] at hd
    subst hd
    rcases hk with hn | hn
    · right; left
      rw [spec_decl_member_if cfg .shown _ dc impl body c hn]
      exact ⟨methodOf cfg (some d) dc impl false, by simp, rfl⟩
    · left
      rw [spec_decl_ctor_if cfg .shown _ dc impl body c hn]
      exact ⟨methodOf cfg (some d) dc impl true, by simp, rfl⟩
  | block => exact hk.elim
  | dangling => exact hk.elim

/-- **C01, end to end, for a member, constructor or attribute of a class.**  A top-level `cpp_class` that has an
    entry (documented, or `include_undocumented_cpp_class` on), and directly in its body a `cpp_member`,
    `cpp_constructor` (with the implementing definition) or `cpp_attr` carrying the canonical doccomment `d`: below
    the heading line `.. py:class:: Name` of *this* class, in the directive's content, the body lines of `d` stand
    verbatim, in order, each behind six columns, followed by the indented empty line. -/
theorem C01_pipeline_member (cfg : Cfg) (hc : Str) (hs : List Str) (title modName : Str) (m : Module)
    (hv : m.valid = true) (hwf : itemsWf false m.items = true)
    (hk1 : cfg.inclCppClass = true ∨ itemsHaveDocumentedClass m.items = false)
    (pre post : List Item) (cdoc : Option DocC) (o : Call) (cbody : List Item) (cc : Call)
    (bpre bpost : List Item) (mi : Item) (d : DocC)
    (hitems : m.items = pre ++ [Item.block cdoc o cbody cc] ++ post)
    (hcls : o.lname = lit "cpp_class") (hshown : cdoc.isSome = true ∨ cfg.inclCppClass = true)
    (hbody : cbody = bpre ++ [mi] ++ bpost) (hd : mi.doc? = some d) (hk : mi.ClassKind) (hcan : Canonical d)
    (hone : ∀ e ∈ m.entries cfg, e.OneLine) (hm : '\n' ∉ modName) :
    ∃ out rest, pipeline cfg (hc :: hs) title modName m.render = .ok out ∧
      ([] :: (lit ".. " ++ lit "py:class" ++ lit ":: " ++ o.singles.headD []) :: rest) <:+: splitNl out ∧
      InDirective rest ∧ (d.lines ++ [[]]).map (indent 2 ++ ·) <:+: rest := by
  have hspec := spec_block_class_shown cfg .none cdoc o cbody cc hcls hshown
  generalize hb : itemsSpec cfg .shown cbody = b at hspec
  have he : Entry.cls (o.singles.headD []) (docTextOf cdoc) (o.singles.drop 1) b.inner b.ctors b.members b.attrs ∈
      m.entries cfg :=
    C01_entries_mem cfg m pre post _ hitems _ (by rw [hspec]; simp)
  have hmem : (∃ x ∈ b.ctors, x.doc = docTextOf (some d)) ∨ (∃ x ∈ b.members, x.doc = docTextOf (some d)) ∨
      (∃ a ∈ b.attrs, a.doc = docTextOf (some d)) := by
    rw [← hb, hbody, List.append_assoc, List.singleton_append, (C01_not_elsewhere cfg .shown bpre bpost mi).1]
    rcases C01_class_item_doc cfg mi d hd hk with ⟨x, hx, e⟩ | ⟨x, hx, e⟩ | ⟨x, hx, e⟩
    · exact Or.inl ⟨x, by simp [hx], e⟩
    · exact Or.inr (Or.inl ⟨x, by simp [hx], e⟩)
    · exact Or.inr (Or.inr ⟨x, by simp [hx], e⟩)
  obtain ⟨rest, hl, hbl, hi⟩ := C01_canonical_in_class _ _ _ _ _ _ _ (hone _ he) d hcan hmem
  have hp := C01_entry_on_page hc title modName (m.entries cfg) hm hone _ he
  rw [C01_nameModule_of_not_module modName rfl, hl] at hp
  exact ⟨_, rest, C01_pipeline_page cfg hc hs title modName m hv hwf hk1, hp, hbl, hi⟩

/-! ### the module doccomment -/

/-- **C01, end to end, for the module doccomment** `#[[[<blanks>@module<rest>` with `#`-led lines and LF line ends
    (`C01_module_doc`): below the heading line `.. module:: name` — `name` is what follows `@module`, stripped, or the
    path-derived name if that is empty — the body lines stand verbatim, in order, each behind three columns, followed
    by the indented empty line.  (`d.lines ≠ []`: a module doccomment without body lines has empty doc text, for which
    `ModuleDocumentation.process` writes no paragraph at all.) -/
theorem C01_pipeline_module (cfg : Cfg) (hc : Str) (hs : List Str) (title modName : Str) (m : Module)
    (hv : m.valid = true) (hwf : itemsWf false m.items = true)
    (hk1 : cfg.inclCppClass = true ∨ itemsHaveDocumentedClass m.items = false)
    (d : DocC) (sp rest : Str) (hmod : m.modDoc = some d)
    (hl : d.leader = true) (hcr : d.crlf = false) (hi : IndOk d.ind)
    (ho : d.openSuffix = sp ++ lit "@module" ++ rest) (hsp : IndOk sp) (hr : NoNl rest)
    (hn : ∀ t ∈ d.lines, NoNl t) (hne : d.lines ≠ [])
    (hone : ∀ e ∈ m.entries cfg, e.OneLine) (hm : '\n' ∉ modName) :
    ∃ out r, pipeline cfg (hc :: hs) title modName m.render = .ok out ∧
      ([] :: (lit ".. " ++ lit "module" ++ lit ":: " ++
          (if (stripWs (replaceAll (lit "@module") [] rest)).isEmpty then modName
           else stripWs (replaceAll (lit "@module") [] rest))) :: r) <:+: splitNl out ∧
      InDirective r ∧ (d.lines ++ [[]]).map (indent 1 ++ ·) <:+: r := by
  have hnd := C01_module_doc d sp rest hl hcr hi ho hsp hr hn
  generalize hname : stripWs (replaceAll (lit "@module") [] rest) = n at hnd ⊢
  have he : Entry.module n (joinNl (d.lines ++ [[]])) ∈ m.entries cfg := by
    unfold Module.entries
    apply List.mem_append_left
    simp [hmod, hnd]
  have hlines : splitNl (joinNl (d.lines ++ [[]])) = d.lines ++ [[]] := by
    apply splitNl_joinNl (by simp)
    intro l hmem
    rcases List.mem_append.mp hmem with hmem | hmem
    · exact hn l hmem
    · simp at hmem; simp [hmem]
  have hnonempty : (joinNl (d.lines ++ [[]])).isEmpty = false := by
    cases hd : d.lines with
    | nil => exact absurd hd hne
    | cons l ls => rw [List.cons_append, joinNl_cons l (by simp)]; simp
  have hp := C01_entry_on_page hc title modName (m.entries cfg) hm hone _ he
  have hol := C07_nameModule_one_line modName hm _ (hone _ he)
  have hnm : nameModule modName (Entry.module n (joinNl (d.lines ++ [[]]))) =
      Entry.module (if n.isEmpty then modName else n) (joinNl (d.lines ++ [[]])) := by
    simp only [nameModule]; split <;> simp_all
  rw [hnm] at hp hol
  obtain ⟨r, hsplit, hbl, hin⟩ := C01_block_in_entry _ hol (by simp [Entry.hasDocPara, hnonempty])
  rw [hsplit] at hp
  simp only [Entry.docOf, hlines] at hin
  exact ⟨_, r, C01_pipeline_page cfg hc hs title modName m hv hwf hk1, hp, hbl, hin⟩

/-! ## 6. non-vacuity -/

/-! ### a Boolean test for `Entry.OneLine` (to discharge `hone` on concrete modules by evaluation) -/

def Method.oneLineB (m : Method) : Bool :=
  !m.name.contains '\n' && m.params.all (fun p => !p.contains '\n') &&
    (m.paramTypes.take m.params.length).all (fun t => !t.contains '\n')

def Attr.oneLineB (a : Attr) : Bool :=
  !a.name.contains '\n' && (match a.dflt with | some v => !v.contains '\n' | none => true)

def Entry.oneLineB : Entry → Bool
  | .module name _ => !name.contains '\n'
  | .func _ name _ params _ => !name.contains '\n' && params.all (fun p => !p.contains '\n')
  | .var name _ _ value => !name.contains '\n' && (match value with | some v => !v.contains '\n' | none => true)
  | .opt name _ help dflt =>
    !name.contains '\n' && !help.contains '\n' && (match dflt with | some v => !v.contains '\n' | none => true)
  | .generic name _ args => !name.contains '\n' && args.all (fun p => !p.contains '\n')
  | .ctest name _ params => !name.contains '\n' && params.all (fun p => !p.contains '\n')
  | .test _ name _ _ _ _ => !name.contains '\n'
  | .cls name _ _ inner ctors members attrs =>
    !name.contains '\n' && inner.all (fun p => !p.contains '\n') && ctors.all Method.oneLineB &&
      members.all Method.oneLineB && attrs.all Attr.oneLineB

theorem C01_method_oneLine_of_B (m : Method) (h : m.oneLineB = true) : m.OneLine := by
  simp only [Method.oneLineB, Bool.and_eq_true, Bool.not_eq_eq_eq_not, Bool.not_true, List.all_eq_true,
    List.contains_eq_mem, decide_eq_false_iff_not] at h
  exact ⟨h.1.1, h.1.2, h.2⟩

theorem C01_attr_oneLine_of_B (a : Attr) (h : a.oneLineB = true) : a.OneLine := by
  simp only [Attr.oneLineB, Bool.and_eq_true, Bool.not_eq_eq_eq_not, Bool.not_true,
    List.contains_eq_mem, decide_eq_false_iff_not] at h
  refine ⟨h.1, ?_⟩
  intro v hv
  have := h.2
  rw [hv] at this
  simpa using this

theorem C01_oneLine_of_B (e : Entry) (h : e.oneLineB = true) : e.OneLine := by
  cases e with
  | module name doc => simpa [Entry.oneLineB, Entry.OneLine] using h
  | func isMacro name doc params kwargs => simpa [Entry.oneLineB, Entry.OneLine] using h
  | var name doc ty value =>
    cases value <;> simpa [Entry.oneLineB, Entry.OneLine] using h
  | opt name doc help dflt =>
    cases dflt <;> simpa [Entry.oneLineB, Entry.OneLine, and_assoc] using h
  | generic name doc args => simpa [Entry.oneLineB, Entry.OneLine] using h
  | ctest name doc params => simpa [Entry.oneLineB, Entry.OneLine] using h
  | test isSection name doc expectFail params isMacro => simpa [Entry.oneLineB, Entry.OneLine] using h
  | cls name doc supers inner ctors members attrs =>
    simp only [Entry.oneLineB, Bool.and_eq_true, Bool.not_eq_eq_eq_not, Bool.not_true, List.all_eq_true,
      List.contains_eq_mem, decide_eq_false_iff_not] at h
    exact ⟨h.1.1.1.1, h.1.1.1.2, fun m hm => C01_method_oneLine_of_B m (h.1.1.2 m hm),
      fun m hm => C01_method_oneLine_of_B m (h.1.2 m hm), fun a ha => C01_attr_oneLine_of_B a (h.2 a ha)⟩

theorem C01_all_oneLine_of_B (es : List Entry) (h : es.all Entry.oneLineB = true) : ∀ e ∈ es, e.OneLine := by
  intro e he
  exact C01_oneLine_of_B e (List.all_eq_true.1 h e he)

namespace C01

/-! ### a function whose doccomment block is indented by a tab and two blanks

```
message(hi)
<TAB>  #[[[
<TAB>  # #x
<TAB>  #
<TAB>  #   indented
<TAB>  # héllo ✓
<TAB>  #]]
Function(f x)
  option(O "help")
endfunction()
option(P h)
```
The doc lines: one starting with `#`, an empty one, one with relative indentation, one with non-ASCII text. -/

def exDocF : DocC :=
  { pre := [.nl false], ind := lit "\t  ", openSuffix := [],
    lines := [lit "#x", [], lit "  indented", lit "héllo ✓"], leader := true, crlf := false }

def exFnOpen : Call :=
  { pre := [.nl false], name := lit "Function", sp := 0, close := [],
    args := [.tok [] (.bare (lit "f")), .tok [.spaces 1] (.bare (lit "x"))] }

def exFnBody : List Item :=
  [ .cmd none
      { pre := [.nl false, .spaces 2], name := lit "option", sp := 0, close := [],
        args := [.tok [] (.bare (lit "O")), .tok [.spaces 1] (.quoted (lit "help"))] } ]

def exFnClose : Call := { pre := [.nl false], name := lit "endfunction", sp := 0, args := [], close := [] }

def exPageModule : Module :=
  { bom := false, modDoc := none, tail := [.nl false],
    items := [.cmd none (mkCall "message" ["hi"]), .block (some exDocF) exFnOpen exFnBody exFnClose,
      .cmd none (mkCall "option" ["P", "h"])] }

theorem exDocF_canonical : Canonical exDocF := by
  refine ⟨rfl, rfl, rfl, ?_, ?_⟩
  · intro c h
    simp only [exDocF, String.reduceToList, lit, List.mem_cons, List.not_mem_nil, or_false] at h
    rcases h with rfl | rfl | rfl <;> simp
  · intro t h
    simp only [exDocF, String.reduceToList, lit, List.mem_cons, List.not_mem_nil, or_false] at h
    rcases h with rfl | rfl | rfl | rfl <;> simp [NoNl]

theorem exPageModule_valid : exPageModule.valid = true := by
  simp only [exPageModule, exFnOpen, exFnBody, exFnClose, exDocF, mkCall, String.reduceToList, lit, List.map]
  decide

theorem exPageModule_wf : itemsWf false exPageModule.items = true := by
  simp only [exPageModule, exFnOpen, exFnBody, exFnClose, exDocF, mkCall, String.reduceToList, lit, List.map]
  decide

theorem exPageModule_entries : exPageModule.entries {} =
    [ .func false (lit "f") (joinNl (exDocF.lines ++ [[]])) [lit "x"] false,
      .opt (lit "O") [] (lit "\"help\"") none, .opt (lit "P") [] (lit "h") none ] := by
  have h1 : ((Item.cmd none (mkCall "message" ["hi"])).spec {} .none).top = [] := by
    simp only [mkCall, String.reduceToList, List.map]; decide
  have h3 : ((Item.cmd none (mkCall "option" ["P", "h"])).spec {} .none).top = [.opt (lit "P") [] (lit "h") none] := by
    simp only [mkCall, String.reduceToList, List.map, lit]; decide
  have h2 : ((Item.block (some exDocF) exFnOpen exFnBody exFnClose).spec {} .none).top =
      [.func false (lit "f") (joinNl (exDocF.lines ++ [[]])) [lit "x"] false,
       .opt (lit "O") [] (lit "\"help\"") none] := by
    rw [C01_canonical_function {} .none exDocF _ _ _ exDocF_canonical
      (by simp only [exFnOpen, String.reduceToList, lit]; decide)]
    simp only [exDocF, exFnOpen, exFnBody, String.reduceToList, lit]
    decide
  unfold Module.entries
  simp only [exPageModule, List.nil_append, itemsSpec_cons, itemsSpec_nil, Contrib.append_top, h1, h2, h3]
  rfl

theorem exPageModule_oneLine : ∀ e ∈ exPageModule.entries {}, e.OneLine := by
  rw [exPageModule_entries]
  intro e he
  simp only [List.mem_cons, List.not_mem_nil, or_false] at he
  rcases he with rfl | rfl | rfl <;> simp only [Entry.OneLine, String.reduceToList, lit] <;> decide

/-- the page for `exPageModule` -/
example (hc title : Str) :
    ∃ out, pipeline {} [hc] title (lit "mod") exPageModule.render = .ok out ∧
      [lit "   #x", lit "   ", lit "     indented", lit "   héllo ✓", lit "   "] <:+: splitNl out ∧
      ∃ rest, ([] :: lit ".. function:: f(x)" :: rest) <:+: splitNl out ∧ InDirective rest ∧
        [lit "   #x", lit "   ", lit "     indented", lit "   héllo ✓", lit "   "] <:+: rest := by
  have h := C01_pipeline {} hc [] title (lit "mod") exPageModule exPageModule_valid exPageModule_wf (Or.inl rfl)
    [.cmd none (mkCall "message" ["hi"])] [.cmd none (mkCall "option" ["P", "h"])] exDocF exFnOpen exFnBody exFnClose rfl
    (by simp only [exFnOpen, String.reduceToList, lit]; decide) exDocF_canonical exPageModule_oneLine
    (by simp only [String.reduceToList, lit]; decide)
  have hl : (exDocF.lines ++ [[]]).map (indent 1 ++ ·) =
      [lit "   #x", lit "   ", lit "     indented", lit "   héllo ✓", lit "   "] := by
    simp only [exDocF, String.reduceToList, lit]; decide
  have hh : lit ".. " ++ lit "function" ++ lit ":: " ++
      signature (exFnOpen.singles.headD []) ((exFnOpen.singles.drop 1).map ({} : Cfg).stripFn ++
        (if isInfix ({} : Cfg).trigger (joinNl (exDocF.lines ++ [[]])) || itemsCpaDirect exFnBody
         then [lit "**kwargs"] else [])) = lit ".. function:: f(x)" := by
    simp only [exDocF, exFnOpen, exFnBody, String.reduceToList, lit]; decide
  rw [hl, hh] at h
  exact h

/-! ### `exModule` (`TAgg.lean`): module doccomment, class with a documented member -/

theorem exModule_valid' : exModule.valid = true := by
  simp only [exModule, mkCall, mkDoc, String.reduceToList, List.map]
  decide

theorem exModule_oneLine : ∀ e ∈ exModule.entries {}, e.OneLine :=
  C01_all_oneLine_of_B _ (by decide)

theorem mkDoc_canonical (ls : List String) (h : ∀ l ∈ ls, '\n' ∉ l.toList) : Canonical (mkDoc "" ls) := by
  refine ⟨rfl, rfl, rfl, ?_, ?_⟩
  · intro c hc; simp [mkDoc] at hc
  · intro t ht
    simp only [mkDoc, List.mem_map] at ht
    obtain ⟨l, hl, rfl⟩ := ht
    exact h l hl

/-- the member doc `A member.` of `exModule`, inside the directive of `MyClass`, six columns in -/
example (hc title : Str) :
    ∃ out rest, pipeline {} [hc] title (lit "mod") exModule.render = .ok out ∧
      ([] :: lit ".. py:class:: MyClass" :: rest) <:+: splitNl out ∧ InDirective rest ∧
      [lit "      A member.", lit "      "] <:+: rest := by
  have h := C01_pipeline_member {} hc [] title (lit "mod") exModule exModule_valid' (by decide) (Or.inl rfl)
    [.block (some (mkDoc "" ["A function.", ":param a: first"])) (mkCall "function" ["my_fn", "a"])
        [ .block none (mkCall "if" ["a"])
            [ .cmd none (mkCall "cmake_parse_arguments" ["ARG", "OPTS", "ONE", "MULTI", "${ARGN}"]) ]
            (mkCall "endif" []) ]
        (mkCall "endfunction" [])]
    [.decl (some (mkDoc "" ["A test."])) (mkCall "ct_add_test" ["NAME", "t1"]) (mkCall "function" ["${t1}"])
        [ .decl none (mkCall "ct_add_section" ["NAME", "s1", "EXPECTFAIL"]) (mkCall "function" ["${s1}"])
            [] (mkCall "endfunction" []) ]
        (mkCall "endfunction" []),
      .cmd (some (mkDoc "" ["A list."])) (mkCall "set" ["X", "1", "2"]),
      .cmd (some (mkDoc "" ["A call."])) (mkCall "message" ["hello"])]
    (some (mkDoc "" ["A class."])) (mkCall "CPP_CLASS" ["MyClass", "Base"]) _ (mkCall "cpp_end_class" [])
    [] [] (.decl (some (mkDoc "" ["A member."])) (mkCall "cpp_member" ["go", "MyClass", "int"])
            (mkCall "macro" ["_go", "self", "n"]) [] (mkCall "endmacro" []))
    (mkDoc "" ["A member."]) rfl (by simp only [mkCall, String.reduceToList, lit]; decide) (Or.inl rfl) rfl rfl
    (Or.inl (by simp only [mkCall, String.reduceToList, lit]; decide))
    (mkDoc_canonical _ (by intro l hl; simp only [List.mem_singleton] at hl; subst hl; simp only [String.reduceToList]; decide))
    exModule_oneLine
    (by simp only [String.reduceToList, lit]; decide)
  have hl : ((mkDoc "" ["A member."]).lines ++ [[]]).map (indent 2 ++ ·) = [lit "      A member.", lit "      "] := by
    simp only [mkDoc, List.map, String.reduceToList, lit]; decide
  have hh : lit ".. " ++ lit "py:class" ++ lit ":: " ++ (mkCall "CPP_CLASS" ["MyClass", "Base"]).singles.headD [] =
      lit ".. py:class:: MyClass" := by
    simp only [mkCall, List.map, String.reduceToList, lit]; decide
  rw [hl, hh] at h
  exact h

/-- the module doccomment of `exModule` -/
example (hc title : Str) :
    ∃ out r, pipeline {} [hc] title (lit "mod") exModule.render = .ok out ∧
      ([] :: lit ".. module:: mymod" :: r) <:+: splitNl out ∧ InDirective r ∧
      [lit "   Module text.", lit "   "] <:+: r := by
  have h := C01_pipeline_module {} hc [] title (lit "mod") exModule exModule_valid' (by decide) (Or.inl rfl)
    (mkDoc " @module mymod" ["Module text."]) [' '] (lit " mymod") rfl rfl rfl (by intro c hc; simp [mkDoc] at hc)
    (by simp only [mkDoc, String.reduceToList, lit]; decide) (by intro c hc; simp at hc; simp [hc])
    (by simp only [String.reduceToList, lit, NoNl]; decide)
    (by intro t ht; simp only [mkDoc, List.map, String.reduceToList, List.mem_singleton] at ht; subst ht; simp [NoNl])
    (by simp [mkDoc]) exModule_oneLine (by simp only [String.reduceToList, lit]; decide)
  have hl : ((mkDoc " @module mymod" ["Module text."]).lines ++ [[]]).map (indent 1 ++ ·) =
      [lit "   Module text.", lit "   "] := by
    simp only [mkDoc, List.map, String.reduceToList, lit]; decide
  have hh : lit ".. " ++ lit "module" ++ lit ":: " ++
      (if (stripWs (replaceAll (lit "@module") [] (lit " mymod"))).isEmpty then lit "mod"
       else stripWs (replaceAll (lit "@module") [] (lit " mymod"))) = lit ".. module:: mymod" := by
    simp only [String.reduceToList, lit]; decide
  rw [hl, hh] at h
  exact h

/-- the hypothesis `hone` is needed: a function whose name contains a line break (possible with a quoted argument)
    breaks the line structure, and the block statement is not available (`C07`) -/
example : ¬ (Entry.func false (lit "a\nb") [] [] false).OneLine := by
  simp only [Entry.OneLine, String.reduceToList, lit]; decide

/-- a module entry with empty doc has no paragraph (`Entry.hasDocPara`) -/
example : (Entry.module (lit "m") []).toElem = .directive (lit "module") [lit "m"] [] [] := rfl

end C01

end Cminx
