import CminxModel.Glob
import CminxModel.Walk
import CminxLemmas.GlobLemmas
/-!
# C15 (gitignore rules) — what the exclude patterns match

`C15.lean` proves the walk correct for *every* exclusion predicate.  This file is about the predicate itself:
the model of pathspec's gitwildmatch translation in `CminxModel/Glob.lean` (normalisation of the pattern into
segments, translation into a regular expression, search in the normalised path, last match wins), and proves
the rules the property names:

* a bare name matches at any depth (`C15G_bare_name`) — and, because CMinx matches *absolute* paths, also at
  any depth above the input directory (`C15G_K7_above_input`, the formal content of known finding K7);
* a trailing slash restricts the pattern to directories (`C15G_dir_only`, `C15G_dir_only_not_file`);
* `*` globs inside one path component (`C15G_glob_component`), `**/` in front changes nothing
  (`C15G_dstar_prefix`), a pattern that starts with `/` is anchored: an absolute path matches itself and what is
  below it (`C15G_anchored`);
* several patterns: the last pattern that matches decides (`C15G_last_wins`); without negations the result is
  the disjunction, so neither the order of the patterns nor the source that supplied them matters
  (`C15G_union`, `C15G_union_perm`, `C15G_append_mono`);
* the bridge to the walk: `exclOf` computed from bare-name patterns is "some component of the absolute path is
  one of the names" (`C15G_exclOf_bare`).

Paths are the strings CMinx builds: components joined by `/`, a trailing `/` for directories; the leading `/` of
the absolute path is removed by `normalizeFile`.
-/
namespace Cminx
namespace Glob

deriving instance DecidableEq for Except

/-- a name without any character that is special in a pattern -/
def Plain (n : Str) : Prop :=
  n ≠ [] ∧ (∀ c ∈ n, c ≠ '/' ∧ c ≠ '*' ∧ c ≠ '?' ∧ c ≠ '[' ∧ c ≠ '\\' ∧ c ≠ '\n') ∧
  n.head? ≠ some '#' ∧ n.head? ≠ some '!' ∧ (∀ c, n.getLast? = some c → pyIsSpace c = false)

instance (n : Str) : Decidable (Plain n) := by unfold Plain; infer_instance

/-- path components as a file system has them: non-empty, without `/` and line feeds -/
def PathOk (cs : List Str) : Prop :=
  cs ≠ [] ∧ ∀ c ∈ cs, c ≠ [] ∧ (∀ x ∈ c, x ≠ '/' ∧ x ≠ '\n')

instance (cs : List Str) : Decidable (PathOk cs) := by unfold PathOk; infer_instance

/-- the normalised path string: components joined by `/`, plus the trailing slash CMinx appends to directories -/
def pstr (cs : List Str) (isDir : Bool) : Str := joinWith ['/'] cs ++ (if isDir then ['/'] else [])

/-- a whole path component is in the language of a one-segment glob -/
def globWord (g c : Str) : Bool :=
  match segGlob g with
  | .ok re => re.m (fun r => r.isEmpty) c
  | .error _ => false

/-- a one-segment pattern: no `/`, no range notation, no dangling escape, not blank/comment/negation, not `*`/`**` -/
def OneSeg (g : Str) : Prop :=
  g ≠ [] ∧ (∀ c ∈ g, c ≠ '/' ∧ c ≠ '[' ∧ c ≠ '\n') ∧ (∃ re, segGlob g = .ok re) ∧
  g.head? ≠ some '#' ∧ g.head? ≠ some '!' ∧ (∀ c, g.getLast? = some c → pyIsSpace c = false) ∧
  g ≠ ['*'] ∧ g ≠ dstar

/-! ## one pattern -/

/-! bridges from the hypotheses of this file to the lemmas of `CminxLemmas/GlobLemmas.lean` -/

theorem Plain.noMeta {n : Str} (hn : Plain n) : NoMeta n :=
  fun c hc => ⟨(hn.2.1 c hc).2.2.2.2.1, (hn.2.1 c hc).2.1, (hn.2.1 c hc).2.2.1, (hn.2.1 c hc).2.2.2.1⟩

theorem Plain.noSlash {n : Str} (hn : Plain n) : ∀ x ∈ n, x ≠ '/' := fun c hc => (hn.2.1 c hc).1

theorem Plain.ne_dstar {n : Str} (hn : Plain n) : n ≠ dstar := by
  intro e; subst e; exact (hn.2.1 '*' (by simp [dstar])).2.1 rfl

theorem Plain.ne_star {n : Str} (hn : Plain n) : n ≠ ['*'] := by
  intro e; subst e; exact (hn.2.1 '*' (by simp)).2.1 rfl

theorem Plain.ne_slash {n : Str} (hn : Plain n) : n ≠ ['/'] := by
  intro e; subst e; exact hn.noSlash '/' (by simp) rfl

theorem Plain.segRe {n : Str} (hn : Plain n) : SegRe (litRe n) :=
  segGlob_SegRe n hn.noSlash _ (segGlob_litRe n hn.noMeta)

theorem Plain.cbare_eq {n : Str} (hn : Plain n) :
    compile n = .ok (.pat true true (.seq optPre (lastRe (litRe n)))) := by
  rw [compile_clean_pos n hn.1 hn.2.2.2.2 hn.2.2.1 hn.ne_slash hn.2.2.2.1]
  exact compileCore_oneSeg true n _ hn.1 hn.noSlash hn.ne_dstar hn.ne_star (segGlob_litRe n hn.noMeta)

theorem any_beq_eq_mem (n : Str) (cs : List Str) : cs.any (fun c => c == n) = decide (n ∈ cs) := by
  induction cs with
  | nil => simp
  | cons c cs ih =>
    rw [List.any_cons, ih]
    by_cases h : c = n
    · simp [h]
    · have e1 : (c == n) = false := beq_eq_false_iff_ne.2 h
      have e2 : ¬ n = c := fun h' => h h'.symm
      simp [e1, e2]

/-- "a bare name matches at any depth": the pattern `n` hits a path iff `n` is one of its components -/
theorem C15G_bare_name (n : Str) (hn : Plain n) (cs : List Str) (hp : PathOk cs) (isDir : Bool) :
    ∃ re, compile n = .ok (.pat true true re) ∧
      (Compiled.pat true true re).hits (pstr cs isDir) = decide (n ∈ cs) := by
  refine ⟨_, hn.cbare_eq, ?_⟩
  show (Compiled.pat true true _).hits (pathStr cs isDir) = _
  rw [hits_lastRe true _ hn.segRe (by simp [litRe_m_isEmpty, hn.1]) cs hp.1 hp.2 isDir]
  simp only [litRe_m_isEmpty]
  exact any_beq_eq_mem n cs

theorem getLast?_append_singleton_str (n : Str) (x : Char) : (n ++ [x]).getLast? = some x := by simp

theorem Plain.cdir_eq {n : Str} (hn : Plain n) :
    compile (n ++ ['/']) = .ok (.pat true true (.seq optPre (dirRe (litRe n)))) := by
  have h1 : n ++ ['/'] ≠ [] := by simp
  have hl : ∀ c, (n ++ ['/']).getLast? = some c → pyIsSpace c = false := by
    intro c hc; rw [getLast?_append_singleton_str] at hc; cases hc; decide
  have hh : (n ++ ['/']).head? ≠ some '#' := by
    have := hn.2.2.1; cases n with
    | nil => exact absurd rfl hn.1
    | cons a r => simpa using this
  have hb : (n ++ ['/']).head? ≠ some '!' := by
    have := hn.2.2.2.1; cases n with
    | nil => exact absurd rfl hn.1
    | cons a r => simpa using this
  have hs : n ++ ['/'] ≠ ['/'] := by
    cases n with
    | nil => exact absurd rfl hn.1
    | cons a r => simp
  rw [compile_clean_pos _ h1 hl hh hs hb]
  exact compileCore_dir true n _ hn.1 hn.noSlash hn.ne_dstar hn.ne_star (segGlob_litRe n hn.noMeta)

/-- "a trailing slash restricts the pattern to directories": `n/` hits a path iff `n` is a component that is
    followed by a slash — a directory on the way, or the entry itself when it is a directory -/
theorem C15G_dir_only (n : Str) (hn : Plain n) (cs : List Str) (hp : PathOk cs) (isDir : Bool) :
    ∃ re, compile (n ++ ['/']) = .ok (.pat true true re) ∧
      (Compiled.pat true true re).hits (pstr cs isDir) = decide (n ∈ (if isDir then cs else cs.dropLast)) := by
  refine ⟨_, hn.cdir_eq, ?_⟩
  show (Compiled.pat true true _).hits (pathStr cs isDir) = _
  rw [hits_dirRe true _ hn.segRe cs hp.1 hp.2 isDir]
  simp only [litRe_m_isEmpty]
  exact any_beq_eq_mem n _

/-- in particular a *file* called `n` is not matched by `n/` (unless a directory above it is called `n` too) -/
theorem C15G_dir_only_not_file (n : Str) (hn : Plain n) (ds : List Str) (hp : PathOk (ds ++ [n])) (hnd : n ∉ ds) :
    ∃ c, compile (n ++ ['/']) = .ok c ∧ c.hits (pstr (ds ++ [n]) false) = false ∧ c.hits (pstr (ds ++ [n]) true) = true := by
  obtain ⟨re, h1, h2⟩ := C15G_dir_only n hn (ds ++ [n]) hp false
  obtain ⟨re', h1', h3⟩ := C15G_dir_only n hn (ds ++ [n]) hp true
  rw [h1] at h1'; cases h1'
  refine ⟨_, h1, ?_, ?_⟩
  · rw [h2]; simpa using hnd
  · rw [h3]; simp

/-- negation: `!n` compiles to the same expression with the verdict "do not exclude" -/
theorem C15G_negation (n : Str) (hn : Plain n) :
    ∃ re, compile n = .ok (.pat true true re) ∧ compile ('!' :: n) = .ok (.pat false true re) := by
  refine ⟨_, hn.cbare_eq, ?_⟩
  have hl : ∀ c, ('!' :: n).getLast? = some c → pyIsSpace c = false := by
    intro c hc
    rw [List.getLast?_cons_of_ne_nil hn.1] at hc  -- placeholder
    exact hn.2.2.2.2 c hc
  rw [compile_clean_neg n hl]
  exact compileCore_oneSeg false n _ hn.1 hn.noSlash hn.ne_dstar hn.ne_star (segGlob_litRe n hn.noMeta)

/-- `*` and `?` glob inside one component: a one-segment pattern hits a path iff some component, as a whole, is in
    the glob's language -/
theorem C15G_glob_component (g : Str) (hg : OneSeg g) (cs : List Str) (hp : PathOk cs) (isDir : Bool) :
    ∃ re, compile g = .ok (.pat true true re) ∧
      (Compiled.pat true true re).hits (pstr cs isDir) = cs.any (globWord g) := by
  obtain ⟨h0, hch, ⟨G, hG⟩, hh, hb, hl, hs1, hs2⟩ := hg
  have hsl : ∀ x ∈ g, x ≠ '/' := fun x hx => (hch x hx).1
  have hSeg := segGlob_SegRe g hsl G hG
  refine ⟨.seq optPre (lastRe G), ?_, ?_⟩
  · rw [compile_clean_pos g h0 hl hh (by intro e; subst e; exact hsl '/' (by simp) rfl) hb]
    exact compileCore_oneSeg true g G h0 hsl hs2 hs1 hG
  · show (Compiled.pat true true _).hits (pathStr cs isDir) = _
    rw [hits_lastRe true G hSeg (fun h c hc => segGlob_empty g G hG h0 _ h c hc) cs hp.1 hp.2 isDir]
    congr 1; funext c; simp [globWord, hG]

/-- the language of a glob, characterised without regular expressions: `*` any run of non-slash characters,
    `?` one, `\c` and every other character itself -/
theorem C15G_globWord_star (g c : Str) : globWord ('*' :: g) c = (List.range (c.length + 1)).any
    (fun i => (c.take i).all (· != '/') && globWord g (c.drop i)) := by
  unfold globWord
  rw [segGlob_star]
  cases segGlob g with
  | error e => simp [Except.map]
  | ok G =>
    simp only [Except.map, Re.m]
    rw [starK_eq_any]
    rfl

theorem C15G_globWord_lit (x : Char) (g c : Str) (hx : x ≠ '\\' ∧ x ≠ '*' ∧ x ≠ '?' ∧ x ≠ '[') :
    globWord (x :: g) c = match c with
      | [] => false
      | y :: c' => y == x && globWord g c' := by
  unfold globWord
  rw [segGlob_lit x g hx]
  cases segGlob g with
  | error e => cases c <;> simp [Except.map]
  | ok G => cases c <;> simp [Except.map, Re.m, CC.test]

theorem C15G_globWord_nil (c : Str) : globWord [] c = c.isEmpty := by
  simp [globWord, segGlob, Re.m]

/-- `**/` in front of a bare name changes nothing -/
theorem C15G_dstar_prefix (n : Str) (hn : Plain n) : compile (dstar ++ '/' :: n) = compile n := by
  have hl : ∀ c, (dstar ++ '/' :: n).getLast? = some c → pyIsSpace c = false := by
    intro c hc
    have e : (dstar ++ '/' :: n).getLast? = n.getLast? := by
      cases n with
      | nil => exact absurd rfl hn.1
      | cons a r => simp [dstar, List.getLast?_cons_cons]
    rw [e] at hc; exact hn.2.2.2.2 c hc
  rw [compile_clean_pos n hn.1 hn.2.2.2.2 hn.2.2.1 hn.ne_slash hn.2.2.2.1,
    compile_clean_pos _ (by simp [dstar]) hl (by simp [dstar]) (by simp [dstar]) (by simp [dstar])]
  exact compileCore_dstar_prefix true n hn.1 hn.noSlash

/-- `*` alone hits every path -/
theorem C15G_star_all (cs : List Str) (hp : PathOk cs) (isDir : Bool) :
    ∃ c, compile ['*'] = .ok c ∧ c.hits (pstr cs isDir) = true := by
  have hc : compile ['*'] = .ok (.pat true false (.chr .dot)) := by
    rw [compile_clean_pos ['*'] (by simp) (by intro c hc; cases hc; decide) (by simp) (by simp) (by simp)]
    simp [compileCore, splitSlash, normHead, lastToStars, dedupStars, dstar]
  refine ⟨_, hc, ?_⟩
  obtain ⟨hne, hcs⟩ := hp
  cases cs with
  | nil => exact absurd rfl hne
  | cons c cs =>
    obtain ⟨x, t, e, -, h2⟩ := pathStr_head c cs isDir (hcs c List.mem_cons_self)
    show searchFrom _ (pathStr (c :: cs) isDir) = true
    have e2 : (x != '\n') = true := by simpa using h2
    rw [e]; simp [searchFrom, Re.m, CC.test, e2]

theorem Plain.word {n : Str} (hn : Plain n) : Word n := ⟨hn.1, hn.noMeta, hn.noSlash⟩

/-- a pattern that starts with `/` is anchored at the root: the absolute path `/n₁/…/n_k` hits exactly the paths
    whose components start with `n₁ … n_k` — itself and everything below it -/
theorem C15G_anchored (ns : List Str) (hns : ns ≠ []) (hpl : ∀ n ∈ ns, Plain n) (cs : List Str) (hp : PathOk cs)
    (isDir : Bool) :
    ∃ re, compile ('/' :: joinWith ['/'] ns) = .ok (.pat true true re) ∧
      (Compiled.pat true true re).hits (pstr cs isDir) = decide (ns <+: cs) := by
  have hw : ∀ n ∈ ns, Word n := fun n h => (hpl n h).word
  have hlast := hpl _ (List.getLast_mem hns)
  have hgl : ('/' :: joinWith ['/'] ns).getLast? = (ns.getLast hns).getLast? := by
    have h := joinWith_getLast? ['/'] ns hns hlast.1
    have hne : joinWith ['/'] ns ≠ [] := by
      intro e; rw [e] at h
      cases hx : (ns.getLast hns) with
      | nil => exact hlast.1 hx
      | cons a r => rw [hx] at h; have h' := h.symm; simp at h'
    rw [List.getLast?_cons_of_ne_nil hne, h]
  have hs : '/' :: joinWith ['/'] ns ≠ ['/'] := by
    intro e
    have := hgl; rw [e] at this
    have hsl := hlast.noSlash
    cases hx : (ns.getLast hns).getLast? with
    | none => rw [hx] at this; simp at this
    | some y =>
      rw [hx] at this; simp at this; subst this
      exact hsl '/' (List.mem_of_getLast? hx) rfl
  refine ⟨anchRe ns false, ?_, ?_⟩
  · rw [compile_clean_pos _ (by simp) (fun c hc => hlast.2.2.2.2 c (hgl ▸ hc)) (by simp) hs (by simp)]
    exact compileCore_anch true ns hns hw
  · exact anchRe_path ns hns hw cs hp.1 hp.2 isDir

/-- blank lines, comments and a lone `/` never match -/
theorem C15G_skip (p : Str) (h : rstripWs p = [] ∨ p.head? = some '#' ∨ rstripWs p = ['/']) (hb : ¬ (['\\', ' '] : Str).reverse.isPrefixOf p.reverse) :
    compile p = .ok .skip := by
  unfold compile
  simp only [if_neg hb]
  by_cases h1 : rstripWs p = []
  · simp [h1]
  · rw [if_neg h1]
    rcases h with h | h | h
    · exact absurd h h1
    · have hpre := rstripWs_prefix p
      have : (rstripWs p).head? = some '#' := by
        obtain ⟨t, ht⟩ := hpre
        cases hr : rstripWs p with
        | nil => exact absurd hr h1
        | cons a r => rw [hr] at ht; rw [← ht] at h; simpa using h
      rw [if_pos this]
    · simp [h]

/-! ## several patterns -/

/-- the last pattern that matches decides -/
theorem C15G_last_wins (cs : List Compiled) (s : Str) :
    verdict cs s = match cs.reverse.find? (·.hits s) with
      | some (.pat excl _ _) => excl
      | _ => false := by
  have h := last_wins_aux cs.reverse s
  rw [List.reverse_reverse] at h
  rw [h]
  split <;> split <;> simp_all

/-- without negations the verdict is the disjunction of the patterns -/
theorem C15G_union (cs : List Compiled) (hpos : ∀ c ∈ cs, ∀ e a re, c = .pat e a re → e = true) (s : Str) :
    verdict cs s = cs.any (·.hits s) := by
  simpa [verdict_eq_foldl] using foldl_vstep_pos s cs hpos false

/-- … hence independent of the order of the patterns and of how they are spread over sources -/
theorem C15G_union_perm (cs cs' : List Compiled) (hperm : cs.Perm cs')
    (hpos : ∀ c ∈ cs, ∀ e a re, c = .pat e a re → e = true) (s : Str) : verdict cs s = verdict cs' s := by
  rw [C15G_union cs hpos s, C15G_union cs' (fun c hc => hpos c (hperm.mem_iff.2 hc)) s]
  exact hperm.any_eq

/-- … and adding patterns never un-excludes a path -/
theorem C15G_append_mono (cs ds : List Compiled) (hpos : ∀ c ∈ ds, ∀ e a re, c = .pat e a re → e = true) (s : Str)
    (h : verdict cs s = true) : verdict (cs ++ ds) s = true := by
  rw [verdict_append, foldl_vstep_pos s ds hpos, h]; rfl

/-- the pattern list of a run is compiled pattern by pattern -/
theorem C15G_compileAll_append (ps qs : List Str) (cs ds : List Compiled) (h1 : compileAll ps = .ok cs)
    (h2 : compileAll qs = .ok ds) : compileAll (ps ++ qs) = .ok (cs ++ ds) := by
  exact compileAll_append ps qs cs ds h1 h2

/-! ## the bridge to the walk -/

/-- the string CMinx builds for an entry, normalised, is the `pstr` of the components of the absolute input
    directory followed by the relative ones -/
theorem C15G_queryPath (abs rel : List Str) (habs : abs ≠ []) (isDir : Bool) :
    normalizeFile (queryPath ('/' :: joinWith ['/'] abs) rel isDir) = pstr (abs ++ rel) isDir := by
  unfold queryPath pstr
  cases rel with
  | nil => simp [joinWith, normalizeFile]
  | cons r rel =>
    rw [joinWith_cons_ne _ _ _ (by simp), joinWith_append _ _ _ habs (by simp)]
    simp [normalizeFile]

/-- bare names compile to positive patterns whose disjunction is "some name is a component" -/
theorem bare_compileAll (ns : List Str) (hpl : ∀ n ∈ ns, Plain n) :
    ∃ cs, compileAll ns = .ok cs ∧ (∀ c ∈ cs, ∀ e a re, c = .pat e a re → e = true) ∧
      ∀ (path : List Str) (_ : PathOk path) (d : Bool),
        cs.any (·.hits (pstr path d)) = ns.any (fun n => decide (n ∈ path)) := by
  induction ns with
  | nil => exact ⟨[], rfl, by simp, by simp⟩
  | cons n ns ih =>
    obtain ⟨cs, h1, h2, h3⟩ := ih (fun m hm => hpl m (List.mem_cons_of_mem _ hm))
    have hn := hpl n List.mem_cons_self
    refine ⟨.pat true true (.seq optPre (lastRe (litRe n))) :: cs,
      by simp [compileAll, hn.cbare_eq, h1, Except.map], ?_, ?_⟩
    · intro c hc e a re he
      rcases List.mem_cons.1 hc with rfl | hc
      · cases he; rfl
      · exact h2 c hc e a re he
    · intro path hp d
      obtain ⟨re, hre, hh⟩ := C15G_bare_name n hn path hp d
      rw [hn.cbare_eq] at hre; cases hre
      rw [List.any_cons, List.any_cons, hh, h3 path hp d]

/-- bare-name patterns: an entry of the walk is excluded iff one of the names is a component of its absolute path -/
theorem C15G_exclOf_bare (ns : List Str) (hpl : ∀ n ∈ ns, Plain n) (abs rel : List Str) (hp : PathOk (abs ++ rel))
    (habs : abs ≠ []) (isDir : Bool) :
    ∃ cs, compileAll ns = .ok cs ∧
      exclOf cs ('/' :: joinWith ['/'] abs) rel isDir = ns.any (fun n => decide (n ∈ abs ++ rel)) := by
  obtain ⟨cs, h1, h2, h3⟩ := bare_compileAll ns hpl
  refine ⟨cs, h1, ?_⟩
  unfold exclOf
  rw [C15G_queryPath abs rel habs isDir, C15G_union cs h2, h3 _ hp isDir]

/-- known finding K7, as a theorem about the model: a bare name that also names a directory *above* the input
    excludes every entry of the walk, the input directory included -/
theorem C15G_K7_above_input (ns : List Str) (hpl : ∀ n ∈ ns, Plain n) (abs : List Str) (n : Str) (hn : n ∈ ns)
    (hab : n ∈ abs) (rel : List Str) (hp : PathOk (abs ++ rel)) (isDir : Bool) :
    ∃ cs, compileAll ns = .ok cs ∧ exclOf cs ('/' :: joinWith ['/'] abs) rel isDir = true := by
  have habs : abs ≠ [] := by intro e; subst e; simp at hab
  obtain ⟨cs, h1, h2⟩ := C15G_exclOf_bare ns hpl abs rel hp habs isDir
  refine ⟨cs, h1, ?_⟩
  rw [h2, List.any_eq_true]
  exact ⟨n, hn, by simp [hab]⟩

/-! ## non-vacuity: the hypotheses are met, and the model evaluated by the kernel on concrete patterns -/

example : Plain (lit "build") ∧ PathOk [lit "home", lit "u", lit "proj", lit "build", lit "x.cmake"] := by decide

example : matchFile [lit "build/", lit "!keep.cmake", lit "*.in.cmake"] (lit "/home/u/proj/build/") = .ok true := by decide +kernel
example : matchFile [lit "build/"] (lit "/home/u/proj/build") = .ok false := by decide +kernel
example : matchFile [lit "*.in.cmake"] (lit "/home/u/proj/a.in.cmake") = .ok true := by decide +kernel
example : matchFile [lit "a/**/b"] (lit "/a/x/y/b/") = .ok true := by decide +kernel
example : matchFile [lit "x", lit "!x"] (lit "/p/x") = .ok false := by decide +kernel
example : matchFile [lit "a\\"] (lit "/a") = .error .invalid := by decide +kernel
example : matchFile [lit "a[bc]"] (lit "/ab") = .error .unsupported := by decide +kernel

theorem segGlob_ok_of_check (g : Str) (h : (match segGlob g with | .ok _ => true | .error _ => false) = true) :
    ∃ re, segGlob g = .ok re := by
  cases hs : segGlob g with
  | ok re => exact ⟨re, rfl⟩
  | error e => rw [hs] at h; cases h

/-- the hypotheses of `C15G_glob_component` are met by ordinary patterns -/
example : OneSeg (lit "*.cmake") ∧ OneSeg (lit "mod?le-*") :=
  ⟨⟨by decide, by decide, segGlob_ok_of_check _ (by decide +kernel), by decide, by decide, by decide, by decide, by decide⟩,
   ⟨by decide, by decide, segGlob_ok_of_check _ (by decide +kernel), by decide, by decide, by decide, by decide, by decide⟩⟩
example : (match compile (lit "*.cmake") with
    | .ok c => c.hits (pstr [lit "p", lit "a.cmake"] false) && !c.hits (pstr [lit "p", lit "a.txt"] false)
    | .error _ => false) = true := by decide +kernel

end Glob
end Cminx
